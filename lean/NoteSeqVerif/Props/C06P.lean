import NoteSeqVerif.Proofs.C06PNote
import NoteSeqVerif.Proofs.C06PEvents
import NoteSeqVerif.Proofs.C06PExtract
import NoteSeqVerif.Proofs.C06PFull
/-! C06 (performance half) — property theorems and non-vacuity examples.

Models: `Model/C06P.lean` (renderers, canonical predicates), `Model/C07.lean` (extractors), `Model/C01.lean`
(quantizers); float half: `Proofs/C06Float.lean` through the `Grid` interface of `Proofs/C06PFloat.lean`.

* `roundtrip_Performance`, `roundtrip_MetricPerformance`, `roundtrip_NotePerformance`: render → quantize at the same
  resolution → extract = identity (events, start step, resolution, bins, max shift) for every canonical event list,
  no size bound other than steps `< 2^40`, every `Rounding` operator (`rne53` = IEEE binary64 included);
* `extract_canonical_Perf`, `extract_canonical_NotePerf`: canonical = what extraction itself produces;
* `roundtrip_*_normal`: strictly canonical lists are normal forms of the round trip;
* examples: non-vacuity at awkward tempi, and why the extractor's output on overlapping notes of one pitch is NOT
  round-trippable (FIFO re-matching reorders simultaneous NOTE_OFFs). -/
namespace NSV.C06P
open NSV NSV.C06 NSV.C01 NSV.C07

/-! ## NotePerformance -/

/-- **roundtrip_NotePerformance**: for every canonical tuple list (`CanonicalNotePerf`: shift in
`0..max_shift_steps`, duration in `1..max_duration_steps`, pitch in `0..127`, bin in `1..127`, tuples of one step in
pitch order), every bin count `1..127`, every `steps_per_second ≥ 1`, every start step `≥ 0` (all steps below
`2^40`), every rounding operator satisfying `Rounding` (in particular IEEE binary64):
`NotePerformance.to_sequence` → `quantize_note_sequence_absolute` at the same rate → `NotePerformance(…)` returns
exactly the same tuples, start step, resolution and bin count. -/
theorem roundtrip_NotePerformance {R : ℚ → ℚ} (hR : Rounding R) (p : NotePerfObj) (inst : Int) (prog : Option Int)
    (ms md : Int) (filt : Option Int)
    (hcanon : CanonicalNotePerf ms md p.events)
    (hnb1 : 1 ≤ p.nb) (hnb2 : p.nb ≤ 127) (hsps : 0 < p.stepsPerSecond) (hS : 0 ≤ p.startStep)
    (hfilt : filt = none ∨ filt = some inst)
    (hbound : p.startStep + npSpan p.events < 2 ^ 40) :
    ∃ r, rtNotePerfR R p inst prog ms md filt = .ok r ∧ r.events = p.events ∧ r.startStep = p.startStep ∧
      r.stepsPerSecond = p.stepsPerSecond ∧ r.numVelocityBins = p.nb := by
  unfold CanonicalNotePerf CanonicalNotePerfB at hcanon
  simp only [Bool.and_eq_true, List.all_eq_true] at hcanon
  obtain ⟨hok, hord⟩ := hcanon
  -- the rendered sequence
  let σ := secPerStepAbsR R p.stepsPerSecond
  let c : RenderCfg := ⟨σ, seqStartR R σ p.startStep, none, inst, resolveProgram prog p.program, resolveDrum p.isDrum⟩
  let rs := npSpec p.nb 0 p.events
  have hne : ¬ p.stepsPerSecond = 0 := by omega
  have hrender : notePerfToSequenceR R p inst prog =
      .ok { notes := rs.map (mkNote R c), totalTime := totalTimeOf (rs.map (mkNote R c)), tpq := Gen.STANDARD_PPQ } := by
    simp only [notePerfToSequenceR, hne, ↓reduceIte, notePerfNotes_ok p.nb (by omega)]
    rfl
  -- the grid
  have hspan := npSpan_nonneg ms md p.events hok
  let B := npSpan p.events + 1
  have g := grid_abs hR p.stepsPerSecond p.startStep B hsps hS (by omega)
  have hin : ∀ r ∈ rs, r.inB B := by
    intro r hr
    have := npSpec_bounds p.nb ms md p.events 0 hok r hr
    exact ⟨by omega, by omega, by omega⟩
  obtain ⟨q, hq, hqn, hqsps, _⟩ := quantizeAbs_grid (R := R) (c := c) C01.Gen.QUANTIZE_CUTOFF p.stepsPerSecond
    { notes := rs.map (mkNote R c), totalTime := totalTimeOf (rs.map (mkNote R c)), tpq := Gen.STANDARD_PPQ }
    rs rfl rfl rfl g hS rfl hin
  -- extraction
  have hsel : selectNotes q p.startStep filt = q.notes := by
    unfold selectNotes
    rw [List.filter_eq_self]
    intro n hn
    rw [hqn] at hn
    obtain ⟨r, hr, rfl⟩ := List.mem_map.mp hn
    have h0 := (hin r hr).1
    have hi : instOk filt (qnote R c p.startStep r) = true := by
      rcases hfilt with rfl | rfl
      · rfl
      · simp [instOk, qnote, mkNote, c]
    simp only [Bool.and_eq_true, decide_eq_true_eq, hi, and_true]
    show p.startStep ≤ p.startStep + r.s
    omega
  have hsorted : sortedNotes q p.startStep filt = q.notes := by
    unfold sortedNotes
    rw [hsel, hqn]
    apply List.mergeSort_of_pairwise
    rw [List.pairwise_map]
    refine (npSpec_sorted p.nb ms md p.events 0 hok hord).imp_of_mem ?_
    intro a b ha hb hab
    rw [timePitchLe_qnote g a b (hin a ha) (hin b hb)]
    exact hab
  have hloop := notePerfLoop_roundtrip (R := R) c p.startStep p.nb ms md hnb1 p.events 0 hok
  rw [Int.add_zero] at hloop
  change notePerfLoop p.nb ms md p.startStep (List.map (qnote R c p.startStep) rs) = _ at hloop
  refine ⟨⟨p.events, p.startStep, p.nb, (programAndIsDrum q filt).1, (programAndIsDrum q filt).2, q.sps⟩, ?_, rfl, rfl,
    hqsps, rfl⟩
  unfold rtNotePerfR
  rw [hrender]
  simp only [liftR, Except.bind, hq, liftQ]
  unfold notePerfFromQuantized
  have hnbv : ¬ p.nb > C07.Gen.MAX_NUM_VELOCITY_BINS := by simp only [C07.Gen.MAX_NUM_VELOCITY_BINS]; omega
  have hqpos : 0 < q.sps := by rw [hqsps]; exact hsps
  simp only [hnbv, ↓reduceIte, hqpos, not_true_eq_false, hsorted, hqn, hloop, liftX]

/-- **extract_canonical_NotePerf**: whatever `NotePerformance(quantized_sequence, …)` returns is canonical, for every
quantized sequence in which the notes of one step carry one start time (true of every sequence `to_sequence`
renders, and of any sequence on a grid) — so `CanonicalNotePerf` is "what extraction itself produces" and the
hypothesis of `roundtrip_NotePerformance` is never vacuous. -/
theorem extract_canonical_NotePerf (s : NoteSeq) (nb : Int) (inst : Option Int) (start ms md : Int)
    (hgrid : ∀ a ∈ s.notes, ∀ b ∈ s.notes, a.qs = b.qs → a.start = b.start)
    (r : NotePerfResult) (h : notePerfFromQuantized s nb inst start ms md = .ok r) :
    CanonicalNotePerf ms md r.events := by
  unfold notePerfFromQuantized at h
  simp only at h
  split at h
  · simp at h
  split at h
  · simp at h
  cases hl : notePerfLoop nb ms md start (sortedNotes s start inst) with
  | error x => rw [hl] at h; simp at h
  | ok evs =>
    rw [hl] at h
    simp only [Except.ok.injEq] at h
    subst h
    have hpw : (sortedNotes s start inst).Pairwise (fun a b => a.qs = b.qs → a.pitch ≤ b.pitch) := by
      have h1 := List.pairwise_mergeSort (le := timePitchLe) timePitchLe_trans timePitchLe_total
        (selectNotes s start inst)
      refine List.Pairwise.imp_of_mem ?_ h1
      intro a b ha hb hab hq
      have ha' := (mem_sortedNotes.mp ha).1
      have hb' := (mem_sortedNotes.mp hb).1
      have hst := hgrid a ha' b hb' hq
      simp only [timePitchLe, Bool.or_eq_true, decide_eq_true_eq, Bool.and_eq_true, beq_iff_eq] at hab
      rcases hab with h' | ⟨_, h'⟩
      · rw [hst] at h'; exact absurd h' (lt_irrefl _)
      · exact h'
    obtain ⟨i1, i2, _⟩ := notePerfLoop_canonical nb ms md _ start evs hl hpw
    unfold CanonicalNotePerf CanonicalNotePerfB
    simp only [Bool.and_eq_true, List.all_eq_true]
    exact ⟨i1, i2⟩

/-! non-vacuity: a chord, a later note and a maximal duration, 8 bins, 100 steps/s, start step 7 -/
def exNP : NotePerfObj := ⟨[⟨0, 60, 3, 4⟩, ⟨0, 64, 3, 4⟩, ⟨0, 64, 8, 2⟩, ⟨5, 48, 1, 1000⟩], 7, 8, 100, none, none⟩

example : CanonicalNotePerf 1000 1000 exNP.events := by decide
example : ∃ r, rtNotePerfR rne53 exNP 0 none 1000 1000 none = .ok r ∧ r.events = exNP.events ∧ r.startStep = 7 ∧
    r.stepsPerSecond = 100 ∧ r.numVelocityBins = 8 :=
  roundtrip_NotePerformance rounding_rne53 exNP 0 none 1000 1000 none (by decide) (by decide) (by decide) (by decide)
    (by decide) (Or.inl rfl) (by decide)
/-- tuples of one step out of pitch order are not canonical — and do not survive the round trip -/
example : ¬ CanonicalNotePerf 1000 1000 [⟨0, 64, 3, 4⟩, ⟨0, 60, 3, 4⟩] := by decide

/-! ## Performance / MetricPerformance -/

/-- the round trip of the `Performance` object `p` (absolute quantization) returns the event list `evs`, and `p`'s
start step, resolution, bin count and maximal shift -/
def RoundtripPerfTo (R : ℚ → ℚ) (p : PerfObj) (a : SeqArgs) (filt : Option Int) (evs : List PEvent) : Prop :=
  ∃ r, rtPerfR R p a filt = .ok r ∧ r.events = evs ∧ r.startStep = p.startStep ∧
    r.stepsPer = p.stepsPer ∧ r.numVelocityBins = p.nb ∧ r.maxShiftSteps = p.maxShift

/-- … of the `MetricPerformance` object `p` at tempo `qpm` (`max_shift_steps = spq · max_shift_quarters`) -/
def RoundtripMetricTo (R : ℚ → ℚ) (p : PerfObj) (a : SeqArgs) (qpm : ℚ) (msq : Int) (filt : Option Int)
    (evs : List PEvent) : Prop :=
  ∃ r, rtMetricR R p a qpm msq filt = .ok r ∧ r.events = evs ∧ r.startStep = p.startStep ∧
    r.stepsPer = p.stepsPer ∧ r.numVelocityBins = p.nb ∧ r.maxShiftSteps = p.maxShift

/-- the statement of the property for one object: the round trip is the identity -/
def RoundtripPerf (R : ℚ → ℚ) (p : PerfObj) (a : SeqArgs) (filt : Option Int) : Prop :=
  RoundtripPerfTo R p a filt p.events

def RoundtripMetric (R : ℚ → ℚ) (p : PerfObj) (a : SeqArgs) (qpm : ℚ) (msq : Int) (filt : Option Int) : Prop :=
  RoundtripMetricTo R p a qpm msq filt p.events

/-- the configurations of the quantifier: bins `0..127`, a positive resolution, a non-negative start step, no
`max_note_duration`, re-extraction of the rendered instrument (or of all), all steps below `2^40` -/
structure PerfDomain (p : PerfObj) (a : SeqArgs) (filt : Option Int) : Prop where
  nb0 : 0 ≤ p.nb
  nb1 : p.nb ≤ 127
  res : 0 < p.stepsPer
  start : 0 ≤ p.startStep
  noCut : a.maxDur = none
  filt : filt = none ∨ filt = some a.instrument
  bound : p.startStep + shiftSum p.events < 2 ^ 40

/-- `p` renders to the same notes (as a multiset of pitch, start step, end step, velocity) as the event list `evs` -/
def SameNotes (p : PerfObj) (a : SeqArgs) (evs : List PEvent) : Prop :=
  ∃ D D', decodeEvents p.nb a.velocity evs = .ok D ∧ decodeEvents p.nb a.velocity p.events = .ok D' ∧ D'.Perm D

/-- **roundtrip_Performance_normal** (canonical lists are normal forms): if `p` renders to the same notes as a
canonical event list `evs`, the round trip of `p` returns `evs`.  For `evs = p.events` this is the property. -/
theorem roundtrip_Performance_normal {R : ℚ → ℚ} (hR : Rounding R) (p : PerfObj) (a : SeqArgs)
    (filt : Option Int) (evs : List PEvent) (hcanon : CanonicalPerf p.nb p.maxShift evs)
    (hd : PerfDomain ⟨evs, p.startStep, p.nb, p.maxShift, p.stepsPer, p.program, p.isDrum⟩ a filt)
    (hsame : SameNotes p a evs) : RoundtripPerfTo R p a filt evs := by
  obtain ⟨hnb0, hnb1, hsps, hS, hmd, hfilt, hbound⟩ := hd
  simp only at hnb0 hnb1 hsps hS hbound
  let σ := secPerStepAbsR R p.stepsPer
  let c : RenderCfg := ⟨σ, seqStartR R σ p.startStep, none, a.instrument, resolveProgram a.program p.program,
    resolveDrum p.isDrum⟩
  have g := grid_abs hR p.stepsPer p.startStep (shiftSum evs + 1) hsps hS (by omega)
  obtain ⟨D, hD, hin, hext⟩ := perfEvents_roundtrip (R := R) (c := c) p.nb p.maxShift a.velocity evs hcanon
    hnb0 g filt hfilt
  obtain ⟨D0, D', hD0, hD', hperm⟩ := hsame
  rw [hD] at hD0
  simp only [Except.ok.injEq] at hD0
  subst hD0
  have hin' : ∀ r ∈ D', r.inB (shiftSum evs + 1) := fun r hr => hin r (hperm.mem_iff.mp hr)
  have hne : ¬ p.stepsPer = 0 := by omega
  have hrender : perfToSequenceR R p a =
      .ok { notes := D'.map (mkNote R c), totalTime := totalTimeOf (D'.map (mkNote R c)), tpq := Gen.STANDARD_PPQ } := by
    simp only [perfToSequenceR, hne, ↓reduceIte, toSequenceCore, hD', hmd]
    rfl
  obtain ⟨q, hq, hqn, hqsps, _⟩ := quantizeAbs_grid (R := R) (c := c) C01.Gen.QUANTIZE_CUTOFF p.stepsPer
    { notes := D'.map (mkNote R c), totalTime := totalTimeOf (D'.map (mkNote R c)), tpq := Gen.STANDARD_PPQ }
    D' rfl rfl rfl g hS rfl hin'
  have hev := hext q (by rw [hqn]; exact hperm.map _)
  refine ⟨⟨evs, p.startStep, p.nb, p.maxShift, (programAndIsDrum q filt).1, (programAndIsDrum q filt).2, q.sps⟩,
    ?_, rfl, rfl, hqsps, rfl, rfl⟩
  unfold rtPerfR
  rw [hrender]
  simp only [liftR, Except.bind, hq, liftQ]
  unfold perfFromQuantized
  have hnbv : ¬ p.nb > C07.Gen.MAX_NUM_VELOCITY_BINS := by simp only [C07.Gen.MAX_NUM_VELOCITY_BINS]; omega
  have hqpos : 0 < q.sps := by rw [hqsps]; exact hsps
  simp only [hqpos, not_true_eq_false, ↓reduceIte, hev, hnbv, liftX]

/-- a canonical event list renders to the same notes as itself (in particular: without error) -/
theorem sameNotes_self (p : PerfObj) (a : SeqArgs) (hcanon : CanonicalPerf p.nb p.maxShift p.events) :
    SameNotes p a p.events :=
  ⟨_, _, decodeEvents_canonical _ _ _ _ hcanon, decodeEvents_canonical _ _ _ _ hcanon, List.Perm.refl _⟩

/-- **roundtrip_Performance_partial**: for every canonical event list (`CanonicalPerf`: laid out as the extractor
lays out its stream; every NOTE_OFF ends an earlier NOTE_ON of its pitch, FIFO; events in the extractor's
`(step, note, on-before-off)` order; NOTE_ONs in `(step, pitch)` order, no two of one pitch on one step),
every bin count `0..127`, every `max_shift_steps ≥ 1`, every `steps_per_second ≥ 1`, every start step `≥ 0`
(steps below `2^40`) and every rounding operator satisfying `Rounding` (IEEE binary64 included):
`Performance.to_sequence` → `quantize_note_sequence_absolute` → `Performance(quantized_sequence=…)` returns
exactly the same events, start step, resolution, bin count and maximal shift.  Notes of one pitch MAY overlap. -/
theorem roundtrip_Performance_partial {R : ℚ → ℚ} (hR : Rounding R) (p : PerfObj) (a : SeqArgs)
    (filt : Option Int) (hcanon : CanonicalPerf p.nb p.maxShift p.events) (hd : PerfDomain p a filt) :
    RoundtripPerf R p a filt :=
  roundtrip_Performance_normal hR p a filt p.events hcanon hd (sameNotes_self p a hcanon)

/-- **roundtrip_MetricPerformance_normal**: the same for `MetricPerformance` at any tempo `qpm > 0` (any rational,
hence any double) and any `steps_per_quarter ≥ 1`: `to_sequence(qpm)` → `quantize_note_sequence` →
`MetricPerformance(quantized_sequence=…, max_shift_quarters)` with `max_shift_steps = spq · max_shift_quarters`. -/
theorem roundtrip_MetricPerformance_normal {R : ℚ → ℚ} (hR : Rounding R) (p : PerfObj) (a : SeqArgs) (qpm : ℚ)
    (msq : Int) (filt : Option Int) (evs : List PEvent) (hcanon : CanonicalPerf p.nb p.maxShift evs)
    (hd : PerfDomain ⟨evs, p.startStep, p.nb, p.maxShift, p.stepsPer, p.program, p.isDrum⟩ a filt)
    (hqpm : 0 < qpm) (hms : p.maxShift = p.stepsPer * msq) (hsame : SameNotes p a evs) :
    RoundtripMetricTo R p a qpm msq filt evs := by
  obtain ⟨hnb0, hnb1, hspq, hS, hmd, hfilt, hbound⟩ := hd
  simp only at hnb0 hnb1 hspq hS hbound
  let σ := secPerStepMetricR R qpm p.stepsPer
  let c : RenderCfg := ⟨σ, seqStartR R σ p.startStep, none, a.instrument, resolveProgram a.program p.program,
    resolveDrum p.isDrum⟩
  have g := grid_metric hR qpm p.stepsPer p.startStep (shiftSum evs + 1) hqpm hspq hS (by omega)
  obtain ⟨D, hD, hin, hext⟩ := perfEvents_roundtrip (R := R) (c := c) p.nb p.maxShift a.velocity evs hcanon
    hnb0 g filt hfilt
  obtain ⟨D0, D', hD0, hD', hperm⟩ := hsame
  rw [hD] at hD0
  simp only [Except.ok.injEq] at hD0
  subst hD0
  have hin' : ∀ r ∈ D', r.inB (shiftSum evs + 1) := fun r hr => hin r (hperm.mem_iff.mp hr)
  have hpos : (0 : ℚ) < (p.stepsPer : ℚ) * qpm := by
    have : (0 : ℚ) < p.stepsPer := by exact_mod_cast hspq
    positivity
  have hne : ¬ R ((p.stepsPer : ℚ) * qpm) = 0 := by
    have hb := (hR.bounds hpos.le).1
    have hw : (0 : ℚ) < 1 - 1 / 2 ^ 53 := by norm_num
    have := mul_pos hpos hw
    intro h0; rw [h0] at hb; linarith
  have hrender : metricToSequenceR R p a qpm =
      .ok { notes := D'.map (mkNote R c), totalTime := totalTimeOf (D'.map (mkNote R c)), tpq := Gen.STANDARD_PPQ,
            tempos := [⟨0, qpm⟩] } := by
    simp only [metricToSequenceR, hne, ↓reduceIte, toSequenceCore, hD', hmd]
    rfl
  obtain ⟨q, hq, hqn, hqspq, _⟩ := quantizeRel_grid (R := R) (c := c) C01.Gen.QUANTIZE_CUTOFF C01.Gen.DEFAULT_QPM
    qpm p.stepsPer
    { notes := D'.map (mkNote R c), totalTime := totalTimeOf (D'.map (mkNote R c)), tpq := Gen.STANDARD_PPQ,
      tempos := [⟨0, qpm⟩] }
    D' rfl rfl rfl rfl rfl g hS rfl hin'
  have hev := hext q (by rw [hqn]; exact hperm.map _)
  rw [hms] at hev
  refine ⟨⟨evs, p.startStep, p.nb, q.spq * msq, (programAndIsDrum q filt).1, (programAndIsDrum q filt).2, q.spq⟩,
    ?_, rfl, rfl, hqspq, rfl, by rw [hqspq, hms]⟩
  unfold rtMetricR
  rw [hrender]
  simp only [liftR, Except.bind, hq, liftQ]
  unfold metricPerfFromQuantized
  have hnbv : ¬ p.nb > C07.Gen.MAX_NUM_VELOCITY_BINS := by simp only [C07.Gen.MAX_NUM_VELOCITY_BINS]; omega
  simp only [hqspq, hspq, not_true_eq_false, ↓reduceIte, hev, hnbv, liftX]

/-- **roundtrip_MetricPerformance_partial**: the property for `MetricPerformance`, every canonical event list, every
tempo `qpm > 0`, every `steps_per_quarter ≥ 1`, every `max_shift_quarters` with `max_shift_steps ≥ 1` -/
theorem roundtrip_MetricPerformance_partial {R : ℚ → ℚ} (hR : Rounding R) (p : PerfObj) (a : SeqArgs) (qpm : ℚ)
    (msq : Int) (filt : Option Int) (hcanon : CanonicalPerf p.nb p.maxShift p.events) (hd : PerfDomain p a filt)
    (hqpm : 0 < qpm) (hms : p.maxShift = p.stepsPer * msq) : RoundtripMetric R p a qpm msq filt :=
  roundtrip_MetricPerformance_normal hR p a qpm msq filt p.events hcanon hd hqpm hms (sameNotes_self p a hcanon)

/-- **roundtrip_Performance** — the property at full strength for `Performance`: for every canonical event list
(`CanonicalPerfFull`: as `CanonicalPerf`, and several NOTE_ONs of one pitch may share a step), every bin count
`0..127`, `max_shift_steps ≥ 1`, `steps_per_second ≥ 1`, start step `≥ 0` (steps below `2^40`), every `Rounding`
operator: `to_sequence` → `quantize_note_sequence_absolute` → `Performance(quantized_sequence=…)` is the identity on
events, start step, resolution, bin count and maximal shift. -/
theorem roundtrip_Performance {R : ℚ → ℚ} (hR : Rounding R) (p : PerfObj) (a : SeqArgs) (filt : Option Int)
    (hcanon : CanonicalPerfFull p.nb p.maxShift p.events) (hd : PerfDomain p a filt) : RoundtripPerf R p a filt := by
  obtain ⟨hnb0, hnb1, hsps, hS, hmd, hfilt, hbound⟩ := hd
  let σ := secPerStepAbsR R p.stepsPer
  let c : RenderCfg := ⟨σ, seqStartR R σ p.startStep, none, a.instrument, resolveProgram a.program p.program,
    resolveDrum p.isDrum⟩
  have g := grid_abs hR p.stepsPer p.startStep (shiftSum p.events + 1) hsps hS (by omega)
  obtain ⟨D, hD, hin, hext⟩ := perfEvents_roundtrip_full (R := R) (c := c) p.nb p.maxShift a.velocity p.events
    hcanon hnb0 g filt hfilt
  have hne : ¬ p.stepsPer = 0 := by omega
  have hrender : perfToSequenceR R p a =
      .ok { notes := D.map (mkNote R c), totalTime := totalTimeOf (D.map (mkNote R c)), tpq := Gen.STANDARD_PPQ } := by
    simp only [perfToSequenceR, hne, ↓reduceIte, toSequenceCore, hD, hmd]
    rfl
  obtain ⟨q, hq, hqn, hqsps, _⟩ := quantizeAbs_grid (R := R) (c := c) C01.Gen.QUANTIZE_CUTOFF p.stepsPer
    { notes := D.map (mkNote R c), totalTime := totalTimeOf (D.map (mkNote R c)), tpq := Gen.STANDARD_PPQ }
    D rfl rfl rfl g hS rfl hin
  have hev := hext q hqn
  refine ⟨⟨p.events, p.startStep, p.nb, p.maxShift, (programAndIsDrum q filt).1, (programAndIsDrum q filt).2, q.sps⟩,
    ?_, rfl, rfl, hqsps, rfl, rfl⟩
  unfold rtPerfR
  rw [hrender]
  simp only [liftR, Except.bind, hq, liftQ]
  unfold perfFromQuantized
  have hnbv : ¬ p.nb > C07.Gen.MAX_NUM_VELOCITY_BINS := by simp only [C07.Gen.MAX_NUM_VELOCITY_BINS]; omega
  have hqpos : 0 < q.sps := by rw [hqsps]; exact hsps
  simp only [hqpos, not_true_eq_false, ↓reduceIte, hev, hnbv, liftX]

/-- **roundtrip_MetricPerformance** — the property at full strength for `MetricPerformance`, at every tempo
`qpm > 0` and every `steps_per_quarter ≥ 1` -/
theorem roundtrip_MetricPerformance {R : ℚ → ℚ} (hR : Rounding R) (p : PerfObj) (a : SeqArgs) (qpm : ℚ)
    (msq : Int) (filt : Option Int) (hcanon : CanonicalPerfFull p.nb p.maxShift p.events) (hd : PerfDomain p a filt)
    (hqpm : 0 < qpm) (hms : p.maxShift = p.stepsPer * msq) : RoundtripMetric R p a qpm msq filt := by
  obtain ⟨hnb0, hnb1, hspq, hS, hmd, hfilt, hbound⟩ := hd
  let σ := secPerStepMetricR R qpm p.stepsPer
  let c : RenderCfg := ⟨σ, seqStartR R σ p.startStep, none, a.instrument, resolveProgram a.program p.program,
    resolveDrum p.isDrum⟩
  have g := grid_metric hR qpm p.stepsPer p.startStep (shiftSum p.events + 1) hqpm hspq hS (by omega)
  obtain ⟨D, hD, hin, hext⟩ := perfEvents_roundtrip_full (R := R) (c := c) p.nb p.maxShift a.velocity p.events
    hcanon hnb0 g filt hfilt
  have hpos : (0 : ℚ) < (p.stepsPer : ℚ) * qpm := by
    have : (0 : ℚ) < p.stepsPer := by exact_mod_cast hspq
    positivity
  have hne : ¬ R ((p.stepsPer : ℚ) * qpm) = 0 := by
    have hb := (hR.bounds hpos.le).1
    have hw : (0 : ℚ) < 1 - 1 / 2 ^ 53 := by norm_num
    have := mul_pos hpos hw
    intro h0; rw [h0] at hb; linarith
  have hrender : metricToSequenceR R p a qpm =
      .ok { notes := D.map (mkNote R c), totalTime := totalTimeOf (D.map (mkNote R c)), tpq := Gen.STANDARD_PPQ,
            tempos := [⟨0, qpm⟩] } := by
    simp only [metricToSequenceR, hne, ↓reduceIte, toSequenceCore, hD, hmd]
    rfl
  obtain ⟨q, hq, hqn, hqspq, _⟩ := quantizeRel_grid (R := R) (c := c) C01.Gen.QUANTIZE_CUTOFF C01.Gen.DEFAULT_QPM
    qpm p.stepsPer
    { notes := D.map (mkNote R c), totalTime := totalTimeOf (D.map (mkNote R c)), tpq := Gen.STANDARD_PPQ,
      tempos := [⟨0, qpm⟩] }
    D rfl rfl rfl rfl rfl g hS rfl hin
  have hev := hext q hqn
  rw [hms] at hev
  refine ⟨⟨p.events, p.startStep, p.nb, q.spq * msq, (programAndIsDrum q filt).1, (programAndIsDrum q filt).2, q.spq⟩,
    ?_, rfl, rfl, hqspq, rfl, by rw [hqspq, hms]⟩
  unfold rtMetricR
  rw [hrender]
  simp only [liftR, Except.bind, hq, liftQ]
  unfold metricPerfFromQuantized
  have hnbv : ¬ p.nb > C07.Gen.MAX_NUM_VELOCITY_BINS := by simp only [C07.Gen.MAX_NUM_VELOCITY_BINS]; omega
  simp only [hqspq, hspq, not_true_eq_false, ↓reduceIte, hev, hnbv, liftX]

/-- the strict predicate implies the full one (so the `_partial` / `_normal` theorems speak about a subset of the
lists `roundtrip_Performance` covers) -/
theorem canonicalFull_of_canonical (nb ms : Int) (evs : List PEvent) (h : CanonicalPerf nb ms evs) :
    CanonicalPerfFull nb ms evs := by
  unfold CanonicalPerf CanonicalPerfFull CanonicalPerfB streamOk at *
  simp only [Bool.and_eq_true, decide_eq_true_eq, List.all_eq_true, Bool.or_eq_true, beq_iff_eq,
    List.isEmpty_iff, Bool.not_eq_true', ↓reduceIte, Bool.false_eq_true] at h ⊢
  obtain ⟨h1, ⟨⟨⟨⟨h2, h3⟩, h4⟩, h5⟩, h6⟩⟩ := h
  refine ⟨h1, ⟨⟨⟨⟨h2, h3⟩, ?_⟩, h5⟩, h6⟩⟩
  refine h4.imp ?_
  intro a b hab
  simp only [onLt, onLe, Bool.or_eq_true, Bool.and_eq_true, beq_iff_eq] at hab ⊢
  rcases hab with h | ⟨h, p⟩
  · exact Or.inl h
  · exact Or.inr ⟨h, decide_eq_true (Int.le_of_lt (of_decide_eq_true p))⟩

/-- **extract_canonical_Perf**: whatever `BasePerformance._from_quantized_sequence` returns (`Performance` and
`MetricPerformance` share it) is canonical, for every quantized sequence in `ExtractDomain`: selected notes with MIDI
pitches (and velocities, when bins are used) and positive length, start times that agree with the start steps, and no
two selected notes of one pitch overlapping.  So `CanonicalPerf` is "what extraction itself produces", and the
hypothesis of the round-trip theorems is satisfied by every extractor output on such a sequence. -/
theorem extract_canonical_Perf (s : NoteSeq) (start nb ms : Int) (inst : Option Int) (evs : List PEvent)
    (hms : 1 ≤ ms) (hnb : 0 ≤ nb) (hd : ExtractDomain s start nb inst)
    (h : perfEvents s start nb ms inst = .ok evs) : CanonicalPerf nb ms evs :=
  extract_canonical_core s start nb ms inst evs hms hnb hd h

/-! ### non-vacuity and the limits of the statement -/

/-- a canonical list with two overlapping notes of one pitch (60: steps 0–5 and 2–7), a chord, a velocity change,
a shift of more than `max_shift_steps = 3`, several NOTE_OFFs on one step -/
def exEvents : List PEvent :=
  [.velocity 3, .noteOn 60, .noteOn 64, .timeShift 2, .velocity 5, .noteOn 60, .timeShift 3, .noteOff 60, .noteOff 64,
   .noteOn 67, .timeShift 2, .noteOff 60, .noteOff 67]

example : CanonicalPerf 8 3 exEvents := by decide
example : PerfDomain ⟨exEvents, 12, 8, 3, 31, none, none⟩ ⟨100, 0, none, none⟩ none :=
  ⟨by decide, by decide, by decide, by decide, rfl, Or.inl rfl, by decide⟩
example : RoundtripPerf rne53 ⟨exEvents, 12, 8, 3, 31, none, none⟩ ⟨100, 0, none, none⟩ none :=
  roundtrip_Performance_partial rounding_rne53 _ _ _ (by decide)
    ⟨by decide, by decide, by decide, by decide, rfl, Or.inl rfl, by decide⟩
example : RoundtripMetric rne53 ⟨exEvents, 12, 8, 3, 3, none, none⟩ ⟨100, 0, none, none⟩ (rne53 (100 / 3)) 1 none :=
  roundtrip_MetricPerformance_partial rounding_rne53 _ _ _ 1 _ (by decide)
    ⟨by decide, by decide, by decide, by decide, rfl, Or.inl rfl, by decide⟩ (by decide +kernel) rfl

/-- **why same-pitch overlaps need the FIFO clause of `CanonicalPerf`.**  Three notes: pitch 60 over steps 0–8,
pitch 62 over 1–8, pitch 60 over 2–4.  The extractor emits the two final NOTE_OFFs in the order of its notes
`(0, 60) < (1, 62)`: `OFF 60, OFF 62`.  `_to_sequence` matches NOTE_OFFs to NOTE_ONs first-in-first-out per pitch,
so it renders pitch 60 as 0–4 and 2–8 (at 1 step per second): now the note ending at step 8 started at step 2, after the pitch-62 note, and
re-extraction emits `OFF 62, OFF 60`.  The extractor's output on this sequence is therefore not canonical (the
NOTE_OFFs of one step are not in the order of their FIFO-matched notes) and does not survive the round trip. -/
def exOverlap : NoteSeq :=
  { notes := [{ (default : Note) with pitch := 60, velocity := 100, qs := 0, qe := 8, start := 0, end_ := 8 },
              { (default : Note) with pitch := 62, velocity := 100, qs := 1, qe := 8, start := 1, end_ := 8 },
              { (default : Note) with pitch := 60, velocity := 100, qs := 2, qe := 4, start := 2, end_ := 4 }],
    sps := 1 }

def exOverlapEvents : List PEvent :=
  [.noteOn 60, .timeShift 1, .noteOn 62, .timeShift 1, .noteOn 60, .timeShift 2, .noteOff 60, .timeShift 4,
   .noteOff 60, .noteOff 62]

def exOverlapFifo : List PEvent :=
  [.noteOn 60, .timeShift 1, .noteOn 62, .timeShift 1, .noteOn 60, .timeShift 2, .noteOff 60, .timeShift 4,
   .noteOff 62, .noteOff 60]

instance : DecidableRel NevLt := fun a b => by unfold NevLt; infer_instance

/-- this is what the extractor returns on the overlapping sequence … -/
example : perfEvents exOverlap 0 0 100 none = .ok exOverlapEvents := by
  have h1 : sortedNotes exOverlap 0 none = exOverlap.notes := by
    unfold sortedNotes
    have : selectNotes exOverlap 0 none = exOverlap.notes := by decide +kernel
    rw [this]
    apply List.mergeSort_of_pairwise
    decide +kernel
  unfold perfEvents
  rw [h1]
  have h2 : noteEvents exOverlap.notes =
      [⟨0, 0, false, exOverlap.notes[0]⟩, ⟨1, 1, false, exOverlap.notes[1]⟩, ⟨2, 2, false, exOverlap.notes[2]⟩,
       ⟨4, 2, true, exOverlap.notes[2]⟩, ⟨8, 0, true, exOverlap.notes[0]⟩, ⟨8, 1, true, exOverlap.notes[1]⟩] :=
    List.Perm.eq_of_pairwise (fun a b _ _ h1 h2 => absurd h2 h1.asymm)
      (noteEvents_facts exOverlap.notes (by decide +kernel)).1 (by decide +kernel)
      ((List.mergeSort_perm _ _).trans (by decide +kernel))
  rw [h2]
  decide +kernel
/-- … it is not canonical … -/
example : ¬ CanonicalPerfFull 0 100 exOverlapEvents := by decide
/-- … `_to_sequence` re-matches it first-in-first-out (the note ending at step 8 now starts at step 2) … -/
example : decodeEvents 0 100 exOverlapEvents = .ok [⟨60, 0, 4, 100⟩, ⟨60, 2, 8, 100⟩, ⟨62, 1, 8, 100⟩] := by decide
/-- … and the round trip returns a different list: the canonical list with the same notes (the last two NOTE_OFFs
swapped), by `roundtrip_Performance_normal` -/
example : RoundtripPerfTo rne53 ⟨exOverlapEvents, 0, 0, 100, 10, none, none⟩ ⟨100, 0, none, none⟩ none exOverlapFifo ∧
    exOverlapFifo ≠ exOverlapEvents :=
  ⟨roundtrip_Performance_normal rounding_rne53 _ _ _ exOverlapFifo (by decide)
    ⟨by decide, by decide, by decide, by decide, rfl, Or.inl rfl, by decide⟩
    ⟨[⟨60, 0, 4, 100⟩, ⟨62, 1, 8, 100⟩, ⟨60, 2, 8, 100⟩], [⟨60, 0, 4, 100⟩, ⟨60, 2, 8, 100⟩, ⟨62, 1, 8, 100⟩],
      by decide, by decide, by decide⟩, by decide⟩
/-- … while the same music with the overlap resolved the FIFO way is canonical (and round-trips) -/
example : CanonicalPerf 0 100 exOverlapFifo := by decide

/-- two NOTE_ONs of one pitch on one step (with different bins): canonical at full strength only; covered by
`roundtrip_Performance`, not by the normal-form theorem (the stable sort makes the result depend on storage order) -/
example : CanonicalPerfFull 4 100 [.velocity 1, .noteOn 60, .velocity 2, .noteOn 60, .timeShift 2, .noteOff 60,
    .timeShift 1, .noteOff 60] ∧
    ¬ CanonicalPerf 4 100 [.velocity 1, .noteOn 60, .velocity 2, .noteOn 60, .timeShift 2, .noteOff 60,
    .timeShift 1, .noteOff 60] := by decide

example : RoundtripPerf rne53 ⟨[.velocity 1, .noteOn 60, .velocity 2, .noteOn 60, .timeShift 2, .noteOff 60,
    .timeShift 1, .noteOff 60], 0, 4, 100, 100, none, none⟩ ⟨100, 0, none, none⟩ none :=
  roundtrip_Performance rounding_rne53 _ _ _ (by decide)
    ⟨by decide, by decide, by decide, by decide, rfl, Or.inl rfl, by decide⟩

end NSV.C06P
