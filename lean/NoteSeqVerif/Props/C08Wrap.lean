import NoteSeqVerif.Props.C08
import NoteSeqVerif.Proofs.C08Wrap
/-! C08 — property theorems about the methods every encoder/decoder class exposes beyond
`events_to_label` / `class_index_to_event` / `events_to_input`:

* `labels_to_num_steps` of every class (base class: number of labels; one-hot / lookback: steps of the
  generated events; performance encodings: the TIME_SHIFT values; note-performance: shifts + last duration);
* the base-class helpers `get_inputs_batch` and `extend_event_sequences` (= the generation loop);
* the `ConditionalEventSequenceEncoderDecoder` wrapper: which encoder each of its methods asks (the TARGET for
  everything that concerns labels, control ++ target for inputs) and, as a consequence, that the property clauses
  proved for the target encoder hold verbatim for the wrapper whatever the control encoder is. -/
namespace NSV.C08
open Gen

/-! ## the conditional wrapper: delegation -/
section Delegation
variable {γ ε ι κc νc κ ν : Type}

/-- `labels_to_num_steps` of the wrapper is the TARGET encoder's (never the control's) -/
theorem conditional_labels_to_num_steps (W : Cond γ ε ι κc νc κ ν) (ls : List κ) :
    W.labelsToNumSteps ls = W.target.labelsToNumSteps ls := rfl

theorem conditional_events_to_label (W : Cond γ ε ι κc νc κ ν) (tgt : List ε) (pos : Int) :
    W.toLabel tgt pos = W.target.toLabel tgt pos := rfl

theorem conditional_class_index_to_event (W : Cond γ ε ι κc νc κ ν) (ci : κ) (tgt : List ε) :
    W.cite ci tgt = W.target.cite ci tgt := rfl

theorem conditional_num_classes (W : Cond γ ε ι κc νc κ ν) : W.numClasses = W.target.numClasses := rfl

theorem conditional_default_label (W : Cond γ ε ι κc νc κ ν) : W.defaultLabel = W.target.defaultLabel := rfl

theorem conditional_input_size (W : Cond γ ε ι κc νc κ ν) :
    W.inputSize = W.control.inputSize + W.target.inputSize := rfl

/-- the wrapper's input is the control input at `position + 1` followed by the target input at `position` -/
theorem conditional_events_to_input (W : Cond γ ε ι κc νc κ ν) (ctrl : List γ) (tgt : List ε) (pos : Int)
    (v : List ι) (h : W.toInput ctrl tgt pos = .ok v) :
    ∃ a b, W.control.toInput ctrl (pos + 1) = .ok a ∧ W.target.toInput tgt pos = .ok b ∧ v = a ++ b := by
  unfold Cond.toInput condEventsToInput at h
  obtain ⟨a, ha, h⟩ := bind_ok h
  obtain ⟨b, hb, h⟩ := bind_ok h
  simp only [pure, Except.pure] at h
  injection h with h
  exact ⟨a, b, ha, hb, h.symm⟩

/-- … hence it has exactly `control.input_size + target.input_size` entries when the two components produce
vectors of their own `input_size` -/
theorem conditional_input_size_exact (W : Cond γ ε ι κc νc κ ν) (ctrl : List γ) (tgt : List ε) (pos : Int)
    (v : List ι)
    (hc : ∀ p a, W.control.toInput ctrl p = .ok a → (a.length : Int) = W.control.inputSize)
    (ht : ∀ p b, W.target.toInput tgt p = .ok b → (b.length : Int) = W.target.inputSize)
    (h : W.toInput ctrl tgt pos = .ok v) : (v.length : Int) = W.inputSize := by
  obtain ⟨a, b, ha, hb, hv⟩ := conditional_events_to_input W ctrl tgt pos v h
  have h1 := hc _ _ ha
  have h2 := ht _ _ hb
  subst hv
  unfold Cond.inputSize
  rw [List.length_append]
  omega

/-- `encode` of the wrapper: equal lengths, `len - 1` aligned pairs, input `i` = control@`i+1` ++ target@`i`,
label `i` = the wrapper's (= the target's) label of position `i + 1` -/
theorem conditional_encode_aligned (W : Cond γ ε ι κc νc κ ν) (ctrl : List γ) (tgt : List ε)
    (ins : List (List ι)) (labs : List κ) (h : W.encode ctrl tgt = .ok (ins, labs)) :
    ctrl.length = tgt.length ∧ ins.length = tgt.length - 1 ∧ labs.length = tgt.length - 1 ∧
    ∀ i (hi : i < ins.length) (hl : i < labs.length),
      W.toInput ctrl tgt i = .ok ins[i] ∧ W.target.toLabel tgt ((i : Int) + 1) = .ok labs[i] := by
  unfold Cond.encode condEncode at h
  split at h
  · cases h
  · rename_i hlen
    obtain ⟨h1, h2, h3⟩ := encode_aligned _ _ _ _ _ h
    exact ⟨by simpa using hlen, h1, h2, fun i hi hl => h3 i hi hl⟩

theorem conditional_encode_length_mismatch (W : Cond γ ε ι κc νc κ ν) (ctrl : List γ) (tgt : List ε)
    (h : ctrl.length ≠ tgt.length) : W.encode ctrl tgt = .error "ValueError" := by
  unfold Cond.encode condEncode; rw [if_pos h]

/-- `extend_event_sequences` of the wrapper is the target's -/
theorem conditional_extend (W : Cond γ ε ι κc νc κ ν) (seqs : List (List ε)) (chosen : List κ) :
    W.extend seqs chosen = W.target.extend seqs chosen := rfl

/-- the generation loop driven through the wrapper's `extend_event_sequences` is
"`class_index_to_event` (the wrapper's) against the history, then append" -/
theorem conditional_extend_loop (W : Cond γ ε ι κc νc κ ν) (labels : List κ) (evs : List ε) :
    W.extendLoop labels evs = genLoop W.cite labels evs := by
  have : ∀ labels evs, W.extendLoop labels evs = W.target.extendLoop labels evs := by
    intro labels
    induction labels with
    | nil => intro evs; rfl
    | cons l ls ih =>
      intro evs
      unfold Cond.extendLoop SeqEnc.extendLoop Cond.extend
      cases W.target.extend [evs] [l] with
      | error e => rfl
      | ok out =>
        match out with
        | [] => rfl
        | [x] => exact ih x
        | _ :: _ :: _ => rfl
  rw [this, extendLoop_genLoop]
  rfl

/-- `get_inputs_batch` of the wrapper: as many sequences on both sides (else the `TypeError` the code raises
while formatting its message), every control sequence strictly longer than its target sequence, and for each
pair either all the inputs of positions `0 … len(target) - 1` (`full_length`) or only the last one -/
theorem conditional_inputs_batch (W : Cond γ ε ι κc νc κ ν) (ctrls : List (List γ)) (tgts : List (List ε))
    (full : Bool) (out : List (List (List ι))) (h : W.inputsBatch ctrls tgts full = .ok out) :
    ctrls.length = tgts.length ∧ out.length = tgts.length ∧
    ∀ i (hc : i < ctrls.length) (ht : i < tgts.length) (ho : i < out.length),
      tgts[i].length < ctrls[i].length ∧
      SeqEnc.inputsOf (W.toInput ctrls[i] tgts[i]) tgts[i].length full = .ok out[i] := by
  unfold Cond.inputsBatch at h
  split at h
  · cases h
  · rename_i hlen
    have hlen : ctrls.length = tgts.length := by simpa using hlen
    obtain ⟨h1, h2⟩ := mapE_ok _ _ _ h
    refine ⟨hlen, by rw [h1, List.length_zip]; omega, fun i hc ht ho => ?_⟩
    have := h2 i (by rw [List.length_zip]; omega) ho
    simp only [List.getElem_zip] at this
    split at this
    · cases this
    · exact ⟨by omega, this⟩

end Delegation

/-! ## base-class helpers -/
section Helpers
variable {ε ι κ ν : Type}

/-- `extend_event_sequences` (drawn classes given): sequence `i` gets the decoding of class `i` against
itself appended -/
theorem extend_spec (E : SeqEnc ε ι κ ν) (seqs : List (List ε)) (chosen : List κ) (out : List (List ε))
    (h : E.extend seqs chosen = .ok out) :
    out.length = min seqs.length chosen.length ∧
    ∀ i (h1 : i < seqs.length) (h2 : i < chosen.length) (h3 : i < out.length),
      ∃ e, E.cite chosen[i] seqs[i] = .ok e ∧ out[i] = seqs[i] ++ [e] := by
  unfold SeqEnc.extend at h
  obtain ⟨hl, hg⟩ := mapE_ok _ _ _ h
  refine ⟨by rw [hl, List.length_zip], fun i h1 h2 h3 => ?_⟩
  have := hg i (by rw [List.length_zip]; omega) h3
  simp only [List.getElem_zip, SeqEnc.extendOne] at this
  obtain ⟨e, he, hb⟩ := map_ok this
  exact ⟨e, he, hb.symm⟩

/-- the generation loop as the library runs it (one `extend_event_sequences` call per label) is the loop
`events.append(class_index_to_event(label, events))` all the generation theorems are about -/
theorem extend_loop_is_generation_loop (E : SeqEnc ε ι κ ν) (labels : List κ) (evs : List ε) :
    E.extendLoop labels evs = genLoop E.cite labels evs := extendLoop_genLoop E labels evs

/-- `get_inputs_batch`: one entry per sequence; `full_length`: the inputs of all positions in order … -/
theorem inputs_batch_full (E : SeqEnc ε ι κ ν) (seqs : List (List ε)) (out : List (List (List ι)))
    (h : E.inputsBatch seqs true = .ok out) :
    out.length = seqs.length ∧ ∀ s (hs : s < seqs.length) (ho : s < out.length),
      out[s].length = seqs[s].length ∧
      ∀ i (_ : i < seqs[s].length) (hi : i < out[s].length), E.toInput seqs[s] (i : Int) = .ok out[s][i] := by
  unfold SeqEnc.inputsBatch at h
  obtain ⟨h1, h2⟩ := mapE_ok _ _ _ h
  exact ⟨h1, fun s hs ho => inputsOf_full _ _ _ (h2 s hs ho)⟩

/-- … otherwise exactly the input of the last position of each sequence -/
theorem inputs_batch_last (E : SeqEnc ε ι κ ν) (seqs : List (List ε)) (out : List (List (List ι)))
    (h : E.inputsBatch seqs false = .ok out) :
    out.length = seqs.length ∧ ∀ s (hs : s < seqs.length) (ho : s < out.length),
      ∃ v, E.toInput seqs[s] ((seqs[s].length : Int) - 1) = .ok v ∧ out[s] = [v] := by
  unfold SeqEnc.inputsBatch at h
  obtain ⟨h1, h2⟩ := mapE_ok _ _ _ h
  exact ⟨h1, fun s hs ho => inputsOf_last _ _ _ (h2 s hs ho)⟩

end Helpers

/-! ## `labels_to_num_steps` of every class -/
section NumSteps
variable {ε : Type}

/-- base class (`KeyMelodyEncoderDecoder`, `PianorollEncoderDecoder` inherit it): the number of labels -/
theorem base_labels_to_num_steps (c : KeyCfg) (n : Nat) (ls : List Int) :
    (keyEnc c).labelsToNumSteps ls = .ok (ls.length : Int) ∧ (prEnc n).labelsToNumSteps ls = .ok (ls.length : Int) :=
  ⟨rfl, rfl⟩

/-- one-hot / one-hot-index: whenever it returns, the labels decoded one by one and it is the sum of
`event_to_num_steps` over the decoded events -/
theorem onehot_labels_to_num_steps (oh : OneHot ε) (ls : List Int) (n : Int)
    (h : (ohEnc oh).labelsToNumSteps ls = .ok n) :
    (ohiEnc oh).labelsToNumSteps ls = .ok n ∧
    ∃ out, genLoop (ohEnc oh).cite ls [] = .ok out ∧ n = (out.map oh.numSteps).sum := by
  refine ⟨h, ?_⟩
  obtain ⟨out, ho, hn⟩ := map_ok (show (genLoop (ohClassIndexToEvent oh) ls []).map (stepsOf oh) = .ok n from h)
  exact ⟨out, ho, hn.symm⟩

/-- lookback: the same through the lookback decoder (labels may cite earlier generated events) -/
theorem lookback_labels_to_num_steps [DecidableEq ε] (oh : OneHot ε) (c : LookbackCfg) (ls : List Int) (n : Int)
    (h : (lbEnc oh c).labelsToNumSteps ls = .ok n) :
    ∃ out, genLoop (lbEnc oh c).cite ls [] = .ok out ∧ n = (out.map oh.numSteps).sum := by
  obtain ⟨out, ho, hn⟩ := map_ok (show (genLoop (lbClassIndexToEvent oh c) ls []).map (stepsOf oh) = .ok n from h)
  exact ⟨out, ho, hn.symm⟩

/-- `PerformanceOneHotEncoding.event_to_num_steps`: the value of a TIME_SHIFT event, 0 for any other event -/
theorem perf_event_num_steps (bins ms lo hi : Int) (e : Nat × Int) :
    (perfOneHot bins ms lo hi).numSteps e = if e.1 = TIME_SHIFT then e.2 else 0 := rfl

/-- performance events under the one-hot and lookback encoders: `labels_to_num_steps` is the sum of the
TIME_SHIFT values of the generated sequence -/
theorem perf_labels_to_num_steps (bins ms lo hi : Int) (c : LookbackCfg) (ls : List Int) (n : Int) :
    ((ohEnc (perfOneHot bins ms lo hi)).labelsToNumSteps ls = .ok n →
      ∃ out, genLoop (ohEnc (perfOneHot bins ms lo hi)).cite ls [] = .ok out ∧ n = perfSteps out) ∧
    ((lbEnc (perfOneHot bins ms lo hi) c).labelsToNumSteps ls = .ok n →
      ∃ out, genLoop (lbEnc (perfOneHot bins ms lo hi) c).cite ls [] = .ok out ∧ n = perfSteps out) := by
  constructor
  · intro h
    obtain ⟨_, out, ho, hn⟩ := onehot_labels_to_num_steps _ ls n h
    exact ⟨out, ho, by rw [hn]; exact stepsOf_perf bins ms lo hi out⟩
  · intro h
    obtain ⟨out, ho, hn⟩ := lookback_labels_to_num_steps _ c ls n h
    exact ⟨out, ho, by rw [hn]; exact stepsOf_perf bins ms lo hi out⟩

/-- modulo-performance: the same (its labels go through the performance one-hot encoding); with a legal
configuration and in-range labels it always returns -/
theorem modulo_labels_to_num_steps (c : ModCfg) (ls : List Int) :
    (∀ n, (modEnc c).labelsToNumSteps ls = .ok n →
      ∃ out, genLoop (modEnc c).cite ls [] = .ok out ∧ n = perfSteps out) ∧
    (ModCfgOk c → (∀ l ∈ ls, 0 ≤ l ∧ l < (modEnc c).numClasses) →
      ∃ out, genLoop (modEnc c).cite ls [] = .ok out ∧ out.length = ls.length ∧
        (modEnc c).labelsToNumSteps ls = .ok (perfSteps out)) := by
  constructor
  · intro n h
    obtain ⟨_, out, ho, hn⟩ := onehot_labels_to_num_steps (modOneHot c) ls n h
    exact ⟨out, ho, by rw [hn]; exact stepsOf_perf _ _ _ _ out⟩
  · intro hc hl
    obtain ⟨out, h1, h2, _, _, h5⟩ := onehot_generation_loop_total (modOneHot c)
      (modulo_decode_total c hc) ls hl [] (by simp)
    refine ⟨out, h1, by simpa using h2, ?_⟩
    have := h5 rfl
    rw [show (out.map (modOneHot c).numSteps).sum = perfSteps out from stepsOf_perf _ _ _ _ out] at this
    exact this

/-- note-performance: all time shifts of the decoded events plus the duration of the last one -/
theorem noteperf_labels_to_num_steps (E : NPEnc) (ls : List (List Int)) (out : List NPEvent)
    (h : mapE (npClassIndexToEvent E) ls = .ok out) :
    (npEnc E).labelsToNumSteps ls = .ok ((out.map NPEvent.shift).sum +
      (match out.getLast? with | some e => e.dur | none => 0)) :=
  noteperf_num_steps E ls out h

end NumSteps

/-! ## the property clauses for the wrapper, whatever the control encoder -/
section Transfer
variable {γ ε κc νc : Type}

/-- decode-label and label range through the wrapper over a lookback target -/
theorem conditional_lookback_decode_label [DecidableEq ε] (C : SeqEnc γ Int κc νc) (oh : OneHot ε) (c : LookbackCfg)
    (evs : List ε) (p : Nat) (hp : p < evs.length) (hd : LegalDists c.dists) (hv : ValidEv oh evs[p]) :
    ∃ l, (Cond.mk C (lbEnc oh c)).toLabel evs p = .ok l ∧ 0 ≤ l ∧ l < (Cond.mk C (lbEnc oh c)).numClasses ∧
      (Cond.mk C (lbEnc oh c)).cite l (evs.take p) = .ok evs[p] := by
  obtain ⟨l, h1, h2⟩ := lookback_decode_label oh c evs p hp hd hv
  obtain ⟨l', h3, h4, h5⟩ := lookback_label_in_range oh c evs p hp hd hv
  rw [h1] at h3; injection h3 with h3; subst h3
  exact ⟨l, h1, h4, h5, h2⟩

/-- the consequence clause for the wrapper over a lookback target: any in-range labels drive the wrapper's
generation loop without error, and the wrapper's `labels_to_num_steps` is the step count of the sequence so
generated — the control encoder plays no part -/
theorem conditional_lookback_num_steps [DecidableEq ε] (C : SeqEnc γ Int κc νc) (oh : OneHot ε) (c : LookbackCfg)
    (hd : LegalDists c.dists) (hdt : DecodeTotal oh) (hdef : ValidEv oh oh.default)
    (labels : List Int) (hl : ∀ l ∈ labels, 0 ≤ l ∧ l < (Cond.mk C (lbEnc oh c)).numClasses) :
    ∃ out, (Cond.mk C (lbEnc oh c)).extendLoop labels [] = .ok out ∧ out.length = labels.length ∧
      (Cond.mk C (lbEnc oh c)).labelsToNumSteps labels = .ok ((out.map oh.numSteps).sum) := by
  obtain ⟨out, h1, h2, h3⟩ := labels_to_num_steps_eq oh c hd hdt hdef labels hl
  exact ⟨out, by rw [conditional_extend_loop]; exact h1, h2, h3⟩

/-- the same over a one-hot target -/
theorem conditional_onehot_num_steps (C : SeqEnc γ Int κc νc) (oh : OneHot ε) (hdt : DecodeTotal oh)
    (labels : List Int) (hl : ∀ l ∈ labels, 0 ≤ l ∧ l < (Cond.mk C (ohEnc oh)).numClasses) :
    ∃ out, (Cond.mk C (ohEnc oh)).extendLoop labels [] = .ok out ∧ out.length = labels.length ∧
      (Cond.mk C (ohEnc oh)).labelsToNumSteps labels = .ok ((out.map oh.numSteps).sum) := by
  obtain ⟨out, h1, h2, _, _, h5⟩ := onehot_generation_loop_total oh hdt labels hl [] (by simp)
  exact ⟨out, by rw [conditional_extend_loop]; exact h1, by simpa using h2, h5 rfl⟩

/-- over a key-melody target (base `labels_to_num_steps`): the number of labels = the number of generated events -/
theorem conditional_keymelody_num_steps (C : SeqEnc γ Int κc νc) (c : KeyCfg) (hc : KeyCfgOk c)
    (labels : List Int) (hl : ∀ l ∈ labels, 0 ≤ l ∧ l < (Cond.mk C (keyEnc c)).numClasses) :
    ∃ out, (Cond.mk C (keyEnc c)).extendLoop labels [] = .ok out ∧
      (Cond.mk C (keyEnc c)).labelsToNumSteps labels = .ok (out.length : Int) := by
  obtain ⟨out, h1, h2, _⟩ := keymelody_generation_loop_total c hc labels hl [] (by simp)
  refine ⟨out, by rw [conditional_extend_loop]; exact h1, ?_⟩
  show Except.ok (baseLabelsToNumSteps labels) = _
  unfold baseLabelsToNumSteps
  rw [h2]; simp

end Transfer

/-! ## non-vacuity: control and target that answer differently -/
section Examples

-- `exW`: control = a melody one-hot over 2 pitches (4 classes); target = performance events with lookback [2] (357 classes)
-- labels: NOTE_ON 60, TIME_SHIFT 10, "repeat 2 ago" (= NOTE_ON 60), TIME_SHIFT 100: 110 steps;
-- the control encoder cannot even decode them, and on labels it can decode it counts one step per label
example : exW.labelsToNumSteps [60, 265, 356, 355] = .ok 110 ∧
    exW.control.labelsToNumSteps [60, 265, 356, 355] = .ok 4 ∧
    exW.extendLoop [60, 265, 356, 355] [] = .ok [(NOTE_ON, 60), (TIME_SHIFT, 10), (NOTE_ON, 60), (TIME_SHIFT, 100)] ∧
    exW.numClasses = 357 ∧ exW.control.numClasses = 4 ∧ exW.inputSize = 4 + (356 + 356 + 0 + 1) := by
  decide +kernel

-- `exW2`: the control inherits the base implementation (key-melody), the target is the modulo-performance encoder
example : exW2.labelsToNumSteps [355, 60, 256] = .ok 101 ∧ exW2.control.labelsToNumSteps [355, 60, 256] = .ok 3 := by
  decide +kernel

example : ModCfgOk ⟨0, 100⟩ ∧ (∀ l ∈ [355, 60, 256], 0 ≤ l ∧ l < (modEnc ⟨0, 100⟩).numClasses) := by
  refine ⟨by unfold ModCfgOk MAX_NUM_VELOCITY_BINS; decide, ?_⟩
  decide +kernel

-- get_inputs_batch: control strictly longer; last-only vs full length; a different number of sequences
example : (Cond.mk (ohEnc (melOneHot 60 62)) (ohiEnc (melOneHot 60 62))).inputsBatch [[60, 61, -2]] [[61, 60]] false
      = .ok [[[1, 0, 0, 0, 2]]] ∧
    (Cond.mk (ohEnc (melOneHot 60 62)) (ohiEnc (melOneHot 60 62))).inputsBatch [[60, 61, -2]] [[61, 60]] true
      = .ok [[[0, 0, 0, 1, 3], [1, 0, 0, 0, 2]]] ∧
    (Cond.mk (ohEnc (melOneHot 60 62)) (ohiEnc (melOneHot 60 62))).inputsBatch [[60, 61]] [[61, 60]] true
      = .error "ValueError" ∧
    (Cond.mk (ohEnc (melOneHot 60 62)) (ohiEnc (melOneHot 60 62))).inputsBatch [] [[61, 60]] true
      = .error "TypeError" := by
  decide +kernel

end Examples
end NSV.C08
