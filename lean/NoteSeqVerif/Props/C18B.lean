import Mathlib.Tactic.Set
import NoteSeqVerif.Props.C18
import NoteSeqVerif.Proofs.C18EncD
import NoteSeqVerif.Proofs.C18Ons
/-! C18 — property theorems, second file: onset-only decoding (`pianoroll_onsets_to_note_sequence`) as a
closed form; the ACTIVE roll and the round trips for either setting of `add_blank_frame_before_onset`;
last-writer form of the weights roll; the `onset_velocities` roll; exactly which runs the decoder drops. -/
namespace NSV.C18

/-! ## pianoroll_onsets_to_note_sequence -/

/-- **onsets_decode** (every rounding `R`, `Rv`, every matrix size): whenever
`pianoroll_onsets_to_note_sequence` returns, its notes are — in this order — one `onsetNote` per cell of
the onset matrix that holds a 1, frames ascending and pitches ascending inside a frame (`np.nonzero`
order): the note starts at `R (f · R (1/fps))`, ends at `R (start + note_duration_seconds)`, has pitch
`p + min_midi_pitch` and velocity `_unscale_velocity (velocity_values[f, p])`; without
`velocity_values` the value is the `velocity` argument itself (so the note velocity is
`_unscale_velocity (velocity)`, not `velocity`).  `total_time = R (R (#frames · R (1/fps)) + duration)`. -/
theorem onsets_decode (R Rv : Rat → Rat) (d : DCfg) (dur : Rat) (onsets : List (List Bool))
    (vels : Option (List (List Rat))) (notes : List ONote) (total : Rat)
    (h : decodeOnsets R Rv d dur onsets vels = .ok (notes, total)) :
    d.fps ≠ 0 ∧
    total = R (R ((onsets.length : Rat) * R (1 / d.fps)) + dur) ∧
    notes = (List.range onsets.length).flatMap fun f =>
      ((List.range (rollWidth onsets)).filter fun p => onsetAt onsets f p).map fun p =>
        onsetNote R (unscale Rv d.scale d.bias) (R (1 / d.fps)) dur d.minMidiPitch f p (onsetVel d vels f p) := by
  rw [decodeOnsets_eq] at h
  by_cases hfps : d.fps = 0
  · rw [if_pos hfps] at h; cases h
  · rw [if_neg hfps] at h
    by_cases hshape : (isRect onsets onsets.length (rollWidth onsets) &&
          velsRect vels onsets.length (rollWidth onsets)) = false
    · rw [if_pos hshape] at h; cases h
    · rw [if_neg hshape] at h
      injection h with h
      injection h with hnotes htotal
      refine ⟨hfps, htotal.symm, ?_⟩
      rw [← hnotes]
      have hshape' : isRect onsets onsets.length (rollWidth onsets) = true ∧
          velsRect vels onsets.length (rollWidth onsets) = true := by
        simpa using hshape
      obtain ⟨hrO, hrV⟩ := hshape'
      set vl : List (List Rat) := velsOr d onsets vels with hvl
      have hvlen : onsets.length = vl.length := by
        rw [hvl]
        unfold velsOr
        cases hv : vels with
        | none => simp
        | some v =>
          rw [hv] at hrV
          unfold velsRect at hrV
          simp only at hrV ⊢
          unfold isRect at hrV
          simp only [Bool.and_eq_true, beq_iff_eq] at hrV
          exact hrV.1.symm
      rw [onsetRows_eq _ _ _ _ _ 0 onsets vl hvlen]
      rw [List.flatMap_def, List.flatMap_def]
      congr 1
      apply List.map_congr_left
      intro f hf
      have hf' : f < onsets.length := List.mem_range.mp hf
      obtain ⟨row, hrow, hrl⟩ := isRect_row onsets _ _ hrO f hf'
      -- the velocity row
      have hvrow : ∃ vrow, vl[f]? = some vrow ∧ vrow.length = rollWidth onsets ∧
          ∀ p, p < rollWidth onsets → vrow[p]?.getD 0 = onsetVel d vels f p := by
        cases hv : vels with
        | none =>
          refine ⟨row.map fun _ => (d.velocity : Rat), ?_, by simp [hrl], ?_⟩
          · rw [hvl, hv]; simp [velsOr, hrow]
          · intro p hp
            unfold onsetVel
            simp [hrl, hp]
        | some v =>
          rw [hv] at hrV
          unfold velsRect at hrV
          obtain ⟨vrow, hvr, hvl'⟩ := isRect_row v _ _ hrV f hf'
          refine ⟨vrow, by rw [hvl, hv]; exact hvr, hvl', ?_⟩
          intro p _
          unfold onsetVel getCell
          simp [hvr]
      obtain ⟨vrow, hvrow, hvrl, hvval⟩ := hvrow
      simp only [Nat.zero_add, hrow, hvrow, Option.getD_some]
      rw [onsetRow_eq _ _ _ _ _ _ 0 row vrow (by omega), hrl]
      have hfilt : (fun j => row[j]?.getD false) = fun p => onsetAt onsets f p := by
        funext j
        unfold onsetAt getCell
        simp [hrow]
      rw [hfilt]
      apply List.map_congr_left
      intro p hp
      have hp' : p < rollWidth onsets := List.mem_range.mp (List.mem_filter.mp hp).1
      rw [Nat.zero_add, hvval p hp']

/-- **onsets_decode, no exception**: the function returns for every rectangular onset matrix (with a
velocity matrix of the same shape, or none) and every non-zero frame rate -/
theorem onsets_decode_defined (R Rv : Rat → Rat) (d : DCfg) (dur : Rat) (onsets : List (List Bool))
    (vels : Option (List (List Rat))) (hfps : d.fps ≠ 0)
    (hO : isRect onsets onsets.length (rollWidth onsets) = true)
    (hV : ∀ v, vels = some v → isRect v onsets.length (rollWidth onsets) = true) :
    ∃ r, decodeOnsets R Rv d dur onsets vels = .ok r := by
  have hV' : velsRect vels onsets.length (rollWidth onsets) = true := by
    unfold velsRect
    cases vels with
    | none => rfl
    | some v => exact hV v rfl
  rw [decodeOnsets_eq, if_neg hfps, if_neg (by rw [hO, hV']; simp)]
  exact ⟨_, rfl⟩

/-- row-major order of matrix cells -/
def cellLt (a b : Nat × Nat) : Prop := a.1 < b.1 ∨ (a.1 = b.1 ∧ a.2 < b.2)

/-- **one note per predicted onset**: the notes are the image of a list of cells that is strictly
increasing in row-major order (so no cell occurs twice) and contains exactly the cells of the matrix
that hold a 1 -/
theorem onsets_decode_cells (R Rv : Rat → Rat) (d : DCfg) (dur : Rat) (onsets : List (List Bool))
    (vels : Option (List (List Rat))) (notes : List ONote) (total : Rat)
    (h : decodeOnsets R Rv d dur onsets vels = .ok (notes, total)) :
    ∃ cells : List (Nat × Nat),
      notes = cells.map (fun fp => onsetNote R (unscale Rv d.scale d.bias) (R (1 / d.fps)) dur d.minMidiPitch
        fp.1 fp.2 (onsetVel d vels fp.1 fp.2)) ∧
      cells.Pairwise cellLt ∧
      ∀ f p, (f, p) ∈ cells ↔ f < onsets.length ∧ p < rollWidth onsets ∧ onsetAt onsets f p = true := by
  obtain ⟨_, _, hn⟩ := onsets_decode R Rv d dur onsets vels notes total h
  refine ⟨(List.range onsets.length).flatMap fun f =>
      ((List.range (rollWidth onsets)).filter fun p => onsetAt onsets f p).map fun p => (f, p), ?_, ?_, ?_⟩
  · rw [hn, List.map_flatMap]
    simp only [List.map_map]
    rfl
  · rw [List.pairwise_flatMap]
    constructor
    · intro f _
      rw [List.pairwise_map]
      apply List.Pairwise.filter
      apply List.Pairwise.imp _ List.pairwise_lt_range
      intro a b hab
      right; exact ⟨rfl, hab⟩
    · apply List.Pairwise.imp _ List.pairwise_lt_range
      intro a b hab x hx y hy
      simp only [List.mem_map] at hx hy
      obtain ⟨_, _, rfl⟩ := hx
      obtain ⟨_, _, rfl⟩ := hy
      left; exact hab
  · intro f p
    simp only [List.mem_flatMap, List.mem_range, List.mem_map, List.mem_filter, Prod.mk.injEq]
    constructor
    · rintro ⟨f', hf', p', ⟨hp', ho⟩, rfl, rfl⟩; exact ⟨hf', hp', ho⟩
    · rintro ⟨hf, hp, ho⟩; exact ⟨f, hf, p, ⟨hp, ho⟩, rfl, rfl⟩

/-- **the closing assertion cannot fire**: for a monotone rounding and a frame length that is not
negative (`fps > 0`), every note ends at or before `total_time` (the code asserts it for the last note) -/
theorem onsets_decode_total_ge {R : Rat → Rat} (hmono : ∀ x y : Rat, x ≤ y → R x ≤ R y) (Rv : Rat → Rat)
    (d : DCfg) (dur : Rat) (onsets : List (List Bool)) (vels : Option (List (List Rat)))
    (notes : List ONote) (total : Rat) (hfl : 0 ≤ R (1 / d.fps))
    (h : decodeOnsets R Rv d dur onsets vels = .ok (notes, total)) :
    ∀ nt ∈ notes, nt.end_ ≤ total := by
  obtain ⟨cells, hn, _, hmem⟩ := onsets_decode_cells R Rv d dur onsets vels notes total h
  obtain ⟨_, ht, _⟩ := onsets_decode R Rv d dur onsets vels notes total h
  intro nt hnt
  rw [hn] at hnt
  simp only [List.mem_map] at hnt
  obtain ⟨⟨f, p⟩, hfp, rfl⟩ := hnt
  have hf := ((hmem f p).mp hfp).1
  rw [ht]
  simp only [onsetNote]
  apply hmono
  have h1 : (f : Rat) * R (1 / d.fps) ≤ (onsets.length : Rat) * R (1 / d.fps) := by
    apply mul_le_mul_of_nonneg_right _ hfl
    exact_mod_cast Nat.le_of_lt hf
  have := hmono _ _ h1
  linarith

/-! ## `onset_velocities = velocities * onsets` and the (0, 1] range of both velocity rolls -/

/-- **onset_velocities roll** (any rounding, any parameters): cell by cell the float32 product of the
`active_velocities` cell and the `onsets` cell -/
theorem enc_onset_velocity_cell {R R32 : Rat → Rat} {eps : Rat} {c : Cfg} {total : Rat} {notes : List PNote}
    {ccs : List PCC} {pr : Pianoroll} (h : encode R R32 eps c total notes ccs = .ok pr) (f p : Nat)
    (hf : f < (numRows R c.fps total).toNat) (hp : p < (c.maxPitch - c.minPitch + 1).toNat) :
    ∃ v o, getCell pr.activeVelocities f p = some v ∧ getCell pr.onsets f p = some o ∧
      (o = 0 ∨ o = 1) ∧ getCell pr.onsetVelocities f p = some (R32 (v * o)) := by
  have ho := enc_onset_cell h f p hf hp
  obtain ⟨_, _, _, _, _, _, _, hov, hon, hav⟩ := encode_ok_all h
  have hv : ∃ v, getCell pr.activeVelocities f p = some v := by
    rcases enc_velocity_cell h f p hf hp with ⟨_, h0⟩ | ⟨_, _, _, _, _, _, h1⟩
    · exact ⟨_, h0⟩
    · exact ⟨_, h1⟩
  obtain ⟨v, hv⟩ := hv
  refine ⟨v, _, hv, ho, by split <;> simp, ?_⟩
  rw [hov, getCell_zipWith2, ← hav, ← hon, hv, ho]

/-- **active velocity in (0, 1]**: with IEEE-like roundings and in-range velocities in `1..max_velocity`
(`velocity ≤ max_velocity` is forced by `encode_ok_valid`), a cell of `active_velocities` is 0 if no
note paints it and lies in (0, 1] if one does -/
theorem active_velocity_range {R R32 : Rat → Rat} (hR : Rounding R) (h32 : Rounding32 R32) {eps : Rat} {c : Cfg}
    {total : Rat} {notes : List PNote} {ccs : List PCC} {pr : Pianoroll}
    (h : encode R R32 eps c total notes ccs = .ok pr)
    (hvel : ∀ nt ∈ notes, InRange c nt → 0 < nt.velocity) (f p : Nat)
    (hf : f < (numRows R c.fps total).toNat) (hp : p < (c.maxPitch - c.minPitch + 1).toNat) :
    ∃ v, getCell pr.activeVelocities f p = some v ∧
      (if ∃ nt ∈ notes, NoteCovers R eps c total (numRows R c.fps total).toNat (selActive c) f p nt = true
        then 0 < v ∧ v ≤ 1 else v = 0) := by
  rcases enc_velocity_cell h f p hf hp with ⟨hno, h0⟩ | ⟨l1, nt, l2, hl, hc, _, hv⟩
  · refine ⟨0, h0, ?_⟩
    rw [if_neg]
    rintro ⟨nt, hnt, hc⟩
    rw [hno nt hnt] at hc; cases hc
  · have hnt : nt ∈ notes := by
      rw [← mem_sortByStart, hl]; simp
    refine ⟨_, hv, ?_⟩
    rw [if_pos ⟨nt, hnt, hc⟩]
    have hr : InRange c nt := ((NoteCovers_active_iff _ _ _ _ _ _ _ _).mp hc).1
    exact velocity_scaled_range hR h32 nt.velocity c.maxVelocity (hvel nt hnt hr) (encode_ok_valid h nt hnt hr).1

/-- **onset velocity in (0, 1]** (the seventh roll): under the same hypotheses and a float32 store that
keeps 0, a cell of `onset_velocities` is 0 unless the `onsets` cell is 1 and a note paints the active
cell; then it lies in (0, 1] -/
theorem onset_velocity_range {R R32 : Rat → Rat} (hR : Rounding R) (h32 : Rounding32 R32) (h320 : R32 0 = 0)
    {eps : Rat} {c : Cfg} {total : Rat} {notes : List PNote} {ccs : List PCC} {pr : Pianoroll}
    (h : encode R R32 eps c total notes ccs = .ok pr)
    (hvel : ∀ nt ∈ notes, InRange c nt → 0 < nt.velocity) (f p : Nat)
    (hf : f < (numRows R c.fps total).toNat) (hp : p < (c.maxPitch - c.minPitch + 1).toNat) :
    ∃ x, getCell pr.onsetVelocities f p = some x ∧
      (if (∃ nt ∈ notes, NoteCovers R eps c total (numRows R c.fps total).toNat (selOnset c) f p nt = true) ∧
          (∃ nt ∈ notes, NoteCovers R eps c total (numRows R c.fps total).toNat (selActive c) f p nt = true)
        then 0 < x ∧ x ≤ 1 else x = 0) := by
  obtain ⟨v, o, hv, ho, _, hx⟩ := enc_onset_velocity_cell h f p hf hp
  obtain ⟨v', hv', hrange⟩ := active_velocity_range hR h32 h hvel f p hf hp
  rw [hv] at hv'; cases hv'
  have ho' := enc_onset_cell h f p hf hp
  rw [ho] at ho'
  refine ⟨_, hx, ?_⟩
  by_cases hon : ∃ nt ∈ notes, NoteCovers R eps c total (numRows R c.fps total).toNat (selOnset c) f p nt = true
  · rw [if_pos hon] at ho'
    cases ho'
    by_cases hac : ∃ nt ∈ notes, NoteCovers R eps c total (numRows R c.fps total).toNat (selActive c) f p nt = true
    · rw [if_pos hac] at hrange
      rw [if_pos ⟨hon, hac⟩, mul_one]
      refine ⟨h32.pos _ hrange.1, ?_⟩
      have := h32.mono _ _ hrange.2
      rwa [h32.one] at this
    · rw [if_neg hac] at hrange
      rw [if_neg (fun hh => hac hh.2), hrange, zero_mul, h320]
  · rw [if_neg hon] at ho'
    cases ho'
    rw [if_neg (fun hh => hon hh.1), mul_zero, h320]

/-! ## which runs the decoder drops -/

/-- **dec_drops_exactly** (every rounding `R`, no onset predictions): the decoder returns, for the
maximal runs `[s, e)` of active frames of a pitch column, a note if and only if
`min_duration_ms ≤ R (R (R (e·fl) − R (s·fl)) · 1000)` with `fl = R (1/fps)` — the test of `end_pitch`
in the code's own operation order — and nothing else: every returned note is such a run; no run is
returned twice. -/
theorem dec_drops_exactly (R Rv : Rat → Rat) (d : DCfg) (frames : List (List Bool)) (w : Nat)
    (hfps : d.fps ≠ 0) (hne : frames ≠ []) (hrect : isRect frames frames.length w = true)
    (hw : w ≤ Gen.VEL_SLOTS) :
    ∃ ems : List Emit,
      decode R Rv d frames none none none =
        .ok (ems.map (emitNote R (R (1 / d.fps)) d.minMidiPitch),
             R (((frames.length + 1 : Nat) : Rat) * R (1 / d.fps))) ∧
      ems.Nodup ∧
      (∀ em ∈ ems, em.pitch < w ∧ em.vel = d.velocity ∧ IsMaxRun (frameCol frames em.pitch) em.s em.e) ∧
      ∀ p s e : Nat, p < w → IsMaxRun (frameCol frames p) s e →
        ((⟨p, s, e, d.velocity⟩ : Emit) ∈ ems ↔
          d.minDurMs ≤ R (R (R ((e : Rat) * R (1 / d.fps)) - R ((s : Rat) * R (1 / d.fps))) * 1000)) := by
  obtain ⟨ems, hd, hsorted, hmem⟩ := runs_decode R Rv d frames w hfps hne hrect hw
  refine ⟨ems, hd, nodup_of_sorted ems hsorted, ?_, ?_⟩
  · intro em hem
    obtain ⟨h1, h2, _, h4⟩ := (hmem em).mp hem
    exact ⟨h1, h2, h4⟩
  · intro p s e hp hrun
    rw [hmem]
    simp only [keepR, decide_eq_true_eq]
    constructor
    · rintro ⟨_, _, hk, _⟩; exact hk
    · intro hk; exact ⟨hp, trivial, hk, hrun⟩

/-- the duration test in exact arithmetic: a run is kept iff (its length in frames) × (frame duration in
ms) is at least `min_duration_ms` — "drops only notes shorter than `min_duration_ms`" -/
theorem keepR_exact (fps minDur : Rat) (s e : Nat) :
    keepR id (id (1 / fps)) minDur s e = true ↔ minDur ≤ ((e : Rat) - (s : Rat)) * (1 / fps) * 1000 := by
  unfold keepR
  simp only [id, decide_eq_true_eq]
  constructor <;> intro h <;> linarith [h]

/-- **dec_drops_exactly, exact arithmetic**: with `R = id` the dropped runs are exactly those shorter
than `min_duration_ms` -/
theorem dec_drops_exact_id (d : DCfg) (frames : List (List Bool)) (w : Nat)
    (hfps : d.fps ≠ 0) (hne : frames ≠ []) (hrect : isRect frames frames.length w = true)
    (hw : w ≤ Gen.VEL_SLOTS) :
    ∃ ems : List Emit,
      decode id id d frames none none none =
        .ok (ems.map (emitNote id (1 / d.fps) d.minMidiPitch),
             ((frames.length + 1 : Nat) : Rat) * (1 / d.fps)) ∧
      ∀ p s e : Nat, p < w → IsMaxRun (frameCol frames p) s e →
        ((⟨p, s, e, d.velocity⟩ : Emit) ∉ ems ↔
          ((e : Rat) - (s : Rat)) * (1 / d.fps) * 1000 < d.minDurMs) := by
  obtain ⟨ems, hd, _, _, hiff⟩ := dec_drops_exactly id id d frames w hfps hne hrect hw
  refine ⟨ems, hd, ?_⟩
  intro p s e hp hrun
  rw [hiff p s e hp hrun]
  simp only [id, not_le]
  constructor <;> intro h <;> linarith [h]

/-! ## the active roll with `add_blank_frame_before_onset`, the weights roll as "last writer wins" -/

/-- **active roll as the fold it is** (any rounding, any parameters, either blank setting): a cell starts
at 0 and every note of its pitch, in start order, applies `aUpd` to it (`noteA`): 0 if the cell is the frame
before the note's first frame and blank frames are requested, else 1 if the cell is in the note's span,
else unchanged -/
theorem enc_active_fold {R R32 : Rat → Rat} {eps : Rat} {c : Cfg} {total : Rat} {notes : List PNote}
    {ccs : List PCC} {pr : Pianoroll} (h : encode R R32 eps c total notes ccs = .ok pr) (f p : Nat)
    (hf : f < (numRows R c.fps total).toNat) (hp : p < (c.maxPitch - c.minPitch + 1).toNat) :
    getCell pr.active f p = some
      ((sortByStart notes).foldl (noteA R eps c total (numRows R c.fps total).toNat f p) 0) := by
  obtain ⟨_, _, st, hst, ha, _⟩ := encode_ok h
  rw [ha, encNotes_active_cell _ _ st hst (by simp [initRolls]) f p hf]
  have : getCell (initRolls (numRows R c.fps total).toNat (c.maxPitch - c.minPitch + 1).toNat).active f p = some 0 :=
    getCell_replicate _ _ 0 f p hf hp
  rw [this]; rfl

open Classical in
/-- **active roll, either blank setting** (any rounding, any parameters): a cell is 1 exactly when some
note paints it and no note LATER in start order (`sorted(notes, key=start_time)`, stable) blanks it — i.e.
has it as the frame before its own first frame; every other cell is 0.  (`Blanks_not_covers`: a note
never blanks a frame of its own span, so the painter itself is not in question.) -/
theorem enc_active_cell_blank {R R32 : Rat → Rat} {eps : Rat} {c : Cfg} {total : Rat} {notes : List PNote}
    {ccs : List PCC} {pr : Pianoroll} (h : encode R R32 eps c total notes ccs = .ok pr) (f p : Nat)
    (hf : f < (numRows R c.fps total).toNat) (hp : p < (c.maxPitch - c.minPitch + 1).toNat) :
    getCell pr.active f p = some
      (if ∃ l1 nt l2, sortByStart notes = l1 ++ nt :: l2 ∧
          NoteCovers R eps c total (numRows R c.fps total).toNat (selActive c) f p nt = true ∧
          ∀ o ∈ l2, Blanks R eps c total (numRows R c.fps total).toNat f p o = false
       then 1 else 0) := by
  rw [enc_active_fold h f p hf hp]
  congr 1
  set n := (numRows R c.fps total).toNat with hn
  have hfun : noteA R eps c total n f p = fun x a =>
      if Blanks R eps c total n f p a = true then 0
      else if NoteCovers R eps c total n (selActive c) f p a = true then 1 else x := by
    funext x a; exact noteA_eq R eps c total n f p x a
  rw [hfun]
  obtain ⟨hv, hiff⟩ := foldl_blank_cover (sortByStart notes) (Blanks R eps c total n f p)
    (NoteCovers R eps c total n (selActive c) f p) 0 (Or.inl rfl)
  by_cases hex : ∃ l1 nt l2, sortByStart notes = l1 ++ nt :: l2 ∧
      NoteCovers R eps c total n (selActive c) f p nt = true ∧ ∀ o ∈ l2, Blanks R eps c total n f p o = false
  · rw [if_pos hex]
    obtain ⟨l1, nt, l2, hl, hc, hall⟩ := hex
    apply hiff.mpr
    left
    refine ⟨l1, nt, l2, hl, hc, ?_, hall⟩
    cases hb : Blanks R eps c total n f p nt with
    | false => rfl
    | true =>
      have := Blanks_not_covers R eps c total n f p nt hf hb
      rw [this] at hc; cases hc
  · rw [if_neg hex]
    rcases hv with h0 | h1
    · exact h0
    · exfalso
      rcases hiff.mp h1 with ⟨l1, nt, l2, hl, hc, _, hall⟩ | ⟨h01, _⟩
      · exact hex ⟨l1, nt, l2, hl, hc, hall⟩
      · norm_num at h01

/-- **active roll, closed form under separation** (any rounding, any parameters, either blank setting): if
no note's blank frame falls on a cell that a note paints — the situation of the round-trip clause, where
same-pitch notes are separated by at least one silent frame — the active roll is exactly the union of the
note spans, as without blank frames -/
theorem enc_active_cell_sep {R R32 : Rat → Rat} {eps : Rat} {c : Cfg} {total : Rat} {notes : List PNote}
    {ccs : List PCC} {pr : Pianoroll} (h : encode R R32 eps c total notes ccs = .ok pr) (f p : Nat)
    (hf : f < (numRows R c.fps total).toNat) (hp : p < (c.maxPitch - c.minPitch + 1).toNat)
    (hsep : ∀ a ∈ notes, ∀ b ∈ notes,
      NoteCovers R eps c total (numRows R c.fps total).toNat (selActive c) f p a = true →
      Blanks R eps c total (numRows R c.fps total).toNat f p b = false) :
    getCell pr.active f p = some
      (if ∃ nt ∈ notes, NoteCovers R eps c total (numRows R c.fps total).toNat (selActive c) f p nt = true
       then 1 else 0) := by
  rw [enc_active_cell_blank h f p hf hp]
  congr 1
  by_cases hex : ∃ nt ∈ notes, NoteCovers R eps c total (numRows R c.fps total).toNat (selActive c) f p nt = true
  · rw [if_pos hex, if_pos]
    obtain ⟨nt, hnt, hc⟩ := hex
    obtain ⟨l1, l2, hl⟩ := List.append_of_mem ((mem_sortByStart nt notes).mpr hnt)
    refine ⟨l1, nt, l2, hl, hc, ?_⟩
    intro o ho
    apply hsep nt hnt o _ hc
    rw [← mem_sortByStart, hl]
    simp [ho]
  · rw [if_neg hex, if_neg]
    rintro ⟨l1, nt, l2, hl, hc, _⟩
    apply hex
    refine ⟨nt, ?_, hc⟩
    rw [← mem_sortByStart, hl]; simp

/-- without blank frames nothing is blanked: `enc_active_cell` is the `blank = false` instance of
`enc_active_cell_sep` -/
theorem enc_active_cell_of_noblank {R R32 : Rat → Rat} {eps : Rat} {c : Cfg} {total : Rat} {notes : List PNote}
    {ccs : List PCC} {pr : Pianoroll} (hb : c.blank = false)
    (h : encode R R32 eps c total notes ccs = .ok pr) (f p : Nat)
    (hf : f < (numRows R c.fps total).toNat) (hp : p < (c.maxPitch - c.minPitch + 1).toNat) :
    getCell pr.active f p = some
      (if ∃ nt ∈ notes, NoteCovers R eps c total (numRows R c.fps total).toNat (selActive c) f p nt = true
       then 1 else 0) :=
  enc_active_cell_sep h f p hf hp (fun _ _ b _ _ => Blanks_of_noblank R eps c total _ f p b hb)

/-- **weights roll, last writer wins** (any rounding, any parameters, either blank setting): a cell that
no note touches holds 1; otherwise it holds what the LAST note in start order that touches it writes
(`noteWVal`: 1 in its blanked frame, `onset_upweight / (j + 1)` in the `j`-th frame after its onset
frames, `onset_upweight` in its onset frames) -/
theorem enc_weights_cell_last {R R32 : Rat → Rat} {eps : Rat} {c : Cfg} {total : Rat} {notes : List PNote}
    {ccs : List PCC} {pr : Pianoroll} (h : encode R R32 eps c total notes ccs = .ok pr) (f p : Nat)
    (hf : f < (numRows R c.fps total).toNat) (hp : p < (c.maxPitch - c.minPitch + 1).toNat) :
    ((∀ nt ∈ notes, NoteTouchesW R eps c total (numRows R c.fps total).toNat f p nt = false) ∧
      getCell pr.weights f p = some 1) ∨
    (∃ l1 nt l2, sortByStart notes = l1 ++ nt :: l2 ∧
      NoteTouchesW R eps c total (numRows R c.fps total).toNat f p nt = true ∧
      (∀ o ∈ l2, NoteTouchesW R eps c total (numRows R c.fps total).toNat f p o = false) ∧
      getCell pr.weights f p = some (noteWVal R R32 eps c total (numRows R c.fps total).toNat f nt)) := by
  rw [enc_weights_cell h f p hf hp]
  set n := (numRows R c.fps total).toNat with hn
  have hfun : noteW R R32 eps c total n f p = fun x a =>
      if NoteTouchesW R eps c total n f p a = true then noteWVal R R32 eps c total n f a else x := by
    funext x a; exact noteW_eq R R32 eps c total n f p x a
  rw [hfun]
  by_cases hex : ∃ a ∈ sortByStart notes, NoteTouchesW R eps c total n f p a = true
  · right
    obtain ⟨l1, nt, l2, hl, hc, hall, hval⟩ := foldl_sel_last (sortByStart notes)
      (NoteTouchesW R eps c total n f p) (noteWVal R R32 eps c total n f) 1 hex
    exact ⟨l1, nt, l2, hl, hc, hall, by rw [hval]⟩
  · left
    constructor
    · intro nt hnt
      cases hc : NoteTouchesW R eps c total n f p nt with
      | false => rfl
      | true => exact absurd ⟨nt, (mem_sortByStart nt notes).mpr hnt, hc⟩ hex
    · rw [foldl_sel_const _ _ _ 1 1 (fun a ha hc => absurd ⟨a, ha, hc⟩ hex)]
      simp

/-! ## the round trips for either setting of `add_blank_frame_before_onset` -/

/-- the blank frame of a re-encoded decoded note is the frame before its run -/
theorem blanks_of_emit (R : Rat → Rat) (eps : Rat) (d : DCfg) (c : Cfg) (total : Rat) (n : Nat)
    (N : Nat) (hgrid : ∀ k : Nat, k ≤ N → timeToFrames R eps d.fps (R ((k : Rat) * R (1 / d.fps))) = (k : Rat))
    (hc1 : c.fps = d.fps) (hc2 : c.minPitch = d.minMidiPitch)
    (hc4 : c.mode = 0) (hc5 : c.overlap = true) (hc7 : c.occ = 0)
    (e : Emit) (hse : e.s < e.e) (heN : e.e ≤ N) (f p : Nat)
    (h : Blanks R eps c total n f p (toPNote (emitNote R (R (1 / d.fps)) d.minMidiPitch e)) = true) :
    p = e.pitch ∧ f + 1 = e.s := by
  obtain ⟨_, _, hp, nf', hnf', hfr⟩ := (Blanks_iff R eps c total n f p _).mp h
  obtain ⟨nf, hnf, hsf, _⟩ := noteFrames_plain R eps c total n
    (toPNote (emitNote R (R (1 / d.fps)) d.minMidiPitch e)) hc4 hc5
  rw [hnf] at hnf'; cases hnf'
  have hfr' : framesFromTimes R eps c.fps c.occ (toPNote (emitNote R (R (1 / d.fps)) d.minMidiPitch e)).start
      (toPNote (emitNote R (R (1 / d.fps)) d.minMidiPitch e)).end_ = ((e.s : Int), (e.e : Int)) := by
    rw [hc1, hc7]
    exact framesFromTimes_grid R eps d.fps _ _ e.s e.e hse (hgrid e.s (by omega)) (hgrid e.e heN)
  rw [hfr'] at hsf
  have hcol : colOf c (toPNote (emitNote R (R (1 / d.fps)) d.minMidiPitch e)) = e.pitch := by
    simp only [colOf, toPNote, emitNote, hc2]; omega
  rw [hcol] at hp
  simp only at hsf
  exact ⟨hp, by omega⟩

/-- **roll_roundtrip (decode then encode), either blank setting, any rounding**: as
`roll_roundtrip_of_grid` but with `add_blank_frame_before_onset` arbitrary — the decoded notes are the
maximal runs, so the frame before each of them is silent in the roll and blanking it changes nothing -/
theorem roll_roundtrip_of_grid_anyblank (R R32 Rv : Rat → Rat) (eps : Rat) (d : DCfg) (c : Cfg)
    (frames : List (List Bool)) (w : Nat) (ccs : List PCC)
    (hfps : d.fps ≠ 0) (hne : frames ≠ []) (hrect : isRect frames frames.length w = true)
    (hw : w ≤ Gen.VEL_SLOTS)
    (hgrid : ∀ k : Nat, k ≤ frames.length →
      timeToFrames R eps d.fps (R ((k : Rat) * R (1 / d.fps))) = (k : Rat))
    (hkeep : ∀ s e : Nat, s < e → keepR R (R (1 / d.fps)) d.minDurMs s e = true)
    (hc1 : c.fps = d.fps) (hc2 : c.minPitch = d.minMidiPitch)
    (hc3 : c.maxPitch = d.minMidiPitch + (w : Int) - 1) (hc4 : c.mode = 0) (hc5 : c.overlap = true)
    (hc7 : c.occ = 0)
    (notes : List ONote) (total : Rat) (hdec : decode R Rv d frames none none none = .ok (notes, total))
    (pr : Pianoroll) (henc : encode R R32 eps c total (notes.map toPNote) ccs = .ok pr)
    (f p : Nat) (hf : f < (numRows R c.fps total).toNat) (hp : p < w) :
    getCell pr.active f p = some (if frameCol frames p f = true then 1 else 0) := by
  obtain ⟨ems, hd, _, hmem⟩ := runs_decode R Rv d frames w hfps hne hrect hw
  rw [hd] at hdec
  injection hdec with hdec
  injection hdec with hnotes htotal
  have hcols : (c.maxPitch - c.minPitch + 1).toNat = w := by rw [hc2, hc3]; omega
  have hsep : ∀ a ∈ notes.map toPNote, ∀ b ∈ notes.map toPNote,
      NoteCovers R eps c total (numRows R c.fps total).toNat (selActive c) f p a = true →
      Blanks R eps c total (numRows R c.fps total).toNat f p b = false := by
    intro a ha b hb hca
    cases hbb : Blanks R eps c total (numRows R c.fps total).toNat f p b with
    | false => rfl
    | true =>
      exfalso
      rw [← hnotes] at ha hb
      simp only [List.mem_map] at ha hb
      obtain ⟨_, ⟨ea, hea, rfl⟩, rfl⟩ := ha
      obtain ⟨_, ⟨eb, heb, rfl⟩, rfl⟩ := hb
      obtain ⟨hpa, _, _, hra⟩ := (hmem ea).mp hea
      obtain ⟨hpb, _, _, hrb⟩ := (hmem eb).mp heb
      obtain ⟨hpe, h1, h2⟩ := (covers_of_emit R eps d c total _ w frames.length hgrid hc1 hc2 hc3 hc4 hc5 hc7
        ea hpa hra.1 hra.end_le f p hf).mp hca
      obtain ⟨hpe', hfs⟩ := blanks_of_emit R eps d c total _ frames.length hgrid hc1 hc2 hc4 hc5 hc7
        eb hrb.1 hrb.end_le f p hbb
      have hA : frameCol frames ea.pitch f = true := hra.2.1 f h1 h2
      rcases hrb.2.2.1 with h0 | h0
      · omega
      · have hfe : eb.s - 1 = f := by omega
        rw [hfe, ← hpe', hpe, hA] at h0
        cases h0
  rw [enc_active_cell_sep henc f p hf (by omega) hsep]
  congr 1
  have key : (∃ nt ∈ notes.map toPNote,
      NoteCovers R eps c total (numRows R c.fps total).toNat (selActive c) f p nt = true) ↔
      frameCol frames p f = true := by
    constructor
    · rintro ⟨nt, hnt, hcov⟩
      rw [← hnotes] at hnt
      simp only [List.mem_map] at hnt
      obtain ⟨o, ⟨e, he, rfl⟩, rfl⟩ := hnt
      obtain ⟨hpw, _, _, hrun⟩ := (hmem e).mp he
      have hcv := (covers_of_emit R eps d c total _ w frames.length hgrid hc1 hc2 hc3 hc4 hc5 hc7 e hpw
        hrun.1 hrun.end_le f p hf).mp hcov
      obtain ⟨rfl, h1, h2⟩ := hcv
      exact hrun.2.1 f h1 h2
    · intro hA
      obtain ⟨s, e, hrun, h1, h2⟩ := exists_maxRun (frameCol frames p) frames.length
        (fun k hk => by
          cases hg : frameCol frames p k with
          | false => rfl
          | true => have := getB_true_lt frames k p hg; omega) f hA
      have hem : (⟨p, s, e, d.velocity⟩ : Emit) ∈ ems :=
        (hmem ⟨p, s, e, d.velocity⟩).mpr ⟨hp, rfl, hkeep s e hrun.1, hrun⟩
      refine ⟨toPNote (emitNote R (R (1 / d.fps)) d.minMidiPitch ⟨p, s, e, d.velocity⟩), ?_, ?_⟩
      · rw [← hnotes]
        simp only [List.mem_map]
        exact ⟨_, ⟨_, hem, rfl⟩, rfl⟩
      · exact (covers_of_emit R eps d c total _ w frames.length hgrid hc1 hc2 hc3 hc4 hc5 hc7
          ⟨p, s, e, d.velocity⟩ hp hrun.1 hrun.end_le f p hf).mpr ⟨rfl, h1, h2⟩
  by_cases hA : frameCol frames p f = true
  · rw [if_pos hA, if_pos (key.mpr hA)]
  · rw [if_neg hA, if_neg (fun h => hA (key.mp h))]

/-- **roll_roundtrip_float, either blank setting**: `roll_roundtrip_float` without the hypothesis
`add_blank_frame_before_onset = False` -/
theorem roll_roundtrip_float_anyblank {R : Rat → Rat} (hR : Rounding R) (R32 Rv : Rat → Rat) (d : DCfg) (c : Cfg)
    (frames : List (List Bool)) (w : Nat) (ccs : List PCC)
    (hfps : 0 < d.fps) (hne : frames ≠ []) (hrect : isRect frames frames.length w = true)
    (hw : w ≤ Gen.VEL_SLOTS) (hlen : frames.length + 1 < 2 ^ 31) (hmin : d.minDurMs ≤ 0)
    (hc1 : c.fps = d.fps) (hc2 : c.minPitch = d.minMidiPitch)
    (hc3 : c.maxPitch = d.minMidiPitch + (w : Int) - 1) (hc4 : c.mode = 0) (hc5 : c.overlap = true)
    (hc7 : c.occ = 0)
    (notes : List ONote) (total : Rat) (hdec : decode R Rv d frames none none none = .ok (notes, total))
    (pr : Pianoroll) (henc : encode R R32 Gen.SNAP_EPS c total (notes.map toPNote) ccs = .ok pr) :
    ((frames.length : Int) + 1 ≤ numRows R c.fps total ∧ numRows R c.fps total ≤ (frames.length : Int) + 2) ∧
    ∀ f p : Nat, f < (numRows R c.fps total).toNat → p < w →
      getCell pr.active f p = some (if frameCol frames p f = true then 1 else 0) := by
  have hfps' : d.fps ≠ 0 := ne_of_gt hfps
  constructor
  · obtain ⟨ems, hd, _, _⟩ := runs_decode R Rv d frames w hfps' hne hrect hw
    rw [hd] at hdec
    injection hdec with hdec
    injection hdec with _ htotal
    rw [← htotal, hc1]
    have := numRows_grid hR d.fps hfps (frames.length + 1) hlen
    push_cast at this ⊢
    omega
  · intro f p hf hp
    exact roll_roundtrip_of_grid_anyblank R R32 Rv Gen.SNAP_EPS d c frames w ccs hfps' hne hrect hw
      (fun k hk => timeToFrames_grid hR Gen.SNAP_EPS d.fps snap_eps_ok hfps k (by omega))
      (fun s e hse => keepR_of_nonpos hR d.fps d.minDurMs hfps hmin s e hse)
      hc1 hc2 hc3 hc4 hc5 hc7 notes total hdec pr henc f p hf hp

/-- **roll_roundtrip (encode then decode), either blank setting, any rounding**: as
`roll_roundtrip_notes_of_grid` with `add_blank_frame_before_onset` arbitrary — with at least one silent
frame between same-pitch notes the blanked frame before a note is one of those silent frames -/
theorem roll_roundtrip_notes_of_grid_anyblank (R R32 Rv : Rat → Rat) (eps : Rat) (d : DCfg) (c : Cfg)
    (gl : List Emit) (total : Rat) (ccs : List PCC) (w : Nat)
    (hfps : d.fps ≠ 0) (hw : w ≤ Gen.VEL_SLOTS)
    (hc1 : c.fps = d.fps) (hc2 : c.minPitch = d.minMidiPitch)
    (hc3 : c.maxPitch = d.minMidiPitch + (w : Int) - 1) (hc4 : c.mode = 0) (hc5 : c.overlap = true)
    (hc7 : c.occ = 0)
    (hrows : 1 ≤ numRows R c.fps total)
    (hgrid : ∀ k : Nat, (k : Int) ≤ numRows R c.fps total →
      timeToFrames R eps d.fps (R ((k : Rat) * R (1 / d.fps))) = (k : Rat))
    (hkeep : ∀ s e : Nat, s < e → keepR R (R (1 / d.fps)) d.minDurMs s e = true)
    (hgl : ∀ g ∈ gl, g.pitch < w ∧ g.s < g.e ∧ (g.e : Int) ≤ numRows R c.fps total)
    (hsep : ∀ a ∈ gl, ∀ b ∈ gl, a.pitch = b.pitch → (a.s = b.s ∧ a.e = b.e) ∨ a.e < b.s ∨ b.e < a.s)
    (pr : Pianoroll)
    (henc : encode R R32 eps c total
      (gl.map fun g => toPNote (emitNote R (R (1 / d.fps)) d.minMidiPitch g)) ccs = .ok pr) :
    ∃ ems : List Emit,
      decode R Rv d (toBoolRoll pr.active) none none none =
        .ok (ems.map (emitNote R (R (1 / d.fps)) d.minMidiPitch),
             R ((((toBoolRoll pr.active).length + 1 : Nat) : Rat) * R (1 / d.fps))) ∧
      ems.Pairwise emitLt ∧
      ∀ e : Emit, e ∈ ems ↔
        e.vel = d.velocity ∧ ∃ g ∈ gl, g.pitch = e.pitch ∧ g.s = e.s ∧ g.e = e.e := by
  set n := (numRows R c.fps total).toNat with hn
  have hcols : (c.maxPitch - c.minPitch + 1).toNat = w := by rw [hc2, hc3]; omega
  obtain ⟨hlen, hrl⟩ := encode_active_rect' henc
  rw [hcols] at hrl
  have hblen : (toBoolRoll pr.active).length = n := by simp [toBoolRoll, hlen, hn]
  have hne : toBoolRoll pr.active ≠ [] := by
    intro h; rw [h] at hblen; simp at hblen; omega
  have hrect : isRect (toBoolRoll pr.active) (toBoolRoll pr.active).length w = true := by
    unfold isRect
    simp only [BEq.rfl, Bool.true_and, List.all_eq_true, beq_iff_eq]
    intro row hrow
    simp only [toBoolRoll, List.mem_map] at hrow
    obtain ⟨r, hr, rfl⟩ := hrow
    rw [List.length_map]; exact hrl r hr
  obtain ⟨ems, hd, hsorted, hmem⟩ := runs_decode R Rv d (toBoolRoll pr.active) w hfps hne hrect hw
  refine ⟨ems, hd, hsorted, ?_⟩
  -- the encoded column of pitch index p
  have hcol : ∀ p, p < w → ∀ k, frameCol (toBoolRoll pr.active) p k = true ↔
      ∃ ij ∈ (gl.filter (fun g => g.pitch == p)).map (fun g => (g.s, g.e)), ij.1 ≤ k ∧ k < ij.2 := by
    intro p hp k
    rw [frameCol_toBoolRoll]
    rcases Nat.lt_or_ge k n with hk | hk
    · have hcov : ∀ g ∈ gl, (NoteCovers R eps c total n (selActive c) k p
            (toPNote (emitNote R (R (1 / d.fps)) d.minMidiPitch g)) = true ↔ p = g.pitch ∧ g.s ≤ k ∧ k < g.e) := by
        intro g hg
        obtain ⟨h1, h2, h3⟩ := hgl g hg
        exact covers_of_emit R eps d c total n w n (fun k hk => hgrid k (by omega)) hc1 hc2 hc3 hc4 hc5 hc7
          g h1 h2 (by omega) k p hk
      have hsepc : ∀ a ∈ gl.map (fun g => toPNote (emitNote R (R (1 / d.fps)) d.minMidiPitch g)),
          ∀ b ∈ gl.map (fun g => toPNote (emitNote R (R (1 / d.fps)) d.minMidiPitch g)),
          NoteCovers R eps c total n (selActive c) k p a = true → Blanks R eps c total n k p b = false := by
        intro a ha b hb hca
        cases hbb : Blanks R eps c total n k p b with
        | false => rfl
        | true =>
          exfalso
          simp only [List.mem_map] at ha hb
          obtain ⟨ga, hga, rfl⟩ := ha
          obtain ⟨gb, hgb, rfl⟩ := hb
          obtain ⟨hpa, ha1, ha2⟩ := (hcov ga hga).mp hca
          obtain ⟨_, hb2, hb3⟩ := hgl gb hgb
          obtain ⟨hpb, hks⟩ := blanks_of_emit R eps d c total n n (fun k hk => hgrid k (by omega)) hc1 hc2 hc4 hc5
            hc7 gb hb2 (by omega) k p hbb
          rcases hsep ga hga gb hgb (by rw [← hpa, ← hpb]) with ⟨h1, _⟩ | h | h <;> omega
      rw [enc_active_cell_sep henc k p hk (by omega) hsepc]
      constructor
      · intro h
        by_cases hex : ∃ nt ∈ gl.map (fun g => toPNote (emitNote R (R (1 / d.fps)) d.minMidiPitch g)),
            NoteCovers R eps c total n (selActive c) k p nt = true
        · obtain ⟨nt, hnt, hc⟩ := hex
          simp only [List.mem_map] at hnt
          obtain ⟨g, hg, rfl⟩ := hnt
          obtain ⟨hp1, hp2, hp3⟩ := (hcov g hg).mp hc
          refine ⟨(g.s, g.e), ?_, hp2, hp3⟩
          simp only [List.mem_map, List.mem_filter, beq_iff_eq]
          exact ⟨g, ⟨hg, hp1.symm⟩, rfl⟩
        · rw [if_neg hex] at h; simp at h
      · rintro ⟨ij, hij, h1, h2⟩
        simp only [List.mem_map, List.mem_filter, beq_iff_eq] at hij
        obtain ⟨g, ⟨hg, hgp⟩, rfl⟩ := hij
        have : ∃ nt ∈ gl.map (fun g => toPNote (emitNote R (R (1 / d.fps)) d.minMidiPitch g)),
            NoteCovers R eps c total n (selActive c) k p nt = true :=
          ⟨_, List.mem_map.mpr ⟨g, hg, rfl⟩, (hcov g hg).mpr ⟨hgp.symm, h1, h2⟩⟩
        rw [if_pos this]; simp
    · have hnone : getCell pr.active k p = none := by
        unfold getCell
        rw [List.getElem?_eq_none (by omega)]; rfl
      rw [hnone]
      simp only [Option.map_none, Option.getD_none, Bool.false_eq_true, false_iff]
      rintro ⟨ij, hij, h1, h2⟩
      simp only [List.mem_map, List.mem_filter, beq_iff_eq] at hij
      obtain ⟨g, ⟨hg, _⟩, rfl⟩ := hij
      have := (hgl g hg).2.2
      simp only at h2
      omega
  have hruns : ∀ p, p < w → ∀ s e, IsMaxRun (frameCol (toBoolRoll pr.active) p) s e ↔
      ∃ g ∈ gl, g.pitch = p ∧ g.s = s ∧ g.e = e := by
    intro p hp s e
    rw [maxRun_of_separated _ ((gl.filter (fun g => g.pitch == p)).map (fun g => (g.s, g.e))) (hcol p hp)]
    · simp only [List.mem_map, List.mem_filter, beq_iff_eq, Prod.mk.injEq]
      constructor
      · rintro ⟨g, ⟨hg, hgp⟩, h1, h2⟩; exact ⟨g, hg, hgp, h1, h2⟩
      · rintro ⟨g, hg, hgp, h1, h2⟩; exact ⟨g, ⟨hg, hgp⟩, h1, h2⟩
    · intro ij hij
      simp only [List.mem_map, List.mem_filter, beq_iff_eq] at hij
      obtain ⟨g, ⟨hg, _⟩, rfl⟩ := hij
      exact (hgl g hg).2.1
    · intro a ha b hb
      simp only [List.mem_map, List.mem_filter, beq_iff_eq] at ha hb
      obtain ⟨ga, ⟨hga, hpa⟩, rfl⟩ := ha
      obtain ⟨gb, ⟨hgb, hpb⟩, rfl⟩ := hb
      rcases hsep ga hga gb hgb (by rw [hpa, hpb]) with ⟨h1, h2⟩ | h | h
      · left; rw [h1, h2]
      · right; left; exact h
      · right; right; exact h
  intro e
  rw [hmem e]
  constructor
  · rintro ⟨hp, hv, _, hrun⟩
    exact ⟨hv, (hruns e.pitch hp e.s e.e).mp hrun⟩
  · rintro ⟨hv, g, hg, h1, h2, h3⟩
    obtain ⟨hgp, hgse, _⟩ := hgl g hg
    have hp : e.pitch < w := by omega
    exact ⟨hp, hv, hkeep e.s e.e (by omega), (hruns e.pitch hp e.s e.e).mpr ⟨g, hg, h1, h2, h3⟩⟩

/-- **roll_roundtrip (encode then decode) under floating point, either blank setting** -/
theorem roll_roundtrip_notes_float_anyblank {R : Rat → Rat} (hR : Rounding R) (R32 Rv : Rat → Rat) (d : DCfg)
    (c : Cfg) (gl : List Emit) (total : Rat) (ccs : List PCC) (w : Nat)
    (hfps : 0 < d.fps) (hw : w ≤ Gen.VEL_SLOTS) (hmin : d.minDurMs ≤ 0)
    (hc1 : c.fps = d.fps) (hc2 : c.minPitch = d.minMidiPitch)
    (hc3 : c.maxPitch = d.minMidiPitch + (w : Int) - 1) (hc4 : c.mode = 0) (hc5 : c.overlap = true)
    (hc7 : c.occ = 0)
    (hrows : 1 ≤ numRows R c.fps total) (hrows' : numRows R c.fps total < 2 ^ 31)
    (hgl : ∀ g ∈ gl, g.pitch < w ∧ g.s < g.e ∧ (g.e : Int) ≤ numRows R c.fps total)
    (hsep : ∀ a ∈ gl, ∀ b ∈ gl, a.pitch = b.pitch → (a.s = b.s ∧ a.e = b.e) ∨ a.e < b.s ∨ b.e < a.s)
    (pr : Pianoroll)
    (henc : encode R R32 Gen.SNAP_EPS c total
      (gl.map fun g => toPNote (emitNote R (R (1 / d.fps)) d.minMidiPitch g)) ccs = .ok pr) :
    ∃ ems : List Emit,
      decode R Rv d (toBoolRoll pr.active) none none none =
        .ok (ems.map (emitNote R (R (1 / d.fps)) d.minMidiPitch),
             R ((((toBoolRoll pr.active).length + 1 : Nat) : Rat) * R (1 / d.fps))) ∧
      ems.Pairwise emitLt ∧
      ∀ e : Emit, e ∈ ems ↔
        e.vel = d.velocity ∧ ∃ g ∈ gl, g.pitch = e.pitch ∧ g.s = e.s ∧ g.e = e.e :=
  roll_roundtrip_notes_of_grid_anyblank R R32 Rv Gen.SNAP_EPS d c gl total ccs w (ne_of_gt hfps) hw hc1 hc2 hc3
    hc4 hc5 hc7 hrows
    (fun k hk => timeToFrames_grid hR Gen.SNAP_EPS d.fps snap_eps_ok hfps k (by omega))
    (fun s e hse => keepR_of_nonpos hR d.fps d.minDurMs hfps hmin s e hse) hgl hsep pr henc

/-! ## the `min_duration_ms` test under floating point -/

theorem u53_pos : (0 : Rat) < u53 := by unfold u53; norm_num
theorem u53_lt_one : u53 < 1 := by unfold u53; norm_num

/-- **kept under floating point**: for every `Rounding R` a run `[s, e)` is kept whenever
`min_duration_ms ≤ (1 − u)³ · ((e − s) − (e + s)·u) · 1000 / fps`, `u = 2⁻⁵³` -/
theorem keepR_float_kept {R : Rat → Rat} (hR : Rounding R) (fps minDur : Rat) (hf : 0 < fps) (s e : Nat)
    (hse : s < e) (hK : 0 ≤ ((e : Rat) - s) - ((e : Rat) + s) * u53)
    (h : minDur ≤ (1 - u53) ^ 3 * (((e : Rat) - s) - ((e : Rat) + s) * u53) * (1000 / fps)) :
    keepR R (R (1 / fps)) minDur s e = true := by
  unfold keepR
  simp only [decide_eq_true_eq]
  set u := u53 with hu
  have hu0 : 0 ≤ 1 - u := by have := u53_lt_one; linarith
  have h0 : (0 : Rat) ≤ 1 / fps := by positivity
  set fl := R (1 / fps) with hfl
  have hfl0 : 0 ≤ fl := hR.nonneg h0
  have hfl_lo : 1 / fps * (1 - u) ≤ fl := hR.lo h0
  have hs0 : (0 : Rat) ≤ (s : Rat) := by exact_mod_cast Nat.zero_le s
  have he0 : (0 : Rat) ≤ (e : Rat) := by exact_mod_cast Nat.zero_le e
  have hse' : (s : Rat) ≤ (e : Rat) := by exact_mod_cast Nat.le_of_lt hse
  set a := R ((e : Rat) * fl) with ha
  set b := R ((s : Rat) * fl) with hb
  have ha_lo : (e : Rat) * fl * (1 - u) ≤ a := hR.lo (mul_nonneg he0 hfl0)
  have hb_hi : b ≤ (s : Rat) * fl * (1 + u) := hR.hi (mul_nonneg hs0 hfl0)
  have hab : b ≤ a := hR.mono _ _ (mul_le_mul_of_nonneg_right hse' hfl0)
  have hd : (a - b) * (1 - u) ≤ R (a - b) := hR.lo (by linarith)
  have hd0 : 0 ≤ R (a - b) := hR.nonneg (by linarith)
  have hC : R (a - b) * 1000 * (1 - u) ≤ R (R (a - b) * 1000) := hR.lo (by positivity)
  set K := ((e : Rat) - s) - ((e : Rat) + s) * u with hKdef
  have h1 : fl * K ≤ a - b := by
    have : fl * K = (e : Rat) * fl * (1 - u) - (s : Rat) * fl * (1 + u) := by rw [hKdef]; ring
    linarith
  have h2 : 1 / fps * (1 - u) * K ≤ fl * K := mul_le_mul_of_nonneg_right hfl_lo hK
  have h3 : 1 / fps * (1 - u) * K * (1 - u) ≤ (a - b) * (1 - u) :=
    mul_le_mul_of_nonneg_right (by linarith) hu0
  have h4 : 1 / fps * (1 - u) * K * (1 - u) * 1000 * (1 - u) ≤ R (a - b) * 1000 * (1 - u) := by
    apply mul_le_mul_of_nonneg_right _ hu0
    apply mul_le_mul_of_nonneg_right _ (by norm_num)
    linarith
  have h5 : (1 - u) ^ 3 * K * (1000 / fps) = 1 / fps * (1 - u) * K * (1 - u) * 1000 * (1 - u) := by ring
  linarith

/-- **dropped under floating point**: for every `Rounding R` a run `[s, e)` is dropped whenever
`(1 + u)³ · ((e − s) + (e + s)·u) · 1000 / fps < min_duration_ms` -/
theorem keepR_float_dropped {R : Rat → Rat} (hR : Rounding R) (fps minDur : Rat) (hf : 0 < fps) (s e : Nat)
    (hse : s < e)
    (h : (1 + u53) ^ 3 * (((e : Rat) - s) + ((e : Rat) + s) * u53) * (1000 / fps) < minDur) :
    keepR R (R (1 / fps)) minDur s e = false := by
  unfold keepR
  simp only [decide_eq_false_iff_not, not_le]
  set u := u53 with hu
  have hu0 : 0 ≤ 1 + u := by have := u53_pos; linarith
  have hu1 : 0 ≤ 1 - u := by have := u53_lt_one; linarith
  have h0 : (0 : Rat) ≤ 1 / fps := by positivity
  set fl := R (1 / fps) with hfl
  have hfl0 : 0 ≤ fl := hR.nonneg h0
  have hfl_hi : fl ≤ 1 / fps * (1 + u) := hR.hi h0
  have hs0 : (0 : Rat) ≤ (s : Rat) := by exact_mod_cast Nat.zero_le s
  have he0 : (0 : Rat) ≤ (e : Rat) := by exact_mod_cast Nat.zero_le e
  have hse' : (s : Rat) ≤ (e : Rat) := by exact_mod_cast Nat.le_of_lt hse
  set a := R ((e : Rat) * fl) with ha
  set b := R ((s : Rat) * fl) with hb
  have ha_hi : a ≤ (e : Rat) * fl * (1 + u) := hR.hi (mul_nonneg he0 hfl0)
  have hb_lo : (s : Rat) * fl * (1 - u) ≤ b := hR.lo (mul_nonneg hs0 hfl0)
  have hab : b ≤ a := hR.mono _ _ (mul_le_mul_of_nonneg_right hse' hfl0)
  have hd : R (a - b) ≤ (a - b) * (1 + u) := hR.hi (by linarith)
  have hd0 : 0 ≤ R (a - b) := hR.nonneg (by linarith)
  have hC : R (R (a - b) * 1000) ≤ R (a - b) * 1000 * (1 + u) := hR.hi (by positivity)
  set K := ((e : Rat) - s) + ((e : Rat) + s) * u with hKdef
  have hK : 0 ≤ K := by
    rw [hKdef]
    have : 0 ≤ ((e : Rat) + s) * u := mul_nonneg (by linarith) (le_of_lt u53_pos)
    linarith
  have h1 : a - b ≤ fl * K := by
    have : fl * K = (e : Rat) * fl * (1 + u) - (s : Rat) * fl * (1 - u) := by rw [hKdef]; ring
    linarith
  have h2 : fl * K ≤ 1 / fps * (1 + u) * K := mul_le_mul_of_nonneg_right hfl_hi hK
  have h3 : (a - b) * (1 + u) ≤ 1 / fps * (1 + u) * K * (1 + u) :=
    mul_le_mul_of_nonneg_right (by linarith) hu0
  have h4 : R (a - b) * 1000 * (1 + u) ≤ 1 / fps * (1 + u) * K * (1 + u) * 1000 * (1 + u) := by
    apply mul_le_mul_of_nonneg_right _ hu0
    apply mul_le_mul_of_nonneg_right _ (by norm_num)
    linarith
  have h5 : (1 + u) ^ 3 * K * (1000 / fps) = 1 / fps * (1 + u) * K * (1 + u) * 1000 * (1 + u) := by ring
  linarith

/-! ## non-vacuity: concrete inputs satisfying the hypotheses (kernel-evaluated) -/
section ExamplesB
def exCb : Cfg := { exC with blank := true }

-- onsets_decode / onsets_decode_cells / onsets_decode_defined: a 3 × 2 onset matrix with onsets at (0,0), (2,0),
-- (2,1) gives three notes in np.nonzero order, each 1/20 s long from its frame's time, pitch = index + 60; without
-- velocity values the velocity is _unscale_velocity(70) = int(1 · 80 + 10) = 90, not 70
example : decodeOnsets id id exD (1 / 20) [[true, false], [false, false], [true, true]] none =
    .ok ([⟨60, 90, 0, 1 / 20⟩, ⟨60, 90, 1 / 50, 7 / 100⟩, ⟨61, 90, 1 / 50, 7 / 100⟩], 2 / 25) := by decide +kernel
-- with velocity values (0.5 → 50, 2.0 clipped → 90, −1 clipped → 10)
example : decodeOnsets id id exD (1 / 20) [[true, false], [false, false], [true, true]]
      (some [[1 / 2, 0], [0, 0], [2, -1]]) =
    .ok ([⟨60, 50, 0, 1 / 20⟩, ⟨60, 90, 1 / 50, 7 / 100⟩, ⟨61, 10, 1 / 50, 7 / 100⟩], 2 / 25) := by decide +kernel
example : exD.fps ≠ 0 ∧ isRect [[true, false], [false, false], [true, true]] 3
    (rollWidth [[true, false], [false, false], [true, true]]) = true := by decide +kernel
-- onsets_decode_total_ge: exact arithmetic is monotone and 1/fps is not negative
example : (∀ x y : Rat, x ≤ y → id x ≤ id y) ∧ 0 ≤ id (1 / exD.fps) := ⟨fun _ _ h => h, by decide +kernel⟩

-- enc_active_fold / enc_active_cell_blank / enc_weights_cell_last with add_blank_frame_before_onset: the notes
-- 60@[1/40, 9/200) (frames 2..4) and 60@[1/25, 3/50) (frames 4..5) overlap; the later one blanks frame 3, which the
-- earlier one had painted: active(3,0) = 0 and weight(3,0) = 1, although frame 3 is an onset frame of both; frame 1,
-- before the first note, is blank; frame 4 is painted by both and stays 1.  Without blank frames active(3,0) = 1.
example : (match encode id id Gen.SNAP_EPS exCb 1 exNotes [] with
  | .ok pr => getCell pr.active 1 0 == some 0 && getCell pr.active 2 0 == some 1 && getCell pr.active 3 0 == some 0 &&
      getCell pr.active 4 0 == some 1 && getCell pr.active 5 0 == some 1 && getCell pr.active 6 0 == some 0 &&
      getCell pr.weights 3 0 == some 1 && getCell pr.weights 1 0 == some 1 && getCell pr.weights 2 0 == some 5
  | .error _ => false) = true := by decide +kernel
example : (match encode id id Gen.SNAP_EPS exC 1 exNotes [] with
  | .ok pr => getCell pr.active 3 0 == some 1
  | .error _ => false) = true := by decide +kernel
-- Blanks / NoteCovers are both inhabited on that input: the second note of pitch 60 blanks (3, 0), the first covers it
example : Blanks id Gen.SNAP_EPS exCb 1 101 3 0 ⟨60, 127, 1 / 25, 3 / 50⟩ = true ∧
    NoteCovers id Gen.SNAP_EPS exCb 1 101 (selActive exCb) 3 0 ⟨60, 100, 1 / 40, 9 / 200⟩ = true := by decide +kernel

-- enc_active_cell_sep / roll_roundtrip_*_anyblank: the separated grid notes of `exGrid`, encoded WITH blank frames
-- and decoded, come back; a decoded roll re-encoded WITH blank frames is the same roll
example : (match encode id id Gen.SNAP_EPS exCb (7 / 100)
      (exGrid.map fun g => toPNote (emitNote id (1 / 100) 60 g)) [] with
  | .ok pr => (match decode id id exD (toBoolRoll pr.active) none none none with
      | .ok (notes, _) => notes.map (fun n => (n.pitch, n.start, n.end_)) ==
          [(61, 0, 1 / 50), (60, 1 / 100, 3 / 100), (60, 1 / 25, 3 / 50)]
      | .error _ => false)
  | .error _ => false) = true := by decide +kernel
example : (match decode id id exD exFrames none none none with
  | .ok (notes, total) =>
      (match encode id id Gen.SNAP_EPS exCb total (notes.map toPNote) [] with
       | .ok pr => (toBoolRoll pr.active).take 4 == exFrames
       | .error _ => false)
  | .error _ => false) = true := by decide +kernel

-- enc_onset_velocity_cell / active_velocity_range / onset_velocity_range: note 60 (velocity 100 of 127) has onset
-- frames 1..3 and active frames 2..4: onset velocity 0 in frame 1 (onset without active), 100/127 in frame 2,
-- 0 in frame 0; in frame 4 the later note (velocity 127) has overwritten the velocity: 1
example : (match encode id id Gen.SNAP_EPS exC 1 exNotes [] with
  | .ok pr => getCell pr.onsetVelocities 1 0 == some 0 && getCell pr.onsetVelocities 2 0 == some (100 / 127) &&
      getCell pr.onsetVelocities 0 0 == some 0 && getCell pr.onsetVelocities 4 0 == some 1 &&
      getCell pr.activeVelocities 2 0 == some (100 / 127) && getCell pr.activeVelocities 1 0 == some 0
  | .error _ => false) = true := by decide +kernel
example : id (0 : Rat) = 0 := rfl

-- dec_drops_exactly / dec_drops_exact_id: with min_duration_ms = 20 at 100 fps the one-frame run of pitch 0 at
-- frame 3 (10 ms) is dropped, the two-frame runs (exactly 20 ms) are kept — in exact arithmetic
example : (match decode id id { exD with minDurMs := 20 } exFrames none none none with
  | .ok (notes, _) => notes.map (fun n => (n.pitch, n.start, n.end_)) == [(60, 0, 1 / 50), (61, 1 / 100, 3 / 100)]
  | .error _ => false) = true := by decide +kernel
-- … and the SAME test in binary64 (`rne53`) drops the run [1, 3) of exactly 20 ms: (3·0.01 − 1·0.01)·1000 evaluates
-- to 19.999999999999996.  "Drops only notes shorter than min_duration_ms" holds for floats only up to the relative
-- 2⁻⁵³ margins of keepR_float_kept / keepR_float_dropped.
example : keepR rne53 (rne53 (1 / 100)) 20 1 3 = false ∧ keepR id (id (1 / 100)) 20 1 3 = true := by decide +kernel
-- keepR_float_kept / keepR_float_dropped: their hypotheses hold for 3 frames resp. 1 frame against 20 ms at 100 fps
example : (0 : Rat) ≤ (((4 : Nat) : Rat) - (1 : Nat)) - (((4 : Nat) : Rat) + (1 : Nat)) * u53 ∧
    (20 : Rat) ≤ (1 - u53) ^ 3 * ((((4 : Nat) : Rat) - (1 : Nat)) - (((4 : Nat) : Rat) + (1 : Nat)) * u53) * (1000 / 100) := by
  unfold u53; norm_num
example : (1 + u53) ^ 3 * ((((2 : Nat) : Rat) - (1 : Nat)) + (((2 : Nat) : Rat) + (1 : Nat)) * u53) * (1000 / 100) < (20 : Rat) := by
  unfold u53; norm_num
end ExamplesB

end NSV.C18
