import NoteSeqVerif.Model.C14Spec
namespace NSV.C14

theorem sustain_rejects_quantized (ctl : Int) (s : NoteSeq) (h : s.isQuantized = true) :
    applySustain ctl s = .error .quantizationStatusError := by
  simp [applySustain, h]

end NSV.C14
