import NoteSeqVerif.Proofs.C14Main
/-! C14 — applying the sustain pedal holds exactly the notes the pedal holds (DESIGN 6.14).
Property theorems about the model `applySustain` (`Model/C14.lean`, a literal transcription of
`sequences_lib.apply_sustain_control_changes`, tied to the source by the generated event-order
constants and by the differential correspondence check) and the declarative specification
`pedalDown` / `heldEnd` (`Model/C14Spec.lean`).  All theorems hold for every controller number
`ctl`; the Python default is `Gen.DEFAULT_SUSTAIN_CONTROL_NUMBER`. -/
namespace NSV.C14
open Gen

/-- **The pedal holds exactly the notes the pedal holds.**  For every unquantized sequence whose
pitched notes are well-formed and never overlap on one pitch of one instrument, the result is the
input with every note's end replaced by `heldEnd` — same notes, same order, every other field of
every note and every other container untouched — and `total_time` is only ever raised, and only
to the held end of a pedal-held note. -/
theorem sustain_spec (ctl : Int) (s : NoteSeq) (hq : s.isQuantized = false) (hw : WellFormed s)
    (ho : NoSamePitchOverlap s) :
    ∃ T, applySustain ctl s = .ok { s with notes := specNotes ctl s, totalTime := T } ∧
      s.totalTime ≤ T ∧
      (T = s.totalTime ∨ ∃ nt ∈ s.notes, nt.isDrum = false ∧
        pedalDown ctl s.ccs nt.instrument nt.end_ ∧ T = heldEnd ctl s nt) ∧
      (∀ nt ∈ s.notes, heldEnd ctl s nt ≤ T ∨ heldEnd ctl s nt = nt.end_ ∨
        ∃ m ∈ s.notes, m.isDrum = false ∧ m.start = heldEnd ctl s nt) := by
  obtain ⟨T, h1, h2, h3, h4⟩ := core_spec ctl s hw ho
  refine ⟨T, ?_, h2, h3, h4⟩
  have h1' : applyCore ctl (fun (i : Fin s.notes.length) => s.notes[i]) s.ccs s.totalTime =
      .ok (specNotes ctl s, T) := h1
  simp only [applySustain, hq, Bool.false_eq_true, if_false, h1']

/-- quantized input is rejected (before anything else is looked at) -/
theorem sustain_rejects_quantized (ctl : Int) (s : NoteSeq) (h : s.isQuantized = true) :
    applySustain ctl s = .error .quantizationStatusError := by
  simp [applySustain, h]

/-- whatever the input (no precondition): a result differs from the input at most in `notes` and
`total_time`; tempos, signatures, control changes, … are copied -/
theorem sustain_frame (ctl : Int) (s r : NoteSeq) (h : applySustain ctl s = .ok r) :
    r = { s with notes := r.notes, totalTime := r.totalTime } := by
  unfold applySustain at h
  split at h
  · cases h
  · split at h
    · cases h
    · cases h; rfl

/-- under the preconditions there is a result, it has as many notes as the input, and note `i`
of the result is note `i` of the input with its end moved to `heldEnd` -/
theorem sustain_pointwise (ctl : Int) (s : NoteSeq) (hq : s.isQuantized = false) (hw : WellFormed s)
    (ho : NoSamePitchOverlap s) :
    ∃ r, applySustain ctl s = .ok r ∧ r.notes.length = s.notes.length ∧
      ∀ (i : Nat) (hi : i < s.notes.length) (hi' : i < r.notes.length),
        r.notes[i] = setEnd s.notes[i] (heldEnd ctl s s.notes[i]) := by
  obtain ⟨T, h1, _⟩ := sustain_spec ctl s hq hw ho
  refine ⟨_, h1, by simp [specNotes], ?_⟩
  intro i hi hi'
  simp [specNotes]

/-- a held note is never shortened, and nothing but its end changes -/
theorem sustain_never_shortens (ctl : Int) (s : NoteSeq) (hq : s.isQuantized = false)
    (hw : WellFormed s) (ho : NoSamePitchOverlap s) :
    ∃ r, applySustain ctl s = .ok r ∧ r.notes.length = s.notes.length ∧
      ∀ (i : Nat) (hi : i < s.notes.length) (hi' : i < r.notes.length),
        s.notes[i].end_ ≤ r.notes[i].end_ ∧ setEnd r.notes[i] s.notes[i].end_ = s.notes[i] := by
  obtain ⟨r, h1, h2, h3⟩ := sustain_pointwise ctl s hq hw ho
  refine ⟨r, h1, h2, ?_⟩
  intro i hi hi'
  rw [h3 i hi hi']
  exact ⟨heldEnd_ge ctl s hw ho _ (List.getElem_mem hi), rfl⟩

/-- drum notes come out exactly as they went in -/
theorem sustain_drums_untouched (ctl : Int) (s : NoteSeq) (hq : s.isQuantized = false)
    (hw : WellFormed s) (ho : NoSamePitchOverlap s) :
    ∃ r, applySustain ctl s = .ok r ∧ r.notes.length = s.notes.length ∧
      ∀ (i : Nat) (hi : i < s.notes.length) (hi' : i < r.notes.length),
        s.notes[i].isDrum = true → r.notes[i] = s.notes[i] := by
  obtain ⟨r, h1, h2, h3⟩ := sustain_pointwise ctl s hq hw ho
  refine ⟨r, h1, h2, ?_⟩
  intro i hi hi' hd
  rw [h3 i hi hi', heldEnd_drum ctl s _ hd]; rfl

/-- notes of an instrument whose own pedal is never pressed come out exactly as they went in,
whatever the pedals of the other instruments do -/
theorem sustain_other_instruments_untouched (ctl : Int) (s : NoteSeq) (hq : s.isQuantized = false)
    (hw : WellFormed s) (ho : NoSamePitchOverlap s) :
    ∃ r, applySustain ctl s = .ok r ∧ r.notes.length = s.notes.length ∧
      ∀ (i : Nat) (hi : i < s.notes.length) (hi' : i < r.notes.length),
        (∀ c ∈ s.ccs, c.number = ctl → c.instrument = s.notes[i].instrument → c.value < 64) →
        r.notes[i] = s.notes[i] := by
  obtain ⟨r, h1, h2, h3⟩ := sustain_pointwise ctl s hq hw ho
  refine ⟨r, h1, h2, ?_⟩
  intro i hi hi' h
  have : ¬ pedalDown ctl s.ccs s.notes[i].instrument s.notes[i].end_ := by
    rintro ⟨c, hc, hn, hci, hv, _⟩
    have := h c hc hn hci
    omega
  rw [h3 i hi hi', heldEnd_noPedal ctl s _ this]; rfl

/-- without pedal-down events the result equals the input, `total_time` included -/
theorem sustain_no_pedal_identity (ctl : Int) (s : NoteSeq) (hq : s.isQuantized = false)
    (hw : WellFormed s) (ho : NoSamePitchOverlap s)
    (h : ∀ c ∈ s.ccs, c.number = ctl → c.value < 64) : applySustain ctl s = .ok s := by
  obtain ⟨T, h1, _, h3, _⟩ := sustain_spec ctl s hq hw ho
  have hnp : ∀ nt : Note, ¬ pedalDown ctl s.ccs nt.instrument nt.end_ := by
    rintro nt ⟨c, hc, hn, _, hv, _⟩
    have := h c hc hn
    omega
  have hT : T = s.totalTime := by
    rcases h3 with h3 | ⟨nt, _, _, hpd, _⟩
    · exact h3
    · exact absurd hpd (hnp nt)
  have hnotes : specNotes ctl s = s.notes := by
    unfold specNotes
    conv => rhs; rw [← List.map_id s.notes]
    apply List.map_congr_left
    intro nt _
    rw [heldEnd_noPedal ctl s nt (hnp nt)]; rfl
  rw [h1, hT, hnotes]

/-- if `total_time` covered every note end before, it covers every note end after -/
theorem sustain_total_covers (ctl : Int) (s : NoteSeq) (hq : s.isQuantized = false)
    (hw : WellFormed s) (ho : NoSamePitchOverlap s)
    (hcov : ∀ nt ∈ s.notes, nt.end_ ≤ s.totalTime) :
    ∃ r, applySustain ctl s = .ok r ∧ ∀ nt ∈ r.notes, nt.end_ ≤ r.totalTime := by
  obtain ⟨T, h1, h2, _, h4⟩ := sustain_spec ctl s hq hw ho
  refine ⟨_, h1, ?_⟩
  intro nt' hnt'
  simp only [specNotes, List.mem_map] at hnt'
  obtain ⟨nt, hnt, rfl⟩ := hnt'
  show heldEnd ctl s nt ≤ T
  rcases h4 nt hnt with h | h | ⟨m, hm, hmd, hms⟩
  · exact h
  · rw [h]; exact Rat.le_trans (hcov nt hnt) h2
  · rw [← hms]
    exact Rat.le_trans (hw m hm hmd) (Rat.le_trans (hcov m hm) h2)

/-! ## Non-vacuity: concrete inputs that satisfy the hypotheses, with non-trivial results -/

def exNote (pitch : Int) (a b : Rat) (inst : Int := 0) (drum : Bool := false) : Note :=
  { pitch := pitch, velocity := 80, start := a, end_ := b, qs := 0, qe := 0, instrument := inst,
    program := 0, isDrum := drum, numerator := 0, denominator := 0, voice := 0, part := 0,
    pitchName := 0 }
def exCC (t : Rat) (v : Int) (inst : Int := 0) (num : Int := 64) : CC :=
  { time := t, qstep := 0, number := num, value := v, instrument := inst, program := 0,
    isDrum := false }

/-- pedal of instrument 0 down from 1/2 to 5/2; pitch 60 is struck again at 2; a drum note; a note
on instrument 1 whose pedal is only ever released; another controller -/
def ex1 : NoteSeq :=
  { notes := [exNote 60 0 1, exNote 60 2 3, exNote 62 0 1, exNote 36 0 5 0 true, exNote 60 0 1 1],
    ccs := [exCC (1/2) 127, exCC (5/2) 0, exCC 0 127 0 66, exCC 1 63 1],
    totalTime := 5 }

/-- hypotheses of `sustain_spec`, `sustain_pointwise`, `sustain_never_shortens`,
`sustain_drums_untouched`, `sustain_other_instruments_untouched`, `sustain_total_covers` -/
example : ex1.isQuantized = false ∧ WellFormed ex1 ∧ NoSamePitchOverlap ex1 ∧
    (∀ nt ∈ ex1.notes, nt.end_ ≤ ex1.totalTime) := by decide
/-- … and the specification is not the identity there: held until the re-strike (2), not held
(pedal already up at 3), held until the release (5/2), drum untouched, other instrument untouched -/
example : ex1.notes.map (heldEnd 64 ex1) = [2, 3, 5/2, 5, 1] := by decide +kernel
example : pedalDown 64 ex1.ccs 0 1 ∧ ¬ pedalDown 64 ex1.ccs 0 3 ∧ ¬ pedalDown 64 ex1.ccs 1 1 := by
  decide +kernel
/-- hypothesis of `sustain_other_instruments_untouched` for the note of instrument 1 -/
example : ∀ c ∈ ex1.ccs, c.number = 64 → c.instrument = 1 → c.value < 64 := by decide

/-- ties: pedal pressed and released at the very time a note ends (release wins: not held), pedal
pressed exactly at a note end (held), a same-pitch note starting exactly at a held note's end
(held for zero time), a pedal that is never released (held to the last note/pedal event of the
piece, here the pedal event of instrument 7 at time 4) -/
def ex2 : NoteSeq :=
  { notes := [exNote 60 0 1, exNote 60 1 2, exNote 64 0 2, exNote 65 1 3],
    ccs := [exCC 1 64, exCC 1 63, exCC 2 127, exCC 2 100, exCC 4 127 7],
    totalTime := 3 }
example : ex2.isQuantized = false ∧ WellFormed ex2 ∧ NoSamePitchOverlap ex2 := by decide
example : ex2.notes.map (heldEnd 64 ex2) = [1, 4, 4, 4] ∧ lastEventTime 64 ex2 = 4 := by
  decide +kernel

/-- hypotheses of `sustain_no_pedal_identity`: only releases and other controllers -/
def ex3 : NoteSeq :=
  { notes := [exNote 60 0 1, exNote 60 1 2, exNote 36 0 1 0 true],
    ccs := [exCC (1/2) 63, exCC 1 0, exCC 0 127 0 66], totalTime := 2 }
example : ex3.isQuantized = false ∧ WellFormed ex3 ∧ NoSamePitchOverlap ex3 ∧
    (∀ c ∈ ex3.ccs, c.number = 64 → c.value < 64) ∧ ex3.notes ≠ [] := by decide

/-- hypothesis of `sustain_rejects_quantized` -/
example : ({ ex1 with spq := 4 } : NoteSeq).isQuantized = true := by decide

/-- the preconditions are not vacuous restrictions either: overlapping same-pitch notes and notes
that end before they start are excluded -/
example : ¬ NoSamePitchOverlap { notes := [exNote 60 0 2, exNote 60 1 3] } ∧
    ¬ NoSamePitchOverlap { notes := [exNote 60 0 2, exNote 60 0 3] } ∧
    ¬ WellFormed { notes := [exNote 60 2 1] } := by decide

/-! ## no tolerance: "while the pedal is down" is decided by the exact order of the times -/

/-- a note that ends before every press of its instrument's pedal — by however little — is not
held: the specification (and by `sustain_pointwise` the result) leaves its end alone.  There is no
time resolution below which "just before the press" counts as "at the press". -/
theorem heldEnd_press_after_end (ctl : Int) (s : NoteSeq) (nt : Note)
    (h : ∀ c ∈ s.ccs, c.number = ctl → c.instrument = nt.instrument → 64 ≤ c.value →
      nt.end_ < c.time) :
    heldEnd ctl s nt = nt.end_ := by
  unfold heldEnd
  split
  · rfl
  · rename_i hn
    exfalso; apply hn; right
    rintro ⟨c, hc, hnum, hinst, hval, hle, _⟩
    have hlt := h c hc hnum hinst hval
    exact absurd hle (Rat.not_le.mpr hlt)

theorem sustain_press_after_end_not_held (ctl : Int) (s : NoteSeq) (hq : s.isQuantized = false)
    (hw : WellFormed s) (ho : NoSamePitchOverlap s) :
    ∃ r, applySustain ctl s = .ok r ∧ r.notes.length = s.notes.length ∧
      ∀ (i : Nat) (hi : i < s.notes.length) (hi' : i < r.notes.length),
        (∀ c ∈ s.ccs, c.number = ctl → c.instrument = s.notes[i].instrument → 64 ≤ c.value →
          s.notes[i].end_ < c.time) →
        r.notes[i] = s.notes[i] := by
  obtain ⟨r, h1, h2, h3⟩ := sustain_pointwise ctl s hq hw ho
  refine ⟨r, h1, h2, ?_⟩
  intro i hi hi' h
  rw [h3 i hi hi', heldEnd_press_after_end ctl s _ h]
  rfl

/-- non-vacuity, with times 3·10⁻⁷ apart: the first note ends at 1, the pedal goes down at
1 + 3·10⁻⁷ (not held); the pedal of instrument 2 is released at 2 and pressed again 3·10⁻⁷ later
(down afterwards: the note ending at 3 is held to the release at 5) -/
def ex4 : NoteSeq :=
  { notes := [exNote 60 (1/2) 1, exNote 64 (3/2) 2, exNote 50 (1/4) (3/4) 2, exNote 55 (5/2) 3 2],
    ccs := [exCC (1 + 3/10000000) 127, exCC 3 0, exCC 0 90 2, exCC 2 10 2, exCC (2 + 3/10000000) 90 2,
            exCC 5 0 2],
    totalTime := 6 }
example : ex4.isQuantized = false ∧ WellFormed ex4 ∧ NoSamePitchOverlap ex4 ∧
    (∀ c ∈ ex4.ccs, c.number = 64 → c.instrument = (ex4.notes[0]).instrument → 64 ≤ c.value →
      (ex4.notes[0]).end_ < c.time) := by decide +kernel
example : ex4.notes.map (heldEnd 64 ex4) = [1, 3, 2, 5] := by decide +kernel

end NSV.C14
