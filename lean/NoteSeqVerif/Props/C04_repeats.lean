import NoteSeqVerif.Proofs.C04_repeatsG
/-! C04 — the repeat clause beyond `abc_repeats`: tunes WITH broken rhythm, the onsets of the expansion,
and what the code does at a degenerate backward repeat.  Exact arithmetic (`R = id`).

* `brokenOK items` (syntactic, `Proofs/C04_repeatsG.lean`): every broken-rhythm token stands between two
  notes of one bar — there is a note before it and no bar token of any kind between that note and the
  note after it.  It cannot be dropped: `abc_broken_across_section_fails`.
* `unfold` / `NonDegenerate`: the independent player of `Proofs/C04_repeats.lean` (`abc_repeats`).
* `unfoldQ` (`Proofs/C04_playerQ.lean`): the same player, except that a backward repeat sign directly
  after a section start plays the most recently closed section again — what the CODE does there. -/
namespace NSV.C04
open NSV

/-- THE REPEAT CLAUSE WITH BROKEN RHYTHM, and THE ONSETS OF THE EXPANSION, for every tune (any header,
any token list, no size bound) the parser accepts whose final notes have positive duration, whose
broken-rhythm pairs lie inside a bar and whose repeats are non-degenerate: `expand_section_groups`
succeeds; its notes are, in pitch and duration, exactly the played order the bar tokens notate — with
the durations the broken rhythm gives; and they follow each other without gap from time 0: the k-th
expanded onset is the sum of the k durations before it in expansion order (every section copy is
shifted by the accumulated duration of the copies before it). -/
theorem abc_repeats_broken (lines : List Line) (tune : Tune) (h : parseTune id lines = .ok tune)
    (hpos : ∀ n ∈ tune.notes, n.start < n.end_) (hbk : brokenOK (flatten lines) = true)
    (hnd : NonDegenerate (flatten lines)) :
    ∃ L, expand id tune = .ok L ∧ unfold (flatten lines) (tune.notes.map pd) = some (L.map pd) ∧
      L.map span = spans 0 (L.map dur) ∧
      ∀ k, k < L.length → (L.map span)[k]? = some (((L.map dur).take k).sum, ((L.map dur).take (k + 1)).sum) := by
  obtain ⟨L, hL, hu, hsp⟩ := repeats_general lines tune h hpos hbk
  refine ⟨L, hL, unfoldQ_eq_unfold hnd hu, hsp, fun k hk => ?_⟩
  rw [hsp, spans_getElem 0 _ k (by simpa using hk)]
  simp

/-- THE SAME WITHOUT `NonDegenerate`: for EVERY accepted tune with positive final durations and
broken-rhythm pairs inside a bar, the expansion is what the code's player `unfoldQ` plays: the notated
order, except that a backward repeat ×n standing directly after a section start (nothing played since)
plays the most recently CLOSED section n more times.  Onsets as above. -/
theorem abc_repeats_general (lines : List Line) (tune : Tune) (h : parseTune id lines = .ok tune)
    (hpos : ∀ n ∈ tune.notes, n.start < n.end_) (hbk : brokenOK (flatten lines) = true) :
    ∃ L, expand id tune = .ok L ∧ unfoldQ (flatten lines) (tune.notes.map pd) = some (L.map pd) ∧
      L.map span = spans 0 (L.map dur) :=
  repeats_general lines tune h hpos hbk

/-- where the two players differ, and only there: for a non-degenerate tune `unfoldQ` is `unfold` -/
theorem abc_quirk_only_degenerate (items : List Item) (vals X : List (Int × Rat)) (hnd : NonDegenerate items)
    (h : unfoldQ items vals = some X) : unfold items vals = some X :=
  unfoldQ_eq_unfold hnd h

/-- THE DEGENERATE BACKWARD REPEAT, exactly (any state, any rounding — no float operation is involved):
a backward repeat ×x (`:|`, `::`, `:|:` …) that arrives while the most recent section annotation is AT
the current time — nothing has been played since that section start — and that passes the count check
adds no section annotation and appends a section group that plays the section BEFORE it
(`section_annotations[-2]`) `x` more times; the forward count becomes the expected count. -/
theorem abc_degenerate_repeat (st : St) (secs : List (Rat × Int)) (a : Rat × Int) (sid : Int) (x : Nat)
    (f : Option Nat) (hs : st.sections = secs ++ [a, (st.time, sid)]) (ht : st.time ≠ 0) (hx : x ≠ 0)
    (he : truthy st.expected = true → some x = st.expected) :
    doRepeat st (some x) f = .ok { st with groups := st.groups ++ [(a.2, x)], expected := f } := by
  unfold doRepeat
  rw [if_neg (by intro ⟨h1, h2⟩; exact h2 (he h1))]
  have hadd : addSection st st.time = (st, none) := by
    unfold addSection
    have hne : st.sections ≠ [] := by rw [hs]; simp
    have hl : st.sections.getLast? = some (st.time, sid) := by rw [hs]; simp
    simp only [hne, false_and, ↓reduceIte, hl]
  simp only [hadd, hx, ne_eq, not_false_eq_true, ↓reduceIte, closeRepeat, ht]
  rw [addGroup_two st secs a (st.time, sid) x hs]

/-- … and with no section before it (the tune is still at time 0) it is a RepeatParseError -/
theorem abc_degenerate_repeat_at_zero (st : St) (x : Nat) (f : Option Nat) (ht : st.time = 0) (hx : x ≠ 0)
    (he : truthy st.expected = true → some x = st.expected) : doRepeat st (some x) f = .error eRepeat :=
  doRepeat_time_zero st x f he hx ht

/-! ## non-vacuity -/

/-- `C>D |: E<F :| G` — broken rhythm in both sections of a repeated tune -/
abbrev brokenRepeatExample : List Line :=
  [.field (.refnum 1), .music [.note .none 'C' [] ⟨none, 0, none⟩, .broken true 1, .note .none 'D' [] ⟨none, 0, none⟩,
    .bar 0 1 1, .note .none 'E' [] ⟨none, 0, none⟩, .broken false 1, .note .none 'F' [] ⟨none, 0, none⟩, .bar 1 1 0,
    .note .none 'G' [] ⟨none, 0, none⟩]]

/-- the hypotheses of `abc_repeats_broken` hold for it; the expansion is C D E F E F G with the dotted
durations 3/8 1/8 | 1/8 3/8 | 1/8 3/8 | 1/4 and onsets 0 3/8 1/2 5/8 1 9/8 3/2 (the real parser and
`expand_section_groups` give exactly these) -/
example : ∃ tune L, parseTune id brokenRepeatExample = .ok tune ∧ expand id tune = .ok L ∧
    L.map pd = [(60, 3/8), (62, 1/8), (64, 1/8), (65, 3/8), (64, 1/8), (65, 3/8), (67, 1/4)] ∧
    L.map (·.start) = [0, 3/8, 1/2, 5/8, 1, 9/8, 3/2] := by
  have hb : (match parseTune id brokenRepeatExample with
      | .ok t => t.notes.all (fun n => decide (n.start < n.end_)) &&
          decide (unfold (flatten brokenRepeatExample) (t.notes.map pd) =
            some [(60, 3/8), (62, 1/8), (64, 1/8), (65, 3/8), (64, 1/8), (65, 3/8), (67, 1/4)])
      | .error _ => false) = true := by decide +kernel
  cases hp : parseTune id brokenRepeatExample with
  | error e => rw [hp] at hb; simp at hb
  | ok tune =>
    rw [hp] at hb
    simp only [Bool.and_eq_true, decide_eq_true_eq, List.all_eq_true] at hb
    obtain ⟨L, hL, hu, hsp, _⟩ := abc_repeats_broken brokenRepeatExample tune hp hb.1 (by decide +kernel)
      (nonDegenerate_of_check (by decide +kernel))
    have hpdL : L.map pd = [(60, 3/8), (62, 1/8), (64, 1/8), (65, 3/8), (64, 1/8), (65, 3/8), (67, 1/4)] := by
      have h2 := hb.2
      rw [hu] at h2
      simpa using h2
    refine ⟨tune, L, rfl, hL, hpdL, ?_⟩
    have hd : L.map dur = [3/8, 1/8, 1/8, 3/8, 1/8, 3/8, 1/4] := by
      have := congrArg (List.map Prod.snd) hpdL
      simpa [List.map_map, Function.comp_def, pd_eq] using this
    have hst : L.map (·.start) = (L.map span).map Prod.fst := by
      simp [List.map_map, Function.comp_def, span]
    rw [hst, hsp, hd]
    norm_num [spans]

/-- `A B || :| c` — the degenerate backward repeat: the code plays the closed section A B twice more
(A B A B A B c; the real parser and `expand_section_groups` give exactly this), the notated order
(`unfold`) is A B c -/
abbrev quirkExample : List Line :=
  [.field (.refnum 1), .music [.note .none 'A' [] ⟨none, 0, none⟩, .note .none 'B' [] ⟨none, 0, none⟩,
    .bar 0 2 0, .bar 1 1 0, .note .none 'c' [] ⟨none, 0, none⟩]]

example : ∃ tune L, parseTune id quirkExample = .ok tune ∧ expand id tune = .ok L ∧
    (L.map pd).map (·.1) = [69, 71, 69, 71, 69, 71, 72] ∧
    (unfold (flatten quirkExample) (tune.notes.map pd)).map (·.map (·.1)) = some [69, 71, 72] := by
  have hb : (match parseTune id quirkExample with
      | .ok t => t.notes.all (fun n => decide (n.start < n.end_)) &&
          decide ((unfoldQ (flatten quirkExample) (t.notes.map pd)).map (·.map (·.1)) =
            some [69, 71, 69, 71, 69, 71, 72]) &&
          decide ((unfold (flatten quirkExample) (t.notes.map pd)).map (·.map (·.1)) = some [69, 71, 72])
      | .error _ => false) = true := by decide +kernel
  cases hp : parseTune id quirkExample with
  | error e => rw [hp] at hb; simp at hb
  | ok tune =>
    rw [hp] at hb
    simp only [Bool.and_eq_true, decide_eq_true_eq, List.all_eq_true] at hb
    obtain ⟨L, hL, hu, _⟩ := abc_repeats_general quirkExample tune hp hb.1.1 (by decide +kernel)
    refine ⟨tune, L, rfl, hL, ?_, hb.2⟩
    have h2 := hb.1.2
    rw [hu] at h2
    simpa using h2

/-- the state-level statement on the same tune: after `A B ||` the state has the annotations
(0, 0), (1/2, 1) at time 1/2, and `:|` appends the group (section 0) × 2 -/
example : ∃ st, runItems id init (flatten [.field (.refnum 1), .music [.note .none 'A' [] ⟨none, 0, none⟩,
      .note .none 'B' [] ⟨none, 0, none⟩, .bar 0 2 0]]) = .ok st ∧
    st.sections = [] ++ [(0, 0), (st.time, 1)] ∧ st.time ≠ 0 ∧ truthy st.expected = false := by
  have hb : (match runItems id init (flatten [.field (.refnum 1), .music [.note .none 'A' [] ⟨none, 0, none⟩,
      .note .none 'B' [] ⟨none, 0, none⟩, .bar 0 2 0]]) with
    | .ok st => decide (st.sections = [] ++ [(0, 0), (st.time, 1)]) && decide (st.time ≠ 0) && !truthy st.expected
    | .error _ => false) = true := by decide +kernel
  cases hp : runItems id init (flatten [.field (.refnum 1), .music [.note .none 'A' [] ⟨none, 0, none⟩,
      .note .none 'B' [] ⟨none, 0, none⟩, .bar 0 2 0]]) with
  | error e => rw [hp] at hb; simp at hb
  | ok st =>
    rw [hp] at hb
    simp only [Bool.and_eq_true, decide_eq_true_eq, Bool.not_eq_eq_eq_not, Bool.not_true] at hb
    exact ⟨st, rfl, hb.1.1, hb.1.2, hb.2⟩

/-! ## a double bar at a time where a section boundary already exists -/

/-- A BAR TOKEN WITHOUT COLONS (plain bar, or a double bar `||`, `|]`, `[|` … of any length) that arrives while the
most recent section annotation is AT the current time — directly after `:|`, after another double bar,
nothing played since — changes nothing but the bar-scoped accidentals: no section annotation, NO
SECTION GROUP (the section before it is not played again), same expected count.  Any state, any
rounding (no float operation is involved). -/
theorem abc_double_bar_at_boundary (st : St) (secs : List (Rat × Int)) (sid : Int) (len : Nat)
    (hs : st.sections = secs ++ [(st.time, sid)]) :
    stepBar st 0 len 0 = .ok { st with barAcc := [] } := by
  have hne : st.sections ≠ [] := by rw [hs]; simp
  have hl : st.sections.getLast? = some (st.time, sid) := by rw [hs]; simp
  unfold stepBar
  simp only [and_self, ↓reduceIte]
  split
  · unfold addSection
    simp [hne, hl]
  · rfl

/-- … and where NO boundary exists yet (the most recent section annotation `a` is at another time), outside a
repeat and after time 0, a double bar starts a section (next id) and appends the group that plays the
section before it once. -/
theorem abc_double_bar_new_section (st : St) (secs : List (Rat × Int)) (a : Rat × Int) (len : Nat)
    (hs : st.sections = secs ++ [a]) (ha : a.1 ≠ st.time) (hlen : 2 ≤ len) (he : truthy st.expected = false)
    (ht : 0 < st.time) :
    stepBar st 0 len 0 = .ok { st with barAcc := [], sections := st.sections ++ [(st.time, a.2 + 1)],
                                       groups := st.groups ++ [(a.2, 1)] } := by
  have hne : st.sections ≠ [] := by rw [hs]; simp
  have hl : st.sections.getLast? = some a := by rw [hs]; simp
  unfold stepBar
  simp only [and_self, ↓reduceIte, hlen, he, ht, Bool.false_eq_true, not_false_eq_true]
  unfold addSection
  simp only [hne, false_and, ↓reduceIte, hl, ha, Option.isSome_some]
  rw [addGroup_two { st with barAcc := [], sections := st.sections ++ [(st.time, a.2 + 1)] } secs a (st.time, a.2 + 1) 1
    (by simp [hs])]

/-- `|: C D :| || E F |]` (seeded change C04-10) — the double bar after `:|` adds nothing: sections at 0 and 1/2,
groups (0 × 2), (1 × 1); the expansion is C D C D E F -/
abbrev doubleBarAtBoundaryExample : List Line :=
  [.field (.refnum 1), .music [.bar 0 1 1, .note .none 'C' [] ⟨none, 0, none⟩, .note .none 'D' [] ⟨none, 0, none⟩,
    .bar 1 1 0, .bar 0 2 0, .note .none 'E' [] ⟨none, 0, none⟩, .note .none 'F' [] ⟨none, 0, none⟩, .bar 0 2 0]]

example : (parseTune id doubleBarAtBoundaryExample).map (fun t => (t.sections, t.groups)) =
    .ok ([(0, 0), (1/2, 1)], [(0, 2), (1, 1)]) := by decide +kernel

example : ∃ tune L, parseTune id doubleBarAtBoundaryExample = .ok tune ∧ expand id tune = .ok L ∧
    L.map (·.pitch) = [60, 62, 60, 62, 64, 65] := by
  have hb : (match parseTune id doubleBarAtBoundaryExample with
      | .ok t => decide (t.notes.Pairwise (fun a b => a.start ≤ b.start)) &&
          (match expandSorted id t with
           | .ok L => decide (L.map (·.pitch) = [60, 62, 60, 62, 64, 65])
           | .error _ => false)
      | .error _ => false) = true := by decide +kernel
  cases hp : parseTune id doubleBarAtBoundaryExample with
  | error e => rw [hp] at hb; simp at hb
  | ok tune =>
    rw [hp] at hb
    simp only [Bool.and_eq_true, decide_eq_true_eq] at hb
    obtain ⟨h2, h3⟩ := hb
    rw [← expand_of_sorted id tune h2] at h3
    cases hx : expand id tune with
    | error e => rw [hx] at h3; simp at h3
    | ok L =>
      rw [hx] at h3
      simp only [decide_eq_true_eq] at h3
      exact ⟨tune, L, rfl, hx, h3⟩

/-- the hypothesis of `abc_double_bar_at_boundary` is met by the state after `|: C D :|` -/
example : ∃ st, runItems id init (flatten [.field (.refnum 1), .music [.bar 0 1 1, .note .none 'C' [] ⟨none, 0, none⟩,
      .note .none 'D' [] ⟨none, 0, none⟩, .bar 1 1 0]]) = .ok st ∧
    st.sections = [(0, 0)] ++ [(st.time, 1)] ∧ st.groups = [(0, 2)] := by
  have hb : (match runItems id init (flatten [.field (.refnum 1), .music [.bar 0 1 1, .note .none 'C' [] ⟨none, 0, none⟩,
      .note .none 'D' [] ⟨none, 0, none⟩, .bar 1 1 0]]) with
    | .ok st => decide (st.sections = [(0, 0)] ++ [(st.time, 1)]) && decide (st.groups = [(0, 2)])
    | .error _ => false) = true := by decide +kernel
  cases hp : runItems id init (flatten [.field (.refnum 1), .music [.bar 0 1 1, .note .none 'C' [] ⟨none, 0, none⟩,
      .note .none 'D' [] ⟨none, 0, none⟩, .bar 1 1 0]]) with
  | error e => rw [hp] at hb; simp at hb
  | ok st =>
    rw [hp] at hb
    simp only [Bool.and_eq_true, decide_eq_true_eq] at hb
    exact ⟨st, rfl, hb.1, hb.2⟩

/-! ## the obstacle: a broken-rhythm pair across a section boundary -/

/-- `C < |: D :|` — the pair straddles the repeat sign -/
abbrev brokenAcrossExample : List Line :=
  [.field (.refnum 1), .music [.note .none 'C' [] ⟨none, 0, none⟩, .broken false 1, .bar 0 1 1,
    .note .none 'D' [] ⟨none, 0, none⟩, .bar 1 1 0]]

/-- `brokenOK` cannot be dropped from `abc_repeats_broken`: `C<|:D:|` is accepted, its final notes have
positive duration and its repeat is non-degenerate, but the broken rhythm moves the start of D to
before its section start, so `expand_section_groups` finds D in the FIRST section (clipped at the
section end) and the repeated section empty: the expansion is C D (durations 1/8, 1/8) instead of the
notated C D D (1/8, 3/8, 3/8).  The real parser and `expand_section_groups` do the same. -/
theorem abc_broken_across_section_fails :
    ∃ tune L, parseTune id brokenAcrossExample = .ok tune ∧ (∀ n ∈ tune.notes, n.start < n.end_) ∧
      NonDegenerate (flatten brokenAcrossExample) ∧ brokenOK (flatten brokenAcrossExample) = false ∧
      expand id tune = .ok L ∧ L.map pd = [(60, 1/8), (62, 1/8)] ∧
      unfold (flatten brokenAcrossExample) (tune.notes.map pd) = some [(60, 1/8), (62, 3/8), (62, 3/8)] := by
  have hb : (match parseTune id brokenAcrossExample with
      | .ok t => t.notes.all (fun n => decide (n.start < n.end_)) &&
          decide (t.notes.Pairwise (fun a b => a.start ≤ b.start)) &&
          (match expandSorted id t with
           | .ok L => decide (L.map pd = [(60, 1/8), (62, 1/8)])
           | .error _ => false) &&
          decide (unfold (flatten brokenAcrossExample) (t.notes.map pd) = some [(60, 1/8), (62, 3/8), (62, 3/8)])
      | .error _ => false) = true := by decide +kernel
  cases hp : parseTune id brokenAcrossExample with
  | error e => rw [hp] at hb; simp at hb
  | ok tune =>
    rw [hp] at hb
    simp only [Bool.and_eq_true, decide_eq_true_eq, List.all_eq_true] at hb
    obtain ⟨⟨⟨h1, h2⟩, h3⟩, h4⟩ := hb
    rw [← expand_of_sorted id tune h2] at h3
    cases hx : expand id tune with
    | error e => rw [hx] at h3; simp at h3
    | ok L =>
      rw [hx] at h3
      simp only [decide_eq_true_eq] at h3
      exact ⟨tune, L, rfl, h1, nonDegenerate_of_check (by decide +kernel), by decide +kernel, hx, h3, h4⟩

end NSV.C04
