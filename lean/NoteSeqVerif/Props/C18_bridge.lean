import NoteSeqVerif.Model.C18
import NoteSeqVerif.Generated.C18T2
/-! # C18 — translator tie T2 for the frame arithmetic of `sequence_to_pianoroll`

`Generated/C18T2.lean` is the symbolic execution of the current Python source of the two local functions
`time_to_frames` (product, `round()`, the relative snap test) and `frames_from_times` (truncation, the two occupancy
tests, ceiling, the one-frame minimum), with the rounding operator after every float operation.  They are the model's
`timeToFrames` / `framesFromTimes` with the snap tolerance regenerated from the source (`Gen.SNAP_EPS`): the functions
every encoder theorem of C18 is about. -/
namespace NSV.C18

theorem t2_time_to_frames (R : Rat → Rat) (fps t : Rat) :
    Gen2.time_to_frames R fps t = timeToFrames R Gen.SNAP_EPS fps t := rfl

theorem t2_frames_from_times (R : Rat → Rat) (fps occ s e : Rat) :
    Gen2.frames_from_times R fps occ s e = framesFromTimes R Gen.SNAP_EPS fps occ s e := rfl

/-- non-vacuity: 0.07 s at 100 fps is `7.000000000000001` frames in doubles and is snapped to frame 7 -/
example : Gen2.time_to_frames rne53 100 (rne53 (7/100)) = 7 := by decide +kernel

end NSV.C18
