import NoteSeqVerif.Proofs.C12BTot
/-! C12 — `apply_sustain_control_changes` does not depend on the storage order of notes and control changes
(corollaries of C14's `sustain_spec`: the result is the input with every note end replaced by `heldEnd`, and every
ingredient of `heldEnd` is a function of the bags of notes and control changes).

Hypotheses = C14's preconditions, which are the property's quantifier ("no two same-pitch notes overlap or coincide";
pitched notes do not end before they start); both are preserved by `NSPerm`.  No tie condition on pedal events is
needed: the event sort key `(time, type)` orders a pedal-up after a pedal-down at the same time whatever the storage
order. -/
namespace NSV.C12
open NSV NSV.C14

/-- quantized input: rejected in either order (no precondition) -/
theorem sustain_perm_quantized (ctl : Int) {s s' : NoteSeq} (h : NSPerm s s') (hq : s.isQuantized = true) :
    ResPerm (applySustain ctl s) (applySustain ctl s') := by
  rw [sustain_rejects_quantized ctl s hq,
      sustain_rejects_quantized ctl s' (by rw [← isQuantized_perm h]; exact hq)]
  rfl

/-- both storage orders succeed, and the results agree up to storage order in everything except possibly
`total_time`: notes (with their new ends) are the same bag, every other container is the permuted input -/
theorem sustain_perm_notes (ctl : Int) {s s' : NoteSeq} (h : NSPerm s s') (hq : s.isQuantized = false)
    (hw : WellFormed s) (ho : NoSamePitchOverlap s) :
    ∃ r r', applySustain ctl s = .ok r ∧ applySustain ctl s' = .ok r' ∧
      NSPerm { r with totalTime := 0 } { r' with totalTime := 0 } := by
  obtain ⟨T, h1, _⟩ := sustain_spec ctl s hq hw ho
  obtain ⟨T', h1', _⟩ := sustain_spec ctl s' (by rw [← isQuantized_perm h]; exact hq)
    (wellFormed_perm h hw) (noSamePitchOverlap_perm h ho)
  refine ⟨_, _, h1, h1', ?_⟩
  constructor <;> simp only []
  · exact specNotes_perm ctl h
  · exact h.tempos
  · exact h.timeSigs
  · exact h.keySigs
  · exact h.texts
  · exact h.ccs
  · exact h.bends
  · exact h.sectionAnns
  · exact h.sgroups
  · exact h.totalQSteps
  · exact h.spq
  · exact h.sps
  · exact h.hasSub
  · exact h.subStart
  · exact h.subEnd
  · exact h.tpq
  · exact h.metaTag

/-- when `total_time` covers every note end (the usual NoteSequence invariant) the new `total_time` is
`max(total_time, largest held end)` and the whole result is independent of storage order -/
theorem sustain_perm_of_covers (ctl : Int) {s s' : NoteSeq} (h : NSPerm s s') (hw : WellFormed s)
    (ho : NoSamePitchOverlap s) (hc : TotalCovers s) :
    ResPerm (applySustain ctl s) (applySustain ctl s') := by
  cases hq : s.isQuantized with
  | true => exact sustain_perm_quantized ctl h hq
  | false =>
    have hw' := wellFormed_perm h hw
    have hc' := totalCovers_perm h hc
    obtain ⟨T, h1, h2, h3, h4⟩ := sustain_spec ctl s hq hw ho
    obtain ⟨T', h1', h2', h3', h4'⟩ := sustain_spec ctl s' (by rw [← isQuantized_perm h]; exact hq)
      hw' (noSamePitchOverlap_perm h ho)
    -- every held end is covered by the new total_time
    have cov : ∀ (u : NoteSeq) (U : Rat), WellFormed u → TotalCovers u → u.totalTime ≤ U →
        (∀ nt ∈ u.notes, heldEnd ctl u nt ≤ U ∨ heldEnd ctl u nt = nt.end_ ∨
          ∃ m ∈ u.notes, m.isDrum = false ∧ m.start = heldEnd ctl u nt) →
        ∀ nt ∈ u.notes, heldEnd ctl u nt ≤ U := by
      intro u U huw huc hU h4u nt hnt
      rcases h4u nt hnt with g | g | ⟨m, hm, hmd, hms⟩
      · exact g
      · rw [g]; exact Rat.le_trans (huc nt hnt) hU
      · rw [← hms]; exact Rat.le_trans (huw m hm hmd) (Rat.le_trans (huc m hm) hU)
    have c1 := cov s T hw hc h2 h4
    have c2 := cov s' T' hw' hc' h2' h4'
    have hT : T = T' := by
      apply Rat.le_antisymm
      · rcases h3 with g | ⟨nt, hnt, _, _, g⟩
        · rw [g, h.totalTime]; exact h2'
        · rw [g, heldEnd_perm ctl h]; exact c2 nt (h.notes.mem_iff.mp hnt)
      · rcases h3' with g | ⟨nt, hnt, _, _, g⟩
        · rw [g, ← h.totalTime]; exact h2
        · rw [g, ← heldEnd_perm ctl h]; exact c1 nt (h.notes.mem_iff.mpr hnt)
    rw [h1, h1']
    show NSPerm _ _
    constructor <;> simp only []
    · exact specNotes_perm ctl h
    · exact h.tempos
    · exact h.timeSigs
    · exact h.keySigs
    · exact h.texts
    · exact h.ccs
    · exact h.bends
    · exact h.sectionAnns
    · exact h.sgroups
    · exact hT
    · exact h.totalQSteps
    · exact h.spq
    · exact h.sps
    · exact h.hasSub
    · exact h.subStart
    · exact h.subEnd
    · exact h.tpq
    · exact h.metaTag

/-- **the exact result** (C14's `sustain_spec` with `total_time` pinned down): every note end becomes `heldEnd`, and
`total_time` becomes `totalSpec` — the maximum of the old value, of the held ends of the notes ended by a pedal
release (`pedClosed`), and, if some note is still held when the events run out (`stillHeld`), of the time of the last
note/pedal event.  (A note ended by a re-strike does not raise `total_time`.) -/
theorem sustain_total_exact (ctl : Int) (s : NoteSeq) (hq : s.isQuantized = false) (hw : WellFormed s)
    (ho : NoSamePitchOverlap s) :
    applySustain ctl s = .ok { s with notes := specNotes ctl s, totalTime := totalSpec ctl s } :=
  applySustain_exact ctl s hq hw ho

/-- **`apply_sustain_control_changes` does not depend on storage order**: for sequences differing only in the storage
order of their repeated fields, whose pitched notes are well-formed and never overlap or coincide on one pitch of one
instrument, both calls raise the same exception or return NoteSequences equal up to storage order — notes with their
new ends as a bag, the same `total_time`, every other container the permuted input -/
theorem sustain_perm (ctl : Int) {s s' : NoteSeq} (h : NSPerm s s') (hw : WellFormed s)
    (ho : NoSamePitchOverlap s) :
    ResPerm (applySustain ctl s) (applySustain ctl s') := by
  cases hq : s.isQuantized with
  | true => exact sustain_perm_quantized ctl h hq
  | false =>
    rw [sustain_total_exact ctl s hq hw ho,
        sustain_total_exact ctl s' (by rw [← isQuantized_perm h]; exact hq) (wellFormed_perm h hw)
          (noSamePitchOverlap_perm h ho)]
    show NSPerm _ _
    constructor <;> simp only []
    · exact specNotes_perm ctl h
    · exact h.tempos
    · exact h.timeSigs
    · exact h.keySigs
    · exact h.texts
    · exact h.ccs
    · exact h.bends
    · exact h.sectionAnns
    · exact h.sgroups
    · exact totalSpec_perm ctl h
    · exact h.totalQSteps
    · exact h.spq
    · exact h.sps
    · exact h.hasSub
    · exact h.subStart
    · exact h.subEnd
    · exact h.tpq
    · exact h.metaTag

/-! ## Non-vacuity -/

/-- every repeated field stored in reverse order -/
def revAllS (s : NoteSeq) : NoteSeq :=
  { s with notes := s.notes.reverse, tempos := s.tempos.reverse, timeSigs := s.timeSigs.reverse,
           keySigs := s.keySigs.reverse, texts := s.texts.reverse, ccs := s.ccs.reverse,
           bends := s.bends.reverse, sectionAnns := s.sectionAnns.reverse }

theorem nsperm_revAllS (s : NoteSeq) : NSPerm s (revAllS s) := by
  constructor <;> first | rfl | exact (List.reverse_perm _).symm

-- C14's examples: pedal held / re-strike / release, ties of pedal and note events at one time
example : revAllS ex1 ≠ ex1 ∧ revAllS ex2 ≠ ex2 := by decide
example : ex1.isQuantized = false ∧ WellFormed ex1 ∧ NoSamePitchOverlap ex1 ∧ TotalCovers ex1 := by decide
example : ex2.isQuantized = false ∧ WellFormed ex2 ∧ NoSamePitchOverlap ex2 ∧ TotalCovers ex2 := by decide
example := sustain_perm 64 (nsperm_revAllS ex1) (by decide) (by decide)
example := sustain_perm 64 (nsperm_revAllS ex2) (by decide) (by decide)
example := sustain_total_exact 64 ex2 (by decide) (by decide) (by decide)
example := sustain_perm_of_covers 64 (nsperm_revAllS ex1) (by decide) (by decide) (by decide)
example := sustain_perm_notes 64 (nsperm_revAllS ex2) (by decide) (by decide) (by decide)
example := sustain_perm_quantized 64 (nsperm_revAllS { ex1 with spq := 4 }) (by decide)
/-- the common result is not the identity (note ends really move, `total_time` is raised from 3 to 4) -/
example : (revAllS ex2).notes.map (heldEnd 64 (revAllS ex2)) = [4, 4, 4, 1] ∧ totalSpec 64 ex2 = 4 ∧
    totalSpec 64 (revAllS ex2) = 4 ∧ ex2.totalTime = 3 := by decide +kernel

/-- `total_time` too small for the notes (not `TotalCovers`): the first note is held until the re-strike at 2 — which
does not raise `total_time` — the second is not held (pedal released at 5/2): `total_time` stays 1/2 in either order -/
def exT : NoteSeq :=
  { notes := [exNote 60 0 1, exNote 60 2 3], ccs := [exCC (1/2) 127, exCC (5/2) 0], totalTime := 1/2 }
example : exT.isQuantized = false ∧ WellFormed exT ∧ NoSamePitchOverlap exT ∧ ¬ TotalCovers exT := by decide +kernel
example : exT.notes.map (heldEnd 64 exT) = [2, 3] ∧ totalSpec 64 exT = 1/2 ∧ totalSpec 64 (revAllS exT) = 1/2 := by
  decide +kernel
example := sustain_perm 64 (nsperm_revAllS exT) (by decide) (by decide)
/-- … and with the release at 3/2 the first note is ended by the pedal: `total_time` is raised to 3/2 -/
example : totalSpec 64 { exT with ccs := [exCC (1/2) 127, exCC (3/2) 0] } = 3/2 := by decide +kernel

end NSV.C12
