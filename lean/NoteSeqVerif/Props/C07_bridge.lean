import NoteSeqVerif.Model.C07
import NoteSeqVerif.Generated.C07T2
/-! # C07 — translator tie T2 for `steps_per_bar_in_quantized_sequence`

`Generated/C07T2.lean` is the symbolic execution of the current Python source (three float operations on the first
stored time signature and `quantization_info.steps_per_quarter`; the `assert_is_relative_quantized_sequence` guard is
the first branch of the model).  On every input the model does not reject, the model's value IS the regenerated
expression. -/
namespace NSV.C07

theorem t2_steps_per_bar (R : Rat → Rat) (s : NoteSeq) (ts : TimeSig) (rest : List TimeSig)
    (hq : 0 < s.spq) (hts : s.timeSigs = ts :: rest) (hden : ts.den ≠ 0) :
    stepsPerBarFloatR R s = .ok (Gen2.steps_per_bar_in_quantized_sequence R ts.den ts.num s.spq) := by
  simp [stepsPerBarFloatR, hq, hts, hden, Gen2.steps_per_bar_in_quantized_sequence]

/-- and therefore `stepsPerBarR` (the integrality test + `int()`) is decided on the regenerated expression -/
theorem t2_steps_per_bar_int (R : Rat → Rat) (s : NoteSeq) (ts : TimeSig) (rest : List TimeSig)
    (hq : 0 < s.spq) (hts : s.timeSigs = ts :: rest) (hden : ts.den ≠ 0) :
    stepsPerBarR R s =
      (let f := Gen2.steps_per_bar_in_quantized_sequence R ts.den ts.num s.spq
       if f.den ≠ 1 then .error .nonIntegerStepsPerBarError else .ok f.num) := by
  simp [stepsPerBarR, t2_steps_per_bar R s ts rest hq hts hden]

/-- non-vacuity: 3/4 at 4 steps per quarter gives 12 steps per bar through the regenerated definition -/
example : Gen2.steps_per_bar_in_quantized_sequence rne53 4 3 4 = 12 := by decide +kernel

end NSV.C07
