import NoteSeqVerif.Proofs.C20_pcm
/-! C20 — chunk 00/16 of the exhaustive int16 round-trip check: the 4096 values
-32768 … -28673, decided by kernel evaluation of the model (`rne24` on exact rationals). -/
namespace NSV.C20
set_option maxRecDepth 100000 in
theorem pcm_chunk00 : pcmOkRange (-32768) 4096 = true := by decide +kernel
end NSV.C20
