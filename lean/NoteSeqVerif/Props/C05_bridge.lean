import NoteSeqVerif.Model.C05
import NoteSeqVerif.Generated.C05T2
/-! # C05 — translator tie T2 for the cursor arithmetic of `<backup>` / `<forward>`

`Generated/C05T2.lean` is the symbolic execution of the current Python source of `Measure._parse_backup` and
`Measure._parse_forward` up to the cursor update: the number of seconds the time cursor moves, as an expression in the
declared duration, `divisions` and `seconds_per_quarter` (four float operations, `STANDARD_PPQ` by value).  Whenever the
model does not reject (`divisions ≠ 0`), its `secondsOf` IS the regenerated expression. -/
namespace NSV.C05

theorem t2_backup_seconds (R : Rat → Rat) (st : PState) (d : Int) (h : st.divisions ≠ 0) :
    secondsOf R st d = .ok (Gen2.backup_seconds R d st.divisions st.spq) := by
  simp [secondsOf, h, Gen2.backup_seconds, Gen.STANDARD_PPQ]

theorem t2_forward_seconds (R : Rat → Rat) (st : PState) (d : Int) (h : st.divisions ≠ 0) :
    secondsOf R st d = .ok (Gen2.forward_seconds R d st.divisions st.spq) := by
  simp [secondsOf, h, Gen2.forward_seconds, Gen.STANDARD_PPQ]

/-- non-vacuity: a duration of 2 divisions at 1 division per quarter and 0.5 s per quarter is one second -/
example : Gen2.backup_seconds rne53 2 1 (1/2) = 1 := by decide +kernel

end NSV.C05
