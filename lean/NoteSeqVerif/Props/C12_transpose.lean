import NoteSeqVerif.Proofs.C12AOps
/-! C12 — transposition does not depend on the storage order of any repeated field
(corollaries of C10's closed form `noteLoop_eq` and of the text-loop lemmas).

The model's result type is `Except Err (NoteSeq × Nat)` (sequence, number of deleted notes):
`ResPermT` = same error, or the same deleted-note count and sequences equal up to storage order.
Side condition `OneSplitError split s.texts`: all chord symbols of the sequence that the splitter
rejects are rejected with the same error — the text loop raises at the *first* uninterpretable
symbol in storage order, so with two different errors the raised one depends on the order
(`transpose_error_depends_on_order`); the implementation only ever raises `ChordSymbolError` there.
No condition on notes or on ties of any kind. -/
namespace NSV.C12
open NSV NSV.C10 NSV.C10.Gen

/-- results of `transpose_note_sequence` agree up to storage order -/
def ResPermT (r r' : Except Err (NoteSeq × Nat)) : Prop :=
  match r, r' with
  | .ok a, .ok b => NSPerm a.1 b.1 ∧ a.2 = b.2
  | .error e, .error e' => e = e'
  | _, _ => False

/-- `transpose_note_sequence(ns, amount, min_allowed_pitch, max_allowed_pitch, transpose_chords)` on
two storage orders of one sequence: same error, or the same number of deleted notes and the same
transposed sequence up to storage order -/
theorem transposeNS_perm (split : String → Except Err Sym) {s s' : NoteSeq} (h : NSPerm s s')
    (ho : OneSplitError split s.texts) (k mn mx : Int) (tc : Bool) :
    ResPermT (transposeNS split s k mn mx tc) (transposeNS split s' k mn mx tc) := by
  obtain ⟨n1, n2, n3⟩ := noteLoop_perm k mn mx h.notes
  have build : ∀ (tx tx' : List TextAnn), tx.Perm tx' →
      NSPerm { s with notes := (noteLoop k mn mx s.notes [] 0 0).1,
                      totalTime := (noteLoop k mn mx s.notes [] 0 0).2.2, texts := tx,
                      keySigs := s.keySigs.map (transposeKey k) }
             { s' with notes := (noteLoop k mn mx s'.notes [] 0 0).1,
                       totalTime := (noteLoop k mn mx s'.notes [] 0 0).2.2, texts := tx',
                       keySigs := s'.keySigs.map (transposeKey k) } := by
    intro tx tx' htx
    constructor <;> simp only []
    · exact n1
    · exact h.tempos
    · exact h.timeSigs
    · exact h.keySigs.map _
    · exact htx
    · exact h.ccs
    · exact h.bends
    · exact h.sectionAnns
    · exact h.sgroups
    · exact n3
    · exact h.totalQSteps
    · exact h.spq
    · exact h.sps
    · exact h.hasSub
    · exact h.subStart
    · exact h.subEnd
    · exact h.tpq
    · exact h.metaTag
  unfold transposeNS
  cases tc with
  | false =>
    simp only [Bool.false_eq_true, if_false]
    exact ⟨build _ _ (h.texts.filter _), n2⟩
  | true =>
    simp only [if_true]
    have ht := textLoop_perm split k h.texts ho
    cases h1 : textLoop split k s.texts with
    | ok r =>
      cases h2 : textLoop split k s'.texts with
      | ok r' =>
        rw [h1, h2] at ht
        exact ⟨build _ _ ht, n2⟩
      | error e' => rw [h1, h2] at ht; exact ht
    | error e =>
      cases h2 : textLoop split k s'.texts with
      | ok r' => rw [h1, h2] at ht; exact ht
      | error e' => rw [h1, h2] at ht; exact ht

/-- the interval handed to `random.randint` by `augment_note_sequence` (lowest / highest pitch of the
sequence) does not depend on which note is stored first -/
theorem augmentRange_perm {s s' : NoteSeq} (h : NSPerm s s') (minT maxT mn mx : Int) (del : Bool) :
    augmentRange s minT maxT mn mx del = augmentRange s' minT maxT mn mx del := by
  unfold augmentRange
  rw [← h.isQuantized]
  have hp := h.notes
  cases hl : s.notes with
  | nil => rw [hl] at hp; rw [hp.nil_eq]
  | cons a as =>
    cases hl' : s'.notes with
    | nil => rw [hl, hl'] at hp; exact absurd hp.eq_nil (by simp)
    | cons b bs =>
      rw [hl, hl'] at hp
      simp only []
      rw [minPitch_perm hp, maxPitch_perm hp]

/-- `augment_note_sequence` (transposition half; `pick` stands for `random.randint`) -/
theorem augment_perm (split : String → Except Err Sym) (pick : Int → Int → Int) {s s' : NoteSeq}
    (h : NSPerm s s') (ho : OneSplitError split s.texts) (minT maxT mn mx : Int) (del : Bool) :
    ResPerm (augment split pick s minT maxT mn mx del) (augment split pick s' minT maxT mn mx del) := by
  unfold augment
  rw [← augmentRange_perm h]
  cases augmentRange s minT maxT mn mx del with
  | error e => rfl
  | ok rg =>
    cases rg with
    | none => exact h
    | some ab =>
      obtain ⟨a, b⟩ := ab
      simp only []
      split
      · rfl
      · have ht := transposeNS_perm split h ho (pick a b) mn mx true
        cases h1 : transposeNS split s (pick a b) mn mx true with
        | ok r =>
          cases h2 : transposeNS split s' (pick a b) mn mx true with
          | ok r' => rw [h1, h2] at ht; exact ht.1
          | error e' => rw [h1, h2] at ht; exact ht
        | error e =>
          cases h2 : transposeNS split s' (pick a b) mn mx true with
          | ok r' => rw [h1, h2] at ht; exact ht
          | error e' => rw [h1, h2] at ht; exact ht

/-! ## the side condition: invariant, satisfiable, necessary -/

theorem oneSplitError_perm {split : String → Except Err Sym} {s s' : NoteSeq} (h : NSPerm s s') :
    OneSplitError split s.texts ↔ OneSplitError split s'.texts :=
  ⟨fun ho => ho.perm h.texts, fun ho => ho.perm h.texts.symm⟩

/-- a splitter with a single error class (what `_split_chord_symbol` is) satisfies the condition on
every sequence -/
theorem oneSplitError_of_uniform (split : String → Except Err Sym) (e0 : Err)
    (hu : ∀ f e, split f = .error e → e = e0) (ts : List TextAnn) : OneSplitError split ts :=
  fun _ _ _ _ _ _ e e' hs hs' => (hu _ e hs).trans (hu _ e' hs').symm

def exNoteT (p : Int) (drum : Bool) (e : Rat) : Note :=
  { (default : Note) with pitch := p, isDrum := drum, end_ := e, velocity := 80 }

/-- a toy splitter: `"C"` is C major, `"?"` and `"!"` are rejected with two different errors -/
def exSplit (f : String) : Except Err Sym :=
  if f = "C" then .ok ⟨⟨.C, 0⟩, "", "", [], none⟩
  else if f = "?" then .error chordSymbolError else .error keyError

def exT : NoteSeq :=
  { notes := [exNoteT 60 false 1, exNoteT 125 false 3, exNoteT 36 true 2, exNoteT 60 false 2],
    keySigs := [⟨0, 0, 0⟩, ⟨1, 7, 1⟩],
    texts := [⟨0, 0, CHORD_SYMBOL, "C"⟩, ⟨1, 0, CHORD_SYMBOL, NO_CHORD⟩, ⟨1, 0, 2, "?"⟩],
    totalTime := 3 }

def exT' : NoteSeq :=
  { exT with
    notes := [exNoteT 60 false 2, exNoteT 36 true 2, exNoteT 125 false 3, exNoteT 60 false 1],
    keySigs := [⟨1, 7, 1⟩, ⟨0, 0, 0⟩],
    texts := [⟨1, 0, 2, "?"⟩, ⟨1, 0, CHORD_SYMBOL, NO_CHORD⟩, ⟨0, 0, CHORD_SYMBOL, "C"⟩] }

-- non-vacuity: different storage orders, coinciding same-pitch notes, a deleted note, a drum, a chord
example : NSPerm exT exT' := by
  constructor <;> first | rfl | (simp only [exT, exT']; decide +kernel)
example : OneSplitError exSplit exT.texts := by
  intro t ht t' ht' hc hc' e e' hs hs'
  simp only [exT, List.mem_cons, List.not_mem_nil, or_false] at ht ht'
  rcases ht with rfl | rfl | rfl <;> rcases ht' with rfl | rfl | rfl <;>
    first
    | (simp [exSplit] at hs; done)
    | (simp [exSplit] at hs'; done)
    | (exact absurd hc (by unfold IsChord; decide))
    | (exact absurd hc' (by unfold IsChord; decide))
example : (transposeNS exSplit exT 5 0 127 true).toOption.map (fun r => (r.1.notes.length, r.2)) = some (3, 1) := by
  decide +kernel

def exE : NoteSeq := { texts := [⟨0, 0, CHORD_SYMBOL, "?"⟩, ⟨1, 0, CHORD_SYMBOL, "!"⟩] }
def exE' : NoteSeq := { texts := [⟨1, 0, CHORD_SYMBOL, "!"⟩, ⟨0, 0, CHORD_SYMBOL, "?"⟩] }

/-- **the side condition is necessary in the model**: with a splitter that has two error classes the
raised error is that of whichever bad chord symbol is stored first -/
theorem transpose_error_depends_on_order :
    NSPerm exE exE' ∧ ¬ OneSplitError exSplit exE.texts ∧
    transposeNS exSplit exE 1 0 127 true = .error chordSymbolError ∧
    transposeNS exSplit exE' 1 0 127 true = .error keyError := by
  refine ⟨?_, ?_, by decide +kernel, by decide +kernel⟩
  · constructor <;> first | rfl | (simp only [exE, exE']; decide +kernel)
  · intro ho
    have := ho ⟨0, 0, CHORD_SYMBOL, "?"⟩ (by simp [exE]) ⟨1, 0, CHORD_SYMBOL, "!"⟩ (by simp [exE])
      (by unfold IsChord; decide) (by unfold IsChord; decide) chordSymbolError keyError
      (by decide +kernel) (by decide +kernel)
    exact absurd this (by decide)

end NSV.C12
