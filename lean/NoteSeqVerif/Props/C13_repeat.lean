import NoteSeqVerif.Proofs.C13Repeat
/-! C13 — `repeat_sequence_to_duration`: the result is the cyclic copies cut at `D`
(closes `RepeatCyclicCopies` of `Props/C13.lean`).

`repeatFullR R mm m D sd` is the model of `repeat_sequence_to_duration(m, D, sequence_duration=sd)`
(`sd = 0` ⇔ falsy) with `extract_subsequence` = property C02's model.  Vocabulary
(`Proofs/C13Repeat.lean`): `repDur m sd` = `d` (`sd or total_time`), `repCount R m D sd` = `⌈R (D/d)⌉`,
`repOffs R d 0 n` = the offsets `0, R (0+d), R (R (0+d)+d), …`, `repCopies R m d n` = copy `k` placed
at offset `k`, `cyclicCopies l d n` = exact copies `k·d`, `cutNote D` = keep iff `0 ≤ start < D`, end
cut at `D`. -/
namespace NSV.C13
open List

/-! ## any rounding operator -/

/-- **notes of repeat, for every rounding operator `R`.**  Whenever the call returns, its notes are
the notes of the copies (copy `k` shifted by the float offset `k`, copy 0 unshifted), in stable
start order (`extract_subsequence` sorts), those starting in `[0, D)`, with start `R (start - 0)`
and end `R (min end D - 0)`; nothing else. -/
theorem repeat_notes (R : Rat → Rat) (mm : List String → String) (m : MSeq) (dur sd : Rat) (r : MSeq)
    (h : repeatFullR R mm m dur sd = .ok r) :
    r.ns.notes =
      ((sortByRat (·.start) ((repCopies R m (repDur m sd) (repCount R m dur sd)).flatMap (·.ns.notes))).filter
        (fun x => decide (0 ≤ x.start) && decide (x.start < dur))).map (NSV.C02.clipR R 0 dur) := by
  obtain ⟨_, _, _, _, _, hr⟩ := repeat_unfold R mm m dur sd r h
  rw [hr]
  show NSV.C02.specNotes R (repeatCat R mm m dur sd).ns 0 dur = _
  unfold NSV.C02.specNotes
  rw [(repeatCat_fields R mm m dur sd).1]

/-- **every other container of repeat, for every `R`** (as far as C02's closed forms go): with
`cat` the concatenation of the copies (`repeatCat`, containers listed by `repeatCat_fields`),
tempos / time signatures / key signatures / chord symbols are C02's `specState` of the
concatenated (de-duplicated) events on `[0, D)` — the event in force at 0 re-emitted at 0, then the
events strictly inside `(0, D)`; beats follow the note rule; sustain-type control changes C02's
pedal rule; pitch bends are dropped and section annotations are **not** cut (all copies survive);
`total_time` is the largest cut note end; `subsequence_info` is cleared; metadata as concatenated. -/
theorem repeat_events (R : Rat → Rat) (mm : List String → String) (m : MSeq) (dur sd : Rat) (r : MSeq)
    (h : repeatFullR R mm m dur sd = .ok r) :
    r.ns.tempos = NSV.C02.specState R (·.time) NSV.C02.Tempo.setTime
      (redTempos ((repCopies R m (repDur m sd) (repCount R m dur sd)).flatMap (·.ns.tempos))) 0 dur ∧
    r.ns.timeSigs = NSV.C02.specState R (·.time) NSV.C02.TimeSig.setTime
      (redTimeSigs ((repCopies R m (repDur m sd) (repCount R m dur sd)).flatMap (·.ns.timeSigs))) 0 dur ∧
    r.ns.keySigs = NSV.C02.specState R (·.time) NSV.C02.KeySig.setTime
      (redKeySigs ((repCopies R m (repDur m sd) (repCount R m dur sd)).flatMap (·.ns.keySigs))) 0 dur ∧
    r.ns.texts = NSV.C02.specState R (·.time) NSV.C02.TextAnn.setTime
        (NSV.C02.chords (repeatCat R mm m dur sd).ns) 0 dur ++ NSV.C02.specBeats R (repeatCat R mm m dur sd).ns 0 dur ∧
    r.ns.ccs = NSV.C02.specPedals R NSV.C02.Gen.PRESERVE (repeatCat R mm m dur sd).ns 0 dur ∧
    r.ns.bends = [] ∧
    r.ns.sectionAnns = (repCopies R m (repDur m sd) (repCount R m dur sd)).flatMap (·.ns.sectionAnns) ∧
    r.ns.totalTime = NSV.C02.pieceTotal r.ns.notes ∧
    r.ns.hasSub = false ∧ r.ns.subStart = 0 ∧ r.ns.subEnd = 0 ∧
    r.composers = (repeatCat R mm m dur sd).composers ∧ r.genres = (repeatCat R mm m dur sd).genres ∧
    r.ns.metaTag = mm ((replicate (repCount R m dur sd) m).map (·.ns.metaTag)) := by
  obtain ⟨_, _, _, _, _, hr⟩ := repeat_unfold R mm m dur sd r h
  obtain ⟨_, _, _, f4, f5, f6, f7, _⟩ := repeatCat_fields R mm m dur sd
  rw [hr]
  refine ⟨?_, ?_, ?_, rfl, rfl, rfl, ?_, rfl, rfl, rfl, rfl, rfl, rfl, rfl⟩
  · show NSV.C02.specState R _ _ (repeatCat R mm m dur sd).ns.tempos 0 dur = _
    rw [f5]
  · show NSV.C02.specState R _ _ (repeatCat R mm m dur sd).ns.timeSigs 0 dur = _
    rw [f6]
  · show NSV.C02.specState R _ _ (repeatCat R mm m dur sd).ns.keySigs 0 dur = _
    rw [f7]
  · show (repeatCat R mm m dur sd).ns.sectionAnns = _
    rw [f4]

/-- the copies, for every `R`: there are `⌈R (D/d)⌉` of them, copy `k` is the input placed
(`shift_sequence_times`, or untouched at offset 0) at offset `k`, and the offsets follow the loop's
recurrence `o₀ = 0`, `o_{k+1} = R (o_k + d)` -/
theorem repeat_copies (R : Rat → Rat) (m : MSeq) (d : Rat) (n : Nat) :
    repCopies R m d n = (repOffs R d 0 n).map (fun o => placed R o m) ∧
    (repOffs R d 0 n).length = n ∧
    (∀ c, repOffs R d c 0 = []) ∧ (∀ c k, repOffs R d c (k + 1) = c :: repOffs R d (R (c + d)) k) :=
  ⟨rfl, repOffs_length R d n 0, fun _ => rfl, fun _ _ => rfl⟩

/-! ## exact arithmetic (`R = id`) -/

/-- in exact arithmetic copy `k` is the input with every note and event time moved by `k·d` -/
theorem repeat_copies_exact (m : MSeq) (d : Rat) (n : Nat) (hd : 0 ≤ d) :
    repOffs id d 0 n = (List.range n).map (fun (k : Nat) => ((k : Int) : Rat) * d) ∧
    (repCopies id m d n).flatMap (·.ns.notes) = cyclicCopies m.ns.notes d n ∧
    ∀ k (hk : k < (repCopies id m d n).length),
      ((repCopies id m d n)[k]).ns.tempos = m.ns.tempos.map (fun e => { e with time := e.time + ((k : Int) : Rat) * d }) ∧
      ((repCopies id m d n)[k]).ns.timeSigs = m.ns.timeSigs.map (fun e => { e with time := e.time + ((k : Int) : Rat) * d }) ∧
      ((repCopies id m d n)[k]).ns.keySigs = m.ns.keySigs.map (fun e => { e with time := e.time + ((k : Int) : Rat) * d }) ∧
      ((repCopies id m d n)[k]).ns.texts = m.ns.texts.map (fun e => { e with time := e.time + ((k : Int) : Rat) * d }) ∧
      ((repCopies id m d n)[k]).ns.ccs = m.ns.ccs.map (fun e => { e with time := e.time + ((k : Int) : Rat) * d }) ∧
      ((repCopies id m d n)[k]).ns.sectionAnns =
        m.ns.sectionAnns.map (fun e => { e with time := e.time + ((k : Int) : Rat) * d }) := by
  have ho : repOffs id d 0 n = (List.range n).map (fun (k : Nat) => ((k : Int) : Rat) * d) := by
    rw [repOffs_exact]; simp [Rat.zero_add]
  refine ⟨ho, repCopies_id_notes m d n hd, ?_⟩
  intro k hk
  have hk' : k < n := by simpa [repCopies, repOffs_length] using hk
  have : (repCopies id m d n)[k] = placed id (((k : Int) : Rat) * d) m := by
    simp [repCopies, ho]
  rw [this]
  exact placed_id_events _ m (mul_nonneg_nat k d hd)

/-- **notes of repeat, exact arithmetic.**  The notes are exactly: the cyclic copies (copy `k` = every
input note moved by `k·d`, `k = 0 … ⌈D/d⌉-1`), in stable start order, those with
`0 ≤ start < D`, end cut at `D`; nothing else and nothing changed otherwise. -/
theorem repeat_notes_exact (mm : List String → String) (m : MSeq) (dur sd : Rat) (r : MSeq)
    (hd : 0 ≤ repDur m sd) (h : repeatFullR id mm m dur sd = .ok r) :
    r.ns.notes =
      (sortByRat (·.start) (cyclicCopies m.ns.notes (repDur m sd) (repCount id m dur sd))).filterMap (cutNote dur) := by
  rw [repeat_notes id mm m dur sd r h, filter_map_clip_eq, repCopies_id_notes m _ _ hd]
  rfl

/-- "enough copies": for positive `d` and `D` the number of copies `n = ⌈D/d⌉` is the one with
`(n-1)·d < D ≤ n·d` -/
theorem repeat_count_bounds (m : MSeq) (dur sd : Rat) (hd : 0 < repDur m sd) (hD : 0 < dur) :
    1 ≤ repCount id m dur sd ∧
    dur ≤ ((repCount id m dur sd : Int) : Rat) * repDur m sd ∧
    ((repCount id m dur sd : Int) : Rat) * repDur m sd < dur + repDur m sd := by
  obtain ⟨h1, h2, h3, h4⟩ := repeat_count_exact dur (repDur m sd) hd hD
  have e : ((repCount id m dur sd : Nat) : Int) = (dur / repDur m sd).ceil := h4
  refine ⟨by unfold repCount; simp only [id]; omega, ?_, ?_⟩
  · rw [e]; exact h2
  · rw [e]; grind

/-- **in that order**: when the input notes are stored in start order and start inside `[0, d]`
(every well-formed sequence sorted by start), the result lists copy 0, copy 1, … in the input's
own order — exactly the copies `n` shifted by `k·d` with `k·d + start < D`, ends cut at `D` -/
theorem repeat_cyclic_copies_ordered (mm : List String → String) (m : MSeq) (dur sd : Rat) (r : MSeq)
    (hd : 0 ≤ repDur m sd) (hs : m.ns.notes.Pairwise (fun a b => a.start ≤ b.start))
    (hin : ∀ nt ∈ m.ns.notes, 0 ≤ nt.start ∧ nt.start ≤ repDur m sd)
    (h : repeatFullR id mm m dur sd = .ok r) :
    r.ns.notes = (cyclicCopies m.ns.notes (repDur m sd) (repCount id m dur sd)).filterMap
      (fun nt => if nt.start < dur then some { nt with end_ := if dur < nt.end_ then dur else nt.end_ } else none) := by
  rw [repeat_notes_exact mm m dur sd r hd h,
    NSV.C02.sortByRat_of_pairwise _ _ (cyclicCopies_sorted _ _ hs hin hd _)]
  apply filterMap_congr_mem
  intro a ha
  obtain ⟨k, _, nt, hnt, rfl⟩ := (mem_cyclicCopies _ _ _ a).mp ha
  have h1 := (hin nt hnt).1
  have h2 := mul_nonneg_nat k _ hd
  have h0 : 0 ≤ (shiftNote (((k : Int) : Rat) * repDur m sd) nt).start := by
    simp only [shiftNote]; grind
  simp [cutNote, h0]

/-- `RepeatCyclicCopies` (`Props/C13.lean`) under the one hypothesis it lacks: no note starts
before time 0.  (`extract_subsequence(…, 0, D)` drops a note with `start < 0`, the right-hand side
of `RepeatCyclicCopies` keeps it: see `repeatCyclicCopies_needs_nonneg_starts`.) -/
theorem repeatCyclicCopies_partial :
    ∀ (mm : List String → String) (m : MSeq) (dur : Rat) (r : MSeq),
      0 < m.ns.totalTime → 0 < dur → m.ns.isQuantized = false →
      (∀ nt ∈ m.ns.notes, 0 ≤ nt.start) →
      repeatFullR id mm m dur 0 = .ok r →
      ∃ n : Nat, ((n : Int) : Rat) * m.ns.totalTime < dur + m.ns.totalTime ∧ dur ≤ ((n : Int) : Rat) * m.ns.totalTime ∧
        r.ns.notes.Perm
          (((List.range n).flatMap (fun (k : Nat) => m.ns.notes.map (fun nt =>
              { nt with start := nt.start + ((k : Int) : Rat) * m.ns.totalTime,
                        end_ := nt.end_ + ((k : Int) : Rat) * m.ns.totalTime }))).filterMap
            (fun nt => if nt.start < dur then some { nt with end_ := if dur < nt.end_ then dur else nt.end_ } else none)) := by
  intro mm m dur r htt hD _ hpos h
  have hd : repDur m 0 = m.ns.totalTime := by simp [repDur]
  have hd0 : 0 ≤ repDur m 0 := by rw [hd]; grind
  obtain ⟨_, c2, c3⟩ := repeat_count_bounds m dur 0 (by rw [hd]; exact htt) hD
  rw [hd] at c2 c3
  refine ⟨repCount id m dur 0, c3, c2, ?_⟩
  rw [repeat_notes_exact mm m dur 0 r hd0 h, hd]
  have hperm := (NSV.C02.sortByRat_perm (·.start)
    (cyclicCopies m.ns.notes m.ns.totalTime (repCount id m dur 0))).filterMap (cutNote dur)
  refine hperm.trans (Perm.of_eq ?_)
  show (cyclicCopies m.ns.notes m.ns.totalTime (repCount id m dur 0)).filterMap (cutNote dur) =
    (cyclicCopies m.ns.notes m.ns.totalTime (repCount id m dur 0)).filterMap _
  apply filterMap_congr_mem
  intro a ha
  obtain ⟨k, _, nt, hnt, rfl⟩ := (mem_cyclicCopies _ _ _ a).mp ha
  have h1 := hpos nt hnt
  have h2 := mul_nonneg_nat k m.ns.totalTime (by grind)
  have h0 : 0 ≤ (shiftNote (((k : Int) : Rat) * m.ns.totalTime) nt).start := by
    simp only [shiftNote]; grind
  simp [cutNote, h0]

/-- the call returns for every unquantized sequence with `0 < total_time ≤ d` and every `D > 0`
(exact arithmetic) — the hypothesis `… = .ok r` of the theorems above is satisfiable throughout -/
theorem repeat_ok_exact (mm : List String → String) (m : MSeq) (dur sd : Rat)
    (htt : 0 < m.ns.totalTime) (hle : m.ns.totalTime ≤ repDur m sd) (hD : 0 < dur)
    (hq : m.ns.isQuantized = false) : ∃ r, repeatFullR id mm m dur sd = .ok r := by
  have hd : 0 < repDur m sd := by grind
  obtain ⟨c1, _, _⟩ := repeat_count_bounds m dur sd hd hD
  obtain ⟨q1, q2⟩ := (isQuantized_false_iff m.ns).mp hq
  have hc : concatR id mm (replicate (repCount id m dur sd) m) (replicate (repCount id m dur sd) (repDur m sd)) =
      .ok (repeatCat id mm m dur sd) := by
    rw [concat_ok_iff]
    refine ⟨fun _ => by simp, ?_, by rw [catPieces_replicate]; rfl⟩
    intro po hpo
    have hmem := (of_mem_zip hpo).1
    rw [catPairs_replicate] at hmem
    have hp : po.1 = (m, repDur m sd) := eq_of_mem_replicate hmem
    rintro (⟨_, hlt⟩ | ⟨_, hqz⟩)
    · rw [hp] at hlt; simp only [] at hlt; grind
    · rw [hp] at hqz; simp only [] at hqz; rw [hq] at hqz; cases hqz
  have hcq : (repeatCat id mm m dur sd).ns.isQuantized = false := by
    rw [isQuantized_false_iff]
    have := foldl_merge_nonpos (repCopies id m (repDur m sd) (repCount id m dur sd)) emptyM
      (by simp [emptyM]) (by simp [emptyM]) (by
        intro x hx
        obtain ⟨o, _, rfl⟩ := mem_map.mp hx
        rw [(placed_quant id o m).1, (placed_quant id o m).2]; exact ⟨q1, q2⟩)
    simpa [repeatCat, finishCat, removeRedundant] using this
  have hct : 0 < (repeatCat id mm m dur sd).ns.totalTime := by
    rw [(repeatCat_fields id mm m dur sd).2.2.2.2.2.2.2]
    apply lastNZ_pos
    · right
      have : (repCopies id m (repDur m sd) (repCount id m dur sd)).length = repCount id m dur sd := by
        simp [repCopies, repOffs_length]
      intro hnil
      rw [map_eq_nil_iff] at hnil
      rw [hnil] at this; simp at this; omega
    · intro x hx
      obtain ⟨c, hcm, rfl⟩ := mem_map.mp hx
      obtain ⟨o, ho, rfl⟩ := mem_map.mp hcm
      rw [repOffs_exact] at ho
      obtain ⟨k, _, rfl⟩ := mem_map.mp ho
      have hk := mul_nonneg_nat k (repDur m sd) (by grind)
      unfold placed
      split
      · simp only [shiftSeq, id]; grind
      · exact htt
  rw [repeat_spec]
  simp only []
  have hne : ¬ (if sd = 0 then m.ns.totalTime else sd) = 0 := by
    have : repDur m sd ≠ 0 := by grind
    exact this
  rw [if_neg hne]
  have hc' := hc
  unfold repCount repDur at hc'
  rw [hc']
  simp only []
  rw [NSV.C02.extract_subsequence_spec, if_neg (by simp [hcq]), if_neg (by grind)]
  exact ⟨_, rfl⟩

/-! ## `RepeatCyclicCopies` as written is false: a note starting before 0 -/

/-- one note from `-1` to `1/2`, `total_time = 1` -/
def negSeq : MSeq := { ns := { notes := [{ exNote with start := -1, end_ := 1 / 2 }], totalTime := 1 } }

theorem repeat_negSeq (mm : List String → String) :
    ∃ r, repeatFullR id mm negSeq 1 0 = .ok r ∧ r.ns.notes = [] := by
  obtain ⟨r, hr⟩ := repeat_ok_exact mm negSeq 1 0 (by decide +kernel) (by decide +kernel) (by decide +kernel)
    (by decide +kernel)
  refine ⟨r, hr, ?_⟩
  rw [repeat_notes_exact mm negSeq 1 0 r (by decide +kernel) hr]
  have hn : repCount id negSeq 1 0 = 1 := by decide +kernel
  rw [hn]
  have : cyclicCopies negSeq.ns.notes (repDur negSeq 0) 1 =
      [shiftNote (((0 : Nat) : Int) * repDur negSeq 0) { exNote with start := -1, end_ := 1 / 2 }] := by
    simp [cyclicCopies, negSeq]
  rw [this]
  simp only [sortByRat, mergeSort_singleton, filterMap_cons, filterMap_nil]
  have : cutNote 1 (shiftNote (((0 : Nat) : Int) * repDur negSeq 0) { exNote with start := -1, end_ := 1 / 2 }) = none := by
    decide +kernel
  rw [this]

/-- the `def RepeatCyclicCopies` of `Props/C13.lean` does not hold as stated: it forgets that the cut
`[0, D)` also removes notes that start before 0 (what `extract_subsequence` — and the Python — do);
`repeatCyclicCopies_partial` is the statement with that hypothesis added -/
theorem repeatCyclicCopies_needs_nonneg_starts : ¬ RepeatCyclicCopies := by
  intro H
  obtain ⟨r, hr, hnotes⟩ := repeat_negSeq (fun _ => "-")
  obtain ⟨n, _, hn, hperm⟩ := H (fun _ => "-") negSeq 1 r (by decide +kernel) (by decide +kernel) (by decide +kernel) hr
  rw [hnotes] at hperm
  have hlen := hperm.length_eq
  cases n with
  | zero =>
    have : ((((0 : Nat) : Int) : Rat)) * negSeq.ns.totalTime = 0 := by simp [Rat.zero_mul]
    rw [this] at hn
    exact absurd hn (by decide +kernel)
  | succ k =>
    rw [range_succ_eq_map] at hlen
    simp only [flatMap_cons, negSeq, map_cons, map_nil, cons_append, nil_append, filterMap_cons] at hlen
    have hlt : (-1 : Rat) + (((0 : Nat) : Int) : Rat) * 1 < 1 := by decide +kernel
    simp only [hlt, if_true] at hlen
    simp at hlen

/-! ## non-vacuity -/

example : (0 : Rat) < exM.ns.totalTime ∧ exM.ns.totalTime ≤ repDur exM 0 ∧ exM.ns.isQuantized = false ∧
    repDur exM 0 = 2 ∧ repCount id exM 5 0 = 3 ∧
    (∀ nt ∈ exM.ns.notes, 0 ≤ nt.start ∧ nt.start ≤ repDur exM 0) ∧
    (cyclicCopies exM.ns.notes 2 3).filterMap (cutNote 5) =
      [exNote, { exNote with start := 3, end_ := 4 }] := by decide +kernel

example : repOffs id 2 0 3 = [0, 2, 4] ∧ (repCopies id exM 2 3).length = 3 := by decide +kernel

end NSV.C13
