import NoteSeqVerif.Proofs.C04
import NoteSeqVerif.Proofs.C04_time
import NoteSeqVerif.Proofs.C04_expand
import NoteSeqVerif.Proofs.C04_repeats
import NoteSeqVerif.Props.C04_keys
import Mathlib.Tactic.Linarith
import Mathlib.Tactic.Ring
import Mathlib.Tactic.FieldSimp
import Mathlib.Data.Rat.Defs
/-! C04 — property theorems about the ABC parser model (`Model/C04.lean`).

The model reads the TOKEN STREAM the regular expressions of `abc_parser.py` produce (the regex
layer is modelled by the harness's grammar, not verified).  `R` is the rounding operator applied
after every float operation; the exact-arithmetic theorems take `R = id`.  An `Item` list is a
whole tune: field lines, music-line starts and music tokens in textual order (`flatten`). -/
namespace NSV.C04
open NSV Gen

/-! ## abc_explicit_accidentals -/

/-- the last explicit (single) accidental a `K:` field gives for letter `L`, if any -/
def explicitFor (L : Char) : List (Acc × Char) → Option Int
  | [] => none
  | (a, c) :: r =>
    match explicitFor L r with
    | some v => some v
    | none => if upperC c = L then accInt a else none

theorem applyKeyAccs_spec (accs : List (Acc × Char)) (a0 a : Accs) (h : applyKeyAccs accs a0 = .ok a) (L : Char) :
    lookup L a = match explicitFor L accs with
      | some v => some v
      | none => lookup L a0 := by
  induction accs generalizing a0 with
  | nil => simp only [applyKeyAccs, Except.ok.injEq] at h; subst h; simp [explicitFor]
  | cons p r ih =>
    obtain ⟨ac, c⟩ := p
    simp only [applyKeyAccs] at h
    simp only [explicitFor]
    split at h
    · simp at h
    · rename_i hv
      rw [ih a0 h]
      cases hx : explicitFor L r with
      | some v => simp
      | none =>
        have : accInt ac = none := by cases ac <;> simp_all [accValue, accInt]
        simp [this]
    · rename_i v hv
      rw [ih _ h]
      cases hx : explicitFor L r with
      | some w => simp
      | none =>
        have : accInt ac = some v := by cases ac <;> simp_all [accValue, accInt]
        simp only [this, lookup_upsert]
        split <;> rfl

/-- Explicit accidentals after the key (and `exp`) override the signature exactly for the named
letters: for every letter the accidental in force is the last explicit one naming it, else the
signature's (`exp`: none), and a successful parse contains no double accidental. -/
theorem abc_explicit_accidentals (k : KeyTok) (a : Accs) (pk pm : Nat) (h : parseKey k = .ok (a, pk, pm)) :
    ∃ sig base,
      lookup (([k.tonic] ++ k.acc ++ normMode k.mode).map lowerC) KEY_TO_SIG = some sig ∧
      sigToAccs (if k.exp then 0 else sig) = .ok base ∧
      (∀ L, lookup L a = match explicitFor L k.accs with
        | some v => some v
        | none => lookup L base) ∧
      (∀ p ∈ k.accs, p.1 ≠ .dsharp ∧ p.1 ≠ .dflat) := by
  unfold parseKey at h
  simp only at h
  split at h
  · simp at h
  rename_i sig hsig
  split at h
  · simp at h
  split at h
  · simp at h
  split at h
  · simp at h
  rename_i base hbase
  split at h
  · simp at h
  rename_i a' ha
  simp only [Except.ok.injEq, Prod.mk.injEq] at h
  obtain ⟨rfl, _, _⟩ := h
  refine ⟨sig, base, hsig, hbase, applyKeyAccs_spec _ _ _ ha, ?_⟩
  clear hbase hsig
  generalize k.accs = accs at ha
  induction accs generalizing base with
  | nil => simp
  | cons p r ih =>
    obtain ⟨ac, c⟩ := p
    simp only [applyKeyAccs] at ha
    split at ha
    · simp at ha
    · rename_i hv
      intro q hq
      rcases List.mem_cons.mp hq with rfl | hq
      · cases ac <;> simp_all [accValue]
      · exact ih _ ha q hq
    · rename_i v hv
      intro q hq
      rcases List.mem_cons.mp hq with rfl | hq
      · cases ac <;> simp_all [accValue]
      · exact ih _ ha q hq

/-- non-vacuity: `K:D Phr ^f` (D phrygian = two flats, F sharpened explicitly) -/
example : parseKey { tonic := 'D', acc := [], mode := "Phr".toList, exp := false, accs := [(.sharp, 'f')] } =
    .ok ([('A', 0), ('B', -1), ('C', 0), ('D', 0), ('E', -1), ('F', 1), ('G', 0)], 2, 5) := by decide +kernel

/-- a double accidental in the key is rejected with ABCParseError (as the code does) -/
example : parseKey { tonic := 'C', acc := [], mode := [], exp := true, accs := [(.dsharp, 'f')] } = .error eParse := by
  decide +kernel

/-! ## abc_pitch -/

/-- ABC 2.1 §4.1: `C` = middle C = MIDI 60, lower-case letters one octave up -/
def specBase (c : Char) : Int :=
  60 + pitchClassOf (upperC c) + (if 'a' ≤ c ∧ c ≤ 'z' then 12 else 0)

/-- the generated `ABC_NOTE_TO_MIDI` is that rule, for all 14 note letters -/
theorem abc_note_table : ∀ c ∈ "CDEFGABcdefgab".toList, lookup c ABC_NOTE_TO_MIDI = some (specBase c) := by
  decide +kernel

/-- For EVERY tune (item list) the parser accepts and every note token in it: the pitch of the note
it produced is `base(letter) + accidental + 12·(#' − #,)`, where the accidental is the token's own,
else the most recent explicit accidental on that letter (any octave) since the last bar-line token,
else the accidental of the key in force (the most recent `K:` field, line or inline; none before
any); and that pitch is a MIDI pitch.  `barAccOf` / `keyAccOf` scan the processed items backwards;
the proof is the invariant "bar_accidentals = explicit accidentals since the last bar token". -/
theorem abc_pitch (R : Rat → Rat) (pre post : List Item) (a : Acc) (l : Char) (o : List Bool) (n : LenSpec)
    (st' : St) (h : runItems R init (pre ++ .tok (.note a l o n) :: post) = .ok st') :
    ∃ base v,
      lookup l ABC_NOTE_TO_MIDI = some base ∧
      effectiveAcc a (barAccOf (upperC l) none pre.reverse) (lookup (upperC l) (keyAccOf zeroAccs pre.reverse)) = some v ∧
      (st'.notes.map (·.pitch))[noteCount pre]? = some (base + v + octaveShift o) ∧
      MIN_MIDI_PITCH ≤ base + v + octaveShift o ∧ base + v + octaveShift o ≤ MAX_MIDI_PITCH := by
  rw [runItems_append] at h
  split at h
  · simp at h
  rename_i st1 h1
  simp only [runItems] at h
  split at h
  · simp at h
  rename_i st2 h2
  obtain ⟨hb1, hk1, s1, hs1, hl1⟩ := runItems_invariant h1
  obtain ⟨_, _, s2, hs2, _⟩ := runItems_invariant h
  rcases stepItem_pitches h2 with ⟨a', l', o', n', base, v, hi, hbase, hv, hlo, hhi, hp⟩ | ⟨hn, _⟩
  · simp only [Item.tok.injEq, Tok.note.injEq] at hi
    obtain ⟨rfl, rfl, rfl, rfl⟩ := hi
    refine ⟨base, v, hbase, ?_, ?_, hlo, hhi⟩
    · rw [hb1, hk1] at hv
      simpa [init, lookup] using hv
    · rw [hs2, hp, hs1]
      simp only [init, List.map_nil, List.nil_append, List.append_assoc]
      rw [List.getElem?_append_right (by omega)]
      simp [hl1]
  · simp [isNote] at hn

/-- the same for `ABCTune(lines).note_sequence` -/
theorem abc_pitch_tune (R : Rat → Rat) (lines : List Line) (tune : Tune) (h : parseTune R lines = .ok tune)
    (pre post : List Item) (a : Acc) (l : Char) (o : List Bool) (n : LenSpec)
    (hl : flatten lines = pre ++ .tok (.note a l o n) :: post) :
    ∃ base v,
      lookup l ABC_NOTE_TO_MIDI = some base ∧
      effectiveAcc a (barAccOf (upperC l) none pre.reverse) (lookup (upperC l) (keyAccOf zeroAccs pre.reverse)) = some v ∧
      (tune.notes.map (·.pitch))[noteCount pre]? = some (base + v + octaveShift o) := by
  obtain ⟨st, hst, hn⟩ := parseTune_notes h
  rw [hl] at hst
  obtain ⟨base, v, h1, h2, h3, _, _⟩ := abc_pitch R pre post a l o n st hst
  exact ⟨base, v, h1, h2, by rw [hn]; exact h3⟩

/-- `^^` / `__` and pitches outside 0..127 raise ABCParseError (the code rejects double accidentals) -/
theorem abc_pitch_rejects (R : Rat → Rat) (pre post : List Item) (a : Acc) (l : Char) (o : List Bool) (n : LenSpec)
    (st1 : St) (base : Int) (hpre : runItems R init pre = .ok st1) (hb : lookup l ABC_NOTE_TO_MIDI = some base)
    (hbad : a = .dsharp ∨ a = .dflat ∨
      ∃ v, effectiveAcc a (barAccOf (upperC l) none pre.reverse) (lookup (upperC l) (keyAccOf zeroAccs pre.reverse)) = some v ∧
        (base + v + octaveShift o < MIN_MIDI_PITCH ∨ MAX_MIDI_PITCH < base + v + octaveShift o)) :
    runItems R init (pre ++ .tok (.note a l o n) :: post) = .error eParse := by
  apply runItems_error_of_step hpre
  simp only [stepItem, stepTok, stepNote, hb]
  rcases hbad with rfl | rfl | ⟨v, hv, hr⟩
  · simp [noteAccidental, accValue]
  · simp [noteAccidental, accValue]
  · obtain ⟨hb1, hk1, _⟩ := runItems_invariant hpre
    have hbar := hb1 (upperC l)
    simp only [init, lookup] at hbar
    have init_key : init.keyAcc = zeroAccs := rfl
    rw [init_key] at hk1
    rw [← hbar, ← hk1] at hv
    cases a <;> simp only [effectiveAcc, accInt] at hv
    · -- no explicit accidental
      simp only [noteAccidental, accValue]
      cases hl1 : lookup (upperC l) st1.barAcc with
      | some w =>
        simp only [hl1, Option.some.injEq] at hv; subst hv
        simp [hr]
      | none =>
        simp only [hl1] at hv
        simp [hv, hr]
    · simp only [Option.some.injEq] at hv; subst hv; simp [noteAccidental, accValue, hr]
    · simp only [Option.some.injEq] at hv; subst hv; simp [noteAccidental, accValue, hr]
    · simp only [Option.some.injEq] at hv; subst hv
      simp only [noteAccidental, accValue]
      rw [if_pos (by omega)]
    · simp [noteAccidental, accValue]
    · simp [noteAccidental, accValue]

/-- non-vacuity: `K:G` / `F ^F f | f`: key sharp, explicit sharp, bar-scoped (other octave), key again
after the bar line: 66 66 78 78; with `=F` in the bar: 65 in the bar, 78 after it -/
example :
    (runItems id init [.field (.key { tonic := 'G', acc := [], mode := [], exp := false, accs := [] }), .start,
      .tok (.note .natural 'F' [] ⟨none, 0, none⟩), .tok (.note .none 'f' [] ⟨none, 0, none⟩),
      .tok (.bar 0 1 0), .tok (.note .none 'f' [] ⟨none, 0, none⟩)]).map (fun st => st.notes.map (·.pitch)) =
    .ok [65, 77, 78] := by decide +kernel

/-! ## abc_length -/

/-- the note-length shorthands of ABC 2.1 §4.3, in whole notes, for every unit length `u`:
`A` = u, `An` = n·u, `A/` `A//` … = u/2^k, `A/d` = u/d, `An/` = n·u/2, `An/d` = n·u/d;
a zero divisor and `//d` are Python errors (ZeroDivisionError / ValueError escape), `n//…` is an
ABCParseError — exactly as the code behaves. -/
theorem abc_length (u : Rat) (n d k : Nat) :
    noteLength u ⟨none, 0, none⟩ = .ok u ∧
    noteLength u ⟨some n, 0, none⟩ = .ok (u * n) ∧
    noteLength u ⟨none, k + 1, none⟩ = .ok (u / 2 ^ (k + 1)) ∧
    (d ≠ 0 → noteLength u ⟨none, 1, some d⟩ = .ok (u / d)) ∧
    noteLength u ⟨some n, 1, none⟩ = .ok (u * (n / 2)) ∧
    (d ≠ 0 → noteLength u ⟨some n, 1, some d⟩ = .ok (u * (n / d))) ∧
    noteLength u ⟨none, 1, some 0⟩ = .error (.esc "ZeroDivisionError") ∧
    noteLength u ⟨some n, 1, some 0⟩ = .error (.esc "ZeroDivisionError") ∧
    noteLength u ⟨none, k + 2, some d⟩ = .error (.esc "ValueError") ∧
    noteLength u ⟨some n, k + 2, none⟩ = .error eParse ∧ noteLength u ⟨some n, k + 2, some d⟩ = .error eParse := by
  refine ⟨rfl, rfl, rfl, ?_, rfl, ?_, rfl, rfl, rfl, rfl, rfl⟩ <;> intro h <;> simp [noteLength, h]

/-- Default unit note length (ABC 2.1 §3.1.7): no `L:` in the header → 1/8 for free meter (no `M:`
or `M:none`), else 1/16 if the meter `n/d` is below 3/4, else 1/8; an explicit `L:` is kept; two
meters in the header without `L:` are an ABCParseError (as the code does).  Exact arithmetic. -/
theorem abc_default_unit (st : St) (t : Rat) (n d : Int) (u : Rat) :
    (st.unit = some u → u ≠ 0 → setUnitFromHeader id st = .ok st) ∧
    (unitSet st.unit = false → st.timeSigs = [] → setUnitFromHeader id st = .ok { st with unit := some (1 / 8) }) ∧
    (unitSet st.unit = false → st.timeSigs = [(t, n, d)] → d ≠ 0 → (n : Rat) / d < 3 / 4 →
      setUnitFromHeader id st = .ok { st with unit := some (1 / 16) }) ∧
    (unitSet st.unit = false → st.timeSigs = [(t, n, d)] → d ≠ 0 → ¬ (n : Rat) / d < 3 / 4 →
      setUnitFromHeader id st = .ok { st with unit := some (1 / 8) }) ∧
    (unitSet st.unit = false → 2 ≤ st.timeSigs.length → setUnitFromHeader id st = .error eParse) := by
  refine ⟨?_, ?_, ?_, ?_, ?_⟩
  · intro h1 h2; simp [setUnitFromHeader, unitSet, h1, h2]
  · intro h1 h2; simp [setUnitFromHeader, h1, h2, UNIT_FREE]
  · intro h1 h2 h3 h4
    simp only [setUnitFromHeader, h1, h2, h3, id, UNIT_THRESHOLD, UNIT_BELOW]
    simp [h4]
  · intro h1 h2 h3 h4
    simp only [setUnitFromHeader, h1, h2, h3, id, UNIT_THRESHOLD, UNIT_OTHERWISE]
    simp [h4]
  · intro h1 h2
    simp only [setUnitFromHeader, h1]
    match hts : st.timeSigs, h2 with
    | a :: b :: r, _ => simp
    | [_], h2 => simp at h2
    | [], h2 => simp at h2

/-- `Q:a/b c/d=r` sets `qpm = 4·(a/b + c/d)·r`; a bare `Q:r` counts unit note lengths:
`qpm = 4·unit·r`; both at the current time.  Exact arithmetic. -/
theorem abc_tempo (st : St) (beats : List (Nat × Nat)) (r : Nat) (u : Rat) (hh : st.inHeader = false)
    (hd : ∀ b ∈ beats, b.2 ≠ 0) (hu : st.unit = some u) :
    parseField id st (.tempo beats r) =
      .ok { st with tempos := st.tempos ++ [(st.time, 4 * (beats.map (fun b => (b.1 : Rat) / (b.2 : Rat))).sum * r)] } ∧
    parseField id st (.tempoOld r) = .ok { st with tempos := st.tempos ++ [(st.time, 4 * u * r)] } := by
  constructor
  · have hs : sumBeats beats = .ok (beats.map (fun b => (b.1 : Rat) / (b.2 : Rat))).sum := by
      induction beats with
      | nil => simp [sumBeats]
      | cons b rest ih =>
        obtain ⟨n, d⟩ := b
        have hd0 : d ≠ 0 := hd (n, d) (by simp)
        simp [sumBeats, hd0, ih (fun b hb => hd b (by simp [hb]))]
    have e : ∀ x : Rat, x / (1 / 4) * (r : Rat) = 4 * x * r := fun x => by ring
    simp only [parseField, hs, setTempo, hh, Bool.false_eq_true, ↓reduceIte, addTempo, id, e]
  · have e : ∀ x : Rat, x / (1 / 4) * (r : Rat) = 4 * x * r := fun x => by ring
    simp only [parseField, setTempo, hh, Bool.false_eq_true, ↓reduceIte, addTempo, hu, id, e]

/-- Onsets and durations, exact arithmetic (`R = id`), for EVERY body item list without broken-rhythm
tokens that the parser accepts from a state after the header (unit length `c.unit`, tempo `c.qpm`):
the k-th note token starts at `t₀ + Σ_{j<k} dur_j` and ends at `t₀ + Σ_{j≤k} dur_j`, where
`dur_j = unit_j · factor_j · 240 / qpm_j` with the unit length and tempo in force at token j
(`specDurs`: the last `L:` / `Q:` field, line or inline, wins), and the clock ends at `t₀ + Σ dur`. -/
theorem abc_onsets_exact (st st' : St) (c : Ctx) (items : List Item)
    (hh : st.inHeader = false) (hu : st.unit = some c.unit) (hq : qpm st = c.qpm) (hb : st.broken = none)
    (hnb : ∀ i ∈ items, isBrokenItem i = false) (h : runItems id st items = .ok st') :
    st'.notes.map span = st.notes.map span ++ spans st.time (specDurs c items) ∧
    st'.time = st.time + (specDurs c items).sum ∧
    (∀ k, k < (specDurs c items).length →
      (st'.notes.map span)[st.notes.length + k]? =
        some (st.time + ((specDurs c items).take k).sum, st.time + ((specDurs c items).take (k + 1)).sum)) := by
  obtain ⟨h1, h2⟩ := runItems_body ⟨hh, hu, hq, hb⟩ hnb h
  refine ⟨h1, h2, fun k hk => ?_⟩
  rw [h1, List.getElem?_append_right (by simp)]
  simp only [List.length_map, Nat.add_sub_cancel_left]
  exact spans_getElem _ _ _ hk

/-- non-vacuity: `L:1/8`, 120 qpm: `A2 [L:1/16] B/ [Q:1/4=60] c3/2` → 0.5 s, 0.0625 s, 0.375 s -/
example : specDurs ⟨1/8, 120⟩ [.tok (.note .none 'A' [] ⟨some 2, 0, none⟩), .tok (.inline (.unitLen 1 16)),
    .tok (.note .none 'B' [] ⟨none, 1, none⟩), .tok (.inline (.tempo [(1, 4)] 60)),
    .tok (.note .none 'c' [] ⟨some 3, 1, some 2⟩)] = [1/2, 1/16, 3/8] := by
  norm_num [specDurs, itemCtx, fieldCtx, specFactor]

/-- Broken rhythm (ABC 2.1 §4.4), exact arithmetic: on two notes of equal length `d` (the last two
notes), `k` marks keep the pair's start and end and split its total `2d` as
`d·(2 − 2^-k) : d·2^-k` (`>`: long–short, `<`: short–long); every earlier note is untouched;
fewer than two notes is an ABCParseError. -/
theorem abc_broken_rhythm (pre : List Note) (n1 n2 : Note) (gt : Bool) (k : Nat) (d : Rat)
    (h1 : n1.end_ - n1.start = d) (h2 : n2.end_ - n2.start = d) :
    ∃ m1 m2, applyBroken id (pre ++ [n1, n2]) gt k = .ok (pre ++ [m1, m2]) ∧
      m1.pitch = n1.pitch ∧ m2.pitch = n2.pitch ∧ m1.start = n1.start ∧ m2.end_ = n2.end_ ∧
      m1.end_ - n1.end_ = m2.start - n2.start ∧
      (gt = true → m1.end_ - m1.start = d * (2 - (1 / 2) ^ k) ∧ m2.end_ - m2.start = d * (1 / 2) ^ k) ∧
      (gt = false → m1.end_ - m1.start = d * (1 / 2) ^ k ∧ m2.end_ - m2.start = d * (2 - (1 / 2) ^ k)) ∧
      applyBroken id [] gt k = .error eParse ∧ applyBroken id [n1] gt k = .error eParse := by
  refine ⟨_, _, applyBroken_exact pre n1 n2 gt k (by rw [h1, h2]), rfl, rfl, rfl, rfl, ?_, ?_, ?_, rfl, rfl⟩
  · cases gt <;> simp
  · intro hg; subst hg
    simp only [↓reduceIte, h1]
    have hp : ((1 : Rat) / 2) ^ k = 1 / 2 ^ k := by rw [one_div, one_div, inv_pow]
    have e1 : n1.end_ = n1.start + d := by linarith
    have e2 : n2.end_ = n2.start + d := by linarith
    rw [hp, e1, e2]
    constructor <;> (field_simp; ring)
  · intro hg; subst hg
    simp only [Bool.false_eq_true, ↓reduceIte, h1]
    have hp : ((1 : Rat) / 2) ^ k = 1 / 2 ^ k := by rw [one_div, one_div, inv_pow]
    have e1 : n1.end_ = n1.start + d := by linarith
    have e2 : n2.end_ = n2.start + d := by linarith
    rw [hp, e1, e2]
    constructor <;> (field_simp; ring)

/-- non-vacuity / the former F-C04-2: `L:1/4 Q:1/4=60 A>>B` is 1.75 s + 0.25 s -/
example : applyBroken id [⟨69, 90, 0, 1⟩, ⟨71, 90, 1, 2⟩] true 2 = .ok [⟨69, 90, 0, 7/4⟩, ⟨71, 90, 7/4, 2⟩] := by
  decide +kernel

/-! ## abc_header -/

/-- For EVERY header (any fields in any order) the parser accepts, at the first music line: the time
signatures are those of the `M:` fields (`C` = 4/4, `C|` = 2/2, `none` adds none) at time 0, the key
signatures are tonic pitch class and mode of the `K:` fields (what `parse_key` returns:
`abc_key_table_total`), the accidentals in force are those of the last `K:`, the reference number is
the last `X:`, the unit note length is the last non-zero `L:` or else the ABC default for the meter
(1/16 below 3/4, else 1/8; 1/8 for free meter), and the tempo is the last `Q:` of the header:
`Q:a/b=r` ⇒ qpm = 4·(a/b)·r, bare `Q:r` ⇒ qpm = 4·unit·r, no or zero-rate `Q:` ⇒ none. (`R = id`.) -/
theorem abc_header (fs : List Field) (st : St) (h : runItems id init (fs.map .field ++ [.start]) = .ok st) :
    st.timeSigs = hdrMeters fs ∧ st.keySigs = hdrKeys fs ∧ st.keyAcc = hdrKeyAcc zeroAccs fs ∧
    st.refnum = hdrRef 0 fs ∧ st.time = 0 ∧ st.notes = [] ∧ st.inHeader = false ∧ st.broken = none ∧
    st.sections = [] ∧ st.groups = [] ∧
    ∃ u, unitAtEnd (hdrUnit none fs) (hdrMeters fs) = some u ∧ st.unit = some u ∧
      st.tempos = tempoAtEnd u 0 (hdrTempo none fs) := by
  rw [runItems_append] at h
  split at h
  · simp at h
  rename_i st1 h1
  obtain ⟨i1, i2, i3, i4, i5, i6, _, i8, i9, i10, i11, i12⟩ := runItems_header (R := id) rfl rfl h1
  obtain ⟨_, ik, _⟩ := runItems_invariant h1
  simp only [runItems, stepItem, startMusic, i1, ↓reduceIte] at h
  split at h
  · simp at h
  rename_i st2' h2'
  simp only [Except.ok.injEq] at h
  subst h
  split at h2'
  · simp at h2'
  rename_i st2 h2
  simp only [Except.ok.injEq] at h2'
  subst h2'
  obtain ⟨u, hu, rfl⟩ := finishHeader_exact h2
  simp only [init] at i3 i4 i5 i6 i8 i9 i10 i11 i12 ik
  refine ⟨by simpa using i8, by simpa using i9, ?_, i11, i2, i3, rfl, rfl, i5, i6, u, ?_, rfl, ?_⟩
  · simpa [hdrKeyAcc] using ik
  · simpa [i8, i10] using hu
  · simp only [i4, i2, List.nil_append]
    rw [i12]; rfl

set_option synthInstance.maxSize 2048 in
/-- non-vacuity: `X:7 / M:6/8 / Q:3/8=100 / K:F#m` → 6/8, unit 1/8 (6/8 = 3/4 is not below 3/4),
150 qpm, key F# (6) minor (1) with three sharps -/
example :
    (runItems id init ([Field.refnum 7, .meter 6 8, .tempo [(3, 8)] 100,
        .key { tonic := 'F', acc := ['#'], mode := ['m'], exp := false, accs := [] }].map .field ++ [.start])).map
      (fun st => (st.refnum, st.timeSigs, st.unit, st.tempos)) =
    .ok (7, [(0, 6, 8)], some (1/8), [(0, 150)]) := by
  decide +kernel

set_option synthInstance.maxSize 2048 in
example :
    (runItems id init ([Field.refnum 7, .meter 6 8, .tempo [(3, 8)] 100,
        .key { tonic := 'F', acc := ['#'], mode := ['m'], exp := false, accs := [] }].map .field ++ [.start])).map
      (fun st => (st.keySigs, st.keyAcc)) =
    .ok ([(0, 6, 1)], [('A', 0), ('B', 0), ('C', 1), ('D', 0), ('E', 0), ('F', 1), ('G', 1)]) := by
  decide +kernel

/-! ## abc_isolation -/

/-- A tune that raises an `ABCParseError` (sub)class `c` — chords, tuplets, variant endings, parts,
voices, invalid characters, … — anywhere in the tune sections of a book: the book with the tune
returns exactly the tunes of the book without it (same order, same contents), its exception list is
the other book's with exactly one entry `c` inserted (at the tune's position among the rejected
tunes), and if the other book raises (duplicate reference numbers, an escaping exception) so does
this one, identically.  For every header, every accumulator, every `R`. -/
theorem abc_isolation (R : Rat → Rat) (hdr : List Line) (ts1 ts2 : List (List Line)) (t : List Line) (c : String)
    (ht : parseTune R (hdr ++ t) = .error (.abc c)) (T : List Tune) (E : List String) :
    (∀ e, bookLoop R hdr (ts1 ++ ts2) T E = .error e → bookLoop R hdr (ts1 ++ t :: ts2) T E = .error e) ∧
    (∀ tunes excs, bookLoop R hdr (ts1 ++ ts2) T E = .ok (tunes, excs) →
      ∃ T1 e1 e2, bookLoop R hdr ts1 T E = .ok (T1, e1) ∧ excs = e1 ++ e2 ∧
        bookLoop R hdr (ts1 ++ t :: ts2) T E = .ok (tunes, e1 ++ c :: e2)) := by
  rw [bookLoop_append, bookLoop_append]
  cases h1 : bookLoop R hdr ts1 T E with
  | error e => simp
  | ok p =>
    obtain ⟨T1, E1⟩ := p
    simp only [bookLoop, ht]
    rw [bookLoop_excs R hdr ts2 T1 E1, bookLoop_excs R hdr ts2 T1 (E1 ++ [c])]
    cases h2 : bookLoop R hdr ts2 T1 [] with
    | error e => simp
    | ok q =>
      obtain ⟨T2, X⟩ := q
      simp only [reduceCtorEq, false_implies, implies_true, Except.ok.injEq, Prod.mk.injEq, true_and]
      intro tunes excs h
      obtain ⟨rfl, rfl⟩ := h
      exact ⟨T1, E1, X, ⟨rfl, rfl⟩, rfl, rfl, by simp⟩

/-- the same for `parse_abc_tunebook` when the first section is a tune (has an `X:` line): no file
header is split off in either book -/
theorem abc_isolation_book (R : Rat → Rat) (s0 : List Line) (ts1 ts2 : List (List Line)) (t : List Line)
    (c : String) (h0 : s0.any isRefLine = true) (ht : parseTune R t = .error (.abc c)) :
    (∀ e, parseBook R (s0 :: (ts1 ++ ts2)) = .error e → parseBook R (s0 :: (ts1 ++ t :: ts2)) = .error e) ∧
    (∀ tunes excs, parseBook R (s0 :: (ts1 ++ ts2)) = .ok (tunes, excs) →
      ∃ e1 e2, excs = e1 ++ e2 ∧ parseBook R (s0 :: (ts1 ++ t :: ts2)) = .ok (tunes, e1 ++ c :: e2)) := by
  have hb : ∀ rest, parseBook R (s0 :: rest) = bookLoop R [] (s0 :: rest) [] [] := by
    intro rest; simp [parseBook, h0]
  rw [hb, hb]
  have := abc_isolation R [] (s0 :: ts1) ts2 t c (by simpa using ht) [] []
  simp only [List.cons_append] at this
  refine ⟨this.1, fun tunes excs h => ?_⟩
  obtain ⟨T1, e1, e2, _, h2, h3⟩ := this.2 tunes excs h
  exact ⟨e1, e2, h2, h3⟩

/-- non-vacuity: a tune with a chord is rejected with ChordError -/
example : parseTune id [.field (.refnum 2), .music [.note .none 'C' [] ⟨none, 0, none⟩, .chord]] =
    .error (.abc "ChordError") := by decide +kernel

/-! ## abc_repeats: which repeat layouts raise RepeatParseError -/

/-! `barCounts t` (in `Proofs/C04_repeats.lean`): the backward / forward counts a bar token notates:
`:`×a `|` `:`×b plays the section before it a+1 times and opens a section played b+1 times; a
colon-only run of 2m colons is both, m+1 times. -/

/-- Unbalanced / mismatched repeats raise RepeatParseError exactly as characterised: (1) a colon-only
run with an odd number of colons; (2) a repeat token whose backward count differs from the count
the open forward repeat expects (in particular a second `|:` while one is open, or `:|` for `|::`);
(3) a backward repeat at time 0; (4) a forward repeat still open at the end of the tune.
Conversely a repeat token that passes (1)–(3) never raises a RepeatParseError. -/
theorem abc_repeat_errors (R : Rat → Rat) (st : St) (n : Nat) :
    (n % 2 = 1 → stepTok R st (.colons n) = .error eRepeat) ∧
    (∀ t b f, barCounts t = some (b, f) → (∀ m, t = .colons m → m % 2 = 0) →
      truthy st.expected = true → b ≠ st.expected → stepTok R st t = .error eRepeat) ∧
    (∀ t b f, barCounts t = some (some b, f) → (∀ m, t = .colons m → m % 2 = 0) →
      (truthy st.expected = true → some b = st.expected) → st.time = 0 → stepTok R st t = .error eRepeat) ∧
    (∀ t b f, barCounts t = some (b, f) → (∀ m, t = .colons m → m % 2 = 0) →
      (truthy st.expected = true → b = st.expected) → (b ≠ none → st.time ≠ 0) →
      stepTok R st t ≠ .error eRepeat) ∧
    (st.inHeader = false → truthy st.expected = true → finishTune R st = .error eRepeat) := by
  -- every repeat token is `doRepeat` on the state with the bar accidentals cleared
  have red : ∀ t b f, barCounts t = some (b, f) → (∀ m, t = .colons m → m % 2 = 0) →
      stepTok R st t = doRepeat { st with barAcc := [] } b f ∧ (∀ x, b = some x → x ≠ 0) := by
    intro t b f hc hev
    cases t <;> simp only [barCounts] at hc
    case bar a l c =>
      split at hc
      · simp at hc
      rename_i hz
      simp only [Option.some.injEq, Prod.mk.injEq] at hc
      obtain ⟨rfl, rfl⟩ := hc
      refine ⟨by simp only [stepTok, stepBar, hz, ↓reduceIte], fun x hx => ?_⟩
      split at hx
      · simp only [Option.some.injEq] at hx; omega
      · simp at hx
    case colons m =>
      simp only [Option.some.injEq, Prod.mk.injEq] at hc
      obtain ⟨rfl, rfl⟩ := hc
      have := hev m rfl
      refine ⟨by simp only [stepTok, stepColons, this, ne_eq, not_true_eq_false, ↓reduceIte], fun x hx => ?_⟩
      simp only [Option.some.injEq] at hx; omega
    all_goals simp at hc
  refine ⟨?_, ?_, ?_, ?_, ?_⟩
  · intro h; simp [stepTok, stepColons, h]
  · intro t b f hc hev he hne
    rw [(red t b f hc hev).1]
    exact doRepeat_mismatch _ b f he hne
  · intro t b f hc hev he h0
    obtain ⟨h1, h2⟩ := red t (some b) f hc hev
    rw [h1]
    exact doRepeat_time_zero _ b f he (h2 b rfl) h0
  · intro t b f hc hev he ht
    rw [(red t b f hc hev).1]
    exact doRepeat_no_repeat_error _ b f he (fun x hx _ => ht (by rw [hx]; simp))
  · intro hh he
    simp [finishTune, hh, he]

/-! ## abc_repeats: what a section structure expands to, and that the parsed one expands to the notated order -/

/-- `expand_section_groups` (notes; exact arithmetic) on ANY sequence whose notes are partitioned by
its section annotations — increasing section starts below the total time, every note starting
inside its section and ending no later than the section's end, notes in onset order, group ids in
range: the expansion succeeds and consists, group by group, of the notes of the group's section
played `num_times` times, pitches and durations in order. -/
theorem abc_repeats_expansion (bs : List Block) (T : Rat) (groups : List (Int × Nat)) (base : Tune)
    (hwf : BlocksWF bs T) (hsorted : (blockNotes bs).Pairwise (fun a b => a.start ≤ b.start))
    (hne : groups ≠ []) (hids : ∀ g ∈ groups, 0 ≤ g.1 ∧ g.1 < bs.length) :
    ∃ L, expand id (tuneOfBlocks bs T groups base) = .ok L ∧
      L.map pd = groups.flatMap (fun g => (List.replicate g.2 (blockPd bs g.1)).flatten) :=
  expand_blocks bs T groups base hwf hsorted hne hids

/-- a sequence without section groups expands to itself -/
theorem abc_repeats_no_groups (R : Rat → Rat) (t : Tune) (h : t.groups = []) : expand R t = .ok t.notes := by
  simp [expand, h]

/-! The notated repeat order is defined in `Proofs/C04_repeats.lean` by an independent "player"
reading the bar tokens (`Player`, `playItem`, `playItems`, `unfold`): `played` = what has been played,
`cur` = the notes since the most recent section start (start of tune, double bar outside a repeat,
any repeat sign), `open_` = the count the open forward repeat asks for; at a repeat sign with
backward count n the current section is appended n times (once for a sign without backward count or
a double bar), and a backward count that differs from the open forward count is not a played order.
`NonDegenerate`: every repeated section contains a note (no `:|` directly after a section start). -/

/-- THE REPEAT CLAUSE, for every tune (any header, any token list, no size bound) without
broken-rhythm tokens that the parser accepts, whose notes all have positive duration and whose
repeats are non-degenerate: `expand_section_groups` succeeds on the parsed tune and its notes are, in
pitch and duration, exactly the played order the bar tokens notate (`unfold`: at `:|`×n go back to
the most recent section start n−1 times; double bars outside a repeat and repeat signs start
sections).  Proof: invariant between the parser state (sections, section groups, expected repeat
count) and the player state over the item list (`run_inv`), `_finalize_sections` (`finalize_inv`) and
`abc_repeats_expansion`.  Exact arithmetic (`R = id`). -/
theorem abc_repeats (lines : List Line) (tune : Tune) (h : parseTune id lines = .ok tune)
    (hnb : ∀ i ∈ flatten lines, isBrokenItem i = false) (hpos : ∀ n ∈ tune.notes, n.start < n.end_)
    (hnd : NonDegenerate (flatten lines)) :
    ∃ L, expand id tune = .ok L ∧ unfold (flatten lines) (tune.notes.map pd) = some (L.map pd) :=
  repeats_core lines tune h hnb hpos hnd

/-- `C D |:: E F ::| G` -/
abbrev repeatExample : List Line :=
  [.field (.refnum 1), .music [.note .none 'C' [] ⟨none, 0, none⟩, .note .none 'D' [] ⟨none, 0, none⟩,
    .bar 0 1 2, .note .none 'E' [] ⟨none, 0, none⟩, .note .none 'F' [] ⟨none, 0, none⟩, .bar 2 1 0,
    .note .none 'G' [] ⟨none, 0, none⟩]]

/-- non-vacuity (parser side): the example parses to three sections and the groups 0×1, 1×3, 2×1 -/
example : (parseTune id repeatExample).map (fun t => (t.sections.map (·.2), t.groups)) =
    .ok ([0, 1, 2], [(0, 1), (1, 3), (2, 1)]) := by decide +kernel

/-- non-vacuity of `abc_repeats`: its hypotheses hold for `C D |:: E F ::| G`, so the expansion of the
parsed tune is C D E F E F E F G -/
example : ∃ tune L, parseTune id repeatExample = .ok tune ∧ expand id tune = .ok L ∧
    (L.map pd).map (·.1) = [60, 62, 64, 65, 64, 65, 64, 65, 67] := by
  have hb : (match parseTune id repeatExample with
      | .ok t => t.notes.all (fun n => decide (n.start < n.end_)) &&
          decide ((unfold (flatten repeatExample) (t.notes.map pd)).map (·.map (·.1)) =
            some [60, 62, 64, 65, 64, 65, 64, 65, 67])
      | .error _ => false) = true := by decide +kernel
  cases hp : parseTune id repeatExample with
  | error e => rw [hp] at hb; simp at hb
  | ok tune =>
    rw [hp] at hb
    simp only [Bool.and_eq_true, decide_eq_true_eq, List.all_eq_true] at hb
    obtain ⟨L, hL, hu⟩ := abc_repeats repeatExample tune hp (by decide +kernel) hb.1
      (nonDegenerate_of_check (by decide +kernel))
    refine ⟨tune, L, rfl, hL, ?_⟩
    have h2 := hb.2
    rw [hu] at h2
    simpa using h2

end NSV.C04
