import NoteSeqVerif.Proofs.C13
import NoteSeqVerif.Model.C13Full
/-! C13 — property theorems (DESIGN 6.13) and non-vacuity examples only.
`R` is the rounding operator applied after every float operation (`rne53` in the driver);
every theorem holds for all `R` unless it says `id` (the exact-arithmetic reading). -/
namespace NSV.C13
open List

/-! ## shift_sequence_times -/

/-- every note start/end, every time of the seven event kinds and `total_time` become `R (t + d)`;
`subsequence_info` is cleared; nothing else changes -/
theorem shift_spec (R : Rat → Rat) (d : Rat) (s : NoteSeq) (hd : 0 < d) (hq : s.isQuantized = false) :
    ∃ r, shiftR R d s = .ok r ∧ Moved (fun t => R (t + d)) id s r ∧
      r.hasSub = false ∧ r.subStart = 0 ∧ r.subEnd = 0 := by
  refine ⟨_, shiftR_ok R d s hd hq, ?_, rfl, rfl, rfl⟩
  constructor <;> simp [shiftSeq]

/-- `d ≤ 0 → ValueError`, else quantized `→ QuantizationStatusError`, and nothing else is rejected -/
theorem shift_error_iff (R : Rat → Rat) (d : Rat) (s : NoteSeq) (e : Err) :
    shiftR R d s = .error e ↔
      (d ≤ 0 ∧ e = .valueError) ∨ (0 < d ∧ s.isQuantized = true ∧ e = .quantizationStatusError) := by
  unfold shiftR
  by_cases h : d ≤ 0
  · simp [h]; grind
  · by_cases hq : s.isQuantized
    · simp [h, hq]; grind
    · simp [h, hq]

def exNote : Note :=
  { pitch := 60, velocity := 100, start := 1, end_ := 2, qs := 0, qe := 0, instrument := 0
    program := 0, isDrum := false, numerator := 0, denominator := 0, voice := 7, part := 0, pitchName := 0 }
def exSeq : NoteSeq :=
  { notes := [exNote], tempos := [⟨0, 120⟩, ⟨1, 120⟩, ⟨2, 60⟩], timeSigs := [⟨0, 4, 4⟩], keySigs := [⟨1, 7, 0⟩]
    texts := [⟨0, 0, 2, "x"⟩, ⟨1, 0, 2, "x"⟩, ⟨2, 0, 2, "x"⟩], ccs := [⟨1, 0, 64, 127, 0, 0, false⟩]
    bends := [⟨1, 100, 0, 0, false⟩], sectionAnns := [⟨1, 0⟩], totalTime := 2, hasSub := true, subStart := 1 }

example : (0 : Rat) < 1 / 2 ∧ exSeq.isQuantized = false ∧
    (shiftR id (1 / 2) exSeq).toOption.map (fun r => (r.sectionAnns, r.totalTime, r.hasSub)) =
      some ([⟨3 / 2, 0⟩], 5 / 2, false) := by decide +kernel
example : errOf (shiftR id 0 exSeq) = some .valueError ∧
    errOf (shiftR id 1 { exSeq with spq := 4 }) = some .quantizationStatusError := by decide +kernel

/-! ## stretch_note_sequence -/

/-- every note and event time and `total_time` become `R (t * f)`, every tempo `R (qpm / f)`,
nothing else changes (`subsequence_info` included) -/
theorem stretch_spec (R : Rat → Rat) (f : Rat) (s : NoteSeq) (hq : s.isQuantized = false) (h1 : f ≠ 1)
    (h0 : f ≠ 0 ∨ s.tempos = []) :
    ∃ r, stretchR R f s = .ok r ∧ Moved (fun t => R (t * f)) (fun q => R (q / f)) s r ∧
      r.hasSub = s.hasSub ∧ r.subStart = s.subStart ∧ r.subEnd = s.subEnd := by
  refine ⟨_, stretchR_ok R f s hq h1 h0, ?_, rfl, rfl, rfl⟩
  constructor <;> simp [mapEv, mapNotes, allEventKinds]

/-- `f = 1` is the identity -/
theorem stretch_one (R : Rat → Rat) (s : NoteSeq) (hq : s.isQuantized = false) : stretchR R 1 s = .ok s := by
  simp [stretchR, hq]

theorem stretch_error_iff (R : Rat → Rat) (f : Rat) (s : NoteSeq) (e : Err) :
    stretchR R f s = .error e ↔
      (s.isQuantized = true ∧ e = .quantizationStatusError) ∨
      (s.isQuantized = false ∧ f = 0 ∧ s.tempos ≠ [] ∧ e = .other "ZeroDivisionError") := by
  unfold stretchR
  by_cases hq : s.isQuantized
  · simp [hq]; grind
  · by_cases h1 : f = 1
    · simp [hq, h1]
    · by_cases h0 : f = 0
      · cases ht : s.tempos <;> simp [hq, h0, mapEv, Gen.stretchEventFields, ht] <;> grind
      · simp [hq, h1, h0]

example : exSeq.isQuantized = false ∧ (2 : Rat) ≠ 1 ∧
    (stretchR id 2 exSeq).toOption.map (fun r => (r.sectionAnns, r.tempos, r.totalTime)) =
      some ([⟨2, 0⟩], [⟨0, 60⟩, ⟨2, 60⟩, ⟨4, 30⟩], 4) := by decide +kernel
example : errOf (stretchR id 0 exSeq) = some (.other "ZeroDivisionError") := by decide +kernel

/-! ## remove_redundant_data -/

/-- the tempo / time signature / key signature in force at every time `t` is unchanged -/
theorem remove_redundant_in_effect (m : MSeq) (t : Rat) :
    inForce (·.time) (·.qpm) (removeRedundant m).ns.tempos t = inForce (·.time) (·.qpm) m.ns.tempos t ∧
    inForce (·.time) (fun e => (e.num, e.den)) (removeRedundant m).ns.timeSigs t =
      inForce (·.time) (fun e : TimeSig => (e.num, e.den)) m.ns.timeSigs t ∧
    inForce (·.time) (fun e => (e.key, e.mode)) (removeRedundant m).ns.keySigs t =
      inForce (·.time) (fun e : KeySig => (e.key, e.mode)) m.ns.keySigs t := by
  refine ⟨?_, ?_, ?_⟩
  · exact inForce_dropRepeats_sort _ _ sameTempo (by simp [sameTempo]) _ t
  · exact inForce_dropRepeats_sort _ _ sameTimeSig (by simp [sameTimeSig]) _ t
  · exact inForce_dropRepeats_sort _ _ sameKeySig (by simp [sameKeySig]) _ t

/-- what is kept: the events in (stable) time order, minus exactly those that equal their
predecessor in that order up to `time` -/
theorem remove_redundant_drops_only_repeats (m : MSeq) :
    (∀ a l, sortByRat (·.time) m.ns.tempos = a :: l → (removeRedundant m).ns.tempos =
        a :: (withPred a l).filterMap (fun pb => if pb.1.qpm = pb.2.qpm then none else some pb.2)) ∧
    (∀ a l, sortByRat (·.time) m.ns.timeSigs = a :: l → (removeRedundant m).ns.timeSigs =
        a :: (withPred a l).filterMap (fun pb => if pb.1.num = pb.2.num ∧ pb.1.den = pb.2.den then none else some pb.2)) ∧
    (∀ a l, sortByRat (·.time) m.ns.keySigs = a :: l → (removeRedundant m).ns.keySigs =
        a :: (withPred a l).filterMap (fun pb => if pb.1.key = pb.2.key ∧ pb.1.mode = pb.2.mode then none else some pb.2)) := by
  refine ⟨?_, ?_, ?_⟩ <;> intro a l h
  · have hf : (fun pb : Tempo × Tempo => if sameTempo pb.1 pb.2 = true then none else some pb.2) =
        fun pb => if pb.1.qpm = pb.2.qpm then none else some pb.2 := by funext pb; simp [sameTempo]
    simp only [removeRedundant, redTempos, h, dropRepeats, dropAux_eq_filterMap, hf]
  · have hf : (fun pb : TimeSig × TimeSig => if sameTimeSig pb.1 pb.2 = true then none else some pb.2) =
        fun pb => if pb.1.num = pb.2.num ∧ pb.1.den = pb.2.den then none else some pb.2 := by funext pb; simp [sameTimeSig]
    simp only [removeRedundant, redTimeSigs, h, dropRepeats, dropAux_eq_filterMap, hf]
  · have hf : (fun pb : KeySig × KeySig => if sameKeySig pb.1 pb.2 = true then none else some pb.2) =
        fun pb => if pb.1.key = pb.2.key ∧ pb.1.mode = pb.2.mode then none else some pb.2 := by funext pb; simp [sameKeySig]
    simp only [removeRedundant, redKeySigs, h, dropRepeats, dropAux_eq_filterMap, hf]

/-- nothing is invented or reordered beyond the time sort, and every other field is untouched -/
theorem remove_redundant_frame (m : MSeq) :
    (removeRedundant m).ns.tempos.Sublist (sortByRat (·.time) m.ns.tempos) ∧
    (removeRedundant m).ns.timeSigs.Sublist (sortByRat (·.time) m.ns.timeSigs) ∧
    (removeRedundant m).ns.keySigs.Sublist (sortByRat (·.time) m.ns.keySigs) ∧
    { (removeRedundant m).ns with tempos := m.ns.tempos, timeSigs := m.ns.timeSigs, keySigs := m.ns.keySigs } = m.ns :=
  ⟨dropRepeats_sublist _ _, dropRepeats_sublist _ _, dropRepeats_sublist _ _, rfl⟩

/-- metadata de-duplication keeps first occurrences, in order: reading the list left to right, an
entry is appended iff it has not occurred before -/
theorem dedup_keeps_first (l : List String) (x : String) :
    dedup [] = [] ∧ dedup (l ++ [x]) = (if x ∈ l then dedup l else dedup l ++ [x]) ∧
    (dedup l).Nodup ∧ (dedup l).Sublist l ∧ ∀ y, y ∈ dedup l ↔ y ∈ l := by
  refine ⟨rfl, ?_, dedupGo_nodup l [], dedupGo_sublist l [], fun y => ?_⟩
  · simpa [dedup] using dedupGo_append_singleton l [] x
  · simpa [dedup] using mem_dedupGo l [] y

example : (removeRedundant { ns := exSeq, composers := ["a", "b", "a"] }).ns.tempos = [⟨0, 120⟩, ⟨2, 60⟩] ∧
    (removeRedundant { ns := exSeq, composers := ["a", "b", "a"] }).composers = ["a", "b"] ∧
    inForce (·.time) (·.qpm) exSeq.tempos (3 / 2) = some 120 := by
  have hs : sortByRat (·.time) exSeq.tempos = exSeq.tempos := sortByRat_of_pairwise _ _ (by decide +kernel)
  refine ⟨?_, by decide +kernel, ?_⟩
  · show dropRepeats sameTempo (sortByRat (·.time) exSeq.tempos) = _
    rw [hs]; decide +kernel
  · unfold inForce; rw [hs]; decide +kernel

/-! ## concatenate_sequences -/

/-- the call returns iff the lengths match, no explicit duration is shorter than its piece's
`total_time` and no quantized piece has to be shifted; the result is the `MergeFrom` of the pieces,
piece `i` shifted by its offset (unshifted at offset 0), then `subsequence_info` cleared and
redundant data removed -/
theorem concat_ok_iff (R : Rat → Rat) (mm : List String → String) (seqs : List MSeq) (durs : List Rat) (r : MSeq) :
    concatR R mm seqs durs = .ok r ↔
      (durs ≠ [] → seqs.length = durs.length) ∧
      (∀ po ∈ (catPairs seqs durs).zip (catOffs R seqs durs), ¬ pieceProblem (!durs.isEmpty) po.1 po.2) ∧
      r = finishCat mm seqs ((catPieces R seqs durs).foldl mergeFromM emptyM) := by
  unfold concatR
  simp only []
  by_cases hl : (!durs.isEmpty) = true ∧ seqs.length ≠ durs.length
  · rw [if_pos hl]
    refine ⟨fun h => (by cases h), fun ⟨h, _⟩ => ?_⟩
    have : durs ≠ [] := by intro hd; rw [hd] at hl; simp at hl
    exact absurd (h this) hl.2
  · rw [if_neg hl]
    have hlen : durs ≠ [] → seqs.length = durs.length := by
      intro hd
      cases durs with
      | nil => exact absurd rfl hd
      | cons a l => simp at hl; exact hl
    have key := catLoop_ok_iff R (!durs.isEmpty) (catPairs seqs durs) 0 emptyM
    have he : emptyM.ns.totalTime = 0 := rfl
    rw [he] at key
    show (match catLoop R (!durs.isEmpty) 0 emptyM (catPairs seqs durs) with
      | .error e => .error e
      | .ok cat => Except.ok (finishCat mm seqs cat)) = Except.ok r ↔ _
    cases hc : catLoop R (!durs.isEmpty) 0 emptyM (catPairs seqs durs) with
    | error e =>
      simp only [reduceCtorEq, false_iff]
      rintro ⟨_, hp, _⟩
      have := (key _).mpr ⟨hp, rfl⟩
      rw [hc] at this; cases this
    | ok cat =>
      have := (key cat).mp hc
      simp only [Except.ok.injEq]
      constructor
      · intro h; exact ⟨hlen, this.1, by rw [← h, this.2]; rfl⟩
      · rintro ⟨_, _, h⟩; rw [h, this.2]; rfl

/-- what the result contains: every note of every piece, in order, piece `i` at its offset; the
stateless events likewise; tempos, time and key signatures likewise and then de-duplicated by
`remove_redundant_data`; scalars by the `MergeFrom` rule (last non-default wins) -/
theorem concat_spec (R : Rat → Rat) (mm : List String → String) (seqs : List MSeq) (durs : List Rat) (r : MSeq)
    (h : concatR R mm seqs durs = .ok r) :
    r.ns.notes = (catPieces R seqs durs).flatMap (·.ns.notes) ∧
    r.ns.texts = (catPieces R seqs durs).flatMap (·.ns.texts) ∧
    r.ns.ccs = (catPieces R seqs durs).flatMap (·.ns.ccs) ∧
    r.ns.bends = (catPieces R seqs durs).flatMap (·.ns.bends) ∧
    r.ns.sectionAnns = (catPieces R seqs durs).flatMap (·.ns.sectionAnns) ∧
    r.ns.sgroups = (catPieces R seqs durs).flatMap (·.ns.sgroups) ∧
    r.ns.tempos = redTempos ((catPieces R seqs durs).flatMap (·.ns.tempos)) ∧
    r.ns.timeSigs = redTimeSigs ((catPieces R seqs durs).flatMap (·.ns.timeSigs)) ∧
    r.ns.keySigs = redKeySigs ((catPieces R seqs durs).flatMap (·.ns.keySigs)) ∧
    r.composers = dedup ((catPieces R seqs durs).flatMap (·.composers)) ∧
    r.genres = dedup ((catPieces R seqs durs).flatMap (·.genres)) ∧
    r.ns.totalTime = lastNZ 0 ((catPieces R seqs durs).map (·.ns.totalTime)) ∧
    r.ns.tpq = lastNZ 0 ((catPieces R seqs durs).map (·.ns.tpq)) ∧
    r.ns.hasSub = false ∧ r.ns.subStart = 0 ∧ r.ns.subEnd = 0 ∧
    r.ns.metaTag = mm (seqs.map (·.ns.metaTag)) := by
  obtain ⟨_, _, hr⟩ := (concat_ok_iff R mm seqs durs r).mp h
  obtain ⟨h1, h2, h3, h4, h5, h6, h7, h8, h9, h10, h11⟩ := foldl_merge_lists (catPieces R seqs durs) emptyM
  obtain ⟨s1, s2, _, _⟩ := foldl_merge_scalars (catPieces R seqs durs) emptyM
  subst hr
  simp only [finishCat, removeRedundant, h1, h2, h3, h4, h5, h6, h7, h8, h9, h10, h11, s1, s2]
  simp [emptyM]

/-- the pieces: piece `i` is sequence `i`, shifted by offset `i` when that offset is positive -/
theorem concat_pieces (R : Rat → Rat) (seqs : List MSeq) (durs : List Rat) (hl : durs ≠ [] → seqs.length = durs.length) :
    (catPieces R seqs durs).length = seqs.length ∧
    ∀ i (hi : i < (catPieces R seqs durs).length) (hs : i < seqs.length) (ho : i < (catOffs R seqs durs).length),
      (catPieces R seqs durs)[i] = placed R (catOffs R seqs durs)[i] seqs[i] := by
  have hlen : ∀ (pairs : List (MSeq × Rat)) (useD : Bool) (c t : Rat), (catOffsets R useD c t pairs).length = pairs.length := by
    intro pairs; induction pairs with
    | nil => intro _ _ _; simp [catOffsets]
    | cons p rest ih => intro u c t; obtain ⟨s, d⟩ := p; simp [catOffsets, ih]
  have hpl : (catPairs seqs durs).length = seqs.length := by
    unfold catPairs
    cases durs with
    | nil => simp
    | cons a l => simp; have := hl (by simp); simp at this; omega
  have hfst : ∀ i (h1 : i < (catPairs seqs durs).length) (h2 : i < seqs.length), ((catPairs seqs durs)[i]).1 = seqs[i] := by
    intro i h1 h2
    unfold catPairs
    cases durs with
    | nil => simp
    | cons a l => simp
  refine ⟨by simp [catPieces, placedList, catOffs, hlen, hpl], fun i hi hs ho => ?_⟩
  simp only [catPieces, placedList, getElem_map, getElem_zip]
  rw [hfst i (by omega) hs]

/-- with explicit durations and exact arithmetic, piece `i` sits after the summed durations of the
pieces before it -/
theorem concat_offsets_exact_durations (seqs : List MSeq) (durs : List Rat) (hd : durs ≠ [])
    (hl : seqs.length = durs.length) : catOffs id seqs durs = prefixSums 0 durs := by
  have hne : (!durs.isEmpty) = true := by cases durs <;> simp at hd ⊢
  unfold catOffs catPairs
  rw [hne]; simp only [if_true]
  rw [catOffsets_durations_exact]
  congr 1
  rw [map_snd_zip]; omega

/-- without explicit durations (and exact arithmetic, non-negative lengths) the durations are the
pieces' `total_time`s -/
theorem concat_offsets_exact_totals (seqs : List MSeq) (h : ∀ s ∈ seqs, 0 ≤ s.ns.totalTime) :
    catOffs id seqs [] = prefixSums 0 (seqs.map (·.ns.totalTime)) := by
  unfold catOffs catPairs
  simp only [isEmpty_nil, Bool.not_true, Bool.false_eq_true, if_false]
  rw [catOffsets_totals_exact _ 0 Rat.le_refl (by simpa using h)]
  simp [Function.comp_def]

/-- a length mismatch is a `ValueError`; the only other errors are a too-short duration
(`ValueError`) and a quantized piece that would have to be shifted (`QuantizationStatusError`) -/
theorem concat_errors (R : Rat → Rat) (mm : List String → String) (seqs : List MSeq) (durs : List Rat) :
    (durs ≠ [] → seqs.length ≠ durs.length → concatR R mm seqs durs = .error .valueError) ∧
    ∀ e, concatR R mm seqs durs = .error e → e = .valueError ∨ e = .quantizationStatusError := by
  constructor
  · intro hd hl
    have : (!durs.isEmpty) = true := by cases durs <;> simp at hd ⊢
    simp [concatR, this, hl]
  · intro e he
    unfold concatR at he
    simp only [] at he
    split at he
    · cases he; exact Or.inl rfl
    · have loopErr : ∀ (pairs : List (MSeq × Rat)) (u : Bool) (c : Rat) (cat : MSeq) (e : Err),
          catLoop R u c cat pairs = .error e → e = .valueError ∨ e = .quantizationStatusError := by
        intro pairs; induction pairs with
        | nil => intro u c cat e h; simp [catLoop] at h
        | cons p rest ih =>
          intro u c cat e h
          obtain ⟨s, d⟩ := p
          unfold catLoop at h
          split at h
          · cases h; exact Or.inl rfl
          · rw [place_eq] at h
            by_cases hq : 0 < c ∧ s.ns.isQuantized = true
            · rw [if_pos hq] at h; cases h; exact Or.inr rfl
            · rw [if_neg hq] at h; exact ih _ _ _ _ h
      split at he
      · rename_i e' hc; cases he; exact loopErr _ _ _ _ _ hc
      · cases he

def exM : MSeq := { ns := exSeq, composers := ["a"] }
example : (concatR id (fun _ => "-") [exM, exM] [3, 3]).toOption.map
      (fun r => (r.ns.notes.map (fun n => (n.start, n.end_)), r.ns.sectionAnns, r.ns.totalTime, r.composers)) =
    some ([(1, 2), (4, 5)], [⟨1, 0⟩, ⟨4, 0⟩], 5, ["a"]) ∧
    catOffs id [exM, exM] [3, 3] = [0, 3] ∧ catOffs id [exM, exM] [] = [0, 2] ∧
    errOf (concatR id (fun _ => "-") [exM, exM] [3, 1]) = some .valueError ∧
    errOf (concatR id (fun _ => "-") [exM, exM] [3]) = some .valueError ∧
    errOf (concatR id (fun _ => "-") [exM, { exM with ns := { exSeq with sps := 100 } }] []) = some .quantizationStatusError := by
  decide +kernel

/-! ## merge_sequences -/

/-- all notes and events of all sequences, times untouched, in order; tempos and signatures
de-duplicated; scalars by the `MergeFrom` rule; `total_time` is the longest `total_time` -/
theorem merge_spec (mm : List String → String) (seqs : List MSeq) :
    (mergeR mm seqs).ns.notes = seqs.flatMap (·.ns.notes) ∧
    (mergeR mm seqs).ns.texts = seqs.flatMap (·.ns.texts) ∧
    (mergeR mm seqs).ns.ccs = seqs.flatMap (·.ns.ccs) ∧
    (mergeR mm seqs).ns.bends = seqs.flatMap (·.ns.bends) ∧
    (mergeR mm seqs).ns.sectionAnns = seqs.flatMap (·.ns.sectionAnns) ∧
    (mergeR mm seqs).ns.tempos = redTempos (seqs.flatMap (·.ns.tempos)) ∧
    (mergeR mm seqs).ns.timeSigs = redTimeSigs (seqs.flatMap (·.ns.timeSigs)) ∧
    (mergeR mm seqs).ns.keySigs = redKeySigs (seqs.flatMap (·.ns.keySigs)) ∧
    (mergeR mm seqs).ns.tpq = lastNZ 0 (seqs.map (·.ns.tpq)) ∧
    (mergeR mm seqs).ns.hasSub = false ∧
    (seqs = [] → (mergeR mm seqs).ns.totalTime = 0) ∧
    (∀ s ∈ seqs, s.ns.totalTime ≤ (mergeR mm seqs).ns.totalTime) ∧
    (seqs ≠ [] → ∃ s ∈ seqs, (mergeR mm seqs).ns.totalTime = s.ns.totalTime) := by
  obtain ⟨h1, h2, h3, h4, h5, h6, h7, h8, h9, h10, h11⟩ := foldl_merge_lists seqs emptyM
  obtain ⟨s1, s2, _, _⟩ := foldl_merge_scalars seqs emptyM
  cases seqs with
  | nil => simp [mergeR, finishCat, removeRedundant, emptyM, lastNZ, redTempos, redTimeSigs, redKeySigs, dropRepeats, sortByRat]
  | cons s r =>
    obtain ⟨m1, m2, m3⟩ := ratMax_is_max (r.map (·.ns.totalTime)) s.ns.totalTime
    have ht : (mergeR mm (s :: r)).ns.totalTime = ratMax s.ns.totalTime (r.map (·.ns.totalTime)) := rfl
    refine ⟨?_, ?_, ?_, ?_, ?_, ?_, ?_, ?_, ?_, rfl, by simp, ?_, ?_⟩
    · simpa [mergeR, finishCat, removeRedundant, emptyM] using h1
    · simpa [mergeR, finishCat, removeRedundant, emptyM] using h5
    · simpa [mergeR, finishCat, removeRedundant, emptyM] using h6
    · simpa [mergeR, finishCat, removeRedundant, emptyM] using h7
    · simpa [mergeR, finishCat, removeRedundant, emptyM] using h8
    · simp only [mergeR, finishCat, removeRedundant]; rw [h2]; simp [emptyM]
    · simp only [mergeR, finishCat, removeRedundant]; rw [h3]; simp [emptyM]
    · simp only [mergeR, finishCat, removeRedundant]; rw [h4]; simp [emptyM]
    · simp only [mergeR, finishCat, removeRedundant]; rw [s2]; simp [emptyM]
    · intro x hx
      rw [ht]
      rcases mem_cons.mp hx with rfl | hx
      · exact m1
      · exact m2 _ (mem_map.mpr ⟨x, hx, rfl⟩)
    · intro _
      rw [ht]
      rcases m3 with m3 | m3
      · exact ⟨s, by simp, m3⟩
      · obtain ⟨x, hx, hxe⟩ := mem_map.mp m3
        exact ⟨x, by simp [hx], hxe.symm⟩

example : (mergeR (fun _ => "-") [exM, { exM with ns := { exSeq with totalTime := 1 } }]).ns.notes.length = 2 ∧
    (mergeR (fun _ => "-") [exM, { exM with ns := { exSeq with totalTime := 1 } }]).ns.totalTime = 2 := by decide +kernel

/-! ## adjust_notesequence_times (any time map `f`) -/

/-- a note is dropped iff `f start = f end` and there is no `minimum_duration` -/
theorem adjust_drop_iff (f R : Rat → Rat) (md : Rat) (n : Note) :
    adjNote f R md n = none ↔ (f n.start = f n.end_ ∧ md = 0) := by
  unfold adjNote; split <;> simp_all

/-- the call returns iff no kept note is reversed or starts/ends before zero and no event (control
change, bend, signature, text or section annotation) is mapped before zero; then the kept notes are
`(f start, f end)` in storage order, every event time is `f time`, tempos are deleted,
`total_time` is the largest kept end, `skipped_notes` counts the collapsed notes, and nothing else changes -/
theorem adjust_ok_iff (f R : Rat → Rat) (md : Rat) (s r : NoteSeq) (k : Nat) :
    adjustR f R md s = .ok (r, k) ↔
      (∀ n ∈ s.notes, ¬ adjBad f R md n) ∧ (∀ t ∈ adjustedTimes s, ¬ f t < 0) ∧
      r = adjusted f R md s ∧ k = s.notes.countP (fun n => (adjNote f R md n).isNone) := by
  unfold adjustR
  cases hn : adjNotes f R md s.notes 0 0 with
  | error e =>
    simp only [reduceCtorEq, false_iff]
    rintro ⟨hb, _⟩
    have := (adjNotes_ok_iff f R md s.notes 0 0 _ _ _).mpr ⟨hb, rfl, rfl, rfl⟩
    rw [hn] at this; cases this
  | ok v =>
    obtain ⟨notes, tot, sk⟩ := v
    obtain ⟨hb, hnotes, htot, hsk⟩ := (adjNotes_ok_iff f R md s.notes 0 0 notes tot sk).mp hn
    simp only []
    have hct : chainTimes Gen.adjustEventFields { s with notes := notes, totalTime := tot } = adjustedTimes s := by
      simp [chainTimes, kindTimes, Gen.adjustEventFields, adjustedTimes]
    rw [hct]
    by_cases hneg : (adjustedTimes s).any (fun t => decide (f t < 0)) = true
    · rw [if_pos hneg]
      simp only [reduceCtorEq, false_iff]
      rintro ⟨_, he, _⟩
      obtain ⟨t, ht, hlt⟩ := any_eq_true.mp hneg
      exact he t ht (by simpa using hlt)
    · rw [if_neg hneg]
      have he : ∀ t ∈ adjustedTimes s, ¬ f t < 0 := by
        intro t ht hlt
        exact hneg (any_eq_true.mpr ⟨t, ht, by simpa using hlt⟩)
      have hres : { mapEv Gen.adjustEventFields f { s with notes := notes, totalTime := tot } with tempos := [] } =
          adjusted f R md s := by
        subst hnotes htot
        simp [mapEv, Gen.adjustEventFields, adjusted]
      rw [hres]
      simp only [Except.ok.injEq, Prod.mk.injEq]
      constructor
      · rintro ⟨h1, h2⟩; exact ⟨hb, he, h1.symm, by omega⟩
      · rintro ⟨_, _, h1, h2⟩; exact ⟨h1.symm, by omega⟩

/-- `InvalidTimeAdjustmentError` iff some kept note has `f end < f start` or a mapped time `< 0`,
or some event is mapped before zero; no other error exists -/
theorem adjust_error_iff (f R : Rat → Rat) (md : Rat) (s : NoteSeq) (e : Err) :
    adjustR f R md s = .error e ↔
      e = .invalidTimeAdjustmentError ∧ ((∃ n ∈ s.notes, adjBad f R md n) ∨ ∃ t ∈ adjustedTimes s, f t < 0) := by
  constructor
  · intro h
    have he : e = .invalidTimeAdjustmentError := by
      unfold adjustR at h
      cases hn : adjNotes f R md s.notes 0 0 with
      | error e' => rw [hn] at h; cases h; exact adjNotes_error f R md _ _ _ _ hn
      | ok v =>
        rw [hn] at h
        obtain ⟨notes, tot, sk⟩ := v
        simp only [] at h
        split at h
        · cases h; rfl
        · cases h
    refine ⟨he, ?_⟩
    apply Classical.byContradiction
    intro hcon
    have h1 : ∀ n ∈ s.notes, ¬ adjBad f R md n := fun n hn hb => hcon (Or.inl ⟨n, hn, hb⟩)
    have h2 : ∀ t ∈ adjustedTimes s, ¬ f t < 0 := fun t ht hlt => hcon (Or.inr ⟨t, ht, hlt⟩)
    have := (adjust_ok_iff f R md s _ _).mpr ⟨h1, h2, rfl, rfl⟩
    rw [h] at this; cases this
  · rintro ⟨he, hor⟩
    cases hr : adjustR f R md s with
    | error e' =>
      have : e' = .invalidTimeAdjustmentError := by
        unfold adjustR at hr
        cases hn : adjNotes f R md s.notes 0 0 with
        | error e'' => rw [hn] at hr; cases hr; exact adjNotes_error f R md _ _ _ _ hn
        | ok v =>
          rw [hn] at hr
          obtain ⟨notes, tot, sk⟩ := v
          simp only [] at hr
          split at hr
          · cases hr; rfl
          · cases hr
      rw [he, this]
    | ok v =>
      obtain ⟨r, k⟩ := v
      obtain ⟨h1, h2, _, _⟩ := (adjust_ok_iff f R md s r k).mp hr
      rcases hor with ⟨n, hn, hb⟩ | ⟨t, ht, hlt⟩
      · exact absurd hb (h1 n hn)
      · exact absurd hlt (h2 t ht)

/-- `total_time` of the result is the largest kept note end (0 when no note is kept or all ends are negative…
which cannot happen in a returned result) -/
theorem adjust_total_is_max (f R : Rat → Rat) (md : Rat) (s : NoteSeq) :
    (∀ n ∈ (adjusted f R md s).notes, n.end_ ≤ (adjusted f R md s).totalTime) ∧
    ((adjusted f R md s).totalTime = 0 ∨ ∃ n ∈ (adjusted f R md s).notes, (adjusted f R md s).totalTime = n.end_) :=
  ⟨(maxEnd_is_max _ 0).2.1, (maxEnd_is_max _ 0).2.2⟩

example : (adjustR (fun t => 2 * t) id 0 exSeq).toOption.map
      (fun rk => (rk.1.notes.map (fun n => (n.start, n.end_)), rk.1.sectionAnns, rk.1.tempos, rk.1.totalTime, rk.2)) =
    some ([(2, 4)], [⟨2, 0⟩], [], 4, 0) ∧
    (adjustR (fun _ => 1) id 0 exSeq).toOption.map (fun rk => (rk.1.notes, rk.2)) = some ([], 1) ∧
    errOf (adjustR (fun t => 2 - t) id 0 exSeq) = some .invalidTimeAdjustmentError ∧
    errOf (adjustR (fun t => t - 1) id 0 exSeq) = some .invalidTimeAdjustmentError := by decide +kernel

/-! ## np.interp, transcribed -/

/-- every knot is mapped to its ordinate exactly — no arithmetic, any rounding `R` -/
theorem interp_knots (R : Rat → Rat) (p : Rat × Rat) (rest : List (Rat × Rat)) (left right : Rat)
    (h : XInc p rest) (k : Rat × Rat) (hk : k ∈ p :: rest) : interpR R p rest left right k.1 = k.2 :=
  interpR_knot R p rest left right h k hk

/-- left and right of the knots the result is `left` / `right` -/
theorem interp_clamps (R : Rat → Rat) (p : Rat × Rat) (rest : List (Rat × Rat)) (left right x : Rat) (h : XInc p rest) :
    (x < p.1 → interpR R p rest left right x = left) ∧ (lastX p rest < x → interpR R p rest left right x = right) := by
  have hpl : p.1 ≤ lastX p rest := xinc_le_last p rest h p (by simp)
  constructor
  · intro hx
    have : ¬ lastX p rest < x := by grind
    simp [interpR, this, hx]
  · intro hx; simp [interpR, hx]

/-- in exact arithmetic, for strictly increasing `xp` and non-decreasing `fp`, the interpolation is
monotone on the whole line whenever the clamps continue it monotonically (`rectify_beats`: `left = 0 = fp₀`) -/
theorem interp_monotone (p : Rat × Rat) (rest : List (Rat × Rat)) (left right x y : Rat) (h : KnotsOK p rest)
    (hl : left ≤ p.2) (hr : lastY p rest ≤ right) (hxy : x ≤ y) :
    interpR id p rest left right x ≤ interpR id p rest left right y :=
  interpR_mono p rest left right x y h hl hr hxy

/-- inside the knots the exact interpolation stays between the first and the last ordinate -/
theorem interp_range (p : Rat × Rat) (rest : List (Rat × Rat)) (left right x : Rat) (h : KnotsOK p rest)
    (h1 : p.1 ≤ x) (h2 : x ≤ lastX p rest) :
    p.2 ≤ interpR id p rest left right x ∧ interpR id p rest left right x ≤ lastY p rest := by
  have a : ¬ lastX p rest < x := by grind
  have b : ¬ x < p.1 := by grind
  simp only [interpR, a, b, if_false]
  exact interpGo_bounds rest p x h h1

/-- the divisor of the slope is positive wherever the formula divides (`p.1 ≤ x < q.1`) -/
theorem interp_divisor_pos (p q : Rat × Rat) (x : Rat) (hx : p.1 ≤ x) (hq : ¬ q.1 ≤ x) : 0 < q.1 - p.1 := by
  grind

example : KnotsOK (0, 0) [(1, 1 / 2), (3, 1)] ∧ interpR id (0, 0) [(1, 1 / 2), (3, 1)] 0 9 2 = 3 / 4 ∧
    interpR id (0, 0) [(1, 1 / 2), (3, 1)] 0 9 4 = 9 :=
  ⟨⟨by decide +kernel, by decide +kernel, by decide +kernel, by decide +kernel, trivial⟩,
   by decide +kernel, by decide +kernel⟩

/-! ## rectify_beats -/

/-- `RectifyBeatsError` iff the sequence is unquantized and has no beat annotation at or before `total_time` -/
theorem rectify_no_beats_iff (R : Rat → Rat) (bpm : Rat) (s : NoteSeq) :
    rectifyR R bpm s = .error .rectifyBeatsError ↔ s.isQuantized = false ∧ beatTimes s = [] := by
  unfold rectifyR
  by_cases hq : s.isQuantized
  · simp [hq]
  · simp only [hq, Bool.false_eq_true, if_false, Bool.not_eq_true, true_and]
    by_cases hb : beatTimes s = []
    · simp [hb]
    · have hb' : (beatTimes s).isEmpty = false := by cases h : beatTimes s <;> simp_all
      simp only [hb', Bool.false_eq_true, if_false, hb, iff_false]
      by_cases h0 : bpm = 0
      · simp [h0]
      · simp only [h0, if_false]
        split
        · simp
        · rename_i p rest _
          cases ha : adjustR (interpR R p rest 0 s.totalTime) R 0 s with
          | error e =>
            have := ((adjust_error_iff _ R 0 s e).mp ha).1
            simp [this]
          | ok v => simp

theorem rectify_quantized (R : Rat → Rat) (bpm : Rat) (s : NoteSeq) (hq : s.isQuantized = true) :
    rectifyR R bpm s = .error .quantizationStatusError := by simp [rectifyR, hq]

/-- otherwise the result is `adjust_notesequence_times` with the interpolation through the beat
knots (clamped to `0` on the left and to the old `total_time` on the right), time signatures
deleted and the single tempo `bpm`; the alignment rows are the knots -/
theorem rectify_spec (R : Rat → Rat) (bpm : Rat) (s : NoteSeq) (hq : s.isQuantized = false)
    (hb : beatTimes s ≠ []) (h0 : bpm ≠ 0) :
    ∃ p rest, beatKnots R bpm s = p :: rest ∧
      rectifyR R bpm s =
        match adjustR (interpR R p rest 0 s.totalTime) R 0 s with
        | .error e => .error e
        | .ok (r, _) => .ok ({ r with timeSigs := [], tempos := [⟨0, bpm⟩] }, p :: rest) := by
  have hb' : (beatTimes s).isEmpty = false := by cases h : beatTimes s <;> simp_all
  have hk : beatKnots R bpm s ≠ [] := by
    simp [beatKnots, uniqBeats, rectTimes, range_succ_eq_map]
  cases hkn : beatKnots R bpm s with
  | nil => exact absurd hkn hk
  | cons p rest =>
    refine ⟨p, rest, rfl, ?_⟩
    unfold rectifyR
    simp only [hq, Bool.false_eq_true, if_false, hb', h0]
    have : (uniqBeats ([0] ++ sortByRat id (beatTimes s) ++ [s.totalTime])).zip
        (rectTimes R (R (60 / bpm)) (uniqBeats ([0] ++ sortByRat id (beatTimes s) ++ [s.totalTime])).length) = p :: rest := hkn
    simp only [this]
    cases ha : adjustR (interpR R p rest 0 s.totalTime) R 0 s with
    | error e => rfl
    | ok v =>
      obtain ⟨r, k⟩ := v
      have ht : r.tempos = [] := by
        obtain ⟨_, _, hr, _⟩ := (adjust_ok_iff _ R 0 s r k).mp ha
        rw [hr]; rfl
      simp [ht]

/-- the knots: abscissae are exactly 0, the beats at or before `total_time`, and `total_time`,
strictly increasing; the `k`-th ordinate is `R (R (60 / bpm) * k)`; and the time map sends every
knot abscissa (every such beat, in particular) exactly onto its ordinate -/
theorem rectify_beats_land (R : Rat → Rat) (bpm : Rat) (s : NoteSeq) (hpos : ∀ b ∈ beatTimes s, 0 ≤ b)
    (htt : 0 ≤ s.totalTime) (p : Rat × Rat) (rest : List (Rat × Rat)) (hk : beatKnots R bpm s = p :: rest) :
    ((p :: rest).map (·.1)).Pairwise (· < ·) ∧
    (∀ x, x ∈ (p :: rest).map (·.1) ↔ x = 0 ∨ x ∈ beatTimes s ∨ x = s.totalTime) ∧
    (∀ i (hi : i < (p :: rest).length), ((p :: rest)[i]).2 = R (R (60 / bpm) * ((i : Int) : Rat))) ∧
    (∀ k ∈ p :: rest, interpR R p rest 0 s.totalTime k.1 = k.2) := by
  have hle : ∀ b ∈ beatTimes s, b ≤ s.totalTime := by
    intro b hb
    simp only [beatTimes, mem_map, mem_filter, Bool.and_eq_true, decide_eq_true_eq] at hb
    obtain ⟨a, ⟨_, _, h⟩, rfl⟩ := hb; exact h
  have hmemS : ∀ x, x ∈ sortByRat id (beatTimes s) ↔ x ∈ beatTimes s := by
    intro x; unfold sortByRat; exact mem_mergeSort
  have hsorted : ([0] ++ sortByRat id (beatTimes s) ++ [s.totalTime]).Pairwise (· ≤ ·) := by
    have hs : (sortByRat id (beatTimes s)).Pairwise (· ≤ ·) := sortByRat_pairwise id (beatTimes s)
    have h1 : ([0] ++ sortByRat id (beatTimes s)).Pairwise (· ≤ ·) := by
      rw [pairwise_append]
      refine ⟨pairwise_singleton _ _, hs, fun a ha b hb => ?_⟩
      rw [mem_singleton.mp ha]; exact hpos b ((hmemS b).mp hb)
    rw [pairwise_append]
    refine ⟨h1, pairwise_singleton _ _, fun a ha b hb => ?_⟩
    rw [mem_singleton.mp hb]
    rcases mem_append.mp ha with ha | ha
    · rw [mem_singleton.mp ha]; exact htt
    · exact hle a ((hmemS a).mp ha)
  obtain ⟨hmem, hstrict⟩ := uniqBeats_facts _ hsorted
  have hfst : (p :: rest).map (·.1) = uniqBeats ([0] ++ sortByRat id (beatTimes s) ++ [s.totalTime]) := by
    rw [← hk, beatKnots]
    apply map_fst_zip
    simp [rectTimes]
  refine ⟨by rw [hfst]; exact hstrict, ?_, ?_, ?_⟩
  · intro x
    rw [hfst, hmem x]
    simp only [mem_append, mem_singleton, hmemS]
    grind
  · intro i hi
    have : (beatKnots R bpm s)[i]'(by rw [hk]; exact hi) = (p :: rest)[i] := by simp [hk]
    rw [← this]
    simp [beatKnots, rectTimes]
  · intro k hkm
    exact interpR_knot R p rest 0 s.totalTime (xinc_of_pairwise p rest (by rw [hfst]; exact hstrict)) k hkm

example : exSeq.isQuantized = false ∧ beatTimes exSeq = [0, 1, 2] ∧ (∀ b ∈ beatTimes exSeq, 0 ≤ b) := by
  decide +kernel
example : beatKnots id 30 exSeq = [(0, 0), (1, 2), (2, 4)] := by
  have hs : sortByRat id (beatTimes exSeq) = beatTimes exSeq := sortByRat_of_pairwise _ _ (by decide +kernel)
  unfold beatKnots; rw [hs]; decide +kernel

/-! ## expand_section_groups -/

/-- without section groups the sequence is returned unchanged -/
theorem expand_no_groups (R : Rat → Rat) (extract : NoteSeq → Rat → Rat → Except Err NoteSeq)
    (mm : List String → String) (m : MSeq) (h : m.ns.sgroups = []) : expandR R extract mm m = .ok m := by
  simp [expandR, h, parseGroups, pGroups]

/-- `sections_in_group`: a section id plays once, a group plays the concatenation of its members
`num_times` times (not at all for `num_times ≤ 0`) -/
theorem sections_in_group (i : Int) (ss : List Sec) (s : Sec) (k : Int) :
    (Sec.id i).flat = [i] ∧ (Sec.group ss k).flat = (List.replicate k.toNat (flatList ss)).flatten ∧
    flatList [] = [] ∧ flatList (s :: ss) = s.flat ++ flatList ss ∧
    ((Sec.group ss k).flat).length = k.toNat * (flatList ss).length := by
  refine ⟨by simp [Sec.flat], by simp [Sec.flat, repeatList], by simp [flatList], by simp [flatList], ?_⟩
  simp [Sec.flat, repeatList]

/-- with section groups: the sections named by the annotations are cut out with
`extract_subsequence` (annotation `i` spans up to annotation `i+1`, the last one to `total_time`),
and the result is the concatenation of the sections in the flattened group order, each with its
span length `R (end - start)` as explicit duration -/
theorem expand_spec (R : Rat → Rat) (extract : NoteSeq → Rat → Rat → Except Err NoteSeq)
    (mm : List String → String) (m : MSeq) (g : Sec) (gs : List Sec) (hp : parseGroups m.ns.sgroups = some (g :: gs))
    (tab : List (Int × MSeq × Rat)) (hb : buildSections R extract m (sectionSpans m.ns.totalTime m.ns.sectionAnns) [] = .ok tab)
    (l : List (MSeq × Rat)) (hl : lookupSections tab ((g :: gs).flatMap Sec.flat) = .ok l) :
    expandR R extract mm m = concatR R mm (l.map (·.1)) (l.map (·.2)) := by
  simp only [expandR, hp, hb, hl]

/-- the section table: one entry per annotation, in reverse storage order (so that a lookup sees
the *last* annotation with a given id, as the Python dict does); entry `i` is the extracted span
with section groups removed and the single annotation `(0, id)`, and carries `R (end - start)` -/
theorem expand_sections (R : Rat → Rat) (extract : NoteSeq → Rat → Rat → Except Err NoteSeq) (m : MSeq) :
    ∀ (spans : List (Int × Rat × Rat)) (acc tab : List (Int × MSeq × Rat)),
      buildSections R extract m spans acc = .ok tab →
      ∃ subs : List NoteSeq, subs.length = spans.length ∧
        (∀ p ∈ spans.zip subs, extract m.ns p.1.2.1 p.1.2.2 = .ok p.2) ∧
        tab = ((spans.zip subs).map (fun p =>
          (p.1.1, { m with ns := { p.2 with sgroups := [], sectionAnns := [⟨0, p.1.1⟩] } }, R (p.1.2.2 - p.1.2.1)))).reverse ++ acc
  | [], acc, tab, h => by
    simp only [buildSections, Except.ok.injEq] at h
    exact ⟨[], rfl, by simp, by simp [h]⟩
  | (sid, st, en) :: r, acc, tab, h => by
    unfold buildSections at h
    cases he : extract m.ns st en with
    | error e => rw [he] at h; cases h
    | ok sub =>
      rw [he] at h
      obtain ⟨subs, hlen, hex, htab⟩ := expand_sections R extract m r _ tab h
      refine ⟨sub :: subs, by simp [hlen], ?_, ?_⟩
      · intro p hp
        simp only [zip_cons_cons, mem_cons] at hp
        rcases hp with rfl | hp
        · exact he
        · exact hex p hp
      · rw [htab]; simp

/-- the spans tile the annotated part of the sequence: consecutive annotations share a boundary and
the last span ends at `total_time` -/
theorem expand_spans (tt : Rat) (a b : SectionAnn) (r : List SectionAnn) :
    sectionSpans tt [] = [] ∧ sectionSpans tt [a] = [(a.sectionId, a.time, tt)] ∧
    sectionSpans tt (a :: b :: r) = (a.sectionId, a.time, b.time) :: sectionSpans tt (b :: r) ∧
    (sectionSpans tt (a :: r)).length = (a :: r).length := by
  refine ⟨rfl, rfl, rfl, ?_⟩
  induction r generalizing a with
  | nil => rfl
  | cons c r ih => simp [sectionSpans, ih c]

/-- every looked-up entry is the first table entry with that id; an id without annotation is a `KeyError` -/
theorem expand_lookup (tab : List (Int × MSeq × Rat)) : ∀ (ids : List Int),
    (∀ l, lookupSections tab ids = .ok l →
      l.map some = ids.map (fun i => (tab.find? (fun e => e.1 == i)).map (·.2))) ∧
    ((∃ i ∈ ids, tab.find? (fun e => e.1 == i) = none) → lookupSections tab ids = .error (.other "KeyError"))
  | [] => by simp [lookupSections]
  | i :: r => by
    obtain ⟨ih1, ih2⟩ := expand_lookup tab r
    unfold lookupSections
    cases hf : tab.find? (fun e => e.1 == i) with
    | none => simp
    | some e =>
      cases hr : lookupSections tab r with
      | error e' =>
        constructor
        · intro l h; cases h
        · rintro ⟨j, hj, hn⟩
          simp only [mem_cons] at hj
          rcases hj with rfl | hj
          · rw [hf] at hn; cases hn
          · have := ih2 ⟨j, hj, hn⟩; rw [hr] at this; cases this; rfl
      | ok l' =>
        constructor
        · intro l h
          simp only [Except.ok.injEq] at h
          subst h
          simp [ih1 l' hr, hf]
        · rintro ⟨j, hj, hn⟩
          simp only [mem_cons] at hj
          rcases hj with rfl | hj
          · rw [hf] at hn; cases hn
          · have := ih2 ⟨j, hj, hn⟩; rw [hr] at this; cases this

example : (parseGroups ["G", "2", "S", "0", "G", "1", "S", "1", "2", "2"]).map (fun gs => gs.flatMap Sec.flat) =
      some [0, 1, 1, 0, 1, 1] ∧
    (Sec.group [Sec.id 0, Sec.group [Sec.id 1] 2] 2).flat = [0, 1, 1, 0, 1, 1] ∧
    sectionSpans 5 [⟨0, 7⟩, ⟨2, 8⟩] = [(7, 0, 2), (8, 2, 5)] := by decide +kernel

/-! ## repeat_sequence_to_duration -/

/-- `repeat s D = extract (concat (replicate ⌈D/d⌉ s) (replicate ⌈D/d⌉ d)) 0 D` with
`subsequence_info` cleared, where `d` is the explicit `sequence_duration` or `total_time`
(`d = 0 → ZeroDivisionError`); `extract` = property C02's model of `extract_subsequence` -/
theorem repeat_spec (R : Rat → Rat) (mm : List String → String) (m : MSeq) (dur sd : Rat) :
    repeatFullR R mm m dur sd =
      (let d := if sd = 0 then m.ns.totalTime else sd
       if d = 0 then .error (.other "ZeroDivisionError")
       else
         match concatR R mm (List.replicate (R (dur / d)).ceil.toNat m) (List.replicate (R (dur / d)).ceil.toNat d) with
         | .error e => .error e
         | .ok r =>
           match NSV.C02.extractSubsequenceR R NSV.C02.Gen.PRESERVE r.ns 0 dur with
           | .error e => .error e
           | .ok t => .ok { r with ns := { t with hasSub := false, subStart := 0, subEnd := 0 } }) := by
  unfold repeatFullR repeatR repeatConcatR extractC02
  simp only []
  by_cases hd : (if sd = 0 then m.ns.totalTime else sd) = 0
  · rw [if_pos hd, if_pos hd]
  · rw [if_neg hd, if_neg hd]
    cases concatR R mm (List.replicate (R (dur / (if sd = 0 then m.ns.totalTime else sd))).ceil.toNat m)
      (List.replicate (R (dur / (if sd = 0 then m.ns.totalTime else sd))).ceil.toNat (if sd = 0 then m.ns.totalTime else sd)) <;> rfl

/-- "enough copies": in exact arithmetic, for positive lengths, the number of copies `n = ⌈D/d⌉`
is the least with `D ≤ n·d` -/
theorem repeat_count_exact (dur d : Rat) (hd : 0 < d) (hD : 0 < dur) :
    1 ≤ (dur / d).ceil ∧ dur ≤ ((dur / d).ceil : Rat) * d ∧ (((dur / d).ceil : Rat) - 1) * d < dur ∧
    (((dur / d).ceil.toNat : Int) = (dur / d).ceil) := by
  have hne : d ≠ 0 := by grind
  have hq : 0 < dur / d := by rw [Rat.div_def]; exact Rat.mul_pos hD (Rat.inv_pos.mpr hd)
  have h1 : dur / d ≤ ((dur / d).ceil : Rat) := Rat.le_ceil
  have h2 : ((dur / d).ceil : Rat) < dur / d + 1 := Rat.ceil_lt
  have hc : (0 : Int) < (dur / d).ceil := by
    have : ((0 : Int) : Rat) < dur / d := by simpa using hq
    exact Rat.lt_ceil_iff.mpr this
  have hm : dur / d * d = dur := Rat.div_mul_cancel hne
  have h3 := Rat.mul_le_mul_of_nonneg_right h1 (Rat.le_of_lt hd)
  have h4 : (((dur / d).ceil : Rat) - 1) < dur / d := by grind
  have h5 := (Rat.lt_div_iff hd).mp h4
  refine ⟨by omega, by grind, h5, by omega⟩

/-- the repeated sequence before the cut: copy `k` of every note sits at `k·d` (exact arithmetic,
explicit positive duration ≥ `total_time`) — with `concat_spec` this is the "concatenation of enough copies" -/
theorem repeat_offsets_exact (m : MSeq) (n : Nat) (d : Rat) (hn : 0 < n) :
    catOffs id (List.replicate n m) (List.replicate n d) = prefixSums 0 (List.replicate n d) :=
  concat_offsets_exact_durations _ _ (by cases n <;> simp_all [replicate_succ]) (by simp)

/-- full statement of the corollary that still needs C02's closed form of `extract_subsequence`
(`extract_notes_spec`): the notes of the result are the cyclic copies cut at `D` -/
def RepeatCyclicCopies : Prop :=
  ∀ (mm : List String → String) (m : MSeq) (dur : Rat) (r : MSeq),
    0 < m.ns.totalTime → 0 < dur → m.ns.isQuantized = false →
    repeatFullR id mm m dur 0 = .ok r →
    ∃ n : Nat, ((n : Int) : Rat) * m.ns.totalTime < dur + m.ns.totalTime ∧ dur ≤ ((n : Int) : Rat) * m.ns.totalTime ∧
      r.ns.notes.Perm
        (((List.range n).flatMap (fun (k : Nat) => m.ns.notes.map (fun nt =>
            { nt with start := nt.start + ((k : Int) : Rat) * m.ns.totalTime,
                      end_ := nt.end_ + ((k : Int) : Rat) * m.ns.totalTime }))).filterMap
          (fun nt => if nt.start < dur then some { nt with end_ := if dur < nt.end_ then dur else nt.end_ } else none))

example : (0 : Rat) < 2 ∧ (0 : Rat) < 5 ∧ ((5 : Rat) / 2).ceil = 3 ∧
    (repeatConcatR id (fun _ => "-") exM 5 0).toOption.map
        (fun r => (r.1.ns.notes.map (fun n => (n.start, n.end_)), r.2)) =
      some ([(1, 2), (3, 4), (5, 6)], 0, 5) ∧
    errOf (repeatConcatR id (fun _ => "-") exM 5 1) = some .valueError ∧
    errOf (repeatConcatR id (fun _ => "-") { exM with ns := { exSeq with totalTime := 0 } } 5 0) =
      some (.other "ZeroDivisionError") := by decide +kernel

end NSV.C13
