import NoteSeqVerif.Props.C01
import NoteSeqVerif.Proofs.RoundingApps
/-! C01 — the float half: what the theorems of `Props/C01.lean` give for the arithmetic the
Python actually performs (`R = rne53`, IEEE-754 binary64 round-to-nearest-even, proved to be a
`Rounding` in `Proofs/Rounding.lean`). -/
namespace NSV.C01
open NSV

/-- "nearest step" for doubles: away from a window of relative width 2^-51 around the half-step
boundaries the float computation returns exactly the real-number answer `⌊t·s + 1/2⌋` … -/
theorem qstep_float_nearest (t s : ℚ) (h0 : 0 ≤ t * s) (hlt : t * s < 2 ^ 52)
    (hfar : ∀ n : ℤ, (t * s + 1) / 2 ^ 51 < |t * s - ((n : ℚ) + 1 / 2)|) :
    qstepR rne53 (1 / 2) t s = ⌊t * s + 1 / 2⌋ :=
  qstep_float rounding_rne53 t s h0 hlt hfar

/-- … and inside the window (times "within a few ulps of a half-step boundary") it is off by at
most one step -/
theorem qstep_float_within_one (t s : ℚ) (hx : |t * s| < 2 ^ 52) :
    |qstepR rne53 (1 / 2) t s - ⌊t * s + 1 / 2⌋| ≤ 1 :=
  qstep_near rounding_rne53 t s hx

/-- step assignment by the float computation is monotone in time -/
theorem qstep_float_mono (c t₁ t₂ s : ℚ) (hs : 0 ≤ s) (h : t₁ ≤ t₂) :
    qstepR rne53 c t₁ s ≤ qstepR rne53 c t₂ s :=
  qstep_mono rne53 (fun _ _ hab => rne53_mono hab) c t₁ t₂ s hs h

/-- hence every note quantized by the float computation is at least one step long -/
theorem quantize_min_len_float (c sps : ℚ) (hs : 0 ≤ sps) (s r : NoteSeq)
    (hwf : ∀ n ∈ s.notes, n.start ≤ n.end_)
    (h : quantizeNotes (fun t => qstepR rne53 c t sps) s = .ok r) :
    ∀ n ∈ r.notes, n.qs + 1 ≤ n.qe :=
  quantize_min_len _ (fun a b hab => qstep_float_mono c a b sps hs hab) s r hwf h

/-- the steps-per-second value derived from a positive tempo is non-negative, so the two
theorems above apply to tempo-relative quantization as the code performs it -/
theorem sps_float_nonneg (spq : Int) (qpm : ℚ) (h1 : 0 ≤ spq) (h2 : 0 ≤ qpm) : 0 ≤ spsR rne53 spq qpm := by
  unfold spsR
  have hm : (0 : ℚ) ≤ (spq : ℚ) * qpm := mul_nonneg (by exact_mod_cast h1) h2
  have h3 : 0 ≤ rne53 ((spq : ℚ) * qpm) := by
    have := rne53_mono hm; rwa [rounding_rne53.zero] at this
  have h4 : (0 : ℚ) ≤ rne53 ((spq : ℚ) * qpm) / 60 := div_nonneg h3 (by norm_num)
  have := rne53_mono h4
  rwa [rounding_rne53.zero] at this

/-- exact half-step ties round UP also in the float computation: when the real product `t·s` is exactly
`k + 1/2` (0 ≤ k < 2^51) the product, the sum with 0.5 and the truncation are all exact, so
`quantize_to_step` returns `k + 1` — no tolerance window applies to a tie the doubles hit exactly -/
theorem qstep_float_tie_up (t s : ℚ) (k : ℤ) (h0 : 0 ≤ k) (hlt : k < 2 ^ 51)
    (htie : t * s = (k : ℚ) + 1 / 2) :
    qstepR rne53 (1 / 2) t s = k + 1 := by
  have hR := rounding_rne53
  have hk : (2 * k + 1).natAbs ≤ 2 ^ 53 := by omega
  have h1 : rne53 (t * s) = (k : ℚ) + 1 / 2 := by
    have := hR.exact_half_int (by norm_num) (2 * k + 1) hk
    rw [htie]
    have e : (k : ℚ) + 1 / 2 = ((2 * k + 1 : ℤ) : ℚ) / 2 := by push_cast; ring
    rw [e]; exact this
  have h2 : rne53 (1 - 1 / 2 : ℚ) = 1 / 2 := by
    have : (1 - 1 / 2 : ℚ) = 1 / 2 := by norm_num
    rw [this]; exact hR.half (by norm_num)
  have h3 : rne53 (((k + 1 : ℤ) : ℚ)) = ((k + 1 : ℤ) : ℚ) :=
    hR.exact_int_le (by norm_num) (k + 1) (by omega)
  unfold qstepR
  rw [h1, h2]
  have e : (k : ℚ) + 1 / 2 + 1 / 2 = ((k + 1 : ℤ) : ℚ) := by push_cast; ring
  rw [e, h3]
  apply truncR_eq_of_floor
  · have : (0 : ℚ) ≤ ((k + 1 : ℤ) : ℚ) := by exact_mod_cast (by omega : (0 : ℤ) ≤ k + 1)
    exact this
  · exact le_refl _
  · linarith

example : qstepR rne53 (1 / 2) (1 / 2) 93 = 47 := by
  have := qstep_float_tie_up (1 / 2) 93 46 (by norm_num) (by norm_num) (by norm_num)
  simpa using this
end NSV.C01
