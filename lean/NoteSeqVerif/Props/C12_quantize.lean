import NoteSeqVerif.Proofs.C12
import NoteSeqVerif.Props.C01
/-! C12 — quantization does not depend on the storage order of any repeated field
(corollaries of the functional specifications proved for C01). -/
namespace NSV.C12
open NSV NSV.C01

theorem anyNeg_perm (q : Rat → Int) {s s' : NoteSeq} (h : NSPerm s s') : anyNeg q s ↔ anyNeg q s' := by
  unfold anyNeg
  constructor
  · rintro (⟨n, hn, hh⟩ | ⟨c, hc, hh⟩ | ⟨c, hc, hh⟩)
    · exact Or.inl ⟨n, h.notes.mem_iff.mp hn, hh⟩
    · exact Or.inr (Or.inl ⟨c, h.ccs.mem_iff.mp hc, hh⟩)
    · exact Or.inr (Or.inr ⟨c, h.texts.mem_iff.mp hc, hh⟩)
  · rintro (⟨n, hn, hh⟩ | ⟨c, hc, hh⟩ | ⟨c, hc, hh⟩)
    · exact Or.inl ⟨n, h.notes.mem_iff.mpr hn, hh⟩
    · exact Or.inr (Or.inl ⟨c, h.ccs.mem_iff.mpr hc, hh⟩)
    · exact Or.inr (Or.inr ⟨c, h.texts.mem_iff.mpr hc, hh⟩)

theorem quantized_perm (q : Rat → Int) {s s' : NoteSeq} (h : NSPerm s s') :
    NSPerm (quantized q s) (quantized q s') := by
  unfold quantized
  constructor <;> simp only []
  · exact h.notes.map _
  · exact h.tempos
  · exact h.timeSigs
  · exact h.keySigs
  · exact h.texts.map _
  · exact h.ccs.map _
  · exact h.bends
  · exact h.sectionAnns
  · exact h.sgroups
  · exact h.totalTime
  · rw [h.totalQSteps]; exact foldl_max_perm (h.notes.map _) _
  · exact h.spq
  · exact h.sps
  · exact h.hasSub
  · exact h.subStart
  · exact h.subEnd
  · exact h.tpq
  · exact h.metaTag

/-- `_quantize_notes` does not depend on storage order -/
theorem quantizeNotes_perm (q : Rat → Int) {s s' : NoteSeq} (h : NSPerm s s') :
    ResPerm (quantizeNotes q s) (quantizeNotes q s') := by
  rcases quantizeNotes_spec q s with ⟨hn, e⟩ | ⟨hn, e⟩ <;>
  rcases quantizeNotes_spec q s' with ⟨hn', e'⟩ | ⟨hn', e'⟩
  · rw [e, e']; rfl
  · exact absurd ((anyNeg_perm q h).mp hn) hn'
  · exact absurd ((anyNeg_perm q h).mpr hn') hn
  · rw [e, e']; exact quantized_perm q h

theorem quantizeAbs_perm (R : Rat → Rat) (c : Rat) (sps : Int) {s s' : NoteSeq} (h : NSPerm s s') :
    ResPerm (quantizeAbsR R c s sps) (quantizeAbsR R c s' sps) := by
  unfold quantizeAbsR
  apply quantizeNotes_perm
  constructor <;> simp only []
  · exact h.notes
  · exact h.tempos
  · exact h.timeSigs
  · exact h.keySigs
  · exact h.texts
  · exact h.ccs
  · exact h.bends
  · exact h.sectionAnns
  · exact h.sgroups
  · exact h.totalTime
  · rw [h.totalTime]
  · exact h.hasSub
  · exact h.subStart
  · exact h.subEnd
  · exact h.tpq
  · exact h.metaTag

theorem keptTimeSig_perm {s s' : NoteSeq} (h : NSPerm s s') (h1 : ¬ tsChange s.timeSigs) :
    keptTimeSig s = keptTimeSig s' := by
  unfold keptTimeSig
  have hp := h.timeSigs
  cases hl : s.timeSigs with
  | nil => rw [hl] at hp; rw [hp.symm.eq_nil]
  | cons a as =>
    cases hl' : s'.timeSigs with
    | nil => rw [hl, hl'] at hp; exact absurd hp.eq_nil (by simp)
    | cons b bs =>
      rw [hl, hl'] at hp
      have hb : b ∈ a :: as := hp.mem_iff.mpr (by simp)
      have : sameSig a b := by
        apply Classical.byContradiction
        intro hh
        rw [hl] at h1
        exact h1 ⟨a, by simp, b, hb, hh⟩
      unfold sameSig at this
      simp only []
      cases a; cases b; simp_all

theorem keptTempo_perm (dq : Rat) {s s' : NoteSeq} (h : NSPerm s s') (h1 : ¬ tpChange s.tempos) :
    keptTempo dq s = keptTempo dq s' := by
  unfold keptTempo
  have hp := h.tempos
  cases hl : s.tempos with
  | nil => rw [hl] at hp; rw [hp.symm.eq_nil]
  | cons a as =>
    cases hl' : s'.tempos with
    | nil => rw [hl, hl'] at hp; exact absurd hp.eq_nil (by simp)
    | cons b bs =>
      rw [hl, hl'] at hp
      have hb : b ∈ a :: as := hp.mem_iff.mpr (by simp)
      have : a.qpm = b.qpm := by
        apply Classical.byContradiction
        intro hh
        rw [hl] at h1
        exact h1 ⟨a, by simp, b, hb, hh⟩
      simp only []
      cases a; cases b; simp_all

/-- tempo-relative quantization does not depend on the storage order of any repeated field:
same rejection, or the same quantized sequence up to storage order -/
theorem quantizeRel_perm (R : Rat → Rat) (c dq : Rat) (spq : Int) {s s' : NoteSeq} (h : NSPerm s s') :
    ResPerm (quantizeRelR R c dq s spq) (quantizeRelR R c dq s' spq) := by
  by_cases h1 : tsChange s.timeSigs ∨ tsImplicit s.timeSigs
  · have h1' : tsChange s'.timeSigs ∨ tsImplicit s'.timeSigs := by
      rcases h1 with h1 | h1
      · exact Or.inl ((tsChange_perm h.timeSigs).mp h1)
      · exact Or.inr ((tsImplicit_perm h.timeSigs).mp h1)
    rw [quantizeRel_rejects_time_signature_change R c dq s spq h1,
        quantizeRel_rejects_time_signature_change R c dq s' spq h1']
    rfl
  · have h1a : ¬ tsChange s.timeSigs := fun hh => h1 (Or.inl hh)
    have h1b : ¬ tsImplicit s.timeSigs := fun hh => h1 (Or.inr hh)
    have h1a' : ¬ tsChange s'.timeSigs := fun hh => h1a ((tsChange_perm h.timeSigs).mpr hh)
    have h1b' : ¬ tsImplicit s'.timeSigs := fun hh => h1b ((tsImplicit_perm h.timeSigs).mpr hh)
    have hk := keptTimeSig_perm h h1a
    by_cases hbad : isPow2 (keptTimeSig s).den = false ∨ (keptTimeSig s).num = 0
    · rw [quantizeRel_bad_time_signature R c dq s spq h1a h1b hbad,
          quantizeRel_bad_time_signature R c dq s' spq h1a' h1b' (by rw [← hk]; exact hbad)]
      rfl
    · have hp : isPow2 (keptTimeSig s).den = true := by
        cases hh : isPow2 (keptTimeSig s).den
        · exact absurd (Or.inl hh) hbad
        · rfl
      have hn : (keptTimeSig s).num ≠ 0 := fun hh => hbad (Or.inr hh)
      by_cases g : tpChange s.tempos ∨ tpImplicit dq s.tempos
      · have g' : tpChange s'.tempos ∨ tpImplicit dq s'.tempos := by
          rcases g with g | g
          · exact Or.inl ((tpChange_perm h.tempos).mp g)
          · exact Or.inr ((tpImplicit_perm dq h.tempos).mp g)
        rw [quantizeRel_rejects_tempo_change R c dq s spq h1a h1b hp hn g,
            quantizeRel_rejects_tempo_change R c dq s' spq h1a' h1b' (by rw [← hk]; exact hp)
              (by rw [← hk]; exact hn) g']
        rfl
      · have g1 : ¬ tpChange s.tempos := fun hh => g (Or.inl hh)
        have g2 : ¬ tpImplicit dq s.tempos := fun hh => g (Or.inr hh)
        have g1' : ¬ tpChange s'.tempos := fun hh => g1 ((tpChange_perm h.tempos).mpr hh)
        have g2' : ¬ tpImplicit dq s'.tempos := fun hh => g2 ((tpImplicit_perm dq h.tempos).mpr hh)
        have hkt := keptTempo_perm dq h g1
        rw [quantizeRel_accepts R c dq s spq h1a h1b hp hn g1 g2,
            quantizeRel_accepts R c dq s' spq h1a' h1b' (by rw [← hk]; exact hp)
              (by rw [← hk]; exact hn) g1' g2']
        simp only []
        rw [← hk, ← hkt, ← h.totalTime]
        apply quantizeNotes_perm
        constructor <;> simp only []
        · exact h.notes
        · exact List.Perm.refl _
        · exact List.Perm.refl _
        · exact h.keySigs
        · exact h.texts
        · exact h.ccs
        · exact h.bends
        · exact h.sectionAnns
        · exact h.sgroups
        · exact h.hasSub
        · exact h.subStart
        · exact h.subEnd
        · exact h.tpq
        · exact h.metaTag
end NSV.C12
