import NoteSeqVerif.Proofs.C12
import NoteSeqVerif.Props.C01
/-! C12 — quantization does not depend on the storage order of any repeated field
(corollaries of the functional specifications proved for C01). -/
namespace NSV.C12
open NSV NSV.C01

theorem anyNeg_perm (q : Rat → Int) {s s' : NoteSeq} (h : NSPerm s s') : anyNeg q s ↔ anyNeg q s' := by
  unfold anyNeg
  constructor
  · rintro (⟨n, hn, hh⟩ | ⟨c, hc, hh⟩ | ⟨c, hc, hh⟩)
    · exact Or.inl ⟨n, h.notes.mem_iff.mp hn, hh⟩
    · exact Or.inr (Or.inl ⟨c, h.ccs.mem_iff.mp hc, hh⟩)
    · exact Or.inr (Or.inr ⟨c, h.texts.mem_iff.mp hc, hh⟩)
  · rintro (⟨n, hn, hh⟩ | ⟨c, hc, hh⟩ | ⟨c, hc, hh⟩)
    · exact Or.inl ⟨n, h.notes.mem_iff.mpr hn, hh⟩
    · exact Or.inr (Or.inl ⟨c, h.ccs.mem_iff.mpr hc, hh⟩)
    · exact Or.inr (Or.inr ⟨c, h.texts.mem_iff.mpr hc, hh⟩)

theorem quantized_perm (q : Rat → Int) {s s' : NoteSeq} (h : NSPerm s s') :
    NSPerm (quantized q s) (quantized q s') := by
  unfold quantized
  constructor <;> simp only []
  · exact h.notes.map _
  · exact h.tempos
  · exact h.timeSigs
  · exact h.keySigs
  · exact h.texts.map _
  · exact h.ccs.map _
  · exact h.bends
  · exact h.sectionAnns
  · exact h.sgroups
  · exact h.totalTime
  · rw [h.totalQSteps]; exact foldl_max_perm (h.notes.map _) _
  · exact h.spq
  · exact h.sps
  · exact h.hasSub
  · exact h.subStart
  · exact h.subEnd
  · exact h.tpq
  · exact h.metaTag

/-- `_quantize_notes` does not depend on storage order -/
theorem quantizeNotes_perm (q : Rat → Int) {s s' : NoteSeq} (h : NSPerm s s') :
    ResPerm (quantizeNotes q s) (quantizeNotes q s') := by
  rcases quantizeNotes_spec q s with ⟨hn, e⟩ | ⟨hn, e⟩ <;>
  rcases quantizeNotes_spec q s' with ⟨hn', e'⟩ | ⟨hn', e'⟩
  · rw [e, e']; rfl
  · exact absurd ((anyNeg_perm q h).mp hn) hn'
  · exact absurd ((anyNeg_perm q h).mpr hn') hn
  · rw [e, e']; exact quantized_perm q h

theorem quantizeAbs_perm (R : Rat → Rat) (c : Rat) (sps : Int) {s s' : NoteSeq} (h : NSPerm s s') :
    ResPerm (quantizeAbsR R c s sps) (quantizeAbsR R c s' sps) := by
  unfold quantizeAbsR
  apply quantizeNotes_perm
  constructor <;> simp only []
  · exact h.notes
  · exact h.tempos
  · exact h.timeSigs
  · exact h.keySigs
  · exact h.texts
  · exact h.ccs
  · exact h.bends
  · exact h.sectionAnns
  · exact h.sgroups
  · exact h.totalTime
  · rw [h.totalTime]
  · exact h.hasSub
  · exact h.subStart
  · exact h.subEnd
  · exact h.tpq
  · exact h.metaTag

theorem keptTimeSig_perm {s s' : NoteSeq} (h : NSPerm s s') (h1 : ¬ tsChange s.timeSigs) :
    keptTimeSig s = keptTimeSig s' := by
  unfold keptTimeSig
  have hp := h.timeSigs
  cases hl : s.timeSigs with
  | nil => rw [hl] at hp; rw [hp.symm.eq_nil]
  | cons a as =>
    cases hl' : s'.timeSigs with
    | nil => rw [hl, hl'] at hp; exact absurd hp.eq_nil (by simp)
    | cons b bs =>
      rw [hl, hl'] at hp
      have hb : b ∈ a :: as := hp.mem_iff.mpr (by simp)
      have : sameSig a b := by
        apply Classical.byContradiction
        intro hh
        rw [hl] at h1
        exact h1 ⟨a, by simp, b, hb, hh⟩
      unfold sameSig at this
      simp only []
      cases a; cases b; simp_all

theorem keptTempo_perm (dq : Rat) {s s' : NoteSeq} (h : NSPerm s s') (h1 : ¬ tpChange s.tempos) :
    keptTempo dq s = keptTempo dq s' := by
  unfold keptTempo
  have hp := h.tempos
  cases hl : s.tempos with
  | nil => rw [hl] at hp; rw [hp.symm.eq_nil]
  | cons a as =>
    cases hl' : s'.tempos with
    | nil => rw [hl, hl'] at hp; exact absurd hp.eq_nil (by simp)
    | cons b bs =>
      rw [hl, hl'] at hp
      have hb : b ∈ a :: as := hp.mem_iff.mpr (by simp)
      have : a.qpm = b.qpm := by
        apply Classical.byContradiction
        intro hh
        rw [hl] at h1
        exact h1 ⟨a, by simp, b, hb, hh⟩
      simp only []
      cases a; cases b; simp_all

/-- tempo-relative quantization does not depend on the storage order of any repeated field:
same rejection, or the same quantized sequence up to storage order -/
theorem quantizeRel_perm (R : Rat → Rat) (c dq : Rat) (spq : Int) {s s' : NoteSeq} (h : NSPerm s s') :
    ResPerm (quantizeRelR R c dq s spq) (quantizeRelR R c dq s' spq) := by
  by_cases h1 : tsChange s.timeSigs ∨ tsImplicit s.timeSigs
  · have h1' : tsChange s'.timeSigs ∨ tsImplicit s'.timeSigs := by
      rcases h1 with h1 | h1
      · exact Or.inl ((tsChange_perm h.timeSigs).mp h1)
      · exact Or.inr ((tsImplicit_perm h.timeSigs).mp h1)
    rw [quantizeRel_rejects_time_signature_change R c dq s spq h1,
        quantizeRel_rejects_time_signature_change R c dq s' spq h1']
    rfl
  · have h1a : ¬ tsChange s.timeSigs := fun hh => h1 (Or.inl hh)
    have h1b : ¬ tsImplicit s.timeSigs := fun hh => h1 (Or.inr hh)
    have h1a' : ¬ tsChange s'.timeSigs := fun hh => h1a ((tsChange_perm h.timeSigs).mpr hh)
    have h1b' : ¬ tsImplicit s'.timeSigs := fun hh => h1b ((tsImplicit_perm h.timeSigs).mpr hh)
    have hk := keptTimeSig_perm h h1a
    by_cases hbad : isPow2 (keptTimeSig s).den = false ∨ (keptTimeSig s).num = 0
    · rw [quantizeRel_bad_time_signature R c dq s spq h1a h1b hbad,
          quantizeRel_bad_time_signature R c dq s' spq h1a' h1b' (by rw [← hk]; exact hbad)]
      rfl
    · have hp : isPow2 (keptTimeSig s).den = true := by
        cases hh : isPow2 (keptTimeSig s).den
        · exact absurd (Or.inl hh) hbad
        · rfl
      have hn : (keptTimeSig s).num ≠ 0 := fun hh => hbad (Or.inr hh)
      by_cases g : tpChange s.tempos ∨ tpImplicit dq s.tempos
      · have g' : tpChange s'.tempos ∨ tpImplicit dq s'.tempos := by
          rcases g with g | g
          · exact Or.inl ((tpChange_perm h.tempos).mp g)
          · exact Or.inr ((tpImplicit_perm dq h.tempos).mp g)
        rw [quantizeRel_rejects_tempo_change R c dq s spq h1a h1b hp hn g,
            quantizeRel_rejects_tempo_change R c dq s' spq h1a' h1b' (by rw [← hk]; exact hp)
              (by rw [← hk]; exact hn) g']
        rfl
      · have g1 : ¬ tpChange s.tempos := fun hh => g (Or.inl hh)
        have g2 : ¬ tpImplicit dq s.tempos := fun hh => g (Or.inr hh)
        have g1' : ¬ tpChange s'.tempos := fun hh => g1 ((tpChange_perm h.tempos).mpr hh)
        have g2' : ¬ tpImplicit dq s'.tempos := fun hh => g2 ((tpImplicit_perm dq h.tempos).mpr hh)
        have hkt := keptTempo_perm dq h g1
        rw [quantizeRel_accepts R c dq s spq h1a h1b hp hn g1 g2,
            quantizeRel_accepts R c dq s' spq h1a' h1b' (by rw [← hk]; exact hp)
              (by rw [← hk]; exact hn) g1' g2']
        simp only []
        rw [← hk, ← hkt, ← h.totalTime]
        apply quantizeNotes_perm
        constructor <;> simp only []
        · exact h.notes
        · exact List.Perm.refl _
        · exact List.Perm.refl _
        · exact h.keySigs
        · exact h.texts
        · exact h.ccs
        · exact h.bends
        · exact h.sectionAnns
        · exact h.sgroups
        · exact h.hasSub
        · exact h.subStart
        · exact h.subEnd
        · exact h.tpq
        · exact h.metaTag

/-! ## "the first stored tempo" is immaterial — and why the validation must compare exactly

`quantize_note_sequence` keeps `qns.tempos[0]` (the first STORED tempo) with its time reset to 0 and deletes the rest.
That is storage-order independent only because the validation before it accepts nothing but exactly equal qpm values:
when it accepts, EVERY stored tempo (time reset) is the kept tempo.  A validation with a tolerance (near-equal tempos are
"no tempo change") in front of the same `tempos[0]` is storage-order dependent: `tempo_tolerance_depends_on_order`. -/

/-- when the tempo validation accepts, every stored tempo with its time reset to 0 is the tempo kept -/
theorem checkTempos_kept_is_every_stored (dq : Rat) (ts : List Tempo) (tp : Tempo)
    (h : checkTempos dq ts = .ok tp) : ∀ t ∈ ts, ({ t with time := 0 } : Tempo) = tp := by
  cases ts with
  | nil => intro t ht; cases ht
  | cons first rest =>
    rcases checkTempos_spec dq first rest with ⟨_, e⟩ | ⟨h1, _, e⟩
    · rw [e] at h; cases h
    · rw [e] at h
      cases h
      intro t ht
      have : t.qpm = first.qpm := by
        apply Classical.byContradiction
        intro hh
        exact h1 ⟨t, ht, first, by simp, hh⟩
      cases t; cases first; simp_all

/-- the same for time signatures -/
theorem checkTimeSigs_kept_is_every_stored (tss : List TimeSig) (ts : TimeSig)
    (h : checkTimeSigs tss = .ok ts) : ∀ t ∈ tss, ({ t with time := 0 } : TimeSig) = ts := by
  cases tss with
  | nil => intro t ht; cases ht
  | cons first rest =>
    rcases checkTimeSigs_spec first rest with ⟨_, e⟩ | ⟨h1, _, e⟩
    · rw [e] at h; cases h
    · rw [e] at h
      cases h
      intro t ht
      have : sameSig t first := by
        apply Classical.byContradiction
        intro hh
        exact h1 ⟨t, ht, first, by simp, hh⟩
      unfold sameSig at this
      cases t; cases first; simp_all

def ratAbs (x : Rat) : Rat := if x < 0 then -x else x

/-- `checkTempos` with a relative tolerance in the comparison (Python `math.isclose(a, b, rel_tol=tol)`:
`|a-b| <= tol * max(|a|, |b|)`) and the same "keep the first stored tempo" afterwards -/
def checkTemposTol (tol defaultQpm : Rat) (ts : List Tempo) : Except Err Tempo :=
  match ts with
  | [] => .ok ⟨0, defaultQpm⟩
  | first :: _ =>
    match sortByRat (·.time) ts with
    | [] => .ok ⟨0, defaultQpm⟩
    | e :: later =>
      if e.time ≠ 0 ∧ e.qpm ≠ defaultQpm then .error .multipleTempoError
      else if later.any (fun t => decide (¬ ratAbs (t.qpm - e.qpm) ≤ tol * max (ratAbs t.qpm) (ratAbs e.qpm)))
        then .error .multipleTempoError
      else .ok { first with time := 0 }

def exNearTempos : List Tempo := [⟨0, 120⟩, ⟨6, 12000001 / 100000⟩]
def exNearTempos' : List Tempo := [⟨6, 12000001 / 100000⟩, ⟨0, 120⟩]

theorem exNearTempos_sorted : sortByRat (·.time) exNearTempos = exNearTempos := by
  unfold sortByRat
  apply List.mergeSort_of_pairwise
  decide +kernel

theorem exNearTempos'_sorted : sortByRat (·.time) exNearTempos' = exNearTempos := by
  have h := sortByRat_facts (·.time) exNearTempos'
  generalize sortByRat (·.time) exNearTempos' = l at h
  obtain ⟨hp, hs⟩ := h
  have hl := hp.length_eq
  match l, hl with
  | [x, y], _ =>
    have hx : x ∈ [x, y] := by simp
    have hy : y ∈ [x, y] := by simp
    rw [hp.mem_iff] at hx hy
    simp [exNearTempos'] at hx hy hs
    have hn := hp.nodup_iff.mpr (by decide +kernel)
    simp at hn
    rcases hx with rfl | rfl <;> rcases hy with rfl | rfl <;> simp_all [exNearTempos]
    all_goals (revert hs; decide +kernel)

/-- two tempo marks 8.3e-8 relative apart, tolerance 1e-6: accepted in both storage orders, but the tempo kept (and with
it the steps-per-second of the whole quantization) is the first STORED one — the result depends on storage order -/
theorem tempo_tolerance_depends_on_order :
    exNearTempos.Perm exNearTempos' ∧
    checkTemposTol (1 / 1000000) 120 exNearTempos = .ok ⟨0, 120⟩ ∧
    checkTemposTol (1 / 1000000) 120 exNearTempos' = .ok ⟨0, 12000001 / 100000⟩ ∧
    (⟨0, 120⟩ : Tempo) ≠ ⟨0, 12000001 / 100000⟩ := by
  refine ⟨List.Perm.swap _ _ _, ?_, ?_, by decide +kernel⟩
  · show (match sortByRat (·.time) exNearTempos with | [] => _ | e :: later => _) = _
    rw [exNearTempos_sorted]
    decide +kernel
  · show (match sortByRat (·.time) exNearTempos' with | [] => _ | e :: later => _) = _
    rw [exNearTempos'_sorted]
    decide +kernel

/-- the exact validation (the model of the code) rejects the same input in both storage orders -/
theorem tempo_exact_rejects_both_orders :
    checkTempos 120 exNearTempos = .error .multipleTempoError ∧
    checkTempos 120 exNearTempos' = .error .multipleTempoError := by
  constructor
  · show (match sortByRat (·.time) exNearTempos with | [] => _ | e :: later => _) = _
    rw [exNearTempos_sorted]
    decide +kernel
  · show (match sortByRat (·.time) exNearTempos' with | [] => _ | e :: later => _) = _
    rw [exNearTempos'_sorted]
    decide +kernel

/-- non-vacuity of `checkTempos_kept_is_every_stored` / `checkTimeSigs_kept_is_every_stored`: the hypothesis holds on
lists with several entries stored out of time order (`checkTempos_ok` / `checkTimeSigs_ok` of C01 on these inputs) -/
example : ∃ tp, checkTempos 120 ([⟨2, 90⟩, ⟨0, 90⟩, ⟨1, 90⟩] : List Tempo) = .ok tp := by
  rcases checkTempos_spec 120 ⟨2, 90⟩ [⟨0, 90⟩, ⟨1, 90⟩] with ⟨h, _⟩ | ⟨_, _, e⟩
  · exfalso
    rcases h with ⟨a, ha, b, hb, hab⟩ | ⟨e, he, hmin, h0, _⟩
    · simp at ha hb
      rcases ha with rfl | rfl | rfl <;> rcases hb with rfl | rfl | rfl <;> exact hab rfl
    · simp at he
      have := hmin ⟨0, 90⟩ (by simp)
      rcases he with rfl | rfl | rfl
      · exact absurd this (by decide +kernel)
      · exact h0 rfl
      · exact absurd this (by decide +kernel)
  · exact ⟨_, e⟩

end NSV.C12
