import NoteSeqVerif.Model.C01
import NoteSeqVerif.Generated.C01T2
/-! # C01 — translator tie T2: the regenerated definitions ARE the model functions

`Generated/C01T2.lean` is produced on every run by symbolic execution of the current Python source of
`quantize_to_step` and `steps_per_quarter_to_steps_per_second` (gen/translit2.py: every float operation of the source,
in the order of the source, wrapped in the rounding operator `R`).  The theorems below state that these definitions
coincide with `qstepR` / `spsR`, the functions all C01 theorems are about — for every rounding operator and every
argument.  A change of an operation, an operand, the association, a constant or the truncation in the Python changes
the generated term and the corresponding theorem stops checking. -/
namespace NSV.C01

theorem t2_quantize_to_step (R : Rat → Rat) (t sps cutoff : Rat) :
    Gen2.quantize_to_step R t sps cutoff = qstepR R cutoff t sps := rfl

theorem t2_steps_per_quarter_to_steps_per_second (R : Rat → Rat) (spq : Int) (qpm : Rat) :
    Gen2.steps_per_quarter_to_steps_per_second R spq qpm = spsR R spq qpm := rfl

/-- with the default cutoff regenerated from the source (`QUANTIZE_CUTOFF`) -/
theorem t2_quantize_to_step_default_cutoff (R : Rat → Rat) (t sps : Rat) :
    Gen2.quantize_to_step R t sps Gen.QUANTIZE_CUTOFF = qstepR R Gen.QUANTIZE_CUTOFF t sps := rfl

/-- non-vacuity / sanity: the generated definition computes (2.5 s at 1 step/s is an exact tie and rounds up) -/
example : Gen2.quantize_to_step rne53 (5/2) 1 (1/2) = 3 := by decide +kernel

end NSV.C01
