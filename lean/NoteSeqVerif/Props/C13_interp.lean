import NoteSeqVerif.Proofs.C13Interp
import NoteSeqVerif.Props.C13
/-! C13 — the float `np.interp` transcription (`interpR`, numpy `arr_interp`:
`slope = (fp[j+1]-fp[j]) / (xp[j+1]-xp[j]);  slope*(x - xp[j]) + fp[j]`, one rounding per operation)
for every rounding operator `R` with `Rounding R` (monotone, `R 0 = 0`, relative error `≤ 2^-53`;
`rounding_rne53 : Rounding rne53`).  Knots: strictly increasing abscissae, non-decreasing ordinates
(`KnotsOK`), ordinates that are floats (`RepY R`: `R y = y`).

* TRUE for every such `R`: monotone inside each segment `[xₖ, xₖ₊₁)`; never below the ordinate of any
  knot at or left of `x`; never above the last ordinate times `(1+2^-53)^4`; globally monotone up
  to the factor `(1+2^-53)^4`.
* FALSE for `rne53` (IEEE double): exact monotonicity across a knot — `interp_not_monotone_rne53`
  (a point just left of a knot is mapped one ulp *above* the knot's ordinate; reproduced bit for bit
  by `numpy.interp`), and as a consequence `rectify_beats` raises `InvalidTimeAdjustmentError` on a
  valid sequence whose exact time map is strictly increasing (`rectify_raises_on_increasing_beats`). -/
namespace NSV.C13
open List

variable {R : ℚ → ℚ}

/-- **monotone inside every segment** (any `Rounding R`): for consecutive knots `a`, `b` and
`a.1 ≤ x ≤ y < b.1`, `interp x ≤ interp y` -/
theorem interp_monotone_within_segment (hR : Rounding R) (p : ℚ × ℚ) (rest : List (ℚ × ℚ)) (left right : ℚ)
    (h : KnotsOK p rest) (hy : RepY R (p :: rest)) (pre : List (ℚ × ℚ)) (a b : ℚ × ℚ) (post : List (ℚ × ℚ))
    (he : p :: rest = pre ++ a :: b :: post) (x y : ℚ) (hx : a.1 ≤ x) (hxy : x ≤ y) (hyb : y < b.1) :
    interpR R p rest left right x ≤ interpR R p rest left right y := by
  have hxi := KnotsOK.xinc p rest h
  have hbm : b ∈ p :: rest := by rw [he]; simp
  have ham : a ∈ p :: rest := by rw [he]; simp
  have hbl : b.1 ≤ lastX p rest := xinc_le_last p rest hxi b hbm
  have hpa : p.1 ≤ a.1 := by
    rcases mem_cons.mp ham with rfl | hm
    · exact le_refl _
    · exact le_of_lt (xinc_gt p rest hxi a hm)
  unfold interpR
  rw [if_neg (show ¬ lastX p rest < x by intro h; linarith), if_neg (show ¬ x < p.1 by intro h; linarith),
    if_neg (show ¬ lastX p rest < y by intro h; linarith), if_neg (show ¬ y < p.1 by intro h; linarith)]
  exact interpGo_seg_mono hR p rest h hy pre a b post he x y hx hxy hyb

/-- **half of the monotonicity across knots that does hold** (any `Rounding R`): at or right of a knot
the result is at least that knot's ordinate (which is the value *at* the knot, `interp_knots`) -/
theorem interp_ge_knot (hR : Rounding R) (p : ℚ × ℚ) (rest : List (ℚ × ℚ)) (left right : ℚ)
    (h : KnotsOK p rest) (hy : RepY R (p :: rest)) (k : ℚ × ℚ) (hk : k ∈ p :: rest) (x : ℚ) (hkx : k.1 ≤ x)
    (hxl : x ≤ lastX p rest) : interpR R p rest left right k.1 ≤ interpR R p rest left right x := by
  have hxi := KnotsOK.xinc p rest h
  rw [interpR_knot R p rest left right hxi k hk]
  have hpk : p.1 ≤ k.1 := by
    rcases mem_cons.mp hk with rfl | hm
    · exact le_refl _
    · exact le_of_lt (xinc_gt p rest hxi k hm)
  unfold interpR
  rw [if_neg (show ¬ lastX p rest < x by intro h; linarith), if_neg (show ¬ x < p.1 by intro h; linarith)]
  exact interpGo_ge_knot hR rest p h hy k hk x hkx (le_trans hpk hkx)

/-- **range** (any `Rounding R`): inside the knots the result is at least the first ordinate and at
most the last ordinate times `(1 + 2^-53)^4` -/
theorem interp_range_float (hR : Rounding R) (p : ℚ × ℚ) (rest : List (ℚ × ℚ)) (left right x : ℚ)
    (h : KnotsOK p rest) (hy : RepY R (p :: rest)) (h0 : 0 ≤ p.2) (h1 : p.1 ≤ x) (h2 : x ≤ lastX p rest) :
    p.2 ≤ interpR R p rest left right x ∧ interpR R p rest left right x ≤ lastY p rest * (1 + u53) ^ 4 := by
  have hxi := KnotsOK.xinc p rest h
  unfold interpR
  rw [if_neg (show ¬ lastX p rest < x by intro h; linarith), if_neg (show ¬ x < p.1 by intro h; linarith)]
  refine ⟨interpGo_ge_knot hR rest p h hy p (by simp) x h1 h1, ?_⟩
  have := interpGo_mono_approx hR rest p h hy h0 x (lastX p rest) h1 h2
  rwa [interpGo_at_last R p rest hxi] at this

/-- **monotone up to four roundings** (any `Rounding R`), on the whole line, when the clamps continue
the knots monotonically (`rectify_beats`: `left = 0 = fp₀`, `right = total_time`) -/
theorem interp_monotone_approx (hR : Rounding R) (p : ℚ × ℚ) (rest : List (ℚ × ℚ)) (left right x y : ℚ)
    (h : KnotsOK p rest) (hy : RepY R (p :: rest)) (hl0 : 0 ≤ left) (hl : left ≤ p.2)
    (hr : lastY p rest ≤ right) (hxy : x ≤ y) :
    interpR R p rest left right x ≤ interpR R p rest left right y * (1 + u53) ^ 4 := by
  have hxi := KnotsOK.xinc p rest h
  have hf := one_le_f4
  have hf0 : (0 : ℚ) ≤ (1 + u53) ^ 4 := by linarith
  have h0 : 0 ≤ p.2 := le_trans hl0 hl
  have hpl : p.1 ≤ lastX p rest := xinc_le_last p rest hxi p (by simp)
  have hlast0 : 0 ≤ lastY p rest := le_trans h0 (knots_le_last p rest h p (by simp)).2
  have hgrow : ∀ v : ℚ, 0 ≤ v → v ≤ v * (1 + u53) ^ 4 := by intro v hv; nlinarith
  unfold interpR
  by_cases h1 : lastX p rest < x
  · have h2 : lastX p rest < y := by linarith
    rw [if_pos h1, if_pos h2]
    exact hgrow _ (le_trans hlast0 hr)
  · rw [if_neg h1]
    by_cases h3 : x < p.1
    · rw [if_pos h3]
      by_cases h2 : lastX p rest < y
      · rw [if_pos h2]
        exact le_trans (le_trans hl (le_trans (knots_le_last p rest h p (by simp)).2 hr)) (hgrow _ (le_trans hlast0 hr))
      · rw [if_neg h2]
        by_cases h4 : y < p.1
        · rw [if_pos h4]; exact hgrow _ hl0
        · rw [if_neg h4]
          have hge := interpGo_ge_knot hR rest p h hy p (by simp) y (by linarith) (by linarith)
          exact le_trans (le_trans hl hge) (hgrow _ (le_trans h0 hge))
    · rw [if_neg h3]
      have hx : p.1 ≤ x := by linarith
      by_cases h2 : lastX p rest < y
      · rw [if_pos h2]
        have := interpGo_mono_approx hR rest p h hy h0 x (lastX p rest) hx (by linarith)
        rw [interpGo_at_last R p rest hxi] at this
        exact le_trans this (mul_le_mul_of_nonneg_right hr hf0)
      · rw [if_neg h2, if_neg (show ¬ y < p.1 by intro h; linarith)]
        exact interpGo_mono_approx hR rest p h hy h0 x y hx hxy

/-! ## exact monotonicity across a knot is false in IEEE double arithmetic -/

/-- knots `(2^-53, 0)`, `(0x1.97c07b84ae97bp+0, 0x1.d8a282c677008p-1)` and the double just left of
the second abscissa -/
def cxP : ℚ × ℚ := (1 / 9007199254740992, 0)
def cxQ : ℚ × ℚ := (7173247016298875 / 4503599627370496, 1039334934113793 / 1125899906842624)
def cxX : ℚ := 3586623508149437 / 2251799813685248

/-- **counterexample** (all numbers are doubles): `x < x₁` but `interp x = 0x1.d8a282c677009p-1` is
one ulp above `interp x₁ = y₁ = 0x1.d8a282c677008p-1`.  `x - x₀` and `x₁ - x₀` are both ties and
round to the same double, then `fl(fl(dy/dx)·dx) > dy`.  `numpy.interp` returns the same bits. -/
theorem interp_not_monotone_rne53 :
    KnotsOK cxP [cxQ] ∧ RepY rne53 [cxP, cxQ] ∧ rne53 cxP.1 = cxP.1 ∧ rne53 cxQ.1 = cxQ.1 ∧ rne53 cxX = cxX ∧
    cxP.1 ≤ cxX ∧ cxX < cxQ.1 ∧
    interpR rne53 cxP [cxQ] 0 cxQ.2 cxX = 8314679472910345 / 9007199254740992 ∧
    interpR rne53 cxP [cxQ] 0 cxQ.2 cxQ.1 = cxQ.2 ∧
    interpR rne53 cxP [cxQ] 0 cxQ.2 cxQ.1 < interpR rne53 cxP [cxQ] 0 cxQ.2 cxX := by
  refine ⟨⟨by decide +kernel, by decide +kernel, trivial⟩, ?_, by decide +kernel, by decide +kernel,
    by decide +kernel, by decide +kernel, by decide +kernel, by decide +kernel, by decide +kernel, by decide +kernel⟩
  intro k hk
  simp only [mem_cons, mem_nil_iff, or_false] at hk
  rcases hk with rfl | rfl <;> decide +kernel

/-- hence no theorem `x ≤ y → interp x ≤ interp y` can hold for all `Rounding R` -/
theorem interp_monotone_fails_for_some_rounding :
    ¬ ∀ (R : ℚ → ℚ), Rounding R → ∀ (p : ℚ × ℚ) (rest : List (ℚ × ℚ)) (x y : ℚ), KnotsOK p rest →
        RepY R (p :: rest) → x ≤ y → interpR R p rest 0 (lastY p rest) x ≤ interpR R p rest 0 (lastY p rest) y := by
  intro H
  obtain ⟨hk, hy, _, _, _, _, hlt, _, _, hbad⟩ := interp_not_monotone_rne53
  have := H rne53 rounding_rne53 cxP [cxQ] cxX cxQ.1 hk hy (le_of_lt hlt)
  exact absurd this (not_le.mpr hbad)

/-! ### the same inside `rectify_beats` -/

/-- a valid sequence: beats at `2^-53` s and at `x₁ = 0x1.78e525ad8f2ffp+0` s (`= total_time`), one
note from the double just below `x₁` to `x₁` -/
def cxBeatX : ℚ := 6630408826974975 / 4503599627370496
def cxSeq : NoteSeq :=
  { notes := [{ exNote with start := 3315204413487487 / 2251799813685248, end_ := cxBeatX }]
    texts := [⟨1 / 9007199254740992, 0, Gen.BEAT, ""⟩, ⟨cxBeatX, 0, Gen.BEAT, ""⟩]
    totalTime := cxBeatX }

/-- at 148 bpm the knots are `(0,0), (2^-53, fl(60/148)), (x₁, fl(2·fl(60/148)))`: strictly increasing in
both coordinates, so the exact time map is strictly increasing — and `rectify_beats` raises
`InvalidTimeAdjustmentError` ("Tried to adjust end time to before start time") because the float
interpolation maps the note start one ulp above the note end.  The real `rectify_beats` raises the
same exception on this input. -/
theorem rectify_raises_on_increasing_beats :
    beatKnots rne53 148 cxSeq =
      [(0, 0), (1 / 9007199254740992, 7303134530871075 / 18014398509481984),
       (cxBeatX, 7303134530871075 / 9007199254740992)] ∧
    KnotsOK (0, 0) [(1 / 9007199254740992, 7303134530871075 / 18014398509481984),
       (cxBeatX, 7303134530871075 / 9007199254740992)] ∧
    rectifyR rne53 148 cxSeq = .error .invalidTimeAdjustmentError := by
  have hb : beatTimes cxSeq = [1 / 9007199254740992, cxBeatX] := by decide +kernel
  have hk : beatKnots rne53 148 cxSeq =
      [(0, 0), (1 / 9007199254740992, 7303134530871075 / 18014398509481984),
       (cxBeatX, 7303134530871075 / 9007199254740992)] := by
    have hs : sortByRat id (beatTimes cxSeq) = beatTimes cxSeq :=
      sortByRat_of_pairwise _ _ (by rw [hb]; decide +kernel)
    unfold beatKnots; rw [hs, hb]; decide +kernel
  refine ⟨hk, ⟨by decide +kernel, by decide +kernel, by decide +kernel, by decide +kernel, trivial⟩, ?_⟩
  obtain ⟨p, rest, hpk, hr⟩ := rectify_spec rne53 148 cxSeq (by decide +kernel) (by rw [hb]; simp)
    (by decide +kernel)
  rw [hk] at hpk
  simp only [cons.injEq] at hpk
  obtain ⟨rfl, rfl⟩ := hpk
  rw [hr]
  decide +kernel

/-! ## non-vacuity: knots with float ordinates, points inside one segment -/

example : KnotsOK (0, 0) [(1, 1 / 2), (3, 1)] ∧ RepY rne53 [(0, 0), (1, 1 / 2), (3, 1)] ∧
    ((0, 0) :: [(1, 1 / 2), (3, 1)] : List (ℚ × ℚ)) = [(0, 0)] ++ (1, 1 / 2) :: (3, 1) :: [] ∧
    interpR rne53 (0, 0) [(1, 1 / 2), (3, 1)] 0 9 (4 / 3) ≤ interpR rne53 (0, 0) [(1, 1 / 2), (3, 1)] 0 9 (5 / 3) := by
  refine ⟨⟨by decide +kernel, by decide +kernel, by decide +kernel, by decide +kernel, trivial⟩, ?_, rfl, by decide +kernel⟩
  intro k hk
  simp only [mem_cons, mem_nil_iff, or_false] at hk
  rcases hk with rfl | rfl | rfl <;> decide +kernel

end NSV.C13
