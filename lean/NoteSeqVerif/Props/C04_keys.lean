import NoteSeqVerif.Model.C04
/-! C04 — the key table (finite: `decide +kernel` over the tables regenerated from
`ABCTune.SIG_TO_KEYS / KEY_TO_SIG / KEY_TO_PROTO_KEY / SHARPS_ORDER / FLATS_ORDER` and the mode
chain of `parse_key`).  The right-hand sides are music theory (circle of fifths), not the tables. -/
namespace NSV.C04
open Gen

deriving instance DecidableEq for Except

inductive Mode | maj | min | mix | dor | phr | lyd | loc
deriving DecidableEq, Repr

def Mode.all : List Mode := [.maj, .min, .mix, .dor, .phr, .lyd, .loc]

/-- how many fifths above the major (ionian) tonic of the same signature the mode's tonic lies -/
def Mode.offset : Mode → Int
  | .maj => 0 | .mix => 1 | .dor => 2 | .min => 3 | .phr => 4 | .loc => 5 | .lyd => -1

/-- `NoteSequence.KeySignature.Mode` (music.proto) -/
def Mode.proto : Mode → Nat
  | .maj => 0 | .min => 1 | .mix => 3 | .dor => 4 | .phr => 5 | .lyd => 6 | .loc => 7

/-- lower-case spellings: nothing / `m`, three-letter abbreviations, full words -/
def Mode.words : Mode → List (List Char)
  | .maj => ["".toList, "maj".toList, "major".toList, "ion".toList, "ionian".toList]
  | .min => ["m".toList, "min".toList, "minor".toList, "aeo".toList, "aeolian".toList]
  | .mix => ["mix".toList, "mixolydian".toList]
  | .dor => ["dor".toList, "dorian".toList]
  | .phr => ["phr".toList, "phrygian".toList]
  | .lyd => ["lyd".toList, "lydian".toList]
  | .loc => ["loc".toList, "locrian".toList]

def capitalize : List Char → List Char
  | [] => []
  | c :: r => upperC c :: r

/-- lower case, upper case, capitalised -/
def caseVariants (w : List Char) : List (List Char) := [w, w.map upperC, capitalize w]

/-- position of a natural letter on the circle of fifths (C = 0) -/
def fifthsOf : Char → Int
  | 'F' => -1 | 'C' => 0 | 'G' => 1 | 'D' => 2 | 'A' => 3 | 'E' => 4 | 'B' => 5 | _ => 0

def pitchClassOf : Char → Int
  | 'C' => 0 | 'D' => 2 | 'E' => 4 | 'F' => 5 | 'G' => 7 | 'A' => 9 | 'B' => 11 | _ => 0

def accShift (a : List Char) : Int := if a = ['#'] then 1 else if a = ['b'] then -1 else 0

/-- number of sharps (negative: flats) of the key with this tonic and mode -/
def specSig (letter : Char) (acc : List Char) (m : Mode) : Int := fifthsOf letter + 7 * accShift acc - m.offset

/-- `NoteSequence.KeySignature.Key` = pitch class of the tonic -/
def specProtoKey (letter : Char) (acc : List Char) : Nat := ((pitchClassOf letter + accShift acc) % 12).toNat

/-- the key signature as accidentals: the first `|sig|` letters of the order of sharps / flats -/
def specAccs (sig : Int) : Accs :=
  zeroAccs.map (fun p =>
    (p.1, if 0 < sig ∧ p.1 ∈ "FCGDAEB".toList.take sig.toNat then 1
          else if sig < 0 ∧ p.1 ∈ "BEADGCF".toList.take (-sig).toNat then -1 else 0))

def letters : List Char := "CDEFGAB".toList
def tonicAccs : List (List Char) := [[], ['#'], ['b']]

set_option synthInstance.maxSize 4096 in
set_option synthInstance.maxHeartbeats 400000 in
set_option maxRecDepth 100000 in
/-- All 15 signatures × 7 modes (the 105 tonic/mode pairs whose signature has at most 7 sharps or
flats), every mode word / abbreviation in lower, upper and capitalised case, upper- and lower-case
tonic: `parse_key` succeeds with the signature's accidentals, the tonic's pitch class and the mode. -/
theorem abc_key_table_total :
    ∀ letter ∈ letters, ∀ acc ∈ tonicAccs, ∀ m ∈ Mode.all,
      -7 ≤ specSig letter acc m ∧ specSig letter acc m ≤ 7 →
      ∀ w ∈ m.words, ∀ v ∈ caseVariants w, ∀ t ∈ [letter, lowerC letter],
        parseKey { tonic := t, acc := acc, mode := v, exp := false, accs := [] } =
          .ok (specAccs (specSig letter acc m), specProtoKey letter acc, m.proto) := by
  decide +kernel

/-- the hypothesis of `abc_key_table_total` selects exactly 15 × 7 tonic/mode pairs -/
example : ((letters.flatMap fun l => tonicAccs.flatMap fun a => Mode.all.filterMap fun m =>
    if -7 ≤ specSig l a m ∧ specSig l a m ≤ 7 then some (specSig l a m) else none).length = 105) := by
  decide +kernel

/-- a spelling of `SIG_TO_KEYS` as KEY_PATTERN groups it: letter, optional `#`/`b`, the rest -/
def splitSpelling : List Char → Option (Char × List Char × List Char)
  | [] => none
  | t :: '#' :: r => some (t, ['#'], r)
  | t :: 'b' :: r => some (t, ['b'], r)
  | t :: r => some (t, [], r)

def modeOfWord (w : List Char) : Option Mode := Mode.all.find? (fun m => w.map lowerC ∈ m.words)

/-- every spelling in the module's own table parses, to the signature of its row, and its
signature, tonic and mode are the music-theoretical ones -/
def rowSpellingOk (sig : Int) (k : List Char) : Bool :=
  match splitSpelling k with
  | none => false
  | some (t, a, w) =>
    match modeOfWord w with
    | none => false
    | some m =>
      specSig t a m = sig ∧
      parseKey { tonic := t, acc := a, mode := w, exp := false, accs := [] } =
        .ok (specAccs sig, specProtoKey t a, m.proto)

set_option maxRecDepth 100000 in
theorem abc_key_table_rows : ∀ row ∈ SIG_TO_KEYS, ∀ k ∈ row.2, rowSpellingOk row.1 k = true := by
  decide +kernel

/-- `k` spells the key with this tonic and mode -/
def spells (k : List Char) (letter : Char) (acc : List Char) (m : Mode) : Bool :=
  match splitSpelling k with
  | some (t, a, r) => t = letter ∧ a = acc ∧ r.map lowerC ∈ m.words
  | none => false

set_option synthInstance.maxSize 4096 in
set_option maxRecDepth 100000 in
/-- the table is complete: each of the 105 tonic/mode pairs is spelled in the row of its signature -/
theorem abc_key_table_complete :
    ∀ letter ∈ letters, ∀ acc ∈ tonicAccs, ∀ m ∈ Mode.all,
      -7 ≤ specSig letter acc m ∧ specSig letter acc m ≤ 7 →
      ∃ row ∈ SIG_TO_KEYS, row.1 = specSig letter acc m ∧ ∃ k ∈ row.2, spells k letter acc m = true := by
  decide +kernel

/-- the model's accidentals for a signature are the spec's, for all 15 signatures -/
theorem sigToAccs_spec : ∀ s ∈ ([-7, -6, -5, -4, -3, -2, -1, 0, 1, 2, 3, 4, 5, 6, 7] : List Int),
    sigToAccs s = .ok (specAccs s) := by
  decide +kernel

end NSV.C04
