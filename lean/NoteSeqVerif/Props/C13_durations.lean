import NoteSeqVerif.Proofs.C13
/-! C13 — explicit durations of `concatenate_sequences` are judged by VALUE, not by truthiness.

`sequence_durations[i] < sequences[i].total_time → ValueError` holds for every duration value, in
particular for the first legal value of the range, `0` (a falsy number in Python): a zero duration is
accepted exactly for pieces whose `total_time` is `0`.  The list itself is what switches the explicit
durations on (`durs ≠ []`), never an element of it. -/
namespace NSV.C13
open List

private theorem catLoop_short_errors (R : Rat → Rat) : ∀ (pairs : List (MSeq × Rat)) (cur : Rat) (cat : MSeq),
    (∃ p ∈ pairs, p.2 < p.1.ns.totalTime) → ∃ e, catLoop R true cur cat pairs = .error e
  | [], _, _, h => by obtain ⟨p, hp, _⟩ := h; cases hp
  | (s, d) :: rest, cur, cat, h => by
    unfold catLoop
    by_cases h1 : d < s.ns.totalTime
    · exact ⟨.valueError, by simp [h1]⟩
    · have hrest : ∃ p ∈ rest, p.2 < p.1.ns.totalTime := by
        obtain ⟨p, hp, hlt⟩ := h
        rcases List.mem_cons.mp hp with rfl | hp
        · exact absurd hlt h1
        · exact ⟨p, hp, hlt⟩
      simp only [h1, and_false, if_false]
      cases hs : (if 0 < cur then shiftM R cur s else .ok s) with
      | error e => exact ⟨e, rfl⟩
      | ok sh => exact catLoop_short_errors R rest _ _ hrest

/-- with explicit durations of the right length, a piece whose duration is smaller than its
`total_time` makes the call raise — there is no result, whatever the value of that duration -/
theorem concat_short_duration_rejected (R : Rat → Rat) (mm : List String → String) (seqs : List MSeq)
    (durs : List Rat) (hd : durs ≠ []) (hl : seqs.length = durs.length)
    (h : ∃ p ∈ seqs.zip durs, p.2 < p.1.ns.totalTime) :
    ∃ e, concatR R mm seqs durs = .error e := by
  have hu : (!durs.isEmpty) = true := by cases durs <;> simp at hd ⊢
  unfold concatR
  simp only [hu, hl, ne_eq, not_true_eq_false, and_false, if_false, if_true]
  obtain ⟨e, he⟩ := catLoop_short_errors R (seqs.zip durs) 0 emptyM h
  exact ⟨e, by rw [he]⟩

/-- the first legal value of the range: a duration `0` for a piece of positive `total_time` is too
short (the check must not be skipped because `0` is falsy) -/
theorem concat_zero_duration_rejected (R : Rat → Rat) (mm : List String → String) (seqs : List MSeq)
    (durs : List Rat) (hd : durs ≠ []) (hl : seqs.length = durs.length)
    (h : ∃ p ∈ seqs.zip durs, p.2 = 0 ∧ 0 < p.1.ns.totalTime) :
    ∃ e, concatR R mm seqs durs = .error e := by
  obtain ⟨p, hp, h0, hpos⟩ := h
  exact concat_short_duration_rejected R mm seqs durs hd hl ⟨p, hp, by rw [h0]; exact hpos⟩

/-- … and a zero duration IS accepted for a piece that really is empty (`total_time = 0`): one empty
unquantized piece with duration `0` concatenates to a result -/
theorem concat_zero_duration_of_empty_piece (R : Rat → Rat) (mm : List String → String) (s : MSeq)
    (h0 : s.ns.totalTime = 0) : ∃ r, concatR R mm [s] [0] = .ok r := by
  simp [concatR, catLoop, h0]

/-- a piece of length 5 -/
def exLong : MSeq := { ns := { totalTime := 5 } }

example : ([0, 1] : List Rat) ≠ [] ∧ [exLong, exLong].length = ([0, 1] : List Rat).length ∧
    ∃ p ∈ [exLong, exLong].zip ([0, 1] : List Rat), p.2 = 0 ∧ 0 < p.1.ns.totalTime :=
  ⟨by simp, rfl, (exLong, 0), by simp, rfl, by decide +kernel⟩
example : errOf (concatR id (fun _ => "-") [exLong, { ns := { totalTime := 1 } }] [0, 1]) = some .valueError ∧
    (concatR id (fun _ => "-") [exLong, {}, exLong] [5, 0, 5]).toOption.map (·.ns.totalTime) = some 10 := by
  decide +kernel

end NSV.C13
