import NoteSeqVerif.Proofs.C17Extra
/-! C17 — event sequences keep length, step range and indexing consistent under any edits.

Property theorems only (helper lemmas: `Proofs/C17.lean`; predicates: `Proofs/C17Spec.lean`;
model: `Model/C17.lean`).  All statements are universally quantified over the class record
(`Lawful c`: SimpleEventSequence with any pad event, Melody, DrumTrack, ChordProgression), over
states, over operation arguments and over operation lists of any length.  The operation domain
`OpOk` only asks for a length `≥ 0` and a resolution factor `≥ 1`; events, slice bounds (negative,
past the end, `None`) and re-initialisation arguments are arbitrary. -/
namespace NSV.C17
open Gen
variable {α : Type}

/-! ## Python list primitives used by every class -/

/-- the start offset of `l[i:j]` is `slice(i, j).indices(len)[0]`: within `[0, len]`, equal to `i`
for `0 ≤ i ≤ len`, to `len + i` for `-len ≤ i < 0`, clamped to `len` / `0` beyond, `0` for `None` -/
theorem py_slice_start (len : Nat) (i : Int) :
    (∀ o, sliceLo len o ≤ len) ∧
    (0 ≤ i → i ≤ len → (sliceLo len (some i) : Int) = i) ∧
    ((len : Int) < i → sliceLo len (some i) = len) ∧
    (-(len : Int) ≤ i → i < 0 → (sliceLo len (some i) : Int) = len + i) ∧
    (i < -(len : Int) → sliceLo len (some i) = 0) ∧ sliceLo len none = 0 :=
  ⟨sliceLo_le len, sliceLo_spec len i⟩

example : sliceLo 4 (some (-2)) = 2 ∧ sliceLo 4 (some 7) = 4 ∧ sliceLo 4 (some (-9)) = 0 := by decide

/-- element `k` of `l[i:j]` is element `lo + k` of `l` -/
theorem py_slice_elements (l : List α) (i j : Option Int) :
    (pySlice l i j).length = sliceHi l.length j - sliceLo l.length i ∧
    ∀ k, k < (pySlice l i j).length → (pySlice l i j)[k]? = l[sliceLo l.length i + k]? :=
  ⟨pySlice_length l i j, fun k hk => pySlice_getElem l i j k hk⟩

example : pySlice [10, 11, 12, 13] (some (-3)) (some 3) = [11, 12] := by decide

/-- `l[i]`: non-negative and negative indices address the same elements, anything else is an
`IndexError` -/
theorem py_index (l : List α) :
    (∀ k (_ : k < l.length), pyIndex l (k : Int) = .ok l[k] ∧ pyIndex l ((k : Int) - l.length) = .ok l[k]) ∧
    (∀ i : Int, (l.length : Int) ≤ i ∨ i < -(l.length : Int) → pyIndex l i = .error .indexError) :=
  pyIndex_spec l

example : pyIndex [10, 11, 12] (-1) = .ok 12 ∧ pyIndex [10, 11, 12] 3 = .error .indexError := ⟨rfl, rfl⟩

theorem py_range (a b : Int) :
    (pyRange a b).length = (b - a).toNat ∧ ∀ k, k < (b - a).toNat → (pyRange a b)[k]? = some (a + k) :=
  pyRange_spec a b

/-! ## SimpleEventSequence, Melody, DrumTrack, ChordProgression -/

/-- the class records of the model satisfy the laws the generic theorems assume -/
theorem class_records_lawful :
    Lawful melodyCls ∧ Lawful drumCls ∧ Lawful chordCls ∧ ∀ pad : α, Lawful (simpleCls pad) :=
  ⟨melody_lawful, drum_lawful, chord_lawful, simple_lawful⟩

/-- a fresh sequence (`events=None`) satisfies the invariant -/
theorem inv_init (c : Cls α) (start spb spq : Int) : Inv c (Seq.empty start spb spq) :=
  ⟨by simp [Seq.empty], by simp [Seq.empty]⟩

/-- … and so does one built from any event list the constructor accepts -/
theorem inv_from_event_list (c : Cls α) (hc : Lawful c) (evs : List α) (st b q : Int) (s : Seq α)
    (h : fromEventList c evs st b q = .ok s) : Inv c s :=
  fromEventList_inv c hc evs st b q s h

example : ∃ s, fromEventList melodyCls [-1, 60, -2] 4 16 4 = .ok s ∧ s.events = [-2, 60, -2] ∧ s.stop = 7 :=
  ⟨_, rfl, by decide, by decide⟩

/-- every operation, with every argument, preserves the invariant (`set_length(0)` from either
side, negative and past-the-end slice bounds, `increase_resolution(1)`, … included) -/
theorem inv_step (c : Cls α) (hc : Lawful c) (s s' : Seq α) (op : Op α) (hi : Inv c s)
    (hok : OpOk c op) (h : step c s op = .ok s') : Inv c s' :=
  step_inv c hc s s' op hi hok h

/-- the formerly failing steps are instances: `set_length(0, from_left=True)` (F-C17-1) and a
negative slice start (F-C17-2) -/
example : ∃ s', step (simpleCls (0 : Int)) ⟨[1, 2, 3], 4, 7, 16, 4⟩ (.setLength 0 true) = .ok s' ∧
    s'.events = [] ∧ s'.start = 7 ∧ s'.stop = 7 := ⟨_, rfl, by decide, by decide, by decide⟩
example : ∃ s', step (simpleCls (0 : Int)) ⟨[1, 2, 3, 4], 4, 8, 16, 4⟩ (.slice (some (-2)) none) = .ok s' ∧
    s'.events = [3, 4] ∧ s'.start = 6 ∧ s'.stop = 8 := ⟨_, rfl, by decide, by decide, by decide⟩

/-- the invariant holds after any history: any list of operations, of any length, applied by a
caller that catches the exceptions of rejected operations -/
theorem inv_reachable (c : Cls α) (hc : Lawful c) (ops : List (Op α)) (s : Seq α) (hi : Inv c s)
    (hok : ∀ op ∈ ops, OpOk c op) : Inv c (runSkip c s ops) :=
  runSkip_inv c hc ops s hi hok

example : (runSkip melodyCls ⟨[60], 0, 1, 16, 4⟩
    [.setLength 3 false, .append 128, .slice (some (-2)) none, .incRes 2 none, .setLength 0 true]).events = [] := by
  decide

/-- under the invariant the observations agree: `len = end_step - start_step`, `steps` lists one
step per event, namely `start_step + k`, iteration and indexing (from either end) return the same
events, and indexing outside `-len..len-1` raises `IndexError` -/
theorem observations_consistent (c : Cls α) (s : Seq α) (h : Inv c s) :
    (s.len : Int) = s.stop - s.start ∧ s.iter.length = s.len ∧
    s.steps.length = s.len ∧ (∀ k, k < s.len → s.steps[k]? = some (s.start + k)) ∧
    (∀ k (hk : k < s.iter.length), s.index (k : Int) = .ok s.iter[k] ∧ s.index ((k : Int) - s.len) = .ok s.iter[k]) ∧
    (∀ i : Int, (s.len : Int) ≤ i ∨ i < -(s.len : Int) → s.index i = .error .indexError) :=
  obs_consistent c s h

/-- Melody events stay within -2..127 (the literal bounds of the property text; `melodyCls.valid`
uses the constants regenerated from the source) -/
theorem melody_in_range (s : Seq Int) (h : Inv melodyCls s) : ∀ e ∈ s.events, -2 ≤ e ∧ e ≤ 127 :=
  melody_events_in_range s h

/-- `set_length(n)` yields exactly `n` events and a step range of exactly `n` steps -/
theorem set_length_exact (c : Cls α) (s : Seq α) (n : Int) (fl : Bool) (hn : 0 ≤ n) (hi : Inv c s) :
    (setLength c s n fl).events.length = n.toNat ∧ (setLength c s n fl).stop - (setLength c s n fl).start = n := by
  refine ⟨setLength_length c s n fl hn, ?_⟩
  have := hi.1
  cases fl
  · obtain ⟨a, b, _, _⟩ := setLength_fields_right c s n; rw [a, b]; omega
  · obtain ⟨a, b, _, _⟩ := setLength_fields_left c s n; rw [a, b]; omega

example : (setLength (simpleCls (0 : Int)) ⟨[1, 2, 3], 4, 7, 16, 4⟩ 5 true).events = [0, 0, 1, 2, 3] := by decide

/-- `set_length` keeps the retained side.  From the right: `start_step` stays, shrinking keeps the
first `n` events, growing appends pad events after all old events (the first new event is what
`Melody`'s scan decides, see `melody_set_length_first_new`).  From the left: `end_step` stays,
shrinking keeps the last `n` events, growing prepends pad events. -/
theorem set_length_keeps (c : Cls α) (s : Seq α) (n : Int) (hn : 0 ≤ n) :
    ((setLength c s n false).start = s.start ∧
      (setLength c s n false).events =
        if n.toNat ≤ s.events.length then s.events.take n.toNat
        else s.events ++ ((c.sustain s.events).getD c.pad :: List.replicate (n.toNat - s.events.length - 1) c.pad)) ∧
    ((setLength c s n true).stop = s.stop ∧
      (setLength c s n true).events =
        if n.toNat ≤ s.events.length then s.events.drop (s.events.length - n.toNat)
        else List.replicate (n.toNat - s.events.length) c.pad ++ s.events) :=
  ⟨⟨(setLength_fields_right c s n).1, setLength_events_right c s n hn⟩,
   ⟨(setLength_fields_left c s n).2.1, setLength_events_left c s n hn⟩⟩

/-- `Melody.set_length`'s scan returns NOTE_OFF exactly when a note is sounding (the last event
other than NO_EVENT is a pitch), and nothing otherwise -/
theorem melody_sustain_iff (evs : List Int) :
    (melodyCls.sustain evs = some MELODY_NOTE_OFF ↔ Sounding evs) ∧
    (melodyCls.sustain evs = none ↔ ¬ Sounding evs) :=
  ⟨melSustain_iff evs, melSustain_none_iff evs⟩

/-- growing a melody on the right: the first new step is NOTE_OFF iff a note is sounding, else
NO_EVENT; all old events are kept -/
theorem melody_set_length_first_new (s : Seq Int) (n : Int) (hn : (s.events.length : Int) < n) :
    (setLength melodyCls s n false).events.take s.events.length = s.events ∧
    (Sounding s.events → (setLength melodyCls s n false).events[s.events.length]? = some MELODY_NOTE_OFF) ∧
    (¬ Sounding s.events → (setLength melodyCls s n false).events[s.events.length]? = some MELODY_NO_EVENT) := by
  have h1 : ¬ n.toNat ≤ s.events.length := by omega
  rw [setLength_events_right melodyCls s n (by omega), if_neg h1]
  refine ⟨by simp, ?_, ?_⟩
  · intro hs
    have : melSustain s.events = some MELODY_NOTE_OFF := (melSustain_iff _).2 hs
    simp [this, melodyCls]
  · intro hs
    have : melSustain s.events = none := (melSustain_none_iff _).2 hs
    simp [this, melodyCls]

example : Sounding [60, -2] ∧ ¬ Sounding [60, -1, -2] := by
  constructor
  · exact ⟨[], 60, [-2], rfl, by decide, by decide, by simp [MELODY_NO_EVENT]⟩
  · rw [← melSustain_iff]; decide
example : (setLength melodyCls ⟨[60, -2], 0, 2, 16, 4⟩ 4 false).events = [60, -2, -1, -2] := by decide

/-- a slice starts at `start_step + clamp(i)`, contains the cleaned slice of the events and keeps
the resolution -/
theorem slice_offset (c : Cls α) (s s' : Seq α) (i j : Option Int) (h : step c s (.slice i j) = .ok s') :
    s'.start = s.start + (sliceLo s.events.length i : Int) ∧ s'.events = c.clean (pySlice s.events i j) ∧
    s'.spb = s.spb ∧ s'.spq = s.spq :=
  slice_offset' c s s' i j h

/-- slices carry the step offset of the elements they contain: the slice lies within the source's
step range, and (before the class's cleaning) the element at step `t` of the slice is the element
at step `t` of the source -/
theorem slice_elements (c : Cls α) (hc : Lawful c) (s s' : Seq α) (i j : Option Int) (hi : Inv c s)
    (h : step c s (.slice i j) = .ok s') :
    s.start ≤ s'.start ∧ s'.start + (s'.events.length : Int) ≤ s.stop ∧
    ∃ raw, s'.events = c.clean raw ∧ ∀ k, k < raw.length →
      raw[k]? = s.events[((s'.start + (k : Int)) - s.start).toNat]? :=
  slice_elements' c hc s s' i j hi h

/-- the only thing `Melody`'s cleaning ever does to an element is to turn a NOTE_OFF into NO_EVENT;
for the other classes cleaning is the identity -/
theorem clean_pointwise (l : List Int) (k : Nat) :
    ((melodyCls.clean l)[k]? = l[k]? ∨
      ((melodyCls.clean l)[k]? = some MELODY_NO_EVENT ∧ l[k]? = some MELODY_NOTE_OFF)) ∧
    (∀ l' : List DrumEv, drumCls.clean l' = l') ∧ (∀ l' : List String, chordCls.clean l' = l') ∧
    (∀ (pad : α) (l' : List α), (simpleCls pad).clean l' = l') :=
  ⟨melClean_getElem l k, fun _ => rfl, fun _ => rfl, fun _ _ => rfl⟩

/-- `increase_resolution(k)`, `k ≥ 1`: length, start, end, steps per bar and steps per quarter are
all multiplied by `k` and original event `i` sits at index `i * k` -/
theorem inc_res_scales (c : Cls α) (s : Seq α) (k : Int) (fill : Option α) (hk : 1 ≤ k) :
    (incRes c s k fill).events.length = s.events.length * k.toNat ∧
    (incRes c s k fill).start = s.start * k ∧ (incRes c s k fill).stop = s.stop * k ∧
    (incRes c s k fill).spb = s.spb * k ∧ (incRes c s k fill).spq = s.spq * k ∧
    ∀ i, (incRes c s k fill).events[i * k.toNat]? = s.events[i]? :=
  incRes_scales' c s k fill hk

example : (incRes melodyCls ⟨[60, -1], 2, 4, 16, 4⟩ 3 none).events = [60, -2, -2, -1, -2, -2] ∧
    (incRes melodyCls ⟨[60, -1], 2, 4, 16, 4⟩ 3 none).stop = 12 ∧
    (incRes melodyCls ⟨[60, -1], 2, 4, 16, 4⟩ 3 none).spb = 48 := by decide

/-- what the other operations leave alone (append: everything but the new last event; deepcopy:
everything up to the class's cleaning; set_length / slice: the resolution) -/
theorem step_frame (c : Cls α) (s s' : Seq α) (op : Op α) (h : step c s op = .ok s') :
    match op with
    | .append e => s'.events = s.events ++ [e] ∧ s'.start = s.start ∧ s'.spb = s.spb ∧ s'.spq = s.spq
    | .setLength _ _ => s'.spb = s.spb ∧ s'.spq = s.spq
    | .slice _ _ => s'.spb = s.spb ∧ s'.spq = s.spq
    | .sliceStep _ _ _ => s'.spb = s.spb ∧ s'.spq = s.spq
    | .deepcopy => s'.events = c.clean s.events ∧ s'.start = s.start ∧ s'.spb = s.spb ∧ s'.spq = s.spq
    | .reinit ev st b q => s'.events = c.clean ev ∧ s'.start = st ∧ s'.spb = b ∧ s'.spq = q
    | .reset => s'.events = [] ∧ s'.start = 0
    | .incRes _ _ => True :=
  step_frame' c s s' op h

/-- lock-step against the abstract list model of the property text: on states satisfying the
invariant the implementation model and the abstract `(start, List event)` model (`astep`, plain
list functions, no end step) produce the same result for every operation — the same abstract
state, or the same exception -/
theorem refines_abstract (c : Cls α) (s : Seq α) (op : Op α) (hi : Inv c s) (hok : OpOk c op) :
    (step c s op).map Seq.abs = astep c s.abs op :=
  refines_abstract' c s op hi hok

/-! ## LeadSheet -/

theorem lead_inv_init :
    (∀ l l', lstep l .reset = .ok l' → LInv l') ∧
    (∀ l l' mev ms mb mq cev cs cb cq, lstep l (.init mev ms mb mq cev cs cb cq) = .ok l' → LInv l') :=
  ⟨fun l l' h => by
    simp only [lstep] at h; cases h
    exact ⟨⟨by simp [Seq.empty], by simp [Seq.empty]⟩, ⟨by simp [Seq.empty], by simp [Seq.empty]⟩,
      rfl, rfl, rfl, rfl, rfl⟩,
   fun l l' mev ms mb mq cev cs cb cq h => by
    simp only [lstep] at h
    obtain ⟨m', hm, h⟩ := bind_ok _ _ _ h
    obtain ⟨c', hc, h⟩ := bind_ok _ _ _ h
    obtain ⟨e, a1, a2, a3, a4, a5⟩ := mkLeadSheet_ok _ _ _ h
    subst e
    exact ⟨fromEventList_inv _ melody_lawful _ _ _ _ _ hm, fromEventList_inv _ chord_lawful _ _ _ _ _ hc,
      a1, a4, a5, a2, a3⟩⟩

/-- every LeadSheet operation keeps melody and chords individually consistent and in agreement on
length, step range and resolution -/
theorem lead_inv_step (l l' : LeadSheet) (op : LOp) (hi : LInv l) (hok : LOpOk op) (h : lstep l op = .ok l') :
    LInv l' :=
  lead_inv_step' l l' op hi hok h

theorem lead_inv_reachable (ops : List LOp) (l : LeadSheet) (hi : LInv l) (hok : ∀ op ∈ ops, LOpOk op) :
    LInv (lrunSkip l ops) :=
  lead_inv_reachable' ops l hi hok

/-- iteration pairs melody and chords, has `len` elements, agrees with indexing, melody part
within -2..127 -/
theorem lead_observations_consistent (l : LeadSheet) (hi : LInv l) :
    (l.len : Int) = l.melody.stop - l.melody.start ∧ l.iter.length = l.len ∧
    l.steps.length = l.len ∧ (∀ k, k < l.len → l.steps[k]? = some (l.melody.start + k)) ∧
    (∀ k (hk : k < l.iter.length), l.index (k : Int) = .ok l.iter[k] ∧ l.index ((k : Int) - l.len) = .ok l.iter[k]) ∧
    (∀ i : Int, (l.len : Int) ≤ i ∨ i < -(l.len : Int) → l.index i = .error .indexError) ∧
    (∀ e ∈ l.iter, -2 ≤ e.1 ∧ e.1 ≤ 127) :=
  lead_obs_consistent' l hi

/-- slicing a consistent lead sheet never raises MelodyChordsMismatchError and gives a lead sheet
with the clamped start offset and the sliced melody / chords -/
theorem lead_slice_ok (l : LeadSheet) (i j : Option Int) (hi : LInv l) :
    ∃ l', lstep l (.slice i j) = .ok l' ∧
      l'.melody.start = l.melody.start + (sliceLo l.len i : Int) ∧
      l'.len = sliceHi l.len j - sliceLo l.len i ∧
      l'.chords.events = pySlice l.chords.events i j ∧
      l'.melody.events = melClean (pySlice l.melody.events i j) :=
  lead_slice_ok' l i j hi

/-- `LeadSheet.set_length(n)`: exactly `n` (melody, chord) pairs over exactly `n` steps, start kept;
melody and chords are each cut / padded as `set_length_keeps` says -/
theorem lead_set_length_exact (l : LeadSheet) (n : Int) (hn : 0 ≤ n) :
    ∃ l', lstep l (.setLength n) = .ok l' ∧ l'.len = n.toNat ∧ l'.iter.length = n.toNat ∧
      l'.melody.stop - l'.melody.start = n ∧ l'.melody.start = l.melody.start ∧
      l'.melody = setLength melodyCls l.melody n false ∧ l'.chords = setLength chordCls l.chords n false := by
  refine ⟨_, rfl, ?_, ?_, ?_, ?_, rfl, rfl⟩
  · exact setLength_length _ _ _ _ hn
  · simp only [LeadSheet.iter, List.length_zip, setLength_length _ _ _ _ hn, Nat.min_self]
  · obtain ⟨a, b, _, _⟩ := setLength_fields_right melodyCls l.melody n
    rw [a, b]; omega
  · exact (setLength_fields_right melodyCls l.melody n).1

example : ∃ l, lstep ⟨Seq.empty 0 0 0, Seq.empty 0 0 0⟩ (.init [60, -2] 0 16 4 ["C", "Am"] 0 16 4) = .ok l ∧
    (lstepSkip l (.slice (some 1) none)).iter = [(-2, "Am")] ∧
    (lstepSkip l (.slice (some 1) none)).melody.start = 1 := ⟨_, rfl, by decide, by decide⟩

/-! ## PianorollSequence -/

/-- every operation keeps start / resolution / pitch range, `len = end_step - start_step`, and does
what it says to the event list -/
theorem roll_step (r r' : Roll) (op : ROp) (h : rstep r op = .ok r') :
    r'.start = r.start ∧ r'.spq = r.spq ∧ r'.minPitch = r.minPitch ∧ r'.maxPitch = r.maxPitch ∧
    (r'.len : Int) = r'.stop - r'.start ∧
    (match op with
     | .append e false => r'.events = r.events ++ [e]
     | .append _ true => ∃ e', r'.events = r.events ++ [e'] ∧ ∀ x ∈ e', 0 ≤ x ∧ x ≤ r.maxPitch - r.minPitch
     | .setLength n _ => (r'.events.length : Int) = n
     | .deepcopy => r' = r) :=
  roll_step' r r' op h

/-- `set_length(n)`, `n ≥ 0`, never trips its assertion, yields exactly `n` steps, keeps the
first events and pads with empty events -/
theorem roll_set_length_exact (r : Roll) (n : Int) (h : 0 ≤ n) :
    ∃ r', rstep r (.setLength n false) = .ok r' ∧ r' = rstepSkip r (.setLength n false) ∧
      r'.events.length = n.toNat ∧ r'.numSteps = n ∧ r'.stop - r'.start = n ∧
      r'.start = r.start ∧ r'.spq = r.spq ∧
      r'.events = (if n.toNat ≤ r.events.length then r.events.take n.toNat
        else r.events ++ List.replicate (n.toNat - r.events.length) []) :=
  roll_set_length' r n h

example : ∃ r', rstep ⟨[[1, 2], []], 2, 4, 0, 127⟩ (.setLength 4 false) = .ok r' ∧
    r'.events = [[1, 2], [], [], []] := ⟨_, rfl, by decide⟩

theorem roll_observations_consistent (r : Roll) :
    (r.len : Int) = r.stop - r.start ∧ r.numSteps = r.len ∧ r.steps.length = r.len ∧
    (∀ k, k < r.len → r.steps[k]? = some (r.start + k)) ∧
    (∀ k (hk : k < r.events.length), r.index (k : Int) = .ok r.events[k] ∧ r.index ((k : Int) - r.len) = .ok r.events[k]) ∧
    (∀ i : Int, (r.len : Int) ≤ i ∨ i < -(r.len : Int) → r.index i = .error .indexError) :=
  roll_obs' r

/-! ## BasePerformance (Performance, MetricPerformance) -/

/-- `_append_steps(n)`, `n ≥ 0`: `num_steps` grows by exactly `n`, every time shift stays within
`1..max_shift_steps` if it was, every event but possibly the last is kept -/
theorem perf_append_steps (p : Perf) (n : Int) (hi : PInv p) (hn : 0 ≤ n) :
    ∃ p', appendSteps p n = .ok p' ∧ p'.numSteps = p.numSteps + n ∧ PInv p' ∧
      (ShiftsOk p.maxShift p.events → ShiftsOk p'.maxShift p'.events) ∧
      p'.start = p.start ∧ p'.maxShift = p.maxShift ∧
      p.events.dropLast <+: p'.events ∧ p.events.length ≤ p'.events.length :=
  perf_append_steps' p n hi hn

/-- `_trim_steps(n)`, `n ≥ 0`: `num_steps` shrinks by exactly `n` (to 0 if `n` exceeds it), shifts
stay within bounds, what remains is a prefix of the old events up to a shortened last shift -/
theorem perf_trim_steps (p : Perf) (n : Int) (hi : PInv p) (hn : 0 ≤ n) :
    ∃ p', trimSteps p n = .ok p' ∧ p'.numSteps = p.numSteps - min n p.numSteps ∧ PInv p' ∧
      (ShiftsOk p.maxShift p.events → ShiftsOk p'.maxShift p'.events) ∧
      p'.start = p.start ∧ p'.maxShift = p.maxShift ∧
      p'.events.dropLast <+: p.events ∧ p'.events.length ≤ p.events.length :=
  perf_trim_steps' p n hi hn

/-- the two together, in the form of DESIGN 6.17: `numSteps` changes by exactly `±n` and the shifts
stay in `1..max` -/
theorem perf_append_trim (p : Perf) (n : Int) (hi : PInv p) (hn : 0 ≤ n) (hs : ShiftsOk p.maxShift p.events) :
    (∃ p', appendSteps p n = .ok p' ∧ p'.numSteps = p.numSteps + n ∧ ShiftsOk p.maxShift p'.events) ∧
    (n ≤ p.numSteps → ∃ p', trimSteps p n = .ok p' ∧ p'.numSteps = p.numSteps - n ∧ ShiftsOk p.maxShift p'.events) := by
  constructor
  · obtain ⟨p', a, b, _, d, _, f, _⟩ := perf_append_steps' p n hi hn
    exact ⟨p', a, b, f ▸ d hs⟩
  · intro hle
    obtain ⟨p', a, b, _, d, _, f, _⟩ := perf_trim_steps' p n hi hn
    exact ⟨p', a, by rw [b]; omega, f ▸ d hs⟩

example : ∃ p', appendSteps ⟨[⟨1, 60⟩, ⟨3, 2⟩], 7, 3⟩ 5 = .ok p' ∧
    p'.events = [⟨1, 60⟩, ⟨3, 3⟩, ⟨3, 3⟩, ⟨3, 1⟩] := ⟨_, rfl, by decide⟩
example : ∃ p', trimSteps ⟨[⟨1, 60⟩, ⟨3, 3⟩, ⟨2, 60⟩, ⟨3, 3⟩], 7, 3⟩ 4 = .ok p' ∧
    p'.events = [⟨1, 60⟩, ⟨3, 2⟩] := ⟨_, rfl, by decide⟩

/-- `set_length(n)`, `n ≥ 0`: never trips its assertion, yields exactly `n` steps, keeps the shift
bound, and keeps the events of the retained side (all but a lengthened last shift when growing; a
prefix up to a shortened last shift when shrinking; everything when `n` is the current length) -/
theorem perf_set_length_exact (p : Perf) (n : Int) (hi : PInv p) (hn : 0 ≤ n) :
    ∃ p', pstep p (.setLength n false) = .ok p' ∧ p'.numSteps = n ∧ PInv p' ∧
      (ShiftsOk p.maxShift p.events → ShiftsOk p'.maxShift p'.events) ∧
      p'.start = p.start ∧ p'.maxShift = p.maxShift ∧
      (p.numSteps ≤ n → p.events.dropLast <+: p'.events ∧ p.events.length ≤ p'.events.length) ∧
      (n ≤ p.numSteps → p'.events.dropLast <+: p.events ∧ p'.events.length ≤ p.events.length) ∧
      (n = p.numSteps → p' = p) :=
  perf_set_length' p n hi hn

/-- every operation preserves the validator's guarantee (shifts `≥ 0`), start and
`max_shift_steps`, and the `1..max` bound on shifts as long as appended shifts respect it -/
theorem perf_inv_step (p p' : Perf) (op : POp) (hi : PInv p) (hok : POpOk op) (h : pstep p op = .ok p') :
    PInv p' ∧ p'.start = p.start ∧ p'.maxShift = p.maxShift ∧
      (ShiftsOk p.maxShift p.events → POpShiftOk p.maxShift op → ShiftsOk p'.maxShift p'.events) :=
  perf_inv_step' p p' op hi hok h

theorem perf_inv_reachable (ops : List POp) (p : Perf) (hi : PInv p) (hok : ∀ op ∈ ops, POpOk op) :
    PInv (prunSkip p ops) ∧ (prunSkip p ops).start = p.start ∧ (prunSkip p ops).maxShift = p.maxShift ∧
      (ShiftsOk p.maxShift p.events → (∀ op ∈ ops, POpShiftOk p.maxShift op) →
        ShiftsOk p.maxShift (prunSkip p ops).events) :=
  perf_inv_reachable' ops p hi hok

/-- `steps` has one entry per event, entry `k` is `start_step` plus the shifts before event `k`,
the list is non-decreasing, and `end_step = start_step + num_steps` -/
theorem perf_observations_consistent (p : Perf) (hi : PInv p) :
    p.steps.length = p.len ∧ p.stop = p.start + p.numSteps ∧
    (∀ k, k < p.len → p.steps[k]? = some (p.start + numStepsOf (p.events.take k))) ∧
    p.steps.Pairwise (· ≤ ·) ∧ (∀ x ∈ p.steps, p.start ≤ x) ∧
    (∀ k (hk : k < p.events.length), p.index (k : Int) = .ok p.events[k] ∧ p.index ((k : Int) - p.len) = .ok p.events[k]) ∧
    (∀ i : Int, (p.len : Int) ≤ i ∨ i < -(p.len : Int) → p.index i = .error .indexError) := by
  obtain ⟨m1, m2⟩ := stepsFrom_mono p.start p.events hi.2
  obtain ⟨i1, i2⟩ := pyIndex_spec p.events
  exact ⟨stepsFrom_length _ _, rfl, fun k hk => stepsFrom_getElem _ _ k hk, m2, m1, i1, i2⟩

example : PInv ⟨[⟨1, 60⟩, ⟨3, 2⟩], 7, 3⟩ ∧ ShiftsOk 3 [⟨1, 60⟩, ⟨3, 2⟩] := by
  refine ⟨⟨by decide, ?_⟩, ?_⟩ <;> intro e he <;> simp at he <;> rcases he with rfl | rfl <;> decide

/-! ## Melody events stay within -2..127

`melody_in_range` reads the bound off the invariant; the invariant is established by the constructor
(`inv_init`, `inv_from_event_list`) and preserved by every operation (`inv_step`).  Spelled out for
Melody: after ANY single operation of the alphabet — `append` (which rejects anything outside the
range), `set_length` from either end (pads with NO_EVENT, may write one NOTE_OFF), both kinds of
slice, `increase_resolution` (fills with NO_EVENT), `deepcopy`, re-initialisation through
`_from_event_list` (which rejects lists containing anything outside the range), `_reset` — and
after any history.  `Melody.transpose` / `Melody.squash` are not in C17's operation alphabet (the
property statement lists append, set_length, slicing, increase_resolution, deepcopy, truncate and
re-initialisation); their range behaviour is C10's `melody_transpose_fold` / `squash_spec`. -/

theorem melody_step_in_range (s s' : Seq Int) (op : Op Int) (hi : Inv melodyCls s)
    (hok : match op with | .setLength n _ => 0 ≤ n | .incRes k _ => 1 ≤ k | _ => True)
    (h : step melodyCls s op = .ok s') : ∀ e ∈ s'.events, -2 ≤ e ∧ e ≤ 127 := by
  refine melody_events_in_range s' (step_inv melodyCls melody_lawful s s' op hi ?_ h)
  cases op <;> first | trivial | exact hok | exact ⟨hok, by simp [melodyCls]⟩

/-- out-of-range events never get in: `append` and re-initialisation reject them, object unchanged -/
example : step melodyCls ⟨[60], 0, 1, 16, 4⟩ (.append 128) = .error .valueError ∧
    step melodyCls ⟨[60], 0, 1, 16, 4⟩ (.append (-3)) = .error .valueError ∧
    step melodyCls ⟨[60], 0, 1, 16, 4⟩ (.reinit [60, 200] 0 16 4) = .error .valueError ∧
    stepSkip melodyCls ⟨[60], 0, 1, 16, 4⟩ (.append 128) = ⟨[60], 0, 1, 16, 4⟩ := ⟨rfl, rfl, rfl, rfl⟩

theorem melody_reachable_in_range (ops : List (Op Int)) (s : Seq Int) (hi : Inv melodyCls s)
    (hok : ∀ op ∈ ops, OpOk melodyCls op) : ∀ e ∈ (runSkip melodyCls s ops).events, -2 ≤ e ∧ e ≤ 127 :=
  melody_events_in_range _ (runSkip_inv melodyCls melody_lawful ops s hi hok)

example : (runSkip melodyCls ⟨[60], 0, 1, 16, 4⟩
    [.append 127, .append 128, .setLength 5 false, .incRes 2 none, .sliceStep none none (-3), .reinit [-1, 0] 2 8 2]).events
    = [-2, 0] := by decide

theorem lead_melody_reachable_in_range (ops : List LOp) (l : LeadSheet) (hi : LInv l)
    (hok : ∀ op ∈ ops, LOpOk op) :
    ∀ e ∈ (lrunSkip l ops).melody.events, -2 ≤ e ∧ e ≤ 127 :=
  melody_events_in_range _ (lead_inv_reachable' ops l hi hok).1

example : (lrunSkip ⟨⟨[60], 0, 1, 16, 4⟩, ⟨["C"], 0, 1, 16, 4⟩⟩
    [.append 200 "G", .append 127 "G", .setLength 4, .sliceStep none none (-1)]).melody.events = [-2, -2, 127, 60] := by decide

/-! ## Extended slices `s[i:j:k]`

What the code does with a stride (and the model transcribes): `self._events.__getitem__(key)`
raises `ValueError` for `k = 0`; otherwise the result is a new sequence of the same class holding
`events[lo], events[lo + k], events[lo + 2k], …` with `start_step = self.start_step + lo`, where
`(lo, hi, k) = slice(i, j, k).indices(len)`, and `end_step = start_step + len(result)`.  The result
is a consistent sequence (`inv_step` covers `Op.sliceStep`), but the clause "slices carry the step
offset of the elements they contain" cannot hold for it: element `m` comes from source step
`start + lo + m·k` and is reported at `start + lo + m` (`strided_slice_misplaces`) — for a negative
stride the reported range even leaves the source's range.  That is why the clause is stated for
unit-stride slices (`slice_elements`), with which stride 1 coincides (`py_slice_step_unit`). -/

theorem py_slice_step_elements (l : List α) (i j : Option Int) (k : Int) (hk : k ≠ 0) :
    (pySliceStep l i j k).length = stepCount (stepLo l.length k i) (stepHi l.length k j) k ∧
    ∀ m, m < stepCount (stepLo l.length k i) (stepHi l.length k j) k →
      0 ≤ stepLo l.length k i + m * k ∧ stepLo l.length k i + m * k < l.length ∧
      (pySliceStep l i j k)[m]? = l[(stepLo l.length k i + (m : Int) * k).toNat]? :=
  pySliceStep_spec l i j k hk

example : pySliceStep [10, 11, 12, 13, 14, 15] (some 1) none 2 = [11, 13, 15] ∧
    pySliceStep [10, 11, 12, 13, 14, 15] none none (-1) = [15, 14, 13, 12, 11, 10] ∧
    pySliceStep [10, 11, 12, 13, 14, 15] (some (-2)) none (-2) = [14, 12, 10] ∧
    stepLo 6 (-2) (some (-2)) = 4 ∧ stepLo 0 (-1) none = -1 := by decide

theorem py_slice_step_unit (l : List α) (i j : Option Int) :
    pySliceStep l i j 1 = pySlice l i j ∧ stepLo l.length 1 i = (sliceLo l.length i : Int) :=
  ⟨pySliceStep_one l i j, stepLo_one l.length i⟩

example : pySliceStep [10, 11, 12, 13] (some (-3)) (some 3) 1 = [11, 12] ∧ stepLo 4 1 (some (-3)) = 1 := by decide

/-- `s[i:j:k]`, `k ≠ 0`: offset, events, resolution; always succeeds on a consistent sequence and
gives a consistent sequence with `len(range(lo, hi, k))` events -/
theorem strided_slice_result (c : Cls α) (hc : Lawful c) (s : Seq α) (i j : Option Int) (k : Int) (hk : k ≠ 0)
    (hi : Inv c s) :
    ∃ s', step c s (.sliceStep i j k) = .ok s' ∧ Inv c s' ∧
      s'.start = s.start + stepLo s.events.length k i ∧ s'.events = c.clean (pySliceStep s.events i j k) ∧
      s'.events.length = stepCount (stepLo s.events.length k i) (stepHi s.events.length k j) k ∧
      s'.spb = s.spb ∧ s'.spq = s.spq := by
  have hv := fromEventList_of_valid c (pySliceStep s.events i j k) (s.start + stepLo s.events.length k i) s.spb s.spq
    (fun e he => hi.2 e (pySliceStep_mem _ _ _ _ e he))
  have hs : step c s (.sliceStep i j k) = .ok ⟨c.clean (pySliceStep s.events i j k), s.start + stepLo s.events.length k i,
      s.start + stepLo s.events.length k i + ((c.clean (pySliceStep s.events i j k)).length : Int), s.spb, s.spq⟩ := by
    simp only [step, hk, if_false]; exact hv
  refine ⟨_, hs, step_inv c hc s _ (.sliceStep i j k) hi trivial hs, rfl, rfl, ?_, rfl, rfl⟩
  simp only [hc.clean_length]
  exact (pySliceStep_spec s.events i j k hk).1

theorem strided_slice_zero_step (c : Cls α) (s : Seq α) (i j : Option Int) :
    step c s (.sliceStep i j 0) = .error .valueError ∧ stepSkip c s (.sliceStep i j 0) = s := by
  simp [step, stepSkip]

example : step melodyCls ⟨[60, -2], 4, 6, 16, 4⟩ (.sliceStep (some 1) none 0) = .error .valueError := rfl

/-- where the elements of `s[i:j:k]` come from and where the slice says they are: element `m` is
the source element at absolute step `start + lo + m·k` (a step of the source), the slice reports it
at `start + lo + m`, and the two agree exactly for `m = 0` or `k = 1` -/
theorem strided_slice_misplaces (c : Cls α) (s s' : Seq α) (i j : Option Int) (k : Int) (hk : k ≠ 0)
    (hi : Inv c s) (h : step c s (.sliceStep i j k) = .ok s') :
    ∃ raw, s'.events = c.clean raw ∧ ∀ m, m < raw.length →
      s.start ≤ s.start + (stepLo s.events.length k i + m * k) ∧
      s.start + (stepLo s.events.length k i + m * k) < s.stop ∧
      raw[m]? = s.events[(stepLo s.events.length k i + (m : Int) * k).toNat]? ∧
      (s'.start + (m : Int) = s.start + (stepLo s.events.length k i + m * k) ↔ (m = 0 ∨ k = 1)) := by
  simp only [step, hk, if_false] at h
  obtain ⟨_, he, hs, _, _, _⟩ := fromEventList_ok _ _ _ _ _ _ h
  obtain ⟨hl, hg⟩ := pySliceStep_spec s.events i j k hk
  refine ⟨_, he, ?_⟩
  intro m hm
  obtain ⟨a, b, e⟩ := hg m (hl ▸ hm)
  have h1 := hi.1
  refine ⟨by omega, by omega, e, ?_⟩
  rw [hs]
  constructor
  · intro heq
    have h2 : (m : Int) * (k - 1) = 0 := by rw [Int.mul_sub, Int.mul_one]; omega
    rcases Int.mul_eq_zero.1 h2 with h3 | h3
    · left; omega
    · right; omega
  · rintro (h3 | h3)
    · subst h3; simp
    · subst h3; omega

example : ∃ s', step (simpleCls (0 : Int)) ⟨[1, 2, 3, 4, 5, 6], 4, 10, 16, 4⟩ (.sliceStep none none (-1)) = .ok s' ∧
    s'.events = [6, 5, 4, 3, 2, 1] ∧ s'.start = 9 ∧ s'.stop = 15 := ⟨_, rfl, by decide, by decide, by decide⟩
example : ∃ s', step (simpleCls (0 : Int)) ⟨[1, 2, 3, 4, 5, 6], 4, 10, 16, 4⟩ (.sliceStep (some 1) none 2) = .ok s' ∧
    s'.events = [2, 4, 6] ∧ s'.start = 5 ∧ s'.stop = 8 := ⟨_, rfl, by decide, by decide, by decide⟩

/-- `LeadSheet[i:j:k]`, `k ≠ 0`, on a consistent lead sheet: never MelodyChordsMismatchError, the
result is a consistent lead sheet of `len(range(lo, hi, k))` pairs starting at `start + lo` -/
theorem lead_strided_slice_ok (l : LeadSheet) (i j : Option Int) (k : Int) (hk : k ≠ 0) (hi : LInv l) :
    ∃ l', lstep l (.sliceStep i j k) = .ok l' ∧ LInv l' ∧
      l'.melody.start = l.melody.start + stepLo l.len k i ∧
      l'.len = stepCount (stepLo l.len k i) (stepHi l.len k j) k ∧
      l'.chords.events = pySliceStep l.chords.events i j k ∧
      l'.melody.events = melClean (pySliceStep l.melody.events i j k) := by
  obtain ⟨im, ic, hlen, hst, hsp, hb, hq⟩ := hi
  obtain ⟨m', hm, _, m1, m2, m3, m4, m5⟩ := strided_slice_result melodyCls melody_lawful l.melody i j k hk im
  obtain ⟨c', hc, _, c1, c2, c3, c4, c5⟩ := strided_slice_result chordCls chord_lawful l.chords i j k hk ic
  have hmk : mkLeadSheet m' c' = .ok ⟨m', c'⟩ := by
    unfold mkLeadSheet
    rw [if_neg]
    have e1 := (step_inv melodyCls melody_lawful _ _ (.sliceStep i j k) im trivial hm).1
    have e2 := (step_inv chordCls chord_lawful _ _ (.sliceStep i j k) ic trivial hc).1
    simp only [not_or, Decidable.not_not]
    refine ⟨by rw [m3, c3, hlen], by rw [m4, c4, hb], by rw [m5, c5, hq], by rw [m1, c1, hst, hlen], ?_⟩
    have : m'.events.length = c'.events.length := by rw [m3, c3, hlen]
    have : m'.start = c'.start := by rw [m1, c1, hst, hlen]
    omega
  have hl : lstep l (.sliceStep i j k) = .ok ⟨m', c'⟩ := by
    simp only [lstep, hm, hc, bind, Except.bind]; exact hmk
  refine ⟨_, hl, lead_inv_step' l _ (.sliceStep i j k) ⟨im, ic, hlen, hst, hsp, hb, hq⟩ trivial hl, m1, m3, c2, m2⟩

example : ∃ l', lstep ⟨⟨[60, -2, -1, 62], 0, 4, 16, 4⟩, ⟨["C", "C", "G", "G"], 0, 4, 16, 4⟩⟩ (.sliceStep none none (-1)) = .ok l' ∧
    l'.iter = [(62, "G"), (-1, "G"), (-2, "C"), (60, "C")] ∧ l'.melody.start = 3 ∧ l'.melody.stop = 7 :=
  ⟨_, rfl, by decide, by decide, by decide⟩

/-! ## NotePerformance

Not in the property's list of classes (its `set_length` is a documented no-op, so "set_length(n)
yields exactly n steps" is false for it by design — `nperf_set_length_noop`).  Everything else the
property says holds and is proved: observations agree with each other, `truncate` keeps a prefix,
`append` adds at the end, nothing else changes. -/

theorem nperf_step (p : NPerf) (e : NEvent) (n : Int) :
    nstep p (.append e) = .ok { p with events := p.events ++ [e] } ∧
    nstep p .appendBad = .error .valueError ∧ nstepSkip p .appendBad = p ∧
    nstep p .deepcopy = .ok p ∧
    (0 ≤ n → nstep p (.truncate n) = .ok { p with events := p.events.take n.toNat }) ∧
    (∃ p', nstep p (.truncate n) = .ok p' ∧ p'.events <+: p.events ∧ p'.start = p.start ∧ p'.maxShift = p.maxShift) := by
  refine ⟨rfl, rfl, rfl, rfl, ?_, _, rfl, ?_, rfl, rfl⟩
  · intro hn
    simp only [nstep, pySlice, sliceLo, sliceHi, clampIdx_of_nonneg _ _ hn]
    congr 2
    simp only [List.drop_zero, Nat.sub_zero, List.take_eq_take_iff]
    omega
  · simp only [pySlice, sliceLo, List.drop_zero]
    exact List.take_prefix _ _

example : (nrunSkip ⟨[], 3, 10⟩ [.append ⟨2, 60, 5, 4⟩, .append ⟨1, 62, 5, 2⟩, .appendBad, .truncate (-1)]).events = [⟨2, 60, 5, 4⟩] := by
  decide

/-- the real behaviour of `NotePerformance.set_length`: nothing happens, whatever the arguments -/
theorem nperf_set_length_noop (p : NPerf) (n : Int) (fl : Bool) :
    nstep p (.setLength n fl) = .ok p ∧ nstepSkip p (.setLength n fl) = p ∧
    (p.numSteps ≠ n → (nstepSkip p (.setLength n fl)).numSteps ≠ n) :=
  ⟨rfl, rfl, fun h => h⟩

example : (nstepSkip ⟨[⟨2, 60, 5, 4⟩, ⟨1, 62, 5, 2⟩], 3, 10⟩ (.setLength 0 false)).numSteps = 5 := by decide

/-- `steps` lists the onset step of every event (start plus the shifts up to and including its
own), `end_step - start_step = num_steps` = all shifts plus the last duration, indexing and
iteration agree, and with non-negative shifts the steps never decrease -/
theorem nperf_observations_consistent (p : NPerf) :
    p.steps.length = p.len ∧ p.stop - p.start = p.numSteps ∧
    p.numSteps = shiftSum p.events + (match p.events.getLast? with | some e => e.dur | none => 0) ∧
    (∀ k, k < p.len → p.steps[k]? = some (p.start + shiftSum (p.events.take (k + 1)))) ∧
    ((∀ e ∈ p.events, 0 ≤ e.shift) → p.steps.Pairwise (· ≤ ·) ∧ ∀ x ∈ p.steps, p.start ≤ x) ∧
    (∀ k (hk : k < p.events.length), p.index (k : Int) = .ok p.events[k] ∧ p.index ((k : Int) - p.len) = .ok p.events[k]) ∧
    (∀ i : Int, (p.len : Int) ≤ i ∨ i < -(p.len : Int) → p.index i = .error .indexError) := by
  obtain ⟨i1, i2⟩ := pyIndex_spec p.events
  refine ⟨nstepsFrom_length _ _, by simp only [NPerf.stop]; omega, rfl, fun k hk => nstepsFrom_getElem _ _ k hk, ?_, i1, i2⟩
  intro h
  obtain ⟨a, b⟩ := nstepsFrom_mono p.start p.events h
  exact ⟨b, a⟩

example : (⟨[⟨2, 60, 5, 4⟩, ⟨1, 62, 5, 2⟩], 3, 10⟩ : NPerf).steps = [5, 6] ∧
    (⟨[⟨2, 60, 5, 4⟩, ⟨1, 62, 5, 2⟩], 3, 10⟩ : NPerf).numSteps = 5 ∧
    (⟨[⟨2, 60, 5, 4⟩, ⟨1, 62, 5, 2⟩], 3, 10⟩ : NPerf).stop = 8 := by decide

/-- after any history: start and max_shift_steps are what they were, and every shift is
non-negative if the initial and the appended ones are -/
theorem nperf_reachable (ops : List NOp) (p : NPerf) :
    (nrunSkip p ops).start = p.start ∧ (nrunSkip p ops).maxShift = p.maxShift ∧
    ((∀ e ∈ p.events, 0 ≤ e.shift) → (∀ e, NOp.append e ∈ ops → 0 ≤ e.shift) →
      ∀ e ∈ (nrunSkip p ops).events, 0 ≤ e.shift) := by
  induction ops generalizing p with
  | nil => exact ⟨rfl, rfl, fun h _ => h⟩
  | cons op ops ih =>
    simp only [nrunSkip, List.foldl_cons]
    obtain ⟨a, b, c⟩ := ih (nstepSkip p op)
    simp only [nrunSkip] at a b c
    have hs : (nstepSkip p op).start = p.start ∧ (nstepSkip p op).maxShift = p.maxShift ∧
        ((∀ e ∈ p.events, 0 ≤ e.shift) → (∀ e, op = .append e → 0 ≤ e.shift) →
          ∀ e ∈ (nstepSkip p op).events, 0 ≤ e.shift) := by
      cases op with
      | append e =>
        refine ⟨rfl, rfl, ?_⟩
        intro h1 h2 x hx
        simp only [nstepSkip, nstep, List.mem_append, List.mem_singleton] at hx
        rcases hx with hx | hx
        · exact h1 x hx
        · rw [hx]; exact h2 e rfl
      | appendBad => exact ⟨rfl, rfl, fun h _ => h⟩
      | setLength n fl => exact ⟨rfl, rfl, fun h _ => h⟩
      | truncate n =>
        refine ⟨rfl, rfl, ?_⟩
        intro h1 _ x hx
        exact h1 x (pySlice_mem _ _ _ x hx)
      | deepcopy => exact ⟨rfl, rfl, fun h _ => h⟩
    refine ⟨a.trans hs.1, b.trans hs.2.1, ?_⟩
    intro h1 h2
    exact c (hs.2.2 h1 (fun e he => h2 e (by simp [he]))) (fun e he => h2 e (by simp [he]))

end NSV.C17
