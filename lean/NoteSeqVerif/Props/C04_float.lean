import NoteSeqVerif.Proofs.C04_float
/-! C04 — the timing clause in FLOATING POINT (`R` = any rounding operator with the algebraic facts of
`Proofs/Rounding.lean`; the executable `rne53` that the correspondence compares bit-exactly with the
Python is one: `rounding_rne53`).

What is float in `abc_parser.py`, transcribed in `Model/C04.lean`: the note length is a
`fractions.Fraction` (exact); the tempo is ONE rounding of the notated `Q = 4·(beat length)·rate`;
a clock advance is `R (R (1 / R (qpm / 60)) · R (4·length))`; `current_time += …` is one more rounding.
`FBody R st c`: the parser is in the tune body with the notated unit length `c.unit` (exact), the tempo
`qpm = R c.qpm` and a float clock.  `specDurs c items` are the NOTATED durations
`unit·factor·240/Q` (exact rationals, `Proofs/C04_time.lean`); `posDurs c items`: every note token has
a positive notated length under a positive notated tempo. -/
namespace NSV.C04
open NSV

variable {R : ℚ → ℚ}

/-- ONE NOTE TOKEN, any rounding: for a positive notated length under a positive notated tempo the
float clock advance `dt` is positive and within `6·2^-53` (relative) of the notated duration
`d = unit·factor·240/Q` (5 roundings: tempo, `/60`, `1/·`, `float(4·length)`, `·`); the note is
`(clock, R (clock + dt))`, its end is not before its start, and the clock moves to the note's end. -/
theorem abc_float_note (hR : Rounding R) (st st' : St) (c : Ctx) (hb : FBody R st c)
    (a : Acc) (l : Char) (o : List Bool) (len : LenSpec)
    (hl : 0 < c.unit * specFactor len) (hq : 0 < c.qpm)
    (h : stepTok R st (.note a l o len) = .ok st') :
    ∃ p dt, 0 < dt ∧ Near 53 5 dt (c.unit * specFactor len * 240 / c.qpm) ∧
      |dt - c.unit * specFactor len * 240 / c.qpm| ≤ c.unit * specFactor len * 240 / c.qpm * (6 * u53) ∧
      st'.notes = st.notes ++ [newNote p st.time (R (st.time + dt))] ∧
      st.time ≤ R (st.time + dt) ∧ st'.time = R (st.time + dt) ∧ FBody R st' c := by
  obtain ⟨hb', hcase⟩ := stepItem_fbody hR hb (i := .tok (.note a l o len)) rfl h
  rcases hcase with ⟨a', l', o', len', p, dt, hi, hdt, hn, ht⟩ | ⟨hni, _, _⟩
  · simp only [Item.tok.injEq, Tok.note.injEq] at hi
    obtain ⟨rfl, rfl, rfl, rfl⟩ := hi
    obtain ⟨hpos, hnear⟩ := seconds_float hR hq hl hdt
    have hd0 : 0 ≤ c.unit * specFactor len * 240 / c.qpm := by positivity
    have habs := near_abs hnear hd0 (by norm_num)
    refine ⟨p, dt, hpos, hnear, ?_, hn, ?_, ht, hb'⟩
    · norm_num at habs ⊢; linarith
    · have := hR.mono st.time (st.time + dt) (by linarith)
      rwa [hb.tfix] at this
  · simp [isNote] at hni

/-- ORDER, any rounding, for every body item list without broken-rhythm tokens with positive notated
lengths that the parser accepts: one note per note token; every note ends no earlier than it starts
(`end = R (start + dt) ≥ start`); each note starts exactly where the previous one ends, so onsets are
non-decreasing in token order; the clock never goes back and ends at the last note's end. -/
theorem abc_float_order (hR : Rounding R) (st st' : St) (c : Ctx) (items : List Item) (hb : FBody R st c)
    (hnb : ∀ i ∈ items, isBrokenItem i = false) (hpos : posDurs c items) (h : runItems R st items = .ok st') :
    ∃ new, st'.notes = st.notes ++ new ∧ new.length = (specDurs c items).length ∧
      st.time ≤ st'.time ∧ (∀ n ∈ new, st.time ≤ n.start ∧ n.start ≤ n.end_ ∧ n.end_ ≤ st'.time) ∧
      new.Pairwise (fun a b => a.start ≤ b.start ∧ a.end_ ≤ b.start) := by
  obtain ⟨new, hnew, hch⟩ := runItems_fbody hR hb hnb hpos h
  obtain ⟨h1, _, h3, h4⟩ := FChain.order hR hb.tfix hch
  exact ⟨new, hnew, hch.length, h1, h3, h4⟩

/-- ACCURACY, any rounding: if the clock is `m + 5` roundings away from the notated time `T ≥ 0`
(`m = 0`, `T = 0` at the first music line), the k-th note of the body starts `m + k + 5` and ends
`m + k + 6` roundings away from the notated running sums `T + Σ_{j<k} d_j`, `T + Σ_{j≤k} d_j`. -/
theorem abc_float_onsets_near (hR : Rounding R) (st st' : St) (c : Ctx) (items : List Item) (T : ℚ) (m : ℕ)
    (hb : FBody R st c) (hnb : ∀ i ∈ items, isBrokenItem i = false) (hpos : posDurs c items)
    (hT : 0 ≤ T) (ht : Near 53 (m + 5) st.time T) (h : runItems R st items = .ok st') :
    Near 53 (m + (specDurs c items).length + 5) st'.time (T + (specDurs c items).sum) ∧
    ∀ k, k < (specDurs c items).length → ∃ n, st'.notes[st.notes.length + k]? = some n ∧
      Near 53 (m + k + 5) n.start (T + ((specDurs c items).take k).sum) ∧
      Near 53 (m + k + 6) n.end_ (T + ((specDurs c items).take (k + 1)).sum) := by
  obtain ⟨new, hnew, hch⟩ := runItems_fbody hR hb hnb hpos h
  obtain ⟨r1, r2⟩ := FChain.near hR ht hT (posDurs_pos hpos) hch
  refine ⟨r1, fun k hk => ?_⟩
  obtain ⟨n, hn, a, b⟩ := r2 k hk
  refine ⟨n, ?_, a, b⟩
  rw [hnew, List.getElem?_append_right (by omega)]
  simpa using hn

/-- THE ERROR BOUND, from the first music line (clock 0): the k-th onset differs from the notated
running sum `Σ_{j<k} d_j` by at most `(k + 6)·2^-53` of it, the k-th note end from `Σ_{j≤k} d_j` by at
most `(k + 7)·2^-53` of it — for every tune body of fewer than 94 906 000 notes (`(k+6)(k+7) ≤ 2^53`).
The constant: 5 roundings per duration, one per `current_time +=`, and sums of non-negative terms
do not add their indices. -/
theorem abc_float_onsets (hR : Rounding R) (st st' : St) (c : Ctx) (items : List Item)
    (hb : FBody R st c) (hnb : ∀ i ∈ items, isBrokenItem i = false) (hpos : posDurs c items)
    (ht : st.time = 0) (h : runItems R st items = .ok st') :
    ∀ k, k < (specDurs c items).length → (k + 6) * (k + 7) ≤ 2 ^ 53 →
      ∃ n, st'.notes[st.notes.length + k]? = some n ∧
        |n.start - ((specDurs c items).take k).sum| ≤ ((specDurs c items).take k).sum * (((k : ℚ) + 6) * u53) ∧
        |n.end_ - ((specDurs c items).take (k + 1)).sum| ≤
          ((specDurs c items).take (k + 1)).sum * (((k : ℚ) + 7) * u53) := by
  intro k hk hsz
  have h0 : Near 53 (0 + 5) st.time 0 := by rw [ht]; exact near_zero_zero _
  obtain ⟨_, r⟩ := abc_float_onsets_near hR st st' c items 0 0 hb hnb hpos (le_refl _) h0 h
  obtain ⟨n, hn, a, b⟩ := r k hk
  have hd := posDurs_pos hpos
  have hs1 : 0 ≤ ((specDurs c items).take k).sum :=
    List.sum_nonneg (fun x hx => (hd x (List.mem_of_mem_take hx)).le)
  have hs2 : 0 ≤ ((specDurs c items).take (k + 1)).sum :=
    List.sum_nonneg (fun x hx => (hd x (List.mem_of_mem_take hx)).le)
  simp only [zero_add] at a b
  have a' := near_abs a hs1 (Nat.le_trans (Nat.mul_le_mul (by omega) (by omega)) hsz)
  have b' := near_abs b hs2 hsz
  refine ⟨n, hn, ?_, ?_⟩
  · push_cast at a'; convert a' using 2; ring
  · push_cast at b'; convert b' using 2; ring

/-- EXACTNESS, any rounding: when every operand is dyadic — each note sounds under a tempo `60·2^i`
and lasts a whole number of quanta `2^e`, the clock starts on a multiple `A·2^e` and the running total
stays within `2^53` quanta (`dyadicDurs`) — no operation rounds, and the float onsets and ends are
EXACTLY the notated running sums (the conclusion of `abc_onsets_exact`, for every `R`). -/
theorem abc_float_exact_dyadic (hR : Rounding R) (e : ℤ) (A : ℕ) (st st' : St) (c : Ctx) (items : List Item)
    (hb : FBody R st c) (hnb : ∀ i ∈ items, isBrokenItem i = false) (ht : st.time = (A : ℚ) * 2 ^ e)
    (hdy : dyadicDurs e c A items) (h : runItems R st items = .ok st') :
    st'.notes.map span = st.notes.map span ++ spans st.time (specDurs c items) ∧
    st'.time = st.time + (specDurs c items).sum ∧
    (∀ k, k < (specDurs c items).length →
      (st'.notes.map span)[st.notes.length + k]? =
        some (st.time + ((specDurs c items).take k).sum, st.time + ((specDurs c items).take (k + 1)).sum)) := by
  obtain ⟨h1, h2⟩ := runItems_dyadic hR hb hnb ht hdy h
  refine ⟨h1, h2, fun k hk => ?_⟩
  rw [h1, List.getElem?_append_right (by simp)]
  simp only [List.length_map, Nat.add_sub_cancel_left]
  exact spans_getElem _ _ _ hk

/-- THE FIRST MUSIC LINE, any rounding: after a header without tempo events the parser is in the body
phase (`FBody`) at clock 0 with some unit note length `u` (a Fraction: the header's `L:` or the default)
and the tempo `R Q`, `Q` the notated tempo of the last header `Q:` (`4·beat·rate`, bare `Q:r` counts
unit lengths, none or rate 0 → the default 120). -/
theorem abc_float_header (hR : Rounding R) (st0 st : St) (hh : st0.inHeader = true) (ht : st0.time = 0)
    (htm : st0.tempos = []) (h : startMusic R st0 = .ok st) :
    ∃ u, st.unit = some u ∧ st.time = 0 ∧ st.notes = st0.notes ∧
      FBody R st ⟨u, match pendingTempo st0 with
        | some (some b, r) => if r = 0 then 120 else 4 * b * r
        | some (none, r) => if r = 0 then 120 else 4 * u * r
        | none => 120⟩ := by
  have h120 : R 120 = 120 := by
    have := hR.exact_int 120 (by norm_num); simpa using this
  have e4 : ∀ x : ℚ, ∀ r : ℕ, x / (1 / 4) * (r : ℚ) = 4 * x * r := fun x r => by ring
  simp only [startMusic, hh, ↓reduceIte] at h
  split at h
  · simp at h
  rename_i st2 h2
  simp only [Except.ok.injEq] at h
  subst h
  unfold finishHeader at h2
  split at h2
  · simp at h2
  rename_i st1 h1
  -- the unit note length is set
  have hunit : ∃ u, st1 = { st0 with unit := some u } := by
    unfold setUnitFromHeader at h1
    split at h1
    · rename_i hs
      simp only [Except.ok.injEq] at h1
      cases hu : st0.unit with
      | none => simp [unitSet, hu] at hs
      | some x => exact ⟨x, by rw [← h1]; cases st0; simp_all⟩
    · split at h1
      · simp only [Except.ok.injEq] at h1; exact ⟨_, h1.symm⟩
      · split at h1
        · simp at h1
        · split at h1 <;> (simp only [Except.ok.injEq] at h1; exact ⟨_, h1.symm⟩)
      · simp at h1
  obtain ⟨u, rfl⟩ := hunit
  refine ⟨u, ?_⟩
  simp only at h2
  have hz : R (0 : ℚ) = 0 := hR.zero
  cases hr : st0.hdrTempoRate with
  | none =>
    simp only [hr, Except.ok.injEq] at h2
    subst h2
    refine ⟨rfl, ht, rfl, rfl, rfl, ?_, rfl, by simp [ht, hz]⟩
    simp [qpm, htm, pendingTempo, hr, Gen.DEFAULT_QPM, h120]
  | some r =>
    simp only [hr] at h2
    by_cases hr0 : r = 0
    · simp only [hr0, ne_eq, not_true_eq_false, ↓reduceIte, Except.ok.injEq] at h2
      subst h2
      refine ⟨rfl, ht, rfl, rfl, rfl, ?_, rfl, by simp [ht, hz]⟩
      cases hb : st0.hdrTempoUnit <;> simp [qpm, htm, pendingTempo, hr, hb, hr0, Gen.DEFAULT_QPM, h120]
    · simp only [ne_eq, hr0, not_false_eq_true, ↓reduceIte] at h2
      cases hb : st0.hdrTempoUnit with
      | none =>
        simp only [addTempo, hb, Except.ok.injEq, e4] at h2
        subst h2
        refine ⟨rfl, ht, rfl, rfl, rfl, ?_, rfl, by simp [ht, hz]⟩
        simp [qpm, htm, pendingTempo, hr, hb, hr0]
      | some b =>
        simp only [addTempo, hb, Except.ok.injEq, e4] at h2
        subst h2
        refine ⟨rfl, ht, rfl, rfl, rfl, ?_, rfl, by simp [ht, hz]⟩
        simp [qpm, htm, pendingTempo, hr, hb, hr0]

/-! ## non-vacuity (with the executable float64 model `rne53`) -/

/-- the state after the header `L:1/8`, `Q:1/4=100` -/
def fxSt : St := { inHeader := false, unit := some (1 / 8), tempos := [(0, 100)] }

/-- `A B3 c/ | [L:1/16] d` — notated 0.3 s, 0.9 s, 0.15 s, 0.15 s: none of them a float -/
def fxItems : List Item :=
  [.tok (.note .none 'A' [] ⟨none, 0, none⟩), .tok (.note .none 'B' [] ⟨some 3, 0, none⟩),
   .tok (.note .none 'c' [] ⟨none, 1, none⟩), .tok (.bar 0 1 0), .tok (.inline (.unitLen 1 16)),
   .tok (.note .none 'd' [] ⟨none, 0, none⟩)]

theorem fxBody : FBody rne53 fxSt ⟨1 / 8, 100⟩ :=
  ⟨rfl, rfl, by decide +kernel, rfl, by decide +kernel⟩

theorem fxPos : posDurs ⟨1 / 8, 100⟩ fxItems := by
  norm_num [fxItems, posDurs, specFactor, itemCtx, fieldCtx]

example : specDurs ⟨1 / 8, 100⟩ fxItems = [3 / 10, 9 / 10, 3 / 20, 3 / 20] := by
  norm_num [fxItems, specDurs, specFactor, itemCtx, fieldCtx]

/-- the hypotheses of `abc_float_order` / `abc_float_onsets` hold for a concrete tune body whose
durations all round, and the float run really is inexact there (the last onset is not 27/20) -/
example : ∃ st', runItems rne53 fxSt fxItems = .ok st' ∧ st'.notes.length = 4 ∧
    (∀ k, k < 4 → ∃ n, st'.notes[k]? = some n ∧
      |n.start - (([3 / 10, 9 / 10, 3 / 20, 3 / 20] : List ℚ).take k).sum| ≤
        (([3 / 10, 9 / 10, 3 / 20, 3 / 20] : List ℚ).take k).sum * (((k : ℚ) + 6) * u53)) ∧
    (st'.notes.map (·.start))[3]? ≠ some (27 / 20) := by
  have hok : (match runItems rne53 fxSt fxItems with
      | .ok s => decide ((s.notes.map (·.start))[3]? ≠ some (27 / 20))
      | .error _ => false) = true := by decide +kernel
  cases h : runItems rne53 fxSt fxItems with
  | error e => rw [h] at hok; simp at hok
  | ok st' =>
    rw [h] at hok
    have hd : specDurs ⟨1 / 8, 100⟩ fxItems = [3 / 10, 9 / 10, 3 / 20, 3 / 20] := by
      norm_num [fxItems, specDurs, specFactor, itemCtx, fieldCtx]
    have hnb : ∀ i ∈ fxItems, isBrokenItem i = false := by decide
    obtain ⟨new, hnew, hlen, _⟩ := abc_float_order rounding_rne53 fxSt st' _ fxItems fxBody hnb fxPos h
    have hbound := abc_float_onsets rounding_rne53 fxSt st' _ fxItems fxBody hnb fxPos rfl h
    rw [hd] at hbound hlen
    refine ⟨st', rfl, by rw [hnew]; simp [fxSt, hlen], fun k hk => ?_, by simpa using hok⟩
    obtain ⟨n, hn, a, _⟩ := hbound k (by simpa using hk) (Nat.le_trans (Nat.mul_le_mul (show k + 6 ≤ 10 by omega) (show k + 7 ≤ 11 by omega)) (by norm_num))
    exact ⟨n, by simpa [fxSt] using hn, a⟩

/-- non-vacuity of `abc_float_exact_dyadic`: `L:1/8`, `Q:1/4=120` (= 60·2), `A B3 c/`: quanta of 2^-3 s -/
example : dyadicDurs (-3) ⟨1 / 8, 120⟩ 0
    [.tok (.note .none 'A' [] ⟨none, 0, none⟩), .tok (.note .none 'B' [] ⟨some 3, 0, none⟩),
     .tok (.note .none 'c' [] ⟨none, 1, none⟩)] := by
  refine ⟨1, 2, by norm_num, by norm_num [specFactor], by norm_num, 1, 6, by norm_num, by norm_num [specFactor],
    by norm_num, 1, 1, by norm_num, by norm_num [specFactor], by norm_num, trivial⟩


/-- THE DEFAULT UNIT NOTE LENGTH, any rounding: the code compares the FLOAT quotient `n / d` of the
meter with 0.75.  For a meter denominator `0 < d ≤ 2^51` the float comparison decides exactly what the
exact one does (`3/4 - 2^-53` is a float, and no fraction `n/d < 3/4` with such a `d` lies above it), so
`_set_unit_note_length_from_header` returns what `abc_default_unit` says, for every `R`. -/
theorem abc_float_default_unit (hR : Rounding R) (st : St)
    (hm : ∀ t n d, st.timeSigs = [(t, n, d)] → 0 < d ∧ d ≤ 2 ^ 51) :
    setUnitFromHeader R st = setUnitFromHeader id st := by
  have hp : 1 ≤ 53 := by norm_num
  unfold setUnitFromHeader
  split
  · rfl
  · split
    · rfl
    · rename_i t n d hts
      obtain ⟨hd0, hd1⟩ := hm t n d hts
      have hdq : (0 : ℚ) < d := by exact_mod_cast hd0
      have hdne : d ≠ 0 := by omega
      simp only [hdne, ↓reduceIte, id]
      have h34 : R (3 / 4) = 3 / 4 := by
        have := hR.exact_dyadic hp 3 (by norm_num) (-2)
        norm_num at this ⊢
        exact this
      have hiff : R ((n : ℚ) / d) < Gen.UNIT_THRESHOLD ↔ (n : ℚ) / d < Gen.UNIT_THRESHOLD := by
        unfold Gen.UNIT_THRESHOLD
        constructor
        · intro h
          by_contra hc
          have := hR.mono (3 / 4) ((n : ℚ) / d) (not_lt.mp hc)
          rw [h34] at this
          linarith
        · intro h
          -- `n/d ≤ 3/4 - 1/(4d) ≤ 3/4 - 2^-53`, which is a float
          have h4 : 4 * n < 3 * d := by
            have : (n : ℚ) < 3 / 4 * d := by rwa [div_lt_iff₀ hdq] at h
            have : (4 * n : ℚ) < 3 * d := by linarith
            exact_mod_cast this
          have h4' : (4 * n : ℚ) ≤ 3 * d - 1 := by
            have : 4 * n ≤ 3 * d - 1 := by omega
            exact_mod_cast this
          have hy : R (3 / 4 - 1 / 2 ^ 53) = 3 / 4 - 1 / 2 ^ 53 := by
            have := hR.exact_dyadic hp (3 * 2 ^ 51 - 1) (by norm_num) (-53)
            have e : (((3 * 2 ^ 51 - 1 : ℤ)) : ℚ) * 2 ^ (-53 : ℤ) = 3 / 4 - 1 / 2 ^ 53 := by
              rw [zpow_neg]; push_cast; norm_num
            rw [e] at this
            exact this
          have hx : (n : ℚ) / d ≤ 3 / 4 - 1 / 2 ^ 53 := by
            rw [div_le_iff₀ hdq]
            have hd51 : (d : ℚ) ≤ 2 ^ 51 := by exact_mod_cast hd1
            nlinarith
          have := hR.mono _ _ hx
          rw [hy] at this
          have : (0 : ℚ) < 1 / 2 ^ 53 := by positivity
          linarith
      by_cases hc : (n : ℚ) / d < Gen.UNIT_THRESHOLD
      · rw [if_pos (hiff.mpr hc), if_pos hc]
      · rw [if_neg (fun h => hc (hiff.mp h)), if_neg hc]
    · rfl

/-- the hypothesis on the denominator cannot be dropped: the meter `(3·2^53 − 1) / 2^55` is below 3/4
but its float quotient IS 0.75, so the code picks 1/8 where the exact rule gives 1/16 -/
example : ((3 * 2 ^ 53 - 1 : ℤ) : ℚ) / ((2 ^ 55 : ℤ) : ℚ) < 3 / 4 ∧
    rne53 (((3 * 2 ^ 53 - 1 : ℤ) : ℚ) / ((2 ^ 55 : ℤ) : ℚ)) = 3 / 4 := by
  refine ⟨by norm_num, by decide +kernel⟩


/-- BROKEN RHYTHM, any rounding: when `_apply_broken_rhythm` accepts the last two notes `n1`, `n2` (which
share the boundary `t = n1.end = n2.start`, a float), the boundary STAYS shared — both notes get the very
same float `b` — the first note keeps its start, the second its end, everything before is untouched; the
shift is `adj = R (l1·(1 − 2^-k))` with `l1 = R (t − n1.start)` the float length of the first note
(`l1 / 2^k` is exact), `0 ≤ adj ≤ l1`; `>` moves the boundary to `R (t + adj) ≥ t`, `<` to `R (t − adj) ≤ t`. -/
theorem abc_float_broken (hR : Rounding R) (pre L : List Note) (n1 n2 : Note) (gt : Bool) (k : Nat)
    (hc : n1.end_ = n2.start) (hfix : R n1.end_ = n1.end_) (h1 : n1.start ≤ n1.end_)
    (h : applyBroken R (pre ++ [n1, n2]) gt k = .ok L) :
    ∃ adj b, L = pre ++ [{ n1 with end_ := b }, { n2 with start := b }] ∧
      adj = R (R (n1.end_ - n1.start) * (1 - 1 / 2 ^ k)) ∧ 0 ≤ adj ∧ adj ≤ R (n1.end_ - n1.start) ∧
      (gt = true → b = R (n1.end_ + adj) ∧ n1.end_ ≤ b) ∧ (gt = false → b = R (n1.end_ - adj) ∧ b ≤ n1.end_) := by
  have hl0 : 0 ≤ R (n1.end_ - n1.start) := hR.nonneg (by linarith)
  have hdiv : R (R (n1.end_ - n1.start) / 2 ^ k) = R (n1.end_ - n1.start) / 2 ^ k := by
    have := hR.exact_pow2_mul (R (n1.end_ - n1.start)) (-(k : ℤ))
    rw [hR.idem, zpow_neg, zpow_natCast] at this
    rw [div_eq_mul_inv]; exact this
  have h2k : (0 : ℚ) < 2 ^ k := by positivity
  have hle1 : (1 : ℚ) / 2 ^ k ≤ 1 := by
    rw [div_le_one h2k]; exact one_le_pow₀ (by norm_num)
  have hadj : R (R (n1.end_ - n1.start) - R (R (n1.end_ - n1.start) / 2 ^ k)) =
      R (R (n1.end_ - n1.start) * (1 - 1 / 2 ^ k)) := by
    rw [hdiv]; congr 1; ring
  have hadj0 : 0 ≤ R (R (n1.end_ - n1.start) * (1 - 1 / 2 ^ k)) :=
    hR.nonneg (mul_nonneg hl0 (by linarith))
  have hadj1 : R (R (n1.end_ - n1.start) * (1 - 1 / 2 ^ k)) ≤ R (n1.end_ - n1.start) := by
    have h0k : (0 : ℚ) ≤ 1 / 2 ^ k := by positivity
    have := hR.mono (R (n1.end_ - n1.start) * (1 - 1 / 2 ^ k)) (R (n1.end_ - n1.start))
      (mul_le_of_le_one_right hl0 (by linarith))
    rwa [hR.idem] at this
  unfold applyBroken at h
  have hrev : (pre ++ [n1, n2]).reverse = n2 :: n1 :: pre.reverse := by simp
  rw [hrev] at h
  simp only [List.reverse_reverse] at h
  split at h
  · simp at h
  rw [hadj, ← hc] at h
  cases gt with
  | true =>
    simp only [↓reduceIte, Except.ok.injEq] at h
    refine ⟨_, R (n1.end_ + R (R (n1.end_ - n1.start) * (1 - 1 / 2 ^ k))), h.symm, rfl, hadj0, hadj1, ?_, by simp⟩
    intro _
    refine ⟨rfl, ?_⟩
    have := hR.mono n1.end_ (n1.end_ + R (R (n1.end_ - n1.start) * (1 - 1 / 2 ^ k))) (by linarith)
    rwa [hfix] at this
  | false =>
    simp only [Bool.false_eq_true, ↓reduceIte, Except.ok.injEq] at h
    refine ⟨_, R (n1.end_ - R (R (n1.end_ - n1.start) * (1 - 1 / 2 ^ k))), h.symm, rfl, hadj0, hadj1, by simp, ?_⟩
    intro _
    refine ⟨rfl, ?_⟩
    have := hR.mono (n1.end_ - R (R (n1.end_ - n1.start) * (1 - 1 / 2 ^ k))) n1.end_ (by linarith)
    rwa [hfix] at this

/-- non-vacuity: `L:1/8`, 100 qpm, `A>B` in float64: the two notes 0–0.3 and 0.3–0.6 (floats) become
0–b and b–0.6 with one shared float `b` -/
example : ∃ L b, applyBroken rne53 [⟨69, 90, 0, rne53 (3 / 10)⟩, ⟨71, 90, rne53 (3 / 10), rne53 (rne53 (3 / 10) + rne53 (3 / 10))⟩]
      true 1 = .ok L ∧
    L = [⟨69, 90, 0, b⟩, ⟨71, 90, b, rne53 (rne53 (3 / 10) + rne53 (3 / 10))⟩] ∧ rne53 (3 / 10) ≤ b := by
  have hok : (match applyBroken rne53 [⟨69, 90, 0, rne53 (3 / 10)⟩,
      ⟨71, 90, rne53 (3 / 10), rne53 (rne53 (3 / 10) + rne53 (3 / 10))⟩] true 1 with
      | .ok _ => true | .error _ => false) = true := by decide +kernel
  cases hx : applyBroken rne53 [⟨69, 90, 0, rne53 (3 / 10)⟩,
      ⟨71, 90, rne53 (3 / 10), rne53 (rne53 (3 / 10) + rne53 (3 / 10))⟩] true 1 with
  | error e => rw [hx] at hok; simp at hok
  | ok L =>
    obtain ⟨adj, b, hL, _, _, _, hgt, _⟩ := abc_float_broken rounding_rne53 [] L _ _ true 1 rfl
      (rounding_rne53.idem _) (by decide +kernel) hx
    exact ⟨L, b, rfl, by simpa using hL, (hgt rfl).2⟩

end NSV.C04
