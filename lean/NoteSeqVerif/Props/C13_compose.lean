import NoteSeqVerif.Model.C13
import Mathlib.Tactic.FieldSimp
import Mathlib.Tactic.Ring
import Mathlib.Tactic.Linarith
import Mathlib.Algebra.Order.Field.Rat
/-! # C13 — operation *sequences*: shift after shift, stretch after stretch, stretch after shift

The single-operation theorems of `Props/C13.lean` say what one call does.  The statement of C13 also has to hold
when an operation is applied to the RESULT of another ("move everything consistently" must not depend on where the
sequence came from), so the composition laws are stated and proved here, in exact arithmetic (`R = id`; the float
program rounds after every operation, so for doubles the laws hold exactly on inputs for which every product and sum
is representable — dyadic times and factors — which is the stream `compose` of the correspondence check, and up to
the roundings of the two-step computation otherwise).

* `shift_shift`      shifting by `a` and then by `b` is shifting by `a + b`;
* `stretch_stretch`  stretching by `f` and then by `g` is stretching by `f * g` — including the corner cases the code
                     special-cases (`f = 1`, `g = 1`, and `f * g = 1`, where the second stretch undoes the first and
                     the result is the input itself, tempos included);
* `stretch_shift`    stretching a shifted sequence is shifting the stretched sequence by the stretched offset;
* `stretch_keeps_status` / `shift_keeps_status`  neither operation changes the quantization status, so a result can
                     always be fed to the next operation. -/
namespace NSV.C13

/-! ### helpers: the maps compose -/

theorem mapNotes_mapNotes (g h : Rat → Rat) (l : List Note) :
    mapNotes h (mapNotes g l) = mapNotes (h ∘ g) l := by
  simp [mapNotes, List.map_map, Function.comp_def]

theorem mapNotes_id' (g : Rat → Rat) (hg : ∀ t, g t = t) (l : List Note) : mapNotes g l = l := by
  induction l with
  | nil => rfl
  | cons n l ih =>
    simp only [mapNotes, List.map_cons] at ih ⊢
    rw [ih]; simp [hg]

theorem map_time_id {α} (upd : α → Rat → α) (tm : α → Rat) (g : Rat → Rat) (hg : ∀ t, g t = t)
    (hu : ∀ e, upd e (tm e) = e) (l : List α) : l.map (fun e => upd e (g (tm e))) = l := by
  induction l with
  | nil => rfl
  | cons e l ih => simp [hg, hu]

theorem shift_keeps_status (R : Rat → Rat) (d : Rat) (s r : NoteSeq) (h : shiftR R d s = .ok r) :
    r.isQuantized = s.isQuantized := by
  unfold shiftR at h
  split at h; · cases h
  split at h; · cases h
  cases h; simp [NoteSeq.isQuantized, mapEv]

theorem stretch_keeps_status (R : Rat → Rat) (f : Rat) (s r : NoteSeq) (h : stretchR R f s = .ok r) :
    r.isQuantized = s.isQuantized := by
  unfold stretchR at h
  split at h; · cases h
  split at h; · cases h; rfl
  simp only [] at h
  split at h; · cases h
  cases h; simp [NoteSeq.isQuantized, mapEv]

/-! ### shift ∘ shift -/

/-- the value `shiftR id d` returns on an unquantized sequence, `d > 0` -/
def shiftVal (d : Rat) (s : NoteSeq) : NoteSeq :=
  { s with
    notes := mapNotes (· + d) s.notes
    timeSigs := s.timeSigs.map (fun e => { e with time := e.time + d })
    keySigs := s.keySigs.map (fun e => { e with time := e.time + d })
    tempos := s.tempos.map (fun e => { e with time := e.time + d })
    bends := s.bends.map (fun e => { e with time := e.time + d })
    ccs := s.ccs.map (fun e => { e with time := e.time + d })
    texts := s.texts.map (fun e => { e with time := e.time + d })
    sectionAnns := s.sectionAnns.map (fun e => { e with time := e.time + d })
    totalTime := s.totalTime + d
    hasSub := false, subStart := 0, subEnd := 0 }

theorem shiftR_id_eq (d : Rat) (s : NoteSeq) (hd : 0 < d) (hq : s.isQuantized = false) :
    shiftR id d s = .ok (shiftVal d s) := by
  have : ¬ d ≤ 0 := by grind
  simp [shiftR, this, hq, shiftVal, mapEv, Gen.shiftEventFields]

theorem shiftVal_status (d : Rat) (s : NoteSeq) : (shiftVal d s).isQuantized = s.isQuantized := rfl

theorem shiftVal_shiftVal (a b : Rat) (s : NoteSeq) : shiftVal b (shiftVal a s) = shiftVal (a + b) s := by
  simp [shiftVal, mapNotes, List.map_map, Function.comp_def, Rat.add_assoc]

/-- **shift after shift**: for every unquantized sequence and all offsets `a, b > 0`, shifting the result of a shift
is one shift by the sum — notes, all seven event containers and `total_time` alike, `subsequence_info` cleared. -/
theorem shift_shift (a b : Rat) (s : NoteSeq) (ha : 0 < a) (hb : 0 < b) (hq : s.isQuantized = false) :
    (shiftR id a s).bind (shiftR id b) = shiftR id (a + b) s := by
  have hab : 0 < a + b := by grind
  rw [shiftR_id_eq a s ha hq, shiftR_id_eq (a + b) s hab hq]
  show shiftR id b (shiftVal a s) = _
  rw [shiftR_id_eq b _ hb (by rw [shiftVal_status]; exact hq), shiftVal_shiftVal]

/-! ### stretch ∘ stretch -/

/-- the value `stretchR id f` returns on an unquantized sequence for `f ∉ {0, 1}` (also for `f = 1`, where it is `s`
up to `t * 1 = t`; see `stretchVal_one`) -/
def stretchVal (f : Rat) (s : NoteSeq) : NoteSeq :=
  { s with
    notes := mapNotes (· * f) s.notes
    timeSigs := s.timeSigs.map (fun e => { e with time := e.time * f })
    keySigs := s.keySigs.map (fun e => { e with time := e.time * f })
    tempos := s.tempos.map (fun e => { time := e.time * f, qpm := e.qpm / f })
    bends := s.bends.map (fun e => { e with time := e.time * f })
    ccs := s.ccs.map (fun e => { e with time := e.time * f })
    texts := s.texts.map (fun e => { e with time := e.time * f })
    sectionAnns := s.sectionAnns.map (fun e => { e with time := e.time * f })
    totalTime := s.totalTime * f }

theorem stretchR_id_eq (f : Rat) (s : NoteSeq) (h0 : f ≠ 0) (h1 : f ≠ 1) (hq : s.isQuantized = false) :
    stretchR id f s = .ok (stretchVal f s) := by
  simp [stretchR, hq, h0, h1, stretchVal, mapEv, Gen.stretchEventFields, List.map_map, Function.comp_def]

theorem stretchVal_status (f : Rat) (s : NoteSeq) : (stretchVal f s).isQuantized = s.isQuantized := rfl

theorem stretchVal_one (s : NoteSeq) : stretchVal 1 s = s := by
  cases s
  simp only [stretchVal, NoteSeq.mk.injEq, Rat.mul_one, div_one, and_true]
  refine ⟨mapNotes_id' _ (by simp) _, ?_, ?_, ?_, ?_, ?_, ?_, ?_⟩ <;> simp

theorem stretchVal_stretchVal (f g : Rat) (s : NoteSeq) :
    stretchVal g (stretchVal f s) = stretchVal (f * g) s := by
  simp [stretchVal, mapNotes, List.map_map, Function.comp_def, Rat.mul_assoc, div_div]

/-- `stretchR id f` on an unquantized sequence, `f ≠ 0`, in one formula (the `f = 1` early return included) -/
theorem stretchR_id_val (f : Rat) (s : NoteSeq) (h0 : f ≠ 0) (hq : s.isQuantized = false) :
    stretchR id f s = .ok (stretchVal f s) := by
  by_cases h1 : f = 1
  · subst h1; rw [stretchVal_one]; simp [stretchR, hq]
  · exact stretchR_id_eq f s h0 h1 hq

/-- **stretch after stretch**: for every unquantized sequence and all non-zero factors, stretching the result of a
stretch is one stretch by the product: every time is multiplied by `f * g`, every tempo divided by `f * g`, nothing
else changes — in particular `g = 1 / f` gives back the input itself, although the code takes its `== 1.0` early
return in the one-step computation and walks every container in the two-step computation. -/
theorem stretch_stretch (f g : Rat) (s : NoteSeq) (hf : f ≠ 0) (hg : g ≠ 0) (hq : s.isQuantized = false) :
    (stretchR id f s).bind (stretchR id g) = stretchR id (f * g) s := by
  have hfg : f * g ≠ 0 := mul_ne_zero hf hg
  rw [stretchR_id_val f s hf hq, stretchR_id_val (f * g) s hfg hq]
  show stretchR id g (stretchVal f s) = _
  rw [stretchR_id_val g _ hg (by rw [stretchVal_status]; exact hq), stretchVal_stretchVal]

/-- stretching by `f` and then by `1 / f` is the identity on unquantized sequences (corollary) -/
theorem stretch_inverse (f : Rat) (s : NoteSeq) (hf : f ≠ 0) (hq : s.isQuantized = false) :
    (stretchR id f s).bind (stretchR id (1 / f)) = .ok s := by
  have h : (1 / f : Rat) ≠ 0 := one_div_ne_zero hf
  rw [stretch_stretch f (1 / f) s hf h hq, mul_one_div_cancel hf]
  simp [stretchR, hq]

/-! ### stretch ∘ shift -/

theorem stretchVal_shiftVal (d f : Rat) (s : NoteSeq) :
    stretchVal f (shiftVal d s) = shiftVal (d * f) (stretchVal f s) := by
  simp [stretchVal, shiftVal, mapNotes, List.map_map, Function.comp_def, Rat.add_mul]

/-- **stretch after shift**: for `d > 0`, `f > 0`, stretching a shifted sequence is shifting the stretched sequence by
the stretched offset `d * f` (both clear `subsequence_info`, because the shift does). -/
theorem stretch_shift (d f : Rat) (s : NoteSeq) (hd : 0 < d) (hf : 0 < f) (hq : s.isQuantized = false) :
    (shiftR id d s).bind (stretchR id f) = (stretchR id f s).bind (shiftR id (d * f)) := by
  have hf0 : f ≠ 0 := ne_of_gt hf
  have hdf : 0 < d * f := mul_pos hd hf
  rw [shiftR_id_eq d s hd hq, stretchR_id_val f s hf0 hq]
  show stretchR id f (shiftVal d s) = shiftR id (d * f) (stretchVal f s)
  rw [stretchR_id_val f _ hf0 (by rw [shiftVal_status]; exact hq),
    shiftR_id_eq (d * f) _ hdf (by rw [stretchVal_status]; exact hq), stretchVal_shiftVal]

/-! ### non-vacuity: a concrete sequence through two steps -/
def cNote : Note :=
  { pitch := 60, velocity := 100, start := 1, end_ := 2, qs := 0, qe := 0, instrument := 0
    program := 0, isDrum := false, numerator := 0, denominator := 0, voice := 7, part := 0, pitchName := 0 }
def cSeq : NoteSeq :=
  { notes := [cNote], tempos := [⟨0, 120⟩, ⟨2, 60⟩], timeSigs := [⟨0, 4, 4⟩], sectionAnns := [⟨1, 0⟩]
    totalTime := 2, hasSub := true, subStart := 1 }

example : cSeq.isQuantized = false ∧
    ((stretchR id 3 cSeq).bind (stretchR id (1 / 2))).toOption.map (fun r => (r.tempos, r.totalTime, r.hasSub)) =
      some ([⟨0, 80⟩, ⟨3, 40⟩], 3, true) ∧
    (stretchR id 3 cSeq).bind (stretchR id (1 / 3)) = .ok cSeq ∧
    ((shiftR id (1 / 2) cSeq).bind (stretchR id 2)).toOption.map (fun r => (r.notes.map (·.start), r.totalTime, r.hasSub)) =
      some ([3], 5, false) := by
  decide +kernel

end NSV.C13
