import NoteSeqVerif.Proofs.C20
import NoteSeqVerif.Proofs.C20_rne
/-! C20 — property theorems only, part 2: crop_samples, repeat_samples_to_duration, make_stereo
over `List` models of any length (part 1, the 65 536-value round trip, is `Props/C20_pcm.lean`). -/
namespace NSV.C20

/-! ## crop_samples

`R` is the rounding applied to the float product `seconds * sample_rate`; the code is `R = rne53`
(`crop`), the exact-arithmetic reading is `R = id`.  `SignPreserving R` is all the theorems need. -/

theorem signPreserving_rne53 : SignPreserving rne53 :=
  ⟨rne_zero 53, rne_pos 53 (by decide)⟩

theorem signPreserving_id : SignPreserving id := ⟨rfl, fun _ h => h⟩

/-- **crop_spec**: for non-negative offset/length the result is exactly the existing samples with
index in `[a, a+n)`, `a = int(begin·rate)`, `n = int(length·rate)` -/
theorem crop_spec {α} {R} (hR : SignPreserving R) (xs : List α) (rate : Int) (b len : Rat)
    (hr : 0 ≤ rate) (hb : 0 ≤ b) (hl : 0 ≤ len) :
    cropR R xs rate b len =
      (xs.drop (secToSamples R b rate).toNat).take (secToSamples R len rate).toNat := by
  unfold cropR
  exact pySlice_nonneg xs _ _ (secToSamples_nonneg hR b rate hb hr) (secToSamples_nonneg hR len rate hl hr)

/-- element-wise reading: output index `i` is input index `a + i` as long as `i < n` and it exists -/
theorem crop_getElem? {α} {R} (hR : SignPreserving R) (xs : List α) (rate : Int) (b len : Rat)
    (hr : 0 ≤ rate) (hb : 0 ≤ b) (hl : 0 ≤ len) (i : Nat) :
    (cropR R xs rate b len)[i]? =
      if i < (secToSamples R len rate).toNat then xs[(secToSamples R b rate).toNat + i]? else none := by
  rw [crop_spec hR xs rate b len hr hb hl, List.getElem?_take, List.getElem?_drop]

theorem crop_length {α} {R} (hR : SignPreserving R) (xs : List α) (rate : Int) (b len : Rat)
    (hr : 0 ≤ rate) (hb : 0 ≤ b) (hl : 0 ≤ len) :
    (cropR R xs rate b len).length =
      min (secToSamples R len rate).toNat (xs.length - (secToSamples R b rate).toNat) := by
  rw [crop_spec hR xs rate b len hr hb hl, List.length_take, List.length_drop]

/-- the code itself (`R = rne53`) -/
theorem crop_spec_float {α} (xs : List α) (rate : Int) (b len : Rat)
    (hr : 0 ≤ rate) (hb : 0 ≤ b) (hl : 0 ≤ len) (i : Nat) :
    (crop xs rate b len)[i]? =
      if i < (secToSamples rne53 len rate).toNat
      then xs[(secToSamples rne53 b rate).toNat + i]? else none :=
  crop_getElem? signPreserving_rne53 xs rate b len hr hb hl i

-- 0.35 s · 100 Hz: the float product is exactly 35 although 0.35 (as a double) is below 35/100;
-- crop beyond the end returns only what exists
example : crop [10, 11, 12, 13, 14] 2 1 (3 / 2) = [12, 13, 14] := by decide +kernel
example : crop [10, 11, 12, 13, 14] 2 2 5 = [14] ∧ crop [10, 11, 12] 2 5 5 = ([] : List Nat) := by
  decide +kernel
example : secToSamples rne53 (rne53 (35 / 100)) 100 = 35 ∧ secToSamples id (rne53 (35 / 100)) 100 = 34 := by
  decide +kernel

/-! ## repeat_samples_to_duration -/

/-- errors, in the order the Python raises them -/
theorem repeat_errors {α} (R : Rat → Rat) (xs : List α) (rate : Int) (D : Rat) :
    (rate = 0 → repeatR R xs rate D = .error "ZeroDivisionError") ∧
    (rate ≠ 0 → R ((xs.length : Rat) / (rate : Rat)) = 0 →
      repeatR R xs rate D = .error "ZeroDivisionError") ∧
    (rate ≠ 0 → R ((xs.length : Rat) / (rate : Rat)) ≠ 0 → numRepeats R xs.length rate D ≤ 0 →
      repeatR R xs rate D = .error "ValueError") := by
  unfold repeatR
  refine ⟨fun h => by simp [h], fun h1 h2 => by simp [h1, h2], fun h1 h2 h3 => by simp [h1, h2, h3]⟩

/-- an empty input is a `ZeroDivisionError` (`duration / 0.0`), whatever the duration -/
theorem repeat_empty {α} {R} (hR : SignPreserving R) (rate : Int) (D : Rat) :
    repeatR R ([] : List α) rate D = .error "ZeroDivisionError" := by
  unfold repeatR
  by_cases h : rate = 0
  · simp [h]
  · have z : (0 : Rat) / (rate : Rat) = 0 := by simp [Rat.div_def, Rat.zero_mul]
    simp [h, z, hR.zero]

/-- whenever the call returns, the result is a prefix of the cyclic repetition of the input, of
length `min (int(D·rate)) (num_repeats · len)` — no side condition -/
theorem repeat_prefix {α} {R} (hR : SignPreserving R) (xs : List α) (rate : Int) (D : Rat)
    (hr : 0 ≤ rate) (hD : 0 ≤ D) (ys : List α) (h : repeatR R xs rate D = .ok ys) :
    ys.length = min (secToSamples R D rate).toNat ((numRepeats R xs.length rate D).toNat * xs.length) ∧
    ∀ i, i < ys.length → ys[i]? = xs[i % xs.length]? := by
  unfold repeatR at h
  split at h
  · cases h
  · split at h
    · cases h
    · simp only at h
      split at h
      · cases h
      · have h := (Except.ok.inj h).symm
        rw [crop_spec hR _ rate 0 D hr Rat.le_refl hD, secToSamples_zero hR] at h
        simp only [Int.toNat_zero, List.drop_zero] at h
        subst h
        have hlen : (List.take (secToSamples R D rate).toNat
            (List.replicate (numRepeats R xs.length rate D).toNat xs).flatten).length =
            min (secToSamples R D rate).toNat ((numRepeats R xs.length rate D).toNat * xs.length) := by
          rw [List.length_take, length_flatten_replicate]
        refine ⟨hlen, fun i hi => ?_⟩
        rw [hlen] at hi
        rw [List.getElem?_take, if_pos (by omega), getElem?_flatten_replicate _ _ _ (by omega)]

/-- **repeat_spec**: non-empty input, positive rate and duration, and the explicit side condition
`int(D·rate) ≤ num_repeats · len` on the float ceiling: exactly `int(D·rate)` samples, sample `i`
is input sample `i mod len` -/
theorem repeat_spec {α} {R} (hR : SignPreserving R) (xs : List α) (rate : Int) (D : Rat)
    (hx : xs ≠ []) (hr : 0 < rate) (hD : 0 < D) (side : repeatEnough R xs.length rate D) :
    ∃ ys, repeatR R xs rate D = .ok ys ∧ ys.length = (secToSamples R D rate).toNat ∧
      ∀ i, i < (secToSamples R D rate).toNat → ys[i]? = xs[i % xs.length]? := by
  have hlen : 0 < xs.length := List.length_pos_iff.mpr hx
  have hsd : 0 < R ((xs.length : Rat) / (rate : Rat)) :=
    hR.pos _ (rat_div_pos _ _ (Rat.natCast_pos.mpr hlen) (Rat.intCast_pos.mpr hr))
  have hnr : 0 < numRepeats R xs.length rate D := by
    unfold numRepeats
    exact rat_ceil_pos _ (hR.pos _ (rat_div_pos _ _ hD hsd))
  have hok : repeatR R xs rate D =
      .ok (cropR R (List.replicate (numRepeats R xs.length rate D).toNat xs).flatten rate 0 D) := by
    unfold repeatR
    have h1 : rate ≠ 0 := by omega
    have h2 : R ((xs.length : Rat) / (rate : Rat)) ≠ 0 := by grind
    have h3 : ¬ numRepeats R xs.length rate D ≤ 0 := by omega
    simp [h1, h2, h3]
  refine ⟨_, hok, ?_⟩
  obtain ⟨p1, p2⟩ := repeat_prefix hR xs rate D (by omega) (Rat.le_of_lt hD) _ hok
  have hn := secToSamples_nonneg hR D rate (Rat.le_of_lt hD) (by omega)
  unfold repeatEnough at side
  have hmin : (secToSamples R D rate).toNat ≤ (numRepeats R xs.length rate D).toNat * xs.length := by
    have e : ((numRepeats R xs.length rate D).toNat : Int) = numRepeats R xs.length rate D := by omega
    have : ((secToSamples R D rate).toNat : Int) ≤
        (((numRepeats R xs.length rate D).toNat * xs.length : Nat) : Int) := by
      rw [Int.natCast_mul, e]; omega
    exact Int.ofNat_le.mp this
  rw [Nat.min_eq_left hmin] at p1
  exact ⟨p1, fun i hi => p2 i (by omega)⟩

/-- in exact arithmetic the side condition always holds:
`⌊D·rate⌋ ≤ ⌈D / (len/rate)⌉ · len` -/
theorem repeatEnough_exact (len : Nat) (rate : Int) (D : Rat) (hl : 0 < len) (hr : 0 < rate)
    (hD : 0 < D) : repeatEnough id len rate D := by
  unfold repeatEnough secToSamples numRepeats truncR
  simp only [id]
  have hl' : (0 : Rat) < (len : Rat) := Rat.natCast_pos.mpr hl
  have hr' : (0 : Rat) < (rate : Rat) := Rat.intCast_pos.mpr hr
  have hp : 0 ≤ D * (rate : Rat) := Rat.le_of_lt (Rat.mul_pos hD hr')
  simp only [hp, if_true]
  have e : D / ((len : Rat) / (rate : Rat)) * (len : Rat) = D * (rate : Rat) := by grind
  have a := Rat.floor_le (D * (rate : Rat))
  have b := @Rat.le_ceil (D / ((len : Rat) / (rate : Rat)))
  have c : D / ((len : Rat) / (rate : Rat)) * (len : Rat) ≤
      ((D / ((len : Rat) / (rate : Rat))).ceil : Rat) * (len : Rat) :=
    Rat.mul_le_mul_of_nonneg_right b (Rat.le_of_lt hl')
  apply Rat.intCast_le_intCast.mp
  rw [Rat.intCast_mul, Rat.intCast_natCast]
  grind

/-- exact-arithmetic reading of the property: no side condition at all -/
theorem repeat_spec_exact {α} (xs : List α) (rate : Int) (D : Rat)
    (hx : xs ≠ []) (hr : 0 < rate) (hD : 0 < D) :
    ∃ ys, repeatR id xs rate D = .ok ys ∧ ys.length = (D * (rate : Rat)).floor.toNat ∧
      ∀ i, i < (D * (rate : Rat)).floor.toNat → ys[i]? = xs[i % xs.length]? := by
  have h := repeat_spec signPreserving_id xs rate D hx hr hD
    (repeatEnough_exact xs.length rate D (List.length_pos_iff.mpr hx) hr hD)
  have e : secToSamples id D rate = (D * (rate : Rat)).floor := by
    unfold secToSamples truncR
    have : 0 ≤ D * (rate : Rat) :=
      Rat.le_of_lt (Rat.mul_pos hD (Rat.intCast_pos.mpr hr))
    simp [this]
  rw [e] at h
  exact h

/-- the code itself (`R = rne53`), side condition explicit (it is decidable, and evaluated by the
driver on every correspondence input) -/
theorem repeat_spec_float {α} (xs : List α) (rate : Int) (D : Rat)
    (hx : xs ≠ []) (hr : 0 < rate) (hD : 0 < D) (side : repeatEnough rne53 xs.length rate D) :
    ∃ ys, repeatSamples xs rate D = .ok ys ∧ ys.length = (secToSamples rne53 D rate).toNat ∧
      ∀ i, i < (secToSamples rne53 D rate).toNat → ys[i]? = xs[i % xs.length]? :=
  repeat_spec signPreserving_rne53 xs rate D hx hr hD side

/-- non-positive durations are rejected (`np.concatenate` of nothing), in exact arithmetic -/
theorem repeat_nonpos_exact {α} (xs : List α) (rate : Int) (D : Rat)
    (hx : xs ≠ []) (hr : 0 < rate) (hD : D ≤ 0) : repeatR id xs rate D = .error "ValueError" := by
  have hl' : (0 : Rat) < (xs.length : Rat) := Rat.natCast_pos.mpr (List.length_pos_iff.mpr hx)
  have hr' : (0 : Rat) < (rate : Rat) := Rat.intCast_pos.mpr hr
  have hsd := rat_div_pos _ _ hl' hr'
  refine (repeat_errors id xs rate D).2.2 (by omega) (by simp only [id]; grind) ?_
  unfold numRepeats
  simp only [id]
  apply Rat.ceil_le_iff.mpr
  have : D / ((xs.length : Rat) / (rate : Rat)) = D * ((xs.length : Rat) / (rate : Rat))⁻¹ := Rat.div_def _ _
  have hinv : 0 < ((xs.length : Rat) / (rate : Rat))⁻¹ := Rat.inv_pos.mpr hsd
  have := Rat.mul_le_mul_of_nonneg_right hD (Rat.le_of_lt hinv)
  grind

example : repeatSamples [1, 2, 3] 2 4 = .ok [1, 2, 3, 1, 2, 3, 1, 2] := by decide +kernel
example : repeatEnough rne53 3 2 4 := by decide +kernel
example : repeatSamples ([] : List Nat) 2 4 = .error "ZeroDivisionError" ∧
    repeatSamples [1, 2, 3] 2 0 = .error "ValueError" := by decide +kernel

/-! ### multi-channel input (shape `[n, channels]`, what `make_stereo` returns)

`crop_samples` slices and `repeat_samples_to_duration` concatenates / takes `len` along axis 0, so on
a 2-D array they act on FRAMES.  Every theorem above is stated for `List α` with `α` arbitrary:
`α := frame` (a pair for stereo) is the multi-channel statement, no new model is needed.
`repeat_spec_frames` spells that instance out; `crop_map` / `repeat_map` say that the functions
commute with any per-frame map, in particular with the projection to one channel: each channel of
the repeated stereo signal is the repetition of that channel (errors included). -/

theorem crop_map {α β} (f : α → β) (R : Rat → Rat) (xs : List α) (rate : Int) (b len : Rat) :
    cropR R (xs.map f) rate b len = (cropR R xs rate b len).map f := by
  unfold cropR
  exact pySlice_map f xs _ _

theorem repeat_map {α β} (f : α → β) (R : Rat → Rat) (xs : List α) (rate : Int) (D : Rat) :
    repeatR R (xs.map f) rate D = (repeatR R xs rate D).map (List.map f) := by
  unfold repeatR
  simp only [List.length_map]
  split
  · rfl
  · split
    · rfl
    · split
      · rfl
      · simp only [Except.map, flatten_replicate_map, crop_map]

/-- **repeat_spec for stereo frames**: a non-empty list of (left, right) frames, positive rate and
duration, side condition on the float ceiling: exactly `int(D·rate)` frames, frame `i` is input
frame `i mod len`, and each channel of the result is the mono repetition of that channel -/
theorem repeat_spec_frames {α} {R} (hR : SignPreserving R) (xs : List (α × α)) (rate : Int) (D : Rat)
    (hx : xs ≠ []) (hr : 0 < rate) (hD : 0 < D) (side : repeatEnough R xs.length rate D) :
    ∃ ys, repeatR R xs rate D = .ok ys ∧ ys.length = (secToSamples R D rate).toNat ∧
      (∀ i, i < (secToSamples R D rate).toNat → ys[i]? = xs[i % xs.length]?) ∧
      repeatR R (xs.map Prod.fst) rate D = .ok (ys.map Prod.fst) ∧
      repeatR R (xs.map Prod.snd) rate D = .ok (ys.map Prod.snd) := by
  obtain ⟨ys, h, hl, hi⟩ := repeat_spec hR xs rate D hx hr hD side
  refine ⟨ys, h, hl, hi, ?_, ?_⟩
  · rw [repeat_map, h]; rfl
  · rw [repeat_map, h]; rfl

example : repeatSamples [((1 : Int), (-1 : Int)), (2, -2), (3, -3)] 2 (5 / 2) =
    .ok [(1, -1), (2, -2), (3, -3), (1, -1), (2, -2)] := by decide +kernel
example : crop [((1 : Int), (-1 : Int)), (2, -2), (3, -3)] 2 (1 / 2) 1 = [(2, -2), (3, -3)] := by
  decide +kernel
example : repeatEnough rne53 3 2 (5 / 2) := by decide +kernel

/-! ## make_stereo -/

theorem stereo_dtype_error {α} (z : α) (dl dr : Dtype) (l r : List α) (h : dl ≠ dr) :
    makeStereo z dl dr l r = .error "AudioIODataTypeError" := by
  simp [makeStereo, h]

/-- **stereo_spec**: same dtype ⇒ `max |l| |r|` frames, frame `i` is `(l[i], r[i])` with the
shorter channel padded by zeros (`getD` here *is* the specification of zero padding) -/
theorem stereo_spec {α} (z : α) (dt : Dtype) (l r : List α) :
    makeStereo z dt dt l r =
      .ok ((List.range (max l.length r.length)).map (fun i => (l[i]?.getD z, r[i]?.getD z))) := by
  unfold makeStereo
  simp only [ne_eq, not_true_eq_false, if_false, stereo_rows]
  congr 1
  have hl : (l ++ List.replicate (max l.length r.length - l.length) z).length = max l.length r.length := by
    simp; omega
  rw [List.take_left' hl, List.drop_left' hl]
  apply List.ext_getElem?
  intro i
  rw [List.zip_eq_zipWith, List.getElem?_zipWith, List.getElem?_map]
  by_cases hi : i < max l.length r.length
  · rw [List.getElem?_range hi]
    have a : (l ++ List.replicate (max l.length r.length - l.length) z)[i]? = some (l[i]?.getD z) := by
      by_cases c : i < l.length
      · rw [List.getElem?_append_left c]; simp [c]
      · rw [List.getElem?_append_right (by omega), List.getElem?_replicate,
          List.getElem?_eq_none (by omega)]
        have : i - l.length < max l.length r.length - l.length := by omega
        simp [this]
    have b : (r ++ List.replicate (max l.length r.length - r.length) z)[i]? = some (r[i]?.getD z) := by
      by_cases c : i < r.length
      · rw [List.getElem?_append_left c]; simp [c]
      · rw [List.getElem?_append_right (by omega), List.getElem?_replicate,
          List.getElem?_eq_none (by omega)]
        have : i - r.length < max l.length r.length - r.length := by omega
        simp [this]
    rw [a, b]; rfl
  · rw [List.getElem?_eq_none (by simp; omega), List.getElem?_eq_none (by simp; omega),
      List.getElem?_eq_none (by simp; omega)]
    rfl

/-- consequences: length, and both channels are kept in order in front of their padding -/
theorem stereo_channels {α} (z : α) (dt : Dtype) (l r : List α) :
    ∃ out, makeStereo z dt dt l r = .ok out ∧ out.length = max l.length r.length ∧
      out.map Prod.fst = l ++ List.replicate (max l.length r.length - l.length) z ∧
      out.map Prod.snd = r ++ List.replicate (max l.length r.length - r.length) z := by
  refine ⟨_, stereo_spec z dt l r, by simp, ?_, ?_⟩
  · apply List.ext_getElem?
    intro i
    simp only [List.map_map, List.getElem?_map]
    by_cases hi : i < max l.length r.length
    · rw [List.getElem?_range hi]
      by_cases c : i < l.length
      · rw [List.getElem?_append_left c]; simp [c]
      · rw [List.getElem?_append_right (by omega), List.getElem?_replicate,
          ]
        have : i - l.length < max l.length r.length - l.length := by omega
        simp [this, c]
    · rw [List.getElem?_eq_none (by simp; omega), List.getElem?_eq_none (by simp; omega)]
      rfl
  · apply List.ext_getElem?
    intro i
    simp only [List.map_map, List.getElem?_map]
    by_cases hi : i < max l.length r.length
    · rw [List.getElem?_range hi]
      by_cases c : i < r.length
      · rw [List.getElem?_append_left c]; simp [c]
      · rw [List.getElem?_append_right (by omega), List.getElem?_replicate]
        have : i - r.length < max l.length r.length - r.length := by omega
        simp [this, c]
    · rw [List.getElem?_eq_none (by simp; omega), List.getElem?_eq_none (by simp; omega)]
      rfl

example : makeStereo 0 .float32 .float32 [1, 2, 3] [7] = .ok [(1, 7), (2, 0), (3, 0)] := by decide
example : makeStereo 0 .int16 .int16 ([] : List Int) [7, 8] = .ok [(0, 7), (0, 8)] := by decide
example : makeStereo 0 .int16 .float32 [1] [2] = .error "AudioIODataTypeError" := by decide

end NSV.C20
