import NoteSeqVerif.Proofs.C20
import NoteSeqVerif.Proofs.C20_rne
import NoteSeqVerif.Props.C20_chunk00
import NoteSeqVerif.Props.C20_chunk01
import NoteSeqVerif.Props.C20_chunk02
import NoteSeqVerif.Props.C20_chunk03
import NoteSeqVerif.Props.C20_chunk04
import NoteSeqVerif.Props.C20_chunk05
import NoteSeqVerif.Props.C20_chunk06
import NoteSeqVerif.Props.C20_chunk07
import NoteSeqVerif.Props.C20_chunk08
import NoteSeqVerif.Props.C20_chunk09
import NoteSeqVerif.Props.C20_chunk10
import NoteSeqVerif.Props.C20_chunk11
import NoteSeqVerif.Props.C20_chunk12
import NoteSeqVerif.Props.C20_chunk13
import NoteSeqVerif.Props.C20_chunk14
import NoteSeqVerif.Props.C20_chunk15
/-! C20 — property theorems only.
`Gen.toFloatDiv` / `Gen.toIntMul` are regenerated from `note_seq/audio_io.py` on every run, so a
changed scale constant changes the statement that the 16 chunk modules decide. -/
namespace NSV.C20

/-! ## 16-bit PCM → float32 → 16-bit PCM is the identity on all 65 536 values -/

/-- the 16 kernel-decided chunks assembled: every int16 value passes the check -/
theorem pcmOk_all (k : Int) (h1 : -32768 ≤ k) (h2 : k ≤ 32767) : pcmOk k = true := by
  by_cases c00 : k < -28672
  · exact pcmOk_of_range pcm_chunk00 k (by omega) (by omega)
  by_cases c01 : k < -24576
  · exact pcmOk_of_range pcm_chunk01 k (by omega) (by omega)
  by_cases c02 : k < -20480
  · exact pcmOk_of_range pcm_chunk02 k (by omega) (by omega)
  by_cases c03 : k < -16384
  · exact pcmOk_of_range pcm_chunk03 k (by omega) (by omega)
  by_cases c04 : k < -12288
  · exact pcmOk_of_range pcm_chunk04 k (by omega) (by omega)
  by_cases c05 : k < -8192
  · exact pcmOk_of_range pcm_chunk05 k (by omega) (by omega)
  by_cases c06 : k < -4096
  · exact pcmOk_of_range pcm_chunk06 k (by omega) (by omega)
  by_cases c07 : k < 0
  · exact pcmOk_of_range pcm_chunk07 k (by omega) (by omega)
  by_cases c08 : k < 4096
  · exact pcmOk_of_range pcm_chunk08 k (by omega) (by omega)
  by_cases c09 : k < 8192
  · exact pcmOk_of_range pcm_chunk09 k (by omega) (by omega)
  by_cases c10 : k < 12288
  · exact pcmOk_of_range pcm_chunk10 k (by omega) (by omega)
  by_cases c11 : k < 16384
  · exact pcmOk_of_range pcm_chunk11 k (by omega) (by omega)
  by_cases c12 : k < 20480
  · exact pcmOk_of_range pcm_chunk12 k (by omega) (by omega)
  by_cases c13 : k < 24576
  · exact pcmOk_of_range pcm_chunk13 k (by omega) (by omega)
  by_cases c14 : k < 28672
  · exact pcmOk_of_range pcm_chunk14 k (by omega) (by omega)
  exact pcmOk_of_range pcm_chunk15 k (by omega) (by omega)

/-- the Python-int multiplier is exactly representable in float32 (so `y * 32767` is one rounding) -/
theorem toIntMul_exact : rne 24 (Gen.toIntMul : Rat) = (Gen.toIntMul : Rat) := by decide +kernel

/-- **pcm_roundtrip**: `float_samples_to_int16 (int16_samples_to_float32 [k]) = [k]` for every
int16 value `k` — float32 division and multiplication by `rne24`, `astype(int16)` by truncation. -/
theorem pcm_roundtrip (k : Int) (h1 : -32768 ≤ k) (h2 : k ≤ 32767) :
    floatToInt16 24 (int16ToFloat k) = some k := by
  have h := pcmOk_all k h1 h2
  unfold pcmOk at h
  have hv : truncR (rne 24 (int16ToFloat k * rne 24 (Gen.toIntMul : Rat))) = k := by
    rw [toIntMul_exact]; exact eq_of_beq h
  unfold floatToInt16
  simp only [hv]
  simp [h1, h2]

/-- the same fact written out with the literal constants of the property statement -/
theorem pcm_roundtrip_literal (k : Int) (h1 : -32768 ≤ k) (h2 : k ≤ 32767) :
    truncR (rne24 (rne24 ((k : Rat) / 32767) * 32767)) = k := by
  have h := pcmOk_all k h1 h2
  unfold pcmOk at h
  exact eq_of_beq h

/-- consequently the int16 → float32 map is injective on int16 -/
theorem int16ToFloat_injective (j k : Int) (hj : -32768 ≤ j ∧ j ≤ 32767) (hk : -32768 ≤ k ∧ k ≤ 32767)
    (h : int16ToFloat j = int16ToFloat k) : j = k := by
  have a := pcm_roundtrip j hj.1 hj.2
  have b := pcm_roundtrip k hk.1 hk.2
  rw [h, b] at a
  exact (Option.some.inj a).symm

/-- array level, with the dtype checks of both helpers: any int16 array, any length -/
theorem pcm_roundtrip_list (ks : List Int) (h : ∀ k ∈ ks, -32768 ≤ k ∧ k ≤ 32767) :
    ∃ fs, int16SamplesToFloat32 .int16 ks = .ok fs ∧
      floatSamplesToInt16 .float32 fs = .ok (ks.map some) := by
  refine ⟨ks.map int16ToFloat, by simp [int16SamplesToFloat32], ?_⟩
  simp only [floatSamplesToInt16, Dtype.prec, List.map_map]
  congr 1
  apply List.map_congr_left
  intro k hk
  exact pcm_roundtrip k (h k hk).1 (h k hk).2

example : floatToInt16 24 (int16ToFloat (-12345)) = some (-12345) := pcm_roundtrip _ (by omega) (by omega)
example : int16ToFloat 1 ≠ 1 / 32767 := by decide +kernel   -- the float32 quotient is genuinely rounded

/-- dtype errors of the two helpers -/
theorem int16_to_float_rejects (dt : Dtype) (ys : List Int) (h : dt ≠ .int16) :
    int16SamplesToFloat32 dt ys = .error "ValueError" := by
  simp [int16SamplesToFloat32, h]

theorem float_to_int16_rejects (dt : Dtype) (ys : List Rat) (h : dt.prec = none) :
    floatSamplesToInt16 dt ys = .error "ValueError" := by
  simp [floatSamplesToInt16, h]

example : Dtype.int16.prec = none ∧ Dtype.float32 ≠ Dtype.int16 := by decide

/-! ## WAV encode → decode at the same rate (codec = identity on int16 arrays: monitored, not proved) -/

/-- `samples_to_wav_data` hands the codec exactly the int16 array `ks`, and `wav_data_to_samples`
turns that array back into exactly the float32 samples it came from -/
theorem wav_roundtrip (ks : List Int) (h : ∀ k ∈ ks, -32768 ≤ k ∧ k ≤ 32767) :
    floatSamplesToInt16 .float32 (ks.map int16ToFloat) = .ok (ks.map some) ∧
    wavDataToSamples (.ints .int16 ks) = .ok (ks.map int16ToFloat) ∧
    wavRoundTrip .float32 (ks.map int16ToFloat) = .ok ((ks.map int16ToFloat).map some) := by
  obtain ⟨fs, h1, h2⟩ := pcm_roundtrip_list ks h
  have e : fs = ks.map int16ToFloat := by
    simp [int16SamplesToFloat32] at h1; exact h1.symm
  subst e
  refine ⟨h2, by simp [wavDataToSamples, int16SamplesToFloat32], ?_⟩
  simp [wavRoundTrip, h2, List.map_map, Function.comp_def]

example : wavRoundTrip .float32 ([0, -32768, 32767, 1].map int16ToFloat) =
    .ok (([0, -32768, 32767, 1].map int16ToFloat).map some) :=
  (wav_roundtrip _ (by decide)).2.2

/-! ## crop_samples

`R` is the rounding applied to the float product `seconds * sample_rate`; the code is `R = rne53`
(`crop`), the exact-arithmetic reading is `R = id`.  `SignPreserving R` is all the theorems need. -/

/-- what the theorems need of the rounding operator: zero stays zero, positive stays positive -/
structure SignPreserving (R : Rat → Rat) : Prop where
  zero : R 0 = 0
  pos : ∀ x, 0 < x → 0 < R x

theorem signPreserving_rne53 : SignPreserving rne53 :=
  ⟨rne_zero 53, rne_pos 53 (by decide)⟩

theorem signPreserving_id : SignPreserving id := ⟨rfl, fun _ h => h⟩

theorem SignPreserving.nonneg {R} (h : SignPreserving R) (x : Rat) (hx : 0 ≤ x) : 0 ≤ R x := by
  by_cases h0 : x = 0
  · subst h0; rw [h.zero]; exact Rat.le_refl
  · exact Rat.le_of_lt (h.pos x (by grind))

theorem secToSamples_nonneg {R} (hR : SignPreserving R) (secs : Rat) (rate : Int)
    (hs : 0 ≤ secs) (hr : 0 ≤ rate) : 0 ≤ secToSamples R secs rate := by
  unfold secToSamples
  apply truncR_nonneg
  apply hR.nonneg
  exact Rat.mul_nonneg hs (Rat.intCast_nonneg.mpr hr)

/-- **crop_spec**: for non-negative offset/length the result is exactly the existing samples with
index in `[a, a+n)`, `a = int(begin·rate)`, `n = int(length·rate)` -/
theorem crop_spec {α} {R} (hR : SignPreserving R) (xs : List α) (rate : Int) (b len : Rat)
    (hr : 0 ≤ rate) (hb : 0 ≤ b) (hl : 0 ≤ len) :
    cropR R xs rate b len =
      (xs.drop (secToSamples R b rate).toNat).take (secToSamples R len rate).toNat := by
  unfold cropR
  exact pySlice_nonneg xs _ _ (secToSamples_nonneg hR b rate hb hr) (secToSamples_nonneg hR len rate hl hr)

/-- element-wise reading: output index `i` is input index `a + i` as long as `i < n` and it exists -/
theorem crop_getElem? {α} {R} (hR : SignPreserving R) (xs : List α) (rate : Int) (b len : Rat)
    (hr : 0 ≤ rate) (hb : 0 ≤ b) (hl : 0 ≤ len) (i : Nat) :
    (cropR R xs rate b len)[i]? =
      if i < (secToSamples R len rate).toNat then xs[(secToSamples R b rate).toNat + i]? else none := by
  rw [crop_spec hR xs rate b len hr hb hl, List.getElem?_take, List.getElem?_drop]

theorem crop_length {α} {R} (hR : SignPreserving R) (xs : List α) (rate : Int) (b len : Rat)
    (hr : 0 ≤ rate) (hb : 0 ≤ b) (hl : 0 ≤ len) :
    (cropR R xs rate b len).length =
      min (secToSamples R len rate).toNat (xs.length - (secToSamples R b rate).toNat) := by
  rw [crop_spec hR xs rate b len hr hb hl, List.length_take, List.length_drop]

/-- the code itself (`R = rne53`) -/
theorem crop_spec_float {α} (xs : List α) (rate : Int) (b len : Rat)
    (hr : 0 ≤ rate) (hb : 0 ≤ b) (hl : 0 ≤ len) (i : Nat) :
    (crop xs rate b len)[i]? =
      if i < (secToSamples rne53 len rate).toNat
      then xs[(secToSamples rne53 b rate).toNat + i]? else none :=
  crop_getElem? signPreserving_rne53 xs rate b len hr hb hl i

-- 0.35 s · 100 Hz: the float product is exactly 35 although 0.35 (as a double) is below 35/100;
-- crop beyond the end returns only what exists
example : crop [10, 11, 12, 13, 14] 2 1 (3 / 2) = [12, 13, 14] := by decide +kernel
example : crop [10, 11, 12, 13, 14] 2 2 5 = [14] ∧ crop [10, 11, 12] 2 5 5 = ([] : List Nat) := by
  decide +kernel
example : secToSamples rne53 (rne53 (35 / 100)) 100 = 35 ∧ secToSamples id (rne53 (35 / 100)) 100 = 34 := by
  decide +kernel

/-! ## repeat_samples_to_duration -/

theorem rat_div_pos (a b : Rat) (ha : 0 < a) (hb : 0 < b) : 0 < a / b := by
  rw [Rat.div_def]; exact Rat.mul_pos ha (Rat.inv_pos.mpr hb)

theorem rat_ceil_pos (x : Rat) (h : 0 < x) : 0 < x.ceil := by
  have := @Rat.le_ceil x
  have : (0 : Rat) < (x.ceil : Rat) := by grind
  exact Rat.intCast_pos.mp this

theorem secToSamples_zero {R} (hR : SignPreserving R) (rate : Int) : secToSamples R 0 rate = 0 := by
  unfold secToSamples
  rw [Rat.zero_mul, hR.zero]
  decide

/-- errors, in the order the Python raises them -/
theorem repeat_errors {α} (R : Rat → Rat) (xs : List α) (rate : Int) (D : Rat) :
    (rate = 0 → repeatR R xs rate D = .error "ZeroDivisionError") ∧
    (rate ≠ 0 → R ((xs.length : Rat) / (rate : Rat)) = 0 →
      repeatR R xs rate D = .error "ZeroDivisionError") ∧
    (rate ≠ 0 → R ((xs.length : Rat) / (rate : Rat)) ≠ 0 → numRepeats R xs.length rate D ≤ 0 →
      repeatR R xs rate D = .error "ValueError") := by
  unfold repeatR
  refine ⟨fun h => by simp [h], fun h1 h2 => by simp [h1, h2], fun h1 h2 h3 => by simp [h1, h2, h3]⟩

/-- an empty input is a `ZeroDivisionError` (`duration / 0.0`), whatever the duration -/
theorem repeat_empty {α} {R} (hR : SignPreserving R) (rate : Int) (D : Rat) :
    repeatR R ([] : List α) rate D = .error "ZeroDivisionError" := by
  unfold repeatR
  by_cases h : rate = 0
  · simp [h]
  · have z : (0 : Rat) / (rate : Rat) = 0 := by simp [Rat.div_def, Rat.zero_mul]
    simp [h, z, hR.zero]

/-- whenever the call returns, the result is a prefix of the cyclic repetition of the input, of
length `min (int(D·rate)) (num_repeats · len)` — no side condition -/
theorem repeat_prefix {α} {R} (hR : SignPreserving R) (xs : List α) (rate : Int) (D : Rat)
    (hr : 0 ≤ rate) (hD : 0 ≤ D) (ys : List α) (h : repeatR R xs rate D = .ok ys) :
    ys.length = min (secToSamples R D rate).toNat ((numRepeats R xs.length rate D).toNat * xs.length) ∧
    ∀ i, i < ys.length → ys[i]? = xs[i % xs.length]? := by
  unfold repeatR at h
  split at h
  · cases h
  · split at h
    · cases h
    · simp only at h
      split at h
      · cases h
      · have h := (Except.ok.inj h).symm
        rw [crop_spec hR _ rate 0 D hr Rat.le_refl hD, secToSamples_zero hR] at h
        simp only [Int.toNat_zero, List.drop_zero] at h
        subst h
        have hlen : (List.take (secToSamples R D rate).toNat
            (List.replicate (numRepeats R xs.length rate D).toNat xs).flatten).length =
            min (secToSamples R D rate).toNat ((numRepeats R xs.length rate D).toNat * xs.length) := by
          rw [List.length_take, length_flatten_replicate]
        refine ⟨hlen, fun i hi => ?_⟩
        rw [hlen] at hi
        rw [List.getElem?_take, if_pos (by omega), getElem?_flatten_replicate _ _ _ (by omega)]

/-- **repeat_spec**: non-empty input, positive rate and duration, and the explicit side condition
`int(D·rate) ≤ num_repeats · len` on the float ceiling: exactly `int(D·rate)` samples, sample `i`
is input sample `i mod len` -/
theorem repeat_spec {α} {R} (hR : SignPreserving R) (xs : List α) (rate : Int) (D : Rat)
    (hx : xs ≠ []) (hr : 0 < rate) (hD : 0 < D) (side : repeatEnough R xs.length rate D) :
    ∃ ys, repeatR R xs rate D = .ok ys ∧ ys.length = (secToSamples R D rate).toNat ∧
      ∀ i, i < (secToSamples R D rate).toNat → ys[i]? = xs[i % xs.length]? := by
  have hlen : 0 < xs.length := List.length_pos_iff.mpr hx
  have hsd : 0 < R ((xs.length : Rat) / (rate : Rat)) :=
    hR.pos _ (rat_div_pos _ _ (Rat.natCast_pos.mpr hlen) (Rat.intCast_pos.mpr hr))
  have hnr : 0 < numRepeats R xs.length rate D := by
    unfold numRepeats
    exact rat_ceil_pos _ (hR.pos _ (rat_div_pos _ _ hD hsd))
  have hok : repeatR R xs rate D =
      .ok (cropR R (List.replicate (numRepeats R xs.length rate D).toNat xs).flatten rate 0 D) := by
    unfold repeatR
    have h1 : rate ≠ 0 := by omega
    have h2 : R ((xs.length : Rat) / (rate : Rat)) ≠ 0 := by grind
    have h3 : ¬ numRepeats R xs.length rate D ≤ 0 := by omega
    simp [h1, h2, h3]
  refine ⟨_, hok, ?_⟩
  obtain ⟨p1, p2⟩ := repeat_prefix hR xs rate D (by omega) (Rat.le_of_lt hD) _ hok
  have hn := secToSamples_nonneg hR D rate (Rat.le_of_lt hD) (by omega)
  unfold repeatEnough at side
  have hmin : (secToSamples R D rate).toNat ≤ (numRepeats R xs.length rate D).toNat * xs.length := by
    have e : ((numRepeats R xs.length rate D).toNat : Int) = numRepeats R xs.length rate D := by omega
    have : ((secToSamples R D rate).toNat : Int) ≤
        (((numRepeats R xs.length rate D).toNat * xs.length : Nat) : Int) := by
      rw [Int.natCast_mul, e]; omega
    exact Int.ofNat_le.mp this
  rw [Nat.min_eq_left hmin] at p1
  exact ⟨p1, fun i hi => p2 i (by omega)⟩

/-- in exact arithmetic the side condition always holds:
`⌊D·rate⌋ ≤ ⌈D / (len/rate)⌉ · len` -/
theorem repeatEnough_exact (len : Nat) (rate : Int) (D : Rat) (hl : 0 < len) (hr : 0 < rate)
    (hD : 0 < D) : repeatEnough id len rate D := by
  unfold repeatEnough secToSamples numRepeats truncR
  simp only [id]
  have hl' : (0 : Rat) < (len : Rat) := Rat.natCast_pos.mpr hl
  have hr' : (0 : Rat) < (rate : Rat) := Rat.intCast_pos.mpr hr
  have hp : 0 ≤ D * (rate : Rat) := Rat.le_of_lt (Rat.mul_pos hD hr')
  simp only [hp, if_true]
  have e : D / ((len : Rat) / (rate : Rat)) * (len : Rat) = D * (rate : Rat) := by grind
  have a := Rat.floor_le (D * (rate : Rat))
  have b := @Rat.le_ceil (D / ((len : Rat) / (rate : Rat)))
  have c : D / ((len : Rat) / (rate : Rat)) * (len : Rat) ≤
      ((D / ((len : Rat) / (rate : Rat))).ceil : Rat) * (len : Rat) :=
    Rat.mul_le_mul_of_nonneg_right b (Rat.le_of_lt hl')
  apply Rat.intCast_le_intCast.mp
  rw [Rat.intCast_mul, Rat.intCast_natCast]
  grind

/-- exact-arithmetic reading of the property: no side condition at all -/
theorem repeat_spec_exact {α} (xs : List α) (rate : Int) (D : Rat)
    (hx : xs ≠ []) (hr : 0 < rate) (hD : 0 < D) :
    ∃ ys, repeatR id xs rate D = .ok ys ∧ ys.length = (D * (rate : Rat)).floor.toNat ∧
      ∀ i, i < (D * (rate : Rat)).floor.toNat → ys[i]? = xs[i % xs.length]? := by
  have h := repeat_spec signPreserving_id xs rate D hx hr hD
    (repeatEnough_exact xs.length rate D (List.length_pos_iff.mpr hx) hr hD)
  have e : secToSamples id D rate = (D * (rate : Rat)).floor := by
    unfold secToSamples truncR
    have : 0 ≤ D * (rate : Rat) :=
      Rat.le_of_lt (Rat.mul_pos hD (Rat.intCast_pos.mpr hr))
    simp [this]
  rw [e] at h
  exact h

/-- the code itself (`R = rne53`), side condition explicit (it is decidable, and evaluated by the
driver on every correspondence input) -/
theorem repeat_spec_float {α} (xs : List α) (rate : Int) (D : Rat)
    (hx : xs ≠ []) (hr : 0 < rate) (hD : 0 < D) (side : repeatEnough rne53 xs.length rate D) :
    ∃ ys, repeatSamples xs rate D = .ok ys ∧ ys.length = (secToSamples rne53 D rate).toNat ∧
      ∀ i, i < (secToSamples rne53 D rate).toNat → ys[i]? = xs[i % xs.length]? :=
  repeat_spec signPreserving_rne53 xs rate D hx hr hD side

/-- non-positive durations are rejected (`np.concatenate` of nothing), in exact arithmetic -/
theorem repeat_nonpos_exact {α} (xs : List α) (rate : Int) (D : Rat)
    (hx : xs ≠ []) (hr : 0 < rate) (hD : D ≤ 0) : repeatR id xs rate D = .error "ValueError" := by
  have hl' : (0 : Rat) < (xs.length : Rat) := Rat.natCast_pos.mpr (List.length_pos_iff.mpr hx)
  have hr' : (0 : Rat) < (rate : Rat) := Rat.intCast_pos.mpr hr
  have hsd := rat_div_pos _ _ hl' hr'
  refine (repeat_errors id xs rate D).2.2 (by omega) (by simp only [id]; grind) ?_
  unfold numRepeats
  simp only [id]
  apply Rat.ceil_le_iff.mpr
  have : D / ((xs.length : Rat) / (rate : Rat)) = D * ((xs.length : Rat) / (rate : Rat))⁻¹ := Rat.div_def _ _
  have hinv : 0 < ((xs.length : Rat) / (rate : Rat))⁻¹ := Rat.inv_pos.mpr hsd
  have := Rat.mul_le_mul_of_nonneg_right hD (Rat.le_of_lt hinv)
  grind

example : repeatSamples [1, 2, 3] 2 4 = .ok [1, 2, 3, 1, 2, 3, 1, 2] := by decide +kernel
example : repeatEnough rne53 3 2 4 := by decide +kernel
example : repeatSamples ([] : List Nat) 2 4 = .error "ZeroDivisionError" ∧
    repeatSamples [1, 2, 3] 2 0 = .error "ValueError" := by decide +kernel

/-! ## make_stereo -/

theorem stereo_dtype_error {α} (z : α) (dl dr : Dtype) (l r : List α) (h : dl ≠ dr) :
    makeStereo z dl dr l r = .error "AudioIODataTypeError" := by
  simp [makeStereo, h]

/-- the masked assignment into `np.zeros((2, maxlen))` produces the two zero-padded rows -/
theorem stereo_rows {α} (z : α) (l r : List α) :
    fillMasked z
      ((List.range (max l.length r.length)).map (fun i => decide (i < l.length)) ++
       (List.range (max l.length r.length)).map (fun i => decide (i < r.length))) (l ++ r) =
    .ok ((l ++ List.replicate (max l.length r.length - l.length) z) ++
         (r ++ List.replicate (max l.length r.length - r.length) z)) := by
  rw [mask_eq, mask_eq]
  have e1 : min l.length (max l.length r.length) = l.length := by omega
  have e2 : min r.length (max l.length r.length) = r.length := by omega
  rw [e1, e2, List.append_assoc, fillMasked_true, fillMasked_false]
  have h := fillMasked_true z r (List.replicate (max l.length r.length - r.length) false ++ []) []
  rw [List.append_nil] at h
  rw [List.append_nil] at h
  rw [h]
  have h2 := fillMasked_false z (max l.length r.length - r.length) [] []
  rw [List.append_nil] at h2
  rw [h2]
  simp [fillMasked, Except.map]

/-- **stereo_spec**: same dtype ⇒ `max |l| |r|` frames, frame `i` is `(l[i], r[i])` with the
shorter channel padded by zeros (`getD` here *is* the specification of zero padding) -/
theorem stereo_spec {α} (z : α) (dt : Dtype) (l r : List α) :
    makeStereo z dt dt l r =
      .ok ((List.range (max l.length r.length)).map (fun i => (l[i]?.getD z, r[i]?.getD z))) := by
  unfold makeStereo
  simp only [ne_eq, not_true_eq_false, if_false, stereo_rows]
  congr 1
  have hl : (l ++ List.replicate (max l.length r.length - l.length) z).length = max l.length r.length := by
    simp; omega
  rw [List.take_left' hl, List.drop_left' hl]
  apply List.ext_getElem?
  intro i
  rw [List.zip_eq_zipWith, List.getElem?_zipWith, List.getElem?_map]
  by_cases hi : i < max l.length r.length
  · rw [List.getElem?_range hi]
    have a : (l ++ List.replicate (max l.length r.length - l.length) z)[i]? = some (l[i]?.getD z) := by
      by_cases c : i < l.length
      · rw [List.getElem?_append_left c]; simp [c]
      · rw [List.getElem?_append_right (by omega), List.getElem?_replicate,
          List.getElem?_eq_none (by omega)]
        have : i - l.length < max l.length r.length - l.length := by omega
        simp [this]
    have b : (r ++ List.replicate (max l.length r.length - r.length) z)[i]? = some (r[i]?.getD z) := by
      by_cases c : i < r.length
      · rw [List.getElem?_append_left c]; simp [c]
      · rw [List.getElem?_append_right (by omega), List.getElem?_replicate,
          List.getElem?_eq_none (by omega)]
        have : i - r.length < max l.length r.length - r.length := by omega
        simp [this]
    rw [a, b]; rfl
  · rw [List.getElem?_eq_none (by simp; omega), List.getElem?_eq_none (by simp; omega),
      List.getElem?_eq_none (by simp; omega)]
    rfl

/-- consequences: length, and both channels are kept in order in front of their padding -/
theorem stereo_channels {α} (z : α) (dt : Dtype) (l r : List α) :
    ∃ out, makeStereo z dt dt l r = .ok out ∧ out.length = max l.length r.length ∧
      out.map Prod.fst = l ++ List.replicate (max l.length r.length - l.length) z ∧
      out.map Prod.snd = r ++ List.replicate (max l.length r.length - r.length) z := by
  refine ⟨_, stereo_spec z dt l r, by simp, ?_, ?_⟩
  · apply List.ext_getElem?
    intro i
    simp only [List.map_map, List.getElem?_map]
    by_cases hi : i < max l.length r.length
    · rw [List.getElem?_range hi]
      by_cases c : i < l.length
      · rw [List.getElem?_append_left c]; simp [c]
      · rw [List.getElem?_append_right (by omega), List.getElem?_replicate,
          ]
        have : i - l.length < max l.length r.length - l.length := by omega
        simp [this, c]
    · rw [List.getElem?_eq_none (by simp; omega), List.getElem?_eq_none (by simp; omega)]
      rfl
  · apply List.ext_getElem?
    intro i
    simp only [List.map_map, List.getElem?_map]
    by_cases hi : i < max l.length r.length
    · rw [List.getElem?_range hi]
      by_cases c : i < r.length
      · rw [List.getElem?_append_left c]; simp [c]
      · rw [List.getElem?_append_right (by omega), List.getElem?_replicate]
        have : i - r.length < max l.length r.length - r.length := by omega
        simp [this, c]
    · rw [List.getElem?_eq_none (by simp; omega), List.getElem?_eq_none (by simp; omega)]
      rfl

example : makeStereo 0 .float32 .float32 [1, 2, 3] [7] = .ok [(1, 7), (2, 0), (3, 0)] := by decide
example : makeStereo 0 .int16 .int16 ([] : List Int) [7, 8] = .ok [(0, 7), (0, 8)] := by decide
example : makeStereo 0 .int16 .float32 [1] [2] = .error "AudioIODataTypeError" := by decide

end NSV.C20
