import NoteSeqVerif.Proofs.C12AConcatFull
import NoteSeqVerif.Props.C12_stretch
/-! C12 — `concatenate_sequences` and `repeat_sequence_to_duration` do not depend on the storage order
of any repeated field of their inputs, **under the property's own quantifier**: no two state events of
one kind share a time *inside each input sequence*.  (`C12_stretch.lean` proves the same conclusions
under `ConcatNoTies` / `RepeatNoTies`: no coincidence at all in the shifted-and-merged sequence, which
rules out the ordinary case of a tempo / time signature at the very start of every piece meeting an
event at the end of the previous piece.)

Why the weaker hypothesis is enough: `remove_redundant_data` and `extract_subsequence` read the merged
containers through a *stable* sort by time, and the merged containers are the shifted pieces appended in
the order of the argument list, which is the same for both calls.  A stable sort orders events of one
time by stored position; two events of one time come from different pieces (inside a piece times are
distinct), and pieces keep their relative position.  So the stably sorted containers of the two calls are
equal (`sortByRat_eq_of_classes`, `SameClasses.append` in `Proofs/C12AConcatFull.lean`).

Two forms each:
* `…_pieces` — every rounding operator `R` (so also the compiled float model, `R = rne53`), hypothesis on
  the pieces *as the loop shifts them* (`ConcatPieces`, decidable) — float rounding of `time + offset`
  may make two distinct times of one input coincide, which is why the hypothesis cannot be on the inputs;
* `concat_perm`, `repeat_perm` — exact arithmetic (`R = id`), hypothesis on the inputs alone.
`concat_input_ties_matter` shows the per-input condition cannot be dropped. -/
namespace NSV.C12
open NSV NSV.C13

/-! ## concatenation -/

/-- `concatenate_sequences(sequences, sequence_durations)` on two lists of sequences that differ position
by position only in storage order, any rounding `R`: if no input, *shifted to its place by the loop*,
has two time signatures / two key signatures / two tempos at one time, then both calls raise the same
error or return the same sequence up to storage order.  Coincidences between different inputs are
allowed. -/
theorem concat_perm_pieces (R : Rat → Rat) (mm : List String → String) {seqs seqs' : List MSeq}
    (h : MPermList seqs seqs') (durs : List Rat) (hn : ConcatPieces StateNoTies R seqs durs) :
    ResPermM (concatR R mm seqs durs) (concatR R mm seqs' durs) :=
  concat_perm_pieces_aux R mm h durs hn

/-- **the full statement** (exact arithmetic): it is enough that no two time signatures / key signatures /
tempos *of one input sequence* share a time -/
theorem concat_perm (mm : List String → String) {seqs seqs' : List MSeq} (durs : List Rat)
    (h : MPermList seqs seqs') (hn : ∀ m ∈ seqs, StateNoTies m.ns) :
    ResPermM (concatR id mm seqs durs) (concatR id mm seqs' durs) :=
  concat_perm_pieces id mm h durs
    (concatPieces_exact (fun _ _ _ e hs => stateNoTies_shift_id e hs) durs hn)

/-- `ConcatPermFull` of `C12_stretch.lean`, kept there as an open `def … : Prop`, holds -/
theorem concatPermFull_holds : ConcatPermFull :=
  fun mm _ _ durs h hn => concat_perm mm durs h hn

/-- the hypothesis of `concat_perm_pieces` does not depend on which storage order it is evaluated on -/
theorem concatPieces_perm (R : Rat → Rat) {seqs seqs' : List MSeq} (h : MPermList seqs seqs')
    (durs : List Rat) (hn : ConcatPieces StateNoTies R seqs durs) : ConcatPieces StateNoTies R seqs' durs :=
  piecesOK_perm (fun hp hs => StateNoTies.perm hp hs) R _ _ _ (catPairs_perm h durs) 0 emptyM emptyM (MPerm.refl _) hn

/-! ## repetition -/

/-- the hypothesis of `repeat_perm_pieces`: each of the `n` copies, shifted to its place, satisfies
extraction's `NoTies` (no two tempos / time signatures / key signatures / chord symbols at one time, no two
preserved control changes of one instrument and controller at one time) -/
def RepeatPieces (R : Rat → Rat) (m : MSeq) (dur sd : Rat) : Prop :=
  let d := if sd = 0 then m.ns.totalTime else sd
  let n := (R (dur / d)).ceil.toNat
  ConcatPieces (NoTies NSV.C02.Gen.PRESERVE) R (List.replicate n m) (List.replicate n d)

instance (R : Rat → Rat) (m : MSeq) (dur sd : Rat) : Decidable (RepeatPieces R m dur sd) := by
  unfold RepeatPieces; infer_instance

/-- `repeat_sequence_to_duration(sequence, duration, sequence_duration)` (with C02's model of
`extract_subsequence` for the final cut) on two storage orders of one sequence, any rounding `R`:
copies may meet at the seams (and overlap, when events lie beyond `total_time`) in any way -/
theorem repeat_perm_pieces (R : Rat → Rat) (mm : List String → String) {m m' : MSeq} (h : MPerm m m')
    (dur sd : Rat) (hn : RepeatPieces R m dur sd) :
    ResPermM (repeatFullR R mm m dur sd) (repeatFullR R mm m' dur sd) := by
  rw [repeat_spec, repeat_spec, ← h.1.totalTime]
  unfold RepeatPieces at hn
  simp only [] at hn ⊢
  generalize (if sd = 0 then m.ns.totalTime else sd) = d at hn ⊢
  generalize (R (dur / d)).ceil.toNat = n at hn ⊢
  by_cases hd0 : d = 0
  · rw [if_pos hd0, if_pos hd0]; rfl
  · rw [if_neg hd0, if_neg hd0]
    have hl := MPermList.replicate n h
    have hc := concat_perm_pieces R mm hl (List.replicate n d)
      (PiecesOK.mono (fun _ (x : NoTies NSV.C02.Gen.PRESERVE _) => ⟨x.2.1, x.2.2.1, x.1⟩) R _ _ _ _ hn)
    cases h1 : concatR R mm (List.replicate n m) (List.replicate n d) with
    | error e =>
      cases h2 : concatR R mm (List.replicate n m') (List.replicate n d) with
      | error e' => rw [h1, h2] at hc; exact hc
      | ok r' => rw [h1, h2] at hc; exact hc.elim
    | ok r =>
      cases h2 : concatR R mm (List.replicate n m') (List.replicate n d) with
      | error e' => rw [h1, h2] at hc; exact hc.elim
      | ok r' =>
        rw [h1, h2] at hc
        simp only []
        obtain ⟨_, hag⟩ := concat_sortAgree R mm NSV.C02.Gen.PRESERVE hl (List.replicate n d) hn h1 h2
        have he := extractSubsequence_perm_of_agree R NSV.C02.Gen.PRESERVE hc.1 hag 0 dur
        cases h3 : NSV.C02.extractSubsequenceR R NSV.C02.Gen.PRESERVE r.ns 0 dur with
        | error e =>
          cases h4 : NSV.C02.extractSubsequenceR R NSV.C02.Gen.PRESERVE r'.ns 0 dur with
          | error e' => rw [h3, h4] at he; exact he
          | ok t' => rw [h3, h4] at he; exact he.elim
        | ok t =>
          cases h4 : NSV.C02.extractSubsequenceR R NSV.C02.Gen.PRESERVE r'.ns 0 dur with
          | error e' => rw [h3, h4] at he; exact he.elim
          | ok t' =>
            rw [h3, h4] at he
            refine ⟨?_, hc.2.1, hc.2.2⟩
            constructor <;> simp only []
            · exact he.notes
            · exact he.tempos
            · exact he.timeSigs
            · exact he.keySigs
            · exact he.texts
            · exact he.ccs
            · exact he.bends
            · exact he.sectionAnns
            · exact he.sgroups
            · exact he.totalTime
            · exact he.totalQSteps
            · exact he.spq
            · exact he.sps
            · exact he.tpq
            · exact he.metaTag

/-- the full statement for repetition, as a proposition: exact arithmetic, hypothesis on the repeated
sequence alone -/
def RepeatPermFull : Prop :=
  ∀ (mm : List String → String) (m m' : MSeq) (dur sd : Rat), MPerm m m' →
    NoTies NSV.C02.Gen.PRESERVE m.ns → ResPermM (repeatFullR id mm m dur sd) (repeatFullR id mm m' dur sd)

/-- **the full statement** (exact arithmetic): it is enough that the repeated sequence itself has no two
tempos / time signatures / key signatures / chord symbols at one time and no two preserved control changes
of one instrument and controller at one time -/
theorem repeat_perm (mm : List String → String) {m m' : MSeq} (h : MPerm m m') (dur sd : Rat)
    (hn : NoTies NSV.C02.Gen.PRESERVE m.ns) :
    ResPermM (repeatFullR id mm m dur sd) (repeatFullR id mm m' dur sd) := by
  refine repeat_perm_pieces id mm h dur sd ?_
  unfold RepeatPieces
  simp only []
  refine concatPieces_exact (fun _ _ _ e hs => noTies_shift_id e hs) _ ?_
  intro x hx
  rw [(List.mem_replicate.mp hx).2]
  exact hn

theorem repeatPermFull_holds : RepeatPermFull :=
  fun mm _ _ dur sd h hn => repeat_perm mm h dur sd hn

/-! ## non-vacuity, and the necessity of the per-input condition

(`List.mergeSort` does not reduce in the kernel, so the examples evaluate the sort of an already sorted
list with `sortByRat_of_pairwise`.) -/

/-- `exM1` with its second tempo moved to the very end (time 2 = `total_time`): concatenated with
another copy, that tempo meets the copy's first tempo (time 0, shifted to 2) -/
def exSeam : MSeq := { exM1 with ns := { exM1.ns with tempos := [⟨0, 120⟩, ⟨2, 90⟩] } }
def exSeam' : MSeq := { exSeam with ns := { exSeam.ns with
  notes := exSeam.ns.notes.reverse, tempos := [⟨2, 90⟩, ⟨0, 120⟩] } }

theorem exSeam_perm : MPermList [exSeam, exSeam] [exSeam', exSeam] := by
  refine ⟨⟨?_, rfl, rfl⟩, MPerm.refl _, trivial⟩
  constructor <;> first | rfl | (simp only [exSeam, exSeam', exM1]; decide +kernel)
-- each input is free of ties …
example : ∀ m ∈ [exSeam, exSeam], StateNoTies m.ns := by decide +kernel
-- … the merged sequence is not: `concat_perm_partial` does not apply, `concat_perm` does
example : ¬ ConcatNoTies id [exSeam, exSeam] [] := by decide +kernel
example : ConcatPieces StateNoTies id [exSeam, exSeam] [] := by decide +kernel
-- the result has the tempos 120@0, 90@2, 120@2, 90@4: at the seam the earlier piece's event comes first …
example : (concatR id (fun _ => "-") [exSeam, exSeam] []).toOption.map (·.ns.tempos) =
    some [⟨0, 120⟩, ⟨2, 90⟩, ⟨2, 120⟩, ⟨4, 90⟩] := by
  rw [concat_tempos_of_sorted [⟨0, 120⟩, ⟨2, 90⟩, ⟨2, 120⟩, ⟨4, 90⟩] (by decide +kernel) (by decide +kernel)
    (by decide +kernel)]
  decide +kernel
-- … and the call on the other storage order of the first input returns the same, by the theorem
example : ResPermM (concatR id (fun _ => "-") [exSeam, exSeam] []) (concatR id (fun _ => "-") [exSeam', exSeam] []) :=
  concat_perm _ [] exSeam_perm (by decide +kernel)

-- repetition: 5 seconds of a 2-second phrase = three copies, tempos meeting at both seams
example : NoTies NSV.C02.Gen.PRESERVE exSeam.ns := by decide +kernel
example : RepeatPieces id exSeam 5 0 := by decide +kernel
example : ¬ RepeatNoTies id (fun _ => "-") exSeam 5 0 := by
  intro h
  unfold RepeatNoTies at h
  simp only [] at h
  exact absurd h.1 (by decide +kernel)

/-- two tempos of ONE input at one time (1), a third with the qpm of one of them just before -/
def exTies : MSeq := { ns := { tempos := [⟨0, 120⟩, ⟨1, 60⟩, ⟨1, 120⟩], totalTime := 2 } }
def exTies' : MSeq := { ns := { tempos := [⟨0, 120⟩, ⟨1, 120⟩, ⟨1, 60⟩], totalTime := 2 } }

/-- **the per-input condition is necessary**: stored as 120@0, 60@1, 120@1 all three tempos survive
`remove_redundant_data`; stored as 120@0, 120@1, 60@1 the second is dropped as a repetition of the first —
the two results are not even equal as multisets -/
theorem concat_input_ties_matter :
    MPermList [exTies] [exTies'] ∧
    (concatR id (fun _ => "-") [exTies] []).toOption.map (·.ns.tempos) = some [⟨0, 120⟩, ⟨1, 60⟩, ⟨1, 120⟩] ∧
    (concatR id (fun _ => "-") [exTies'] []).toOption.map (·.ns.tempos) = some [⟨0, 120⟩, ⟨1, 60⟩] ∧
    ¬ ResPermM (concatR id (fun _ => "-") [exTies] []) (concatR id (fun _ => "-") [exTies'] []) := by
  have e1 : (concatR id (fun _ => "-") [exTies] []).toOption.map (·.ns.tempos) =
      some [⟨0, 120⟩, ⟨1, 60⟩, ⟨1, 120⟩] := by
    rw [concat_tempos_of_sorted exTies.ns.tempos (by decide +kernel) (by decide +kernel) (by decide +kernel)]
    decide +kernel
  have e2 : (concatR id (fun _ => "-") [exTies'] []).toOption.map (·.ns.tempos) = some [⟨0, 120⟩, ⟨1, 60⟩] := by
    rw [concat_tempos_of_sorted exTies'.ns.tempos (by decide +kernel) (by decide +kernel) (by decide +kernel)]
    decide +kernel
  refine ⟨⟨⟨?_, rfl, rfl⟩, trivial⟩, e1, e2, ?_⟩
  · constructor <;> first | rfl | (simp only [exTies, exTies']; decide +kernel)
  · intro h
    cases h1 : concatR id (fun _ => "-") [exTies] [] with
    | error e => rw [h1] at e1; simp [Except.toOption] at e1
    | ok r =>
      cases h2 : concatR id (fun _ => "-") [exTies'] [] with
      | error e' => rw [h2] at e2; simp [Except.toOption] at e2
      | ok r' =>
        rw [h1, h2] at h
        have hl := h.1.tempos.length_eq
        rw [h1] at e1
        rw [h2] at e2
        simp only [Except.toOption, Option.map_some, Option.some.injEq] at e1 e2
        rw [e1, e2] at hl
        simp at hl

end NSV.C12
