import NoteSeqVerif.Proofs.C11
/-! # C11 (a) — sequence operations never modify their argument

`pure_sound`: whenever the checker accepts a program (`pureProg p = true`), **every** execution of its
entry operation in the heap semantics of `Model/C11.lean` — from any well-formed heap, with any
arguments, whether it returns, falls off the end or raises (at any point) — leaves every object that
is reachable from the arguments unchanged.

`pure_<op>` (in `Props/C11_ops.lean`): the checker accepts the IR that `gen/refir.py` regenerates from
the current Python source of `<op>` on every run (`Generated/C11.lean`).
-/
namespace NSV.C11

/-- objects reachable from allocated roots in a well-formed heap are allocated -/
theorem Reach.allocated {h : Heap} {args : List Val} (hwf : h.WF)
    (hargs : ∀ a ∈ args, ∀ o, RefIn a o → o < h.next) {o : Nat} (hr : Reach h args o) : o < h.next := by
  induction hr with
  | root ha ho => exact hargs _ ha _ ho
  | kid _ hk ih => exact (hwf _ _ hk).1 ih

/-- the facts `pureProg` establishes -/
theorem pureProg_spec {p : Prog} (hp : pureProg p = true) :
    checkList p.contracts p.ops p.contracts = true ∧
      ∃ d c, p.ops[p.entry]? = some d ∧ p.contracts[p.entry]? = some c ∧ c.pre = topPre d.nparams := by
  unfold pureProg at hp
  simp only [Bool.and_eq_true] at hp
  refine ⟨hp.1, ?_⟩
  have h2 := hp.2
  split at h2
  · rename_i d c hd hc
    exact ⟨d, c, hd, hc, by simpa using h2⟩
  · simp at h2

/-- **Soundness, strongest form**: nothing that existed before the call has changed afterwards —
for every way the call can end (`r` ranges over normal completion, `return v` and a raised exception). -/
theorem pure_sound_all (p : Prog) (hp : pureProg p = true) {h h' : Heap} {args : List Val} {r : Res}
    (hwf : h.WF) (hrun : Run p h args h' r) : ∀ o, o < h.next → h'.cell o = h.cell o := by
  obtain ⟨hcs, d, c, hd, hc, hpre⟩ := pureProg_spec hp
  obtain ⟨d', hd', hlen, hex⟩ := hrun
  rw [hd] at hd'; cases hd'
  have hchk := checkList_get hcs hd hc
  simp only [checkOp, Bool.and_eq_true, List.isEmpty_iff] at hchk
  have hargs : GamArgs h.next c.pre args := by rw [hpre]; exact GamArgs.top hlen
  have := (exec_sound hcs hex hchk.1 (Inv.init hwf) hargs (GamEnv.empty _ [])).1
  exact this.same

/-- **`pure_sound`**: every object reachable from the arguments is unchanged after executing the
operation — including executions that end in `raise`. -/
theorem pure_sound (p : Prog) (hp : pureProg p = true) {h h' : Heap} {args : List Val} {r : Res}
    (hwf : h.WF) (hargs : ∀ a ∈ args, ∀ o, RefIn a o → o < h.next) (hrun : Run p h args h' r) :
    ∀ o, Reach h args o → h'.cell o = h.cell o :=
  fun o ho => pure_sound_all p hp hwf hrun o (ho.allocated hwf hargs)

/-- the raising executions, spelled out -/
theorem pure_sound_raise (p : Prog) (hp : pureProg p = true) {h h' : Heap} {args : List Val}
    (hwf : h.WF) (hargs : ∀ a ∈ args, ∀ o, RefIn a o → o < h.next) (hrun : Run p h args h' .exc) :
    ∀ o, Reach h args o → h'.cell o = h.cell o :=
  pure_sound p hp hwf hargs hrun

/-- if in addition `freshResult p`, whatever the operation returns contains newly allocated objects
only: the result shares nothing with the arguments (mutating it later cannot reach them). -/
theorem fresh_result_sound (p : Prog) (hp : freshResult p = true) {h h' : Heap} {args : List Val} {v : Val}
    (hwf : h.WF) (hrun : Run p h args h' (.ret v)) : ∀ o, RefIn v o → h.next ≤ o := by
  unfold freshResult at hp
  simp only [Bool.and_eq_true] at hp
  obtain ⟨hcs, d, c, hd, hc, hpre⟩ := pureProg_spec hp.1
  have hret : c.ret.inp = false := by
    have h2 := hp.2
    rw [hc] at h2
    simpa using h2
  obtain ⟨d', hd', hlen, hex⟩ := hrun
  rw [hd] at hd'; cases hd'
  have hchk := checkList_get hcs hd hc
  simp only [checkOp, Bool.and_eq_true, List.isEmpty_iff] at hchk
  have hargs : GamArgs h.next c.pre args := by rw [hpre]; exact GamArgs.top hlen
  have hg : Gam h.next c.ret v :=
    Gam.mono hchk.2 (exec_sound hcs hex hchk.1 (Inv.init hwf) hargs (GamEnv.empty _ [])).2
  intro o ho
  apply Nat.le_of_not_lt
  intro hlt
  have := (hg o ho).1 hlt
  rw [hret] at this
  exact Bool.noConfusion this

/-! ## Non-vacuity: the semantics can observe a mutation, and the checker tells the two apart -/

/-- `def f(s): c = deepcopy(s); c.notes[0].x = 1; return c` -/
def exCopy : Prog :=
  ⟨[⟨"copy_then_write", 1, .block [.assign 0 (.copyOf (.param 0)), .write 2 (.elem (.field (.var 0))), .ret (.var 0)]⟩],
   [⟨[AbsVal.both], AbsVal.fresh⟩], 0⟩

/-- `def g(s): s.notes[0].x = 1` -/
def exAlias : Prog :=
  ⟨[⟨"write_through_alias", 1, .block [.assign 0 (.elem (.param 0)), .write 2 (.var 0)]⟩],
   [⟨[AbsVal.both], AbsVal.bot⟩], 0⟩

example : pureProg exCopy = true ∧ freshResult exCopy = true := by decide
example : pureProg exAlias = false := by decide

/-- a two-object heap: object 0 (a sequence) owns object 1 (a note) -/
def exHeap : Heap := ⟨fun o => if o = 0 then ⟨7, [1]⟩ else if o = 1 then ⟨5, []⟩ else ⟨0, []⟩, 2⟩
def exHeap' : Heap := ⟨fun o => if o = 0 then ⟨7, [1]⟩ else if o = 1 then ⟨6, []⟩ else ⟨0, []⟩, 2⟩

theorem exHeap_wf : exHeap.WF := by
  intro o k hk
  unfold exHeap at hk ⊢
  by_cases h0 : o = 0
  · subst h0; simp at hk; subst hk; simp
  · by_cases h1 : o = 1
    · subst h1; simp at hk
    · simp [h0, h1] at hk

/-- the hypotheses of `pure_sound` are satisfiable, and the rejected program really has an execution
that changes an object reachable from its argument (so `pure_sound` is not true of all programs) -/
example : exHeap.WF ∧ (∀ a ∈ [Val.ref 0], ∀ o, RefIn a o → o < exHeap.next) ∧
    Run exAlias exHeap [.ref 0] exHeap' (.norm (Env.empty.upd 0 (.ref 1))) ∧
    Reach exHeap [.ref 0] 1 ∧ exHeap'.cell 1 ≠ exHeap.cell 1 := by
  refine ⟨exHeap_wf, ?_, ?_, ?_, ?_⟩
  · intro a ha o ho
    simp at ha; subst ha
    have := Sub.ref_ref ho
    subst this; decide
  · refine ⟨_, rfl, rfl, ?_⟩
    show Exec _ _ _ _ (Stmt.seq _ _) _ _
    refine Exec.seq (ρ1 := Env.empty.upd 0 (.ref 1))
      (Exec.assign (v := .ref 1) (Eval.elem (c := .ref 1) Eval.param (Nav.kid (o := 0) (k := 1) (Sub.refl _) ?_))) ?_
    · simp [exHeap]
    · refine Exec.write (o := 1) (h1 := exHeap) Eval.var (by decide) ?_
      refine ⟨Nat.le_refl _, ?_, ?_, ?_⟩
      · intro p hp hne
        have : p = 0 := by simp [exHeap] at hp; omega
        subst this; rfl
      · intro k hk; simp [exHeap'] at hk
      · intro p k hp hk
        have h0 : p ≠ 0 := by simp [exHeap] at hp; omega
        have h1 : p ≠ 1 := by simp [exHeap] at hp; omega
        simp [exHeap', h0, h1] at hk
  · exact Reach.kid (Reach.root (a := .ref 0) (by simp) (Sub.refl _)) (by simp [exHeap])
  · simp [exHeap, exHeap']

/-- the accepted program has an execution that really performs its write (on the copy) and returns -/
example : ∃ h' v, Run exCopy exHeap [.ref 0] h' (.ret v) ∧ h'.cell 3 ≠ exHeap.cell 3 := by
  -- deepcopy allocates 2 ↦ ⟨7,[3]⟩, 3 ↦ ⟨5,[]⟩; the write turns 3 into ⟨6,[]⟩
  let h1 : Heap := ⟨fun o => if o = 2 then ⟨7, [3]⟩ else if o = 3 then ⟨5, []⟩ else exHeap.cell o, 4⟩
  let h2 : Heap := ⟨fun o => if o = 3 then ⟨6, []⟩ else h1.cell o, 4⟩
  refine ⟨h2, .ref 2, ⟨_, rfl, rfl, ?_⟩, ?_⟩
  · show Exec _ _ _ _ (Stmt.seq _ (Stmt.seq _ _)) _ _
    have hal : Alloc exHeap h1 := by
      refine ⟨by decide, ?_, ?_⟩
      · intro o ho
        have h2' : o ≠ 2 := by simp [exHeap] at ho; omega
        have h3' : o ≠ 3 := by simp [exHeap] at ho; omega
        simp [h1, h2', h3']
      · intro o k ho hk
        by_cases e2 : o = 2
        · subst e2; simp [h1] at hk; subst hk; simp [exHeap]
        · by_cases e3 : o = 3
          · subst e3; simp [h1] at hk
          · have h0 : o ≠ 0 := by simp [exHeap] at ho; omega
            have h1' : o ≠ 1 := by simp [exHeap] at ho; omega
            simp [h1, e2, e3, exHeap, h0, h1'] at hk
    refine Exec.seq (Exec.assign (Eval.copyOf (o := 2) Eval.param hal (by decide) (by decide))) ?_
    refine Exec.seq (ρ1 := (Env.empty.upd 0 (.ref 2))) (h1 := h2) ?_ (Exec.ret Eval.var)
    refine Exec.write (o := 3) (h1 := h1)
      (Eval.elem (Eval.field (c := .ref 2) Eval.var (Nav.sub (Sub.refl _)))
        (Nav.kid (o := 2) (Sub.refl _) (by simp [h1]))) (by decide) ?_
    refine ⟨Nat.le_refl _, ?_, ?_, ?_⟩
    · intro p _ hne; simp [h2, hne]
    · intro k hk; simp [h2] at hk
    · intro p k hp hk
      have e3 : p ≠ 3 := by simp [h1] at hp; omega
      have e2 : p ≠ 2 := by simp [h1] at hp; omega
      have e0 : p ≠ 0 := by simp [h1] at hp; omega
      have e1 : p ≠ 1 := by simp [h1] at hp; omega
      simp [h2, h1, e3, e2, exHeap, e0, e1] at hk
  · simp [h2, exHeap]

end NSV.C11
