import NoteSeqVerif.Props.C19
import NoteSeqVerif.Proofs.Rounding
/-! C19 — the optimality theorems instantiated for rounded (floating-point) arithmetic.

A double is modelled as a rational or −∞ (`ExtQ`), the sum of two doubles as `R (a + b)` with −∞
absorbing.  For every *monotone* rounding `R` this addition is left-monotone, so every theorem of
`Props/C19.lean` applies; `rne53` (IEEE-754 binary64 round-to-nearest-even, the project's model of
CPython / numpy double arithmetic, `Common/Float.lean`) is monotone (`Proofs/Rounding.lean`).
The compiled driver runs exactly this instance on the tables of the real program (`melQ`, `kcQ`)
and is compared bit for bit with numpy on every run. -/
set_option linter.unnecessarySeqFocus false
namespace NSV.C19

namespace ExtQ
@[simp] theorem fin_le_fin (a b : Rat) : (fin a ≤ fin b) ↔ a ≤ b := Iff.rfl
@[simp] theorem ninf_le (b : ExtQ) : ninf ≤ b := by cases b <;> trivial
@[simp] theorem fin_le_ninf (a : Rat) : ¬ (fin a ≤ ninf) := fun h => h
@[simp] theorem fin_lt_fin (a b : Rat) : (fin a < fin b) ↔ a < b := Iff.rfl
@[simp] theorem ninf_lt_fin (b : Rat) : ninf < fin b := trivial
@[simp] theorem not_lt_ninf (a : ExtQ) : ¬ (a < ninf) := by cases a <;> exact fun h => h
end ExtQ

instance : LinearOrder ExtQ where
  le := (· ≤ ·)
  lt := (· < ·)
  le_refl := fun a => by cases a <;> simp
  le_trans := fun a b c => by
    cases a <;> cases b <;> cases c <;> simp <;> exact le_trans
  le_antisymm := fun a b => by
    cases a <;> cases b <;> simp <;> exact le_antisymm
  le_total := fun a b => by
    cases a <;> cases b <;> simp <;> exact le_total _ _
  lt_iff_le_not_ge := fun a b => by
    cases a <;> cases b <;> simp <;> exact le_of_lt
  toDecidableLE := inferInstance
  toDecidableLT := inferInstance
  toDecidableEq := inferInstance

/-- rounded addition with −∞ is left-monotone for every monotone rounding … -/
theorem mono_extq (R : Rat → Rat) (hR : ∀ x y : Rat, x ≤ y → R x ≤ R y) : Mono (ExtQ.addR R) := by
  intro a a' b h
  cases a <;> cases a' <;> cases b <;> simp [ExtQ.addR] at *
  exact hR _ _ (by linarith)

/-- … in particular for IEEE-754 binary64 round-to-nearest-even -/
theorem mono_extq_rne53 : Mono (ExtQ.addR rne53) := mono_extq rne53 (fun _ _ h => rne53_mono h)

theorem extq_absorbing (R : Rat → Rat) :
    (∀ b, ExtQ.addR R .ninf b = .ninf) ∧ (∀ a, ExtQ.addR R a .ninf = .ninf) :=
  ⟨fun b => by cases b <;> rfl, fun a => by cases a <;> rfl⟩

/-- **optimality of the floating-point program**: with double additions (`rne53 (a + b)`, −∞
absorbing) `_key_chord_viterbi` returns a path of maximal score among all key-chord paths … -/
theorem keychord_viterbi_optimal_float (C : Nat) (hC : 0 < C) (negLog12 : ExtQ)
    (kc fl tr : Nat → Nat → ExtQ) (frames : Nat) (hf : 0 < frames) :
    let T := kcTables (ExtQ.addR rne53) C negLog12 kc fl tr
    ∃ path, viterbi (ExtQ.addR rne53) T frames = .ok path ∧ path.length = frames ∧ (∀ s ∈ path, s < 12 * C) ∧
      score (ExtQ.addR rne53) T path = some (optimum (ExtQ.addR rne53) T frames) ∧
      ∀ p : List Nat, p.length = frames → (∀ s ∈ p, s < 12 * C) →
        ∀ v, score (ExtQ.addR rne53) T p = some v → v ≤ optimum (ExtQ.addR rne53) T frames :=
  keychord_viterbi_optimal (ExtQ.addR rne53) mono_extq_rne53 C hC negLog12 kc fl tr frames hf

/-- … and so does `_melody_viterbi` -/
theorem melody_viterbi_optimal_float (P : Nat) (fl tr : Nat → Nat → ExtQ) (frames : Nat) (hf : 0 < frames) :
    let T := melTables (ExtQ.addR rne53) P fl tr
    ∃ path, viterbi (ExtQ.addR rne53) T frames = .ok path ∧ path.length = frames ∧ (∀ s ∈ path, s < 2 * P + 1) ∧
      score (ExtQ.addR rne53) T path = some (optimum (ExtQ.addR rne53) T frames) ∧
      ∀ p : List Nat, p.length = frames → (∀ s ∈ p, s < 2 * P + 1) →
        ∀ v, score (ExtQ.addR rne53) T p = some v → v ≤ optimum (ExtQ.addR rne53) T frames :=
  melody_viterbi_optimal (ExtQ.addR rne53) mono_extq_rne53 P fl tr frames hf

/-- a float path of score > −∞ carries no −∞ term -/
theorem viterbi_path_finite_float (T : Tables ExtQ) (frames : Nat)
    (hne : optimum (ExtQ.addR rne53) T frames ≠ .ninf) :
    pathFinite T .ninf (viterbiExec (ExtQ.addR rne53) T frames) :=
  viterbi_path_finite (ExtQ.addR rne53) T .ninf (extq_absorbing rne53).1 (extq_absorbing rne53).2 frames hne

/-- chord annotation times `frame * seconds_per_chord` (a float product) are non-decreasing -/
theorem chord_times_nondecreasing_float (spc : Rat) (hspc : 0 ≤ spc) (steps : Int) (addKeys : Bool)
    (states : List (Nat × String × String)) (anns : List ChordAnn) (keys : List KeySig)
    (h : chordWriter rne53 (.perChord spc steps) addKeys states = .ok (anns, keys)) :
    anns.Pairwise (fun a b => a.time ≤ b.time) :=
  chord_times_nondecreasing rne53 (.perChord spc steps) addKeys states anns keys h
    (fun f g t u hfg _ ht hu =>
      perChord_times_monotone rne53 (fun _ _ h => rne53_mono h) spc hspc steps f g t u hfg ht hu)

/-- non-vacuity: 0.1 + 0.2 in doubles, and −∞ absorbing -/
example : ExtQ.addR rne53 (.fin (3602879701896397 / 36028797018963968)) (.fin (3602879701896397 / 18014398509481984)) =
    .fin (1351079888211149 / 4503599627370496) ∧ ExtQ.addR rne53 .ninf (.fin 1) = .ninf := by
  constructor
  · decide +kernel
  · rfl

end NSV.C19
