import NoteSeqVerif.Proofs.C12AConcat
import NoteSeqVerif.Props.C12_extract
import NoteSeqVerif.Props.C13
/-! C12 — stretching and shifting do not depend on the storage order of any repeated field
(model of C13: both operations are per-event maps; the lists of containers they touch are the
generated `Gen.stretchEventFields` / `Gen.shiftEventFields`, whatever they are).

No side condition: every sequence, every factor / offset, every rounding operator `R`
(`rne53` in the compiled model, `id` = exact arithmetic).

Second part: `concatenate_sequences` and `repeat_sequence_to_duration`.  Their last step
(`remove_redundant_data`: drop a time signature / key signature / tempo equal to its predecessor in
stable time order) does look at the stored order of events that share a time, so the corollaries carry
the decidable side condition `ConcatNoTies` (no two such events share a time in the shifted-and-merged
sequence); `repeat` additionally needs C02's `NoTies` of the repeated sequence for the final cut. -/
namespace NSV.C12
open NSV NSV.C13

/-- `stretch_note_sequence(note_sequence, stretch_factor)` on two storage orders of one sequence:
same error (quantized input, division by zero), or the same stretched sequence up to storage order -/
theorem stretch_perm (R : Rat → Rat) (f : Rat) {s s' : NoteSeq} (h : NSPerm s s') :
    ResPerm (stretchR R f s) (stretchR R f s') := stretch_perm_aux R f h

/-- `shift_sequence_times(sequence, shift_seconds)` on two storage orders of one sequence: same
error (non-positive shift, quantized input), or the same shifted sequence up to storage order -/
theorem shift_perm (R : Rat → Rat) (d : Rat) {s s' : NoteSeq} (h : NSPerm s s') :
    ResPerm (shiftR R d s) (shiftR R d s') := shift_perm_aux R d h

/-- the compiled float model (what `drv_c13` runs) -/
theorem stretch_shift_float_perm {s s' : NoteSeq} (h : NSPerm s s') :
    (∀ f, ResPerm (stretchR rne53 f s) (stretchR rne53 f s')) ∧
    (∀ d, ResPerm (shiftR rne53 d s) (shiftR rne53 d s')) :=
  ⟨fun f => stretch_perm rne53 f h, fun d => shift_perm rne53 d h⟩

/-! ## concatenation, repetition -/

/-- `concatenate_sequences(sequences, sequence_durations)` on two lists of sequences that differ
position by position only in storage order (`durs = []` = no durations given): same error, or the
same concatenation up to storage order -/
theorem concat_perm_partial (R : Rat → Rat) (mm : List String → String) {seqs seqs' : List MSeq}
    (h : MPermList seqs seqs') (durs : List Rat) (hn : ConcatNoTies R seqs durs) :
    ResPermM (concatR R mm seqs durs) (concatR R mm seqs' durs) :=
  concat_perm_aux R mm h durs hn

/-- the full statement, not proved here: in exact arithmetic it is enough that no two time
signatures / key signatures / tempos *of one input sequence* share a time — events of different inputs
that meet at a seam keep their relative order (earlier input first) under the stable sort whatever the
storage order inside each input, so `ConcatNoTies` (no coincidence at all in the merged sequence) is
sufficient but stronger than necessary -/
def ConcatPermFull : Prop :=
  ∀ (mm : List String → String) (seqs seqs' : List MSeq) (durs : List Rat), MPermList seqs seqs' →
    (∀ m ∈ seqs, StateNoTies m.ns) → ResPermM (concatR id mm seqs durs) (concatR id mm seqs' durs)

/-- the side condition of `concat_perm_partial` holds for one storage order iff it holds for the other -/
theorem concatNoTies_iff (R : Rat → Rat) {seqs seqs' : List MSeq} (h : MPermList seqs seqs')
    (durs : List Rat) : ConcatNoTies R seqs durs ↔ ConcatNoTies R seqs' durs := by
  have hsymm : ∀ {l l' : List MSeq}, MPermList l l' → MPermList l' l := by
    intro l
    induction l with
    | nil => intro l' h; cases l' with
      | nil => trivial
      | cons _ _ => exact h.elim
    | cons a l ih => intro l' h; cases l' with
      | nil => exact h.elim
      | cons b l' => exact ⟨⟨h.1.1.symm, h.1.2.1.symm, h.1.2.2.symm⟩, ih h.2⟩
  exact ⟨concatNoTies_perm R h durs, concatNoTies_perm R (hsymm h) durs⟩

/-- the side condition of `repeat_perm_partial`: the `n` shifted copies have no two time signatures / key
signatures / tempos at one time, and the repeated sequence satisfies extraction's `NoTies` -/
def RepeatNoTies (R : Rat → Rat) (mm : List String → String) (m : MSeq) (dur sd : Rat) : Prop :=
  let d := if sd = 0 then m.ns.totalTime else sd
  let n := (R (dur / d)).ceil.toNat
  ConcatNoTies R (List.replicate n m) (List.replicate n d) ∧
  match concatR R mm (List.replicate n m) (List.replicate n d) with
  | .ok r => NoTies NSV.C02.Gen.PRESERVE r.ns
  | .error _ => True

/-- `repeat_sequence_to_duration(sequence, duration, sequence_duration)` (with C02's model of
`extract_subsequence` for the final cut) -/
theorem repeat_perm_partial (R : Rat → Rat) (mm : List String → String) {m m' : MSeq} (h : MPerm m m')
    (dur sd : Rat) (hn : RepeatNoTies R mm m dur sd) :
    ResPermM (repeatFullR R mm m dur sd) (repeatFullR R mm m' dur sd) := by
  rw [repeat_spec, repeat_spec, ← h.1.totalTime]
  unfold RepeatNoTies at hn
  simp only [] at hn ⊢
  generalize (if sd = 0 then m.ns.totalTime else sd) = d at hn ⊢
  generalize (R (dur / d)).ceil.toNat = n at hn ⊢
  by_cases hd0 : d = 0
  · rw [if_pos hd0, if_pos hd0]; rfl
  · rw [if_neg hd0, if_neg hd0]
    obtain ⟨hn1, hn2⟩ := hn
    have hc := concat_perm_partial R mm (MPermList.replicate n h) (List.replicate n d) hn1
    cases h1 : concatR R mm (List.replicate n m) (List.replicate n d) with
    | error e =>
      cases h2 : concatR R mm (List.replicate n m') (List.replicate n d) with
      | error e' => rw [h1, h2] at hc; exact hc
      | ok r' => rw [h1, h2] at hc; exact hc.elim
    | ok r =>
      cases h2 : concatR R mm (List.replicate n m') (List.replicate n d) with
      | error e' => rw [h1, h2] at hc; exact hc.elim
      | ok r' =>
        rw [h1, h2] at hc
        simp only [h1] at hn2
        simp only []
        have he := extractSubsequence_perm R NSV.C02.Gen.PRESERVE hc.1 hn2 0 dur
        cases h3 : NSV.C02.extractSubsequenceR R NSV.C02.Gen.PRESERVE r.ns 0 dur with
        | error e =>
          cases h4 : NSV.C02.extractSubsequenceR R NSV.C02.Gen.PRESERVE r'.ns 0 dur with
          | error e' => rw [h3, h4] at he; exact he
          | ok t' => rw [h3, h4] at he; exact he.elim
        | ok t =>
          cases h4 : NSV.C02.extractSubsequenceR R NSV.C02.Gen.PRESERVE r'.ns 0 dur with
          | error e' => rw [h3, h4] at he; exact he.elim
          | ok t' =>
            rw [h3, h4] at he
            refine ⟨?_, hc.2.1, hc.2.2⟩
            constructor <;> simp only []
            · exact he.notes
            · exact he.tempos
            · exact he.timeSigs
            · exact he.keySigs
            · exact he.texts
            · exact he.ccs
            · exact he.bends
            · exact he.sectionAnns
            · exact he.sgroups
            · exact he.totalTime
            · exact he.totalQSteps
            · exact he.spq
            · exact he.sps
            · exact he.tpq
            · exact he.metaTag

/-! ## non-vacuity -/

def exS : NoteSeq :=
  { notes := [{ (default : Note) with pitch := 60, start := 0, end_ := 1 },
              { (default : Note) with pitch := 60, start := 0, end_ := 1 },
              { (default : Note) with pitch := 64, start := 1/2, end_ := 2 }],
    tempos := [⟨0, 120⟩, ⟨0, 60⟩, ⟨1, 90⟩], timeSigs := [⟨1, 3, 4⟩, ⟨0, 4, 4⟩],
    ccs := [⟨1, 0, 64, 127, 0, 0, false⟩, ⟨1, 0, 64, 0, 0, 0, false⟩],
    totalTime := 2 }

def exS' : NoteSeq :=
  { exS with
    notes := [{ (default : Note) with pitch := 64, start := 1/2, end_ := 2 },
              { (default : Note) with pitch := 60, start := 0, end_ := 1 },
              { (default : Note) with pitch := 60, start := 0, end_ := 1 }],
    tempos := [⟨1, 90⟩, ⟨0, 60⟩, ⟨0, 120⟩], timeSigs := [⟨0, 4, 4⟩, ⟨1, 3, 4⟩],
    ccs := [⟨1, 0, 64, 0, 0, 0, false⟩, ⟨1, 0, 64, 127, 0, 0, false⟩] }

-- coinciding notes, two tempos and two pedal events at one time: no condition on ties is needed
example : NSPerm exS exS' := by
  constructor <;> first | rfl | (simp only [exS, exS']; decide +kernel)
example : exS.tempos ≠ exS'.tempos := by decide +kernel
example : (stretchR id (3/2) exS).toOption.map (·.totalTime) = some 3 ∧
    (shiftR id (1/2) exS).toOption.map (·.totalTime) = some (5/2) := by decide +kernel

/-- a two-note phrase with a tempo and a time signature at 0, and another storage order of it -/
def exM1 : MSeq :=
  { ns := { notes := [{ (default : Note) with pitch := 60, start := 0, end_ := 1 },
                      { (default : Note) with pitch := 64, start := 1, end_ := 2 }],
            tempos := [⟨0, 120⟩, ⟨1, 90⟩], timeSigs := [⟨0, 4, 4⟩], totalTime := 2 },
    composers := ["a"] }
def exM1' : MSeq :=
  { exM1 with ns := { exM1.ns with
      notes := [{ (default : Note) with pitch := 64, start := 1, end_ := 2 },
                { (default : Note) with pitch := 60, start := 0, end_ := 1 }],
      tempos := [⟨1, 90⟩, ⟨0, 120⟩] } }

example : MPermList [exM1, exM1] [exM1', exM1] := by
  refine ⟨⟨?_, rfl, rfl⟩, MPerm.refl _, trivial⟩
  constructor <;> first | rfl | (simp only [exM1, exM1']; decide +kernel)
-- the second copy is shifted by 2: tempos at 0, 1, 2, 3 — no ties; the concatenation succeeds
example : ConcatNoTies id [exM1, exM1] [] := by decide +kernel
example : (concatR id (fun _ => "-") [exM1, exM1] []).toOption.map (·.ns.totalTime) = some 4 := by
  decide +kernel
-- a tempo at the very end of the first copy would tie with the tempo at the start of the second
example : ¬ ConcatNoTies id [{ exM1 with ns := { exM1.ns with tempos := [⟨0, 120⟩, ⟨2, 90⟩] } }, exM1] [] := by
  decide +kernel

end NSV.C12
