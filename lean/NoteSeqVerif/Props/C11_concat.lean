import NoteSeqVerif.Props.C13
import NoteSeqVerif.Props.C11_shift_stretch
import NoteSeqVerif.Model.C11WF
import Mathlib.Tactic.Linarith
-- THEOREMS: wf_remove_redundant wf_mergeFrom catLoop_wf wf_concat wf_merge
-- THEOREMS: no_invention_concat no_invention_merge no_invention_remove_redundant
/-! # C11 (b) — remove_redundant_data / concatenate_sequences / merge_sequences return well-formed sequences
and invent nothing.  Models owned by C13 (imported read-only).

`R`: a monotone, idempotent rounding operator with `R 0 = 0` (IEEE round-to-nearest and exact arithmetic
both are), and the `total_time` of every input is representable (`R t = t`; true of every Python float).
Idempotence is what makes `total_time` of the running concatenation a valid offset: the next piece is
shifted by `cur` and ends at `R (t + cur) ≥ R cur = cur`. -/
namespace NSV.C11
open NSV NSV.C13

theorem sortByRat_perm' {α : Type} (key : α → Rat) (l : List α) : (sortByRat key l).Perm l :=
  List.mergeSort_perm l _

/-- what a successful `concatenate_sequences` did: the loop ran to the end over the (sequence, duration)
pairs, then `finishCat` -/
theorem concatR_shape (R : Rat → Rat) (mm : List String → String) (seqs : List MSeq) (durs : List Rat) (r : MSeq)
    (h : concatR R mm seqs durs = .ok r) :
    ∃ cat, catLoop R (!durs.isEmpty) 0 emptyM (catPairs seqs durs) = .ok cat ∧ r = finishCat mm seqs cat ∧
      (durs ≠ [] → seqs.length = durs.length) := by
  have hlen := ((concat_ok_iff R mm seqs durs r).mp h).1
  unfold concatR at h
  simp only [] at h
  by_cases hl : (!durs.isEmpty) = true ∧ seqs.length ≠ durs.length
  · rw [if_pos hl] at h; cases h
  · rw [if_neg hl] at h
    have h' : (match catLoop R (!durs.isEmpty) 0 emptyM (catPairs seqs durs) with
      | .error e => .error e
      | .ok cat => Except.ok (finishCat mm seqs cat)) = Except.ok r := h
    cases hc : catLoop R (!durs.isEmpty) 0 emptyM (catPairs seqs durs) with
    | error e => rw [hc] at h'; cases h'
    | ok cat =>
      rw [hc] at h'
      exact ⟨cat, rfl, (Except.ok.inj h').symm, hlen⟩

theorem mem_catPairs {seqs : List MSeq} {durs : List Rat} {p : MSeq × Rat} (hp : p ∈ catPairs seqs durs) :
    p.1 ∈ seqs := by
  unfold catPairs at hp
  split at hp
  · exact (List.of_mem_zip hp).1
  · obtain ⟨s, hs, rfl⟩ := List.mem_map.mp hp
    exact hs

/-! ## remove_redundant_data -/

theorem wf_remove_redundant (m : MSeq) (hw : WF m.ns) : WF (removeRedundant m).ns := by
  obtain ⟨h1, h2, h3, _⟩ := remove_redundant_frame m
  refine ⟨hw.notes, hw.total, ⟨?_, ?_, ?_, hw.events.texts, hw.events.ccs, hw.events.bends, hw.events.sectionAnns⟩⟩
  · intro e he
    exact hw.events.tempos e ((sortByRat_perm' _ _).mem_iff.mp (h1.subset he))
  · intro e he
    exact hw.events.timeSigs e ((sortByRat_perm' _ _).mem_iff.mp (h2.subset he))
  · intro e he
    exact hw.events.keySigs e ((sortByRat_perm' _ _).mem_iff.mp (h3.subset he))

theorem no_invention_remove_redundant (m : MSeq) : (removeRedundant m).ns.notes = m.ns.notes := rfl

/-! ## protobuf MergeFrom -/

/-- appending `b` to `a` keeps well-formedness when `b`'s `total_time`, if it overwrites, covers `a`'s -/
theorem wf_mergeFrom (a b : NoteSeq) (ha : WF a) (hb : WF b) (hcov : b.totalTime ≠ 0 → a.totalTime ≤ b.totalTime) :
    WF (mergeFrom a b) := by
  have mem_app : ∀ {α : Type} {P : α → Prop} {l1 l2 : List α}, (∀ x ∈ l1, P x) → (∀ x ∈ l2, P x) →
      ∀ x ∈ l1 ++ l2, P x := by
    intro α P l1 l2 h1 h2 x hx
    rcases List.mem_append.mp hx with h | h
    · exact h1 x h
    · exact h2 x h
  refine ⟨?_, ?_, ⟨mem_app ha.events.tempos hb.events.tempos, mem_app ha.events.timeSigs hb.events.timeSigs,
    mem_app ha.events.keySigs hb.events.keySigs, mem_app ha.events.texts hb.events.texts,
    mem_app ha.events.ccs hb.events.ccs, mem_app ha.events.bends hb.events.bends,
    mem_app ha.events.sectionAnns hb.events.sectionAnns⟩⟩
  · intro n hn
    have hn' : n ∈ a.notes ++ b.notes := hn
    show 0 ≤ n.start ∧ n.start ≤ n.end_ ∧ n.end_ ≤ (if b.totalTime ≠ 0 then b.totalTime else a.totalTime)
    rcases List.mem_append.mp hn' with h | h
    · obtain ⟨h0, h1, h2⟩ := ha.notes n h
      refine ⟨h0, h1, ?_⟩
      split
      · rename_i hne; exact le_trans h2 (hcov hne)
      · exact h2
    · obtain ⟨h0, h1, h2⟩ := hb.notes n h
      refine ⟨h0, h1, ?_⟩
      split
      · exact h2
      · rename_i hne
        have : b.totalTime = 0 := by simpa using hne
        rw [this] at h2
        exact le_trans h2 ha.total
  · show 0 ≤ (if b.totalTime ≠ 0 then b.totalTime else a.totalTime)
    split
    · exact hb.total
    · exact ha.total

/-! ## concatenate_sequences -/

/-- the loop invariant: the running concatenation is well-formed, its `total_time` is below the current
offset, and both are fixed by `R` -/
theorem catLoop_wf (R : Rat → Rat) (hR : ∀ a b, a ≤ b → R a ≤ R b) (hR0 : R 0 = 0) (hRR : ∀ x, R (R x) = R x)
    (useD : Bool) : ∀ (rest : List (MSeq × Rat)) (cur : Rat) (cat r : MSeq),
    WF cat.ns → cat.ns.totalTime ≤ cur → R cur = cur → R cat.ns.totalTime = cat.ns.totalTime →
    (∀ p ∈ rest, WF p.1.ns ∧ R p.1.ns.totalTime = p.1.ns.totalTime) →
    catLoop R useD cur cat rest = .ok r → WF r.ns
  | [], cur, cat, r, hw, _, _, _, _, h => by
    simp only [catLoop] at h
    cases h; exact hw
  | (s, d) :: rest, cur, cat, r, hw, hle, hcur, hcat, hrest, h => by
    obtain ⟨hws, hst⟩ := hrest (s, d) (by simp)
    simp only at hws hst
    unfold catLoop at h
    split at h
    · cases h
    · rename_i hnd
      have hcur0 : 0 ≤ cur := le_trans hw.total hle
      -- the piece as it is merged
      have hpiece : ∃ sh : MSeq, (if 0 < cur then shiftM R cur s else .ok s) = .ok sh ∧ WF sh.ns ∧
          R sh.ns.totalTime = sh.ns.totalTime ∧ (sh.ns.totalTime ≠ 0 → cat.ns.totalTime ≤ sh.ns.totalTime) ∧
          (useD = true → sh.ns.totalTime ≤ R (cur + d)) := by
        by_cases hpos : 0 < cur
        · simp only [hpos, if_true] at h ⊢
          unfold shiftM at h ⊢
          cases hsh : shiftR R cur s.ns with
          | error e => simp [hsh] at h
          | ok sn =>
            have hq : s.ns.isQuantized = false := by
              cases hq : s.ns.isQuantized with
              | false => rfl
              | true =>
                have := (shift_error_iff R cur s.ns .quantizationStatusError).mpr (Or.inr ⟨hpos, hq, rfl⟩)
                rw [this] at hsh; cases hsh
            obtain ⟨r', hr', hm, _⟩ := shift_spec R cur s.ns hpos hq
            have e1 : r' = sn := by rw [hr'] at hsh; exact Except.ok.inj hsh
            subst e1
            refine ⟨{ s with ns := r' }, rfl, wf_shift R hR hR0 cur s.ns r' hws hr', ?_, ?_, ?_⟩
            · show R r'.totalTime = r'.totalTime
              rw [hm.totalTime]; exact hRR _
            · intro _
              show cat.ns.totalTime ≤ r'.totalTime
              rw [hm.totalTime]
              calc cat.ns.totalTime ≤ cur := hle
                _ = R cur := hcur.symm
                _ ≤ R (s.ns.totalTime + cur) := hR _ _ (by linarith [hws.total])
            · intro hu
              show r'.totalTime ≤ R (cur + d)
              rw [hm.totalTime]
              have hd : s.ns.totalTime ≤ d := by
                by_contra hlt
                exact hnd ⟨hu, lt_of_not_ge hlt⟩
              exact hR _ _ (by linarith)
        · simp only [hpos, if_false] at h ⊢
          have hc0 : cur = 0 := le_antisymm (le_of_not_gt hpos) hcur0
          refine ⟨s, rfl, hws, hst, ?_, ?_⟩
          · intro _
            calc cat.ns.totalTime ≤ cur := hle
              _ = 0 := hc0
              _ ≤ s.ns.totalTime := hws.total
          · intro hu
            have hd : s.ns.totalTime ≤ d := by
              by_contra hlt
              exact hnd ⟨hu, lt_of_not_ge hlt⟩
            rw [← hst, hc0]
            exact hR _ _ (by linarith)
      obtain ⟨sh, hsh, hwsh, hshR, hcov, hD⟩ := hpiece
      rw [hsh] at h
      simp only at h
      have hwcat' : WF (mergeFromM cat sh).ns := wf_mergeFrom cat.ns sh.ns hw hwsh hcov
      have htot' : (mergeFromM cat sh).ns.totalTime = if sh.ns.totalTime ≠ 0 then sh.ns.totalTime else cat.ns.totalTime := rfl
      have hcatR' : R (mergeFromM cat sh).ns.totalTime = (mergeFromM cat sh).ns.totalTime := by
        rw [htot']; split <;> assumption
      refine catLoop_wf R hR hR0 hRR useD rest _ (mergeFromM cat sh) r hwcat' ?_ ?_ hcatR'
        (fun p hp => hrest p (List.mem_cons_of_mem _ hp)) h
      · cases hu : useD with
        | false => simp
        | true =>
          simp only [if_true]
          rw [htot']
          split
          · exact hD hu
          · have hd0 : 0 ≤ d := by
              have hd : s.ns.totalTime ≤ d := by
                by_contra hlt
                exact hnd ⟨hu, lt_of_not_ge hlt⟩
              exact le_trans hws.total hd
            calc cat.ns.totalTime ≤ cur := hle
              _ = R cur := hcur.symm
              _ ≤ R (cur + d) := hR _ _ (by linarith)
      · cases hu : useD with
        | false => simpa using hcatR'
        | true => simp only [if_true]; exact hRR _

theorem wf_emptyM : WF emptyM.ns := by
  refine ⟨?_, le_refl _, ⟨?_, ?_, ?_, ?_, ?_, ?_, ?_⟩⟩ <;> intro e he <;> simp [emptyM] at he

theorem wf_finishCat (mm : List String → String) (seqs : List MSeq) (cat : MSeq) (hw : WF cat.ns) :
    WF (finishCat mm seqs cat).ns := by
  unfold finishCat
  apply wf_remove_redundant
  exact ⟨hw.notes, hw.total, ⟨hw.events.tempos, hw.events.timeSigs, hw.events.keySigs, hw.events.texts,
    hw.events.ccs, hw.events.bends, hw.events.sectionAnns⟩⟩

/-- `concatenate_sequences`: well-formed pieces concatenate to a well-formed sequence
(`total_time` of the result covers every note of every piece) -/
theorem wf_concat (R : Rat → Rat) (hR : ∀ a b, a ≤ b → R a ≤ R b) (hR0 : R 0 = 0) (hRR : ∀ x, R (R x) = R x)
    (mm : List String → String) (seqs : List MSeq) (durs : List Rat) (r : MSeq)
    (hw : ∀ s ∈ seqs, WF s.ns ∧ R s.ns.totalTime = s.ns.totalTime) (h : concatR R mm seqs durs = .ok r) :
    WF r.ns := by
  obtain ⟨cat, hc, rfl, _⟩ := concatR_shape R mm seqs durs r h
  apply wf_finishCat
  exact catLoop_wf R hR hR0 hRR _ _ 0 emptyM cat wf_emptyM (le_refl _) hR0 hR0
    (fun p hp => hw p.1 (mem_catPairs hp)) hc

/-! ## merge_sequences -/

theorem wf_merge (mm : List String → String) (seqs : List MSeq) (hw : ∀ s ∈ seqs, WF s.ns) :
    WF (mergeR mm seqs).ns := by
  obtain ⟨h1, h2, h3, h4, h5, h6, h7, h8, _, _, h11, h12, _⟩ := merge_spec mm seqs
  have red : ∀ {α : Type} (key : α → Rat) (same : α → α → Bool) (l : List α) (e : α),
      e ∈ dropRepeats same (sortByRat key l) → e ∈ l := by
    intro α key same l e he
    exact (sortByRat_perm' _ _).mem_iff.mp ((dropRepeats_sublist _ _).subset he)
  refine ⟨?_, ?_, ⟨?_, ?_, ?_, ?_, ?_, ?_, ?_⟩⟩
  · intro n hn
    rw [h1] at hn
    obtain ⟨s, hs, hns⟩ := List.mem_flatMap.mp hn
    obtain ⟨a, b, c⟩ := (hw s hs).notes n hns
    exact ⟨a, b, le_trans c (h12 s hs)⟩
  · cases seqs with
    | nil => rw [h11 rfl]
    | cons s r => exact le_trans (hw s (by simp)).total (h12 s (by simp))
  · intro e he
    rw [h6] at he
    obtain ⟨s, hs, hes⟩ := List.mem_flatMap.mp (red _ _ _ e he)
    exact (hw s hs).events.tempos e hes
  · intro e he
    rw [h7] at he
    obtain ⟨s, hs, hes⟩ := List.mem_flatMap.mp (red _ _ _ e he)
    exact (hw s hs).events.timeSigs e hes
  · intro e he
    rw [h8] at he
    obtain ⟨s, hs, hes⟩ := List.mem_flatMap.mp (red _ _ _ e he)
    exact (hw s hs).events.keySigs e hes
  · intro e he
    rw [h2] at he
    obtain ⟨s, hs, hes⟩ := List.mem_flatMap.mp he
    exact (hw s hs).events.texts e hes
  · intro e he
    rw [h3] at he
    obtain ⟨s, hs, hes⟩ := List.mem_flatMap.mp he
    exact (hw s hs).events.ccs e hes
  · intro e he
    rw [h4] at he
    obtain ⟨s, hs, hes⟩ := List.mem_flatMap.mp he
    exact (hw s hs).events.bends e hes
  · intro e he
    rw [h5] at he
    obtain ⟨s, hs, hes⟩ := List.mem_flatMap.mp he
    exact (hw s hs).events.sectionAnns e hes

/-- merging keeps exactly the notes of the inputs, in order, untouched -/
theorem no_invention_merge (mm : List String → String) (seqs : List MSeq) :
    (mergeR mm seqs).ns.notes = seqs.flatMap (·.ns.notes) := (merge_spec mm seqs).1

/-! ## nothing invented by concatenation -/

/-- what identifies a note: its tag and every attribute a time operation does not touch -/
def ident (n : Note) : Int × Int × Int × Int × Int × Bool × Int × Int × Int :=
  (n.voice, n.pitch, n.velocity, n.instrument, n.program, n.isDrum, n.part, n.numerator, n.denominator)

theorem ident_shift (R : Rat → Rat) (d : Rat) (s r : NoteSeq) (h : shiftR R d s = .ok r) :
    r.notes.map ident = s.notes.map ident := by
  have hd : 0 < d := by
    by_contra hd
    have := (shift_error_iff R d s .valueError).mpr (Or.inl ⟨not_lt.mp hd, rfl⟩)
    rw [this] at h; cases h
  have hq : s.isQuantized = false := by
    cases hq : s.isQuantized with
    | false => rfl
    | true =>
      have := (shift_error_iff R d s .quantizationStatusError).mpr (Or.inr ⟨hd, hq, rfl⟩)
      rw [this] at h; cases h
  obtain ⟨r', hr', hm, _⟩ := shift_spec R d s hd hq
  rw [hr'] at h; cases h
  rw [hm.notes, List.map_map]
  rfl

theorem catLoop_ident (R : Rat → Rat) (useD : Bool) : ∀ (rest : List (MSeq × Rat)) (cur : Rat) (cat r : MSeq),
    catLoop R useD cur cat rest = .ok r →
    r.ns.notes.map ident = cat.ns.notes.map ident ++ rest.flatMap (fun p => p.1.ns.notes.map ident)
  | [], cur, cat, r, h => by
    simp only [catLoop] at h
    cases h; simp
  | (s, d) :: rest, cur, cat, r, h => by
    unfold catLoop at h
    split at h
    · cases h
    · have hpiece : ∃ sh : MSeq, (if 0 < cur then shiftM R cur s else .ok s) = .ok sh ∧
          sh.ns.notes.map ident = s.ns.notes.map ident := by
        by_cases hpos : 0 < cur
        · simp only [hpos, if_true] at h ⊢
          unfold shiftM at h ⊢
          cases hsh : shiftR R cur s.ns with
          | error e => simp [hsh] at h
          | ok sn => exact ⟨{ s with ns := sn }, rfl, ident_shift R cur s.ns sn hsh⟩
        · simp only [hpos, if_false]
          exact ⟨s, rfl, rfl⟩
      obtain ⟨sh, hsh, hid⟩ := hpiece
      rw [hsh] at h
      simp only at h
      have := catLoop_ident R useD rest _ (mergeFromM cat sh) r h
      rw [this]
      show (cat.ns.notes ++ sh.ns.notes).map ident ++ _ = _
      simp [hid, List.flatMap_cons]

/-- the notes of a concatenation are the notes of the pieces, piece after piece, each input note exactly
once, with its tag, pitch, velocity, instrument, … (only the times move) -/
theorem no_invention_concat (R : Rat → Rat) (mm : List String → String) (seqs : List MSeq) (durs : List Rat)
    (r : MSeq) (h : concatR R mm seqs durs = .ok r) :
    r.ns.notes.map ident = (seqs.flatMap (·.ns.notes)).map ident := by
  obtain ⟨cat, hc, rfl, hlen⟩ := concatR_shape R mm seqs durs r h
  have h1 := catLoop_ident R _ _ 0 emptyM cat hc
  show (finishCat mm seqs cat).ns.notes.map ident = _
  have : (finishCat mm seqs cat).ns.notes = cat.ns.notes := rfl
  rw [this, h1]
  simp only [emptyM, List.map_nil, List.nil_append]
  unfold catPairs
  split
  · rename_i hu
    have hl : seqs.length = durs.length := hlen (by intro hd; rw [hd] at hu; simp at hu)
    have hz : (seqs.zip durs).map (·.1) = seqs := List.map_fst_zip (le_of_eq hl)
    conv_rhs => rw [← hz]
    simp [List.flatMap_def, List.map_map, Function.comp_def, List.map_flatten]
  · simp [List.flatMap_def, List.map_map, Function.comp_def, List.map_flatten]

/-! non-vacuity: C13's example concatenates; its pieces satisfy the hypotheses for `R = id` -/
example : (concatR id (fun _ => "-") [exM, exM] [3, 3]).toOption.isSome = true := by decide +kernel

end NSV.C11
