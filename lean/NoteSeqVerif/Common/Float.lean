/-! IEEE-754 round-to-nearest-even on exact rationals with an unbounded exponent.
`rne53` models CPython / numpy float64 arithmetic, `rne24` numpy float32:
a float operation `a ∘ b` is `rne53 (a ∘ b)` computed in ℚ.
Overflow, subnormals, NaN, infinities and the sign of zero are outside the model. -/
namespace NSV

/-- nearest integer to `num/den` (den > 0), ties to even -/
def rneDiv (num den : Nat) : Nat :=
  let q := num / den
  let r := num % den
  if 2 * r < den then q else if den < 2 * r then q + 1 else if q % 2 = 0 then q else q + 1

/-- `⌊log₂ (num/den)⌋` for `num, den > 0` -/
def floorLog2 (num den : Nat) : Int :=
  let e0 : Int := (Nat.log2 num : Int) - (Nat.log2 den : Int)
  let ge : Bool := if 0 ≤ e0 then den * 2 ^ e0.toNat ≤ num else den ≤ num * 2 ^ (-e0).toNat
  if ge then e0 else e0 - 1

/-- round the positive rational `num/den` to a `p`-bit significand -/
def rnePos (p : Nat) (num den : Nat) : Rat :=
  let e := floorLog2 num den
  let s : Int := e - ((p : Int) - 1)
  if 0 ≤ s then
    ((rneDiv num (den * 2 ^ s.toNat) * 2 ^ s.toNat : Nat) : Rat)
  else
    mkRat (rneDiv (num * 2 ^ (-s).toNat) den : Nat) (2 ^ (-s).toNat)

def rne (p : Nat) (x : Rat) : Rat :=
  if x.num = 0 then 0
  else if 0 < x.num then rnePos p x.num.natAbs x.den
  else - rnePos p x.num.natAbs x.den

def rne53 (x : Rat) : Rat := rne 53 x
def rne24 (x : Rat) : Rat := rne 24 x

/-- float64 operations as Python performs them -/
def fadd (a b : Rat) : Rat := rne53 (a + b)
def fsub (a b : Rat) : Rat := rne53 (a - b)
def fmul (a b : Rat) : Rat := rne53 (a * b)
def fdiv (a b : Rat) : Rat := rne53 (a / b)

/-- Python `int(x)`: truncation toward zero -/
def truncR (x : Rat) : Int := if 0 ≤ x then x.floor else x.ceil

end NSV
