/-! Line-protocol helpers shared by every driver (core Lean only, no Mathlib).
Tokens are separated by single spaces; numbers are decimal integers; every
Python float travels as its exact value `num/den` (or `num` when `den = 1`). -/
namespace NSV.Wire

def toks (s : String) : List String :=
  ((s.trimAscii.toString).splitOn " ").filter (· ≠ "")

def parseRat? (s : String) : Option Rat :=
  match s.splitOn "/" with
  | [n] => n.toInt?.map (fun i => (i : Rat))
  | [n, d] => do
      let n ← n.toInt?
      let d ← d.toNat?
      if d = 0 then none else some (mkRat n d)
  | _ => none

def showRat (r : Rat) : String :=
  if r.den = 1 then toString r.num else s!"{r.num}/{r.den}"

def showBool (b : Bool) : String := if b then "1" else "0"

/-- token-stream parser: state = remaining tokens, failure = `none` -/
abbrev P := StateT (List String) Option

def P.next : P String := fun ts => match ts with
  | [] => none
  | t :: r => some (t, r)

def P.int : P Int := do let t ← P.next; match t.toInt? with | some i => pure i | none => failure
def P.nat : P Nat := do let t ← P.next; match t.toNat? with | some i => pure i | none => failure
def P.rat : P Rat := do let t ← P.next; match parseRat? t with | some i => pure i | none => failure
def P.bool : P Bool := do let t ← P.next; if t = "1" then pure true else if t = "0" then pure false else failure
def P.str : P String := P.next
def P.lit (s : String) : P Unit := do let t ← P.next; if t = s then pure () else failure

def P.rep {α} (p : P α) : Nat → P (List α)
  | 0 => pure []
  | n + 1 => do let a ← p; let r ← P.rep p n; pure (a :: r)

/-- `<n> item*n` -/
def P.list {α} (p : P α) : P (List α) := do let n ← P.nat; P.rep p n

def P.eof : P Unit := fun ts => match ts with | [] => some ((), []) | _ => none

def P.run {α} (p : P α) (line : String) : Option α :=
  match (do let a ← p; P.eof; pure a : P α) (toks line) with
  | some (a, _) => some a
  | none => none

def showList {α} (f : α → String) (l : List α) : String :=
  " ".intercalate (toString l.length :: l.map f)

def showInts (l : List Int) : String := showList toString l
def showNats (l : List Nat) : String := showList toString l

/-- generic stdin/stdout loop: one request line in, one response line out -/
partial def loop (step : String → String) : IO Unit := do
  let stdin ← IO.getStdin
  let stdout ← IO.getStdout
  let rec go : IO Unit := do
    let line ← stdin.getLine
    if line.isEmpty then return ()
    stdout.putStrLn (step line)
    go
  go
  stdout.flush

end NSV.Wire
