import NoteSeqVerif.Model.NoteSeq
import NoteSeqVerif.Generated.C14
/-! C14 — `sequences_lib.apply_sustain_control_changes` (core Lean only).

Literal transcription of the Python.  No float arithmetic happens in this operation (times are
only compared and copied), so the model over `Rat` is exact.

Object identity: the Python works on the note *objects* of the deep copy (`note.end_time = …`
mutates the object that is both in `sequence.notes` and in the per-instrument active lists), while
`sequence.notes.remove(note)`, `event in active_notes[…]` and `list.remove(event)` compare protobuf
messages *by value*.  The model therefore keeps a heap `store : Fin n → Note` (current value of the
note object whose original position was `i`), `seq : List (Fin n)` (= `sequence.notes` as a list of
object identities) and active lists of identities; the three by-value operations compare the
current heap values.

`collections.defaultdict` is an insertion-ordered association list with a default (`dget`/`dset`);
the only place where the key order could matter is the close-out loop, whose effect does not depend
on it. -/
namespace NSV.C14
open Gen

/-- the third component of an event tuple: a note object (by identity) or a control change -/
inductive Obj (n : Nat) where
  | note (id : Fin n)
  | cc (c : CC)

/-- `(time, event_type, object)` -/
structure Ev (n : Nat) where
  time : Rat
  typ : Nat
  obj : Obj n

/-- `note.end_time = t` (every other field of the message keeps its value) -/
def setEnd (nt : Note) (t : Rat) : Note := { nt with end_ := t }

/-- heap update: the object `j` now has value `v` -/
def upd {n : Nat} (store : Fin n → Note) (j : Fin n) (v : Note) : Fin n → Note :=
  fun i => if i = j then v else store i

/-- `defaultdict[k]` (read) -/
def dget {β : Type} (d : List (Int × β)) (k : Int) (dflt : β) : β :=
  match d with
  | [] => dflt
  | (k', v) :: r => if k' = k then v else dget r k dflt

/-- `defaultdict[k] = v` -/
def dset {β : Type} (d : List (Int × β)) (k : Int) (v : β) : List (Int × β) :=
  match d with
  | [] => [(k, v)]
  | (k', v') :: r => if k' = k then (k', v) :: r else (k', v') :: dset r k v

/-- Python compares the key `operator.itemgetter(0, 1)` = `(time, type)` lexicographically -/
def evLe {n : Nat} (a b : Ev n) : Bool :=
  decide (a.time < b.time) || (decide (a.time = b.time) && decide (a.typ ≤ b.typ))

/-- the two `events.extend([... for note in sequence.notes if not note.is_drum])` -/
def noteEvents {n : Nat} (notes : Fin n → Note) : List (Ev n) :=
  ((List.finRange n).filter (fun i => !(notes i).isDrum)).map
      (fun i => { time := (notes i).start, typ := NOTE_ON, obj := .note i }) ++
  ((List.finRange n).filter (fun i => !(notes i).isDrum)).map
      (fun i => { time := (notes i).end_, typ := NOTE_OFF, obj := .note i })

/-- the loop over `sequence.control_changes` (`value >= 64` → on, `elif value < 64` → off) -/
def ccEvents {n : Nat} (ctl : Int) (ccs : List CC) : List (Ev n) :=
  (ccs.filter (fun c => c.number = ctl)).map (fun c =>
    if 64 ≤ c.value then { time := c.time, typ := SUSTAIN_ON, obj := .cc c }
    else { time := c.time, typ := SUSTAIN_OFF, obj := .cc c })

/-- `events.sort(key=operator.itemgetter(0, 1))` (stable) -/
def sortedEvents {n : Nat} (ctl : Int) (notes : Fin n → Note) (ccs : List CC) : List (Ev n) :=
  (noteEvents notes ++ ccEvents ctl ccs).mergeSort evLe

structure St (n : Nat) where
  store : Fin n → Note                   -- the note objects of the deep copy
  seq : List (Fin n)                     -- sequence.notes
  active : List (Int × List (Fin n))     -- active_notes
  sus : List (Int × Bool)                -- sus_active
  total : Rat                            -- sequence.total_time
  time : Rat                             -- the loop variable `time` (0 before the loop)

def init {n : Nat} (notes : Fin n → Note) (total : Rat) : St n :=
  { store := notes, seq := List.finRange n, active := [], sus := [], total := total, time := 0 }

/-- `event.instrument` -/
def objInst {n : Nat} (store : Fin n → Note) : Obj n → Int
  | .note i => (store i).instrument
  | .cc c => c.instrument

/-- body of the `_SUSTAIN_OFF` branch: notes whose end lies before `t` were being extended; they
end now (and `total_time` is raised), the others stay.  Returns (heap, total, new_active_notes). -/
def offLoop {n : Nat} (t : Rat) :
    List (Fin n) → (Fin n → Note) → Rat → (Fin n → Note) × Rat × List (Fin n)
  | [], store, total => (store, total, [])
  | j :: js, store, total =>
    if (store j).end_ < t then
      offLoop t js (upd store j (setEnd (store j) t)) (if total < t then t else total)
    else
      let r := offLoop t js store total
      (r.1, r.2.1, j :: r.2.2)

/-- `sequence.notes.remove(note)`: deletes the first element that compares equal (by value) to
the note; `ValueError` if there is none -/
def seqRemove {n : Nat} (store : Fin n → Note) (v : Note) : List (Fin n) → Except Err (List (Fin n))
  | [] => .error .valueError
  | i :: is =>
    if store i = v then .ok is
    else match seqRemove store v is with
      | .ok r => .ok (i :: r)
      | .error e => .error e

/-- body of the `_NOTE_ON` branch under sustain for the event note `k` at time `t`: every active
note of the same pitch ends now; one that thereby has zero length is removed from the sequence.
Returns (heap, sequence.notes, new_active_notes). -/
def strikeLoop {n : Nat} (t : Rat) (k : Fin n) :
    List (Fin n) → (Fin n → Note) → List (Fin n) →
      Except Err ((Fin n → Note) × List (Fin n) × List (Fin n))
  | [], store, seq => .ok (store, seq, [])
  | j :: js, store, seq =>
    if (store j).pitch = (store k).pitch then
      let store' := upd store j (setEnd (store j) t)
      if (store' j).start = (store' j).end_ then
        match seqRemove store' (store' j) seq with
        | .error e => .error e
        | .ok seq' => strikeLoop t k js store' seq'
      else strikeLoop t k js store' seq
    else
      match strikeLoop t k js store seq with
      | .error e => .error e
      | .ok r => .ok (r.1, r.2.1, j :: r.2.2)

/-- `if event in l: l.remove(event)` on a Python list of messages (comparison by value) -/
def eraseVal {n : Nat} (store : Fin n → Note) (v : Note) : List (Fin n) → List (Fin n)
  | [] => []
  | j :: js => if store j = v then js else j :: eraseVal store v js

/-- an event type paired with the wrong kind of object cannot be produced by `sortedEvents`;
the Python would fail with `AttributeError` on `event.pitch` -/
def confusion : Err := .other "AttributeError"

/-- one iteration of `for time, event_type, event in events:` -/
def step {n : Nat} (st0 : St n) (ev : Ev n) : Except Err (St n) :=
  let st := { st0 with time := ev.time }
  let inst := objInst st.store ev.obj
  if ev.typ = SUSTAIN_ON then
    .ok { st with sus := dset st.sus inst true }
  else if ev.typ = SUSTAIN_OFF then
    let r := offLoop ev.time (dget st.active inst []) st.store st.total
    .ok { st with sus := dset st.sus inst false, store := r.1, total := r.2.1,
                  active := dset st.active inst r.2.2 }
  else if ev.typ = NOTE_ON then
    match ev.obj with
    | .cc _ => .error confusion
    | .note k =>
      if dget st.sus inst false then
        match strikeLoop ev.time k (dget st.active inst []) st.store st.seq with
        | .error e => .error e
        | .ok r => .ok { st with store := r.1, seq := r.2.1,
                                 active := dset st.active inst (r.2.2 ++ [k]) }
      else
        .ok { st with active := dset st.active inst (dget st.active inst [] ++ [k]) }
  else if ev.typ = NOTE_OFF then
    match ev.obj with
    | .cc _ => .error confusion
    | .note k =>
      if dget st.sus inst false then .ok st
      else .ok { st with active := dset st.active inst
                            (eraseVal st.store (st.store k) (dget st.active inst [])) }
  else .error (.other "AssertionError")

def run {n : Nat} : St n → List (Ev n) → Except Err (St n)
  | st, [] => .ok st
  | st, e :: es =>
    match step st e with
    | .ok st' => run st' es
    | .error x => .error x

/-- one note of the close-out: `note.end_time = time; if time > total_time: total_time = time` -/
def closeNote {n : Nat} (st : St n) (j : Fin n) : St n :=
  { st with store := upd st.store j (setEnd (st.store j) st.time),
            total := if st.total < st.time then st.time else st.total }

/-- `for instrument in active_notes.values(): for note in instrument: …` -/
def closeOut {n : Nat} (st : St n) : St n :=
  (st.active.flatMap (·.2)).foldl closeNote st

/-- everything after the deep copy, on the note objects `notes` (by original position) -/
def applyCore {n : Nat} (ctl : Int) (notes : Fin n → Note) (ccs : List CC) (total : Rat) :
    Except Err (List Note × Rat) :=
  match run (init notes total) (sortedEvents ctl notes ccs) with
  | .error e => .error e
  | .ok st =>
    let st' := closeOut st
    .ok (st'.seq.map st'.store, st'.total)

/-- `apply_sustain_control_changes(note_sequence, sustain_control_number=ctl)` -/
def applySustain (ctl : Int) (s : NoteSeq) : Except Err NoteSeq :=
  if s.isQuantized then .error .quantizationStatusError
  else
    match applyCore ctl (fun (i : Fin s.notes.length) => s.notes[i]) s.ccs s.totalTime with
    | .error e => .error e
    | .ok r => .ok { s with notes := r.1, totalTime := r.2 }

end NSV.C14
