import NoteSeqVerif.Model.C05
/-! C05 — what a MusicXML score declares, written from the property text (core Lean only).
These definitions are the right-hand sides of the theorems in `Props/C05.lean`; they do not
mention the parser state. -/
namespace NSV.C05

/-! ## pitch -/

/-- pitch class of a step letter -/
def specPc : String → Option Int
  | "C" => some 0 | "D" => some 2 | "E" => some 4 | "F" => some 5
  | "G" => some 7 | "A" => some 9 | "B" => some 11 | _ => none

/-- MIDI number of a notated pitch sounding `transpose` semitones away (C4 = 60) -/
def specMidi (pc alter octave transpose : Int) : Int := 12 * (octave + 1) + pc + alter + transpose

/-! ## key -/

/-- tonic (pitch class) of the key with `fifths` sharps (flats when negative): the major tonic is
`fifths` fifths above C, the relative minor tonic a minor third below it -/
def specTonic (fifths : Int) (minor : Bool) : Int := (7 * fifths + (if minor then 9 else 0)) % 12

/-! ## time -/

/-- what is in force when an element is read: divisions per quarter and quarters per minute -/
structure Ctx where
  div : Int
  qpm : Rat
deriving Repr, DecidableEq

def ctxAttr (c : Ctx) : AttrChild → Ctx
  | .divisions d => { c with div := d }
  | _ => c

/-- a `<sound tempo=…>` sets the tempo from its position on (`tempo="0"` means the default) -/
def ctxSound (c : Ctx) (s : Sound) : Ctx :=
  match s.tempo with
  | none => c
  | some q => { c with qpm := if q = 0 then Gen.DEFAULT_QPM else q }

def ctxStep (c : Ctx) : El → Ctx
  | .attributes cs => cs.foldl ctxAttr c
  | .direction ss => ss.foldl ctxSound c
  | _ => c

/-- the context after a run of elements -/
def ctxAfter (c : Ctx) (els : List El) : Ctx := els.foldl ctxStep c

/-- seconds taken by `d` divisions: `d / divisions` quarter notes of `60 / qpm` seconds -/
def secs (c : Ctx) (d : Int) : Rat := (d : Rat) / (c.div : Rat) * (60 / c.qpm)

/-- the cursor move an element makes, in divisions: a note that is not part of a chord advances by
its duration, `<forward>` advances, `<backup>` goes back; chord notes, grace notes and everything
else leave the cursor where it is -/
def moveOf : El → Int
  | .note n => if n.chord then 0 else n.duration.getD 0
  | .backup d => -d
  | .forward d => d
  | _ => 0

/-- the cursor after a run of elements, counted from the cursor before it: the sum of the moves,
each lasting `duration / divisions · 60 / qpm` at the divisions and tempo in force where it stands -/
def specCursor (c : Ctx) : List El → Rat
  | [] => 0
  | e :: es => secs c (moveOf e) + specCursor (ctxStep c e) es

/-- all elements of a run of measures in document order (after the empty-measure repair) -/
def flatEls (mss : List (List El)) : List El := (mss.map repairMeasure).flatten

/-- all elements of a part in document order -/
def partEls (p : PartEl) : List El := flatEls p.measures

/-- the context before the first part -/
def Ctx.init : Ctx := ⟨Gen.INIT_DIVISIONS, Gen.INIT_QPM⟩

/-- the context in force when a part starts: the parser keeps divisions and tempo from the parts before it
(the tempo half of this is the open finding F-C05-4) -/
def scoreCtx (c : Ctx) (before : List PartEl) : Ctx :=
  before.foldl (fun c p => ctxAfter c (partEls p)) c

/-- `total_time`: the latest final cursor of the parts -/
def specTotal (c : Ctx) (t : Rat) : List PartEl → Rat
  | [] => t
  | p :: ps =>
      let fin := specCursor c (partEls p)
      specTotal (ctxAfter c (partEls p)) (if fin > t then fin else t) ps

/-- no `<sound tempo=…>` in the element -/
def tempoFree : El → Bool
  | .direction ss => ss.all (fun s => s.tempo.isNone)
  | _ => true

/-- the element neither moves the cursor nor is a note -/
def still : El → Bool
  | .note _ => false
  | .backup _ => false
  | .forward _ => false
  | _ => true

/-! ## note attributes -/

/-- the notated value of a note as a fraction of a whole note: type, tuplet, augmentation dots -/
def specRatio (typeRatio tuplet : Rat) (dots : Nat) : Rat :=
  typeRatio / tuplet * (2 - (1 / 2 : Rat) ^ dots)

/-! ## chord symbols -/

inductive DegType | add | subtract | alter
deriving DecidableEq, Repr

def DegType.text : DegType → String
  | .add => "add" | .subtract => "subtract" | .alter => "alter"

/-- accidental spelling of `-2..2` semitones in a chord symbol -/
def specAcc : Int → Option String
  | -2 => some "bb" | -1 => some "b" | 0 => some "" | 1 => some "#" | 2 => some "##" | _ => none

/-- a scale-degree modification as it is written in a figure: `add9`, `#11`, `no3`, `b5` -/
def specDegree (ty : DegType) (acc : String) (value : Int) : String :=
  match ty with
  | .add => (if acc = "" then "add" else "") ++ acc ++ toString value
  | .subtract => "no" ++ toString value
  | .alter => acc ++ toString value

/-- alteration of a chord-symbol pitch or degree: absent = unaltered -/
def accOf (a : Option Int) : Option String := specAcc (a.getD 0)

/-- a declared degree modification: value, alteration, type -/
structure DegSpec where
  value : Int
  alter : Option Int
  type : DegType
deriving DecidableEq, Repr

/-- the `<degree>` element of a declared modification -/
def DegSpec.child (d : DegSpec) : HChild := .degree (some d.value) (d.alter.map .int) (some d.type.text)

/-- its text in the figure; defined when the alteration is −2..2 and an `alter` degree is altered by a
non-zero amount -/
def DegSpec.text (d : DegSpec) : Option String :=
  match accOf d.alter with
  | none => none
  | some acc => if d.type = .alter ∧ acc = "" then none else some (specDegree d.type acc d.value)

/-- a `<harmony>` element in schema order: root, kind, bass?, degree* -/
structure HarmonySpec where
  rootStep : String
  rootAlter : Option Int
  kind : String
  bass : Option (String × Option Int)
  degrees : List DegSpec
deriving DecidableEq, Repr

def HarmonySpec.children (h : HarmonySpec) : List HChild :=
  .root (some h.rootStep) (h.rootAlter.map .int) :: .kind (some h.kind) ::
    ((match h.bass with
      | none => []
      | some (s, a) => [.bass (some s) (a.map .int)]) ++ h.degrees.map DegSpec.child)

/-- sum of the `<offset>` children of a `<harmony>`, in divisions -/
def offsetSum : List HChild → Int
  | [] => 0
  | .offset (.int o) :: cs => o + offsetSum cs
  | _ :: cs => offsetSum cs

/-- lead-sheet figure: root, kind abbreviation, parenthesised degree modifications, `/bass` -/
def specFigure (root abbr : String) (degs : List String) (bass : Option String) : String :=
  root ++ abbr ++ String.join (degs.map (fun d => "(" ++ d ++ ")")) ++
    (match bass with | none => "" | some b => "/" ++ b)

/-! ## the timing clause at full strength: tempo by position

The tempo marks of a score are those of its first part; the tempo in force at a position (counted in
quarter notes from the start of a part) is the last mark at or before that position, for every part. -/

/-- tempo marks of a run of elements with their positions in quarter notes -/
def marksOf (c : Ctx) (q : Rat) : List El → List (Rat × Rat)
  | [] => []
  | e :: es =>
      (match e with
       | .direction ss =>
           ss.filterMap (fun s => s.tempo.map (fun t => (q, if t = 0 then Gen.DEFAULT_QPM else t)))
       | _ => []) ++ marksOf (ctxStep c e) (q + (moveOf e : Rat) / (c.div : Rat)) es

/-- the tempo in force at quarter position `q` -/
def tempoAt (marks : List (Rat × Rat)) (q : Rat) : Rat :=
  match (marks.filter (fun m => m.1 ≤ q)).getLast? with
  | some m => m.2
  | none => Gen.INIT_QPM

/-- onsets of the `<note>` elements of a run when every cursor move lasts
`duration / divisions · 60 / (tempo in force where it starts)`; chord notes share the onset of the
note before them.  `q` = position in quarters, `t` = cursor in seconds, `prev` = last onset -/
def specOnsetsAt (marks : List (Rat × Rat)) (c : Ctx) (q t prev : Rat) : List El → List Rat
  | [] => []
  | e :: es =>
      let dq := (moveOf e : Rat) / (c.div : Rat)
      let t' := t + dq * (60 / tempoAt marks q)
      match e with
      | .note n =>
          let on := if n.chord then prev else t
          on :: specOnsetsAt marks c (q + dq) t' on es
      | _ => specOnsetsAt marks (ctxStep c e) (q + dq) t' prev es

/-- onsets the parser recorded for the notes of a part -/
def onsetsOf (ms : List MState) : List Rat := (ms.flatMap (·.notes)).map (·.time)

/-- tempo marks of the score: those of its first part -/
def scoreMarks (sc : Score) : List (Rat × Rat) :=
  match sc.parts with
  | [] => []
  | p :: _ => marksOf Ctx.init 0 (partEls p)

end NSV.C05
