import NoteSeqVerif.Model.NoteSeq
import NoteSeqVerif.Generated.C02
/-! C02 — extracting / splitting (`sequences_lib.py`: `_extract_subsequences`, `extract_subsequence`,
`trim_note_sequence`, `split_note_sequence`, `split_note_sequence_on_time_changes`,
`split_note_sequence_on_silence`).

Every definition takes the rounding operator `R` applied after each float operation; the driver
instantiates `R := rne53`, the exact-arithmetic theorems use `R := id`.

### How the single-pass loops are transcribed
All the loops of `_extract_subsequences` have the same shape

    subsequence_index = -1
    for event in sorted(events, key=time):
      if event.time <= split_times[0]: <remember event>; continue          (`<` for notes / beats)
      while idx < len(split_times) - 1 and event.time > split_times[idx+1]:  (`>=` for notes / beats)
        idx += 1
        if idx == len(split_times) - 1: break
        <put the remembered state at time 0 into piece idx>
      if idx == len(split_times) - 1: break
      if event.time < split_times[idx+1]: <append the shifted event to piece idx>   (always, for notes / beats)
      <remember event>
    while idx < len(split_times) - 2: idx += 1; <put the remembered state into piece idx>

`subsequence_index` is kept as a zipper position over `split_times` (`Z`): `rest = split_times[idx+1:]`,
`cur` = the piece `idx` being filled together with its start `split_times[idx]` (`none` ⇔ `idx = -1`),
`done` = the pieces `0 … idx-1` (the Python never touches them again).  `idx == len-1` ⇔ `rest = []`.
The remembered state is a parameter `μ` (`Unit` for notes and beats, `Option α` = `previous_event` for
the four state kinds, an insertion-ordered association list = `previous_pedal_events` for pedals). -/
namespace NSV.C02

/-! ## the generic single-pass loop -/

/-- zipper position of `subsequence_index` over `split_times` -/
structure Z (α : Type) where
  done : List (List α)
  cur : Option (Rat × List α)
  rest : List Rat

/-- `strict = true`: the state-event comparisons (`event.time <= x` means "not yet past `x`");
`strict = false`: the note / beat comparisons (`event.time < x`). -/
def before (strict : Bool) (x t : Rat) : Bool := if strict then decide (t ≤ x) else decide (t < x)

structure Loop (α μ : Type) where
  time : α → Rat
  strict : Bool
  /-- `place a b e`: the event as it is stored in the piece `[a, b)` -/
  place : Rat → Rat → α → α
  upd : μ → α → μ
  /-- what is put at the start of a piece that is entered with remembered state `m` -/
  enter : μ → List α

/-- the inner `while`: pass every split time `b` with `pass b`; entering a new piece closes the current
one and starts the next with `enter`; reaching the last split time (`idx == len-1`) stops without
entering anything (the `break` inside the `while`). -/
def adv {α : Type} (pass : Rat → Bool) (enter : List α) :
    List Rat → List (List α) → Option (Rat × List α) → Z α
  | [], done, cur => ⟨done, cur, []⟩
  | b :: r, done, cur =>
    if pass b then
      let done' := match cur with
        | none => done
        | some (_, c) => done ++ [c]
      match r with
      | [] => ⟨done', none, []⟩
      | _ :: _ => adv pass enter r done' (some (b, enter))
    else ⟨done, cur, b :: r⟩

/-- the pieces when the `for` loop ends: the finished ones, the current one, and every piece not yet
reached, each holding `enter` (the trailing `while idx < len(split_times) - 2`) -/
def finish {α : Type} (enter : List α) (z : Z α) : List (List α) :=
  z.done ++ (match z.cur with | none => [] | some (_, c) => [c]) ++
    List.replicate (z.rest.length - 1) enter

/-- the `for` loop.  The last `match` arm with `rest ≠ []` and `cur = none` (`idx = -1` after the
`while`) cannot occur because the `continue` test and the `while` test are complementary at
`split_times[0]` (shown in `Proofs/C02.lean`, `run_eq_spec`). -/
def run {α μ : Type} (L : Loop α μ) (t0 : Rat) : List α → μ → Z α → List (List α)
  | [], m, z => finish (L.enter m) z
  | e :: es, m, z =>
    if before L.strict t0 (L.time e) then run L t0 es (L.upd m e) z
    else
      let z' := adv (fun b => !before L.strict b (L.time e)) (L.enter m) z.rest z.done z.cur
      match z'.rest, z'.cur with
      | b :: _, some (a, c) =>
        let c' := if L.strict then (if L.time e < b then c ++ [L.place a b e] else c)
                  else c ++ [L.place a b e]
        run L t0 es (L.upd m e) ⟨z'.done, some (a, c'), z'.rest⟩
      | _, _ => finish [] z'

/-- one extraction loop over already sorted events -/
def runLoop {α μ : Type} (L : Loop α μ) (m0 : μ) (st : List Rat) (t0 : Rat) (evs : List α) :
    List (List α) :=
  run L t0 evs m0 ⟨[], none, st⟩

/-! ## the loops of `_extract_subsequences` -/

/-- a note stored in the piece `[a, b)`: `start_time -= a`, `end_time = min(end_time, b) - a` -/
def clipR (R : Rat → Rat) (a b : Rat) (n : Note) : Note :=
  { n with start := R (n.start - a), end_ := R (min n.end_ b - a) }

def notesL (R : Rat → Rat) : Loop Note Unit :=
  { time := (·.start), strict := false, place := clipR R, upd := fun _ _ => (), enter := fun _ => [] }

/-- the generic state-event loop (time signatures, key signatures, tempos, chord symbols) -/
def stateL {α : Type} (R : Rat → Rat) (time : α → Rat) (setTime : α → Rat → α) : Loop α (Option α) :=
  { time := time, strict := true,
    place := fun a _ e => setTime e (R (time e - a)),
    upd := fun _ e => some e,
    enter := fun m => match m with | none => [] | some e => [setTime e 0] }

def TimeSig.setTime (e : TimeSig) (t : Rat) : TimeSig := { e with time := t }
def KeySig.setTime (e : KeySig) (t : Rat) : KeySig := { e with time := t }
def Tempo.setTime (e : Tempo) (t : Rat) : Tempo := { e with time := t }
def TextAnn.setTime (e : TextAnn) (t : Rat) : TextAnn := { e with time := t }
def CC.setTime (e : CC) (t : Rat) : CC := { e with time := t }

/-- the stateless loop (BEAT annotations) -/
def beatL (R : Rat → Rat) : Loop TextAnn Unit :=
  { time := (·.time), strict := false,
    place := fun a _ e => TextAnn.setTime e (R (e.time - a)),
    upd := fun _ _ => (), enter := fun _ => [] }

/-- Python dict assignment on an insertion-ordered association list: an existing key keeps its position -/
def assocSet {κ ν : Type} [DecidableEq κ] : List (κ × ν) → κ → ν → List (κ × ν)
  | [], k, v => [(k, v)]
  | (k', v') :: r, k, v => if k' = k then (k', v) :: r else (k', v') :: assocSet r k v

abbrev PedalKey := Int × Int
def CC.key (e : CC) : PedalKey := (e.instrument, e.number)

/-- the pedal loop: `previous_pedal_events[(instrument, control_number)] = event`;
entering a piece emits `previous_pedal_events.values()` at time 0 -/
def pedalL (R : Rat → Rat) : Loop CC (List (PedalKey × CC)) :=
  { time := (·.time), strict := true,
    place := fun a _ e => CC.setTime e (R (e.time - a)),
    upd := fun m e => assocSet m (CC.key e) e,
    enter := fun m => m.map (fun kv => CC.setTime kv.2 0) }

/-- consecutive pairs `(split_times[i], split_times[i+1])` -/
def pairs : List Rat → List (Rat × Rat)
  | a :: b :: r => (a, b) :: pairs (b :: r)
  | _ => []

/-- running `if end_time > total_time: total_time = end_time` over the notes of one piece, from 0.0 -/
def pieceTotal (ns : List Note) : Rat :=
  ns.foldl (fun tot n => if n.end_ > tot then n.end_ else tot) 0

def notePieces (R : Rat → Rat) (s : NoteSeq) (st : List Rat) (t0 : Rat) : List (List Note) :=
  runLoop (notesL R) () st t0 (sortByRat (·.start) s.notes)
def timeSigPieces (R : Rat → Rat) (s : NoteSeq) (st : List Rat) (t0 : Rat) : List (List TimeSig) :=
  runLoop (stateL R (·.time) TimeSig.setTime) none st t0 (sortByRat (·.time) s.timeSigs)
def keySigPieces (R : Rat → Rat) (s : NoteSeq) (st : List Rat) (t0 : Rat) : List (List KeySig) :=
  runLoop (stateL R (·.time) KeySig.setTime) none st t0 (sortByRat (·.time) s.keySigs)
def tempoPieces (R : Rat → Rat) (s : NoteSeq) (st : List Rat) (t0 : Rat) : List (List Tempo) :=
  runLoop (stateL R (·.time) Tempo.setTime) none st t0 (sortByRat (·.time) s.tempos)
def chords (s : NoteSeq) : List TextAnn := s.texts.filter (fun a => a.kind == Gen.CHORD_SYMBOL)
def beats (s : NoteSeq) : List TextAnn := s.texts.filter (fun a => a.kind == Gen.BEAT)
def chordPieces (R : Rat → Rat) (s : NoteSeq) (st : List Rat) (t0 : Rat) : List (List TextAnn) :=
  runLoop (stateL R (·.time) TextAnn.setTime) none st t0 (sortByRat (·.time) (chords s))
def beatPieces (R : Rat → Rat) (s : NoteSeq) (st : List Rat) (t0 : Rat) : List (List TextAnn) :=
  runLoop (beatL R) () st t0 (sortByRat (·.time) (beats s))
def pedals (preserve : List Int) (s : NoteSeq) : List CC := s.ccs.filter (fun c => preserve.contains c.number)
def pedalPieces (R : Rat → Rat) (preserve : List Int) (s : NoteSeq) (st : List Rat) (t0 : Rat) :
    List (List CC) :=
  runLoop (pedalL R) [] st t0 (sortByRat (·.time) (pedals preserve s))

/-- `subsequence.CopyFrom(sequence)` with the seven containers deleted and `total_time = 0.0` -/
def emptied (s : NoteSeq) : NoteSeq :=
  { s with totalTime := 0, notes := [], timeSigs := [], keySigs := [], tempos := [], texts := [],
           ccs := [], bends := [] }

/-- the pieces after every loop has run (all component lists have `len(split_times) - 1` entries,
`Proofs/C02.lean: runLoop_length`, so no `zipWith` truncates) -/
def assemble (R : Rat → Rat) (preserve : List Int) (s : NoteSeq) (st : List Rat) (t0 : Rat) : List NoteSeq :=
  let p := (pairs st).map (fun _ => emptied s)
  let p := List.zipWith (fun (p : NoteSeq) ns => { p with notes := ns, totalTime := pieceTotal ns }) p (notePieces R s st t0)
  let p := List.zipWith (fun (p : NoteSeq) x => { p with timeSigs := x }) p (timeSigPieces R s st t0)
  let p := List.zipWith (fun (p : NoteSeq) x => { p with keySigs := x }) p (keySigPieces R s st t0)
  let p := List.zipWith (fun (p : NoteSeq) x => { p with tempos := x }) p (tempoPieces R s st t0)
  let p := List.zipWith (fun (p : NoteSeq) x => { p with texts := x }) p (chordPieces R s st t0)
  let p := List.zipWith (fun (p : NoteSeq) x => { p with texts := p.texts ++ x }) p (beatPieces R s st t0)
  let p := List.zipWith (fun (p : NoteSeq) x => { p with ccs := x }) p (pedalPieces R preserve s st t0)
  List.zipWith (fun (p : NoteSeq) (ab : Rat × Rat) =>
      { p with hasSub := true, subStart := ab.1,
               subEnd := R (R (s.totalTime - ab.1) - p.totalTime) }) p (pairs st)

/-- `_extract_subsequences(sequence, split_times, preserve_control_numbers)` -/
def extractSubsequencesR (R : Rat → Rat) (preserve : List Int) (s : NoteSeq) (st : List Rat) :
    Except Err (List NoteSeq) :=
  if s.isQuantized then .error .quantizationStatusError
  else match st with
    | [] => .error .valueError
    | [_] => .error .valueError
    | t0 :: t1 :: r =>
      if (pairs (t0 :: t1 :: r)).any (fun p => decide (p.1 > p.2)) then .error .valueError
      else if (pairs (t0 :: t1 :: r)).any (fun p => decide (p.1 ≥ s.totalTime)) then .error .valueError
      else .ok (assemble R preserve s (t0 :: t1 :: r) t0)

/-- `extract_subsequence(sequence, start_time, end_time)`: `[0]` of a one-piece extraction -/
def extractSubsequenceR (R : Rat → Rat) (preserve : List Int) (s : NoteSeq) (a b : Rat) :
    Except Err NoteSeq :=
  match extractSubsequencesR R preserve s [a, b] with
  | .error e => .error e
  | .ok (p :: _) => .ok p
  | .ok [] => .error (.other "IndexError")

/-- `trim_note_sequence(sequence, start_time, end_time)` (no float operation is performed) -/
def trim (s : NoteSeq) (a b : Rat) : Except Err NoteSeq :=
  if s.isQuantized then .error .quantizationStatusError
  else .ok { s with
    notes := (s.notes.filter (fun n => !(decide (n.start < a) || decide (n.start ≥ b)))).map
               (fun n => { n with end_ := min n.end_ b }),
    totalTime := min s.totalTime b }

/-! ## the split family -/

/-- `while note_idx < len(notes) and notes[note_idx].start_time < t: crossing.append(…); note_idx += 1`
on (remaining notes, crossing) -/
def crossStep (t : Rat) : List Note → List Note → List Note × List Note
  | [], cr => ([], cr)
  | n :: ns, cr => if n.start < t then crossStep t ns (cr ++ [n]) else (n :: ns, cr)

/-- the candidate loop of `split_note_sequence`; returns what was appended to `valid_split_times` -/
def hopLoop (skip : Bool) : List Rat → List Note → List Note → List Rat → List Rat
  | [], _, _, vs => vs
  | t :: ts, rem, cr, vs =>
    let rc := crossStep t rem cr
    let cr' := rc.2.filter (fun n => n.end_ > t)
    hopLoop skip ts rc.1 cr' (if skip && !cr'.isEmpty then vs else vs ++ [t])

/-- "Handle the final subsequence" and the call of the extractor; `vs` = everything appended after
the initial `0.0` -/
def splitWith (R : Rat → Rat) (preserve : List Int) (s : NoteSeq) (vs : List Rat) :
    Except Err (List NoteSeq) :=
  let valid := if s.totalTime > (0 :: vs).getLast (List.cons_ne_nil _ _) then (0 :: vs) ++ [s.totalTime]
               else 0 :: vs
  if valid.length > 1 then extractSubsequencesR R preserve s valid else .ok []

def sortedNotes (s : NoteSeq) : List Note := sortByRat (·.start) s.notes

/-- `split_note_sequence` with `hop_size_seconds` a Python list of times -/
def splitHopListR (R : Rat → Rat) (preserve : List Int) (s : NoteSeq) (hops : List Rat) (skip : Bool) :
    Except Err (List NoteSeq) :=
  splitWith R preserve s (hopLoop skip (sortByRat id hops) (sortedNotes s) [] [])

/-- `numpy.arange(h, total, h)` for float64 arguments: length `ceil((total - h) / h)` computed in
floats (`_calc_length`), element `i` = `h + i * delta` with `delta = (h + h) - h = h` (`DOUBLE_fill`) -/
def hopTimesR (R : Rat → Rat) (h total : Rat) : List Rat :=
  let len : Int := (R (R (total - h) / h)).ceil
  (List.range len.toNat).map (fun (i : Nat) => R (h + R ((i : Rat) * h)))

/-- `split_note_sequence` with a float hop size (`h = 0`: Python float division raises) -/
def splitHopR (R : Rat → Rat) (preserve : List Int) (s : NoteSeq) (h : Rat) (skip : Bool) :
    Except Err (List NoteSeq) :=
  if h = 0 then .error (.other "ZeroDivisionError")
  else splitWith R preserve s (hopLoop skip (hopTimesR R h s.totalTime) (sortedNotes s) [] [])

/-- a time signature or a tempo in the merged list of `split_note_sequence_on_time_changes` -/
inductive TC where
  | ts (e : TimeSig)
  | tp (e : Tempo)
deriving Repr, DecidableEq

def TC.time : TC → Rat
  | .ts e => e.time
  | .tp e => e.time

/-- `sorted(list(time_signatures) + list(tempos), key=time)` restricted to `time < total_time` -/
def timeChanges (s : NoteSeq) : List TC :=
  (sortByRat TC.time (s.timeSigs.map TC.ts ++ s.tempos.map TC.tp)).filter (fun e => e.time < s.totalTime)

def tcLoop (skip : Bool) : List TC → Int → Int → Rat → List Note → List Note → Rat → List Rat → List Rat
  | [], _, _, _, _, _, _, vs => vs
  | e :: es, num, den, qpm, rem, cr, last, vs =>
    let same := match e with
      | .ts x => x.num == num && x.den == den
      | .tp x => x.qpm == qpm
    if same then tcLoop skip es num den qpm rem cr last vs
    else
      let rc := crossStep e.time rem cr
      let cr' := rc.2.filter (fun n => n.end_ > e.time)
      let ok := decide (e.time > last) && !(skip && !cr'.isEmpty)
      let last' := if ok then e.time else last
      let vs' := if ok then vs ++ [e.time] else vs
      match e with
      | .ts x => tcLoop skip es x.num x.den qpm rc.1 cr' last' vs'
      | .tp x => tcLoop skip es num den x.qpm rc.1 cr' last' vs'

/-- `split_note_sequence_on_time_changes` -/
def splitTimeChangesR (R : Rat → Rat) (preserve : List Int) (defaultQpm : Rat) (s : NoteSeq) (skip : Bool) :
    Except Err (List NoteSeq) :=
  splitWith R preserve s (tcLoop skip (timeChanges s) 4 4 defaultQpm (sortedNotes s) [] 0 [])

def silLoop (R : Rat → Rat) (gap : Rat) : List Note → Rat → List Rat → List Rat
  | [], _, vs => vs
  | n :: ns, lastActive, vs =>
    silLoop R gap ns (max lastActive n.end_)
      (if n.start > R (lastActive + gap) then vs ++ [n.start] else vs)

/-- `split_note_sequence_on_silence` -/
def splitSilenceR (R : Rat → Rat) (preserve : List Int) (s : NoteSeq) (gap : Rat) :
    Except Err (List NoteSeq) :=
  splitWith R preserve s (silLoop R gap (sortedNotes s) 0 [])

/-! ## executable instances (float64) -/
def extractSubsequences := extractSubsequencesR rne53 Gen.PRESERVE
def extractSubsequence := extractSubsequenceR rne53 Gen.PRESERVE
def splitHopList := splitHopListR rne53 Gen.PRESERVE
def splitHop := splitHopR rne53 Gen.PRESERVE
def splitTimeChanges := splitTimeChangesR rne53 Gen.PRESERVE Gen.DEFAULT_QPM
def splitSilence := splitSilenceR rne53 Gen.PRESERVE

end NSV.C02
