/-! C15 — types shared by the generated tables (`Generated/C15.lean`) and the model
(`Model/C15.lean`).  Core Lean only.

A scale-degree *name* of `chord_symbols_lib` (`'b3'`, `'#11'`, `'bb7'`, `'13'`) is carried in the
parsed form `(number, alteration)` that `_parse_degree` gives; the generator checks, for every
name occurring in `_SCALE_DEGREES` and `_CHORD_KINDS`, that printing the pair gives the name
back, so equality of names is equality of pairs. -/
namespace NSV.C15

/-- a scale-degree name: `'bb7'` is `⟨7, -2⟩`, `'#11'` is `⟨11, 1⟩` -/
structure Deg where
  num : Nat
  alter : Int
deriving DecidableEq, Repr

/-- one entry of `_CHORD_KINDS`: `abbrev0` is the position of `chord_abbrevs[0]` in
`_CHORD_KINDS_BY_ABBREV` (dict order) -/
structure Kind where
  abbrev0 : Nat
  degrees : List Deg
deriving DecidableEq, Repr

/-- the three modification functions `_add_scale_degree`, `_subtract_scale_degree`,
`_alter_scale_degree` -/
inductive Op | add | sub | alt
deriving DecidableEq, Repr

/-- syntactic class of a modification prefix: `add…`, `no`, or a bare accidental -/
inductive PKind | add | no | alt
deriving DecidableEq, Repr

/-- a key of `_DEGREE_MODIFICATIONS` in structured form: `'add#'` is `⟨add, 1⟩`, `'b'` is
`⟨alt, -1⟩`, `'no'` is `⟨no, 0⟩`; the value is the function tag and its alteration -/
structure ModEntry where
  pk : PKind
  sign : Int
  op : Op
  alter : Int
deriving DecidableEq, Repr

/-- one scale-degree modification of a figure, as the modification regex splits it:
prefix `(pk, sign)` and the decimal degree -/
structure Mod where
  pk : PKind
  sign : Int
  degree : Nat
deriving DecidableEq, Repr

/-- a chord symbol after the regex split: root spelling (letter `A..G` as `0..6`, alteration =
number of sharps, negative for flats), kind (position in `_CHORD_KINDS_BY_ABBREV`),
modifications, optional bass spelling -/
structure Symbol where
  rootStep : Nat
  rootAlter : Int
  kind : Nat
  mods : List Mod
  bass : Option (Nat × Int)
deriving DecidableEq, Repr

/-- exceptions the modelled Python can raise -/
inductive Err
  | chordSymbolError | keyError | indexError | assertionError
  /-- `_transpose_pitch_class`'s `while` would not terminate (a zero in `_STEPS_ABOVE`) -/
  | nonTermination
deriving DecidableEq, Repr

end NSV.C15
