import NoteSeqVerif.Model.NoteSeq
/-! # C11 (b) — well-formedness and "nothing invented", as predicates on the shared NoteSequence model
(core Lean only).  The theorems `wf_<op>` / `no_invention_<op>` are in `Props/C11_<family>.lean`; they are
about the functional models owned by C01 / C02 / C10 / C13 / C14 (imported read-only). -/
namespace NSV.C11

/-- no event of any of the seven timed containers is before time zero -/
structure EventsNonneg (s : NoteSeq) : Prop where
  tempos : ∀ e ∈ s.tempos, 0 ≤ e.time
  timeSigs : ∀ e ∈ s.timeSigs, 0 ≤ e.time
  keySigs : ∀ e ∈ s.keySigs, 0 ≤ e.time
  texts : ∀ e ∈ s.texts, 0 ≤ e.time
  ccs : ∀ e ∈ s.ccs, 0 ≤ e.time
  bends : ∀ e ∈ s.bends, 0 ≤ e.time
  sectionAnns : ∀ e ∈ s.sectionAnns, 0 ≤ e.time

/-- the property's well-formedness: `0 ≤ start ≤ end ≤ total_time` for every note, no negative event time -/
structure WF (s : NoteSeq) : Prop where
  notes : ∀ n ∈ s.notes, 0 ≤ n.start ∧ n.start ≤ n.end_ ∧ n.end_ ≤ s.totalTime
  total : 0 ≤ s.totalTime
  events : EventsNonneg s

/-- well-formedness of the quantized fields: `0 ≤ qs < qe ≤ total_quantized_steps`, no negative step -/
structure WFQ (s : NoteSeq) : Prop where
  notes : ∀ n ∈ s.notes, 0 ≤ n.qs ∧ n.qs < n.qe ∧ n.qe ≤ s.totalQSteps
  ccs : ∀ e ∈ s.ccs, 0 ≤ e.qstep
  texts : ∀ e ∈ s.texts, 0 ≤ e.qstep

/-- `n` is the input note `m` as far as identity goes: same tag (`voice`, which the harness makes unique)
and same values of every attribute that no time / pitch operation touches -/
def SameNote (m n : Note) : Prop :=
  n.voice = m.voice ∧ n.velocity = m.velocity ∧ n.instrument = m.instrument ∧ n.program = m.program ∧
    n.isDrum = m.isDrum ∧ n.part = m.part ∧ n.numerator = m.numerator ∧ n.denominator = m.denominator

/-- every note of `out` is an input note (no note has been invented) -/
def NoInvention (inp out : List Note) : Prop := ∀ n ∈ out, ∃ m ∈ inp, SameNote m n

/-- … and no input note occurs more often in the result than in the input
(`out` is, up to the attributes an operation may change, a sub-multiset of `inp`) -/
def NoDuplication (inp out : List Note) : Prop :=
  ∀ t : Int, (out.filter (fun n => n.voice = t)).length ≤ (inp.filter (fun n => n.voice = t)).length

theorem SameNote.refl (n : Note) : SameNote n n := ⟨rfl, rfl, rfl, rfl, rfl, rfl, rfl, rfl⟩

theorem SameNote.trans {a b c : Note} (h1 : SameNote a b) (h2 : SameNote b c) : SameNote a c := by
  obtain ⟨a1, a2, a3, a4, a5, a6, a7, a8⟩ := h1
  obtain ⟨b1, b2, b3, b4, b5, b6, b7, b8⟩ := h2
  exact ⟨b1.trans a1, b2.trans a2, b3.trans a3, b4.trans a4, b5.trans a5, b6.trans a6, b7.trans a7, b8.trans a8⟩

/-- a per-note map that keeps identity, applied to the whole list, invents and duplicates nothing -/
theorem NoInvention.map (f : Note → Note) (hf : ∀ n, SameNote n (f n)) (l : List Note) :
    NoInvention l (l.map f) := by
  intro n hn
  obtain ⟨m, hm, rfl⟩ := List.mem_map.mp hn
  exact ⟨m, hm, hf m⟩

theorem NoDuplication.map (f : Note → Note) (hf : ∀ n, (f n).voice = n.voice) (l : List Note) :
    NoDuplication l (l.map f) := by
  intro t
  induction l with
  | nil => simp
  | cons a l ih =>
    simp only [List.map_cons, List.filter_cons, hf a]
    split
    · simp only [List.length_cons]; omega
    · exact ih

theorem NoInvention.of_sublist {inp mid out : List Note} (h : NoInvention inp mid) (hs : out.Sublist mid) :
    NoInvention inp out := fun n hn => h n (hs.subset hn)

theorem NoDuplication.of_sublist {inp mid out : List Note} (h : NoDuplication inp mid) (hs : out.Sublist mid) :
    NoDuplication inp out := by
  intro t
  exact Nat.le_trans (List.Sublist.length_le (hs.filter _)) (h t)

theorem NoDuplication.of_perm {inp mid out : List Note} (h : NoDuplication inp mid) (hp : out.Perm mid) :
    NoDuplication inp out := by
  intro t
  rw [(hp.filter _).length_eq]
  exact h t

theorem NoInvention.of_perm {inp mid out : List Note} (h : NoInvention inp mid) (hp : out.Perm mid) :
    NoInvention inp out := fun n hn => h n (hp.subset hn)

end NSV.C11
