import NoteSeqVerif.Model.NoteSeq
import NoteSeqVerif.Generated.C13
/-! C13 — shift, stretch, remove-redundant, concatenate, merge, repeat, time maps, beat
rectification and section-group expansion (`note_seq/sequences_lib.py`).

Conventions (DESIGN 2.3): every Python float is its exact rational value; `R` is the rounding
operator applied after every float operation, in the Python's operation order
(driver: `R := rne53`; exact-arithmetic theorems: `R := id`).  Errors are `Except Err` values.

The *names of the event containers* each operation iterates over (`Gen.shiftEventFields`,
`Gen.stretchEventFields`, `Gen.adjustEventFields`) are regenerated from the source on every
run, so a container dropped from (or added to) one of the loops changes this model, and the
theorems that say "all seven event kinds move" are re-checked against what the code says now.

Modelled, not verified (trusted base): protobuf `CopyFrom`/`deepcopy` (a value copy),
`MergeFrom` (`mergeFrom` below: repeated fields appended, scalars overwritten when the source
value is non-default, `oneof` overwritten by the set member, sub-messages merged), the in-place
stable `sort` of a repeated field, protobuf `==`, `np.interp`'s inner formula
(`interpR`, transcribed from numpy's `arr_interp`/`binary_search_with_guess`), `np.arange`,
`math.ceil`. The merge of all *unmodelled* metadata fields is the parameter `mm`. -/
namespace NSV.C13

/-! ### sequences with the two de-duplicated metadata lists made explicit -/

/-- a NoteSequence plus `sequence_metadata.composers` / `.genre` (hex tokens); `ns.metaTag` is the
digest of every other unmodelled field -/
structure MSeq where
  ns : NoteSeq := {}
  composers : List String := []
  genres : List String := []
deriving Repr, DecidableEq, Inhabited

/-! ### per-container time maps -/

def mapNotes (g : Rat → Rat) (l : List Note) : List Note :=
  l.map fun n => { n with start := g n.start, end_ := g n.end_ }

/-- apply `g` to the `time` of every event of the containers named in `sel` -/
def mapEv (sel : List String) (g : Rat → Rat) (s : NoteSeq) : NoteSeq :=
  { s with
    timeSigs := if sel.contains "time_signatures" then s.timeSigs.map (fun e => { e with time := g e.time }) else s.timeSigs
    keySigs := if sel.contains "key_signatures" then s.keySigs.map (fun e => { e with time := g e.time }) else s.keySigs
    tempos := if sel.contains "tempos" then s.tempos.map (fun e => { e with time := g e.time }) else s.tempos
    bends := if sel.contains "pitch_bends" then s.bends.map (fun e => { e with time := g e.time }) else s.bends
    ccs := if sel.contains "control_changes" then s.ccs.map (fun e => { e with time := g e.time }) else s.ccs
    texts := if sel.contains "text_annotations" then s.texts.map (fun e => { e with time := g e.time }) else s.texts
    sectionAnns := if sel.contains "section_annotations" then s.sectionAnns.map (fun e => { e with time := g e.time }) else s.sectionAnns }

/-- the times of one container, by protobuf field name -/
def kindTimes (s : NoteSeq) (k : String) : List Rat :=
  if k = "time_signatures" then s.timeSigs.map (·.time)
  else if k = "key_signatures" then s.keySigs.map (·.time)
  else if k = "tempos" then s.tempos.map (·.time)
  else if k = "pitch_bends" then s.bends.map (·.time)
  else if k = "control_changes" then s.ccs.map (·.time)
  else if k = "text_annotations" then s.texts.map (·.time)
  else if k = "section_annotations" then s.sectionAnns.map (·.time)
  else []

/-- `itertools.chain(*containers)`: the event times in iteration order -/
def chainTimes (sel : List String) (s : NoteSeq) : List Rat := sel.flatMap (kindTimes s)

/-- the seven event containers of a NoteSequence that carry a `time` -/
def allEventKinds : List String :=
  ["time_signatures", "key_signatures", "tempos", "pitch_bends", "control_changes",
   "text_annotations", "section_annotations"]

/-! ### shift_sequence_times -/

def shiftR (R : Rat → Rat) (d : Rat) (s : NoteSeq) : Except Err NoteSeq :=
  if d ≤ 0 then .error .valueError
  else if s.isQuantized then .error .quantizationStatusError
  else
    let g := fun t => R (t + d)
    let s1 := { s with hasSub := false, subStart := 0, subEnd := 0 }   -- ClearField('subsequence_info')
    let s2 := { s1 with notes := mapNotes g s1.notes }
    let s3 := mapEv Gen.shiftEventFields g s2
    .ok { s3 with totalTime := g s3.totalTime }

/-! ### stretch_note_sequence (in_place = False) -/

def stretchR (R : Rat → Rat) (f : Rat) (s : NoteSeq) : Except Err NoteSeq :=
  if s.isQuantized then .error .quantizationStatusError
  else if f = 1 then .ok s
  else
    let g := fun t => R (t * f)
    let s1 := { s with notes := mapNotes g s.notes, totalTime := g s.totalTime }
    let s2 := mapEv Gen.stretchEventFields g s1
    -- `tempo.qpm /= stretch_factor`: Python float division by 0.0 raises
    if f = 0 ∧ ¬ s2.tempos.isEmpty then .error (.other "ZeroDivisionError")
    else .ok { s2 with tempos := s2.tempos.map fun t => { t with qpm := R (t.qpm / f) } }

/-! ### remove_redundant_data -/

/-- the deletion loop `for i in range(len-1, 0, -1): if events[i] ≈ events[i-1]: del events[i]`.
Deleting index `i` never touches an index `< i`, so element `i` is always compared with its
predecessor in the *sorted list before any deletion*; read front to back: -/
def dropAux {α} (same : α → α → Bool) (prev : α) : List α → List α
  | [] => []
  | b :: l => if same prev b then dropAux same b l else b :: dropAux same b l

def dropRepeats {α} (same : α → α → Bool) : List α → List α
  | [] => []
  | a :: l => a :: dropAux same a l

/-- order-preserving de-duplication with a `seen` set (composers, genres) -/
def dedupGo (seen : List String) : List String → List String
  | [] => []
  | x :: r => if seen.contains x then dedupGo seen r else x :: dedupGo (x :: seen) r

def dedup (l : List String) : List String := dedupGo [] l

def sameTimeSig (a b : TimeSig) : Bool := a.num == b.num && a.den == b.den
def sameKeySig (a b : KeySig) : Bool := a.key == b.key && a.mode == b.mode
def sameTempo (a b : Tempo) : Bool := a.qpm == b.qpm

def redTimeSigs (l : List TimeSig) : List TimeSig := dropRepeats sameTimeSig (sortByRat (·.time) l)
def redKeySigs (l : List KeySig) : List KeySig := dropRepeats sameKeySig (sortByRat (·.time) l)
def redTempos (l : List Tempo) : List Tempo := dropRepeats sameTempo (sortByRat (·.time) l)

def removeRedundant (m : MSeq) : MSeq :=
  { ns := { m.ns with timeSigs := redTimeSigs m.ns.timeSigs, keySigs := redKeySigs m.ns.keySigs,
                      tempos := redTempos m.ns.tempos }
    composers := dedup m.composers
    genres := dedup m.genres }

/-! ### protobuf MergeFrom on the modelled fields -/

def mergeFrom (a b : NoteSeq) : NoteSeq :=
  { notes := a.notes ++ b.notes
    tempos := a.tempos ++ b.tempos
    timeSigs := a.timeSigs ++ b.timeSigs
    keySigs := a.keySigs ++ b.keySigs
    texts := a.texts ++ b.texts
    ccs := a.ccs ++ b.ccs
    bends := a.bends ++ b.bends
    sectionAnns := a.sectionAnns ++ b.sectionAnns
    sgroups := a.sgroups ++ b.sgroups
    totalTime := if b.totalTime ≠ 0 then b.totalTime else a.totalTime
    totalQSteps := if b.totalQSteps ≠ 0 then b.totalQSteps else a.totalQSteps
    -- oneof `resolution`: the member set in the source replaces whatever the target had
    spq := if b.spq ≠ 0 then b.spq else if b.sps ≠ 0 then 0 else a.spq
    sps := if b.spq ≠ 0 then 0 else if b.sps ≠ 0 then b.sps else a.sps
    hasSub := a.hasSub || b.hasSub
    subStart := if b.subStart ≠ 0 then b.subStart else a.subStart
    subEnd := if b.subEnd ≠ 0 then b.subEnd else a.subEnd
    tpq := if b.tpq ≠ 0 then b.tpq else a.tpq
    metaTag := a.metaTag }     -- unmodelled fields: see the parameter `mm` of `finishCat`

def mergeFromM (a b : MSeq) : MSeq :=
  { ns := mergeFrom a.ns b.ns, composers := a.composers ++ b.composers, genres := a.genres ++ b.genres }

/-- the empty message `music_pb2.NoteSequence()` -/
def emptyM : MSeq := { ns := { metaTag := "-" } }

def shiftM (R : Rat → Rat) (d : Rat) (m : MSeq) : Except Err MSeq :=
  match shiftR R d m.ns with
  | .ok s => .ok { m with ns := s }
  | .error e => .error e

/-- `ClearField('subsequence_info')`, `remove_redundant_data`, and the merged unmodelled metadata -/
def finishCat (mm : List String → String) (seqs : List MSeq) (cat : MSeq) : MSeq :=
  removeRedundant { cat with ns := { cat.ns with hasSub := false, subStart := 0, subEnd := 0,
                                                 metaTag := mm (seqs.map (·.ns.metaTag)) } }

/-! ### concatenate_sequences -/

/-- the loop body over `(sequence, duration)`; `useD` = `bool(sequence_durations)` -/
def catLoop (R : Rat → Rat) (useD : Bool) : Rat → MSeq → List (MSeq × Rat) → Except Err MSeq
  | _, cat, [] => .ok cat
  | cur, cat, (s, d) :: rest =>
    if useD ∧ d < s.ns.totalTime then .error .valueError
    else
      match (if 0 < cur then shiftM R cur s else .ok s) with
      | .error e => .error e
      | .ok sh =>
        let cat' := mergeFromM cat sh
        catLoop R useD (if useD then R (cur + d) else cat'.ns.totalTime) cat' rest

/-- `durs = []` stands for `sequence_durations` being `None` or empty (both falsy in Python) -/
def concatR (R : Rat → Rat) (mm : List String → String) (seqs : List MSeq) (durs : List Rat) :
    Except Err MSeq :=
  let useD := !durs.isEmpty
  if useD ∧ seqs.length ≠ durs.length then .error .valueError
  else
    let pairs := if useD then seqs.zip durs else seqs.map (fun s => (s, (0 : Rat)))
    match catLoop R useD 0 emptyM pairs with
    | .error e => .error e
    | .ok cat => .ok (finishCat mm seqs cat)

/-! ### merge_sequences -/

/-- Python `max(iterable)` over floats, started at the first element (exact comparison, no rounding) -/
def ratMax (a : Rat) (l : List Rat) : Rat := l.foldl (fun acc x => if acc < x then x else acc) a

/-- after the `MergeFrom` loop: `if sequences: cat_seq.total_time = max(seq.total_time for seq in sequences)` -/
def mergeR (mm : List String → String) (seqs : List MSeq) : MSeq :=
  let cat := seqs.foldl mergeFromM emptyM
  let cat' : MSeq := match seqs with
    | [] => cat
    | s :: r => { cat with ns := { cat.ns with totalTime := ratMax s.ns.totalTime (r.map (·.ns.totalTime)) } }
  finishCat mm seqs cat'

/-! ### adjust_notesequence_times -/

/-- the note loop (storage order). `md = 0` stands for a falsy `minimum_duration` (None or 0).
State: running `total_time`, `skipped_notes`. -/
def adjNotes (f : Rat → Rat) (R : Rat → Rat) (md : Rat) :
    List Note → Rat → Nat → Except Err (List Note × Rat × Nat)
  | [], tot, sk => .ok ([], tot, sk)
  | n :: ns, tot, sk =>
    let st := f n.start
    let en0 := f n.end_
    if st = en0 ∧ md = 0 then adjNotes f R md ns tot (sk + 1)
    else
      let en := if st = en0 then R (en0 + md) else en0
      if en < st then .error .invalidTimeAdjustmentError
      else if st < 0 then .error .invalidTimeAdjustmentError
      else if en < 0 then .error .invalidTimeAdjustmentError
      else
        match adjNotes f R md ns (if tot < en then en else tot) sk with
        | .ok (r, t, k) => .ok ({ n with start := st, end_ := en } :: r, t, k)
        | .error e => .error e

def adjustR (f : Rat → Rat) (R : Rat → Rat) (md : Rat) (s : NoteSeq) : Except Err (NoteSeq × Nat) :=
  match adjNotes f R md s.notes 0 0 with
  | .error e => .error e
  | .ok (notes, tot, sk) =>
    let s1 := { s with notes := notes, totalTime := tot }
    -- the event loop raises at the first event (chain order) mapped before zero
    if (chainTimes Gen.adjustEventFields s1).any (fun t => f t < 0) then .error .invalidTimeAdjustmentError
    else .ok ({ mapEv Gen.adjustEventFields f s1 with tempos := [] }, sk)

/-! ### np.interp (scalar x, float64), transcribed -/

/-- precondition of the call: `p.1 ≤ x`.  Walks to the last knot `≤ x` (what numpy's binary search
returns on a sorted `xp`).  In the interpolation branch `p.1 < x < q.1`, so the divisor
`q.1 - p.1` is positive (`interp_divisor_pos`). -/
def interpGo (R : Rat → Rat) : Rat × Rat → List (Rat × Rat) → Rat → Rat
  | p, [], _ => p.2
  | p, q :: rest, x =>
    if q.1 ≤ x then interpGo R q rest x
    else if p.1 = x then p.2
    else
      let slope := R (R (q.2 - p.2) / R (q.1 - p.1))
      R (R (slope * R (x - p.1)) + p.2)

def lastX : Rat × Rat → List (Rat × Rat) → Rat
  | p, [] => p.1
  | _, q :: rest => lastX q rest

/-- `np.interp(x, xp, fp, left, right)` for non-empty knots -/
def interpR (R : Rat → Rat) (p : Rat × Rat) (rest : List (Rat × Rat)) (left right x : Rat) : Rat :=
  if lastX p rest < x then right
  else if x < p.1 then left
  else interpGo R p rest x

/-! ### rectify_beats -/

/-- `[l[i] for i if i == 0 or l[i] > l[i-1]]` (comparison with the previous *list* element) -/
def uniqGo (prev : Rat) : List Rat → List Rat
  | [] => []
  | b :: l => if prev < b then b :: uniqGo b l else uniqGo b l

def uniqBeats : List Rat → List Rat
  | [] => []
  | a :: l => a :: uniqGo a l

def beatTimes (s : NoteSeq) : List Rat :=
  (s.texts.filter (fun a => a.kind == Gen.BEAT && a.time ≤ s.totalTime)).map (·.time)

def rectTimes (R : Rat → Rat) (spb : Rat) (n : Nat) : List Rat :=
  (List.range n).map (fun (k : Nat) => R (spb * ((k : Int) : Rat)))

/-- result: rectified sequence and the alignment rows `(original beat, rectified beat)` -/
def rectifyR (R : Rat → Rat) (bpm : Rat) (s : NoteSeq) : Except Err (NoteSeq × List (Rat × Rat)) :=
  if s.isQuantized then .error .quantizationStatusError
  else
    let beats := beatTimes s
    if beats.isEmpty then .error .rectifyBeatsError
    else
      let uniq := uniqBeats ([0] ++ sortByRat id beats ++ [s.totalTime])
      if bpm = 0 then .error (.other "ZeroDivisionError")     -- `60.0 / beats_per_minute`
      else
        let spb := R (60 / bpm)
        let knots := uniq.zip (rectTimes R spb uniq.length)
        match knots with
        | [] => .error (.other "unreachable-empty-knots")      -- `uniq` always starts with 0.0
        | p :: rest =>
          match adjustR (interpR R p rest 0 s.totalTime) R 0 s with
          | .error e => .error e
          | .ok (r, _) => .ok ({ r with timeSigs := [], tempos := r.tempos ++ [⟨0, bpm⟩] }, knots)

/-! ### section groups -/

inductive Sec where
  | id (i : Int)
  | group (secs : List Sec) (times : Int)
deriving Repr, Inhabited

/-- Python `lst * k` -/
def repeatList {α} (l : List α) (k : Int) : List α := (List.replicate k.toNat l).flatten

mutual
/-- `sections_in_group` -/
def Sec.flat : Sec → List Int
  | .id i => [i]
  | .group ss k => repeatList (flatList ss) k
def flatList : List Sec → List Int
  | [] => []
  | s :: r => s.flat ++ flatList r
end

/-- decimal tokens, parsed on `List Char` (kernel-reducible, unlike `String.toInt?`) -/
def natOfChars : List Char → Option Nat
  | [] => none
  | cs => cs.foldl (fun acc c => match acc with
      | none => none
      | some n => if '0' ≤ c ∧ c ≤ '9' then some (10 * n + (c.toNat - 48)) else none) (some 0)

def intOfTok (s : String) : Option Int :=
  match s.toList with
  | '-' :: r => (natOfChars r).map (fun n => -(n : Int))
  | r => (natOfChars r).map (fun n => (n : Int))

def natOfTok (s : String) : Option Nat := natOfChars s.toList

mutual
/-- wire tokens `S id` | `G n sec*n num_times`; every call spends one unit of `fuel`
(structural recursion; `2 * tokens + 2` units always suffice) -/
def pSec : Nat → List String → Option (Sec × List String)
  | 0, _ => none
  | fuel + 1, toks =>
    match toks with
    | "S" :: i :: rest => (intOfTok i).map (fun i => (Sec.id i, rest))
    | "G" :: n :: rest =>
      match natOfTok n with
      | none => none
      | some n =>
        match pSecs fuel n rest with
        | some (ss, k :: rest') => (intOfTok k).map (fun k => (Sec.group ss k, rest'))
        | _ => none
    | _ => none
termination_by structural fuel => fuel
def pSecs : Nat → Nat → List String → Option (List Sec × List String)
  | 0, _, _ => none
  | _ + 1, 0, toks => some ([], toks)
  | fuel + 1, n + 1, toks =>
    match pSec fuel toks with
    | none => none
    | some (s, rest) =>
      match pSecs fuel n rest with
      | none => none
      | some (ss, rest') => some (s :: ss, rest')
termination_by structural fuel => fuel
end

/-- the forest `sequence.section_groups` -/
def pGroups : Nat → List String → Option (List Sec)
  | _, [] => some []
  | 0, _ :: _ => none
  | k + 1, toks =>
    match pSec (2 * toks.length + 2) toks with
    | none => none
    | some (g, rest) => (pGroups k rest).map (g :: ·)

def parseGroups (toks : List String) : Option (List Sec) := pGroups toks.length toks

/-- `(section_id, start_time, end_time)` of each annotation, storage order -/
def sectionSpans (tt : Rat) : List SectionAnn → List (Int × Rat × Rat)
  | [] => []
  | [a] => [(a.sectionId, a.time, tt)]
  | a :: b :: r => (a.sectionId, a.time, b.time) :: sectionSpans tt (b :: r)

/-- the dict-building loop; newest entry first, so `lookup` sees the last assignment -/
def buildSections (R : Rat → Rat) (extract : NoteSeq → Rat → Rat → Except Err NoteSeq) (m : MSeq) :
    List (Int × Rat × Rat) → List (Int × MSeq × Rat) → Except Err (List (Int × MSeq × Rat))
  | [], acc => .ok acc
  | (sid, st, en) :: r, acc =>
    match extract m.ns st en with
    | .error e => .error e
    | .ok sub =>
      let sub' := { sub with sgroups := [], sectionAnns := [⟨0, sid⟩] }
      buildSections R extract m r ((sid, { m with ns := sub' }, R (en - st)) :: acc)

def lookupSections (tab : List (Int × MSeq × Rat)) : List Int → Except Err (List (MSeq × Rat))
  | [] => .ok []
  | i :: r =>
    match tab.find? (fun e => e.1 == i) with
    | none => .error (.other "KeyError")
    | some e =>
      match lookupSections tab r with
      | .error e' => .error e'
      | .ok l => .ok (e.2 :: l)

/-- `expand_section_groups`, parametric in `extract_subsequence` (property C02) -/
def expandR (R : Rat → Rat) (extract : NoteSeq → Rat → Rat → Except Err NoteSeq)
    (mm : List String → String) (m : MSeq) : Except Err MSeq :=
  match parseGroups m.ns.sgroups with
  | none => .error (.other "malformed-section-group-tokens")
  | some [] => .ok m
  | some groups =>
    match buildSections R extract m (sectionSpans m.ns.totalTime m.ns.sectionAnns) [] with
    | .error e => .error e
    | .ok tab =>
      match lookupSections tab (groups.flatMap Sec.flat) with
      | .error e => .error e
      | .ok l => concatR R mm (l.map (·.1)) (l.map (·.2))

/-! ### repeat_sequence_to_duration -/

/-- everything up to the call of `extract_subsequence`: the repeated sequence and the cut
`(start_time, end_time)`.  `sd = 0` stands for a falsy `sequence_duration`. -/
def repeatConcatR (R : Rat → Rat) (mm : List String → String) (m : MSeq) (dur sd : Rat) :
    Except Err (MSeq × Rat × Rat) :=
  let d := if sd = 0 then m.ns.totalTime else sd
  if d = 0 then .error (.other "ZeroDivisionError")
  else
    let n := (R (dur / d)).ceil.toNat       -- `[sequence] * int(math.ceil(duration / d))`
    match concatR R mm (List.replicate n m) (List.replicate n d) with
    | .error e => .error e
    | .ok r => .ok (r, 0, dur)

/-- the whole function, parametric in `extract_subsequence` (property C02) -/
def repeatR (R : Rat → Rat) (extract : NoteSeq → Rat → Rat → Except Err NoteSeq)
    (mm : List String → String) (m : MSeq) (dur sd : Rat) : Except Err MSeq :=
  match repeatConcatR R mm m dur sd with
  | .error e => .error e
  | .ok (r, a, b) =>
    match extract r.ns a b with
    | .error e => .error e
    | .ok t => .ok { r with ns := { t with hasSub := false, subStart := 0, subEnd := 0 } }

end NSV.C13
