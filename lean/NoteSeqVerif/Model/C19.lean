import NoteSeqVerif.Generated.C19
/-! C19 — chord and melody inference (executable model; core Lean only).

`chord_inference._key_chord_viterbi` and `melody_inference._melody_viterbi` are the same Viterbi
recursion over two table layouts.  The model is generic over the score type `S` (only `<` is
used, to take the *first* maximum as `numpy.argmax` does) and over the score combination `add`
(IEEE `+` in the Python; nothing but left-monotonicity is needed for the theorems).  The score of
a path is defined with exactly the association order of the code:
`((init ⊕ trans) ⊕ emit) ⊕ trans) ⊕ emit …`.

* `fwd / bp / backRev / viterbiRev` : the recursion as equations (specification);
* `fwdExec / backExec / viterbiExec` : the same computation with the rows stored in arrays, as the
  Python stores `loglik_matrix` / `path_matrix` (proved equal to the specification in `Props`);
* `kcTables`, `melTables` : the two layouts; `kcDecode`, `melDecode` : index → state;
* `changesFrom`, `chordWriter`, `melWriter` : what `infer_chords_for_sequence` /
  `infer_melody_for_sequence` write for a given path;
* `noteFrames` : `sequence_note_frames`;
* `numIn / numOut / chordVec / rotChord` : the combinatorial content of `_key_chord_distribution`
  and `_chord_pitch_vectors` over the tables regenerated from the source. -/
namespace NSV.C19

/-! ## Generic Viterbi -/
section Generic
variable {S : Type} [LT S] [DecidableLT S]

/-- the scanning loop of `numpy.argmax`: `b` is the best index so far, `vb` its value; a later
index replaces it only when strictly larger (first maximum wins) -/
@[specialize] def argmaxLoop (f : Nat → S) : Nat → Nat → Nat → S → Nat
  | 0, _, b, _ => b
  | k + 1, i, b, vb =>
      let v := f i
      if vb < v then argmaxLoop f k (i + 1) i v else argmaxLoop f k (i + 1) b vb

/-- first index `< n` maximising `f` (`n = 0` is rejected by the callers: numpy raises) -/
@[specialize] def argmaxIdx (f : Nat → S) : Nat → Nat
  | 0 => 0
  | n + 1 => argmaxLoop f n 1 0 (f 0)

structure Tables (S : Type) where
  /-- number of states -/
  n : Nat
  /-- row 0 of `loglik_matrix`, as the code computes it -/
  init : Nat → S
  /-- `transition_loglik[i, j]` -/
  trans : Nat → Nat → S
  /-- emission added at frame `t ≥ 1` for state `j` -/
  emit : Nat → Nat → S

variable (add : S → S → S)

/-- `loglik_matrix[t, j]` -/
def fwd (T : Tables S) : Nat → Nat → S
  | 0 => T.init
  | t + 1 => fun j =>
      let b := argmaxIdx (fun i => add (fwd T t i) (T.trans i j)) T.n
      add (add (fwd T t b) (T.trans b j)) (T.emit (t + 1) j)

/-- `path_matrix[t + 1, j]` -/
def bp (T : Tables S) (t j : Nat) : Nat :=
  argmaxIdx (fun i => add (fwd add T t i) (T.trans i j)) T.n

/-- back-tracking from state `j` at frame `t`: last state first -/
def backRev (T : Tables S) : Nat → Nat → List Nat
  | 0, j => [j]
  | t + 1, j => j :: backRev T t (bp add T t j)

/-- the Viterbi path, last state first -/
def viterbiRev (T : Tables S) (frames : Nat) : List Nat :=
  backRev add T (frames - 1) (argmaxIdx (fwd add T (frames - 1)) T.n)

/-- the DP's final maximum `max(loglik_matrix[-1])` -/
def optimum (T : Tables S) (frames : Nat) : S :=
  fwd add T (frames - 1) (argmaxIdx (fwd add T (frames - 1)) T.n)

/-- score accumulated along the rest of a path (forward order), frame `t` onwards -/
def scoreFrom (T : Tables S) : S → Nat → Nat → List Nat → S
  | acc, _, _, [] => acc
  | acc, prev, t, j :: rest => scoreFrom T (add (add acc (T.trans prev j)) (T.emit t j)) j (t + 1) rest

/-- total score of a state path (forward order) in the code's association order -/
def score (T : Tables S) : List Nat → Option S
  | [] => none
  | j :: rest => some (scoreFrom add T (T.init j) j 1 rest)

/-- no transition and no emission on the rest of the path is `bot` (= −∞) -/
def stepsFinite (T : Tables S) (bot : S) : Nat → Nat → List Nat → Prop
  | _, _, [] => True
  | prev, t, j :: rest => T.trans prev j ≠ bot ∧ T.emit t j ≠ bot ∧ stepsFinite T bot j (t + 1) rest

/-- no term of the path's score is `bot` -/
def pathFinite (T : Tables S) (bot : S) : List Nat → Prop
  | [] => True
  | j :: rest => T.init j ≠ bot ∧ stepsFinite T bot j 1 rest

/-! ### the same computation with stored rows -/

/-- store `f 0 … f (n-1)` -/
@[inline] def tab {α : Type} (n : Nat) (f : Nat → α) : Array α := Array.ofFn (n := n) fun i => f i.val

/-- read a stored row; outside the stored range fall back on the function the row was made from
(never reached by the algorithm; makes `look (tab n f) f = f` hold without side conditions) -/
@[inline] def look {α : Type} (a : Array α) (f : Nat → α) (i : Nat) : α := if h : i < a.size then a[i] else f i

/-- forward pass: `(loglik_matrix[t], [path_matrix[t], …, path_matrix[1]])`.  The tables are
separate arguments so that the compiler specialises the loop to the concrete tables and score
type; `fb t` is the fall-back of `look` for row `t` (the recursion equations; never reached) -/
@[specialize] def fwdCore (n : Nat) (init : Nat → S) (trans : Nat → Nat → S) (emit : Nat → Nat → S)
    (fb : Nat → Nat → S) : Nat → Array S × List (Array Nat)
  | 0 => (tab n init, [])
  | t + 1 =>
      let r := fwdCore n init trans emit fb t
      let prev := look r.1 (fb t)
      let arg := fun j => argmaxIdx (fun i => add (prev i) (trans i j)) n
      let bpRow := tab n arg
      let b := look bpRow arg
      (tab n fun j => add (add (prev (b j)) (trans (b j) j)) (emit (t + 1) j), bpRow :: r.2)

@[inline] def fwdExec (T : Tables S) (t : Nat) : Array S × List (Array Nat) :=
  fwdCore add T.n T.init T.trans T.emit (fwd add T) t

/-- back-tracking through the stored `path_matrix` rows (newest first) -/
def backExec (T : Tables S) : Nat → List (Array Nat) → Nat → List Nat
  | t + 1, a :: rest, j => j :: backExec T t rest (look a (bp add T t) j)
  | _, _, j => [j]

/-- the Viterbi path in forward order and `max(loglik_matrix[-1])`, computed with stored rows -/
@[inline] def viterbiRun (T : Tables S) (frames : Nat) : List Nat × S :=
  let r := fwdExec add T (frames - 1)
  let row := look r.1 (fwd add T (frames - 1))
  let last := argmaxIdx row T.n
  ((backExec add T (frames - 1) r.2 last).reverse, row last)

def viterbiExec (T : Tables S) (frames : Nat) : List Nat := (viterbiRun add T frames).1

/-- the helper as called: zero frames → `IndexError` (row 0 is written first), no state →
`ValueError` (`argmax` of an empty sequence); otherwise the path and `max(loglik_matrix[-1])` -/
@[inline] def viterbiFull (T : Tables S) (frames : Nat) : Except String (List Nat × S) :=
  if frames = 0 then .error "IndexError"
  else if T.n = 0 then .error "ValueError"
  else .ok (viterbiRun add T frames)

/-- the returned path -/
@[inline] def viterbi (T : Tables S) (frames : Nat) : Except String (List Nat) :=
  match viterbiFull add T frames with
  | .ok r => .ok r.1
  | .error e => .error e

/-! ### the two layouts -/

/-- `_key_chord_viterbi`: state `i = key * C + chord` (`C = len(_CHORDS)`), uniform key prior,
emission depends on the chord only (`np.tile(chord_frame_loglik[frame], 12)`) -/
@[inline] def kcTables (C : Nat) (negLog12 : S) (kc fl tr : Nat → Nat → S) : Tables S where
  n := 12 * C
  init := fun i => add (add negLog12 (kc (i / C) (i % C))) (fl 0 (i % C))
  trans := tr
  emit := fun t j => fl t (j % C)

/-- `_melody_viterbi`: state 0 = rest, `1..P` onsets, `P+1..2P` sustains; the first frame follows
a rest -/
@[inline] def melTables (P : Nat) (fl tr : Nat → Nat → S) : Tables S where
  n := 2 * P + 1
  init := fun j => add (tr 0 j) (fl 0 j)
  trans := tr
  emit := fl

end Generic

/-- `(index // num_chords, index % num_chords)` -/
def kcDecode (C : Nat) (i : Nat) : Nat × Nat := (i / C, i % C)

inductive MelEvent where
  | rest
  | note (pitch : Nat) (onset : Bool)
deriving DecidableEq, Repr

/-- `index_to_event` -/
def melDecode (pitches : List Nat) (i : Nat) : Except String MelEvent :=
  if i = 0 then .ok .rest
  else if i ≤ pitches.length then
    match pitches[i - 1]? with
    | some p => .ok (.note p true)
    | none => .error "IndexError"
  else
    match pitches[i - pitches.length - 1]? with
    | some p => .ok (.note p false)
    | none => .error "IndexError"

/-! ## Scores with −∞ in exact arithmetic (integer-valued tables: float addition is exact) -/
inductive Ext where
  | ninf
  | fin (v : Int)
deriving DecidableEq, Repr

namespace Ext
def add : Ext → Ext → Ext
  | fin a, fin b => fin (a + b)
  | _, _ => ninf

def lt : Ext → Ext → Prop
  | ninf, fin _ => True
  | fin a, fin b => a < b
  | _, _ => False

def le : Ext → Ext → Prop
  | ninf, _ => True
  | fin a, fin b => a ≤ b
  | fin _, ninf => False

instance : LT Ext := ⟨lt⟩
instance : LE Ext := ⟨le⟩
instance : DecidableLT Ext := fun a b => match a, b with
  | ninf, fin _ => isTrue trivial
  | fin x, fin y => inferInstanceAs (Decidable (x < y))
  | ninf, ninf => isFalse (fun h => h)
  | fin _, ninf => isFalse (fun h => h)
instance : DecidableLE Ext := fun a b => match a, b with
  | ninf, _ => isTrue (by cases b <;> trivial)
  | fin x, fin y => inferInstanceAs (Decidable (x ≤ y))
  | fin _, ninf => isFalse (fun h => h)
end Ext

/-- `x` in front of what the rest of a loop produces (the first error wins) -/
def consOk {α : Type} (x : α) : Except String (List α) → Except String (List α)
  | .ok r => .ok (x :: r)
  | .error e => .error e

/-- a list comprehension / loop whose body may raise -/
def mapOk {α β : Type} (f : α → Except String β) : List α → Except String (List β)
  | [] => .ok []
  | a :: l => match f a with
      | .error e => .error e
      | .ok b => consOk b (mapOk f l)

/-- the melody events of a path -/
def melEvents (pitches : List Nat) (path : List Nat) : Except String (List MelEvent) :=
  mapOk (melDecode pitches) path

/-! ## Scores with −∞ in rounded arithmetic: a double is a rational or −∞, `a + b` is `R (a + b)`
(`R = rne53`: IEEE-754 binary64 round-to-nearest-even; −∞ absorbs; NaN / +∞ / overflow are outside) -/
inductive ExtQ where
  | ninf
  | fin (v : Rat)
deriving DecidableEq, Repr

namespace ExtQ
def addR (R : Rat → Rat) : ExtQ → ExtQ → ExtQ
  | fin a, fin b => fin (R (a + b))
  | _, _ => ninf

def lt : ExtQ → ExtQ → Prop
  | ninf, fin _ => True
  | fin a, fin b => a < b
  | _, _ => False

def le : ExtQ → ExtQ → Prop
  | ninf, _ => True
  | fin a, fin b => a ≤ b
  | fin _, ninf => False

instance : LT ExtQ := ⟨lt⟩
instance : LE ExtQ := ⟨le⟩
instance : DecidableLT ExtQ := fun a b => match a, b with
  | ninf, fin _ => isTrue trivial
  | fin x, fin y => inferInstanceAs (Decidable (x < y))
  | ninf, ninf => isFalse (fun h => h)
  | fin _, ninf => isFalse (fun h => h)
instance : DecidableLE ExtQ := fun a b => match a, b with
  | ninf, _ => isTrue (by cases b <;> trivial)
  | fin x, fin y => inferInstanceAs (Decidable (x ≤ y))
  | fin _, ninf => isFalse (fun h => h)
end ExtQ

/-! ## The annotation writer of `infer_chords_for_sequence` -/

/-- the `if name != current_name: emit; current_name = name` loop, from frame `t` on:
the frames at which the name changes, with the new value -/
def changesFrom {α β : Type} [DecidableEq β] (name : α → β) : Option β → Nat → List α → List (Nat × α)
  | _, _, [] => []
  | cur, t, x :: rest =>
      if some (name x) ≠ cur then (t, x) :: changesFrom name (some (name x)) (t + 1) rest
      else changesFrom name cur (t + 1) rest

/-- `R` holds between every two neighbours of the list -/
def Adjacent {α : Type} (R : α → α → Prop) : List α → Prop
  | a :: b :: l => R a b ∧ Adjacent R (b :: l)
  | _ => True

/-- where chord frames start -/
inductive Timing where
  /-- quantized relative to meter: `time = frame * seconds_per_chord` (a float product),
  `quantized_step = frame * steps_per_chord` -/
  | perChord (secondsPerChord : Rat) (stepsPerChord : Int)
  /-- beat annotations: `0.0` then the sorted unique interior beat times; steps only when the
  sequence is (absolute-)quantized -/
  | beats (times : List Rat) (steps : Option (List Int))

structure ChordAnn where
  frame : Nat
  time : Rat
  step : Option Int
  text : String
deriving DecidableEq, Repr

structure KeySig where
  frame : Nat
  time : Rat
  key : Nat
deriving DecidableEq, Repr

/-- `R` is the rounding of the float product (`rne53` in the driver) -/
def frameTime (R : Rat → Rat) : Timing → Nat → Except String Rat
  | .perChord spc _, f => .ok (R ((f : Rat) * spc))
  | .beats times _, f => if f = 0 then .ok 0 else match times[f - 1]? with
      | some t => .ok t
      | none => .error "IndexError"

def frameStep : Timing → Nat → Except String (Option Int)
  | .perChord _ spc, f => .ok (some ((f : Int) * spc))
  | .beats _ none, _ => .ok none
  | .beats _ (some steps), f => if f = 0 then .ok (some 0) else match steps[f - 1]? with
      | some s => .ok (some s)
      | none => .error "IndexError"

def figureOf (c : Nat) : Except String String :=
  match Gen.figures[c]? with
  | some s => .ok s
  | none => .error "IndexError"

def keyNameOf (k : Nat) : Except String String :=
  match Gen.pitchClassNames[k]? with
  | some s => .ok s
  | none => .error "IndexError"

/-- decode a Viterbi path into `(key, key name, figure)` per frame -/
def kcStates (C : Nat) (path : List Nat) : Except String (List (Nat × String × String)) :=
  mapOk (fun i =>
    match keyNameOf (kcDecode C i).1, figureOf (kcDecode C i).2 with
    | .ok kn, .ok fg => .ok ((kcDecode C i).1, kn, fg)
    | .error e, _ => .error e
    | _, .error e => .error e) path

/-- one `text_annotations.add()` -/
def annOf (R : Rat → Rat) (tm : Timing) (x : Nat × Nat × String × String) : Except String ChordAnn :=
  match frameTime R tm x.1, frameStep tm x.1 with
  | .ok t, .ok q => .ok ⟨x.1, t, q, x.2.2.2⟩
  | .error e, _ => .error e
  | _, .error e => .error e

/-- one `key_signatures.add()` -/
def keyOf (R : Rat → Rat) (tm : Timing) (x : Nat × Nat × String × String) : Except String KeySig :=
  match frameTime R tm x.1 with
  | .ok t => .ok ⟨x.1, t, x.2.1⟩
  | .error e => .error e

/-- the chord-symbol annotations and (when requested) key signatures added for a path of
`(key, key name, figure)` states -/
def chordWriter (R : Rat → Rat) (tm : Timing) (addKeys : Bool) (states : List (Nat × String × String)) :
    Except String (List ChordAnn × List KeySig) :=
  match mapOk (annOf R tm) (changesFrom (fun s : Nat × String × String => s.2.2) none 0 states),
    (if addKeys then mapOk (keyOf R tm) (changesFrom (fun s : Nat × String × String => s.2.1) none 0 states)
     else .ok []) with
  | .ok a, .ok k => .ok (a, k)
  | .error e, _ => .error e
  | _, .error e => .error e

/-! ## The note writer of `infer_melody_for_sequence` -/

structure MelNote (τ : Type) where
  start : τ
  stop : τ
  pitch : Nat
deriving DecidableEq, Repr

/-- the loop over `zip(melody_events, [0.0] + event_times)`; `cur = (note_pitch, note_start_time)` -/
def melWriter {τ : Type} (total : τ) : Option (Nat × τ) → List (MelEvent × τ) → Except String (List (MelNote τ))
  | none, [] => .ok []
  | some (p, s), [] => .ok [⟨s, total, p⟩]
  | none, (.rest, _) :: rest => melWriter total none rest
  | some (p, s), (.rest, time) :: rest => consOk ⟨s, time, p⟩ (melWriter total none rest)
  | none, (.note q true, time) :: rest => melWriter total (some (q, time)) rest
  | some (p, s), (.note q true, time) :: rest =>
      consOk ⟨s, time, p⟩ (melWriter total (some (q, time)) rest)
  | none, (.note _ false, _) :: _ => .error "AssertionError"
  | some (p, s), (.note q false, _) :: rest =>
      if q = p then melWriter total (some (p, s)) rest else .error "AssertionError"

/-- a sustain event continues the note that is sounding -/
def evLegal : Option Nat → List MelEvent → Prop
  | _, [] => True
  | _, .rest :: r => evLegal none r
  | _, .note q true :: r => evLegal (some q) r
  | cur, .note q false :: r => cur = some q ∧ evLegal cur r

/-- into a sustain state (`j > P`) only from the onset or the sustain state of the same pitch -/
def melLegalStep (P i j : Nat) : Prop := j ≤ P ∨ i = j ∨ i + P = j

/-- `melody_instrument`: one more than the largest instrument, skipping the drum channel -/
def melodyInstrument (instruments : List Int) : Int :=
  match instruments with
  | [] => 0
  | i :: rest =>
      let m := rest.foldl max i + 1
      if m = 9 then 10 else m

/-! ## `sequence_note_frames` -/

structure FNote where
  pitch : Nat
  start : Rat
  stop : Rat
  isDrum : Bool
  program : Nat
deriving DecidableEq, Repr

/-- insert into a sorted duplicate-free list (`sorted(set(..))`) -/
def insertSorted {α : Type} [DecidableEq α] (lt : α → α → Bool) (x : α) : List α → List α
  | [] => [x]
  | y :: ys => if lt x y then x :: y :: ys else if x = y then y :: ys else y :: insertSorted lt x ys

def sortedSet {α : Type} [DecidableEq α] (lt : α → α → Bool) (l : List α) : List α :=
  l.foldr (insertSorted lt) []

/-- lexicographic order on `(frame, pitch index)` -/
def pairLt (a b : Nat × Nat) : Bool := a.1 < b.1 || (a.1 == b.1 && a.2 < b.2)

/-- `bisect.bisect_right(ts, x)` on a sorted list -/
def bisectRight (ts : List Rat) (x : Rat) : Nat := (ts.takeWhile (fun t => decide (t ≤ x))).length
/-- `bisect.bisect_left(ts, x)` on a sorted list -/
def bisectLeft (ts : List Rat) (x : Rat) : Nat := (ts.takeWhile (fun t => decide (t < x))).length

structure Frames where
  pitches : List Nat
  eventTimes : List Rat
  /-- `(frame, pitch index)` pairs set in `has_onsets`, sorted -/
  onsets : List (Nat × Nat)
  /-- `(frame, pitch index)` pairs set in `has_notes`, sorted -/
  present : List (Nat × Nat)
deriving DecidableEq, Repr

/-- `sequence_note_frames` -/
def noteFrames (allNotes : List FNote) (total : Rat) : Frames :=
  let notes := allNotes.filter fun n => !n.isDrum && !Gen.unpitchedPrograms.contains n.program
  let ev := sortedSet (fun a b => decide (a < b)) ((notes.map (·.start) ++ notes.map (·.stop)).filter fun t => t ≠ 0 ∧ t ≠ total)
  let pitches := sortedSet (fun a b => decide (a < b)) (notes.map (·.pitch))
  let idx := fun p => (pitches.takeWhile (· < p)).length
  let ons := notes.map fun n => (bisectRight ev n.start, idx n.pitch)
  let pres := notes.flatMap fun n =>
    let s := bisectRight ev n.start
    let e := bisectLeft ev n.stop
    (List.range (e + 1 - s)).map fun d => (s + d, idx n.pitch)
  ⟨pitches, ev, sortedSet pairLt ons, sortedSet pairLt pres⟩

/-! ## Combinatorics of `_key_chord_distribution` / `_chord_pitch_vectors` -/

/-- pitch classes of entry `c` of `_CHORDS` (empty for NO_CHORD) -/
def chordPcs (c : Nat) : List Nat :=
  match Gen.chords[c]? with
  | some (some (root, kind)) =>
      match Gen.kindPitches[kind]? with
      | some offs => offs.map fun o => (root + o) % 12
      | none => []
  | _ => []

def keyPcs (key : Nat) : List Nat := Gen.keyPitches.map fun o => (key + o) % 12

/-- `len(chord_pitches & key_pitches)` -/
def numIn (key c : Nat) : Nat := ((chordPcs c).eraseDups.filter fun p => (keyPcs key).contains p).length
/-- `len(chord_pitches - key_pitches)` -/
def numOut (key c : Nat) : Nat := ((chordPcs c).eraseDups.filter fun p => !(keyPcs key).contains p).length
/-- support of row `c` of `_chord_pitch_vectors()` and its squared norm -/
def chordVec (c pc : Nat) : Bool := (chordPcs c).contains pc
def chordNormSq (c : Nat) : Nat := ((List.range 12).filter (chordVec c)).length

/-- the chord index of the same kind `k` semitones higher (`_CHORDS` is root-major) -/
def rotChord (k c : Nat) : Nat :=
  if c = 0 then 0
  else
    let nk := Gen.kindPitches.length
    1 + (((c - 1) / nk + k) % 12) * nk + (c - 1) % nk

/-- the key-chord state `k` semitones higher (`rot` = the chord relabelling, `rotChord k` for the
real table) -/
def rotState (C k : Nat) (rot : Nat → Nat) (i : Nat) : Nat := ((i / C + k) % 12) * C + rot (i % C)

end NSV.C19
