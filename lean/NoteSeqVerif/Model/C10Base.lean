/-! C10 — types shared by the generated tables (`Generated/C10.lean`) and the model (`Model/C10.lean`).
Core Lean only. -/
namespace NSV.C10

/-- the scale steps the root / bass regex `[A-G]` can produce -/
inductive Step where
  | A | B | C | D | E | F | G
deriving DecidableEq, Repr, Inhabited

/-- `chr(ord('A') + (ord(step) - ord('A') + 1) % 7)` -/
def Step.next : Step → Step
  | .A => .B | .B => .C | .C => .D | .D => .E | .E => .F | .F => .G | .G => .A

/-- `ord(step) - ord('A')` (the wire index) -/
def Step.idx : Step → Nat
  | .A => 0 | .B => 1 | .C => 2 | .D => 3 | .E => 4 | .F => 5 | .G => 6

def Step.ofIdx? : Nat → Option Step
  | 0 => some .A | 1 => some .B | 2 => some .C | 3 => some .D | 4 => some .E | 5 => some .F
  | 6 => some .G | _ => none

def Step.letter : Step → Char
  | .A => 'A' | .B => 'B' | .C => 'C' | .D => 'D' | .E => 'E' | .F => 'F' | .G => 'G'

/-- the three modification functions of `chord_symbols_lib`
(`_add_scale_degree`, `_subtract_scale_degree`, `_alter_scale_degree`) -/
inductive ModOp where
  | add | sub | alt
deriving DecidableEq, Repr, Inhabited

end NSV.C10
