import NoteSeqVerif.Generated.C15
/-! C15 — executable model of `note_seq/chord_symbols_lib.py` on *structured* chord symbols
(core Lean only).

Modelled: `pitches_to_chord_symbol` with `_largest_chord_kind_from_relative_pitches`,
`_largest_chord_kind_from_degrees`, `_degrees_to_modifications`, `_transpose_pitch_class`,
`_pitch_class_to_midi`; and the reader `_parse_kind`, the three modification functions,
`_apply_modifications`, `chord_symbol_{pitches,root,bass,quality}`.  Every table comes from
`Generated/C15.lean`.

Not modelled (string layer, exercised by the correspondence over the whole finite domain): the
regular expressions that split a figure into root / kind / modifications / bass.  A `Symbol` is
what the split yields; `render` prints it the way the namer does.

**Iteration order of Python sets is a parameter.**  `pitches_to_chord_symbol` iterates
`pitch_classes - {bass}` and, for every candidate root, `set((p - root) % 12 …)`; CPython's
order for such sets is *not* sorted (e.g. `list({8, 1}) = [8, 1]`) and depends on insertion
history.  The model therefore takes these orders as input (`Orders`); the theorems hold for
every order that enumerates the right set (`OrdersOk`), and the harness records the orders the
real run used. -/
namespace NSV.C15
open Gen

/-! ### loops that may raise -/

/-- `[f(a) for a in l]`, stopping at the first exception -/
def mapE {α β} (f : α → Except Err β) : List α → Except Err (List β)
  | [] => .ok []
  | a :: r => do
      let b ← f a
      let bs ← mapE f r
      .ok (b :: bs)

/-- `for a in l: s = f(s, a)`, stopping at the first exception -/
def foldE {σ α} (f : σ → α → Except Err σ) : σ → List α → Except Err σ
  | s, [] => .ok s
  | s, a :: r => do
      let s' ← f s a
      foldE f s' r

/-! ### Python `dict` with integer keys: insertion-ordered association list -/
abbrev Dict := List (Nat × Int)

def dget : Dict → Nat → Option Int
  | [], _ => none
  | (k, v) :: r, q => if k = q then some v else dget r q

/-- `d[q] = x`: in place when the key exists, appended otherwise -/
def dset : Dict → Nat → Int → Dict
  | [], q, x => [(q, x)]
  | (k, v) :: r, q, x => if k = q then (k, x) :: r else (k, v) :: dset r q x

/-- `del d[q]` (the caller has checked membership) -/
def derase : Dict → Nat → Dict
  | [], _ => []
  | (k, v) :: r, q => if k = q then r else (k, v) :: derase r q

/-- `dict(_parse_degree(s) for s in names)` -/
def dictOf (l : List Deg) : Dict := l.foldl (fun d x => dset d x.num x.alter) []

/-- table lookup `t[k]`, `KeyError` when absent -/
def lookupK (t : List (Nat × Int)) (k : Nat) : Except Err Int :=
  match dget t k with
  | some v => .ok v
  | none => .error .keyError

/-- `x % 12` of a Python int, as a pitch class -/
def pymod12 (x : Int) : Nat := (x % 12).toNat

/-! ### pitch-class spelling -/

/-- the `while transpose_amount >= _STEPS_ABOVE[step]` loop, with an iteration bound -/
def transposeLoop : Nat → Nat → Int → Except Err (Nat × Int)
  | 0, _, _ => .error .nonTermination
  | f + 1, step, amt => do
      let a ← lookupK STEPS_ABOVE step
      if amt ≥ a then transposeLoop f ((step + 1) % 7) (amt - a) else .ok (step, amt)

/-- `_transpose_pitch_class(step, alter, transpose_amount)` -/
def transposePitchClass (step : Nat) (alter amount : Int) : Except Err (Nat × Int) := do
  let (step, amt) ← transposeLoop 13 step (amount % 12)
  if amt > 0 then
    if alter ≥ 0 then do
      let a ← lookupK STEPS_ABOVE step
      .ok ((step + 1) % 7, alter - (a - amt))
    else .ok (step, alter + amt)
  else .ok (step, alter)

/-- `_pitch_class_to_midi(step, alter)` -/
def pitchClassToMidi (pc : Nat × Int) : Except Err Nat := do
  let m ← lookupK STEPS_MIDI pc.1
  .ok (pymod12 (m + pc.2))

/-- `_transpose_pitch_class('C', 0, pc)`: the spelling the namer uses for root and bass -/
def spellFromC (pc : Nat) : Except Err (Nat × Int) := transposePitchClass 2 0 pc

/-! ### naming: `_largest_chord_kind_from_degrees` -/

/-- `len(_CHORD_KINDS_BY_ABBREV[abbrev])` -/
def kindDegrees (a : Nat) : Except Err (List Deg) :=
  match KIND_DEGREES[a]? with
  | some ds => .ok ds
  | none => .error .keyError

def kindLen (a : Nat) : Except Err Nat := do
  let ds ← kindDegrees a
  .ok ds.length

/-- one iteration of the loop over `_CHORD_KINDS`; state = `(best_chord_abbrev, best_chord_degrees)` -/
def kindStep (degs : List Deg) (best : Option Nat × List Deg) (k : Kind) : Option Nat × List Deg :=
  if k.degrees.length ≤ best.2.length then best
  else if k.degrees.all (fun d => degs.contains d) then (some k.abbrev0, k.degrees)
  else best

def largestKindIn (table : List Kind) (degs : List Deg) : Option Nat :=
  (table.foldl (kindStep degs) (none, [])).1

/-- `_largest_chord_kind_from_degrees(degrees)` -/
def largestKindFromDegrees (degs : List Deg) : Option Nat := largestKindIn CHORD_KINDS degs

/-! ### naming: `_largest_chord_kind_from_relative_pitches` -/

/-- `itertools.product(*ls)` (first component varies slowest) -/
def product {α} : List (List α) → List (List α)
  | [] => [[]]
  | l :: ls => l.flatMap (fun x => (product ls).map (x :: ·))

/-- distinct elements, i.e. `list(set(l))` up to order -/
def dedup : List Nat → List Nat
  | [] => []
  | x :: xs => if x ∈ dedup xs then dedup xs else x :: dedup xs

/-- `len(l) > len(set(l))` -/
def hasDup (l : List Nat) : Bool := (dedup l).length < l.length

/-- `_SCALE_DEGREES[pitch]` -/
def scaleDegreesAt (p : Nat) : Except Err (List Deg) :=
  match SCALE_DEGREES[p]? with
  | some r => .ok r
  | none => .error .indexError

/-- `len(_CHORD_KINDS_BY_ABBREV[chord_abbrev])` where `chord_abbrev` may be `None` -/
def kindLenOpt : Option Nat → Except Err Nat
  | some a => kindLen a
  | none => .error .keyError

/-- loop body over the interpretations; state = `(best_chord_abbrev, best_degrees)` -/
def interpStep (best : Option Nat × List Deg) (degs : List Deg) : Except Err (Option Nat × List Deg) :=
  if hasDup (degs.map (·.num)) then .ok best
  else
    let a := largestKindFromDegrees degs
    match best.1 with
    | none => .ok (a, degs)
    | some b => do
        let la ← kindLenOpt a
        let lb ← kindLen b
        if la > lb then .ok (a, degs) else .ok best

/-- `_largest_chord_kind_from_relative_pitches`; `rel` is the iteration order of the set -/
def largestFromRel (rel : List Nat) : Except Err (Option Nat × List Deg) := do
  let sds ← mapE scaleDegreesAt rel
  foldE interpStep (none, []) (product sds)

/-! ### naming: `_degrees_to_modifications` -/

/-- modification text for one entry of `target_degrees` -/
def modFor (degrees : Dict) (degree : Nat) (talter : Int) : Except Err (List Mod) :=
  match dget degrees degree with
  | none =>
      let alter := if degree = 7 then talter + 1 else talter
      if alter ≠ 0 ∧ degree > 7 then .ok [⟨.alt, alter, degree⟩] else .ok [⟨.add, alter, degree⟩]
  | some a =>
      if a ≠ talter then
        if talter = 0 then .error .assertionError else .ok [⟨.alt, talter, degree⟩]
      else .ok []

def addMods (degrees : Dict) : Dict → Except Err (List Mod)
  | [] => .ok []
  | (degree, talter) :: rest => do
      let m ← modFor degrees degree talter
      let ms ← addMods degrees rest
      .ok (m ++ ms)

def subMods (targetD : Dict) : Dict → List Mod
  | [] => []
  | (degree, _) :: rest =>
      match dget targetD degree with
      | none => ⟨.no, 0, degree⟩ :: subMods targetD rest
      | some _ => subMods targetD rest

/-- `_degrees_to_modifications(chord_degrees, target_chord_degrees)` as a list of modifications -/
def degreesToMods (kd target : List Deg) : Except Err (List Mod) := do
  let degrees := dictOf kd
  let targetD := dictOf target
  let adds ← addMods degrees targetD
  .ok (adds ++ subMods targetD degrees)

/-! ### naming: `pitches_to_chord_symbol` -/

/-- iteration orders of the two kinds of Python set the namer walks through -/
structure Orders where
  /-- order of `set((p - bass) % 12 for p in pitch_classes)` -/
  bassRel : List Nat
  /-- `list(pitch_classes - {bass})`, each with the order of its relative-pitch set -/
  others : List (Nat × List Nat)
deriving Repr

inductive Name
  | noChord
  | sym (s : Symbol)
deriving Repr, DecidableEq

/-- `degree != bass_degree for bass_degree in bass_degrees` -/
def notBassDegree (bassDegrees : List Deg) (d : Deg) : Bool := bassDegrees.all (fun b => d ≠ b)

/-- everything after the root loop -/
def buildSymbol (bass bestRoot kind : Nat) (bestDegrees : List Deg) : Except Err Symbol := do
  let rootSp ← spellFromC bestRoot
  let kd ← kindDegrees kind
  let bassDegrees ← scaleDegreesAt (pymod12 ((bass : Int) - bestRoot))
  let target := if kd.all (notBassDegree bassDegrees) then bestDegrees.filter (notBassDegree bassDegrees)
                else bestDegrees
  let mods ← degreesToMods kd target
  if bass = bestRoot then .ok ⟨rootSp.1, rootSp.2, kind, mods, none⟩
  else do
    let b ← spellFromC bass
    .ok ⟨rootSp.1, rootSp.2, kind, mods, some b⟩

/-- loop body over the candidate roots; state = `(best_root, best_abbrev, best_degrees)` -/
def rootStep (best : Option (Nat × Nat × List Deg)) (c : Nat × List Nat) :
    Except Err (Option (Nat × Nat × List Deg)) := do
  let (a, degs) ← largestFromRel c.2
  match a with
  | none => .ok best
  | some a =>
      match best with
      | none => .ok (some (c.1, a, degs))
      | some (_, b, _) => do
          let la ← kindLen a
          let lb ← kindLen b
          if la > lb then .ok (some (c.1, a, degs)) else .ok best

def minOf (p : Int) (ps : List Int) : Int := ps.foldl min p

/-- bass pitch class `min(pitches) % 12` -/
def bassOf (p : Int) (ps : List Int) : Nat := pymod12 (minOf p ps)

/-- `pitches_to_chord_symbol(pitches)` with the set iteration orders `o` -/
def pitchesToChordSymbol (pitches : List Int) (o : Orders) : Except Err Name :=
  match pitches with
  | [] => .ok .noChord
  | p :: ps => do
      let bass := bassOf p ps
      let best ← foldE rootStep none ((bass, o.bassRel) :: o.others)
      match best with
      | none => .error .chordSymbolError
      | some (r, a, degs) => do
          let s ← buildSymbol bass r a degs
          .ok (.sym s)

/-! ### the side condition on the order parameters (decidable; checked by the driver on every
request and assumed by the theorems) -/

/-- pitch classes supplied: `pitch % 12 for pitch in pitches` -/
def pcsOf (pitches : List Int) : List Nat := pitches.map pymod12

/-- `o` enumerates the sets the Python builds: `others` = the supplied pitch classes other than
the bass, and for every candidate root `r` its list = `{(p - r) % 12 : p ∈ bass :: others}`.
No distinctness or ordering is required. -/
def OrdersOk (pitches : List Int) (bass : Nat) (o : Orders) : Prop :=
  let roots := bass :: o.others.map (·.1)
  (∀ x ∈ o.others.map (·.1), x ≠ bass ∧ x ∈ pcsOf pitches) ∧
  (∀ x ∈ pcsOf pitches, x = bass ∨ x ∈ o.others.map (·.1)) ∧
  ∀ c ∈ (bass, o.bassRel) :: o.others,
    (∀ y ∈ c.2, ∃ x ∈ roots, y = pymod12 ((x : Int) - c.1)) ∧
    (∀ x ∈ roots, pymod12 ((x : Int) - c.1) ∈ c.2)

instance (pitches : List Int) (bass : Nat) (o : Orders) : Decidable (OrdersOk pitches bass o) := by
  unfold OrdersOk; exact inferInstance

/-! ### reading -/

def lookupMod (m : Mod) : Option (Op × Int) :=
  (DEGREE_MODIFICATIONS.find? (fun e => e.pk = m.pk ∧ e.sign = m.sign)).map (fun e => (e.op, e.alter))

/-- the three modification functions -/
def applyMod (d : Dict) (op : Op) (degree : Nat) (alter : Int) : Except Err Dict :=
  match op with
  | .add =>
      match dget d degree with
      | some _ => .error .chordSymbolError
      | none => .ok (dset d degree (if degree = 7 then alter - 1 else alter))
  | .sub =>
      match dget d degree with
      | none => .error .chordSymbolError
      | some _ => .ok (derase d degree)
  | .alt =>
      match dget d degree with
      | some a => .ok (dset d degree (a + alter))
      | none => .ok (dset d degree alter)

/-- `_apply_modifications` -/
def applyMods : Dict → List (Op × Nat × Int) → Except Err Dict
  | d, [] => .ok d
  | d, (op, degree, alter) :: rest => do
      let d' ← applyMod d op degree alter
      applyMods d' rest

/-- one step of `_parse_modifications`; an unknown prefix means the regular expression does not
match the figure: `ChordSymbolError` -/
def parseMod (m : Mod) : Except Err (Op × Nat × Int) :=
  match lookupMod m with
  | some (op, alter) => .ok (op, m.degree, alter)
  | none => .error .chordSymbolError

/-- what `_split_chord_symbol` + `_parse_modifications` need: a known kind and known prefixes
(otherwise the regular expression does not match: `ChordSymbolError`) -/
def splitMods (s : Symbol) : Except Err (List (Op × Nat × Int)) :=
  match KIND_DEGREES[s.kind]? with
  | none => .error .chordSymbolError
  | some _ => mapE parseMod s.mods

/-- `_parse_chord_symbol`: `(root, degrees, bass or root)` -/
def parseChordSymbol (s : Symbol) : Except Err ((Nat × Int) × Dict × (Nat × Int)) := do
  let ms ← splitMods s
  let kd ← match KIND_DEGREES[s.kind]? with
    | some kd => pure kd
    | none => .error .chordSymbolError
  let degrees ← applyMods (dictOf kd) ms
  let root := (s.rootStep, s.rootAlter)
  .ok (root, degrees, s.bass.getD root)

/-- `(degree - 1) % 7 + 1` -/
def normDegree (degree : Nat) : Nat := (((degree : Int) - 1) % 7 + 1).toNat

def degreePitch (rootPitch : Nat) (e : Nat × Int) : Except Err Nat := do
  let off ← lookupK DEGREE_OFFSETS (normDegree e.1)
  .ok (pymod12 ((rootPitch : Int) + off + e.2))

/-- `chord_symbol_pitches` (list in dict order) -/
def chordSymbolPitches (s : Symbol) : Except Err (List Nat) := do
  let (root, degrees, _) ← parseChordSymbol s
  let rp ← pitchClassToMidi root
  mapE (degreePitch rp) degrees

/-- `chord_symbol_root` -/
def chordSymbolRoot (s : Symbol) : Except Err Nat := do
  let _ ← splitMods s
  pitchClassToMidi (s.rootStep, s.rootAlter)

/-- `chord_symbol_bass` -/
def chordSymbolBass (s : Symbol) : Except Err Nat := do
  let _ ← splitMods s
  pitchClassToMidi (s.bass.getD (s.rootStep, s.rootAlter))

/-- the triad test of `chord_symbol_quality` on the parsed degrees -/
def qualityOfDegrees (degrees : Dict) : Int :=
  match dget degrees 1, dget degrees 3, dget degrees 5 with
  | some a, some b, some c =>
      if (a, b, c) = (0, 0, 0) then QUALITY_MAJOR
      else if (a, b, c) = (0, -1, 0) then QUALITY_MINOR
      else if (a, b, c) = (0, 0, 1) then QUALITY_AUGMENTED
      else if (a, b, c) = (0, -1, -1) then QUALITY_DIMINISHED
      else QUALITY_OTHER
  | _, _, _ => QUALITY_OTHER

/-- `chord_symbol_quality` -/
def chordSymbolQuality (s : Symbol) : Except Err Int := do
  let (_, degrees, _) ← parseChordSymbol s
  .ok (qualityOfDegrees degrees)

/-! ### printing (string layer; used by the driver only, no theorem mentions it) -/

def alterStr (alter : Int) : String :=
  String.ofList (List.replicate alter.natAbs (if alter ≥ 0 then '#' else 'b'))

/-- `_pitch_class_to_string` -/
def pitchClassToString (pc : Nat × Int) : String :=
  String.singleton (Char.ofNat (65 + pc.1)) ++ alterStr pc.2

def renderMod (m : Mod) : String :=
  match m.pk with
  | .add => s!"(add{alterStr m.sign}{m.degree})"
  | .alt => s!"({alterStr m.sign}{m.degree})"
  | .no => s!"(no{m.degree})"

def render : Name → String
  | .noChord => NO_CHORD
  | .sym s =>
      pitchClassToString (s.rootStep, s.rootAlter) ++
        (match KIND_ABBREVS[s.kind]? with | some a => a | none => "<no such kind>") ++
        String.join (s.mods.map renderMod) ++
        (match s.bass with | none => "" | some b => "/" ++ pitchClassToString b)

end NSV.C15
