import NoteSeqVerif.Model.C10Heap
/-! C10 — the CALLER's Python lists next to the heap of event-sequence objects.

`ChordProgression(figures)`, `Melody(events)` and `LeadSheet(Melody(events), ChordProgression(figures))` are
handed Python lists that belong to the caller, who goes on using them (to build further objects, to compare
with later).  The constructors copy: a new object holds the CONTENTS of the lists it was built from and shares
nothing with them, so no later `transpose` / `squash` of the object can rewrite the caller's list or another
object built from the same list.  A world is the caller's lists (events lists, figures lists) and the heap;
`build e f` appends an object holding the contents of events list `e` / figures list `f` (`none`: the class
has no such part — a `ChordProgression` has no melody events, a `Melody` no figures); every other operation is
`hStep` on the heap.  No operation has a way to write a caller's list: that is the statement the history
stream of the correspondence check compares the real classes with, list by list after every operation. -/
namespace NSV.C10

structure World where
  evLists : List (List Int)
  figLists : List (List String)
  heap : Heap

inductive WOp where
  /-- `objs.append(Cls(events_lists[e], figure_lists[f]))` -/
  | build (e f : Option Nat)
  /-- deepcopy / transpose / squash of an object -/
  | obj (op : HOp)

/-- the object a constructor builds from the caller's lists `e`, `f`; `none` when a named list does not exist -/
def built (w : World) (e f : Option Nat) : Option Obj :=
  match e, f with
  | none, none => some { es := [], figs := [] }
  | some i, none => (w.evLists[i]?).map (fun es => { es := es, figs := [] })
  | none, some j => (w.figLists[j]?).map (fun fs => { es := [], figs := fs })
  | some i, some j =>
    match w.evLists[i]?, w.figLists[j]? with
    | some es, some fs => some { es := es, figs := fs }
    | _, _ => none

def wStep (split : String → Except Err Sym) (w : World) : WOp → World × HRes
  | .build e f =>
    match built w e f with
    | some o => ({ w with heap := w.heap ++ [o] }, .ok)
    | none => (w, .noObject)
  | .obj op => let r := hStep split w.heap op; ({ w with heap := r.1 }, r.2)

/-- the world after every operation, with the operation's result -/
def wTrace (split : String → Except Err Sym) : World → List WOp → List (World × HRes)
  | _, [] => []
  | w, op :: ops => let r := wStep split w op; r :: wTrace split r.1 ops

def wRun (split : String → Except Err Sym) (w : World) (ops : List WOp) : World :=
  ops.foldl (fun w op => (wStep split w op).1) w

end NSV.C10
