import NoteSeqVerif.Model.NoteSeq
import NoteSeqVerif.Generated.C01
/-! C01 — quantization (`sequences_lib.py`: quantize_to_step, steps_per_quarter_to_steps_per_second,
_quantize_notes, quantize_note_sequence, quantize_note_sequence_absolute, _is_power_of_2).
Every definition takes the rounding operator `R` applied after each float operation;
the driver instantiates `R := rne53`, the exact-arithmetic theorems use `R := id`. -/
namespace NSV.C01

/-- `int(t * sps + (1 - cutoff))` -/
def qstepR (R : Rat → Rat) (cutoff t sps : Rat) : Int :=
  truncR (R (R (t * sps) + R (1 - cutoff)))

/-- `steps_per_quarter * qpm / 60.0` -/
def spsR (R : Rat → Rat) (spq : Int) (qpm : Rat) : Rat := R (R ((spq : Rat) * qpm) / 60)

/-- `x and not x & (x - 1)` on Python ints (negative values are never powers of two) -/
def isPow2 (x : Int) : Bool := 0 < x && (x.toNat &&& (x.toNat - 1)) == 0

/-- the note loop of `_quantize_notes`: storage order, first offending note raises -/
def qNotes (q : Rat → Int) : List Note → Int → Except Err (List Note × Int)
  | [], tot => .ok ([], tot)
  | n :: ns, tot =>
      let qs := q n.start
      let qe0 := q n.end_
      let qe := if qe0 = qs then qe0 + 1 else qe0
      if qs < 0 ∨ qe < 0 then .error .negativeTimeError
      else
        let tot' := if tot < qe then qe else tot
        match qNotes q ns tot' with
        | .ok (r, t) => .ok ({ n with qs := qs, qe := qe } :: r, t)
        | .error e => .error e

def qCCs (q : Rat → Int) : List CC → Except Err (List CC)
  | [] => .ok []
  | c :: cs =>
      let st := q c.time
      if st < 0 then .error .negativeTimeError
      else match qCCs q cs with
        | .ok r => .ok ({ c with qstep := st } :: r)
        | .error e => .error e

def qTexts (q : Rat → Int) : List TextAnn → Except Err (List TextAnn)
  | [] => .ok []
  | c :: cs =>
      let st := q c.time
      if st < 0 then .error .negativeTimeError
      else match qTexts q cs with
        | .ok r => .ok ({ c with qstep := st } :: r)
        | .error e => .error e

/-- `_quantize_notes` -/
def quantizeNotes (q : Rat → Int) (s : NoteSeq) : Except Err NoteSeq :=
  match qNotes q s.notes s.totalQSteps with
  | .error e => .error e
  | .ok (notes, tot) =>
    match qCCs q s.ccs with
    | .error e => .error e
    | .ok ccs =>
      match qTexts q s.texts with
      | .error e => .error e
      | .ok texts => .ok { s with notes := notes, totalQSteps := tot, ccs := ccs, texts := texts }

/-- `quantize_note_sequence_absolute` -/
def quantizeAbsR (R : Rat → Rat) (cutoff : Rat) (s : NoteSeq) (sps : Int) : Except Err NoteSeq :=
  let q := fun t => qstepR R cutoff t (sps : Rat)
  quantizeNotes q { s with spq := 0, sps := sps, totalQSteps := q s.totalTime }

/-- time-signature validation of `quantize_note_sequence`; returns the single signature kept -/
def checkTimeSigs (tss : List TimeSig) : Except Err TimeSig :=
  match tss with
  | [] => .ok ⟨0, 4, 4⟩
  | first :: _ =>
    match sortByRat (·.time) tss with
    | [] => .ok ⟨0, 4, 4⟩   -- unreachable (sorting preserves length); kept total
    | e :: later =>
      if e.time ≠ 0 ∧ ¬ (e.num = 4 ∧ e.den = 4) then .error .multipleTimeSignatureError
      else if later.any (fun t => t.num ≠ e.num ∨ t.den ≠ e.den) then .error .multipleTimeSignatureError
      else .ok { first with time := 0 }

def checkTempos (defaultQpm : Rat) (ts : List Tempo) : Except Err Tempo :=
  match ts with
  | [] => .ok ⟨0, defaultQpm⟩
  | first :: _ =>
    match sortByRat (·.time) ts with
    | [] => .ok ⟨0, defaultQpm⟩
    | e :: later =>
      if e.time ≠ 0 ∧ e.qpm ≠ defaultQpm then .error .multipleTempoError
      else if later.any (fun t => t.qpm ≠ e.qpm) then .error .multipleTempoError
      else .ok { first with time := 0 }

/-- `quantize_note_sequence` -/
def quantizeRelR (R : Rat → Rat) (cutoff defaultQpm : Rat) (s : NoteSeq) (spq : Int) :
    Except Err NoteSeq :=
  match checkTimeSigs s.timeSigs with
  | .error e => .error e
  | .ok ts =>
    if ¬ isPow2 ts.den then .error .badTimeSignatureError
    else if ts.num = 0 then .error .badTimeSignatureError
    else match checkTempos defaultQpm s.tempos with
      | .error e => .error e
      | .ok tp =>
        let sps := spsR R spq tp.qpm
        let q := fun t => qstepR R cutoff t sps
        quantizeNotes q { s with spq := spq, sps := 0, timeSigs := [ts], tempos := [tp],
                                 totalQSteps := q s.totalTime }

def quantizeRel := quantizeRelR rne53 Gen.QUANTIZE_CUTOFF Gen.DEFAULT_QPM
def quantizeAbs := quantizeAbsR rne53 Gen.QUANTIZE_CUTOFF
def qstep (t sps : Rat) : Int := qstepR rne53 Gen.QUANTIZE_CUTOFF t sps

end NSV.C01
