import NoteSeqVerif.Generated.C09
/-! C09 — one-hot event encodings (hand-written models; core Lean only).
The melody encoding and the velocity-bin functions are *not* here: they are regenerated
from the Python source on every run (`Generated/C09.lean`, translator T2) and the theorems
are stated about the generated definitions directly. -/
namespace NSV.C09

/-! ### PerformanceOneHotEncoding: a list of `(event_type, min_value, max_value)` ranges -/
structure Range where
  ty : Nat
  lo : Int
  hi : Int
deriving Repr, DecidableEq

def numClasses : List Range → Int
  | [] => 0
  | r :: rs => (r.hi - r.lo + 1) + numClasses rs

/-- `encode_event`: the loop over `_event_ranges` with a running offset -/
def encodeAux : List Range → Int → Nat → Int → Except String Int
  | [], _, _, _ => .error "ValueError"
  | r :: rs, off, ty, v =>
      if ty = r.ty then .ok (off + v - r.lo) else encodeAux rs (off + (r.hi - r.lo + 1)) ty v

/-- `decode_event` -/
def decodeAux : List Range → Int → Int → Except String (Nat × Int)
  | [], _, _ => .error "ValueError"
  | r :: rs, off, i =>
      if off ≤ i ∧ i ≤ off + r.hi - r.lo then .ok (r.ty, r.lo + i - off)
      else decodeAux rs (off + (r.hi - r.lo + 1)) i

/-- the constructor's `_event_ranges` (event-type codes come from the generated constants) -/
def perfRanges (bins maxShift minPitch maxPitch : Int) : List Range :=
  [⟨Gen.NOTE_ON, minPitch, maxPitch⟩, ⟨Gen.NOTE_OFF, minPitch, maxPitch⟩,
   ⟨Gen.TIME_SHIFT, 1, maxShift⟩] ++ (if 0 < bins then [⟨Gen.VELOCITY, 1, bins⟩] else [])

def perfNumClasses (bins maxShift minPitch maxPitch : Int) : Int :=
  numClasses (perfRanges bins maxShift minPitch maxPitch)
def perfEncode (bins maxShift minPitch maxPitch : Int) (ty : Nat) (v : Int) :=
  encodeAux (perfRanges bins maxShift minPitch maxPitch) 0 ty v
def perfDecode (bins maxShift minPitch maxPitch : Int) (i : Int) :=
  decodeAux (perfRanges bins maxShift minPitch maxPitch) 0 i

/-! ### MultiDrumOneHotEncoding over a table of pitch lists -/
/-- `_inverse_drum_map[pitch]`: dict comprehension, so the *last* class listing a pitch wins -/
def classOf (table : List (List Nat)) (pitch : Nat) : Option Nat :=
  (List.range table.length).foldl
    (fun acc i => if (table.getD i []).contains pitch then some i else acc) none

/-- `encode_event`: sum of `2^i` over the set of classes hit -/
def drumEncode (table : List (List Nat)) (ev : List Nat) : Nat :=
  ((List.range table.length).filter (fun i => ev.any (fun p => classOf table p == some i))).foldl
    (fun acc i => acc + 2 ^ i) 0

/-- `decode_event`: first pitch of every class whose bit is set (`KeyError` past the table) -/
def drumDecode (table : List (List Nat)) (idx : Nat) : Except String (List Nat) :=
  if idx < 2 ^ table.length then
    .ok ((List.range table.length).filterMap
      (fun i => if idx.testBit i then (table.getD i []).head? else none))
  else .error "KeyError"

end NSV.C09
