import NoteSeqVerif.Generated.C09
/-! C09 — one-hot event encodings (hand-written models; core Lean only).
The melody encoding and the velocity-bin functions are *not* here: they are regenerated
from the Python source on every run (`Generated/C09.lean`, translator T2) and the theorems
are stated about the generated definitions directly. -/
namespace NSV.C09

/-! ### PerformanceOneHotEncoding: a list of `(event_type, min_value, max_value)` ranges -/
structure Range where
  ty : Nat
  lo : Int
  hi : Int
deriving Repr, DecidableEq

def numClasses : List Range → Int
  | [] => 0
  | r :: rs => (r.hi - r.lo + 1) + numClasses rs

/-- `encode_event`: the loop over `_event_ranges` with a running offset -/
def encodeAux : List Range → Int → Nat → Int → Except String Int
  | [], _, _, _ => .error "ValueError"
  | r :: rs, off, ty, v =>
      if ty = r.ty then .ok (off + v - r.lo) else encodeAux rs (off + (r.hi - r.lo + 1)) ty v

/-- `decode_event` -/
def decodeAux : List Range → Int → Int → Except String (Nat × Int)
  | [], _, _ => .error "ValueError"
  | r :: rs, off, i =>
      if off ≤ i ∧ i ≤ off + r.hi - r.lo then .ok (r.ty, r.lo + i - off)
      else decodeAux rs (off + (r.hi - r.lo + 1)) i

/-- the constructor's `_event_ranges` (event-type codes come from the generated constants) -/
def perfRanges (bins maxShift minPitch maxPitch : Int) : List Range :=
  [⟨Gen.NOTE_ON, minPitch, maxPitch⟩, ⟨Gen.NOTE_OFF, minPitch, maxPitch⟩,
   ⟨Gen.TIME_SHIFT, 1, maxShift⟩] ++ (if 0 < bins then [⟨Gen.VELOCITY, 1, bins⟩] else [])

def perfNumClasses (bins maxShift minPitch maxPitch : Int) : Int :=
  numClasses (perfRanges bins maxShift minPitch maxPitch)
def perfEncode (bins maxShift minPitch maxPitch : Int) (ty : Nat) (v : Int) :=
  encodeAux (perfRanges bins maxShift minPitch maxPitch) 0 ty v
def perfDecode (bins maxShift minPitch maxPitch : Int) (i : Int) :=
  decodeAux (perfRanges bins maxShift minPitch maxPitch) 0 i

/-! ### MultiDrumOneHotEncoding over a table of pitch lists

`__init__(drum_type_pitches, ignore_unknown_drums)`; the table is a parameter of every function
below (the theorems are about arbitrary tables; `Gen.drumTable` is the shipped default). -/
/-- `_inverse_drum_map[pitch]`: dict comprehension, so the *last* class listing a pitch wins -/
def classOf (table : List (List Nat)) (pitch : Nat) : Option Nat :=
  (List.range table.length).foldl
    (fun acc i => if (table.getD i []).contains pitch then some i else acc) none

/-- `sum(2 ** i for i in drum_type_indices)` where `drum_type_indices` is the *set* of classes hit -/
def drumEncode (table : List (List Nat)) (ev : List Nat) : Nat :=
  ((List.range table.length).filter (fun i => ev.any (fun p => classOf table p == some i))).foldl
    (fun acc i => acc + 2 ^ i) 0

/-- `encode_event` with the `ignore_unknown_drums` flag: when the flag is off, a pitch that is in
no class raises `DrumsEncodingError` (whichever unknown pitch the set iteration meets first: the
exception type is the same). -/
def drumEncodeE (table : List (List Nat)) (ignoreUnknown : Bool) (ev : List Nat) : Except String Nat :=
  if !ignoreUnknown && ev.any (fun p => (classOf table p).isNone) then .error "DrumsEncodingError"
  else .ok (drumEncode table ev)

/-- the generator inside `decode_event`, restricted to the bit positions `is` (ascending):
`self._drum_map[i][0]` for every set bit — `KeyError` when `i` is past the table, `IndexError`
when class `i` is an empty list. -/
def decodeIdxs (table : List (List Nat)) (idx : Nat) : List Nat → Except String (List Nat)
  | [] => .ok []
  | i :: is =>
      if idx.testBit i then
        match table[i]? with
        | none => .error "KeyError"
        | some [] => .error "IndexError"
        | some (p :: _) => match decodeIdxs table idx is with
            | .ok ps => .ok (p :: ps)
            | .error e => .error e
      else decodeIdxs table idx is

/-- `decode_event`: first pitch of every class whose bit is set.  The bits are visited from the
least significant one, so an empty class below `len(table)` raises `IndexError` before a bit past
the table raises `KeyError`. -/
def drumDecode (table : List (List Nat)) (idx : Nat) : Except String (List Nat) :=
  match decodeIdxs table idx (List.range table.length) with
  | .error e => .error e
  | .ok ps => if idx < 2 ^ table.length then .ok ps else .error "KeyError"

/-! ### Python list indexing (negative indices wrap once, otherwise `IndexError`) -/
def pyIndex {α} (l : List α) (i : Int) : Except String α :=
  let j := if i < 0 then i + l.length else i
  if j < 0 then .error "IndexError"
  else match l[j.toNat]? with
    | some a => .ok a
    | none => .error "IndexError"

/-! ### Chord one-hot encodings (`chords_encoder_decoder.py`)

`encode_event` looks at a chord symbol string only through `chord_symbols_lib.chord_symbol_root`
and `chord_symbol_quality`.  The model works on the *structured* symbol those functions see after
`_split_chord_symbol` (a regular-expression match, "modelled, not verified"): root step letter and
alteration, kind abbreviation, scale-degree modifications.  The bass never matters. -/

/-- one scale-degree modification: `op` 0 = `_add_scale_degree`, 1 = `_subtract_scale_degree`,
2 = `_alter_scale_degree` (codes assigned by the generator from the function objects in
`_DEGREE_MODIFICATIONS`), the table's alteration, and the degree number from the symbol -/
structure Mod where
  op : Nat
  alter : Int
  degree : Nat
deriving Repr, DecidableEq

/-- a chord progression event as the encoders see it -/
inductive ChordEvent where
  | noChord
  | sym (step : Char) (alter : Int) (kind : List Char) (mods : List Mod)
deriving Repr, DecidableEq

/-- what `decode_event` returns: `NO_CHORD` or `_PITCH_CLASS_MAPPING[k] + suffix` -/
inductive ChordDecoded where
  | noChord
  | name (root : List Char) (suffix : List Char)
deriving Repr, DecidableEq

/-- a Python `dict` from scale degree to alteration, in insertion order -/
abbrev Degrees := List (Nat × Int)

def degGet (d : Degrees) (k : Nat) : Option Int := d.lookup k
def degSet : Degrees → Nat → Int → Degrees
  | [], k, v => [(k, v)]
  | (k', v') :: r, k, v => if k' = k then (k, v) :: r else (k', v') :: degSet r k v
def degDel (d : Degrees) (k : Nat) : Degrees := d.filter (fun kv => kv.1 != k)

/-- `dict(_parse_degree(s) for s in degrees)` -/
def degOfPairs (ps : List (Nat × Int)) : Degrees := ps.foldl (fun d kv => degSet d kv.1 kv.2) []

/-- `_parse_kind`: `_CHORD_KINDS_BY_ABBREV[kind_str]` (`KeyError` cannot happen after the regex) -/
def parseKind (kind : List Char) : Except String Degrees :=
  match Gen.chordKindsByAbbrev.lookup kind with
  | some ps => .ok (degOfPairs ps)
  | none => .error "KeyError"

/-- `_add_scale_degree` / `_subtract_scale_degree` / `_alter_scale_degree` -/
def applyMod (d : Degrees) (m : Mod) : Except String Degrees :=
  if m.op = 0 then
    if (degGet d m.degree).isSome then .error "ChordSymbolError"
    else .ok (degSet d m.degree (if m.degree = 7 then m.alter - 1 else m.alter))
  else if m.op = 1 then
    if (degGet d m.degree).isNone then .error "ChordSymbolError"
    else .ok (degDel d m.degree)
  else
    match degGet d m.degree with
    | some a => .ok (degSet d m.degree (a + m.alter))
    | none => .ok (degSet d m.degree m.alter)

/-- `_apply_modifications` -/
def applyMods : Degrees → List Mod → Except String Degrees
  | d, [] => .ok d
  | d, m :: ms => match applyMod d m with
      | .ok d' => applyMods d' ms
      | .error e => .error e

/-- the triad test at the end of `chord_symbol_quality` -/
def qualityOfDegrees (d : Degrees) : Nat :=
  match degGet d 1, degGet d 3, degGet d 5 with
  | some a, some b, some c =>
      if a = 0 ∧ b = 0 ∧ c = 0 then Gen.CHORD_QUALITY_MAJOR
      else if a = 0 ∧ b = -1 ∧ c = 0 then Gen.CHORD_QUALITY_MINOR
      else if a = 0 ∧ b = 0 ∧ c = 1 then Gen.CHORD_QUALITY_AUGMENTED
      else if a = 0 ∧ b = -1 ∧ c = -1 then Gen.CHORD_QUALITY_DIMINISHED
      else Gen.CHORD_QUALITY_OTHER
  | _, _, _ => Gen.CHORD_QUALITY_OTHER

/-- `_pitch_class_to_midi(step, alter)` = `(_STEPS_MIDI[step] + alter) % 12` -/
def pitchClassToMidi (step : Char) (alter : Int) : Except String Int :=
  match Gen.stepsMidi.lookup step with
  | some m => .ok (Int.fmod (m + alter) 12)
  | none => .error "KeyError"

/-- `chord_symbol_quality` on a structured symbol -/
def symQuality (kind : List Char) (mods : List Mod) : Except String Nat :=
  match parseKind kind with
  | .error e => .error e
  | .ok d => match applyMods d mods with
      | .error e => .error e
      | .ok d' => .ok (qualityOfDegrees d')

/-- root pitch class and quality that `chord_symbol_root` / `chord_symbol_quality` give an event
(`none` for `NO_CHORD`, which the encoders test first) -/
def rootQuality : ChordEvent → Except String (Option (Int × Nat))
  | .noChord => .ok none
  | .sym step alter kind mods =>
      match pitchClassToMidi step alter with
      | .error e => .error e
      | .ok r => match symQuality kind mods with
          | .error e => .error e
          | .ok q => .ok (some (r, q))

/-- `_parse_pitch_class` on the characters of a pitch-class name: `([A-G])(#*|b*)$`, alteration
`len(alter) * (1 if '#' in alter else -1)` -/
def parsePitchClass : List Char → Option (Char × Int)
  | [] => none
  | c :: rest =>
      if 'A' ≤ c ∧ c ≤ 'G' then
        if rest.all (· == '#') then some (c, (rest.length : Int))
        else if rest.all (· == 'b') then some (c, -(rest.length : Int))
        else none
      else none

/-- the string layer on a *decoded* name: `_split_chord_symbol(name + suffix)` is
`(name, suffix, '', '')` (modelled; checked against the real regex for every index on every run) -/
def structured : ChordDecoded → Option ChordEvent
  | .noChord => some .noChord
  | .name root suffix => match parsePitchClass root with
      | some (step, alter) => some (.sym step alter suffix [])
      | none => none

/-- `MajorMinorChordOneHotEncoding.num_classes` -/
def mmNumClasses : Int := 2 * Gen.NOTES_PER_OCTAVE + 1

/-- `MajorMinorChordOneHotEncoding.encode_event` -/
def mmEncode : ChordEvent → Except String Int
  | .noChord => .ok 0
  | .sym step alter kind mods =>
      match pitchClassToMidi step alter with
      | .error e => .error e
      | .ok root => match symQuality kind mods with
          | .error e => .error e
          | .ok q =>
              if q = Gen.CHORD_QUALITY_MAJOR then .ok (root + 1)
              else if q = Gen.CHORD_QUALITY_MINOR then .ok (root + Gen.NOTES_PER_OCTAVE + 1)
              else .error "ChordEncodingError"

/-- `MajorMinorChordOneHotEncoding.decode_event` (the literal `12` is the source's) -/
def mmDecode (index : Int) : Except String ChordDecoded :=
  if index = 0 then .ok .noChord
  else if index - 1 < 12 then
    match pyIndex Gen.pitchClassMapping (index - 1) with
    | .ok n => .ok (.name n [])
    | .error e => .error e
  else
    match pyIndex Gen.pitchClassMapping (index - Gen.NOTES_PER_OCTAVE - 1) with
    | .ok n => .ok (.name n ['m'])
    | .error e => .error e

/-- `TriadChordOneHotEncoding.num_classes` -/
def triadNumClasses : Int := 4 * Gen.NOTES_PER_OCTAVE + 1

/-- `TriadChordOneHotEncoding.encode_event` -/
def triadEncode : ChordEvent → Except String Int
  | .noChord => .ok 0
  | .sym step alter kind mods =>
      match pitchClassToMidi step alter with
      | .error e => .error e
      | .ok root => match symQuality kind mods with
          | .error e => .error e
          | .ok q =>
              if q = Gen.CHORD_QUALITY_MAJOR then .ok (root + 1)
              else if q = Gen.CHORD_QUALITY_MINOR then .ok (root + Gen.NOTES_PER_OCTAVE + 1)
              else if q = Gen.CHORD_QUALITY_AUGMENTED then .ok (root + 2 * Gen.NOTES_PER_OCTAVE + 1)
              else if q = Gen.CHORD_QUALITY_DIMINISHED then .ok (root + 3 * Gen.NOTES_PER_OCTAVE + 1)
              else .error "ChordEncodingError"

/-- `TriadChordOneHotEncoding.decode_event` -/
def triadDecode (index : Int) : Except String ChordDecoded :=
  let name (k : Int) (suffix : List Char) : Except String ChordDecoded :=
    match pyIndex Gen.pitchClassMapping k with
    | .ok n => .ok (.name n suffix)
    | .error e => .error e
  if index = 0 then .ok .noChord
  else if index - 1 < 12 then name (index - 1) []
  else if index - Gen.NOTES_PER_OCTAVE - 1 < 12 then name (index - Gen.NOTES_PER_OCTAVE - 1) ['m']
  else if index - 2 * Gen.NOTES_PER_OCTAVE - 1 < 12 then
    name (index - 2 * Gen.NOTES_PER_OCTAVE - 1) ['a', 'u', 'g']
  else name (index - 3 * Gen.NOTES_PER_OCTAVE - 1) ['d', 'i', 'm']

/-! ### NoteDensityOneHotEncoding (`performance_controls.py`)

Only comparisons of the event with the boundaries are performed, so the model over `Rat` is exact
for Python floats (every finite float is a rational; NaN / inf are outside the model). -/

/-- the `for idx, density in enumerate(...)` loop of `encode_event`, `idx` = running index;
falling off the end returns `len(self._density_bin_ranges)` = the running index there -/
def densEncodeAux : List Rat → Nat → Rat → Nat
  | [], idx, _ => idx
  | d :: ds, idx, x => if x < d then idx else densEncodeAux ds (idx + 1) x

def densEncode (bounds : List Rat) (x : Rat) : Nat := densEncodeAux bounds 0 x

/-- `decode_event` -/
def densDecode (bounds : List Rat) (index : Int) : Except String Rat :=
  if index = 0 then .ok 0 else pyIndex bounds (index - 1)

def densNumClasses (bounds : List Rat) : Nat := bounds.length + 1

end NSV.C09
