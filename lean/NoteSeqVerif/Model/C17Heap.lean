import NoteSeqVerif.Model.C17
/-! C17 — object identity: several objects per history (core Lean only).

`Model/C17.lean` describes what one call does to its receiver.  A Python history, however, holds
several objects: `copy.deepcopy(s)` and `s[i:j]` RETURN a new object and leave `s` alive, and the
caller may go on with either.  This file adds that layer.

* `Heap σ` / `hskip` — a list of objects of one class plus the index of the object the next call
  goes to.  A call that returns a new object (`Sem.fresh`: slice, strided slice, deepcopy) leaves
  its receiver alone, appends the result and makes it current; every other call replaces the
  receiver's state; `switch k` makes object `k` current.  Objects never share storage: that is
  what `SimpleEventSequence._from_event_list` (`list(events)`), `__getitem__` (a new list) and the
  default `copy.deepcopy` (PianorollSequence, Performance) do, and the lock-step check observes
  every object of the real heap to confirm it.
* `LStore` / `sskip` — `LeadSheet` holds REFERENCES to a `Melody` and a `ChordProgression` object
  (`self._melody = melody`): cells of melodies, cells of chord progressions, lead sheets as pairs
  of cell indices.  `append` / `set_length` / `increase_resolution` mutate the two cells in place
  (and are therefore seen by every lead sheet built from the same objects), slice / deepcopy /
  construction from event lists allocate fresh cells, `_reset` rebinds the receiver to two fresh
  cells, `share a b` is `LeadSheet(leads[a].melody, leads[b].chords)` (no copy — the constructor
  stores the objects it is given), and `melody op` / `chords op` call an in-place method of the
  current lead sheet's melody / chords object directly, behind the lead sheet's back. -/
namespace NSV.C17

/-! ### objects of one class -/

/-- the per-class semantics a heap is built over -/
structure Sem (σ ο : Type) where
  /-- result / exception of the call -/
  step : σ → ο → Except Err σ
  /-- the receiver after the call, for a caller that catches the exception -/
  skip : σ → ο → σ
  /-- does a successful call return a new object and leave the receiver as it is? -/
  fresh : ο → Bool

structure Heap (σ : Type) where
  objs : List σ
  cur : Nat
deriving Repr

inductive HOp (ο : Type)
  | op (o : ο)
  | switch (k : Nat)
deriving Repr

section Generic
variable {σ ο : Type}

/-- exception status of one heap operation (`switch` to an object that does not exist: IndexError
of the harness's object list) -/
def hstatus (m : Sem σ ο) (h : Heap σ) : HOp ο → Except Err Unit
  | .switch k => if k < h.objs.length then .ok () else .error .indexError
  | .op o =>
      match h.objs[h.cur]? with
      | none => .error .indexError
      | some s => (m.step s o).map (fun _ => ())

/-- the heap after one operation of a caller that catches exceptions -/
def hskip (m : Sem σ ο) (h : Heap σ) : HOp ο → Heap σ
  | .switch k => if k < h.objs.length then { h with cur := k } else h
  | .op o =>
      match h.objs[h.cur]? with
      | none => h
      | some s =>
          if m.fresh o then
            (match m.step s o with
             | .ok s' => ⟨h.objs ++ [s'], h.objs.length⟩
             | .error _ => h)
          else { h with objs := h.objs.set h.cur (m.skip s o) }

def hrun (m : Sem σ ο) (h : Heap σ) (ops : List (HOp ο)) : Heap σ := ops.foldl (hskip m) h

end Generic

/-- SimpleEventSequence family: slices and deepcopy return new objects -/
def opFresh {α : Type} : Op α → Bool
  | .slice _ _ => true
  | .sliceStep _ _ _ => true
  | .deepcopy => true
  | _ => false

def seqSem {α : Type} (c : Cls α) : Sem (Seq α) (Op α) := ⟨step c, stepSkip c, opFresh⟩

def rollFresh : ROp → Bool
  | .deepcopy => true
  | _ => false

def rollSem : Sem Roll ROp := ⟨rstep, rstepSkip, rollFresh⟩

def perfFresh : POp → Bool
  | .deepcopy => true
  | _ => false

def perfSem : Sem Perf POp := ⟨pstep, pstepSkip, perfFresh⟩

def nperfFresh : NOp → Bool
  | .deepcopy => true
  | _ => false

def nperfSem : Sem NPerf NOp := ⟨nstep, nstepSkip, nperfFresh⟩

/-! ### lead sheets: references to melody and chord objects -/

structure LStore where
  mels : List (Seq Int)
  chds : List (Seq String)
  /-- `(index of the Melody object, index of the ChordProgression object)` -/
  leads : List (Nat × Nat)
  cur : Nat
deriving Repr

inductive SOp
  | lead (op : LOp)
  | switch (k : Nat)
  | share (a b : Nat)
  | melody (op : Op Int)
  | chords (op : Op String)
deriving Repr

/-- the lead sheet `k` as a value: what its methods see through the two references -/
def LStore.view (st : LStore) (k : Nat) : Option LeadSheet :=
  match st.leads[k]? with
  | none => none
  | some (mi, ci) =>
      match st.mels[mi]?, st.chds[ci]? with
      | some m, some c => some ⟨m, c⟩
      | _, _ => none

/-- does the LeadSheet call return a new lead sheet? -/
def lopFresh : LOp → Bool
  | .slice _ _ => true
  | .sliceStep _ _ _ => true
  | .deepcopy => true
  | .init .. => true
  | _ => false

/-- what one call does to the store -/
inductive Effect
  /-- nothing (an exception before any mutation, or a call that has no effect) -/
  | none
  /-- the caller goes on with lead sheet `k` -/
  | setCur (k : Nat)
  /-- the Melody and the ChordProgression object of the current lead sheet are mutated in place -/
  | write (m : Seq Int) (c : Seq String)
  /-- a new lead sheet with a new Melody and a new ChordProgression object; it becomes current -/
  | alloc (l : LeadSheet)
  /-- the current lead sheet drops its two objects and gets two new ones (`_reset`) -/
  | rebind (l : LeadSheet)
  /-- a new lead sheet holding the Melody object of lead sheet `a` and the ChordProgression object
  of lead sheet `b`; it becomes current -/
  | share (a b : Nat)
deriving Repr

/-- the effect of a call, computed from what the call sees through the references -/
def effect (st : LStore) : SOp → Effect
  | .switch k => if k < st.leads.length then .setCur k else .none
  | .lead op =>
      match st.view st.cur with
      | none => .none
      | some l =>
          match lstep l op with
          | .error _ => .none
          | .ok l' =>
              if lopFresh op then .alloc l'
              else match op with
                | .reset => .rebind l'      -- `self._melody = Melody(); self._chords = ChordProgression()`
                | _ => .write l'.melody l'.chords
  | .share a b =>
      match st.view a, st.view b with
      | some la, some lb =>
          (match mkLeadSheet la.melody lb.chords with
           | .ok _ => .share a b
           | .error _ => .none)
      | _, _ => .none
  | .melody op =>
      match st.view st.cur with
      | none => .none
      | some l => if opFresh op then .none else .write (stepSkip melodyCls l.melody op) l.chords
  | .chords op =>
      match st.view st.cur with
      | none => .none
      | some l => if opFresh op then .none else .write l.melody (stepSkip chordCls l.chords op)

def LStore.apply (st : LStore) : Effect → LStore
  | .none => st
  | .setCur k => { st with cur := k }
  | .write m c =>
      match st.leads[st.cur]? with
      | some (mi, ci) => { st with mels := st.mels.set mi m, chds := st.chds.set ci c }
      | none => st
  | .alloc l =>
      ⟨st.mels ++ [l.melody], st.chds ++ [l.chords], st.leads ++ [(st.mels.length, st.chds.length)], st.leads.length⟩
  | .rebind l =>
      { st with mels := st.mels ++ [l.melody], chds := st.chds ++ [l.chords],
                leads := st.leads.set st.cur (st.mels.length, st.chds.length) }
  | .share a b =>
      match st.leads[a]?, st.leads[b]? with
      | some (ma, _), some (_, cb) => { st with leads := st.leads ++ [(ma, cb)], cur := st.leads.length }
      | _, _ => st

/-- exception status of one call -/
def sstatus (st : LStore) : SOp → Except Err Unit
  | .switch k => if k < st.leads.length then .ok () else .error .indexError
  | .lead op =>
      match st.view st.cur with
      | none => .error .indexError
      | some l => (lstep l op).map (fun _ => ())
  | .share a b =>
      match st.view a, st.view b with
      | some la, some lb => (mkLeadSheet la.melody lb.chords).map (fun _ => ())
      | _, _ => .error .indexError
  | .melody op =>
      match st.view st.cur with
      | none => .error .indexError
      | some l => if opFresh op then .error .notImplemented else (step melodyCls l.melody op).map (fun _ => ())
  | .chords op =>
      match st.view st.cur with
      | none => .error .indexError
      | some l => if opFresh op then .error .notImplemented else (step chordCls l.chords op).map (fun _ => ())

/-- the store after one call of a caller that catches exceptions -/
def sskip (st : LStore) (op : SOp) : LStore := st.apply (effect st op)

def srun (st : LStore) (ops : List SOp) : LStore := ops.foldl sskip st

/-- a store with one lead sheet built from the given event lists -/
def LStore.single (l : LeadSheet) : LStore := ⟨[l.melody], [l.chords], [(0, 0)], 0⟩

end NSV.C17
