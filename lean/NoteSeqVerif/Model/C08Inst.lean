import NoteSeqVerif.Model.C08
import NoteSeqVerif.Model.C09
/-! C08 — the concrete `OneHotEncoding`s the sequence encoders are instantiated with in note_seq:
the melody encoding (definitions transliterated from the Python source, `Generated/C09.lean`) and the
performance encoding (C09's range-list model plus the `PerformanceEvent` constructor's validation). -/
namespace NSV.C08

/-- `MelodyOneHotEncoding(min_note, max_note)` -/
def melOneHot (mn mx : Int) : OneHot Int where
  numClasses := C09.Gen.melNumClasses mn mx
  encode := C09.Gen.melEncode mn mx
  decode i := .ok (C09.Gen.melDecode mn i)
  default := Gen.MELODY_NO_EVENT
  numSteps _ := 1

/-- `PerformanceOneHotEncoding(num_velocity_bins, max_shift_steps, min_pitch, max_pitch)`; an event is
`(event_type, event_value)`; `decode_event` constructs a `PerformanceEvent`, which validates -/
def perfOneHot (bins ms lo hi : Int) : OneHot (Nat × Int) where
  numClasses := C09.perfNumClasses bins ms lo hi
  encode e := C09.perfEncode bins ms lo hi e.1 e.2
  decode i := match C09.perfDecode bins ms lo hi i with
    | .ok (ty, v) => if perfEventOk ty v then .ok (ty, v) else .error "ValueError"
    | .error e => .error e
  default := (Gen.TIME_SHIFT, ms)
  numSteps e := if e.1 = Gen.TIME_SHIFT then e.2 else 0

end NSV.C08
