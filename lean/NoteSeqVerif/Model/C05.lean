import NoteSeqVerif.Model.NoteSeq
import NoteSeqVerif.Generated.C05
/-! C05 — the MusicXML parser (`musicxml_parser.py`: `MusicXMLParserState`, `MusicXMLDocument._parse`,
`ScorePart`, `Part._parse` / `_repair_empty_measure`, `Measure._parse*` / `_fix_time_signature`,
`Note._parse` / `_parse_pitch` / `pitch_to_midi_pitch`, `NoteDuration.parse_duration` /
`duration_ratio`, `ChordSymbol`, `TimeSignature`, `KeySignature`, `Tempo`, the `get_*`
de-duplication) and the reader (`musicxml_reader.musicxml_to_sequence_proto`), transcribed on an
ABSTRACT SCORE: parts → measures → element list.  `xml.etree` and `zipfile` are not modelled: the
harness renders the abstract score to MusicXML text (and to a compressed `.mxl`) for the real code
and to wire tokens for this model.  Texts that Python turns into numbers (`int(..)`, `float(..)`)
arrive already converted (or as `bad` when the conversion would raise `ValueError`).

Every definition takes the rounding operator `R` applied after each float operation, in the
operation order of the Python; the driver instantiates `R := rne53`, the theorems use `R := id`.
The model follows the code as it is, including the tempo state that is not reset per part
(open finding F-C05-4). -/
namespace NSV.C05
open NSV

/-- exceptions the modelled Python raises (names = Python classes) -/
inductive Err
  | unpitchedNoteError | pitchStepParseError | chordSymbolParseError
  | multipleTimeSignatureError | alternatingTimeSignatureError | timeSignatureParseError
  | keyParseError | invalidNoteDurationTypeError
  | zeroDivisionError | attributeError | indexError
deriving DecidableEq, Repr

def Err.name : Err → String
  | .unpitchedNoteError => "UnpitchedNoteError"
  | .pitchStepParseError => "PitchStepParseError"
  | .chordSymbolParseError => "ChordSymbolParseError"
  | .multipleTimeSignatureError => "MultipleTimeSignatureError"
  | .alternatingTimeSignatureError => "AlternatingTimeSignatureError"
  | .timeSignatureParseError => "TimeSignatureParseError"
  | .keyParseError => "KeyParseError"
  | .invalidNoteDurationTypeError => "InvalidNoteDurationTypeError"
  | .zeroDivisionError => "ZeroDivisionError"
  | .attributeError => "AttributeError"
  | .indexError => "IndexError"

/-! ## the abstract score -/

/-- a text Python passes to `int()`: the parsed value, or `bad` when `int()` raises `ValueError` -/
inductive IntTxt | int (i : Int) | bad
deriving DecidableEq, Repr

inductive NoteKind
  /-- `<pitch><step/><alter/>?<octave/></pitch>`; `alter` is `float(text)` (0 when absent) -/
  | pitched (step : String) (alter : Rat) (octave : Int)
  | rest
  | unpitched
deriving DecidableEq, Repr

/-- `<note>`: children in schema order `chord? (pitch|rest|unpitched) duration? voice? type? dot*
time-modification?` -/
structure NoteEl where
  kind : NoteKind
  chord : Bool
  /-- `none`: no `<duration>` (grace note) -/
  duration : Option Int
  voice : Option Int
  type : Option String
  dots : Nat
  /-- `<actual-notes>`, `<normal-notes>` -/
  tuplet : Option (Int × Int)
deriving DecidableEq, Repr

/-- children of `<attributes>` the parser looks at, in document order -/
inductive AttrChild
  | divisions (d : Int)
  /-- `fifths = none`: no `<fifths>` element; `mode`: text of `<mode>` if present -/
  | key (fifths : Option Int) (mode : Option String)
  /-- all `<beats>` texts and all `<beat-type>` texts -/
  | time (beats : List IntTxt) (beatTypes : List IntTxt)
  | transpose (chromatic : Int)
deriving DecidableEq, Repr

/-- `<sound tempo=? dynamics=?/>` inside a `<direction>`; tempo is `float(text)` -/
structure Sound where
  tempo : Option Rat
  dynamics : Option Int
deriving DecidableEq, Repr

/-- children of `<harmony>` the parser looks at, in document order -/
inductive HChild
  /-- `<root>`: `root-step` text (none: element missing), `root-alter` text (none: missing) -/
  | root (step : Option String) (alter : Option IntTxt)
  /-- `<kind>` text, stripped (none: empty element) -/
  | kind (text : Option String)
  /-- `<degree>`: `value = none` when `degree-value` is missing, empty or not an integer;
  `type = none` when `degree-type` is missing -/
  | degree (value : Option Int) (alter : Option IntTxt) (type : Option String)
  | bass (step : Option String) (alter : Option IntTxt)
  | offset (v : IntTxt)
deriving DecidableEq, Repr

/-- children of `<measure>` -/
inductive El
  | attributes (cs : List AttrChild)
  | note (n : NoteEl)
  | backup (d : Int)
  | forward (d : Int)
  | direction (sounds : List Sound)
  | harmony (cs : List HChild)
  /-- any other tag (ignored) -/
  | other
deriving DecidableEq, Repr

/-- `<score-part id=…>` with the texts of `<midi-channel>` / `<midi-program>` when present -/
structure ScorePartEl where
  id : String
  channel : Option Int
  program : Option Int
deriving DecidableEq, Repr

structure PartEl where
  /-- the `id` attribute (`''` when absent, as in `Part.__init__`) -/
  id : String
  measures : List (List El)
deriving DecidableEq, Repr

structure Score where
  scoreParts : List ScorePartEl
  parts : List PartEl
deriving DecidableEq, Repr

/-! ## parser state and parsed objects -/

/-- `TimeSignature` (`__eq__` compares exactly these three fields) -/
structure TSig where
  num : Int
  den : Int
  time : Rat
deriving DecidableEq, Repr

/-- `KeySignature` (`__eq__`: key, mode, time_position) -/
structure KSig where
  key : Int
  minor : Bool
  time : Rat
deriving DecidableEq, Repr

structure TempoMark where
  time : Rat
  qpm : Rat
deriving DecidableEq, Repr

structure ChordSym where
  time : Rat
  figure : String
deriving DecidableEq, Repr

/-- the fields of a parsed `Note` / `NoteDuration` the reader uses -/
structure PNote where
  voice : Int
  isRest : Bool
  pitch : Int
  channel : Int
  program : Int
  velocity : Int
  /-- `note_duration.duration` (MusicXML divisions) -/
  duration : Int
  /-- `note_duration.time_position` -/
  time : Rat
  /-- `note_duration.seconds` -/
  seconds : Rat
  type : String
  dots : Nat
  tuplet : Rat
  grace : Bool
deriving DecidableEq, Repr

/-- `MusicXMLParserState` -/
structure PState where
  divisions : Int
  qpm : Rat
  spq : Rat
  tp : Rat
  velocity : Int
  program : Int
  channel : Int
  /-- `previous_note`: its `duration` and `time_position` -/
  prev : Option (Int × Rat)
  transpose : Int
  ts : Option TSig
deriving DecidableEq, Repr

def PState.init : PState :=
  { divisions := Gen.INIT_DIVISIONS, qpm := Gen.INIT_QPM, spq := Gen.INIT_SPQ, tp := 0,
    velocity := Gen.INIT_VELOCITY, program := Gen.DEFAULT_MIDI_PROGRAM,
    channel := Gen.DEFAULT_MIDI_CHANNEL, prev := none, transpose := 0, ts := none }

/-- a `Measure` object while / after it is parsed -/
structure MState where
  notes : List PNote := []
  chords : List ChordSym := []
  tempos : List TempoMark := []
  ts : Option TSig := none
  ks : Option KSig := none
  /-- sum of the durations of the voice-1 non-chord notes -/
  duration : Int := 0
deriving DecidableEq, Repr

/-! ## durations → seconds -/

/-- `d * (STANDARD_PPQ / divisions)`, then `(ticks / STANDARD_PPQ) * seconds_per_quarter`
(the arithmetic shared by `parse_duration`, `_parse_backup`, `_parse_forward`) -/
def secondsOf (R : Rat → Rat) (st : PState) (d : Int) : Except Err Rat :=
  if st.divisions = 0 then .error .zeroDivisionError
  else
    let ticks := R ((d : Rat) * R ((Gen.STANDARD_PPQ : Rat) / (st.divisions : Rat)))
    .ok (R (R (ticks / (Gen.STANDARD_PPQ : Rat)) * st.spq))

/-- `<harmony><offset>`: `offset * STANDARD_PPQ / divisions`, then `ticks / STANDARD_PPQ * spq` -/
def offsetSeconds (R : Rat → Rat) (st : PState) (o : Int) : Except Err Rat :=
  if st.divisions = 0 then .error .zeroDivisionError
  else
    let ticks := R (((o * Gen.STANDARD_PPQ : Int) : Rat) / (st.divisions : Rat))
    .ok (R (R (ticks / (Gen.STANDARD_PPQ : Rat)) * st.spq))

/-! ## notes -/

/-- Python `Fraction(n, d)` for `d ≠ 0` -/
def pyFraction (n d : Int) : Rat := mkRat (if d < 0 then -n else n) d.natAbs

/-- `Note.pitch_to_midi_pitch(step, alter, octave)` -/
def pitchToMidi (step : String) (alter : Rat) (octave : Int) : Except Err Int :=
  match Gen.stepTable.lookup step with
  | none => .error .pitchStepParseError
  | some pc => .ok ((12 + (pc + truncR alter)) + octave * 12)

def lookupType (t : String) : Option Rat := Gen.typeRatioMap.lookup t

/-- `Note._parse` for children in schema order, including `NoteDuration.parse_duration` -/
def parseNote (R : Rat → Rat) (st : PState) (n : NoteEl) : Except Err (PState × PNote) :=
  -- <pitch> / <rest> / <unpitched>
  let pitchE : Except Err Int := match n.kind with
    | .pitched step alter octave => match pitchToMidi step alter octave with
        | .ok p => .ok (p + st.transpose)
        | .error e => .error e
    | .rest => .ok 0
    | .unpitched => .error .unpitchedNoteError
  match pitchE with
  | .error e => .error e
  | .ok pitch =>
    -- <duration>
    let durE : Except Err (PState × Int × Rat × Rat × Bool) := match n.duration with
      | none => .ok (st, 0, 0, 0, true)
      | some d0 =>
        if n.chord then
          match st.prev with
          | none => .error .attributeError
          | some (pd, pt) => match secondsOf R st pd with
              | .error e => .error e
              | .ok sec => .ok (st, pd, pt, sec, false)
        else
          match secondsOf R st d0 with
          | .error e => .error e
          | .ok sec => .ok ({ st with tp := R (st.tp + sec) }, d0, st.tp, sec, false)
    match durE with
    | .error e => .error e
    | .ok (st1, dur, time, sec, grace) =>
      -- <type>
      let tyE : Except Err String := match n.type with
        | none => .ok "quarter"
        | some t => if (lookupType t).isSome then .ok t else .error .invalidNoteDurationTypeError
      match tyE with
      | .error e => .error e
      | .ok ty =>
        -- <time-modification>: Fraction(actual, normal)
        let tupE : Except Err Rat := match n.tuplet with
          | none => .ok 1
          | some (a, b) => if b = 0 then .error .zeroDivisionError else .ok (pyFraction a b)
        match tupE with
        | .error e => .error e
        | .ok tup =>
          .ok (st1, { voice := n.voice.getD 1, isRest := n.kind == .rest, pitch := pitch,
                      channel := st.channel, program := st.program, velocity := st.velocity,
                      duration := dur, time := time, seconds := sec, type := ty, dots := n.dots,
                      tuplet := tup, grace := grace })

/-! ## attributes -/

/-- `TimeSignature._parse` -/
def parseTime (st : PState) (beats beatTypes : List IntTxt) : Except Err TSig :=
  if beats.length > 1 ∨ beatTypes.length > 1 then .error .alternatingTimeSignatureError
  else match beats, beatTypes with
    | [b], [t] => match b, t with
        | .int n, .int d => .ok ⟨n, d, st.tp⟩
        | _, _ => .error .timeSignatureParseError
    | _, _ => .error .attributeError     -- `find('beats')` is None

/-- one child of `<attributes>` (`Measure._parse_attributes`) -/
def parseAttr (st : PState) (m : MState) : AttrChild → Except Err (PState × MState)
  | .divisions d => .ok ({ st with divisions := d }, m)
  | .key fifths mode => match fifths with
      | none => .error .keyParseError
      | some f => .ok (st, { m with ks := some ⟨f, mode == some "minor", st.tp⟩ })
  | .time beats beatTypes => match m.ts with
      | some _ => .error .multipleTimeSignatureError
      | none => match parseTime st beats beatTypes with
          | .error e => .error e
          | .ok ts => .ok ({ st with ts := some ts }, { m with ts := some ts })
  | .transpose c =>
      let st' := { st with transpose := c }
      match m.ks with
      | none => .ok (st', m)
      | some k =>
          let newKey := k.key + Int.fmod (c * (-5)) 12
          let newKey := if newKey > 6 then newKey - 12 else newKey
          .ok (st', { m with ks := some { k with key := newKey } })

def parseAttrs (st : PState) (m : MState) : List AttrChild → Except Err (PState × MState)
  | [] => .ok (st, m)
  | c :: cs => match parseAttr st m c with
      | .error e => .error e
      | .ok (st', m') => parseAttrs st' m' cs

/-! ## direction -/

/-- one `<sound>` of `Measure._parse_direction` (dynamics is read only next to a tempo) -/
def parseSound (R : Rat → Rat) (st : PState) (m : MState) (s : Sound) : PState × MState :=
  match s.tempo with
  | none => (st, m)
  | some q =>
      let qpm := if q = 0 then Gen.DEFAULT_QPM else q
      let st1 := { st with qpm := qpm, spq := R (60 / qpm) }
      let st2 := match s.dynamics with
        | none => st1
        | some v => { st1 with velocity := v }
      (st2, { m with tempos := m.tempos ++ [⟨st.tp, qpm⟩] })

def parseSounds (R : Rat → Rat) (st : PState) (m : MState) : List Sound → PState × MState
  | [] => (st, m)
  | s :: ss => let r := parseSound R st m s; parseSounds R r.1 r.2 ss

/-! ## harmony -/

/-- `ChordSymbol._alter_to_string` -/
def alterToString : IntTxt → Except Err String
  | .bad => .error .chordSymbolParseError
  | .int i => match Gen.alterStrings.lookup i with
      | some s => .ok s
      | none => .error .chordSymbolParseError

/-- `ChordSymbol._parse_pitch` (root or bass) -/
def parseHPitch (st : PState) (step : Option String) (alter : Option IntTxt) : Except Err String :=
  match step with
  | none => .error .chordSymbolParseError
  | some s =>
    let aE : Except Err String := match alter with
      | none => .ok ""
      | some t => alterToString t
    match aE with
    | .error e => .error e
    | .ok a => if st.transpose ≠ 0 then .error .chordSymbolParseError else .ok (s ++ a)

/-- `ChordSymbol._parse_degree` -/
def parseDegree (value : Option Int) (alter : Option IntTxt) (type : Option String) :
    Except Err String :=
  match value with
  | none => .error .chordSymbolParseError
  | some v =>
    let aE : Except Err String := match alter with
      | none => .ok ""
      | some t => alterToString t
    match aE with
    | .error e => .error e
    | .ok a =>
      match type with
      | none => .error .chordSymbolParseError
      | some t =>
        if t = "add" then .ok ((if a = "" then "add" else "") ++ a ++ toString v)
        else if t = "subtract" then .ok ("no" ++ toString v)
        else if t = "alter" then
          (if a = "" then .error .chordSymbolParseError else .ok (a ++ toString v))
        else .error .chordSymbolParseError

/-- the `ChordSymbol` object while its children are read -/
structure HState where
  time : Rat
  root : Option String := none
  kind : String := ""
  degrees : List String := []
  bass : Option String := none
deriving DecidableEq, Repr

def parseHChild (R : Rat → Rat) (st : PState) (h : HState) : HChild → Except Err HState
  | .root step alter => match parseHPitch st step alter with
      | .error e => .error e
      | .ok r => .ok { h with root := some r }
  | .kind none => .ok h
  | .kind (some t) => match Gen.chordKindAbbreviations.lookup t with
      | none => .error .chordSymbolParseError
      | some k => .ok { h with kind := k }
  | .degree v a t => match parseDegree v a t with
      | .error e => .error e
      | .ok d => .ok { h with degrees := h.degrees ++ [d] }
  | .bass step alter => match parseHPitch st step alter with
      | .error e => .error e
      | .ok r => .ok { h with bass := some r }
  | .offset .bad => .error .chordSymbolParseError
  | .offset (.int o) => match offsetSeconds R st o with
      | .error e => .error e
      | .ok sec => .ok { h with time := R (h.time + sec) }

def parseHChildren (R : Rat → Rat) (st : PState) (h : HState) : List HChild → Except Err HState
  | [] => .ok h
  | c :: cs => match parseHChild R st h c with
      | .error e => .error e
      | .ok h' => parseHChildren R st h' cs

/-- `ChordSymbol.get_figure_string` -/
def figureOf (h : HState) (root : String) : String :=
  let degs := String.join (h.degrees.map (fun d => "(" ++ d ++ ")"))
  let bass := match h.bass with
    | none => ""
    | some b => if b = "" then "" else "/" ++ b
  root ++ h.kind ++ degs ++ bass

/-- `ChordSymbol._parse` followed (in the reader) by `get_figure_string` -/
def parseHarmony (R : Rat → Rat) (st : PState) (cs : List HChild) : Except Err ChordSym :=
  match parseHChildren R st { time := st.tp } cs with
  | .error e => .error e
  | .ok h =>
    if h.kind = "N.C." then .ok ⟨h.time, h.kind⟩
    else match h.root with
      | none => .error .chordSymbolParseError
      | some r => .ok ⟨h.time, figureOf h r⟩

/-! ## measure -/

/-- one child of `<measure>` (`Measure._parse`) -/
def parseEl (R : Rat → Rat) (st : PState) (m : MState) : El → Except Err (PState × MState)
  | .attributes cs => parseAttrs st m cs
  | .backup d => match secondsOf R st d with
      | .error e => .error e
      | .ok sec => .ok ({ st with tp := R (st.tp - sec) }, m)
  | .forward d => match secondsOf R st d with
      | .error e => .error e
      | .ok sec => .ok ({ st with tp := R (st.tp + sec) }, m)
  | .direction sounds => .ok (parseSounds R st m sounds)
  | .note n => match parseNote R st n with
      | .error e => .error e
      | .ok (st', pn) =>
          .ok ({ st' with prev := some (pn.duration, pn.time) },
               { m with notes := m.notes ++ [pn],
                        duration := if pn.voice = 1 ∧ ¬ n.chord then m.duration + pn.duration
                                    else m.duration })
  | .harmony cs => match parseHarmony R st cs with
      | .error e => .error e
      | .ok c => .ok (st, { m with chords := m.chords ++ [c] })
  | .other => .ok (st, m)

def parseEls (R : Rat → Rat) (st : PState) (m : MState) : List El → Except Err (PState × MState)
  | [] => .ok (st, m)
  | e :: es => match parseEl R st m e with
      | .error e => .error e
      | .ok (st', m') => parseEls R st' m' es

/-- `Measure._fix_time_signature` (`start` = the cursor when the measure began) -/
def fixTimeSignature (st : PState) (m : MState) (start : Rat) : Except Err (PState × MState) :=
  let numerator := m.duration
  let denominator := st.divisions * 4
  if denominator = 0 then .error .zeroDivisionError
  else
    let fts := pyFraction numerator denominator
    match st.ts, m.ts with
    | none, none =>
        let ts : TSig := ⟨fts.num, fts.den, 0⟩
        .ok ({ st with ts := some ts }, { m with ts := some ts })
    | none, some _ => .error .attributeError    -- `None.numerator` (never reached by the parser)
    | some g, mts =>
        if g.den = 0 then .error .zeroDivisionError
        else
          let fsts := pyFraction g.num g.den
          let pickup : Bool := numerator < g.num
          let new : Int × Int :=
            if fts = 1 ∧ pickup = false then (g.den, g.den) else (fts.num, fts.den)
          if pickup = true ∨ (mts.isNone ∧ fts ≠ fsts) then
            let ts : TSig := ⟨new.1, new.2, start⟩
            .ok ({ st with ts := some ts }, { m with ts := some ts })
          else .ok (st, m)

def isNote : El → Bool | .note _ => true | _ => false
def isForward : El → Bool | .forward _ => true | _ => false

/-- the rest `_repair_empty_measure` inserts -/
def repairRest (d : Int) : El :=
  .note { kind := .rest, chord := false, duration := some d, voice := some 1, type := some "whole",
          dots := 0, tuplet := none }

/-- `Part._repair_empty_measure`: a measure with no note and exactly one `<forward>` loses the
forward and gets a whole-measure rest of that duration appended -/
def repairMeasure (els : List El) : List El :=
  if (els.filter isNote).length = 0 ∧ (els.filter isForward).length = 1 then
    match els.find? isForward with
    | some (.forward d) => els.filter (fun e => ! isForward e) ++ [repairRest d]
    | _ => els
  else els

/-- `Measure.__init__` on an already repaired element list -/
def parseMeasure (R : Rat → Rat) (st : PState) (els : List El) : Except Err (PState × MState) :=
  match parseEls R st {} els with
  | .error e => .error e
  | .ok (st', m) => fixTimeSignature st' m st.tp

/-! ## part, document -/

/-- `ScorePart._parse` → (midi_channel, midi_program) -/
def scorePartMidi (sp : ScorePartEl) : Int × Int :=
  match sp.channel, sp.program with
  | some c, some p => (c, p)
  | _, _ => (Gen.DEFAULT_MIDI_CHANNEL, Gen.DEFAULT_MIDI_PROGRAM)

/-- `self._score_parts[id]` (a dict: the last `<score-part>` with that id wins) or a default one -/
def lookupScorePart (sps : List ScorePartEl) (id : String) : Int × Int :=
  match (sps.filter (fun sp => sp.id = id)).getLast? with
  | some sp => scorePartMidi sp
  | none => (Gen.DEFAULT_MIDI_CHANNEL, Gen.DEFAULT_MIDI_PROGRAM)

def parseMeasures (R : Rat → Rat) (st : PState) : List (List El) → Except Err (PState × List MState)
  | [] => .ok (st, [])
  | els :: rest => match parseMeasure R st (repairMeasure els) with
      | .error e => .error e
      | .ok (st', m) => match parseMeasures R st' rest with
          | .error e => .error e
          | .ok (st'', ms) => .ok (st'', m :: ms)

/-- the state `Part._parse` starts from: cursor, channel, program and transposition are reset,
everything else (divisions, tempo, velocity, previous note, time signature) is inherited -/
def partStart (sps : List ScorePartEl) (st : PState) (p : PartEl) : PState :=
  let cp := lookupScorePart sps p.id
  { st with tp := 0, channel := cp.1, program := cp.2, transpose := 0 }

def parsePart (R : Rat → Rat) (sps : List ScorePartEl) (st : PState) (p : PartEl) :
    Except Err (PState × List MState) :=
  parseMeasures R (partStart sps st p) p.measures

/-- the part loop of `MusicXMLDocument._parse`; `total` is `total_time_secs` -/
def parseParts (R : Rat → Rat) (sps : List ScorePartEl) (st : PState) (total : Rat) :
    List PartEl → Except Err (PState × Rat × List (List MState))
  | [] => .ok (st, total, [])
  | p :: ps => match parsePart R sps st p with
      | .error e => .error e
      | .ok (st', ms) =>
          let total' := if st'.tp > total then st'.tp else total
          match parseParts R sps st' total' ps with
          | .error e => .error e
          | .ok (st'', t, rest) => .ok (st'', t, ms :: rest)

/-- a parsed `MusicXMLDocument` -/
structure Doc where
  parts : List (List MState)
  total : Rat
  /-- the parser state after the last part (`get_tempos` reads its `qpm`) -/
  final : PState
deriving Repr

def parseDoc (R : Rat → Rat) (sc : Score) : Except Err Doc :=
  match parseParts R sc.scoreParts PState.init 0 sc.parts with
  | .error e => .error e
  | .ok (st, total, parts) => .ok ⟨parts, total, st⟩

/-! ## reader -/

/-- `if x not in acc: acc.append(x)` over a list, in order -/
def dedup {α} [DecidableEq α] : List α → List α → List α
  | acc, [] => acc
  | acc, x :: xs => if x ∈ acc then dedup acc xs else dedup (acc ++ [x]) xs

def Doc.measures (d : Doc) : List MState := d.parts.flatten

/-- `get_time_signatures` -/
def getTimeSignatures (d : Doc) : List TSig := dedup [] (d.measures.filterMap (·.ts))

/-- `get_key_signatures` (default: C major at 0) -/
def getKeySignatures (d : Doc) : List KSig :=
  match dedup [] (d.measures.filterMap (·.ks)) with
  | [] => [⟨0, false, 0⟩]
  | l => l

/-- `get_tempos`: the first part's marks, or one default tempo carrying the final `state.qpm` -/
def getTempos (d : Doc) : List TempoMark :=
  match (match d.parts with | [] => [] | p :: _ => p.flatMap (·.tempos)) with
  | [] => [⟨0, d.final.qpm⟩]
  | l => l

/-- Python `lst[i]` -/
def pyIndex {α} (l : List α) (i : Int) : Except Err α :=
  let j := if i < 0 then i + l.length else i
  if j < 0 then .error .indexError
  else match l[j.toNat]? with
    | some a => .ok a
    | none => .error .indexError

/-- key and mode of the NoteSequence key signature (`MAJOR = 0`, `MINOR = 1`) -/
def readerKey (key : Int) (minor : Bool) : Except Err (Int × Int) :=
  match pyIndex Gen.musicProtoKeys (key + 7) with
  | .error e => .error e
  | .ok k => if minor then .ok (Int.fmod (k + 9) 12, 1) else .ok (k, 0)

def readerKeys : List KSig → Except Err (List KeySig)
  | [] => .ok []
  | k :: ks => match readerKey k.key k.minor with
      | .error e => .error e
      | .ok (key, mode) => match readerKeys ks with
          | .error e => .error e
          | .ok r => .ok (⟨k.time, key, mode⟩ :: r)

/-- `0.5^1 + … + 0.5^dots` times `r` (the loop of `duration_ratio`) -/
def dotSum (r : Rat) : Nat → Rat
  | 0 => 0
  | k + 1 => dotSum r k + (1 / 2 : Rat) ^ (k + 1) * r

/-- `NoteDuration.duration_ratio` -/
def durationRatio (n : PNote) : Except Err Rat :=
  match lookupType n.type with
  | none => .error .invalidNoteDurationTypeError   -- never: the type setter checked it
  | some tr =>
    if n.tuplet = 0 then .error .zeroDivisionError
    else
      let typeRatio := tr / n.tuplet
      if n.grace then .ok 0 else .ok (typeRatio + dotSum typeRatio n.dots)

/-- one note of the reader's note loop -/
def readerNote (R : Rat → Rat) (part : Nat) (n : PNote) : Except Err Note :=
  match durationRatio n with
  | .error e => .error e
  | .ok r =>
    let start := if n.time < 0 then 0 else n.time
    .ok { pitch := n.pitch, velocity := n.velocity, start := start, end_ := R (start + n.seconds),
          qs := 0, qe := 0, instrument := n.channel, program := n.program, isDrum := false,
          numerator := r.num, denominator := r.den, voice := n.voice, part := part, pitchName := 0 }

def readerNotes (R : Rat → Rat) (part : Nat) : List PNote → Except Err (List Note)
  | [] => .ok []
  | n :: ns =>
    if n.isRest then readerNotes R part ns
    else match readerNote R part n with
      | .error e => .error e
      | .ok x => match readerNotes R part ns with
          | .error e => .error e
          | .ok r => .ok (x :: r)

def readerParts (R : Rat → Rat) : Nat → List (List MState) → Except Err (List Note)
  | _, [] => .ok []
  | i, p :: ps => match readerNotes R i (p.flatMap (·.notes)) with
      | .error e => .error e
      | .ok a => match readerParts R (i + 1) ps with
          | .error e => .error e
          | .ok b => .ok (a ++ b)

/-- `musicxml_to_sequence_proto`; `metaTag` carries the number of `part_infos` -/
def toSequence (R : Rat → Rat) (d : Doc) : Except Err NoteSeq :=
  match readerKeys (getKeySignatures d) with
  | .error e => .error e
  | .ok ks => match readerParts R 0 d.parts with
    | .error e => .error e
    | .ok notes =>
      .ok { notes := notes,
            tempos := (getTempos d).map (fun t => ⟨t.time, t.qpm⟩),
            timeSigs := (getTimeSignatures d).map (fun t => ⟨t.time, t.num, t.den⟩),
            keySigs := ks,
            texts := (d.measures.flatMap (·.chords)).map (fun c => ⟨c.time, 0, 1, c.figure⟩),
            totalTime := d.total,
            tpq := Gen.STANDARD_PPQ,
            metaTag := s!"parts{d.parts.length}" }

/-- `musicxml_file_to_sequence_proto` on an abstract score -/
def convertR (R : Rat → Rat) (sc : Score) : Except Err NoteSeq :=
  match parseDoc R sc with
  | .error e => .error e
  | .ok d => toSequence R d

def convert := convertR rne53

/-! ## `.mxl` container: choice of the root file (`MusicXMLDocument._get_score`) -/

/-- `rootfiles`: (`media-type` attribute if present, `full-path`); result: the chosen path.
`none` = `MusicXMLParseError` -/
def chooseRootfile (musicxmlMime : String) : String → List (Option String × String) → Option String
  | cur, [] => if cur = "" then none else some cur
  | cur, (mt, path) :: rest =>
      match mt with
      | some t =>
          if t = musicxmlMime then
            (if cur = "" then chooseRootfile musicxmlMime path rest else none)
          else chooseRootfile musicxmlMime cur rest
      | none => if cur = "" then chooseRootfile musicxmlMime path rest else none

end NSV.C05
