import NoteSeqVerif.Model.NoteSeq
import NoteSeqVerif.Generated.C03
/-! C03 — NoteSequence → MIDI → NoteSequence (`midi_io.py`).

note-seq's own logic is transcribed here:
* `writePM`  = `note_sequence_to_pretty_midi` (initial tempo choice, `drop_events_n_seconds_after_last_note`,
  time/key signature conversion with the minor offset, the tempo loop building `_tick_scales`, grouping of
  notes / bends / controls by `(instrument, program, is_drum)` and the instrument loop with the
  `first_instrument_used` flag);
* `readPM`   = `midi_to_note_sequence` applied to a PrettyMIDI object (happy path + the three explicit
  `MIDIConversionError` raises).

THIRD-PARTY code that the writer calls is transcribed too, because the tempo loop's result depends on it:
`tickToTime` / `timeToTick` / `getTempoChanges` are `pretty_midi.PrettyMIDI._update_tick_to_time`,
`time_to_tick`, `get_tempo_changes` (pretty_midi 0.2.x).  They belong to the trusted base and are validated
bit-exactly against the installed pretty_midi on every run (stream `tickmap`).  The container constructors'
argument validation (`TimeSignature`, `KeySignature`, `Note`, `program_to_instrument_name`) appears as
`ValueError` values.  `transport` is NOT a transcription: it is the explicit contract assumed of
`PrettyMIDI.write` → mido → `PrettyMIDI(file)`, monitored end to end, never proved.

Every definition takes the rounding operator `R` applied after each float operation (driver: `rne53`,
exact-arithmetic theorems: `id`). -/
namespace NSV.C03
open NSV

/-! ## 1. pretty_midi's piecewise-linear tick ↔ time map (third party, transcribed) -/

/-- `_tick_scales = [(0, c0)] ++ rest` (the list is never empty and always starts at tick 0) -/
structure TickMap where
  c0 : Rat
  rest : List (Int × Rat)
deriving Repr, DecidableEq, Inhabited

/-- `__tick_to_time[k]` as `_update_tick_to_time` fills it: in the segment that starts at tick `s` with
scale `c` and time `base`, `arr[k] = base + c*(k-s)` (numpy: one multiplication, one addition); the next
segment starts from `arr[s']`. -/
def ttAux (R : Rat → Rat) (base : Rat) (s : Int) (c : Rat) : List (Int × Rat) → Int → Rat
  | [], k => R (base + R (c * ((k - s : Int) : Rat)))
  | (s', c') :: rest, k =>
      if k ≤ s' then R (base + R (c * ((k - s : Int) : Rat)))
      else ttAux R (R (base + R (c * ((s' - s : Int) : Rat)))) s' c' rest k

def tickToTime (R : Rat → Rat) (m : TickMap) (k : Int) : Rat := ttAux R 0 0 m.c0 m.rest k

def lastOf (c : Rat) : List (Int × Rat) → Rat
  | [] => c
  | (_, c') :: r => lastOf c' r

/-- `_tick_scales[-1][1]` -/
def lastScale (m : TickMap) : Rat := lastOf m.c0 m.rest

def maxTickOf (a : Int) : List (Int × Rat) → Int
  | [] => a
  | (s, _) :: r => maxTickOf (if a < s then s else a) r

/-- `max(ts[0] for ts in _tick_scales)` = index of the last array element after `_update_tick_to_time(0)` -/
def maxScaleTick (m : TickMap) : Int := maxTickOf 0 m.rest

/-- least `k` in `[lo, hi]` with `p k` (`hi` if none), for monotone `p`: `np.searchsorted(side='left')`.
`fuel ≥ hi - lo` suffices (proved in Proofs/C03: `leastGE_spec`). -/
def leastGE (p : Int → Bool) : Nat → Int → Int → Int
  | 0, lo, _ => lo
  | fuel + 1, lo, hi =>
      if hi ≤ lo then lo
      else
        let mid := (lo + hi) / 2
        if p mid then leastGE p fuel lo mid else leastGE p fuel (mid + 1) hi

def absR (x : Rat) : Rat := if x < 0 then -x else x

/-- Python / numpy `round()` of a float: nearest integer, ties to even -/
def roundHalfEven (x : Rat) : Int :=
  let f := x.floor
  let d := x - (f : Rat)
  if d < 1/2 then f else if 1/2 < d then f + 1 else if f % 2 = 0 then f else f + 1

/-- `PrettyMIDI.time_to_tick(t)` when `__tick_to_time` has `M + 1` entries (ticks `0..M`):
inside the array the nearer of the two neighbouring ticks (a tie goes to the upper one), beyond its end
`int(round(M + (t - arr[M]) / final_scale))`. -/
def timeToTick (R : Rat → Rat) (m : TickMap) (M : Int) (t : Rat) : Int :=
  let arr := tickToTime R m
  let i := leastGE (fun k => decide (t ≤ arr k)) (M + 1).toNat 0 (M + 1)
  if i = M + 1 then
    roundHalfEven (R ((M : Rat) + R (R (t - arr M) / lastScale m)))
  else if i ≠ 0 ∧ absR (R (t - arr (i - 1))) < absR (R (t - arr i)) then i - 1
  else i

/-- `60.0 / (tick_scale * resolution)` -/
def qpmOfScale (R : Rat → Rat) (res : Int) (c : Rat) : Rat := R (60 / R (c * (res : Rat)))

def tempoChangesAux (R : Rat → Rat) (m : TickMap) (res : Int) : List (Int × Rat) → List Tempo
  | [] => []
  | (s, c) :: r => ⟨tickToTime R m s, qpmOfScale R res c⟩ :: tempoChangesAux R m res r

/-- `PrettyMIDI.get_tempo_changes()` -/
def getTempoChanges (R : Rat → Rat) (m : TickMap) (res : Int) : List Tempo :=
  tempoChangesAux R m res ((0, m.c0) :: m.rest)

/-- `PrettyMIDI.write`: `int(6e7 / (60. / (tick_scale * resolution)))` microseconds per quarter -/
def tempoMicros (R : Rat → Rat) (res : Int) (c : Rat) : Int :=
  truncR (R (60000000 / R (60 / R (c * (res : Rat)))))

/-- `_load_tempo_changes`: `60.0 / ((6e7 / tempo) * resolution)` -/
def scaleOfMicros (R : Rat → Rat) (res : Int) (us : Int) : Rat :=
  R (60 / R (R (60000000 / (us : Rat)) * (res : Rat)))

/-! ## 2. the PrettyMIDI object as far as note-seq touches it -/

structure PMNote where
  velocity : Int
  pitch : Int
  start : Rat
  end_ : Rat
deriving Repr, DecidableEq, Inhabited

structure PMBend where
  pitch : Int
  time : Rat
deriving Repr, DecidableEq, Inhabited

structure PMCC where
  number : Int
  value : Int
  time : Rat
deriving Repr, DecidableEq, Inhabited

structure PMInst where
  program : Int
  isDrum : Bool
  notes : List PMNote
  bends : List PMBend
  ccs : List PMCC
deriving Repr, DecidableEq, Inhabited

structure PMTimeSig where
  num : Int
  den : Int
  time : Rat
deriving Repr, DecidableEq, Inhabited

structure PMKeySig where
  keyNumber : Int
  time : Rat
deriving Repr, DecidableEq, Inhabited

structure PM where
  resolution : Int
  map : TickMap
  tsigs : List PMTimeSig
  ksigs : List PMKeySig
  insts : List PMInst
deriving Repr, DecidableEq, Inhabited

/-! ## 3. `note_sequence_to_pretty_midi` -/

inductive WErr where
  | zeroDivisionError      -- a tempo of 0 qpm
  | valueError             -- raised by a pretty_midi container constructor
  | outsideModel           -- negative tempo / resolution: the tick map is not monotone (not modelled)
deriving Repr, DecidableEq

def WErr.name : WErr → String
  | .zeroDivisionError => "ZeroDivisionError"
  | .valueError => "ValueError"
  | .outsideModel => "outside-model"

/-- `max([n.end_time for n in sequence.notes] or [0])` -/
def maxEnd : List Note → Rat
  | [] => 0
  | n :: ns => ns.foldl (fun a x => if a < x.end_ then x.end_ else a) n.end_

/-- `max_event_time` (`None` when `drop_events_n_seconds_after_last_note` is `None`) -/
def maxEventTime (R : Rat → Rat) (s : NoteSeq) (drop : Option Rat) : Option Rat :=
  match drop with
  | none => none
  | some d => some (R (maxEnd s.notes + d))

/-- `max_event_time and t > max_event_time` (a `max_event_time` of 0.0 is falsy: nothing is dropped) -/
def dropped (met : Option Rat) (t : Rat) : Bool :=
  match met with
  | none => false
  | some m => m ≠ 0 && m < t

/-- the first tempo in storage order with `time == 0` -/
def initialTempo : List Tempo → Option Tempo
  | [] => none
  | t :: r => if t.time = 0 then some t else initialTempo r

def writeTimeSigs (met : Option Rat) : List TimeSig → Except WErr (List PMTimeSig)
  | [] => .ok []
  | ts :: r =>
      if dropped met ts.time then writeTimeSigs met r
      else if ts.num ≤ 0 ∨ ts.den ≤ 0 ∨ ts.time < 0 then .error .valueError
      else match writeTimeSigs met r with
        | .ok l => .ok (⟨ts.num, ts.den, ts.time⟩ :: l)
        | .error e => .error e

/-- `key_number = key (+ offset if mode == MINOR)`; every other mode is written as major -/
def encodeKey (key mode : Int) : Int :=
  if mode = Gen.MODE_MINOR then key + Gen.MAJOR_TO_MINOR_OFFSET else key

def writeKeySigs (met : Option Rat) : List KeySig → Except WErr (List PMKeySig)
  | [] => .ok []
  | ks :: r =>
      if dropped met ks.time then writeKeySigs met r
      else
        let kn := encodeKey ks.key ks.mode
        if kn < 0 ∨ 24 ≤ kn ∨ ks.time < 0 then .error .valueError
        else match writeKeySigs met r with
          | .ok l => .ok (⟨kn, ks.time⟩ :: l)
          | .error e => .error e

/-- `60.0 / (resolution * qpm)` with Python's ZeroDivisionError -/
def scaleOfQpm (R : Rat → Rat) (res : Int) (qpm : Rat) : Except WErr Rat :=
  let d := R ((res : Rat) * qpm)
  if d = 0 then .error .zeroDivisionError
  else if d < 0 then .error .outsideModel
  else .ok (R (60 / d))

/-- one iteration of the tempo loop: the tick of the change is computed with the map built so far,
whose array ends at its last tempo tick (`_update_tick_to_time(0)`). -/
def tempoStep (R : Rat → Rat) (res : Int) (init : Option Tempo) (met : Option Rat)
    (acc : TickMap) (t : Tempo) : Except WErr TickMap :=
  if some t = init then .ok acc
  else if dropped met t.time then .ok acc
  else match scaleOfQpm R res t.qpm with
    | .error e => .error e
    | .ok c => .ok { acc with rest := acc.rest ++ [(timeToTick R acc (maxScaleTick acc) t.time, c)] }

def tempoFold (R : Rat → Rat) (res : Int) (init : Option Tempo) (met : Option Rat) :
    TickMap → List Tempo → Except WErr TickMap
  | acc, [] => .ok acc
  | acc, t :: r => match tempoStep R res init met acc t with
      | .error e => .error e
      | .ok acc' => tempoFold R res init met acc' r

/-- order in which the tempo loop visits `sequence.tempos` -/
def tempoOrder (ts : List Tempo) : List Tempo :=
  if Gen.TEMPO_LOOP_SORTED then sortByRat (·.time) ts else ts

/-- `initial_tempo` handed to the PrettyMIDI constructor -/
def initialQpm (tempos : List Tempo) : Rat :=
  match initialTempo tempos with
  | some t => t.qpm
  | none => Gen.DEFAULT_QPM

/-- the `_tick_scales` the writer builds: PrettyMIDI constructor + tempo loop -/
def tempoScales (R : Rat → Rat) (res : Int) (met : Option Rat) (tempos : List Tempo) : Except WErr TickMap :=
  match scaleOfQpm R res (initialQpm tempos) with
  | .error e => .error e
  | .ok c0 => tempoFold R res (initialTempo tempos) met ⟨c0, []⟩ (tempoOrder tempos)

/-- grouping key `(instrument, program, is_drum)` -/
abbrev Key := Int × Int × Bool

def noteKey (n : Note) : Key := (n.instrument, n.program, n.isDrum)
def bendKey (b : Bend) : Key := (b.instrument, b.program, b.isDrum)
def ccKey (c : CC) : Key := (c.instrument, c.program, c.isDrum)

/-- Python tuple order on `(int, int, bool)` -/
def keyLt (a b : Key) : Bool :=
  a.1 < b.1 || (a.1 == b.1 && (a.2.1 < b.2.1 || (a.2.1 == b.2.1 && (!a.2.2 && b.2.2))))

/-- insert into a strictly increasing list (dict keys are unique; `sorted(keys)`) -/
def insertKey (k : Key) : List Key → List Key
  | [] => [k]
  | h :: t => if keyLt k h then k :: h :: t else if k = h then h :: t else h :: insertKey k t

def sortedKeys (ks : List Key) : List Key := ks.foldr insertKey []

def keptBends (met : Option Rat) (s : NoteSeq) : List Bend := s.bends.filter (fun b => !dropped met b.time)
def keptCCs (met : Option Rat) (s : NoteSeq) : List CC := s.ccs.filter (fun c => !dropped met c.time)

/-- `sorted(instrument_events.keys())` -/
def groupKeys (met : Option Rat) (s : NoteSeq) : List Key :=
  sortedKeys (s.notes.map noteKey ++ (keptBends met s).map bendKey ++ (keptCCs met s).map ccKey)

def groupNotes (s : NoteSeq) (k : Key) : List Note := s.notes.filter (fun n => noteKey n = k)
def groupBends (met : Option Rat) (s : NoteSeq) (k : Key) : List Bend := (keptBends met s).filter (fun b => bendKey b = k)
def groupCCs (met : Option Rat) (s : NoteSeq) (k : Key) : List CC := (keptCCs met s).filter (fun c => ccKey c = k)

def toPMNote (n : Note) : PMNote := ⟨n.velocity, n.pitch, n.start, n.end_⟩
def toPMBend (b : Bend) : PMBend := ⟨b.bend, b.time⟩
def toPMCC (c : CC) : PMCC := ⟨c.number, c.value, c.time⟩

/-- the `pretty_midi.Instrument` a group is written to -/
def mkInst (met : Option Rat) (s : NoteSeq) (k : Key) : PMInst :=
  { program := k.2.1, isDrum := k.2.2,
    notes := (groupNotes s k).map toPMNote,
    bends := (groupBends met s k).map toPMBend,
    ccs := (groupCCs met s k).map toPMCC }

/-- the instrument created before the loop: `pretty_midi.Instrument(0)` -/
def placeholder : PMInst := { program := 0, isDrum := false, notes := [], bends := [], ccs := [] }

/-- the instrument loop.  State: `first_instrument_used`, the pre-created instrument (`pm.instruments[0]`),
the instruments appended so far.  A new non-drum instrument calls `program_to_instrument_name`, which
raises ValueError outside 0..127. -/
def instLoop (mk : Key → PMInst) : Bool → PMInst → List PMInst → List Key → Except WErr (List PMInst)
  | _, first, others, [] => .ok (first :: others)
  | used, first, others, k :: r =>
      if 0 < k.1 ∨ used then
        if ¬ k.2.2 ∧ (k.2.1 < 0 ∨ 127 < k.2.1) then .error .valueError
        else instLoop mk used first (others ++ [mk k]) r
      else instLoop mk true (mk k) others r

/-- `note_sequence_to_pretty_midi(sequence, drop_events_n_seconds_after_last_note)` -/
def writePM (R : Rat → Rat) (s : NoteSeq) (drop : Option Rat) : Except WErr PM :=
  let res := if s.tpq ≠ 0 then s.tpq else Gen.STANDARD_PPQ
  let met := maxEventTime R s drop
  let init := initialTempo s.tempos
  -- PrettyMIDI(resolution, initial_tempo)
  match scaleOfQpm R res (initialQpm s.tempos) with
  | .error e => .error e
  | .ok c0 =>
    match writeTimeSigs met s.timeSigs with
    | .error e => .error e
    | .ok tsigs =>
      match writeKeySigs met s.keySigs with
      | .error e => .error e
      | .ok ksigs =>
        match tempoFold R res init met ⟨c0, []⟩ (tempoOrder s.tempos) with
        | .error e => .error e
        | .ok map =>
          -- pretty_midi.Note(...) raises when end < start
          if s.notes.any (fun n => n.end_ < n.start) then .error .valueError
          else match instLoop (mkInst met s) false placeholder [] (groupKeys met s) with
            | .error e => .error e
            | .ok insts => .ok { resolution := res, map := map, tsigs := tsigs, ksigs := ksigs, insts := insts }

/-! ## 4. `midi_to_note_sequence` on a PrettyMIDI object -/

inductive RErr where
  | midiConversionError
deriving Repr, DecidableEq

/-- `key_number % 12`, `key_number // 12` → MAJOR / MINOR / error -/
def decodeKey (kn : Int) : Except RErr (Int × Int) :=
  let key := Int.fmod kn Gen.KEY_DECODE_MODULUS
  let mode := Int.fdiv kn Gen.KEY_DECODE_MODULUS
  if mode = 0 then .ok (key, Gen.MODE_MAJOR)
  else if mode = 1 then .ok (key, Gen.MODE_MINOR)
  else .error .midiConversionError

def readTimeSigs : List PMTimeSig → Except RErr (List TimeSig)
  | [] => .ok []
  | t :: r =>
      -- "Denominator can be too large for int32"
      if 2147483647 < t.den ∨ t.den < -2147483648 then .error .midiConversionError
      else match readTimeSigs r with
        | .ok l => .ok (⟨t.time, t.num, t.den⟩ :: l)
        | .error e => .error e

def readKeySigs : List PMKeySig → Except RErr (List KeySig)
  | [] => .ok []
  | k :: r => match decodeKey k.keyNumber with
      | .error e => .error e
      | .ok (key, mode) => match readKeySigs r with
        | .ok l => .ok (⟨k.time, key, mode⟩ :: l)
        | .error e => .error e

def readNote (i : Nat) (inst : PMInst) (n : PMNote) : Note :=
  { pitch := n.pitch, velocity := n.velocity, start := n.start, end_ := n.end_, qs := 0, qe := 0,
    instrument := (i : Int), program := inst.program, isDrum := inst.isDrum,
    numerator := 0, denominator := 0, voice := 0, part := 0, pitchName := 0 }
def readBend (i : Nat) (inst : PMInst) (b : PMBend) : Bend :=
  { time := b.time, bend := b.pitch, instrument := (i : Int), program := inst.program, isDrum := inst.isDrum }
def readCC (i : Nat) (inst : PMInst) (c : PMCC) : CC :=
  { time := c.time, qstep := 0, number := c.number, value := c.value,
    instrument := (i : Int), program := inst.program, isDrum := inst.isDrum }

/-- `for num_instrument, midi_instrument in enumerate(midi.instruments)` -/
def readNotesFrom : Nat → List PMInst → List Note
  | _, [] => []
  | i, inst :: r => inst.notes.map (readNote i inst) ++ readNotesFrom (i + 1) r
def readBendsFrom : Nat → List PMInst → List Bend
  | _, [] => []
  | i, inst :: r => inst.bends.map (readBend i inst) ++ readBendsFrom (i + 1) r
def readCCsFrom : Nat → List PMInst → List CC
  | _, [] => []
  | i, inst :: r => inst.ccs.map (readCC i inst) ++ readCCsFrom (i + 1) r

/-- `if not sequence.total_time or midi_note.end > sequence.total_time: sequence.total_time = midi_note.end` -/
def readTotalTime (notes : List Note) : Rat :=
  notes.foldl (fun tt n => if tt = 0 ∨ tt < n.end_ then n.end_ else tt) 0

def readPM (R : Rat → Rat) (pm : PM) : Except RErr NoteSeq :=
  if pm.resolution ≤ 0 then .error .midiConversionError
  else match readTimeSigs pm.tsigs with
    | .error e => .error e
    | .ok tsigs => match readKeySigs pm.ksigs with
      | .error e => .error e
      | .ok ksigs =>
        let notes := readNotesFrom 0 pm.insts
        .ok { notes := notes, tempos := getTempoChanges R pm.map pm.resolution, timeSigs := tsigs,
              keySigs := ksigs, ccs := readCCsFrom 0 pm.insts, bends := readBendsFrom 0 pm.insts,
              totalTime := readTotalTime notes, tpq := pm.resolution }

/-! ## 5. the assumed contract of `PrettyMIDI.write` → mido → `PrettyMIDI(file)` (third party, monitored)

Every event time `t` comes back as `τ t` (in reality: the time of the tick nearest to `t`), every
instrument that has at least one note comes back as one instrument with the same program and drum flag,
in the written order; instruments without notes disappear. -/

def transportInst (τ : Rat → Rat) (i : PMInst) : PMInst :=
  { i with notes := i.notes.map (fun n => { n with start := τ n.start, end_ := τ n.end_ }),
           bends := i.bends.map (fun b => { b with time := τ b.time }),
           ccs := i.ccs.map (fun c => { c with time := τ c.time }) }

def transportInsts (τ : Rat → Rat) (l : List PMInst) : List PMInst :=
  (l.filter (fun i => !i.notes.isEmpty)).map (transportInst τ)

/-! ### executable instance of the assumed contract (used only by the end-to-end monitor)

What `PrettyMIDI.write` → mido → `PrettyMIDI(file)` is EXPECTED to do to the writer's object, for inputs inside
the quantifier of C03 (no overlapping notes of one pitch per instrument, every note on two different ticks,
power-of-two denominators, key numbers 0..23, tempos that fit 24 bits).  Not a transcription and not proved:
the harness compares its prediction with the real byte-level round trip on every run (`roundtrip-predicted`). -/

/-- `_load_tempo_changes` applied to the `set_tempo` events `write` emits (microseconds by `tempoMicros`):
an event at tick 0 replaces the list, a later event is appended unless its scale equals the last one. -/
def loadScalesAux (R : Rat → Rat) (res : Int) : TickMap → List (Int × Rat) → TickMap
  | acc, [] => acc
  | acc, (s, c) :: r =>
      let c' := scaleOfMicros R res (tempoMicros R res c)
      if s = 0 then loadScalesAux R res ⟨c', []⟩ r
      else if c' = lastScale acc then loadScalesAux R res acc r
      else loadScalesAux R res { acc with rest := acc.rest ++ [(s, c')] } r

def loadScales (R : Rat → Rat) (res : Int) (wm : TickMap) : TickMap :=
  loadScalesAux R res ⟨R (60 / R (120 * (res : Rat))), []⟩ ((0, wm.c0) :: wm.rest)

/-- the expected reader-side PrettyMIDI object -/
def transportExec (R : Rat → Rat) (pm : PM) : PM :=
  let rm := loadScales R pm.resolution pm.map
  let tick := fun t => timeToTick R pm.map (maxScaleTick pm.map) t
  let τ := fun t => tickToTime R rm (tick t)
  -- a default 4/4 is written unless some time signature is at time <= 0
  let ts0 : List PMTimeSig := if pm.tsigs.all (fun t => 0 < t.time) then [⟨4, 4, 0⟩] else []
  let tsigs := (ts0 ++ pm.tsigs).mergeSort (fun a b => tick a.time ≤ tick b.time)
  let ksigs := pm.ksigs.mergeSort (fun a b => tick a.time ≤ tick b.time)
  { resolution := pm.resolution, map := rm,
    tsigs := tsigs.map (fun t => { t with time := τ t.time }),
    ksigs := ksigs.map (fun k => { k with time := τ k.time }),
    insts := transportInsts τ pm.insts }

/-! ### the loader's tick guard (`pretty_midi.MAX_TICK`, which `midi_io` overrides at import time)

`PrettyMIDI(file)` computes `max_tick = max(e.time for every event of every track) + 1` and raises ValueError
(→ `MIDIConversionError` in `midi_to_note_sequence`) when `max_tick > MAX_TICK`.  `write` ends every track with an
`end_of_track` one tick after the track's last event, so `max_tick = (last written tick) + 2`.  pretty_midi's own
limit is 10^7 ticks (35 minutes at 960 ticks per quarter and 300 qpm); note-seq raises it — `Gen.MAX_TICK` is the
value in force after `import note_seq.midi_io`, regenerated on every run. -/

/-- every event time `write` turns into a tick: time / key signatures, and notes (on and off), bends and control
changes of EVERY instrument (also those without notes) -/
def pmEventTimes (pm : PM) : List Rat :=
  pm.tsigs.map (·.time) ++ pm.ksigs.map (·.time) ++
  pm.insts.flatMap (fun i => i.notes.flatMap (fun n => [n.start, n.end_]) ++ i.bends.map (·.time) ++ i.ccs.map (·.time))

def maxInt (a : Int) (l : List Int) : Int := l.foldl (fun x y => if x < y then y else x) a

/-- the largest tick of the file `write` produces (tempo changes sit at their `_tick_scales` ticks) -/
def lastWrittenTick (R : Rat → Rat) (pm : PM) : Int :=
  maxInt (maxScaleTick pm.map) ((pmEventTimes pm).map (timeToTick R pm.map (maxScaleTick pm.map)))

/-- `not (max_tick > MAX_TICK)` with `max_tick = lastTick + 2` -/
def tickGuardOk (lastTick : Int) : Bool := decide (lastTick + 2 ≤ Gen.MAX_TICK)

/-- writer → expected transport (incl. the loader's tick guard) → reader -/
def roundTripExec (R : Rat → Rat) (s : NoteSeq) (drop : Option Rat) : Except String NoteSeq :=
  match writePM R s drop with
  | .error e => .error e.name
  | .ok pm =>
    if tickGuardOk (lastWrittenTick R pm) then
      match readPM R (transportExec R pm) with
      | .error _ => .error "MIDIConversionError"
      | .ok r => .ok r
    else .error "MIDIConversionError"

/-! ## 6. wire format of a PrettyMIDI object -/
open Wire

def pTickMap : P TickMap := do
  let l ← P.list (do let s ← P.int; let c ← P.rat; pure (s, c))
  match l with
  | (0, c0) :: rest => pure ⟨c0, rest⟩
  | _ => failure

def showTickMap (m : TickMap) : String :=
  showList (fun (p : Int × Rat) => s!"{p.1} {showRat p.2}") ((0, m.c0) :: m.rest)

def pPMNote : P PMNote := do
  let velocity ← P.int; let pitch ← P.int; let start ← P.rat; let end_ ← P.rat
  pure { velocity, pitch, start, end_ }
def pPMBend : P PMBend := do let pitch ← P.int; let time ← P.rat; pure { pitch, time }
def pPMCC : P PMCC := do let number ← P.int; let value ← P.int; let time ← P.rat; pure { number, value, time }
def pPMInst : P PMInst := do
  let program ← P.int; let isDrum ← P.bool
  let notes ← P.list pPMNote; let bends ← P.list pPMBend; let ccs ← P.list pPMCC
  pure { program, isDrum, notes, bends, ccs }
def pPMTimeSig : P PMTimeSig := do let num ← P.int; let den ← P.int; let time ← P.rat; pure { num, den, time }
def pPMKeySig : P PMKeySig := do let keyNumber ← P.int; let time ← P.rat; pure { keyNumber, time }

/-- `PM res <scales> <tsigs> <ksigs> <insts>` -/
def pPM : P PM := do
  P.lit "PM"
  let resolution ← P.int
  let map ← pTickMap
  let tsigs ← P.list pPMTimeSig
  let ksigs ← P.list pPMKeySig
  let insts ← P.list pPMInst
  pure { resolution, map, tsigs, ksigs, insts }

def showPMNote (n : PMNote) : String := s!"{n.velocity} {n.pitch} {showRat n.start} {showRat n.end_}"
def showPMBend (b : PMBend) : String := s!"{b.pitch} {showRat b.time}"
def showPMCC (c : PMCC) : String := s!"{c.number} {c.value} {showRat c.time}"
def showPMInst (i : PMInst) : String :=
  s!"{i.program} {showBool i.isDrum} {showList showPMNote i.notes} {showList showPMBend i.bends} {showList showPMCC i.ccs}"
def showPM (pm : PM) : String :=
  " ".intercalate ["PM", toString pm.resolution, showTickMap pm.map,
    showList (fun (t : PMTimeSig) => s!"{t.num} {t.den} {showRat t.time}") pm.tsigs,
    showList (fun (k : PMKeySig) => s!"{k.keyNumber} {showRat k.time}") pm.ksigs,
    showList showPMInst pm.insts]

end NSV.C03
