import NoteSeqVerif.Common.Float
import NoteSeqVerif.Generated.C20
/-! C20 — audio sample helpers of `note_seq/audio_io.py`: dtypes and the int16 <-> float scaling
(hand-written model; core Lean only; the rest of the model is in `Model/C20.lean`).

Conventions.  A numpy array is a `List` of its element values (exact rationals for floating
dtypes, integers for integer dtypes) together with a `Dtype` tag where the code looks at the dtype.
A float operation in dtype with `p` significand bits is `rne p (exact result)`; `astype(np.int16)`
of an in-range float is C truncation toward zero (`truncR`).  The result of casting an
out-of-range float to int16 is undefined behaviour in C; the model returns `none` for it
(outside the model, never compared).  NaN, ±inf, overflow and subnormals are outside the model.
`scipy.io.wavfile` (third party) is modelled as the identity on `(rate, int16 array)`; that
assumption is *monitored* by the harness on every implementation run, not proved. -/
namespace NSV.C20

/-- the dtypes the helpers can tell apart -/
inductive Dtype | int16 | int32 | uint8 | float16 | float32 | float64
deriving DecidableEq, Repr

/-- significand bits of the floating dtypes; `none` = not `np.floating` -/
def Dtype.prec : Dtype → Option Nat
  | .float16 => some 11 | .float32 => some 24 | .float64 => some 53 | _ => none

/-! ### int16 <-> float -/

/-- one element of `y.astype(np.float32) / np.iinfo(np.int16).max`.
`astype(float32)` of an int16 is exact, the Python-int divisor is converted to float32
(exact: the generator checks `0 < toFloatDiv < 2^24`), then one float32 division. -/
def int16ToFloat (k : Int) : Rat := rne24 ((k : Rat) / (Gen.toFloatDiv : Rat))

/-- `int16_samples_to_float32` -/
def int16SamplesToFloat32 (dt : Dtype) (ys : List Int) : Except String (List Rat) :=
  if dt ≠ .int16 then .error "ValueError" else .ok (ys.map int16ToFloat)

/-- one element of `(y * np.iinfo(np.int16).max).astype(np.int16)` for `y` of a floating dtype with
`p` significand bits: the Python int is converted to that dtype (`rne p`), one multiplication
in that dtype, then truncation toward zero; `none` when the product is outside int16 (UB in C). -/
def floatToInt16 (p : Nat) (y : Rat) : Option Int :=
  let v := truncR (rne p (y * rne p (Gen.toIntMul : Rat)))
  if -32768 ≤ v ∧ v ≤ 32767 then some v else none

/-- `float_samples_to_int16` (`issubclass(y.dtype.type, np.floating)` is `Dtype.prec ≠ none`) -/
def floatSamplesToInt16 (dt : Dtype) (ys : List Rat) : Except String (List (Option Int)) :=
  match dt.prec with
  | none => .error "ValueError"
  | some p => .ok (ys.map (floatToInt16 p))

end NSV.C20
