import NoteSeqVerif.Model.C10
/-! C10 — event-sequence OBJECTS and histories over them (deepcopy, then transpose / squash one of the objects).

The functions of `Model/C10.lean` take the events of one object and return the events afterwards; a Python
`LeadSheet` / `Melody` / `ChordProgression` is an object that is mutated in place and that `copy.deepcopy`
duplicates.  This file adds that notion: a heap is the list of the objects alive, an object is addressed by its
position, `deepcopy i` appends an object with the contents of object `i`, `transpose i …` / `squash i …` replace
the contents of object `i` by what `LeadSheet.transpose` / `LeadSheet.squash` compute from them and touch no
other cell.  One object type serves the three classes: a `Melody` has no figures, a `ChordProgression` no
melody events (`lsTranspose` on an empty list is the empty list), a `LeadSheet` has both.

That `copy.deepcopy` really gives an object that shares nothing with its source is a fact about the Python code
(`LeadSheet.__deepcopy__`, `SimpleEventSequence.__deepcopy__`); it is what the history stream of the
correspondence check compares this model with, step by step. -/
namespace NSV.C10
open Gen

structure Obj where
  es : List Int
  figs : List String
deriving DecidableEq, Repr

abbrev Heap := List Obj

inductive HOp where
  /-- `objs.append(copy.deepcopy(objs[i]))` -/
  | deepcopy (i : Nat)
  /-- `objs[i].transpose(k, mn, mx)` (`ChordProgression.transpose(k)` ignores the range) -/
  | transpose (i : Nat) (k mn mx : Int)
  /-- `objs[i].squash(mn, mx, key)` -/
  | squash (i : Nat) (mn mx key : Int)

inductive HRes where
  | ok
  | amount (a : Int)
  | err (e : Err)
  | noObject

/-- contents of an object after `transpose(k, mn, mx)`, and the exception if one was raised -/
def objTranspose (split : String → Except Err Sym) (k mn mx : Int) (o : Obj) : Obj × Option Err :=
  let r := lsTranspose split k mn mx o.es o.figs
  ({ es := r.1, figs := r.2.1 }, r.2.2)

/-- contents of an object after `squash(mn, mx, key)`, the returned amount, and the exception if any -/
def objSquash (split : String → Except Err Sym) (mn mx key : Int) (o : Obj) : Obj × Int × Option Err :=
  let r := lsSquashR rne53 split mn mx key o.es o.figs
  ({ es := r.1, figs := r.2.2.1 }, r.2.1, r.2.2.2)

def hStep (split : String → Except Err Sym) (h : Heap) : HOp → Heap × HRes
  | .deepcopy i =>
    match h[i]? with
    | some o => (h ++ [o], .ok)
    | none => (h, .noObject)
  | .transpose i k mn mx =>
    match h[i]? with
    | some o =>
      let r := objTranspose split k mn mx o
      (h.set i r.1, match r.2 with | none => .ok | some e => .err e)
    | none => (h, .noObject)
  | .squash i mn mx key =>
    match h[i]? with
    | some o =>
      let r := objSquash split mn mx key o
      (h.set i r.1, match r.2.2 with | none => .amount r.2.1 | some e => .err e)
    | none => (h, .noObject)

/-- the heap after every operation of a history, with the operation's result -/
def hTrace (split : String → Except Err Sym) : Heap → List HOp → List (Heap × HRes)
  | _, [] => []
  | h, op :: ops => let r := hStep split h op; r :: hTrace split r.1 ops

/-- the heap at the end of a history -/
def hRun (split : String → Except Err Sym) (h : Heap) (ops : List HOp) : Heap :=
  ops.foldl (fun h op => (hStep split h op).1) h

end NSV.C10
