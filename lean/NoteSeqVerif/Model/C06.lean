import NoteSeqVerif.Model.C06Time
import NoteSeqVerif.Model.C07
import NoteSeqVerif.Generated.C06
/-! C06 — renderers (`to_sequence`) of Melody, DrumTrack, ChordProgression, LeadSheet and
PianorollSequence, the render → quantize → extract pipelines, and the canonical-form predicates
(core Lean only).

Transcriptions of `melodies_lib.Melody.to_sequence`, `drums_lib.DrumTrack.to_sequence`,
`chords_lib.ChordProgression.to_sequence` (with `start_step` honoured, F-C06-1 repaired),
`lead_sheets_lib.LeadSheet.to_sequence`, `pianoroll_lib.PianorollSequence.to_sequence`
(`final_step = len(self)`, F-C06-2 repaired; `base_note_sequence=None`).

Every renderer is split in two stages that the Python interleaves:
* a *step stage* (integers only): the loop over the events produces the notes as
  `(pitch, start index, end index)` (`SNote`) resp. the chord changes as `(index, figure)`;
* a *time stage*: index `k` becomes the float `step * seconds_per_step + sequence_start_time`
  (`stepTimeR`, `Model/C06Time.lean`), with `R` after every float operation in the Python's order.
The extractors and the quantizer are the models of C07 and C01 (imported, not copied). -/
namespace NSV.C06
open NSV.C07 (XErr SimpleResult)

/-- a rendered note in step indexes relative to the event sequence's first event -/
structure SNote where
  pitch : Int
  a : Int
  b : Int
deriving Repr, DecidableEq

/-! ### time stage -/

/-- `sequence.notes.add()` with the fields `to_sequence` sets (the others keep their proto defaults) -/
def rNote (tm : Int → Rat) (vel inst prog : Int) (drum : Bool) (d : SNote) : Note :=
  { pitch := d.pitch, velocity := vel, start := tm d.a, end_ := tm d.b, qs := 0, qe := 0,
    instrument := inst, program := prog, isDrum := drum, numerator := 0, denominator := 0,
    voice := 0, part := 0, pitchName := 0 }

/-- `sequence.text_annotations.add()`: time, text, `annotation_type = CHORD_SYMBOL` -/
def rChord (tm : Int → Rat) (c : Int × String) : TextAnn := ⟨tm c.1, 0, C07.Gen.CHORD_SYMBOL, c.2⟩

/-- the fresh `NoteSequence()` with one tempo, `ticks_per_quarter = STANDARD_PPQ`, the notes, the chord
annotations and `total_time` -/
def timedSeq (tm : Int → Rat) (qpm : Rat) (vel inst prog : Int) (drum : Bool) (notes : List SNote)
    (chords : List (Int × String)) (totalTime : Rat) : NoteSeq :=
  { notes := notes.map (rNote tm vel inst prog drum), texts := chords.map (rChord tm),
    tempos := [⟨0, qpm⟩], totalTime := totalTime, tpq := Gen.STANDARD_PPQ }

/-- `if sequence.notes: sequence.total_time = sequence.notes[-1].end_time` (else the default 0.0) -/
def lastEnd (tm : Int → Rat) (notes : List SNote) : Rat :=
  match notes.getLast? with
  | some d => tm d.b
  | none => 0

/-! ### step stage: Melody -/

def isPitch (x : Int) : Bool := Gen.MIN_MIDI_PITCH ≤ x && x ≤ Gen.MAX_MIDI_PITCH

/-- `if current_sequence_note is not None: current_sequence_note.end_time = step * …` -/
def closeCur (k : Int) : Option (Int × Int) → List SNote
  | some (p, a) => [⟨p, a, k⟩]
  | none => []

/-- the loop `for step, note in enumerate(self)` and the final close at `len(self)`;
`cur = (pitch, start index)` of `current_sequence_note`.  A note is listed when it is closed, which for a
monophonic line is the order in which the Python appended it. -/
def melodyNotesFrom : Int → Option (Int × Int) → List Int → List SNote
  | k, cur, [] => closeCur k cur
  | k, cur, x :: xs =>
    if isPitch x then closeCur k cur ++ melodyNotesFrom (k + 1) (some (x, k)) xs
    else if x = C07.Gen.MELODY_NOTE_OFF then closeCur k cur ++ melodyNotesFrom (k + 1) none xs
    else melodyNotesFrom (k + 1) cur xs

def melodyNotes (ev : List Int) : List SNote := melodyNotesFrom 0 none ev

/-! ### step stage: DrumTrack -/

/-- `for step, event in enumerate(self): for pitch in event:` one single-step note per pitch.  The events are
given as lists in the order the `frozenset` is iterated. -/
def drumNotesFrom : Int → List (List Int) → List SNote
  | _, [] => []
  | k, e :: es => e.map (fun p => ⟨p, k, k + 1⟩) ++ drumNotesFrom (k + 1) es

def drumNotes (ev : List (List Int)) : List SNote := drumNotesFrom 0 ev

/-! ### step stage: ChordProgression -/

/-- `for step, figure in enumerate(self): if figure != current_figure:` one annotation per change -/
def chordChangesFrom : Int → String → List String → List (Int × String)
  | _, _, [] => []
  | k, cur, f :: fs =>
    if f ≠ cur then (k, f) :: chordChangesFrom (k + 1) f fs else chordChangesFrom (k + 1) cur fs

def chordChanges (ev : List String) : List (Int × String) := chordChangesFrom 0 C07.Gen.NO_CHORD ev

/-! ### step stage: PianorollSequence -/

/-- the frame at which the note opened for `p` is closed: the first following frame that does not hold `p`
(`open_pitches - frame_pitches`), else `final_step = len(self)` -/
def runEnd (p : Int) : Int → List (List Int) → Int
  | k, [] => k
  | k, fr :: rest => if p ∈ fr then runEnd p (k + 1) rest else k

/-- `for pitch_to_open in frame_pitches - open_pitches`: after frame `k − 1` the open notes are exactly its
pitches (`prev`), so frame `k` opens its pitches that are not in `prev`.  Notes are listed in the order they are
opened (the order of `sequence.notes.add()`), the pitches of one frame ascending (`set` iteration order is not
modelled: the theorems quantify over every storage order of the notes). -/
def rollNotesFrom (minP : Int) : Int → List Int → List (List Int) → List SNote
  | _, _, [] => []
  | k, prev, fr :: rest =>
    (((C07.canonSet fr).filter (fun p => p ∉ prev)).map fun p => ⟨p + minP, k, runEnd p (k + 1) rest⟩)
      ++ rollNotesFrom minP (k + 1) fr rest

def rollNotes (minP : Int) (ev : List (List Int)) : List SNote := rollNotesFrom minP 0 [] ev

/-! ### the renderers -/

/-- `Melody.to_sequence(velocity, instrument, program, sequence_start_time, qpm)` -/
def renderMelody (R : Rat → Rat) (ev : List Int) (S spq vel inst prog : Int) (t0 qpm : Rat) :
    Except XErr NoteSeq :=
  if qpm = 0 ∨ spq = 0 then .error .zeroDivisionError
  else
    let σ := secPerStepR R qpm spq
    let tm := stepTimeR R σ (seqStartAddR R t0 σ S)
    let notes := melodyNotes ev
    .ok (timedSeq tm qpm vel inst prog false notes [] (lastEnd tm notes))

/-- `DrumTrack.to_sequence(velocity, instrument, program, sequence_start_time, qpm)` -/
def renderDrums (R : Rat → Rat) (ev : List (List Int)) (S spq vel inst prog : Int) (t0 qpm : Rat) :
    Except XErr NoteSeq :=
  if qpm = 0 ∨ spq = 0 then .error .zeroDivisionError
  else
    let σ := secPerStepR R qpm spq
    let tm := stepTimeR R σ (seqStartAddR R t0 σ S)
    let notes := drumNotes ev
    .ok (timedSeq tm qpm vel inst prog true notes [] (lastEnd tm notes))

/-- `ChordProgression.to_sequence(sequence_start_time, qpm)` -/
def renderChords (R : Rat → Rat) (ev : List String) (S spq : Int) (t0 qpm : Rat) : Except XErr NoteSeq :=
  if qpm = 0 ∨ spq = 0 then .error .zeroDivisionError
  else
    let σ := secPerStepR R qpm spq
    let tm := stepTimeR R σ (seqStartAddR R t0 σ S)
    .ok (timedSeq tm qpm 0 0 0 false [] (chordChanges ev) 0)

/-- `LeadSheet.to_sequence(velocity, instrument, sequence_start_time, qpm)`: the melody's sequence
(`program` keeps `Melody.to_sequence`'s default 0) plus the chord annotations of the chords' sequence; melody
and chords share `start_step` and `steps_per_quarter` (checked by the `LeadSheet` constructor) -/
def renderLeadSheet (R : Rat → Rat) (mel : List Int) (ch : List String) (S spq vel inst : Int)
    (t0 qpm : Rat) : Except XErr NoteSeq :=
  if qpm = 0 ∨ spq = 0 then .error .zeroDivisionError
  else
    let σ := secPerStepR R qpm spq
    let tm := stepTimeR R σ (seqStartAddR R t0 σ S)
    let notes := melodyNotes mel
    .ok (timedSeq tm qpm vel inst 0 false notes (chordChanges ch) (lastEnd tm notes))

/-- `PianorollSequence.to_sequence(velocity, instrument, program, qpm)`;
`sequence.total_time = seconds_per_step * final_step + sequence_start_time` -/
def renderPianoroll (R : Rat → Rat) (ev : List (List Int)) (S spq minP vel inst prog : Int) (qpm : Rat) :
    Except XErr NoteSeq :=
  if qpm = 0 ∨ spq = 0 then .error .zeroDivisionError
  else
    let σ := secPerStepR R qpm spq
    let sst := seqStartR R σ S
    let tm := stepTimeR R σ sst
    .ok (timedSeq tm qpm vel inst prog false (rollNotes minP ev) []
          (R (R (σ * ((ev.length : Int) : Rat)) + sst)))

/-! ### render → quantize → extract -/

inductive RTErr where
  | render (e : XErr)        -- raised by `to_sequence`
  | quantize (e : Err)       -- raised by `quantize_note_sequence`
  | extract (e : XErr)       -- raised by the extractor
deriving Repr, DecidableEq

def RTErr.name : RTErr → String
  | .render e => "render:" ++ e.name
  | .quantize e => "quantize:" ++ e.name
  | .extract e => "extract:" ++ e.name

/-- `sequences_lib.quantize_note_sequence(rendered, steps_per_quarter)` (C01 model) -/
def quantizeStage (R : Rat → Rat) (spq : Int) (s : Except XErr NoteSeq) : Except RTErr NoteSeq :=
  match s with
  | .error e => .error (.render e)
  | .ok s =>
    match C01.quantizeRelR R C01.Gen.QUANTIZE_CUTOFF C01.Gen.DEFAULT_QPM s spq with
    | .error e => .error (.quantize e)
    | .ok q => .ok q

def extractStage {α} (f : NoteSeq → Except XErr α) (q : Except RTErr NoteSeq) : Except RTErr α :=
  match q with
  | .error e => .error e
  | .ok q =>
    match f q with
    | .error e => .error (.extract e)
    | .ok r => .ok r

/-- `Melody(ev, start_step=S, steps_per_quarter=spq).to_sequence(…)` → `quantize_note_sequence(·, spq)` →
`Melody().from_quantized_sequence(·, ss, inst, gap_bars, ignore_polyphonic_notes, pad_end, filter_drums)` -/
def tripMelody (R : Rat → Rat) (ev : List Int) (S spq vel inst prog : Int) (t0 qpm : Rat)
    (ss gapBars : Int) (ignorePoly padEnd filterDrums : Bool) : Except RTErr (SimpleResult Int) :=
  extractStage (fun q => C07.melodyFromQuantized q ss inst gapBars ignorePoly padEnd filterDrums)
    (quantizeStage R spq (renderMelody R ev S spq vel inst prog t0 qpm))

def tripDrums (R : Rat → Rat) (ev : List (List Int)) (S spq vel inst prog : Int) (t0 qpm : Rat)
    (ss gapBars : Int) (padEnd ignoreIsDrum : Bool) : Except RTErr (SimpleResult (List Int)) :=
  extractStage (fun q => C07.drumsFromQuantized q ss gapBars padEnd ignoreIsDrum)
    (quantizeStage R spq (renderDrums R ev S spq vel inst prog t0 qpm))

/-- re-extracted over `[start_step, start_step + len)` -/
def tripChords (R : Rat → Rat) (ev : List String) (S spq : Int) (t0 qpm : Rat) :
    Except RTErr (SimpleResult String) :=
  extractStage (fun q => C07.chordsFromQuantized q S (S + ev.length))
    (quantizeStage R spq (renderChords R ev S spq t0 qpm))

/-- the melody is extracted, then the chords over the melody's `[start_step, end_step)`
(what `LeadSheet(melody, chords)` requires) -/
def tripLeadSheet (R : Rat → Rat) (mel : List Int) (ch : List String) (S spq vel inst : Int)
    (t0 qpm : Rat) (ss gapBars : Int) (ignorePoly padEnd filterDrums : Bool) :
    Except RTErr (SimpleResult Int × SimpleResult String) :=
  extractStage (fun q =>
      match C07.melodyFromQuantized q ss inst gapBars ignorePoly padEnd filterDrums with
      | .error e => .error e
      | .ok m =>
        match C07.chordsFromQuantized q m.startStep m.endStep with
        | .error e => .error e
        | .ok c => .ok (m, c))
    (quantizeStage R spq (renderLeadSheet R mel ch S spq vel inst t0 qpm))

/-- result of `PianorollSequence(quantized_sequence=…, start_step, min_pitch, max_pitch, split_repeats)`:
events, `start_step` (the argument), `steps_per_quarter` (from the quantization info) -/
structure RollResult where
  events : List (List Int)
  startStep : Int
  stepsPerQuarter : Int
deriving Repr, DecidableEq

def rollFromQuantized (q : NoteSeq) (S minP maxP : Int) (split : Bool) : Except XErr RollResult :=
  match C07.pianorollFromQuantized q S minP maxP split with
  | .error e => .error e
  | .ok ev => .ok ⟨ev, S, q.spq⟩

def tripPianoroll (R : Rat → Rat) (ev : List (List Int)) (S spq minP maxP vel inst prog : Int) (qpm : Rat)
    (split : Bool) : Except RTErr RollResult :=
  extractStage (fun q => rollFromQuantized q S minP maxP split)
    (quantizeStage R spq (renderPianoroll R ev S spq minP vel inst prog qpm))

/-! ### canonical forms ("what extraction itself produces") -/

/-- event `i` of a drum track / pianoroll (`[]` past the end) -/
def evAt (ev : List (List Int)) (i : Nat) : List Int := (ev[i]?).getD []

/-- **DrumTrack**, extracted with `search_start_step = ss`, bars of `spb` steps, `gap = gap_bars·spb`, `pad_end`:
either empty at step 0, or
* every event is a set (strictly increasing list);
* the track starts on a bar line counted from `ss ≥ 0`, and its first non-empty event lies in the first bar;
* every later non-empty event follows a non-empty one after fewer than `gap` empty steps;
* it ends with a non-empty event, or — with `pad_end` — with that rounded up to the bar. -/
def CanonicalDrums (spb gap : Int) (pad : Bool) (ss S : Int) (ev : List (List Int)) : Prop :=
  (ev = [] ∧ S = 0) ∨
  ((∀ e ∈ ev, e.Pairwise (· < ·)) ∧ 0 ≤ ss ∧ ss ≤ S ∧ (S - ss) % spb = 0 ∧
   (∃ i0, i0 < ev.length ∧ (i0 : Int) < spb ∧ evAt ev i0 ≠ [] ∧ ∀ j, j < i0 → evAt ev j = []) ∧
   (∀ j, j < ev.length → evAt ev j ≠ [] →
      (∀ i, i < j → evAt ev i = []) ∨ ∃ i, i < j ∧ evAt ev i ≠ [] ∧ (j : Int) - (i + 1) < gap) ∧
   (∃ l, l < ev.length ∧ evAt ev l ≠ [] ∧ (∀ j, j < ev.length → l < j → evAt ev j = []) ∧
      (ev.length : Int) = (l + 1) + (if pad then Int.fmod (-((l : Int) + 1)) spb else 0)))

instance (spb gap : Int) (pad : Bool) (ss S : Int) (ev : List (List Int)) :
    Decidable (CanonicalDrums spb gap pad ss S ev) := by unfold CanonicalDrums; infer_instance

/-- **ChordProgression**: any non-empty list of figures at a start step `≥ 0` (re-extracted over
`[start_step, end_step)`; the extractor raises on an empty range) -/
def CanonicalChords (S : Int) (ev : List String) : Prop := ev ≠ [] ∧ 0 ≤ S

instance (S : Int) (ev : List String) : Decidable (CanonicalChords S ev) := by
  unfold CanonicalChords; infer_instance

/-- **PianorollSequence** over `[min_pitch, max_pitch]` (a range of non-negative width: `numpy.zeros` rejects a
negative one): every event is a strictly increasing tuple of offsets in `0 .. max_pitch − min_pitch`;
start step `≥ 0` -/
def CanonicalPianoroll (minP maxP S : Int) (ev : List (List Int)) : Prop :=
  0 ≤ S ∧ minP ≤ maxP + 1 ∧ ∀ e ∈ ev, e.Pairwise (· < ·) ∧ ∀ p ∈ e, 0 ≤ p ∧ p ≤ maxP - minP

instance (minP maxP S : Int) (ev : List (List Int)) : Decidable (CanonicalPianoroll minP maxP S ev) := by
  unfold CanonicalPianoroll; infer_instance

/-- NOTE_OFF occurs only while a note sounds (`snd`) -/
def offsOk : Bool → List Int → Bool
  | _, [] => true
  | snd, x :: xs =>
    if isPitch x then offsOk true xs
    else if x = C07.Gen.MELODY_NOTE_OFF then snd && offsOk false xs
    else offsOk snd xs

/-- `none`: no NOTE_OFF since the last pitch (or no pitch yet); `some d`: the last NOTE_OFF is `d` steps back.
Every pitch that follows a NOTE_OFF comes fewer than `gap` steps after it. -/
def gapsOk (gap : Int) : Option Int → List Int → Bool
  | _, [] => true
  | st, x :: xs =>
    if isPitch x then
      (match st with | none => true | some d => decide (d < gap)) && gapsOk gap none xs
    else if x = C07.Gen.MELODY_NOTE_OFF then gapsOk gap (some 1) xs
    else gapsOk gap (st.map (· + 1)) xs

/-- index of the first pitch -/
def firstPitch : List Int → Option Nat
  | [] => none
  | x :: xs => if isPitch x then some 0 else (firstPitch xs).map (· + 1)

/-- going back from the end: `some none` = a pitch is met before any NOTE_OFF (the last note sounds to the end),
`some (some j)` = a NOTE_OFF at index `j` is met first, `none` = only NO_EVENT -/
def lastMark : List Int → Option (Option Nat)
  | [] => none
  | x :: xs =>
    match lastMark xs with
    | some (some j) => some (some (j + 1))
    | some none => some none
    | none => if isPitch x then some none else if x = C07.Gen.MELODY_NOTE_OFF then some (some 0) else none

/-- the first note lies in the first bar -/
def firstOk (spb : Int) (ev : List Int) : Bool :=
  match firstPitch ev with
  | some i0 => decide ((i0 : Int) < spb)
  | none => false

/-- the last note sounds to the end (and with `pad_end` the end is a bar line), or — only with `pad_end` — the
last note's NOTE_OFF lies in the last bar and the end is a bar line -/
def endOk (pad : Bool) (spb : Int) (ev : List Int) : Bool :=
  match lastMark ev with
  | some none => !pad || decide ((ev.length : Int) % spb = 0)
  | some (some j) => pad && decide ((ev.length : Int) % spb = 0) && decide ((ev.length : Int) - spb < j)
  | none => false

/-- **Melody**, extracted with `search_start_step = ss`, bars of `spb` steps, `gap = gap_bars·spb`, `pad_end`:
either empty at step 0, or
* every event is in `−2 .. 127`; NOTE_OFF occurs only while a note sounds (so the line starts with NO_EVENTs);
* the melody starts on a bar line counted from `ss ≥ 0` and its first note lies in the first bar;
* a note that follows a NOTE_OFF starts fewer than `gap` steps after it;
* the last note sounds to the end (no trailing NOTE_OFF / silence), or — with `pad_end` — the line is that
  rounded up to the bar (the last note's NOTE_OFF then lies in the last bar). -/
def CanonicalMelody (spb gap : Int) (pad : Bool) (ss S : Int) (ev : List Int) : Prop :=
  (ev = [] ∧ S = 0) ∨
  ((∀ x ∈ ev, C07.Gen.MELODY_NO_EVENT ≤ x ∧ x ≤ Gen.MAX_MIDI_PITCH) ∧ offsOk false ev = true ∧
   0 ≤ ss ∧ ss ≤ S ∧ (S - ss) % spb = 0 ∧ firstOk spb ev = true ∧
   gapsOk gap none ev = true ∧ endOk pad spb ev = true)

instance (spb gap : Int) (pad : Bool) (ss S : Int) (ev : List Int) :
    Decidable (CanonicalMelody spb gap pad ss S ev) := by unfold CanonicalMelody; infer_instance

/-- **LeadSheet**: a canonical melody with a chord progression of the same length -/
def CanonicalLeadSheet (spb gap : Int) (pad : Bool) (ss S : Int) (mel : List Int) (ch : List String) : Prop :=
  mel ≠ [] ∧ CanonicalMelody spb gap pad ss S mel ∧ ch.length = mel.length

instance (spb gap : Int) (pad : Bool) (ss S : Int) (mel : List Int) (ch : List String) :
    Decidable (CanonicalLeadSheet spb gap pad ss S mel ch) := by unfold CanonicalLeadSheet; infer_instance

end NSV.C06
