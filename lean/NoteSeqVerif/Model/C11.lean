/-! # C11 (a) — purity of the sequence operations, decided on a reference / mutation IR

Core Lean only.  This file contains

* the IR (`Expr`, `Stmt`, `OpDef`, `Prog`) that `gen/refir.py` emits from the Python source,
* a concrete heap semantics of the IR (`Eval`, `Exec`, `Run`): objects with identity live in a heap
  and are grouped into ownership trees; Python lists / tuples / dicts are *values* (trees of
  references) — see "what the IR abstracts" below,
* the abstract interpretation (`absExpr`, `absStmt`) over the provenance lattice
  `{⊥, Input, Fresh, Both}` and the checker `pureProg` (a one-pass verifier of the contracts and loop
  invariants that the translator computes by fixpoint iteration).

The soundness theorem `pure_sound` is in `Props/C11.lean` (lemmas in `Proofs/C11.lean`).

## What the IR abstracts (the honest list)

* **Heap objects** are protobuf messages and protobuf repeated containers (and Python containers that
  were *passed in* by the caller).  Every object owns a list of `kids` (sub-messages, container
  elements).  The semantics builds in the two facts about the protobuf runtime that are probed on the
  real runtime at the start of every run: a mutation of an object can only add *newly allocated*
  objects to its kids (insertion into a repeated field copies; `CopyFrom`/`MergeFrom`/`deepcopy` build
  objects sharing nothing with their source), so ownership trees never share objects.
* **Python containers created by the operation** (list / dict / set / tuple / generator /
  `defaultdict`) are immutable *values*: a binary tree whose leaves are references or scalars.
  A store into such a container (`x.append(v)`, `x[k] = v`, …) is translated to a re-binding
  `x := pair x v` of the variable (and of every variable the translator found syntactically aliased
  to it).  `sorted`, `list`, `reversed`, `zip`, `itertools.chain`, slicing … are transparent: their
  elements are *aliases* of the elements of their argument.
* Navigation (`field`, `elem`, `proj`) is nondeterministic: any component of a tuple value, any kid of
  any object occurring in the value, or a scalar.  Conditions are not interpreted: `ite` takes either
  branch, `loop` runs any number of times, and **any statement may raise** (`Exec.throw`), so the
  theorem covers every prefix of every execution — in particular all executions ending in `raise`.
* Scalars (numbers, strings, numpy arrays of numbers, callables) carry no references.
-/
namespace NSV.C11

/-! ## The provenance lattice (used by the checker, and by the loop annotations of the IR) -/

/-- provenance: may the value contain a pre-existing (`inp`) / a newly allocated (`fr`) object?
`⟨false,false⟩ = ⊥` (no reference at all), `⟨true,false⟩ = Input`, `⟨false,true⟩ = Fresh`,
`⟨true,true⟩ = Both`. -/
structure AbsVal where
  inp : Bool
  fr : Bool
  deriving Repr, DecidableEq, Inhabited

namespace AbsVal
def bot : AbsVal := ⟨false, false⟩
def input : AbsVal := ⟨true, false⟩
def fresh : AbsVal := ⟨false, true⟩
def both : AbsVal := ⟨true, true⟩
def join (a b : AbsVal) : AbsVal := ⟨a.inp || b.inp, a.fr || b.fr⟩
def le (a b : AbsVal) : Bool := (!a.inp || b.inp) && (!a.fr || b.fr)
end AbsVal

/-- abstract environments / argument vectors: position = variable; missing = `⊥` -/
abbrev AEnv := List AbsVal

namespace AEnv
def get (σ : AEnv) (x : Nat) : AbsVal := σ.getD x AbsVal.bot

def set : AEnv → Nat → AbsVal → AEnv
  | [], 0, a => [a]
  | [], x + 1, a => AbsVal.bot :: set [] x a
  | _ :: σ, 0, a => a :: σ
  | b :: σ, x + 1, a => b :: set σ x a

def join : AEnv → AEnv → AEnv
  | [], τ => τ
  | σ, [] => σ
  | a :: σ, b :: τ => a.join b :: join σ τ

def le : AEnv → AEnv → Bool
  | [], _ => true
  | a :: σ, [] => a.le AbsVal.bot && le σ []
  | a :: σ, b :: τ => a.le b && le σ τ
end AEnv

/-! ## The IR -/

abbrev Var := Nat
abbrev OpId := Nat

/-- reference expressions -/
inductive Expr where
  /-- the value the caller passed as `i`-th argument -/
  | param (i : Nat)
  | var (x : Var)
  /-- a newly constructed object (constructor, `.add()`, …) -/
  | fresh
  /-- `copy.deepcopy(e)` / `NoteSequence(); CopyFrom(e)`: a new object tree sharing nothing with `e` -/
  | copyOf (e : Expr)
  /-- attribute of `e` (alias) -/
  | field (e : Expr)
  /-- element of `e`: index, iteration variable, element of `sorted(e)`, `list(e)`, … (alias) -/
  | elem (e : Expr)
  /-- Python tuple / list display, binary -/
  | pair (a b : Expr)
  /-- component of a tuple value (tuple unpacking) -/
  | proj (e : Expr) (i : Nat)
  | scalar
  deriving Repr, DecidableEq, Inhabited

/-- n-ary tuple display, right nested -/
def Expr.tuple : List Expr → Expr
  | [] => .scalar
  | e :: es => .pair e (Expr.tuple es)

inductive Stmt where
  | skip
  | assign (x : Var) (e : Expr)
  /-- mutation through `e` (attribute assignment, `del e[..]`, `e.add()/append/extend/remove/sort/
  ClearField/CopyFrom/MergeFrom`); `line` = source line, for reports only -/
  | write (line : Nat) (e : Expr)
  | seq (s t : Stmt)
  | ite (s t : Stmt)
  /-- `inv`: loop-head provenance proposed by the translator (a hint for the checker — it is
  verified to be an invariant, never trusted; the semantics ignores it) -/
  | loop (inv : List AbsVal) (s : Stmt)
  /-- `x := f(args)` for another translated operation; `line` for reports only -/
  | callOp (line : Nat) (x : Var) (f : OpId) (args : List Expr)
  | raise
  | ret (e : Expr)
  deriving Repr, Inhabited

def Stmt.block : List Stmt → Stmt
  | [] => .skip
  | [s] => s
  | s :: ss => .seq s (Stmt.block ss)

structure OpDef where
  name : String
  nparams : Nat
  body : Stmt
  deriving Repr, Inhabited

/-- contract of an operation: *if* the arguments have provenance below `pre`, it writes no
pre-existing object and its result has provenance below `ret` -/
structure Contract where
  pre : AEnv
  ret : AbsVal
  deriving Repr, DecidableEq, Inhabited

/-- a program: operations in callee-first order (`callOp f` refers to `ops[f]`), a contract proposed
for each of them by the translator (verified by the checker, never trusted), and the entry point -/
structure Prog where
  ops : List OpDef
  contracts : List Contract
  entry : OpId
  deriving Repr, Inhabited

/-! ## Concrete semantics -/

/-- heap addresses are natural numbers (`Nat` is written out so that `omega` sees the order) -/
abbrev Obj := Nat

/-- values: scalars, references to heap objects, Python tuples/lists (binary trees) -/
inductive Val where
  | scalar
  | ref (o : Nat)
  | pair (a b : Val)
  deriving Repr, DecidableEq, Inhabited

structure Cell where
  /-- all scalar content of the object (what `SerializeToString` would show of it) -/
  data : Nat
  /-- owned objects: sub-messages, elements of a repeated field -/
  kids : List Nat
  deriving Repr, DecidableEq, Inhabited

/-- heap: the cells of all addresses and the allocation watermark (`o < next` = allocated) -/
structure Heap where
  cell : Nat → Cell
  next : Nat

/-- owners and their kids are on the same side of the allocation watermark -/
def Heap.WF (h : Heap) : Prop :=
  ∀ o k, k ∈ (h.cell o).kids → (o < h.next ↔ k < h.next)

abbrev Env := Var → Val

def Env.empty : Env := fun _ => .scalar
def Env.upd (ρ : Env) (x : Var) (v : Val) : Env := fun y => if y = x then v else ρ y

/-- `c` is a component (at any depth) of the tuple value `v` -/
inductive Sub : Val → Val → Prop where
  | refl (v : Val) : Sub v v
  | left {a b c : Val} : Sub a c → Sub (.pair a b) c
  | right {a b c : Val} : Sub b c → Sub (.pair a b) c

/-- the object `o` occurs in the value `v` -/
def RefIn (v : Val) (o : Nat) : Prop := Sub v (.ref o)

/-- one navigation step: a component of the value, a kid of an object occurring in it, or a scalar -/
inductive Nav (h : Heap) : Val → Val → Prop where
  | sub {v c : Val} : Sub v c → Nav h v c
  | kid {v : Val} {o k : Nat} : Sub v (.ref o) → k ∈ (h.cell o).kids → Nav h v (.ref k)
  | scalar {v : Val} : Nav h v .scalar

/-- `h'` is `h` after allocating the addresses `[h.next, h'.next)`; whatever is new owns only new
objects (deepcopy / CopyFrom / constructors never capture an existing object) -/
structure Alloc (h h' : Heap) : Prop where
  mono : h.next ≤ h'.next
  old : ∀ o, o < h.next → h'.cell o = h.cell o
  own : ∀ o k, h.next ≤ o → k ∈ (h'.cell o).kids → h.next ≤ k

/-- `h'` is `h` after an arbitrary mutation of the allocated object `o`: its scalar content changes
arbitrarily, kids may be dropped or reordered, and every kid that is added is newly allocated
(insertion into a repeated field copies). -/
structure WriteAt (h : Heap) (o : Nat) (h' : Heap) : Prop where
  mono : h.next ≤ h'.next
  old : ∀ p, p < h.next → p ≠ o → h'.cell p = h.cell p
  kids : ∀ k, k ∈ (h'.cell o).kids → k ∈ (h.cell o).kids ∨ h.next ≤ k
  own : ∀ p k, h.next ≤ p → k ∈ (h'.cell p).kids → h.next ≤ k

/-- expression evaluation (may allocate) -/
inductive Eval (args : List Val) : Heap → Env → Expr → Val → Heap → Prop where
  | param {h ρ i} : Eval args h ρ (.param i) (args.getD i .scalar) h
  | var {h ρ x} : Eval args h ρ (.var x) (ρ x) h
  | scalar {h ρ} : Eval args h ρ .scalar .scalar h
  | fresh {h ρ h' o} : Alloc h h' → h.next ≤ o → o < h'.next → Eval args h ρ .fresh (.ref o) h'
  | copyOf {h ρ e v h1 h' o} : Eval args h ρ e v h1 → Alloc h1 h' → h1.next ≤ o → o < h'.next →
      Eval args h ρ (.copyOf e) (.ref o) h'
  | field {h ρ e v h' c} : Eval args h ρ e v h' → Nav h' v c → Eval args h ρ (.field e) c h'
  | elem {h ρ e v h' c} : Eval args h ρ e v h' → Nav h' v c → Eval args h ρ (.elem e) c h'
  | proj {h ρ e v h' c i} : Eval args h ρ e v h' → Sub v c → Eval args h ρ (.proj e i) c h'
  | pair {h ρ a b va vb h1 h2} : Eval args h ρ a va h1 → Eval args h1 ρ b vb h2 →
      Eval args h ρ (.pair a b) (.pair va vb) h2

inductive EvalList (args : List Val) : Heap → Env → List Expr → List Val → Heap → Prop where
  | nil {h ρ} : EvalList args h ρ [] [] h
  | cons {h ρ e es v vs h1 h2} : Eval args h ρ e v h1 → EvalList args h1 ρ es vs h2 →
      EvalList args h ρ (e :: es) (v :: vs) h2

/-- how a statement ends -/
inductive Res where
  | norm (ρ : Env)
  | ret (v : Val)
  | exc

def Res.isNorm : Res → Bool
  | .norm _ => true
  | _ => false

/-- what the caller sees of a callee's result -/
def callRes (ρ : Env) (x : Var) : Res → Res
  | .norm _ => .norm (ρ.upd x .scalar)      -- fell off the end: returns `None`
  | .ret v => .norm (ρ.upd x v)
  | .exc => .exc

/-- big-step execution.  `Exec ops args h ρ s h' r`: from heap `h` and environment `ρ`, statement `s`
of an operation called with `args` may end in heap `h'` with result `r`. -/
inductive Exec (ops : List OpDef) : List Val → Heap → Env → Stmt → Heap → Res → Prop where
  | skip {args h ρ} : Exec ops args h ρ .skip h (.norm ρ)
  /-- any statement may raise before it has had an effect -/
  | throw {args h ρ s} : Exec ops args h ρ s h .exc
  | assign {args h ρ x e v h'} : Eval args h ρ e v h' →
      Exec ops args h ρ (.assign x e) h' (.norm (ρ.upd x v))
  | write {args h ρ ln e o h1 h2} : Eval args h ρ e (.ref o) h1 → o < h1.next → WriteAt h1 o h2 →
      Exec ops args h ρ (.write ln e) h2 (.norm ρ)
  /-- the target has no identity in the model (a value), or the mutation changes nothing -/
  | writeNone {args h ρ ln e v h1} : Eval args h ρ e v h1 →
      Exec ops args h ρ (.write ln e) h1 (.norm ρ)
  | seq {args h ρ s t h1 ρ1 h2 r} : Exec ops args h ρ s h1 (.norm ρ1) → Exec ops args h1 ρ1 t h2 r →
      Exec ops args h ρ (.seq s t) h2 r
  | seqStop {args h ρ s t h1 r} : Exec ops args h ρ s h1 r → r.isNorm = false →
      Exec ops args h ρ (.seq s t) h1 r
  | iteL {args h ρ s t h1 r} : Exec ops args h ρ s h1 r → Exec ops args h ρ (.ite s t) h1 r
  | iteR {args h ρ s t h1 r} : Exec ops args h ρ t h1 r → Exec ops args h ρ (.ite s t) h1 r
  | loopDone {args h ρ inv s} : Exec ops args h ρ (.loop inv s) h (.norm ρ)
  | loopStep {args h ρ inv s h1 ρ1 h2 r} : Exec ops args h ρ s h1 (.norm ρ1) →
      Exec ops args h1 ρ1 (.loop inv s) h2 r → Exec ops args h ρ (.loop inv s) h2 r
  | loopStop {args h ρ inv s h1 r} : Exec ops args h ρ s h1 r → r.isNorm = false →
      Exec ops args h ρ (.loop inv s) h1 r
  | raise {args h ρ} : Exec ops args h ρ .raise h .exc
  | ret {args h ρ e v h'} : Eval args h ρ e v h' → Exec ops args h ρ (.ret e) h' (.ret v)
  | call {args h ρ ln x f es vs h1 d h2 r} : EvalList args h ρ es vs h1 → ops[f]? = some d →
      Exec ops vs h1 Env.empty d.body h2 r →
      Exec ops args h ρ (.callOp ln x f es) h2 (callRes ρ x r)

/-- one call of the entry operation of `p` -/
def Run (p : Prog) (h : Heap) (args : List Val) (h' : Heap) (r : Res) : Prop :=
  ∃ d, p.ops[p.entry]? = some d ∧ args.length = d.nparams ∧ Exec p.ops args h Env.empty d.body h' r

/-- objects reachable from the arguments -/
inductive Reach (h : Heap) (args : List Val) : Nat → Prop where
  | root {a o} : a ∈ args → RefIn a o → Reach h args o
  | kid {o k} : Reach h args o → k ∈ (h.cell o).kids → Reach h args k

/-! ## Abstract interpretation -/

def absExpr (aargs σ : AEnv) : Expr → AbsVal
  | .param i => aargs.get i
  | .var x => σ.get x
  | .fresh => AbsVal.fresh
  | .copyOf _ => AbsVal.fresh
  | .field e => absExpr aargs σ e
  | .elem e => absExpr aargs σ e
  | .proj e _ => absExpr aargs σ e
  | .pair a b => (absExpr aargs σ a).join (absExpr aargs σ b)
  | .scalar => AbsVal.bot

structure AOut where
  /-- environment after normal completion; `none` = cannot complete normally -/
  env : Option AEnv
  /-- join of the provenance of everything returned -/
  ret : AbsVal
  /-- source lines of the statements whose obligation fails (`write` that may hit a pre-existing
  object, `callOp` whose contract precondition is not met, `0` = loop without fixpoint) -/
  bad : List Nat
  deriving Repr, Inhabited

def optJoin : Option AEnv → Option AEnv → Option AEnv
  | none, b => b
  | a, none => a
  | some a, some b => some (a.join b)

/-- environment after the statement, `⊥` everywhere when it cannot complete normally -/
def AOut.post (o : AOut) : AEnv := o.env.getD []

def absStmt (cs : List Contract) (aargs : AEnv) : Stmt → AEnv → AOut
  | .skip, σ => ⟨some σ, AbsVal.bot, []⟩
  | .assign x e, σ => ⟨some (σ.set x (absExpr aargs σ e)), AbsVal.bot, []⟩
  | .write ln e, σ => ⟨some σ, AbsVal.bot, if (absExpr aargs σ e).inp then [ln] else []⟩
  | .seq s t, σ =>
      let o1 := absStmt cs aargs s σ
      match o1.env with
      | none => o1
      | some σ1 =>
          let o2 := absStmt cs aargs t σ1
          ⟨o2.env, o1.ret.join o2.ret, o1.bad ++ o2.bad⟩
  | .ite s t, σ =>
      let o1 := absStmt cs aargs s σ
      let o2 := absStmt cs aargs t σ
      ⟨optJoin o1.env o2.env, o1.ret.join o2.ret, o1.bad ++ o2.bad⟩
  | .loop inv s, σ =>
      -- loop-head environment: entry ⊔ proposed invariant; it must absorb the body's post-environment
      let σi := σ.join inv
      let o := absStmt cs aargs s σi
      ⟨some σi, o.ret, o.bad ++ (if o.post.le σi then [] else [0])⟩
  | .callOp ln x f es, σ =>
      match cs[f]? with
      | none => ⟨some (σ.set x AbsVal.both), AbsVal.bot, [ln]⟩
      | some c =>
          ⟨some (σ.set x c.ret), AbsVal.bot,
            if AEnv.le (es.map (absExpr aargs σ)) c.pre then [] else [ln]⟩
  | .raise, _ => ⟨none, AbsVal.bot, []⟩
  | .ret e, σ => ⟨none, absExpr aargs σ e, []⟩

/-- the body of `d` honours contract `c`, given the contracts `cs` of the operations it calls -/
def checkOp (cs : List Contract) (d : OpDef) (c : Contract) : Bool :=
  let o := absStmt cs c.pre d.body []
  o.bad.isEmpty && o.ret.le c.ret

def checkList (cs : List Contract) : List OpDef → List Contract → Bool
  | [], [] => true
  | d :: ds, c :: cs' => checkOp cs d c && checkList cs ds cs'
  | _, _ => false

/-- the precondition "any argument whatsoever" -/
def topPre (n : Nat) : AEnv := List.replicate n AbsVal.both

/-- every operation of `p` honours its contract, and the entry's contract has the precondition
"any argument whatsoever": the entry operation never writes a pre-existing object.
(Contracts and loop invariants are *proposed* by the translator, which computes them by joining to a
fixpoint over the finite lattice; this checker verifies them in one pass, so nothing about the
proposal is trusted: a wrong proposal makes `pureProg` false.) -/
def pureProg (p : Prog) : Bool :=
  checkList p.contracts p.ops p.contracts &&
    match p.ops[p.entry]?, p.contracts[p.entry]? with
    | some d, some c => c.pre == topPre d.nparams
    | _, _ => false

/-- in addition, everything the entry operation returns is newly allocated -/
def freshResult (p : Prog) : Bool :=
  pureProg p && match p.contracts[p.entry]? with
    | some c => !c.ret.inp
    | none => false

/-- report for the driver: source lines of the obligations of the entry operation that fail under
its proposed contract (empty when `checkList` holds) -/
def diagnose (p : Prog) : List Nat :=
  match p.ops[p.entry]?, p.contracts[p.entry]? with
  | some d, some c => (absStmt p.contracts c.pre d.body []).bad
  | _, _ => [0]

end NSV.C11
