import NoteSeqVerif.Model.C10
/-! C10 — the loop bodies of the event-sequence transpositions, one event at a time.

`Model/C10.lean` transcribes `ChordProgression.transpose` as the loop it is (`cpLoop`: assign in place,
stop at the first `ChordSymbolError`).  This file only names what that loop does to ONE event, so
that `Props/C10Events.lean` can state that the loop is a `List.map` / `List.mapM` of it: no event
of the result depends on the events around it (no memo over the previous figure, no de-duplication,
no look-ahead).  The driver keeps running `cpLoop`; nothing here is executed by the correspondence. -/
namespace NSV.C10
open Gen

/-- `if self._events[i] != NO_CHORD: self._events[i] = transpose_chord_symbol(self._events[i], k)` -/
def cpEvent (sp : String → Except Err Sym) (k : Int) (f : String) : Except Err String :=
  if f ≠ NO_CHORD then transposeFigure sp f k else .ok f

/-- the same for a figure the splitter is known to read as the structure `c` -/
def cpFigure (c : String → Sym) (k : Int) (f : String) : String :=
  if f ≠ NO_CHORD then render (transposeSym (c f) k) else f

end NSV.C10
