import NoteSeqVerif.Model.NoteSeq
import NoteSeqVerif.Generated.C07
/-! C07 — event extraction from a quantized NoteSequence (core Lean only).

Transcriptions of
* `performance_lib.BasePerformance._from_quantized_sequence`, `Performance.__init__`,
  `MetricPerformance.__init__`, `NotePerformance.__init__/_from_quantized_sequence`,
  `_program_and_is_drum_from_sequence`, the `PerformanceEvent` validator;
* `pianoroll_lib.PianorollSequence.__init__/_from_quantized_sequence`;
* `drums_lib.DrumTrack.from_quantized_sequence`;
* `chords_lib.ChordProgression.from_quantized_sequence/_add_chord`;
* `melodies_lib.Melody.from_quantized_sequence/_add_note/_get_last_on_off_events/set_length`;
* `events_lib.SimpleEventSequence.set_length`, `sequences_lib.steps_per_bar_in_quantized_sequence`.

Everything is integer arithmetic on quantized steps except the bar length, which the Python
computes in floats (`R` = rounding operator after each float operation; the driver uses `rne53`).
Python exceptions are `Except XErr` values in the order the Python raises them.
These definitions are imported by C06 (render → quantize → extract round trip). -/
namespace NSV.C07

/-- exception classes the extractors can raise (names = Python classes), plus two markers for
input classes on which the Python does not return normally / is not transcribed. -/
inductive XErr where
  | quantizationStatusError | nonIntegerStepsPerBarError | polyphonicMelodyError
  | coincidentChordsError | tooManyTimeShiftStepsError | tooManyDurationStepsError
  | valueError | indexError | zeroDivisionError | badNoteError | badChordError
  | diverges      -- the Python loop does not terminate (`max_shift_steps = 0` with a shift to emit)
  | unmodelled    -- not transcribed: negative bar length / negative number of velocity bins
deriving Repr, DecidableEq

def XErr.name : XErr → String
  | .quantizationStatusError => "QuantizationStatusError"
  | .nonIntegerStepsPerBarError => "NonIntegerStepsPerBarError"
  | .polyphonicMelodyError => "PolyphonicMelodyError"
  | .coincidentChordsError => "CoincidentChordsError"
  | .tooManyTimeShiftStepsError => "TooManyTimeShiftStepsError"
  | .tooManyDurationStepsError => "TooManyDurationStepsError"
  | .valueError => "ValueError"
  | .indexError => "IndexError"
  | .zeroDivisionError => "ZeroDivisionError"
  | .badNoteError => "BadNoteError"
  | .badChordError => "BadChordError"
  | .diverges => "Diverges"
  | .unmodelled => "Unmodelled"

/-! ### shared pieces -/

/-- `sequences_lib.steps_per_bar_in_quantized_sequence`:
`spq * ((4.0 / den) * num)` with the first *stored* time signature, three float operations. -/
def stepsPerBarFloatR (R : Rat → Rat) (s : NoteSeq) : Except XErr Rat :=
  if ¬ 0 < s.spq then .error .quantizationStatusError
  else match s.timeSigs with
    | [] => .error .indexError
    | ts :: _ =>
      if ts.den = 0 then .error .zeroDivisionError
      else .ok (R ((s.spq : Rat) * R (R (4 / (ts.den : Rat)) * (ts.num : Rat))))

/-- `if steps_per_bar_float % 1 != 0: raise NonIntegerStepsPerBarError` … `int(steps_per_bar_float)` -/
def stepsPerBarR (R : Rat → Rat) (s : NoteSeq) : Except XErr Int :=
  match stepsPerBarFloatR R s with
  | .error e => .error e
  | .ok f => if f.den ≠ 1 then .error .nonIntegerStepsPerBarError else .ok f.num

def stepsPerBar (s : NoteSeq) : Except XErr Int := stepsPerBarR rne53 s

/-- `instrument is None or note.instrument == instrument` -/
def instOk (inst : Option Int) (n : Note) : Bool :=
  match inst with
  | none => true
  | some i => n.instrument == i

/-- a Python `frozenset`/dict-key set of ints, represented by its strictly increasing list -/
def insertSet (x : Int) : List Int → List Int
  | [] => [x]
  | y :: ys => if x < y then x :: y :: ys else if x = y then y :: ys else y :: insertSet x ys

def canonSet (l : List Int) : List Int := l.foldr insertSet []

/-- `SimpleEventSequence.set_length(steps)` (from the right), `steps ≥ 0` -/
def setLength {α} (pad : α) (ev : List α) (n : Nat) : List α :=
  if n > ev.length then ev ++ List.replicate (n - ev.length) pad else ev.take n

/-- result of the `SimpleEventSequence` extractors (Melody, DrumTrack, ChordProgression) -/
structure SimpleResult (α : Type) where
  events : List α
  startStep : Int
  endStep : Int
  stepsPerBar : Int
  stepsPerQuarter : Int
deriving Repr, DecidableEq

/-! ### Performance / MetricPerformance -/

inductive PEvent where
  | noteOn (pitch : Int) | noteOff (pitch : Int) | timeShift (steps : Int)
  | velocity (bin : Int) | duration (steps : Int)
deriving Repr, DecidableEq

/-- the attrs validator of `PerformanceEvent` (a failing validator raises `ValueError`) -/
def PEvent.valid : PEvent → Bool
  | .noteOn p => Gen.MIN_MIDI_PITCH ≤ p && p ≤ Gen.MAX_MIDI_PITCH
  | .noteOff p => Gen.MIN_MIDI_PITCH ≤ p && p ≤ Gen.MAX_MIDI_PITCH
  | .timeShift v => 0 ≤ v
  | .duration v => 1 ≤ v
  | .velocity v => 1 ≤ v && v ≤ Gen.MAX_NUM_VELOCITY_BINS

def mkEvent (e : PEvent) : Except XErr PEvent := if e.valid then .ok e else .error .valueError

/-- `sorted(notes, key=lambda note: (note.start_time, note.pitch))` (stable) -/
def timePitchLe (a b : Note) : Bool := a.start < b.start || (a.start == b.start && a.pitch ≤ b.pitch)

def selectNotes (s : NoteSeq) (startStep : Int) (inst : Option Int) : List Note :=
  s.notes.filter (fun n => startStep ≤ n.qs && instOk inst n)

def sortedNotes (s : NoteSeq) (startStep : Int) (inst : Option Int) : List Note :=
  (selectNotes s startStep inst).mergeSort timePitchLe

/-- one element of `note_events`: `(step, idx, is_offset)`; `note = sorted_notes[idx]` -/
structure NEv where
  step : Int
  idx : Nat
  isOff : Bool
  note : Note
deriving Repr, DecidableEq

/-- tuple order on `(step, idx, is_offset)`, `False < True` -/
def nevLe (a b : NEv) : Bool :=
  a.step < b.step || (a.step == b.step &&
    (a.idx < b.idx || (a.idx == b.idx && (!a.isOff || b.isOff))))

def onsets (l : List Note) : List NEv := l.zipIdx.map (fun (n, i) => ⟨n.qs, i, false, n⟩)
def offsets (l : List Note) : List NEv := l.zipIdx.map (fun (n, i) => ⟨n.qe, i, true, n⟩)

/-- `sorted(onsets + offsets)` -/
def noteEvents (l : List Note) : List NEv := (onsets l ++ offsets l).mergeSort nevLe

/-- the `while step > current_step + max_shift_steps` loop followed by the final shift, for a
distance `d > 0` and `max_shift_steps ≥ 1`.  The first argument bounds the iterations
(`d.toNat` suffices because every iteration removes at least one step). -/
def shiftLoop (maxShift : Int) : Nat → Int → List PEvent
  | 0, d => [.timeShift d]
  | f + 1, d =>
    if d > maxShift then .timeShift maxShift :: shiftLoop maxShift f (d - maxShift)
    else [.timeShift d]

structure PState where
  cur : Int           -- current_step
  vel : Int           -- current_velocity_bin
  out : List PEvent   -- performance_events
deriving Repr, DecidableEq

/-- `if step > current_step:` … the time shifts up to `step` -/
def perfShift (maxShift : Int) (st : PState) (step : Int) : Except XErr PState :=
  if step > st.cur then
    if maxShift < 0 then .error .valueError          -- PerformanceEvent(TIME_SHIFT, negative)
    else if maxShift = 0 then .error .diverges       -- appends TIME_SHIFT 0 forever
    else .ok { st with cur := step,
                       out := st.out ++ shiftLoop maxShift (step - st.cur).toNat (step - st.cur) }
  else .ok st

/-- `if num_velocity_bins:` … a VELOCITY event when an onset changes the current bin -/
def perfVelocity (nb : Int) (st : PState) (e : NEv) : Except XErr PState :=
  if nb = 0 then .ok st
  else if nb < 0 then .error .unmodelled
  else
    let bin := Gen.velocityToBin e.note.velocity nb
    if !e.isOff && bin ≠ st.vel then
      match mkEvent (.velocity bin) with
      | .error x => .error x
      | .ok ev => .ok { st with vel := bin, out := st.out ++ [ev] }
    else .ok st

/-- the NOTE_ON / NOTE_OFF event itself -/
def perfNote (st : PState) (e : NEv) : Except XErr PState :=
  match mkEvent (if e.isOff then .noteOff e.note.pitch else .noteOn e.note.pitch) with
  | .error x => .error x
  | .ok ev => .ok { st with out := st.out ++ [ev] }

/-- body of `for step, idx, is_offset in note_events` -/
def perfStep (nb maxShift : Int) (st : PState) (e : NEv) : Except XErr PState :=
  (perfShift maxShift st e.step).bind fun st1 =>
    (perfVelocity nb st1 e).bind fun st2 => perfNote st2 e

def perfLoop (nb maxShift : Int) : PState → List NEv → Except XErr PState
  | st, [] => .ok st
  | st, e :: es =>
    match perfStep nb maxShift st e with
    | .error x => .error x
    | .ok st' => perfLoop nb maxShift st' es

/-- `BasePerformance._from_quantized_sequence` -/
def perfEvents (s : NoteSeq) (startStep nb maxShift : Int) (inst : Option Int) :
    Except XErr (List PEvent) :=
  match perfLoop nb maxShift ⟨startStep, 0, []⟩ (noteEvents (sortedNotes s startStep inst)) with
  | .error x => .error x
  | .ok st => .ok st.out

/-- `_program_and_is_drum_from_sequence` (program `none` = Python `None`) -/
def programAndIsDrum (s : NoteSeq) (inst : Option Int) : Option Int × Option Bool :=
  let notes := s.notes.filter (instOk inst)
  if notes.all (·.isDrum) then (none, some true)
  else if notes.all (fun n => !n.isDrum) then
    match canonSet (notes.map (·.program)) with
    | [p] => (some p, some false)
    | _ => (none, some false)
  else (none, none)

structure PerfResult where
  events : List PEvent
  startStep : Int
  numVelocityBins : Int
  maxShiftSteps : Int
  program : Option Int
  isDrum : Option Bool
  stepsPer : Int            -- steps_per_second (Performance) / steps_per_quarter (MetricPerformance)
deriving Repr, DecidableEq

/-- `Performance(quantized_sequence=s, start_step, num_velocity_bins, max_shift_steps, instrument)` -/
def perfFromQuantized (s : NoteSeq) (startStep nb maxShift : Int) (inst : Option Int) :
    Except XErr PerfResult :=
  if ¬ 0 < s.sps then .error .quantizationStatusError
  else match perfEvents s startStep nb maxShift inst with
    | .error x => .error x
    | .ok evs =>
      let (prog, drum) := programAndIsDrum s inst
      if nb > Gen.MAX_NUM_VELOCITY_BINS then .error .valueError
      else .ok ⟨evs, startStep, nb, maxShift, prog, drum, s.sps⟩

/-- `MetricPerformance(quantized_sequence=s, start_step, num_velocity_bins, max_shift_quarters, instrument)` -/
def metricPerfFromQuantized (s : NoteSeq) (startStep nb maxShiftQuarters : Int) (inst : Option Int) :
    Except XErr PerfResult :=
  if ¬ 0 < s.spq then .error .quantizationStatusError
  else match perfEvents s startStep nb (s.spq * maxShiftQuarters) inst with
    | .error x => .error x
    | .ok evs =>
      let (prog, drum) := programAndIsDrum s inst
      if nb > Gen.MAX_NUM_VELOCITY_BINS then .error .valueError
      else .ok ⟨evs, startStep, nb, s.spq * maxShiftQuarters, prog, drum, s.spq⟩

/-! ### NotePerformance -/

/-- one `(TIME_SHIFT, NOTE_ON, VELOCITY, DURATION)` tuple -/
structure NPTuple where
  shift : Int
  pitch : Int
  bin : Int
  dur : Int
deriving Repr, DecidableEq

/-- `NotePerformance._from_quantized_sequence`, the loop over `sorted_notes` -/
def notePerfLoop (nb maxShift maxDur : Int) : Int → List Note → Except XErr (List NPTuple)
  | _, [] => .ok []
  | cur, n :: ns =>
    let ts := n.qs - cur
    if ts > maxShift then .error .tooManyTimeShiftStepsError
    else if ¬ (PEvent.timeShift ts).valid then .error .valueError
    else if ¬ (PEvent.noteOn n.pitch).valid then .error .valueError
    else if nb = 0 then .error .zeroDivisionError
    else if nb < 0 then .error .unmodelled
    else
      let bin := Gen.velocityToBin n.velocity nb
      if ¬ (PEvent.velocity bin).valid then .error .valueError
      else
        let d := n.qe - n.qs
        if d > maxDur then .error .tooManyDurationStepsError
        else if ¬ (PEvent.duration d).valid then .error .valueError
        else match notePerfLoop nb maxShift maxDur n.qs ns with
          | .error x => .error x
          | .ok r => .ok (⟨ts, n.pitch, bin, d⟩ :: r)

structure NotePerfResult where
  events : List NPTuple
  startStep : Int
  numVelocityBins : Int
  program : Option Int
  isDrum : Option Bool
  stepsPerSecond : Int
deriving Repr, DecidableEq

/-- `NotePerformance(s, num_velocity_bins, instrument, start_step, max_shift_steps, max_duration_steps)` -/
def notePerfFromQuantized (s : NoteSeq) (nb : Int) (inst : Option Int)
    (startStep maxShift maxDur : Int) : Except XErr NotePerfResult :=
  let (prog, drum) := programAndIsDrum s inst
  if nb > Gen.MAX_NUM_VELOCITY_BINS then .error .valueError
  else if ¬ 0 < s.sps then .error .quantizationStatusError
  else match notePerfLoop nb maxShift maxDur startStep (sortedNotes s startStep inst) with
    | .error x => .error x
    | .ok evs => .ok ⟨evs, startStep, nb, prog, drum, s.sps⟩

/-! ### PianorollSequence -/

structure RollCfg where
  start : Int
  minP : Int
  maxP : Int
  split : Bool
  rows : Int          -- total_quantized_steps - start_step
deriving Repr, DecidableEq

/-- numpy slice-bound normalisation on an axis of length `rows` -/
def normIdx (rows i : Int) : Int := if i < 0 then max (i + rows) 0 else min i rows

/-- the two `continue` filters of the painting loop -/
def rollSel (c : RollCfg) (n : Note) : Bool :=
  c.start ≤ n.qs && c.minP ≤ n.pitch && n.pitch ≤ c.maxP

/-- `piano_roll[start_offset - 1, pitch_offset] = 0` is executed for cell `(f, p)` -/
def rollClears (c : RollCfg) (n : Note) (f p : Int) : Bool :=
  c.split && 0 < n.qs - c.start && f == n.qs - c.start - 1 && p == n.pitch - c.minP

/-- `piano_roll[start_offset:end_offset, pitch_offset] = 1` writes cell `(f, p)` (`0 ≤ f < rows`) -/
def rollCovers (c : RollCfg) (n : Note) (f p : Int) : Bool :=
  n.qs - c.start ≤ f && f < normIdx c.rows (n.qe - c.start) && p == n.pitch - c.minP

/-- the single-cell write raises `IndexError` -/
def rollIndexErr (c : RollCfg) (n : Note) : Bool :=
  rollSel c n && c.split && 0 < n.qs - c.start && c.rows ≤ n.qs - c.start - 1

/-- the roll is the function `(frame, pitch offset) ↦ cell`, read only for `0 ≤ frame < rows`,
`0 ≤ offset ≤ maxP - minP`; the loop body clears one cell, then sets a slice -/
def paint (c : RollCfg) (r : Int → Int → Bool) (n : Note) : Int → Int → Bool :=
  if rollSel c n then
    fun f p => if rollCovers c n f p then true else if rollClears c n f p then false else r f p
  else r

def rollFrames (c : RollCfg) (r : Int → Int → Bool) : List (List Int) :=
  (List.range c.rows.toNat).map fun (f : Nat) =>
    ((List.range (c.maxP - c.minP + 1).toNat).filter fun (p : Nat) => r (f : Int) (p : Int)).map
      (fun (p : Nat) => (p : Int))

/-- `PianorollSequence(quantized_sequence=s, start_step, min_pitch, max_pitch, split_repeats)`;
events are tuples of pitch offsets, increasing -/
def pianorollFromQuantized (s : NoteSeq) (startStep minP maxP : Int) (split : Bool) :
    Except XErr (List (List Int)) :=
  if ¬ 0 < s.spq then .error .quantizationStatusError
  else
    let c : RollCfg := ⟨startStep, minP, maxP, split, s.totalQSteps - startStep⟩
    if c.rows < 0 ∨ maxP - minP + 1 < 0 then .error .valueError      -- np.zeros: negative dimensions
    else
      let notes := sortByInt (·.qs) s.notes
      if notes.any (rollIndexErr c) then .error .indexError
      else .ok (rollFrames c (notes.foldl (paint c) (fun _ _ => false)))

/-! ### DrumTrack -/

def drumSel (searchStart : Int) (ignoreIsDrum : Bool) (n : Note) : Bool :=
  (n.isDrum || ignoreIsDrum) && n.velocity != 0 && searchStart ≤ n.qs

/-- `frozenset(note.pitch for note in grouped_notes[t])` -/
def pitchesAt (sel : List Note) (t : Int) : List Int :=
  canonSet ((sel.filter (fun n => n.qs == t)).map (·.pitch))

/-- the loop over the groups in step order.  `steps` = remaining group keys, `ev` = `self._events`,
`gsi` = `gap_start_index` -/
def drumLoop (sel : List Note) (trackStart gapSteps : Int) :
    List Int → List (List Int) → Int → List (List Int)
  | [], ev, _ => ev
  | t :: ts, ev, gsi =>
    let si := t - trackStart
    if ev.length ≠ 0 ∧ si - gsi ≥ gapSteps then ev
    else drumLoop sel trackStart gapSteps ts
           ((setLength [] ev (si + 1).toNat).set si.toNat (pitchesAt sel t)) (si + 1)

/-- `DrumTrack().from_quantized_sequence(s, search_start_step, gap_bars, pad_end, ignore_is_drum)` -/
def drumsFromQuantized (s : NoteSeq) (searchStart gapBars : Int) (padEnd ignoreIsDrum : Bool) :
    Except XErr (SimpleResult (List Int)) :=
  match stepsPerBar s with
  | .error e => .error e
  | .ok spb =>
    let sel := s.notes.filter (drumSel searchStart ignoreIsDrum)
    match canonSet (sel.map (·.qs)) with
    | [] => .ok ⟨[], 0, 0, spb, s.spq⟩
    | first :: rest =>
      if spb = 0 then .error .zeroDivisionError
      else if spb < 0 then .error .unmodelled
      else
        let trackStart := first - Int.fmod (first - searchStart) spb
        let ev := drumLoop sel trackStart (gapBars * spb) (first :: rest) [] 0
        if ev.length = 0 then .ok ⟨[], 0, 0, spb, s.spq⟩
        else
          let length : Int := if padEnd then ev.length + Int.fmod (-(ev.length : Int)) spb else ev.length
          .ok ⟨setLength [] ev length.toNat, trackStart, trackStart + length, spb, s.spq⟩

/-! ### ChordProgression -/

/-- `_add_chord(figure, start_index, end_index)`: `set_length(end_index)` then fill
`[start_index, end_index)`; `0 ≤ start_index` at every call site -/
def addChord (ev : List String) (fig : String) (si ei : Int) : Except XErr (List String) :=
  if si ≥ ei then .error .badChordError
  else .ok ((setLength Gen.NO_CHORD ev ei.toNat).take si.toNat ++ List.replicate (ei.toNat - si.toNat) fig)

/-- `start_index` of the chord in force -/
def chordStartIndex (prev : Option Int) (startStep : Int) : Int :=
  match prev with
  | none => 0
  | some p => max p startStep - startStep

/-- the loop over the chords in step order; state `(prev_step, prev_figure, events)` -/
def chordLoop (startStep endStep : Int) :
    List TextAnn → Option Int → String → List String → Except XErr (Option Int × String × List String)
  | [], ps, pf, ev => .ok (ps, pf, ev)
  | c :: cs, ps, pf, ev =>
    if c.qstep ≥ endStep then .ok (ps, pf, ev)
    else if c.qstep < startStep then chordLoop startStep endStep cs (some c.qstep) c.text ev
    else if some c.qstep = ps then
      if c.text = pf then chordLoop startStep endStep cs ps pf ev
      else .error .coincidentChordsError
    else
      let r := if c.qstep > startStep then
                 addChord ev pf (chordStartIndex ps startStep) (c.qstep - startStep)
               else .ok ev
      match r with
      | .error e => .error e
      | .ok ev' => chordLoop startStep endStep cs (some c.qstep) c.text ev'

/-- key `(chord.quantized_step, chord.time)` (tuple order) -/
def chordLe (a b : TextAnn) : Bool := a.qstep < b.qstep || (a.qstep == b.qstep && a.time ≤ b.time)

/-- `sorted([a for a in text_annotations if a.annotation_type == CHORD_SYMBOL],
key=lambda chord: (chord.quantized_step, chord.time))` (stable) -/
def chordAnns (s : NoteSeq) : List TextAnn :=
  (s.texts.filter (fun a => a.kind == Gen.CHORD_SYMBOL)).mergeSort chordLe

/-- after the loop: `if prev_step is None or prev_step < end_step: _add_chord(prev_figure, …, end_index)` -/
def chordFinish (startStep endStep : Int) (ps : Option Int) (pf : String) (ev : List String) :
    Except XErr (List String) :=
  let add := addChord ev pf (chordStartIndex ps startStep) (endStep - startStep)
  match ps with
  | none => add
  | some p => if p < endStep then add else .ok ev

/-- `ChordProgression().from_quantized_sequence(s, start_step, end_step)`; figures are the
(hex-encoded) annotation texts -/
def chordsFromQuantized (s : NoteSeq) (startStep endStep : Int) :
    Except XErr (SimpleResult String) :=
  match stepsPerBar s with
  | .error e => .error e
  | .ok spb =>
    match chordLoop startStep endStep (chordAnns s) none Gen.NO_CHORD [] with
    | .error e => .error e
    | .ok (ps, pf, ev) =>
      match chordFinish startStep endStep ps pf ev with
      | .error e => .error e
      | .ok ev' => .ok ⟨ev', startStep, endStep, spb, s.spq⟩

/-! ### Melody -/

/-- `Melody.set_length` scan: going back from the old end, is a pitch met before any NOTE_OFF?
(argument = the old events reversed) -/
def sustained : List Int → Bool
  | [] => false
  | x :: xs =>
    if x = Gen.MELODY_NOTE_OFF then false
    else if x ≠ Gen.MELODY_NO_EVENT then true
    else sustained xs

/-- `Melody.set_length(steps)` (from the right): extending ends a sustained note -/
def melSetLength (ev : List Int) (n : Nat) : List Int :=
  let ev' := setLength Gen.MELODY_NO_EVENT ev n
  if n > ev.length ∧ sustained ev.reverse then ev'.set ev.length Gen.MELODY_NOTE_OFF else ev'

/-- `_add_note(pitch, start_index, end_index)`; after `set_length(end_index + 1)` the three
assignments leave `events[:start_index] + [pitch] + [NO_EVENT]*(end-start-1) + [NOTE_OFF]`
(`0 ≤ start_index` at the call site) -/
def addNote (ev : List Int) (pitch si ei : Int) : Except XErr (List Int) :=
  if si ≥ ei then .error .badNoteError
  else .ok ((melSetLength ev (ei + 1).toNat).take si.toNat ++ pitch ::
            (List.replicate (ei.toNat - si.toNat - 1) Gen.MELODY_NO_EVENT ++ [Gen.MELODY_NOTE_OFF]))

/-- `_get_last_on_off_events` on the reversed event list: `(last_on, last_off)`;
`none` = `ValueError('No events in the stream')` -/
def lastOnOffRev : List Int → Nat → Option (Nat × Nat)
  | [], _ => none
  | x :: xs, lastOff =>
    let i := xs.length
    let lo := if x = Gen.MELODY_NOTE_OFF then i else lastOff
    if x ≥ Gen.MIN_MIDI_PITCH then some (i, lo) else lastOnOffRev xs lo

def lastOnOff (ev : List Int) : Option (Nat × Nat) := lastOnOffRev ev.reverse ev.length

def melSel (searchStart inst : Int) (filterDrums : Bool) (n : Note) : Bool :=
  n.instrument == inst && searchStart ≤ n.qs && !(filterDrums && n.isDrum) && n.velocity != 0

/-- key `(quantized_start_step, -pitch, start_time)` (tuple order) -/
def melLe (a b : Note) : Bool :=
  a.qs < b.qs || (a.qs == b.qs && (b.pitch < a.pitch || (b.pitch == a.pitch && a.start ≤ b.start)))

/-- the loop over the sorted notes; the result is `self._events` when the loop ends or breaks -/
def melLoop (filterDrums ignorePoly : Bool) (gapSteps mstart : Int) :
    List Note → List Int → Except XErr (List Int)
  | [], ev => .ok ev
  | n :: ns, ev =>
    if filterDrums && n.isDrum then melLoop filterDrums ignorePoly gapSteps mstart ns ev
    else if n.velocity = 0 then melLoop filterDrums ignorePoly gapSteps mstart ns ev
    else
      let si := n.qs - mstart
      let ei := n.qe - mstart
      if ev.length = 0 then
        match addNote ev n.pitch si ei with
        | .error e => .error e
        | .ok ev' => melLoop filterDrums ignorePoly gapSteps mstart ns ev'
      else
        match lastOnOff ev with
        | none => .error .valueError
        | some (lastOn, lastOff) =>
          let onD := si - lastOn
          let offD := si - lastOff
          if onD = 0 then
            if ignorePoly then melLoop filterDrums ignorePoly gapSteps mstart ns ev
            else .error .polyphonicMelodyError
          else if onD < 0 then .error .polyphonicMelodyError
          else if offD ≥ gapSteps then .ok ev
          else match addNote ev n.pitch si ei with
            | .error e => .error e
            | .ok ev' => melLoop filterDrums ignorePoly gapSteps mstart ns ev'

/-- `Melody().from_quantized_sequence(s, search_start_step, instrument, gap_bars,
ignore_polyphonic_notes, pad_end, filter_drums)` -/
def melodyFromQuantized (s : NoteSeq) (searchStart inst gapBars : Int)
    (ignorePoly padEnd filterDrums : Bool) : Except XErr (SimpleResult Int) :=
  match stepsPerBar s with
  | .error e => .error e
  | .ok spb =>
    match (s.notes.filter (melSel searchStart inst filterDrums)).mergeSort melLe with
    | [] => .ok ⟨[], 0, 0, spb, s.spq⟩
    | first :: rest =>
      if spb = 0 then .error .zeroDivisionError
      else if spb < 0 then .error .unmodelled
      else
        let mstart := first.qs - Int.fmod (first.qs - searchStart) spb
        match melLoop filterDrums ignorePoly (gapBars * spb) mstart (first :: rest) [] with
        | .error e => .error e
        | .ok ev =>
          if ev.length = 0 then .ok ⟨[], 0, 0, spb, s.spq⟩
          else
            let ev1 := if ev.getLast? = some Gen.MELODY_NOTE_OFF then ev.dropLast else ev
            let length : Int :=
              if padEnd then ev1.length + Int.fmod (-(ev1.length : Int)) spb else ev1.length
            .ok ⟨melSetLength ev1 length.toNat, mstart, mstart + length, spb, s.spq⟩

end NSV.C07
