import NoteSeqVerif.Model.C08Inst
/-! C08 — the `EventSequenceEncoderDecoder` interface as one structure, the helper methods the abstract base
class defines on top of it (`labels_to_num_steps`, `encode`, `get_inputs_batch`, `extend_event_sequences`) and
the `ConditionalEventSequenceEncoderDecoder` wrapper with EVERY public method it has, each one delegating to
the control or to the target encoder exactly as `note_seq/encoder_decoder.py` does (core Lean only).

`SeqEnc ε ι κ ν`: events `ε`, input cells `ι` (`Int` for the 0/±1 vectors, `MCell` for the modulo encoding),
labels `κ` (`Int`, or the 6-tuple `List Int` of the note-performance encoder), `num_classes` of type `ν`. -/
namespace NSV.C08
open Gen

/-- `EventSequenceEncoderDecoder.labels_to_num_steps` (the abstract base class): `len(labels)` — inherited
unchanged by `KeyMelodyEncoderDecoder` and `PianorollEncoderDecoder` -/
def baseLabelsToNumSteps {κ : Type} (labels : List κ) : Int := labels.length

/-- the overridable part of an `EventSequenceEncoderDecoder` -/
structure SeqEnc (ε ι κ ν : Type) where
  inputSize : Int
  numClasses : ν
  defaultLabel : Except String κ
  toInput : List ε → Int → Except String (List ι)
  toLabel : List ε → Int → Except String κ
  cite : κ → List ε → Except String ε
  labelsToNumSteps : List κ → Except String Int

namespace SeqEnc
variable {ε ι ι' κ ν : Type}

/-- `encode` of the base class -/
def encode (E : SeqEnc ε ι κ ν) (evs : List ε) : Except String (List (List ι) × List κ) :=
  encodeG E.toInput E.toLabel evs

/-- the body of `get_inputs_batch` for one sequence of length `len` (`toIn i` = the input at position `i`):
`full_length`: positions `0 … len-1` in order; otherwise only position `len - 1` (for an empty sequence that is
position `-1`, which the encoders answer with `IndexError`) -/
def inputsOf (toIn : Int → Except String (List ι)) (len : Nat) (full : Bool) : Except String (List (List ι)) :=
  if full then mapE (fun i : Nat => toIn i) (List.range len)
  else (toIn ((len : Int) - 1)).map (fun v => [v])

/-- `get_inputs_batch` of the base class -/
def inputsBatch (E : SeqEnc ε ι κ ν) (seqs : List (List ε)) (full : Bool) : Except String (List (List (List ι))) :=
  mapE (fun evs => inputsOf (E.toInput evs) evs.length full) seqs

/-- one step of `extend_event_sequences` on one sequence once the class has been drawn:
`event = class_index_to_event(chosen_class, events); events.append(event)` -/
def extendOne (E : SeqEnc ε ι κ ν) (p : List ε × κ) : Except String (List ε) :=
  (E.cite p.2 p.1).map (fun e => p.1 ++ [e])

/-- `extend_event_sequences` of the base class with the drawn classes given (one per sequence, in order;
the harness makes the draw certain with one-hot softmax vectors) -/
def extend (E : SeqEnc ε ι κ ν) (seqs : List (List ε)) (chosen : List κ) : Except String (List (List ε)) :=
  mapE E.extendOne (seqs.zip chosen)

/-- the generation loop as the library runs it: one `extend_event_sequences` call per label on a batch
holding the single sequence `evs` -/
def extendLoop (E : SeqEnc ε ι κ ν) : List κ → List ε → Except String (List ε)
  | [], evs => .ok evs
  | l :: ls, evs =>
    match E.extend [evs] [l] with
    | .error e => .error e
    | .ok [evs'] => extendLoop E ls evs'
    | .ok _ => .error "unreachable"

/-- rename the input cells (the driver prints every cell as a string) -/
def mapCells (f : ι → ι') (E : SeqEnc ε ι κ ν) : SeqEnc ε ι' κ ν where
  inputSize := E.inputSize
  numClasses := E.numClasses
  defaultLabel := E.defaultLabel
  toInput evs p := (E.toInput evs p).map (List.map f)
  toLabel := E.toLabel
  cite := E.cite
  labelsToNumSteps := E.labelsToNumSteps

/-- rename `num_classes` (printing only) -/
def mapNC {ν' : Type} (f : ν → ν') (E : SeqEnc ε ι κ ν) : SeqEnc ε ι κ ν' where
  inputSize := E.inputSize
  numClasses := f E.numClasses
  defaultLabel := E.defaultLabel
  toInput := E.toInput
  toLabel := E.toLabel
  cite := E.cite
  labelsToNumSteps := E.labelsToNumSteps

end SeqEnc

/-! ### the concrete encoder/decoder classes as `SeqEnc`s -/
section Instances
variable {ε : Type}

/-- `OneHotEventSequenceEncoderDecoder(one_hot_encoding)` -/
def ohEnc (oh : OneHot ε) : SeqEnc ε Int Int Int :=
  ⟨ohInputSize oh, ohNumClasses oh, ohDefaultLabel oh, ohEventsToInput oh, ohEventsToLabel oh,
   ohClassIndexToEvent oh, ohLabelsToNumSteps oh⟩

/-- `OneHotIndexEventSequenceEncoderDecoder(one_hot_encoding)` -/
def ohiEnc (oh : OneHot ε) : SeqEnc ε Int Int Int :=
  ⟨ohiInputSize oh, ohNumClasses oh, ohDefaultLabel oh, ohiEventsToInput oh, ohEventsToLabel oh,
   ohClassIndexToEvent oh, ohLabelsToNumSteps oh⟩

/-- `LookbackEventSequenceEncoderDecoder(one_hot_encoding, lookback_distances, binary_counter_bits)` -/
def lbEnc [DecidableEq ε] (oh : OneHot ε) (c : LookbackCfg) : SeqEnc ε Int Int Int :=
  ⟨lbInputSize oh c, lbNumClasses oh c, lbDefaultLabel oh, lbEventsToInput oh c, lbEventsToLabel oh c,
   lbClassIndexToEvent oh c, lbLabelsToNumSteps oh c⟩

/-- `KeyMelodyEncoderDecoder` (inherits the base `labels_to_num_steps`) -/
def keyEnc (c : KeyCfg) : SeqEnc Int Int Int Int :=
  ⟨keyInputSize c, keyNumClasses c, .ok (keyDefaultLabel c), keyEventsToInput c, keyEventsToLabel c,
   keyClassIndexToEvent c, fun ls => .ok (baseLabelsToNumSteps ls)⟩

/-- `default_event_label` of the note-performance encoder: `_encode_event` of the literal default tuple
(regenerated from the source as `NOTEPERF_DEFAULT_EVENT`) -/
def npDefaultLabel (E : NPEnc) : Except String (List Int) :=
  match NOTEPERF_DEFAULT_EVENT with
  | [a, b, c, d] => .ok (npEncodeEvent E ⟨a, b, c, d⟩)
  | _ => .error "generated-default-event"

/-- `NotePerformanceEventSequenceEncoderDecoder` (constructed object `E`): labels are 6-tuples, `num_classes`
a list of 6 sizes, `class_index_to_event` ignores the events -/
def npEnc (E : NPEnc) : SeqEnc NPEvent Int (List Int) (List Int) :=
  ⟨npInputSize E, E.numClasses, npDefaultLabel E, npEventsToInput E, npEventsToLabel E,
   fun l _ => npClassIndexToEvent E l, npLabelsToNumSteps E⟩

/-- `PianorollEncoderDecoder(input_size)` (inherits the base `labels_to_num_steps`; its own
`extend_event_sequences`, which appends a sampled pitch vector, is not modelled) -/
def prEnc (n : Nat) : SeqEnc (List Nat) Int Int Int :=
  ⟨n, prNumClasses n, .ok 0, prEventsToInput n, prEventsToLabel,
   fun ci _ => prClassIndexToEvent n ci, fun ls => .ok (baseLabelsToNumSteps ls)⟩

/-- the one-hot encoding `ModuloPerformanceEventSequenceEncoderDecoder.__init__` builds (default pitch range) -/
def modOneHot (c : ModCfg) : OneHot (Nat × Int) := perfOneHot c.bins c.maxShift MIN_MIDI_PITCH MAX_MIDI_PITCH

/-- `ModuloPerformanceEventSequenceEncoderDecoder(num_velocity_bins, max_shift_steps)` -/
def modEnc (c : ModCfg) : SeqEnc (Nat × Int) MCell Int Int :=
  ⟨modInputSize c, ohNumClasses (modOneHot c), ohDefaultLabel (modOneHot c), modEventsToInput c,
   ohEventsToLabel (modOneHot c), ohClassIndexToEvent (modOneHot c), ohLabelsToNumSteps (modOneHot c)⟩

end Instances

/-! ### ConditionalEventSequenceEncoderDecoder -/

/-- `ConditionalEventSequenceEncoderDecoder(control_encoder_decoder, target_encoder_decoder)`; the two input
vectors are Python lists of the same cell type (the wrapper concatenates them with `+`) -/
structure Cond (γ ε ι κc νc κ ν : Type) where
  control : SeqEnc γ ι κc νc
  target : SeqEnc ε ι κ ν

namespace Cond
variable {γ ε ι κc νc κ ν : Type}

/-- `input_size`: control + target -/
def inputSize (W : Cond γ ε ι κc νc κ ν) : Int := W.control.inputSize + W.target.inputSize

/-- `num_classes`: the target's -/
def numClasses (W : Cond γ ε ι κc νc κ ν) : ν := W.target.numClasses

/-- `default_event_label`: the target's -/
def defaultLabel (W : Cond γ ε ι κc νc κ ν) : Except String κ := W.target.defaultLabel

/-- `events_to_input(control_events, target_events, position)`: control at `position + 1` (evaluated first),
then target at `position`, concatenated -/
def toInput (W : Cond γ ε ι κc νc κ ν) (ctrl : List γ) (tgt : List ε) (pos : Int) : Except String (List ι) :=
  condEventsToInput W.control.toInput W.target.toInput ctrl tgt pos

/-- `events_to_label(target_events, position)`: the target's -/
def toLabel (W : Cond γ ε ι κc νc κ ν) (tgt : List ε) (pos : Int) : Except String κ := W.target.toLabel tgt pos

/-- `class_index_to_event(class_index, target_events)`: the target's -/
def cite (W : Cond γ ε ι κc νc κ ν) (ci : κ) (tgt : List ε) : Except String ε := W.target.cite ci tgt

/-- `labels_to_num_steps(labels)`: the TARGET's -/
def labelsToNumSteps (W : Cond γ ε ι κc νc κ ν) (labels : List κ) : Except String Int :=
  W.target.labelsToNumSteps labels

/-- `encode(control_events, target_events)`: `ValueError` on different lengths, then for `i` in
`range(len(target) - 1)`: `self.events_to_input(control, target, i)`, `self.events_to_label(target, i + 1)` -/
def encode (W : Cond γ ε ι κc νc κ ν) (ctrl : List γ) (tgt : List ε) : Except String (List (List ι) × List κ) :=
  condEncode W.control.toInput W.target.toInput W.toLabel ctrl tgt

/-- `get_inputs_batch(control_event_sequences, target_event_sequences, full_length)`.  A different number of
sequences makes the code evaluate `len(a, b)` while formatting its message: `TypeError` (the docstring says
`ValueError`).  Each control sequence must be strictly longer than its target sequence (`ValueError`). -/
def inputsBatch (W : Cond γ ε ι κc νc κ ν) (ctrls : List (List γ)) (tgts : List (List ε)) (full : Bool) :
    Except String (List (List (List ι))) :=
  if ctrls.length ≠ tgts.length then .error "TypeError"
  else mapE (fun (p : List γ × List ε) =>
    if p.1.length ≤ p.2.length then .error "ValueError"
    else SeqEnc.inputsOf (W.toInput p.1 p.2) p.2.length full) (ctrls.zip tgts)

/-- `extend_event_sequences(target_event_sequences, softmax)`: the target's -/
def extend (W : Cond γ ε ι κc νc κ ν) (seqs : List (List ε)) (chosen : List κ) : Except String (List (List ε)) :=
  W.target.extend seqs chosen

/-- the generation loop through the wrapper's own `extend_event_sequences` -/
def extendLoop (W : Cond γ ε ι κc νc κ ν) : List κ → List ε → Except String (List ε)
  | [], evs => .ok evs
  | l :: ls, evs =>
    match W.extend [evs] [l] with
    | .error e => .error e
    | .ok [evs'] => extendLoop W ls evs'
    | .ok _ => .error "unreachable"

end Cond
end NSV.C08
