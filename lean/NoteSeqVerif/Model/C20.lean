import NoteSeqVerif.Model.C20_pcm
/-! C20 — WAV round trip, crop, cyclic repeat and stereo packing of `note_seq/audio_io.py`
(hand-written model; core Lean only; conventions in `Model/C20_pcm.lean`). -/
namespace NSV.C20

/-! ### WAV encode / decode with the codec as identity on int16 arrays -/

/-- what `scipy.io.wavfile.read` returned for a mono file: an integer or a floating array -/
inductive WavArray
  | ints (dt : Dtype) (v : List Int)
  | floats (dt : Dtype) (v : List Rat)

/-- `wav_data_to_samples` at the native rate on a mono file (int16 → scaled to float32; float32 →
unchanged; anything else → `AudioIOError`).  Resampling and stereo mix-down (librosa) are outside. -/
def wavDataToSamples : WavArray → Except String (List Rat)
  | .ints dt v => if dt = .int16 then int16SamplesToFloat32 dt v else .error "AudioIOError"
  | .floats dt v => if dt = .float32 then .ok v else .error "AudioIOError"

/-- `wav_data_to_samples (samples_to_wav_data samples rate) rate` for mono `samples` of dtype `dt`,
with `scipy.io.wavfile.write/read` as the identity on int16 arrays.  `none` elements are
samples whose int16 cast is outside the model. -/
def wavRoundTrip (dt : Dtype) (samples : List Rat) : Except String (List (Option Rat)) :=
  match floatSamplesToInt16 dt samples with
  | .error e => .error e
  | .ok ints => .ok (ints.map (fun o => o.map int16ToFloat))

/-! ### crop / repeat -/

/-- CPython slice-index normalisation for step 1: negative indices count from the end, then clamp -/
def pyIdx (len : Nat) (i : Int) : Nat :=
  if i < 0 then (i + (len : Int)).toNat else min i.toNat len

/-- `xs[start:stop]` -/
def pySlice {α} (xs : List α) (start stop : Int) : List α :=
  let s := pyIdx xs.length start
  let e := pyIdx xs.length stop
  (xs.drop s).take (e - s)

/-- `int(seconds * sample_rate)` with the float product rounded by `R` -/
def secToSamples (R : Rat → Rat) (secs : Rat) (rate : Int) : Int := truncR (R (secs * (rate : Rat)))

/-- `crop_samples` (rounding operator `R`; the code is `R = rne53`) -/
def cropR {α} (R : Rat → Rat) (xs : List α) (rate : Int) (b len : Rat) : List α :=
  let a := secToSamples R b rate
  let n := secToSamples R len rate
  pySlice xs a (a + n)

def crop {α} (xs : List α) (rate : Int) (b len : Rat) : List α := cropR rne53 xs rate b len

/-- `int(math.ceil(duration / (len(samples) / sample_rate)))`; the caller has excluded zero divisors -/
def numRepeats (R : Rat → Rat) (len : Nat) (rate : Int) (D : Rat) : Int :=
  (R (D / R ((len : Rat) / (rate : Rat)))).ceil

/-- `repeat_samples_to_duration`.  Errors in the order the Python raises them:
`len(samples) / sample_rate` with rate 0, `duration / 0.0` for an empty input (both
`ZeroDivisionError`), `np.concatenate([])` when the repeat count is ≤ 0 (`ValueError`). -/
def repeatR {α} (R : Rat → Rat) (xs : List α) (rate : Int) (D : Rat) : Except String (List α) :=
  if rate = 0 then .error "ZeroDivisionError"
  else if R ((xs.length : Rat) / (rate : Rat)) = 0 then .error "ZeroDivisionError"
  else
    let nr := numRepeats R xs.length rate D
    if nr ≤ 0 then .error "ValueError"
    else .ok (cropR R (List.replicate nr.toNat xs).flatten rate 0 D)

def repeatSamples {α} (xs : List α) (rate : Int) (D : Rat) : Except String (List α) :=
  repeatR rne53 xs rate D

/-- the side condition under which the float ceiling yields enough copies:
`int(D·rate) ≤ num_repeats · len(samples)` (computed with the same rounding as the code) -/
def repeatEnough (R : Rat → Rat) (len : Nat) (rate : Int) (D : Rat) : Prop :=
  secToSamples R D rate ≤ numRepeats R len rate D * (len : Int)

instance (R : Rat → Rat) (len : Nat) (rate : Int) (D : Rat) : Decidable (repeatEnough R len rate D) := by
  unfold repeatEnough; infer_instance

/-! ### make_stereo -/

/-- `out[mask] = vals` on the row-major flattening: consume `vals` left to right at the `true`
positions, leave `z` (the `np.zeros` fill) elsewhere; numpy raises `ValueError` when the number
of values differs from the number of `true` positions -/
def fillMasked {α} (z : α) : List Bool → List α → Except String (List α)
  | [], [] => .ok []
  | [], _ :: _ => .error "ValueError"
  | false :: m, vs => (fillMasked z m vs).map (z :: ·)
  | true :: _, [] => .error "ValueError"
  | true :: m, v :: vs => (fillMasked z m vs).map (v :: ·)

/-- `make_stereo`: mask rows `arange(maxlen) < len`, masked assignment of `concatenate([left,right])`
into zeros of shape `(2, maxlen)`, transpose -/
def makeStereo {α} (z : α) (dl dr : Dtype) (l r : List α) : Except String (List (α × α)) :=
  if dl ≠ dr then .error "AudioIODataTypeError"
  else
    let m := max l.length r.length
    let mask := (List.range m).map (fun i => decide (i < l.length)) ++
                (List.range m).map (fun i => decide (i < r.length))
    match fillMasked z mask (l ++ r) with
    | .error e => .error e
    | .ok flat => .ok ((flat.take m).zip (flat.drop m))

end NSV.C20
