import NoteSeqVerif.Common.Float
import NoteSeqVerif.Generated.C04
/-! C04 — `note_seq/abc_parser.py` on a TOKEN STREAM (the regular expressions are modelled by the
token grammar, not verified) and the note part of `sequences_lib.expand_section_groups`.

Every function that performs float arithmetic takes the rounding operator `R` applied after each
float operation, in the operation order of the Python (`R := rne53` in the driver, `R := id` in
the exact-arithmetic theorems).  Tables and small constants come from `Gen` (regenerated from the
source on every run).  Exceptions are values: `Err.abc c` is an `ABCParseError` (sub)class `c`
(collected per tune by `parse_abc_tunebook`), `Err.esc c` any other exception (escapes). -/
namespace NSV.C04
open NSV

inductive Err
  | abc (cls : String)
  | esc (cls : String)
deriving DecidableEq, Repr

def eParse : Err := .abc "ABCParseError"
def eRepeat : Err := .abc "RepeatParseError"

/-! ## small helpers -/

/-- `str.lower()` / `str.upper()` on ASCII -/
def lowerC (c : Char) : Char := if 'A' ≤ c ∧ c ≤ 'Z' then Char.ofNat (c.toNat + 32) else c
def upperC (c : Char) : Char := if 'a' ≤ c ∧ c ≤ 'z' then Char.ofNat (c.toNat - 32) else c

/-- dict lookup -/
def lookup {α β} [DecidableEq α] (k : α) : List (α × β) → Option β
  | [] => none
  | (a, v) :: r => if a = k then some v else lookup k r

/-- dict assignment `d[k] = v` (replace in place, else append) -/
def upsert {α β} [DecidableEq α] (k : α) (v : β) : List (α × β) → List (α × β)
  | [] => [(k, v)]
  | (a, w) :: r => if a = k then (a, v) :: r else (a, w) :: upsert k v r

/-- `l[-2]` -/
def secondLast? {α} (l : List α) : Option α :=
  match l.reverse with
  | _ :: b :: _ => some b
  | _ => none

abbrev Accs := List (Char × Int)

/-- `{pitch: 0 for pitch in 'ABCDEFG'}` -/
def zeroAccs : Accs := [('A', 0), ('B', 0), ('C', 0), ('D', 0), ('E', 0), ('F', 0), ('G', 0)]

/-- `for i in range(n): accidentals[order[i]] = v`; `order[i]` out of range is an IndexError -/
def setFirst (order : List Char) (v : Int) : Nat → Accs → Except Err Accs
  | 0, a => .ok a
  | n + 1, a =>
    match setFirst order v n a with
    | .error e => .error e
    | .ok a' =>
      match order[n]? with
      | none => .error (.esc "IndexError")
      | some c => .ok (upsert c v a')

/-- `ABCTune._sig_to_accidentals` -/
def sigToAccs (sig : Int) : Except Err Accs :=
  if 0 < sig then setFirst Gen.SHARPS_ORDER 1 sig.toNat zeroAccs
  else if sig < 0 then setFirst Gen.FLATS_ORDER (-1) (-sig).toNat zeroAccs
  else .ok zeroAccs

/-! ## tokens -/

/-- group 1 of NOTE_PATTERN / KEY_ACCIDENTALS_PATTERN: `(__|_|=|\^|\^\^)?` -/
inductive Acc | none | sharp | flat | natural | dsharp | dflat
deriving DecidableEq, Repr

/-- the groups of KEY_PATTERN and what the scan of the remainder finds -/
structure KeyTok where
  tonic : Char                 -- group 1
  acc : List Char              -- group 2: "", "#" or "b"
  mode : List Char             -- group 3 as captured (a mode word or "")
  exp : Bool                   -- `'exp'` occurs in the remainder
  accs : List (Acc × Char)     -- KEY_ACCIDENTALS_PATTERN matches after it, in order
deriving DecidableEq, Repr

inductive Field
  | refnum (n : Int)           -- X:
  | refBad                     -- X: with a non-integer (ValueError escapes)
  | title (s : List Char)      -- T:
  | composer (s : List Char)   -- C:
  | meterC | meterCut | meterNone
  | meter (n d : Int)          -- M:n/d
  | meterBad
  | unitLen (n d : Int)        -- L:n/d  (L:n is L:n/1)
  | unitBad
  | tempo (beats : List (Nat × Nat)) (rate : Nat)   -- Q:n/d n/d ..=r  (optional "string" prefix)
  | tempoOld (rate : Nat)      -- Q:r, Q:C=r
  | tempoStr                   -- Q:"string"
  | tempoBad
  | key (k : KeyTok)
  | keyBad
  | part | voice               -- P:, V:
  | other                      -- any other letter: ignored
deriving DecidableEq, Repr

/-- group 4 of NOTE_PATTERN `(\d*/*\d*)`: leading digits, slashes, trailing digits
(`den` is meaningful only when `slashes > 0`) -/
structure LenSpec where
  num : Option Nat
  slashes : Nat
  den : Option Nat
deriving DecidableEq, Repr

inductive Tok
  | note (acc : Acc) (letter : Char) (octs : List Bool) (len : LenSpec)  -- octs: true = `'`, false = `,`
  | chord
  | broken (gt : Bool) (n : Nat)       -- `>`×n (gt) or `<`×n
  | inline (f : Field)
  | variantEnding
  | bar (c1 len c2 : Nat)              -- BAR_AND_REPEAT_SYMBOLS_PATTERN: colons, bar chars, colons
  | colons (n : Nat)                   -- REPEAT_SYMBOLS_PATTERN
  | annot (s : List Char)
  | deco | slur | tie | cont           -- matched and ignored
  | tuplet
  | invalid                            -- a non-space character no pattern matches
deriving DecidableEq, Repr

inductive Line
  | field (f : Field)
  | music (toks : List Tok)
deriving DecidableEq, Repr

/-! ## state -/

structure Note where
  pitch : Int
  vel : Int
  start : Rat
  end_ : Rat
deriving DecidableEq, Repr

structure St where
  notes : List Note := []
  tempos : List (Rat × Rat) := []            -- (time, qpm)
  timeSigs : List (Rat × Int × Int) := []
  keySigs : List (Rat × Nat × Nat) := []     -- (time, key, mode)
  sections : List (Rat × Int) := []          -- section_annotations (time, section_id)
  groups : List (Int × Nat) := []            -- section_groups (the single section id, num_times)
  texts : List (Rat × Nat × List Char) := [] -- (time, annotation_type, text)
  title : List Char := []
  composers : List (List Char) := []
  artist : List Char := []
  refnum : Int := 0
  time : Rat := 0
  keyAcc : Accs := zeroAccs
  barAcc : Accs := []
  unit : Option Rat := none
  expected : Option Nat := none
  inHeader : Bool := true
  hdrTempoUnit : Option Rat := none
  hdrTempoRate : Option Nat := none
  broken : Option (Bool × Nat) := none       -- the local `broken_rhythm` of _parse_music_code
deriving Repr

def init : St := {}

/-! ## parse_key -/

def accValue : Acc → Except Err (Option Int)
  | .none => .ok none
  | .sharp => .ok (some 1)
  | .flat => .ok (some (-1))
  | .natural => .ok (some 0)
  | .dsharp => .error eParse
  | .dflat => .error eParse

def applyKeyAccs : List (Acc × Char) → Accs → Except Err Accs
  | [], a => .ok a
  | (ac, c) :: r, a =>
    match accValue ac with
    | .error e => .error e
    | .ok none => applyKeyAccs r a
    | .ok (some v) => applyKeyAccs r (upsert (upperC c) v a)

/-- mode word as captured → the `mode` variable of parse_key -/
def normMode (w : List Char) : List Char :=
  let m := (w.take 3).map lowerC
  match lookup m Gen.MODE_ALIASES with
  | some a => a
  | none => m

/-- `ABCTune.parse_key` on the groups: (accidentals, proto key, proto mode) -/
def parseKey (k : KeyTok) : Except Err (Accs × Nat × Nat) :=
  let mode := normMode k.mode
  match lookup (([k.tonic] ++ k.acc ++ mode).map lowerC) Gen.KEY_TO_SIG with
  | none => .error (.esc "KeyError")
  | some sig =>
    match lookup (([k.tonic] ++ k.acc).map lowerC) Gen.KEY_TO_PROTO_KEY with
    | none => .error (.esc "KeyError")
    | some pk =>
      match lookup mode Gen.MODE_TO_PROTO with
      | none => .error eParse
      | some pm =>
        match sigToAccs (if k.exp then 0 else sig) with
        | .error e => .error e
        | .ok a0 =>
          match applyKeyAccs k.accs a0 with
          | .error e => .error e
          | .ok a => .ok (a, pk, pm)

/-! ## header values, tempo, sections -/

/-- `_add_tempo`: `float((tempo_unit / Fraction(1, 4)) * tempo_rate)` -/
def addTempo (R : Rat → Rat) (st : St) (unit : Option Rat) (rate : Nat) : Except Err St :=
  match (match unit with | some u => some u | none => st.unit) with
  | none => .error (.esc "TypeError")
  | some u => .ok { st with tempos := st.tempos ++ [(st.time, R (u / (1 / 4) * (rate : Rat)))] }

/-- truthiness of `self._current_unit_note_length` -/
def unitSet (u : Option Rat) : Bool :=
  match u with
  | some x => x ≠ 0
  | none => false

/-- `_set_unit_note_length_from_header` -/
def setUnitFromHeader (R : Rat → Rat) (st : St) : Except Err St :=
  if unitSet st.unit then .ok st
  else match st.timeSigs with
    | [] => .ok { st with unit := some Gen.UNIT_FREE }
    | [(_, n, d)] =>
      if d = 0 then .error (.esc "ZeroDivisionError")
      else if R ((n : Rat) / (d : Rat)) < Gen.UNIT_THRESHOLD then .ok { st with unit := some Gen.UNIT_BELOW }
      else .ok { st with unit := some Gen.UNIT_OTHERWISE }
    | _ => .error eParse

/-- `_set_values_from_header` -/
def finishHeader (R : Rat → Rat) (st : St) : Except Err St :=
  match setUnitFromHeader R st with
  | .error e => .error e
  | .ok st =>
    match st.hdrTempoRate with
    | some r => if r ≠ 0 then addTempo R st st.hdrTempoUnit r else .ok st
    | none => .ok st

/-- `_qpm` -/
def qpm (st : St) : Rat :=
  match st.tempos.getLast? with
  | some (_, q) => q
  | none => Gen.DEFAULT_QPM

/-- `_add_section`: new state and the id of the new section (`none`: duplicate time) -/
def addSection (st : St) (t : Rat) : St × Option Int :=
  let secs := if st.sections = [] ∧ 0 < t then [((0 : Rat), (0 : Int))] else st.sections
  match secs.getLast? with
  | some (lt, lid) =>
    if lt = t then ({ st with sections := secs }, none)
    else ({ st with sections := secs ++ [(t, lid + 1)] }, some (lid + 1))
  | none => ({ st with sections := secs ++ [(t, 0)] }, some 0)

/-- `sg = section_groups.add(); sg.sections.add(section_id=section_annotations[-2].section_id)` -/
def addGroup (st : St) (times : Nat) : Except Err St :=
  match secondLast? st.sections with
  | none => .error (.esc "IndexError")
  | some (_, sid) => .ok { st with groups := st.groups ++ [(sid, times)] }

def truthy (o : Option Nat) : Bool :=
  match o with
  | some n => n ≠ 0
  | none => false

/-- `elif self._current_time > 0 and new_section_id is not None:` (no backward repeat) -/
def playPreviousOnce (st1 : St) (newId : Option Int) (forward : Option Nat) : Except Err St :=
  if 0 < st1.time ∧ newId.isSome then
    match addGroup st1 1 with
    | .error e => .error e
    | .ok st2 => .ok { st2 with expected := forward }
  else .ok { st1 with expected := forward }

/-- `if backward_repeats:` with a truthy count `b` -/
def closeRepeat (st1 : St) (b : Nat) (forward : Option Nat) : Except Err St :=
  if st1.time = 0 then .error eRepeat
  else match addGroup st1 b with
    | .error e => .error e
    | .ok st2 => .ok { st2 with expected := forward }

/-- the common tail of the two repeat branches of `_parse_music_code` -/
def doRepeat (st : St) (backward forward : Option Nat) : Except Err St :=
  if truthy st.expected ∧ backward ≠ st.expected then .error eRepeat
  else
    let r := addSection st st.time
    match backward with
    | some b => if b ≠ 0 then closeRepeat r.1 b forward else playPreviousOnce r.1 r.2 forward
    | none => playPreviousOnce r.1 r.2 forward

/-- BAR_AND_REPEAT_SYMBOLS_PATTERN token -/
def stepBar (st : St) (c1 len c2 : Nat) : Except Err St :=
  let st := { st with barAcc := [] }
  if c1 = 0 ∧ c2 = 0 then
    if 2 ≤ len ∧ ¬ truthy st.expected ∧ 0 < st.time then
      let (st1, newId) := addSection st st.time
      if newId.isSome then addGroup st1 1 else .ok st1
    else .ok st
  else
    doRepeat st (if 0 < c1 then some (c1 + 1) else none) (if 0 < c2 then some (c2 + 1) else none)

/-- REPEAT_SYMBOLS_PATTERN token (colons without a bar character) -/
def stepColons (st : St) (n : Nat) : Except Err St :=
  if n % 2 ≠ 0 then .error eRepeat
  else
    let k := n / 2 + 1
    doRepeat { st with barAcc := [] } (some k) (some k)

/-! ## notes -/

/-- the length of a note in whole notes from the unit length and group 4 of NOTE_PATTERN -/
def noteLength (unit : Rat) (l : LenSpec) : Except Err Rat :=
  match l.num, l.slashes, l.den with
  | none, 0, _ => .ok unit
  | none, k + 1, none => .ok (unit / ((2 : Rat) ^ (k + 1)))
  | none, 1, some d => if d = 0 then .error (.esc "ZeroDivisionError") else .ok (unit / (d : Rat))
  | none, _ + 2, some _ => .error (.esc "ValueError")
  | some n, 0, _ => .ok (unit * (n : Rat))
  | some n, 1, none => .ok (unit * ((n : Rat) / 2))
  | some n, 1, some d => if d = 0 then .error (.esc "ZeroDivisionError") else .ok (unit * ((n : Rat) / (d : Rat)))
  | some _, _ + 2, _ => .error eParse

/-- accidental of a note: explicit (and remembered for the bar) > bar > key -/
def noteAccidental (st : St) (acc : Acc) (name : Char) : Except Err (Int × Accs) :=
  match accValue acc with
  | .error e => .error e
  | .ok (some v) => .ok (v, upsert name v st.barAcc)
  | .ok none =>
    match lookup name st.barAcc with
    | some v => .ok (v, st.barAcc)
    | none =>
      match lookup name st.keyAcc with
      | some v => .ok (v, st.barAcc)
      | none => .error (.esc "KeyError")

def octaveShift (octs : List Bool) : Int :=
  12 * ((octs.filter (· = true)).length : Int) - 12 * ((octs.filter (· = false)).length : Int)

/-- `_apply_broken_rhythm` on the two most recent notes -/
def applyBroken (R : Rat → Rat) (notes : List Note) (gt : Bool) (n : Nat) : Except Err (List Note) :=
  match notes.reverse with
  | n2 :: n1 :: rest =>
    let l1 := R (n1.end_ - n1.start)
    let l2 := R (n2.end_ - n2.start)
    let d := R (l1 - l2)
    if Gen.BROKEN_TOLERANCE < d ∨ Gen.BROKEN_TOLERANCE < -d then .error eParse   -- `abs(l1 - l2) > 1e-9`
    else
      let adj := R (l1 - R (l1 / ((2 : Rat) ^ n)))
      if gt then
        .ok (rest.reverse ++ [{ n1 with end_ := R (n1.end_ + adj) }, { n2 with start := R (n2.start + adj) }])
      else
        .ok (rest.reverse ++ [{ n1 with end_ := R (n1.end_ - adj) }, { n2 with start := R (n2.start - adj) }])
  | _ => .error eParse

/-- `(1 / (self._qpm / 60)) * (length / Fraction(1, 4))`: seconds for `len` whole notes -/
def seconds (R : Rat → Rat) (q len : Rat) : Except Err Rat :=
  let x := R (q / 60)
  if x = 0 then .error (.esc "ZeroDivisionError")
  else .ok (R (R (1 / x) * R (len / (1 / 4))))

/-- NOTE_PATTERN token -/
def stepNote (R : Rat → Rat) (st : St) (acc : Acc) (letter : Char) (octs : List Bool) (len : LenSpec) :
    Except Err St :=
  match lookup letter Gen.ABC_NOTE_TO_MIDI with
  | none => .error (.esc "KeyError")
  | some base =>
    match noteAccidental st acc (upperC letter) with
    | .error e => .error e
    | .ok (delta, barAcc') =>
      let pitch := base + delta + octaveShift octs
      if pitch < Gen.MIN_MIDI_PITCH ∨ Gen.MAX_MIDI_PITCH < pitch then .error eParse
      else
        match st.unit with
        | none => .error (.esc "TypeError")
        | some u =>
          match noteLength u len with
          | .error e => .error e
          | .ok l =>
            match seconds R (qpm st) l with
            | .error e => .error e
            | .ok dt =>
              let t' := R (st.time + dt)
              let notes := st.notes ++ [{ pitch := pitch, vel := Gen.DEFAULT_VELOCITY, start := st.time, end_ := t' }]
              match st.broken with
              | none => .ok { st with notes := notes, barAcc := barAcc', time := t' }
              | some (gt, n) =>
                match applyBroken R notes gt n with
                | .error e => .error e
                | .ok notes' => .ok { st with notes := notes', barAcc := barAcc', time := t', broken := none }

/-! ## information fields -/

def sumBeats : List (Nat × Nat) → Except Err Rat
  | [] => .ok 0
  | (n, d) :: r =>
    if d = 0 then .error (.esc "ZeroDivisionError")
    else match sumBeats r with
      | .error e => .error e
      | .ok s => .ok ((n : Rat) / (d : Rat) + s)

def setTempo (R : Rat → Rat) (st : St) (unit : Option Rat) (rate : Nat) : Except Err St :=
  if st.inHeader then .ok { st with hdrTempoUnit := unit, hdrTempoRate := some rate }
  else addTempo R st unit rate

/-- `_parse_information_field` -/
def parseField (R : Rat → Rat) (st : St) : Field → Except Err St
  | .refnum n => .ok { st with refnum := n }
  | .refBad => .error (.esc "ValueError")
  | .title s =>
    if st.inHeader then
      .ok { st with title := if st.title ≠ [] then st.title ++ [';', ' '] ++ s else s }
    else .ok st
  | .composer s =>
    .ok { st with composers := st.composers ++ [s], artist := if st.artist = [] then s else st.artist }
  | .meterC => .ok { st with timeSigs := st.timeSigs ++ [(st.time, 4, 4)] }
  | .meterCut => .ok { st with timeSigs := st.timeSigs ++ [(st.time, 2, 2)] }
  | .meterNone => .ok st
  | .meter n d => .ok { st with timeSigs := st.timeSigs ++ [(st.time, n, d)] }
  | .meterBad => .error eParse
  | .unitLen n d =>
    if d = 0 then .error (.esc "ZeroDivisionError") else .ok { st with unit := some ((n : Rat) / (d : Rat)) }
  | .unitBad => .error eParse
  | .tempo beats rate =>
    match sumBeats beats with
    | .error e => .error e
    | .ok u => setTempo R st (some u) rate
  | .tempoOld rate => setTempo R st none rate
  | .tempoStr => .ok st
  | .tempoBad => .error eParse
  | .key k =>
    match parseKey k with
    | .error e => .error e
    | .ok (a, pk, pm) => .ok { st with keyAcc := a, keySigs := st.keySigs ++ [(st.time, pk, pm)] }
  | .keyBad => .error eParse
  | .part => .error (.abc "PartError")
  | .voice => .error (.abc "MultiVoiceError")
  | .other => .ok st

/-! ## music code -/

def annotType (s : List Char) : Nat :=
  match s with
  | c :: _ => if (lookup c Gen.ABC_NOTE_TO_MIDI).isSome then Gen.ANNOT_CHORD_SYMBOL else Gen.ANNOT_UNKNOWN
  | [] => Gen.ANNOT_UNKNOWN

/-- one matched token of `_parse_music_code` -/
def stepTok (R : Rat → Rat) (st : St) : Tok → Except Err St
  | .note acc letter octs len => stepNote R st acc letter octs len
  | .chord => .error (.abc "ChordError")
  | .broken gt n => if st.broken.isSome then .error eParse else .ok { st with broken := some (gt, n) }
  | .inline f => parseField R st f
  | .variantEnding => .error (.abc "VariantEndingError")
  | .bar c1 len c2 => stepBar st c1 len c2
  | .colons n => stepColons st n
  | .annot s => .ok { st with texts := st.texts ++ [(st.time, annotType s, s)] }
  | .deco => .ok st
  | .slur => .ok st
  | .tie => .ok st
  | .cont => .ok st
  | .tuplet => .error (.abc "TupletError")
  | .invalid => .error (.abc "InvalidCharacterError")

def runToks (R : Rat → Rat) : St → List Tok → Except Err St
  | st, [] => .ok st
  | st, t :: r =>
    match stepTok R st t with
    | .error e => .error e
    | .ok st' => runToks R st' r

/-- a music line: the first one closes the header; `broken_rhythm` is local to the line -/
def startMusic (R : Rat → Rat) (st : St) : Except Err St :=
  if st.inHeader then
    match finishHeader R st with
    | .error e => .error e
    | .ok st' => .ok { st' with inHeader := false, broken := none }
  else .ok { st with broken := none }

def stepLine (R : Rat → Rat) (st : St) : Line → Except Err St
  | .field f => parseField R st f
  | .music toks =>
    match startMusic R st with
    | .error e => .error e
    | .ok st' => runToks R st' toks

def runLines (R : Rat → Rat) : St → List Line → Except Err St
  | st, [] => .ok st
  | st, l :: r =>
    match stepLine R st l with
    | .error e => .error e
    | .ok st' => runLines R st' r

/-! ## end of tune -/

/-- `_finalize_sections` -/
def finalizeSections (st : St) : Except Err St :=
  let dropLast : Except Err St :=
    match st.sections.getLast? with
    | none => .ok st
    | some (lt, _) =>
      match st.notes.getLast? with
      | none => .error (.esc "IndexError")
      | some n => if lt = n.end_ then .ok { st with sections := st.sections.dropLast } else .ok st
  match dropLast with
  | .error e => .error e
  | .ok st1 =>
    match st1.sections.getLast?, st1.groups.getLast? with
    | some (_, sid), some (gid, _) =>
      if gid ≠ sid then .ok { st1 with groups := st1.groups ++ [(sid, 1)] } else .ok st1
    | _, _ => .ok st1

/-- what the harness observes of one parsed tune -/
structure Tune where
  refnum : Int
  notes : List Note
  tempos : List (Rat × Rat)
  timeSigs : List (Rat × Int × Int)
  keySigs : List (Rat × Nat × Nat)
  sections : List (Rat × Int)
  groups : List (Int × Nat)
  texts : List (Rat × Nat × List Char)
  totalTime : Rat
  title : List Char
  composers : List (List Char)
  artist : List Char
deriving DecidableEq, Repr

def totalTimeOf (notes : List Note) : Rat :=
  match notes.getLast? with
  | some n => n.end_
  | none => 0

def toTune (st : St) : Tune :=
  { refnum := st.refnum, notes := st.notes, tempos := st.tempos, timeSigs := st.timeSigs,
    keySigs := st.keySigs, sections := st.sections, groups := st.groups, texts := st.texts,
    totalTime := totalTimeOf st.notes, title := st.title, composers := st.composers, artist := st.artist }

/-- `ABCTune.__init__` after the line loop -/
def finishTune (R : Rat → Rat) (st : St) : Except Err Tune :=
  match (if st.inHeader then finishHeader R st else .ok st) with
  | .error e => .error e
  | .ok st1 =>
    if truthy st1.expected then .error eRepeat
    else match finalizeSections st1 with
      | .error e => .error e
      | .ok st2 => .ok (toTune st2)

/-- `ABCTune(lines).note_sequence` -/
def parseTune (R : Rat → Rat) (lines : List Line) : Except Err Tune :=
  match runLines R init lines with
  | .error e => .error e
  | .ok st => finishTune R st

/-! ## parse_abc_tunebook -/

def isRefLine : Line → Bool
  | .field (.refnum _) => true
  | .field .refBad => true
  | _ => false

/-- the loop over the tune sections: tunes in insertion order, exception classes in order -/
def bookLoop (R : Rat → Rat) (hdr : List Line) :
    List (List Line) → List Tune → List String → Except Err (List Tune × List String)
  | [], tunes, excs => .ok (tunes, excs)
  | t :: r, tunes, excs =>
    match parseTune R (hdr ++ t) with
    | .error (.abc c) => bookLoop R hdr r tunes (excs ++ [c])
    | .error (.esc c) => .error (.esc c)
    | .ok tn =>
      if tunes.any (fun x => x.refnum = tn.refnum) then .error (.abc "DuplicateReferenceNumberError")
      else bookLoop R hdr r (tunes ++ [tn]) excs

/-- `parse_abc_tunebook` on the blank-line separated sections -/
def parseBook (R : Rat → Rat) (sections : List (List Line)) : Except Err (List Tune × List String) :=
  match sections with
  | first :: rest =>
    if rest ≠ [] ∧ ¬ first.any isRefLine then bookLoop R first rest [] []
    else bookLoop R [] sections [] []
  | [] => .ok ([], [])

/-! ## expand_section_groups (notes only) -/

/-- notes of one section, shifted to zero: `_extract_subsequences` with `[s, e]` -/
def extractNotes (R : Rat → Rat) (sorted : List Note) (s e : Rat) : List Note :=
  ((sorted.filter (fun n => ¬ n.start < s)).takeWhile (fun n => n.start < e)).map
    (fun n => { n with start := R (n.start - s), end_ := R ((if n.end_ ≤ e then n.end_ else e) - s) })

def maxEnd : List Note → Rat → Rat
  | [], m => m
  | n :: r, m => maxEnd r (if m < n.end_ then n.end_ else m)

/-- end of a section: the next annotation's time, `total_time` for the last one -/
def nextStart (rest : List (Rat × Int)) (total : Rat) : Rat :=
  match rest with
  | (t, _) :: _ => t
  | [] => total

/-- the per-section table of expand_section_groups: id ↦ (notes, subsequence total_time, duration);
sections are processed in order, a later section with the same id replaces the earlier one -/
def sectionTable (R : Rat → Rat) (sorted : List Note) (total : Rat) :
    List (Rat × Int) → List (Int × (List Note × Rat × Rat)) → Except Err (List (Int × (List Note × Rat × Rat)))
  | [], acc => .ok acc
  | (s, sid) :: rest, acc =>
    let e := nextStart rest total
    if e < s then .error (.esc "ValueError")
    else if total ≤ s then .error (.esc "ValueError")
    else
      let ns := extractNotes R sorted s e
      sectionTable R sorted total rest (upsert sid (ns, maxEnd ns 0, R (e - s)) acc)

/-- `concatenate_sequences(sections, durations)`, notes only -/
def concatNotes (R : Rat → Rat) : List (List Note × Rat × Rat) → Rat → Except Err (List Note)
  | [], _ => .ok []
  | (ns, tot, dur) :: rest, cur =>
    if dur < tot then .error (.esc "ValueError")
    else
      let shifted := if 0 < cur then ns.map (fun n => { n with start := R (n.start + cur), end_ := R (n.end_ + cur) }) else ns
      match concatNotes R rest (R (cur + dur)) with
      | .error e => .error e
      | .ok r => .ok (shifted ++ r)

def lookupAll {β} (tbl : List (Int × β)) : List Int → Except Err (List β)
  | [] => .ok []
  | i :: r =>
    match lookup i tbl with
    | none => .error (.esc "KeyError")
    | some v =>
      match lookupAll tbl r with
      | .error e => .error e
      | .ok vs => .ok (v :: vs)

/-- the notes of `expand_section_groups(tune)` -/
def expand (R : Rat → Rat) (t : Tune) : Except Err (List Note) :=
  if t.groups = [] then .ok t.notes
  else
    let sorted := t.notes.mergeSort (fun a b => a.start ≤ b.start)
    match sectionTable R sorted t.totalTime t.sections [] with
    | .error e => .error e
    | .ok tbl =>
      match lookupAll tbl (t.groups.flatMap (fun g => List.replicate g.2 g.1)) with
      | .error e => .error e
      | .ok secs => concatNotes R secs 0

end NSV.C04
