import NoteSeqVerif.Generated.C17
/-! C17 — event sequences: executable model (core Lean only).

Transcribes, as the code is now, `events_lib.SimpleEventSequence` (and through a class record
`Cls` its subclasses `Melody`, `DrumTrack`, `ChordProgression`), `lead_sheets_lib.LeadSheet`,
`pianoroll_lib.PianorollSequence`, `performance_lib.BasePerformance` (the code `Performance` and
`MetricPerformance` share; the two differ only in their constructor and resolution attribute) and
`performance_lib.NotePerformance`.  This file describes what ONE call does to its receiver;
histories over several objects (deepcopy / slices return new objects, lead sheets hold references
to melody and chord objects) are in `Model/C17Heap.lean`.

Conventions
* A Python exception is an `Except Err` value.  In the SimpleEventSequence family and in LeadSheet
  every exception is raised *before* anything is mutated (validation in `append`, in
  `_from_event_list`, in the LeadSheet constructor), so "error = object unchanged" is the Python
  behaviour and `runSkip` (a caller that catches the exception and carries on) keeps the state.
  `PianorollSequence.set_length` / `BasePerformance.set_length` with a negative length mutate and
  then fail their `assert`; `rstep`/`pstep` return `assertionError` and `rstepSkip`/`pstepSkip`
  continue from the mutated state, as the Python object does.
* Slices: unit stride `s[i:j]` (`Op.slice`, either bound possibly `None`, negative or past the
  end) and extended slices `s[i:j:k]` with an explicit stride (`Op.sliceStep`, CPython's
  `slice.indices` for any `k`, `ValueError` for `k = 0`).
* Python list primitives are modelled once (`pySlice`, `pyDelSlice`, `pyIndex`, `pyRepeat`,
  `pyRange`) with CPython's clamping rules (`slice.indices`). -/
namespace NSV.C17

inductive Err
  | valueError | indexError | notImplemented | assertionError | mismatch | diverges
deriving DecidableEq, Repr

def Err.name : Err → String
  | .valueError => "ValueError"
  | .indexError => "IndexError"
  | .notImplemented => "NotImplementedError"
  | .assertionError => "AssertionError"
  | .mismatch => "MelodyChordsMismatchError"
  | .diverges => "Diverges"

/-! ### Python list primitives -/
section Py
variable {α : Type}

/-- one bound of `slice(i, j).indices(len)` for stride 1: negative counts from the end, then clamp
to `[0, len]` -/
def clampIdx (len : Nat) (i : Int) : Nat :=
  if i < 0 then (i + len).toNat else min i.toNat len

def sliceLo (len : Nat) : Option Int → Nat
  | none => 0
  | some i => clampIdx len i

def sliceHi (len : Nat) : Option Int → Nat
  | none => len
  | some j => clampIdx len j

/-- `l[i:j]` -/
def pySlice (l : List α) (i j : Option Int) : List α :=
  (l.drop (sliceLo l.length i)).take (sliceHi l.length j - sliceLo l.length i)

/-- `del l[i:j]` -/
def pyDelSlice (l : List α) (i j : Option Int) : List α :=
  l.take (sliceLo l.length i) ++ l.drop (max (sliceLo l.length i) (sliceHi l.length j))

/-- `l[i]` for an `int` -/
def pyIndex (l : List α) (i : Int) : Except Err α :=
  let k := if i < 0 then i + l.length else i
  if k < 0 then .error .indexError
  else match l[k.toNat]? with
    | some a => .ok a
    | none => .error .indexError

/-- `[a] * k` (empty for `k ≤ 0`) -/
def pyRepeat (a : α) (k : Int) : List α := List.replicate k.toNat a

/-! extended slices `l[i:j:k]`: CPython `PySlice_Unpack` / `PySlice_AdjustIndices`
(= `slice(i, j, k).indices(len)`), `k ≠ 0` -/

/-- one explicit bound: a negative bound counts from the end and is clamped from below at `lower`,
a non-negative one is clamped from above at `upper`; `(lower, upper)` is `(0, len)` for a positive
stride and `(-1, len - 1)` for a negative one -/
def clampStep (len : Nat) (neg : Bool) (i : Int) : Int :=
  let lower : Int := if neg then -1 else 0
  let upper : Int := if neg then (len : Int) - 1 else len
  if i < 0 then (if i + len < lower then lower else i + len)
  else (if i > upper then upper else i)

/-- `slice(i, j, k).indices(len)[0]` -/
def stepLo (len : Nat) (k : Int) : Option Int → Int
  | none => if k < 0 then (len : Int) - 1 else 0
  | some i => clampStep len (decide (k < 0)) i

/-- `slice(i, j, k).indices(len)[1]` -/
def stepHi (len : Nat) (k : Int) : Option Int → Int
  | none => if k < 0 then -1 else len
  | some j => clampStep len (decide (k < 0)) j

/-- `len(range(lo, hi, k))` -/
def stepCount (lo hi k : Int) : Nat :=
  if k < 0 then (if hi < lo then ((lo - hi - 1) / (-k) + 1).toNat else 0)
  else (if lo < hi then ((hi - lo - 1) / k + 1).toNat else 0)

/-- `l[i:j:k]`, `k ≠ 0`: the elements at `lo, lo + k, lo + 2k, …`.  Every index is inside the list
(`pySliceStep_spec` in `Proofs/C17.lean`), so the `filterMap` never drops anything. -/
def pySliceStep (l : List α) (i j : Option Int) (k : Int) : List α :=
  (List.range (stepCount (stepLo l.length k i) (stepHi l.length k j) k)).filterMap
    (fun (m : Nat) => l[(stepLo l.length k i + (m : Int) * k).toNat]?)

/-- `list(range(a, b))` -/
def pyRange (a b : Int) : List Int := (List.range (b - a).toNat).map (fun (k : Nat) => a + (k : Int))

end Py

/-! ### SimpleEventSequence and subclasses -/

/-- `_events, _start_step, _end_step, _steps_per_bar, _steps_per_quarter` -/
structure Seq (α : Type) where
  events : List α
  start : Int
  stop : Int
  spb : Int
  spq : Int
deriving Repr

/-- what distinguishes the subclasses: pad event, the fill event hard-wired by an overriding
`increase_resolution`, event validation (`append`, `_from_event_list`), the cleaning done by
`_from_event_list`, and `Melody.set_length`'s scan for a sounding note. -/
structure Cls (α : Type) where
  pad : α
  fixedFill : Option α
  valid : α → Bool
  clean : List α → List α
  sustain : List α → Option α

def simpleCls {α : Type} (pad : α) : Cls α :=
  { pad := pad, fixedFill := none, valid := fun _ => true, clean := id, sustain := fun _ => none }

/-- `MIN_MELODY_EVENT <= event <= MAX_MELODY_EVENT` -/
def melValid (e : Int) : Bool := decide (Gen.MIN_MELODY_EVENT ≤ e) && decide (e ≤ Gen.MAX_MELODY_EVENT)

/-- `Melody._from_event_list`: NOTE_OFF / NO_EVENT before the first pitch become NO_EVENT -/
def melClean : List Int → List Int
  | [] => []
  | e :: rest =>
      if e = Gen.MELODY_NO_EVENT ∨ e = Gen.MELODY_NOTE_OFF then Gen.MELODY_NO_EVENT :: melClean rest
      else e :: rest

/-- `Melody.set_length`: scan `reversed(range(old_len))`; argument is the reversed old event list -/
def melSustainRev : List Int → Option Int
  | [] => none
  | e :: rest =>
      if e = Gen.MELODY_NOTE_OFF then none
      else if e ≠ Gen.MELODY_NO_EVENT then some Gen.MELODY_NOTE_OFF
      else melSustainRev rest

def melSustain (evs : List Int) : Option Int := melSustainRev evs.reverse

def melodyCls : Cls Int :=
  { pad := Gen.MELODY_NO_EVENT, fixedFill := some Gen.MELODY_NO_EVENT, valid := melValid,
    clean := melClean, sustain := melSustain }

/-- a drum event as Python sees it: is it a `frozenset`, and its members -/
structure DrumEv where
  isFrozenset : Bool
  pitches : List Int
deriving DecidableEq, Repr

def drumValid (e : DrumEv) : Bool :=
  e.isFrozenset && e.pitches.all (fun p => decide (Gen.MIN_MIDI_PITCH ≤ p) && decide (p ≤ Gen.MAX_MIDI_PITCH))

def drumCls : Cls DrumEv :=
  { pad := ⟨true, []⟩, fixedFill := some ⟨true, []⟩, valid := drumValid, clean := id,
    sustain := fun _ => none }

def chordCls : Cls String := simpleCls Gen.NO_CHORD

section Simple
variable {α : Type}

/-- constructor with `events=None` -/
def Seq.empty (start spb spq : Int) : Seq α := ⟨[], start, start, spb, spq⟩

/-- `_from_event_list` (validation, cleaning, `_end_step = start_step + len(self)`) -/
def fromEventList (c : Cls α) (events : List α) (start spb spq : Int) : Except Err (Seq α) :=
  if events.all c.valid then
    .ok ⟨c.clean events, start, start + ((c.clean events).length : Int), spb, spq⟩
  else .error .valueError

/-- `SimpleEventSequence.set_length` -/
def baseSetLength (c : Cls α) (s : Seq α) (n : Int) (fl : Bool) : Seq α :=
  let len : Int := s.events.length
  let ev :=
    if n > len then
      (if fl then pyRepeat c.pad (n - len) ++ s.events else s.events ++ pyRepeat c.pad (n - len))
    else
      (if fl then pyDelSlice s.events none (some (len - n)) else pyDelSlice s.events (some n) none)
  if fl then { s with events := ev, start := s.stop - n } else { s with events := ev, stop := s.start + n }

/-- `set_length` including the `Melody` override (`events[old_len] = NOTE_OFF` when a note is
sounding; index `old_len` exists because `n > old_len`) -/
def setLength (c : Cls α) (s : Seq α) (n : Int) (fl : Bool) : Seq α :=
  let s' := baseSetLength c s n fl
  if n > (s.events.length : Int) ∧ fl = false then
    match c.sustain s.events with
    | some x => { s' with events := s'.events.set s.events.length x }
    | none => s'
  else s'

/-- the per-event expansion of `increase_resolution` -/
def fillOf (f : Option α) (k : Int) (e : α) : List α :=
  match f with
  | none => pyRepeat e k
  | some x => e :: pyRepeat x (k - 1)

/-- `increase_resolution(k, fill_event)`; subclasses that override it pass their own fill event -/
def incRes (c : Cls α) (s : Seq α) (k : Int) (fill : Option α) : Seq α :=
  let f := match c.fixedFill with
    | some x => some x
    | none => fill
  ⟨s.events.flatMap (fillOf f k), s.start * k, s.stop * k, s.spb * k, s.spq * k⟩

inductive Op (α : Type)
  | append (e : α)
  | setLength (n : Int) (fromLeft : Bool)
  | slice (i j : Option Int)
  | sliceStep (i j : Option Int) (k : Int)
  | incRes (k : Int) (fill : Option α)
  | deepcopy
  | reinit (events : List α) (start spb spq : Int)
  | reset
deriving Repr

def step (c : Cls α) (s : Seq α) : Op α → Except Err (Seq α)
  | .append e =>
      if c.valid e then .ok { s with events := s.events ++ [e], stop := s.stop + 1 }
      else .error .valueError
  | .setLength n fl => .ok (setLength c s n fl)
  | .slice i j =>
      fromEventList c (pySlice s.events i j) (s.start + (sliceLo s.events.length i : Int)) s.spb s.spq
  | .sliceStep i j k =>
      -- `self._events.__getitem__(key)` raises "slice step cannot be zero" before anything else
      if k = 0 then .error .valueError
      else fromEventList c (pySliceStep s.events i j k) (s.start + stepLo s.events.length k i) s.spb s.spq
  | .incRes k fill => .ok (incRes c s k fill)
  | .deepcopy => fromEventList c s.events s.start s.spb s.spq
  | .reinit ev st b q => fromEventList c ev st b q
  | .reset => .ok ⟨[], 0, 0, Gen.DEFAULT_STEPS_PER_BAR, Gen.DEFAULT_STEPS_PER_QUARTER⟩

/-- a caller that catches exceptions: a failed operation leaves the object as it was -/
def stepSkip (c : Cls α) (s : Seq α) (op : Op α) : Seq α :=
  match step c s op with
  | .ok s' => s'
  | .error _ => s

def runSkip (c : Cls α) (s : Seq α) (ops : List (Op α)) : Seq α := ops.foldl (stepSkip c) s

/-! observations -/
def Seq.len (s : Seq α) : Nat := s.events.length
def Seq.iter (s : Seq α) : List α := s.events
def Seq.index (s : Seq α) (i : Int) : Except Err α := pyIndex s.events i
def Seq.steps (s : Seq α) : List Int := pyRange s.start s.stop

end Simple

/-! ### LeadSheet -/
structure LeadSheet where
  melody : Seq Int
  chords : Seq String
deriving Repr

/-- `LeadSheet(melody, chords)` / `_from_melody_and_chords` -/
def mkLeadSheet (m : Seq Int) (c : Seq String) : Except Err LeadSheet :=
  if m.events.length ≠ c.events.length ∨ m.spb ≠ c.spb ∨ m.spq ≠ c.spq ∨ m.start ≠ c.start ∨
      m.stop ≠ c.stop then .error .mismatch
  else .ok ⟨m, c⟩

inductive LOp
  | append (m : Int) (c : String)
  | setLength (n : Int)
  | slice (i j : Option Int)
  | sliceStep (i j : Option Int) (k : Int)
  | incRes (k : Int)
  | deepcopy
  | init (mev : List Int) (ms mb mq : Int) (cev : List String) (cs cb cq : Int)
  | reset
deriving Repr

def lstep (l : LeadSheet) : LOp → Except Err LeadSheet
  | .append m c => do
      let m' ← step melodyCls l.melody (.append m)
      let c' ← step chordCls l.chords (.append c)
      pure ⟨m', c'⟩
  | .setLength n => .ok ⟨setLength melodyCls l.melody n false, setLength chordCls l.chords n false⟩
  | .slice i j => do
      let m' ← step melodyCls l.melody (.slice i j)
      let c' ← step chordCls l.chords (.slice i j)
      mkLeadSheet m' c'
  | .sliceStep i j k => do
      let m' ← step melodyCls l.melody (.sliceStep i j k)
      let c' ← step chordCls l.chords (.sliceStep i j k)
      mkLeadSheet m' c'
  | .incRes k => .ok ⟨incRes melodyCls l.melody k none, incRes chordCls l.chords k none⟩
  | .deepcopy => do
      let m' ← step melodyCls l.melody .deepcopy
      let c' ← step chordCls l.chords .deepcopy
      mkLeadSheet m' c'
  | .init mev ms mb mq cev cs cb cq => do
      let m' ← fromEventList melodyCls mev ms mb mq
      let c' ← fromEventList chordCls cev cs cb cq
      mkLeadSheet m' c'
  | .reset => .ok ⟨Seq.empty 0 Gen.DEFAULT_STEPS_PER_BAR Gen.DEFAULT_STEPS_PER_QUARTER,
                   Seq.empty 0 Gen.DEFAULT_STEPS_PER_BAR Gen.DEFAULT_STEPS_PER_QUARTER⟩

def lstepSkip (l : LeadSheet) (op : LOp) : LeadSheet :=
  match lstep l op with
  | .ok l' => l'
  | .error _ => l

def lrunSkip (l : LeadSheet) (ops : List LOp) : LeadSheet := ops.foldl lstepSkip l

def LeadSheet.len (l : LeadSheet) : Nat := l.melody.events.length
/-- `zip(self._melody, self._chords)` -/
def LeadSheet.iter (l : LeadSheet) : List (Int × String) := l.melody.events.zip l.chords.events
/-- `(self._melody[i], self._chords[i])` -/
def LeadSheet.index (l : LeadSheet) (i : Int) : Except Err (Int × String) := do
  let m ← pyIndex l.melody.events i
  let c ← pyIndex l.chords.events i
  pure (m, c)
def LeadSheet.steps (l : LeadSheet) : List Int := l.melody.steps

/-! ### PianorollSequence -/
structure Roll where
  events : List (List Int)
  start : Int
  spq : Int
  minPitch : Int
  maxPitch : Int
deriving Repr

inductive ROp
  | append (e : List Int) (shiftRange : Bool)
  | setLength (n : Int) (fromLeft : Bool)
  | deepcopy
deriving Repr

/-- the mutation done by `set_length(n)` before its closing `assert` -/
def rollSetLengthCore (r : Roll) (n : Int) : Roll :=
  let len : Int := r.events.length
  let ev := if len < n then r.events ++ pyRepeat [] (n - len)
            else if len > n then pyDelSlice r.events (some n) none
            else r.events
  { r with events := ev }

def rstep (r : Roll) : ROp → Except Err Roll
  | .append e sh =>
      let e' := if sh then (e.filter (fun p => decide (r.minPitch ≤ p) && decide (p ≤ r.maxPitch))).map (· - r.minPitch)
                else e
      .ok { r with events := r.events ++ [e'] }
  | .setLength n fl =>
      if fl then .error .notImplemented
      else
        let r' := rollSetLengthCore r n
        if (r'.events.length : Int) = n then .ok r' else .error .assertionError
  | .deepcopy => .ok r

/-- a caller that catches exceptions.  Every exception leaves the object unchanged except the
`assert` closing `set_length`, which fires after the mutation. -/
def rstepSkip (r : Roll) (op : ROp) : Roll :=
  match op with
  | .setLength n false => rollSetLengthCore r n
  | _ => match rstep r op with
    | .ok r' => r'
    | .error _ => r

def rrunSkip (r : Roll) (ops : List ROp) : Roll := ops.foldl rstepSkip r

def Roll.len (r : Roll) : Nat := r.events.length
def Roll.numSteps (r : Roll) : Int := r.events.length
def Roll.stop (r : Roll) : Int := r.start + r.numSteps
def Roll.steps (r : Roll) : List Int := pyRange r.start r.stop
def Roll.index (r : Roll) (i : Int) : Except Err (List Int) := pyIndex r.events i

/-! ### BasePerformance (Performance, MetricPerformance) -/
structure PEvent where
  ty : Nat
  val : Int
deriving DecidableEq, Repr

/-- `PerformanceEvent(event_type, event_value)` with its attrs validator -/
def mkEvent (ty : Nat) (v : Int) : Except Err PEvent :=
  if ty = Gen.NOTE_ON ∨ ty = Gen.NOTE_OFF then
    (if Gen.MIN_MIDI_PITCH ≤ v ∧ v ≤ Gen.MAX_MIDI_PITCH then .ok ⟨ty, v⟩ else .error .valueError)
  else if ty = Gen.TIME_SHIFT then
    (if 0 ≤ v then .ok ⟨ty, v⟩ else .error .valueError)
  else if ty = Gen.DURATION then
    (if 1 ≤ v then .ok ⟨ty, v⟩ else .error .valueError)
  else if ty = Gen.VELOCITY then
    (if 1 ≤ v ∧ v ≤ Gen.MAX_NUM_VELOCITY_BINS then .ok ⟨ty, v⟩ else .error .valueError)
  else .error .valueError

structure Perf where
  events : List PEvent
  start : Int
  maxShift : Int
deriving Repr

def isShift (e : PEvent) : Bool := e.ty = Gen.TIME_SHIFT

/-- `num_steps`: sum of the TIME_SHIFT values -/
def numStepsOf : List PEvent → Int
  | [] => 0
  | e :: rest => (if isShift e then e.val else 0) + numStepsOf rest

/-- `steps`: the step at which each event happens -/
def stepsFrom : Int → List PEvent → List Int
  | _, [] => []
  | st, e :: rest => st :: stepsFrom (if isShift e then st + e.val else st) rest

/-- the tail of `_append_steps` after the last event was (possibly) extended: full shifts while
`n >= max`, then the remainder.  For `max ≤ 0 ≤ n - max` the Python loop does not terminate. -/
def appendTail (mx n : Int) : Except Err (List PEvent) :=
  if n < mx then
    (if n > 0 then do let e ← mkEvent Gen.TIME_SHIFT n; pure [e] else .ok [])
  else if mx ≤ 0 then .error .diverges
  else do
    let full ← mkEvent Gen.TIME_SHIFT mx
    let r := n - (n / mx) * mx
    if r > 0 then do
      let e ← mkEvent Gen.TIME_SHIFT r
      pure (List.replicate (n / mx).toNat full ++ [e])
    else pure (List.replicate (n / mx).toNat full)

/-- `_append_steps`; `rev` is the event list reversed (its head is `events[-1]`) -/
def appendStepsRev (mx : Int) (rev : List PEvent) (n : Int) : Except Err (List PEvent) :=
  match rev with
  | last :: before =>
      if isShift last ∧ last.val < mx then do
        let added := min n (mx - last.val)
        let last' ← mkEvent Gen.TIME_SHIFT (last.val + added)
        let tail ← appendTail mx (n - added)
        pure (before.reverse ++ [last'] ++ tail)
      else do
        let tail ← appendTail mx n
        pure (rev.reverse ++ tail)
  | [] => do
      let tail ← appendTail mx n
      pure tail

def appendSteps (p : Perf) (n : Int) : Except Err Perf := do
  let ev ← appendStepsRev p.maxShift p.events.reverse n
  pure { p with events := ev }

/-- the loop of `_trim_steps` on the reversed event list; `t` = `steps_trimmed` -/
def trimRev : List PEvent → Int → Int → Except Err (List PEvent)
  | [], _, _ => .ok []
  | e :: rest, t, n =>
      if t < n then
        (if isShift e then
          (if t + e.val > n then do
            let e' ← mkEvent Gen.TIME_SHIFT (e.val - n + t)
            pure (e' :: rest)
          else trimRev rest (t + e.val) n)
        else trimRev rest t n)
      else .ok (e :: rest)

def trimSteps (p : Perf) (n : Int) : Except Err Perf := do
  let rev ← trimRev p.events.reverse 0 n
  pure { p with events := rev.reverse }

inductive POp
  | append (ty : Nat) (v : Int)
  | appendBad
  | setLength (n : Int) (fromLeft : Bool)
  | truncate (n : Int)
  | appendSteps (n : Int)
  | trimSteps (n : Int)
  | deepcopy
deriving Repr

/-- the mutation done by `set_length(n)` before its closing `assert` -/
def perfSetLengthCore (p : Perf) (n : Int) : Except Err Perf :=
  let ns := numStepsOf p.events
  if ns < n then appendSteps p (n - ns)
  else if ns > n then trimSteps p (ns - n)
  else pure p

def pstep (p : Perf) : POp → Except Err Perf
  | .append ty v => do
      let e ← mkEvent ty v
      pure { p with events := p.events ++ [e] }
  | .appendBad => .error .valueError
  | .setLength n fl =>
      if fl then .error .notImplemented
      else do
        let p' ← perfSetLengthCore p n
        if numStepsOf p'.events = n then pure p' else .error .assertionError
  | .truncate n => .ok { p with events := pySlice p.events none (some n) }
  | .appendSteps n => appendSteps p n
  | .trimSteps n => trimSteps p n
  | .deepcopy => .ok p

/-- a caller that catches exceptions.  Every exception leaves the object unchanged (the
`PerformanceEvent` validator raises before the assignment) except the `assert` closing
`set_length`, which fires after the mutation. -/
def pstepSkip (p : Perf) (op : POp) : Perf :=
  match op with
  | .setLength n false =>
      (match perfSetLengthCore p n with
       | .ok p' => p'
       | .error _ => p)
  | _ => match pstep p op with
    | .ok p' => p'
    | .error _ => p

def prunSkip (p : Perf) (ops : List POp) : Perf := ops.foldl pstepSkip p

def Perf.len (p : Perf) : Nat := p.events.length
def Perf.numSteps (p : Perf) : Int := numStepsOf p.events
def Perf.stop (p : Perf) : Int := p.start + p.numSteps
def Perf.steps (p : Perf) : List Int := stepsFrom p.start p.events
def Perf.index (p : Perf) (i : Int) : Except Err PEvent := pyIndex p.events i

/-! ### NotePerformance

Events are 4-tuples `(TIME_SHIFT, NOTE_ON, VELOCITY, DURATION)` of `PerformanceEvent`s; the model
keeps the four values.  `append` only checks `isinstance(event, tuple)`; `set_length` is a
documented no-op ("This is not actually implemented"); `truncate`, `__len__`, `__getitem__`,
`__iter__`, `start_step`, `end_step = start_step + num_steps` are inherited from BasePerformance;
`num_steps` and `steps` are overridden. -/
structure NEvent where
  shift : Int
  pitch : Int
  vel : Int
  dur : Int
deriving DecidableEq, Repr

structure NPerf where
  events : List NEvent
  start : Int
  maxShift : Int
deriving Repr

inductive NOp
  | append (e : NEvent)
  | appendBad
  | setLength (n : Int) (fromLeft : Bool)
  | truncate (n : Int)
  | deepcopy
deriving Repr

def nstep (p : NPerf) : NOp → Except Err NPerf
  | .append e => .ok { p with events := p.events ++ [e] }
  | .appendBad => .error .valueError
  | .setLength _ _ => .ok p
  | .truncate n => .ok { p with events := pySlice p.events none (some n) }
  | .deepcopy => .ok p

def nstepSkip (p : NPerf) (op : NOp) : NPerf :=
  match nstep p op with
  | .ok p' => p'
  | .error _ => p

def nrunSkip (p : NPerf) (ops : List NOp) : NPerf := ops.foldl nstepSkip p

def shiftSum : List NEvent → Int
  | [] => 0
  | e :: rest => e.shift + shiftSum rest

/-- `num_steps`: every time shift plus the duration of the last note -/
def NPerf.numSteps (p : NPerf) : Int :=
  shiftSum p.events + (match p.events.getLast? with | some e => e.dur | none => 0)

/-- `steps`: `step += event[0].event_value; result.append(step)` -/
def nstepsFrom : Int → List NEvent → List Int
  | _, [] => []
  | st, e :: rest => (st + e.shift) :: nstepsFrom (st + e.shift) rest

def NPerf.len (p : NPerf) : Nat := p.events.length
def NPerf.stop (p : NPerf) : Int := p.start + p.numSteps
def NPerf.steps (p : NPerf) : List Int := nstepsFrom p.start p.events
def NPerf.index (p : NPerf) (i : Int) : Except Err NEvent := pyIndex p.events i

end NSV.C17
