import NoteSeqVerif.Model.C13
import NoteSeqVerif.Model.C02
/-! C13 — `repeat_sequence_to_duration` and `expand_section_groups` with `extract_subsequence`
instantiated by property C02's model (imported read-only). -/
namespace NSV.C13

/-- `extract_subsequence(sequence, start_time, end_time)` with the default preserved controls -/
def extractC02 (R : Rat → Rat) : NoteSeq → Rat → Rat → Except Err NoteSeq :=
  fun s a b => NSV.C02.extractSubsequenceR R NSV.C02.Gen.PRESERVE s a b

def repeatFullR (R : Rat → Rat) := repeatR R (extractC02 R)
def expandFullR (R : Rat → Rat) := expandR R (extractC02 R)

end NSV.C13
