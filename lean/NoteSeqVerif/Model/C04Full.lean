import NoteSeqVerif.Model.C04
import NoteSeqVerif.Model.C13Full
/-! C04 — `expand_section_groups` on a parsed ABC tune with EVERY container (tempos, time / key
signatures, text annotations, section annotations, total time), assembled from the models of the
functions it calls: `extract_subsequence` (property C02's model, imported read-only) and
`concatenate_sequences` / the section table (property C13's model, imported read-only).  It is
`C13.expandR` with the section-group forest of an ABC tune — one group per entry, each holding one
section id and its `num_times` — already flattened to the playing order. -/
namespace NSV.C04
open NSV

/-- a note of the parsed tune as a NoteSequence note (every other attribute at its proto default) -/
def toNote (n : Note) : NSV.Note :=
  { pitch := n.pitch, velocity := n.vel, start := n.start, end_ := n.end_, qs := 0, qe := 0, instrument := 0,
    program := 0, isDrum := false, numerator := 0, denominator := 0, voice := 0, part := 0, pitchName := 0 }

/-- the parsed tune as a NoteSequence (what `expand_section_groups` looks at) -/
def toNS (t : Tune) : NoteSeq :=
  { notes := t.notes.map toNote
    tempos := t.tempos.map (fun p => ⟨p.1, p.2⟩)
    timeSigs := t.timeSigs.map (fun p => ⟨p.1, p.2.1, p.2.2⟩)
    keySigs := t.keySigs.map (fun p => ⟨p.1, (p.2.1 : Int), (p.2.2 : Int)⟩)
    texts := t.texts.map (fun p => ⟨p.1, 0, (p.2.1 : Int), String.ofList p.2.2⟩)
    sectionAnns := t.sections.map (fun p => ⟨p.1, p.2⟩)
    totalTime := t.totalTime }

/-- the sections in playing order: every group's section `num_times` times -/
def playOrder (groups : List (Int × Nat)) : List Int := groups.flatMap (fun g => List.replicate g.2 g.1)

/-- `expand_section_groups(tune)`, every container -/
def expandAll (R : Rat → Rat) (t : Tune) : Except NSV.Err NoteSeq :=
  if t.groups = [] then .ok (toNS t)
  else
    match C13.buildSections R (C13.extractC02 R) { ns := toNS t }
        (C13.sectionSpans t.totalTime (toNS t).sectionAnns) [] with
    | .error e => .error e
    | .ok tab =>
      match C13.lookupSections tab (playOrder t.groups) with
      | .error e => .error e
      | .ok l =>
        match C13.concatR R (fun _ => "-") (l.map (·.1)) (l.map (·.2)) with
        | .error e => .error e
        | .ok r => .ok r.ns

end NSV.C04
