import NoteSeqVerif.Model.C01
/-! C06 — the float expressions every `to_sequence` uses for times (core Lean only).
`R` = rounding operator applied after each float operation (driver: `rne53`).
Shared by both halves of C06 (`Model/C06.lean`, `Model/C06P*.lean`). -/
namespace NSV.C06

/-- `seconds_per_step = 60.0 / qpm / steps_per_quarter`
(Melody, DrumTrack, ChordProgression, LeadSheet, PianorollSequence) -/
def secPerStepR (R : Rat → Rat) (qpm : Rat) (spq : Int) : Rat := R (R (60 / qpm) / (spq : Rat))

/-- `seconds_per_step = 60.0 / (steps_per_quarter * qpm)` (MetricPerformance) -/
def secPerStepMetricR (R : Rat → Rat) (qpm : Rat) (spq : Int) : Rat := R (60 / R ((spq : Rat) * qpm))

/-- `seconds_per_step = 1.0 / steps_per_second` (Performance, NotePerformance) -/
def secPerStepAbsR (R : Rat → Rat) (sps : Int) : Rat := R (1 / (sps : Rat))

/-- `sequence_start_time = start_step * seconds_per_step` (PianorollSequence, performances) -/
def seqStartR (R : Rat → Rat) (σ : Rat) (startStep : Int) : Rat := R ((startStep : Rat) * σ)

/-- `sequence_start_time += start_step * seconds_per_step` with the argument `sequence_start_time = t0`
(Melody, DrumTrack, ChordProgression; default `t0 = 0.0`) -/
def seqStartAddR (R : Rat → Rat) (t0 σ : Rat) (startStep : Int) : Rat := R (t0 + R ((startStep : Rat) * σ))

/-- `step * seconds_per_step + sequence_start_time` -/
def stepTimeR (R : Rat → Rat) (σ sst : Rat) (k : Int) : Rat := R (R ((k : Rat) * σ) + sst)

end NSV.C06
