import NoteSeqVerif.Model.NoteSeq
import NoteSeqVerif.Generated.C10
/-! C10 — transposition.
`sequences_lib.py`: transpose_note_sequence, _clamp_transpose (generated), augment_note_sequence (the
transposition half, stretch factor 1); `chord_symbols_lib.py`: _transpose_pitch_class,
_pitch_class_to_string, _pitch_class_to_midi, transpose_chord_symbol and
chord_symbol_{pitches,root,bass,quality} on *structured* symbols; `melodies_lib.py`:
Melody.transpose, get_major_key, squash; `chords_lib.py`: ChordProgression.transpose;
`lead_sheets_lib.py`: LeadSheet.transpose / squash.

The regex split of a figure string into (root, kind, modifications, bass) is NOT modelled: every
function that starts from a figure string takes the splitter as a parameter
`split : String → Except Err Sym`; the driver instantiates it with what the real
`_split_chord_symbol` returned for the strings of the request.  All tables come from
`Generated/C10.lean`. -/
namespace NSV.C10
open Gen

def chordSymbolError : Err := .other "ChordSymbolError"
def keyError : Err := .other "KeyError"

/-! ## pitch classes -/

/-- a parsed pitch class: `(step, alter)` as returned by `_parse_pitch_class` -/
structure PC where
  step : Step
  alter : Int
deriving DecidableEq, Repr, Inhabited

/-- `_pitch_class_to_midi` -/
def PC.midi (p : PC) : Int := Int.fmod (stepsMidi p.step + p.alter) 12

/-- every entry of the generated `_STEPS_ABOVE` is positive: this is what makes the step walk of
`_transpose_pitch_class` terminate (re-checked against the table on every run) -/
theorem stepsAbove_pos (s : Step) : 0 < stepsAbove s := by cases s <;> decide

/-- `while transpose_amount >= _STEPS_ABOVE[step]: transpose_amount -= …; step = next(step)` -/
def walk (step : Step) (k : Int) : Step × Int :=
  if stepsAbove step ≤ k then walk step.next (k - stepsAbove step) else (step, k)
termination_by k.toNat
decreasing_by have := stepsAbove_pos step; omega

/-- `_transpose_pitch_class` -/
def transposePC (p : PC) (amount : Int) : PC :=
  let w := walk p.step (Int.fmod amount 12)
  if 0 < w.2 then
    if 0 ≤ p.alter then
      { step := w.1.next, alter := p.alter - (stepsAbove w.1 - w.2) }
    else
      { step := w.1, alter := p.alter + w.2 }
  else
    { step := w.1, alter := p.alter }

/-- the accidental characters of `_pitch_class_to_string`: `abs(alter) * ('#' if alter >= 0 else 'b')` -/
def accidentals (alter : Int) : List Char :=
  List.replicate alter.natAbs (if 0 ≤ alter then '#' else 'b')

/-- `_pitch_class_to_string` as a character list -/
def pcChars (p : PC) : List Char := p.step.letter :: accidentals p.alter

def pcToString (p : PC) : String := String.ofList (pcChars p)

/-- `_parse_pitch_class` on a string that matched `([A-G])(#*|b*)$`; `none` = the regex does not match -/
def parsePCChars : List Char → Option PC
  | [] => none
  | c :: rest =>
    let step? : Option Step :=
      if c = 'A' then some .A else if c = 'B' then some .B else if c = 'C' then some .C
      else if c = 'D' then some .D else if c = 'E' then some .E else if c = 'F' then some .F
      else if c = 'G' then some .G else none
    match step? with
    | none => none
    | some step =>
      if rest.all (· = '#') ∨ rest.all (· = 'b') then
        some { step := step, alter := (rest.length : Int) * (if rest.contains '#' then 1 else -1) }
      else none

/-! ## structured chord symbols -/

/-- one match of `_MODIFICATION_REGEX`: the type string (`add`, `add#`, `addb`, `no`, `#`, `b`) and the degree -/
structure Mod where
  type : String
  degree : Int
deriving DecidableEq, Repr, Inhabited

/-- what `_split_chord_symbol` + `_parse_root` + `_parse_bass` + the regex loop of
`_parse_modifications` give for a figure.  `kind` and `mods` are the matched substrings;
`modList` is the list of regex matches inside `mods`. -/
structure Sym where
  root : PC
  kind : String
  mods : String
  modList : List Mod
  bass : Option PC
deriving DecidableEq, Repr, Inhabited

/-- `transpose_chord_symbol` on the structure: root and bass through `_transpose_pitch_class`,
kind and modifications untouched -/
def transposeSym (c : Sym) (k : Int) : Sym :=
  { c with root := transposePC c.root k, bass := c.bass.map (fun b => transposePC b k) }

/-- `'%s%s%s%s' % (root_str, kind_str, modifications_str, bass_str)` -/
def render (c : Sym) : String :=
  pcToString c.root ++ c.kind ++ c.mods ++
    (match c.bass with
     | some b => "/" ++ pcToString b
     | none => "")

/-- scale-degree dictionary (Python `dict`: insertion ordered, unique keys) -/
abbrev Degrees := List (Int × Int)

def dictHas (d : Degrees) (k : Int) : Bool := d.any (fun e => e.1 = k)
def dictGet? (d : Degrees) (k : Int) : Option Int := (d.find? (fun e => e.1 = k)).map (·.2)
/-- `d[k] = v` -/
def dictSet (d : Degrees) (k v : Int) : Degrees :=
  if dictHas d k then d.map (fun e => if e.1 = k then (k, v) else e) else d ++ [(k, v)]
/-- `del d[k]` -/
def dictDel (d : Degrees) (k : Int) : Degrees := d.filter (fun e => e.1 ≠ k)
/-- `dict(pairs)` -/
def dictOfPairs (ps : List (Int × Int)) : Degrees := ps.foldl (fun d e => dictSet d e.1 e.2) []

/-- `_add_scale_degree`, `_subtract_scale_degree`, `_alter_scale_degree` -/
def applyMod (d : Degrees) (op : ModOp) (degree alter : Int) : Except Err Degrees :=
  match op with
  | .add =>
    if dictHas d degree then .error chordSymbolError
    else .ok (dictSet d degree (if degree = 7 then alter - 1 else alter))
  | .sub =>
    if dictHas d degree then .ok (dictDel d degree) else .error chordSymbolError
  | .alt =>
    match dictGet? d degree with
    | some a => .ok (dictSet d degree (a + alter))
    | none => .ok (dictSet d degree alter)

/-- `_parse_kind` -/
def parseKind (kind : String) : Except Err Degrees :=
  match chordKinds.lookup kind with
  | some ds => .ok (dictOfPairs ds)
  | none => .error keyError

/-- the table half of `_parse_modifications`: `_DEGREE_MODIFICATIONS[type_str]` -/
def parseMods : List Mod → Except Err (List (ModOp × Int × Int))
  | [] => .ok []
  | m :: ms =>
    match modTypes.lookup m.type with
    | none => .error keyError
    | some (op, alter) =>
      match parseMods ms with
      | .ok r => .ok ((op, m.degree, alter) :: r)
      | .error e => .error e

/-- `_apply_modifications` -/
def applyMods : Degrees → List (ModOp × Int × Int) → Except Err Degrees
  | d, [] => .ok d
  | d, (op, degree, alter) :: ms =>
    match applyMod d op degree alter with
    | .ok d' => applyMods d' ms
    | .error e => .error e

/-- the `degrees` component of `_parse_chord_symbol`: depends on kind and modifications only -/
def degreesOf (kind : String) (modList : List Mod) : Except Err Degrees :=
  match parseKind kind with
  | .error e => .error e
  | .ok base =>
    match parseMods modList with
    | .error e => .error e
    | .ok ms => applyMods base ms

/-- `_DEGREE_OFFSETS[(degree - 1) % 7 + 1] + alter` for every entry of the dictionary, in order -/
def relPitches : Degrees → Except Err (List Int)
  | [] => .ok []
  | (degree, alter) :: ds =>
    match degreeOffsets.lookup (Int.fmod (degree - 1) 7 + 1) with
    | none => .error keyError
    | some off =>
      match relPitches ds with
      | .ok r => .ok ((off + alter) :: r)
      | .error e => .error e

/-- root-independent half of `chord_symbol_pitches` -/
def symRel (c : Sym) : Except Err (List Int) :=
  match degreesOf c.kind c.modList with
  | .error e => .error e
  | .ok ds => relPitches ds

/-- `chord_symbol_pitches` -/
def symPitches (c : Sym) : Except Err (List Int) :=
  match symRel c with
  | .error e => .error e
  | .ok rel => .ok (rel.map (fun r => Int.fmod (c.root.midi + r) 12))

/-- `chord_symbol_root` -/
def symRoot (c : Sym) : Int := c.root.midi

/-- `chord_symbol_bass` -/
def symBass (c : Sym) : Int :=
  match c.bass with
  | some b => b.midi
  | none => c.root.midi

/-- the triad test of `chord_symbol_quality` -/
def qualityOfDegrees (d : Degrees) : Int :=
  match dictGet? d 1, dictGet? d 3, dictGet? d 5 with
  | some a, some b, some c =>
    if a = 0 ∧ b = 0 ∧ c = 0 then QUALITY_MAJOR
    else if a = 0 ∧ b = -1 ∧ c = 0 then QUALITY_MINOR
    else if a = 0 ∧ b = 0 ∧ c = 1 then QUALITY_AUGMENTED
    else if a = 0 ∧ b = -1 ∧ c = -1 then QUALITY_DIMINISHED
    else QUALITY_OTHER
  | _, _, _ => QUALITY_OTHER

/-- `chord_symbol_quality` -/
def symQuality (c : Sym) : Except Err Int :=
  match degreesOf c.kind c.modList with
  | .error e => .error e
  | .ok ds => .ok (qualityOfDegrees ds)

/-- `transpose_chord_symbol` on a figure string, through the splitter parameter -/
def transposeFigure (split : String → Except Err Sym) (fig : String) (k : Int) : Except Err String :=
  match split fig with
  | .ok c => .ok (render (transposeSym c k))
  | .error e => .error e

/-! ## transpose_note_sequence -/

/-- `(min_allowed_pitch <= new_pitch <= max_allowed_pitch) or note.is_drum` -/
def keepNote (k mn mx : Int) (n : Note) : Bool :=
  (decide (mn ≤ n.pitch + k) && decide (n.pitch + k ≤ mx)) || n.isDrum

/-- what happens to a kept note -/
def moveNote (k : Int) (n : Note) : Note :=
  if n.isDrum then n else { n with pitch := n.pitch + k, pitchName := UNKNOWN_PITCH_NAME }

/-- the note loop with its three accumulators `(new_note_list, deleted_note_count, end_time)` -/
def noteLoop (k mn mx : Int) : List Note → List Note → Nat → Rat → List Note × Nat × Rat
  | [], acc, del, e => (acc, del, e)
  | n :: ns, acc, del, e =>
    if keepNote k mn mx n then
      noteLoop k mn mx ns (acc ++ [moveNote k n]) del (if e < n.end_ then n.end_ else e)
    else
      noteLoop k mn mx ns acc (del + 1) e

/-- `for ta in ns.text_annotations: if chord symbol and not N.C.: ta.text = transpose_chord_symbol(…)`;
the first uninterpretable chord symbol raises -/
def textLoop (split : String → Except Err Sym) (k : Int) : List TextAnn → Except Err (List TextAnn)
  | [] => .ok []
  | t :: ts =>
    if t.kind = CHORD_SYMBOL ∧ t.text ≠ NO_CHORD then
      match transposeFigure split t.text k with
      | .error e => .error e
      | .ok f =>
        match textLoop split k ts with
        | .ok r => .ok ({ t with text := f } :: r)
        | .error e => .error e
    else
      match textLoop split k ts with
      | .ok r => .ok (t :: r)
      | .error e => .error e

def transposeKey (k : Int) (ks : KeySig) : KeySig := { ks with key := Int.fmod (ks.key + k) 12 }

/-- `transpose_note_sequence(ns, amount, min_allowed_pitch, max_allowed_pitch, transpose_chords)`
(result of the `in_place=False` call, or the state of `ns` after the `in_place=True` call) -/
def transposeNS (split : String → Except Err Sym) (s : NoteSeq) (k mn mx : Int)
    (transposeChords : Bool) : Except Err (NoteSeq × Nat) :=
  let r := noteLoop k mn mx s.notes [] 0 0
  let texts? : Except Err (List TextAnn) :=
    if transposeChords then textLoop split k s.texts
    else .ok (s.texts.filter (fun t => t.kind ≠ CHORD_SYMBOL))
  match texts? with
  | .error e => .error e
  | .ok texts =>
    .ok ({ s with notes := r.1, totalTime := r.2.2, texts := texts,
                  keySigs := s.keySigs.map (transposeKey k) }, r.2.1)

/-! ## augment_note_sequence (stretch range fixed to [1, 1]; the random choice is a parameter) -/

def minPitch : List Note → Int → Int
  | [], m => m
  | n :: ns, m => minPitch ns (if n.pitch < m then n.pitch else m)

def maxPitch : List Note → Int → Int
  | [], m => m
  | n :: ns, m => maxPitch ns (if m < n.pitch then n.pitch else m)

/-- the interval handed to `random.randint`, or the error raised before it;
`none` = the sequence has no notes and is returned unchanged -/
def augmentRange (s : NoteSeq) (minT maxT mn mx : Int) (deleteOut : Bool) :
    Except Err (Option (Int × Int)) :=
  if mx < mn then .error .valueError
  else if maxT < minT then .error .valueError
  else match s.notes with
    | [] => .ok none
    | n :: ns =>
      if s.isQuantized then .error .quantizationStatusError
      else if deleteOut then .ok (some (minT, maxT))
      else
        let lo := minPitch ns n.pitch
        let hi := maxPitch ns n.pitch
        .ok (some (clampTranspose minT lo hi mn mx, clampTranspose maxT lo hi mn mx))

/-- `augment_note_sequence` with `random.randint(a, b)` replaced by `pick a b`
(`random.randint` raises ValueError on an empty interval) -/
def augment (split : String → Except Err Sym) (pick : Int → Int → Int) (s : NoteSeq)
    (minT maxT mn mx : Int) (deleteOut : Bool) : Except Err NoteSeq :=
  match augmentRange s minT maxT mn mx deleteOut with
  | .error e => .error e
  | .ok none => .ok s
  | .ok (some (a, b)) =>
    if b < a then .error .valueError
    else match transposeNS split s (pick a b) mn mx true with
      | .error e => .error e
      | .ok r => .ok r.1

/-! ## Melody.transpose / squash -/

/-- the body of the loop of `Melody.transpose` for one event -/
def melEvent (k mn mx e : Int) : Int :=
  if MIN_MIDI_PITCH ≤ e then
    let e1 := e + k
    if e1 < mn then mn + Int.fmod (e1 - mn) NOTES_PER_OCTAVE
    else if mx ≤ e1 then mx - NOTES_PER_OCTAVE + Int.fmod (e1 - mx) NOTES_PER_OCTAVE
    else e1
  else e

/-- `Melody.transpose` -/
def melTranspose (k mn mx : Int) (es : List Int) : List Int := es.map (melEvent k mn mx)

/-- `get_major_key_histogram`: for every key, how many events `>= MIN_MIDI_PITCH` lie in it -/
def keyHistogram (es : List Int) : List Nat :=
  (List.range NOTES_PER_OCTAVE.toNat).map (fun key =>
    (es.filter (fun e => decide (MIN_MIDI_PITCH ≤ e) &&
      (match NOTE_KEYS[(Int.fmod e NOTES_PER_OCTAVE).toNat]? with
       | some keys => keys.contains key
       | none => false))).length)

/-- `numpy.argmax`: index of the first maximum -/
def argmaxFrom : List Nat → Nat → Nat → Nat → Nat
  | [], _, best, _ => best
  | x :: xs, i, best, bestv => if bestv < x then argmaxFrom xs (i + 1) i x else argmaxFrom xs (i + 1) best bestv

def argmax : List Nat → Nat
  | [] => 0
  | x :: xs => argmaxFrom xs 1 0 x

/-- `get_major_key` -/
def majorKey (es : List Int) : Int := (argmax (keyHistogram es) : Nat)

/-- Python 3 `round(x)` on a float: nearest integer, ties to even -/
def roundHalfEven (x : Rat) : Int :=
  let f := x.floor
  let d := x - (f : Rat)
  if d < 1 / 2 then f else if 1 / 2 < d then f + 1 else if f % 2 = 0 then f else f + 1

def listMin : List Int → Int → Int
  | [], m => m
  | x :: xs, m => listMin xs (if x < m then x else m)

def listMax : List Int → Int → Int
  | [], m => m
  | x :: xs, m => listMax xs (if m < x then x else m)

/-- the transpose amount computed by `Melody.squash` (`none` = early `return 0` without transposing);
`R` is applied after every float operation -/
def squashAmount (R : Rat → Rat) (es : List Int) (mn mx : Int) (key : Option Int) : Option Int :=
  match key with
  | none => some 0
  | some toKey =>
    let keyDiff := toKey - majorKey es
    match es.filter (fun e => decide (MIN_MIDI_PITCH ≤ e) && decide (e ≤ MAX_MIDI_PITCH)) with
    | [] => none
    | n :: ns =>
      let lo := listMin ns n
      let hi := listMax ns n
      let melodyCenter := R (((lo + hi : Int) : Rat) / 2)
      let targetCenter := R (((mn + mx - 1 : Int) : Rat) / 2)
      let centerDiff := R (targetCenter - R (melodyCenter + (keyDiff : Rat)))
      some (keyDiff + NOTES_PER_OCTAVE * roundHalfEven (R (centerDiff / (NOTES_PER_OCTAVE : Rat))))

/-- `Melody.squash`: (events afterwards, returned amount) -/
def squashR (R : Rat → Rat) (es : List Int) (mn mx : Int) (key : Option Int) : List Int × Int :=
  match squashAmount R es mn mx key with
  | none => (es, 0)
  | some a => (melTranspose a mn mx es, a)

def squash := squashR rne53

/-! ## ChordProgression.transpose, LeadSheet.transpose / squash -/

/-- `ChordProgression.transpose`: the events afterwards and the exception, if any.  The loop
assigns in place, so when a figure cannot be interpreted the events before it stay transposed. -/
def cpLoop (split : String → Except Err Sym) (k : Int) : List String → List String × Option Err
  | [] => ([], none)
  | f :: fs =>
    if f ≠ NO_CHORD then
      match transposeFigure split f k with
      | .error e => (f :: fs, some e)
      | .ok f' => let r := cpLoop split k fs; (f' :: r.1, r.2)
    else
      let r := cpLoop split k fs; (f :: r.1, r.2)

def cpTranspose (split : String → Except Err Sym) (k : Int) (figs : List String) : List String × Option Err :=
  cpLoop split (Int.fmod k NOTES_PER_OCTAVE) figs

/-- `LeadSheet.transpose`: melody first, then chords -/
def lsTranspose (split : String → Except Err Sym) (k mn mx : Int) (es : List Int) (figs : List String) :
    List Int × List String × Option Err :=
  let r := cpTranspose split k figs
  (melTranspose k mn mx es, r.1, r.2)

/-- `LeadSheet.squash` -/
def lsSquashR (R : Rat → Rat) (split : String → Except Err Sym) (mn mx toKey : Int) (es : List Int)
    (figs : List String) : List Int × Int × List String × Option Err :=
  let m := squashR R es mn mx (some toKey)
  let r := cpTranspose split m.2 figs
  (m.1, m.2, r.1, r.2)

end NSV.C10
