import NoteSeqVerif.Model.NoteSeq
import NoteSeqVerif.Generated.C16
/-! C16 — executable model of `note_seq.midi_io.midi_to_note_sequence` (core Lean only).

Byte-level MIDI parsing is third-party (`mido` + `pretty_midi`) and is NOT modelled: the
`pretty_midi.PrettyMIDI` constructor is a *parameter* `decodeCtor : Bytes → Except CtorErr PM`.
What is note-seq's own code and is transcribed here statement by statement:

* the `try … except` around the constructor (which classes it catches is `Gen.ctorTrys`,
  regenerated from the AST on every run; a bare `except` is `none` = everything),
* everything after the constructor (`post`): every protobuf assignment in source order with its
  possible Python failure explicit (`int32` range → `ValueError`, seen through the `try`
  statements that enclose *that* assignment according to the regenerated `Gen.h_*` tables),
  the `resolution` guard, the `%`/`//` key decoding and the mode cases (`Gen.keyOf`, `Gen.modeOf`,
  `Gen.modeCases`), the `total_time` loop, the gathering of notes / bends / control changes per
  instrument and the three copy loops.

No float arithmetic happens in this code: times are only copied and compared, so every Python
float is its exact rational value and no rounding operator is involved. -/
namespace NSV.C16
open NSV

/-! ### Python exceptions -/

/-- an exception class: its name and the names of all classes in its MRO (itself included) -/
structure PyExc where
  name : String
  mro : List String
deriving Repr, DecidableEq, Inhabited

def excBases : List String := ["Exception", "BaseException", "object"]
def mce : PyExc := ⟨"MIDIConversionError", "MIDIConversionError" :: excBases⟩
def valueError : PyExc := ⟨"ValueError", "ValueError" :: excBases⟩

/-- the exception object a handler body `raise X(...)` creates -/
def excOfName (n : String) : PyExc :=
  if n = "MIDIConversionError" then mce else if n = "ValueError" then valueError else ⟨n, [n]⟩

/-- one `except` clause: classes caught (`none` = bare `except:`), class its body raises -/
abbrev Clause := Option (List String) × String
/-- one `try` statement = its clauses in order; a statement's context = the `try`s around it,
innermost first -/
abbrev Trys := List (List Clause)

/-- `except C1, C2:` catches `e` iff one of the classes is in `e`'s MRO -/
def catches (c : Clause) (e : PyExc) : Bool :=
  match c.1 with
  | none => true
  | some cls => cls.any (fun k => e.mro.contains k)

/-- the first clause of a `try` that catches `e` -/
def firstMatch (t : List Clause) (e : PyExc) : Option Clause := t.find? (fun c => catches c e)

/-- the exception that leaves the enclosing `try` statements when `e` is raised inside them
(a clause body `raise X(...)` replaces the exception; `raise` alone re-raises it) -/
def raiseThrough : Trys → PyExc → PyExc
  | [], e => e
  | t :: rest, e =>
    match firstMatch t e with
    | some c => raiseThrough rest (if c.2 = "*reraise" then e else excOfName c.2)
    | none => raiseThrough rest e

instance instDecEqExcept {ε α} [DecidableEq ε] [DecidableEq α] : DecidableEq (Except ε α)
  | .ok a, .ok b => if h : a = b then isTrue (by rw [h]) else isFalse (by intro h'; cases h'; exact h rfl)
  | .error a, .error b => if h : a = b then isTrue (by rw [h]) else isFalse (by intro h'; cases h'; exact h rfl)
  | .ok _, .error _ => isFalse (by intro h; cases h)
  | .error _, .ok _ => isFalse (by intro h; cases h)

/-! ### the PrettyMIDI object (what `post` reads of it) -/

structure PMTimeSig where
  num : Int
  den : Int
  time : Rat
deriving Repr, DecidableEq, Inhabited

structure PMKey where
  keyNumber : Int
  time : Rat
deriving Repr, DecidableEq, Inhabited

structure PMNote where
  velocity : Int
  pitch : Int
  start : Rat
  end_ : Rat
deriving Repr, DecidableEq, Inhabited

structure PMBend where
  pitch : Int
  time : Rat
deriving Repr, DecidableEq, Inhabited

structure PMCC where
  number : Int
  value : Int
  time : Rat
deriving Repr, DecidableEq, Inhabited

structure PMInst where
  program : Int
  isDrum : Bool
  name : String
  notes : List PMNote
  bends : List PMBend
  ccs : List PMCC
deriving Repr, DecidableEq, Inhabited

/-- `tempoChanges` is the outcome of the third-party call `midi.get_tempo_changes()`, which the
function makes *after* (hence outside) the guarded constructor call: `(time, qpm)` pairs, or the
exception it raised. -/
structure PM where
  resolution : Int
  timeSigs : List PMTimeSig
  keys : List PMKey
  tempoChanges : Except PyExc (List (Rat × Rat))
  instruments : List PMInst

/-- what the constructor raised, and what evaluating the handler's message
`'Midi decoding error %s: %s' % (sys.exc_info()[0], sys.exc_info()[1])` raises (normally nothing) -/
structure CtorErr where
  exc : PyExc
  fmtRaises : Option PyExc
deriving Repr, DecidableEq, Inhabited

/-! ### the result -/

/-- the returned NoteSequence: the shared `NoteSeq` fields plus the two this function alone fills -/
structure MidiSeq where
  seq : NoteSeq
  parser : Int
  encoding : Int
  infos : List (Int × String)      -- instrument_infos: (instrument, name)
deriving Repr, DecidableEq, Inhabited

/-! ### protobuf assignments -/

def inInt32 (v : Int) : Bool := decide (-2147483648 ≤ v ∧ v ≤ 2147483647)

/-- `msg.field = v` for an `int32` field (`v` a Python `int`): `ValueError` when out of range,
as seen from outside the `try` statements enclosing the assignment -/
def setInt32 (trys : Trys) (v : Int) : Except PyExc Int :=
  if inInt32 v then .ok v else .error (raiseThrough trys valueError)

/-- sequential loop with early exit on the first exception (`for x in l: …`) -/
def mapE {α β ε} (f : α → Except ε β) : List α → Except ε (List β)
  | [] => .ok []
  | a :: l =>
    match f a with
    | .error e => .error e
    | .ok b =>
      match mapE f l with
      | .error e => .error e
      | .ok bs => .ok (b :: bs)

/-- `enumerate(l)` starting at `k` -/
def enumFrom {α} (k : Nat) : List α → List (Nat × α)
  | [] => []
  | a :: l => (k, a) :: enumFrom (k + 1) l

/-! ### `post`: the code after the constructor -/

/-- body of `for midi_time in midi.time_signature_changes` -/
def convTimeSig (t : PMTimeSig) : Except PyExc TimeSig := do
  -- time_signature.time = midi_time.time            (double: cannot fail)
  let num ← setInt32 Gen.h_ts_numerator t.num        -- time_signature.numerator = …
  let den ← setInt32 Gen.h_ts_denominator t.den      -- try: time_signature.denominator = …
  pure { time := t.time, num := num, den := den }

/-- `if midi_mode == a: mode = b elif …: … else: raise` -/
def decodeMode (m : Int) : Except PyExc Int :=
  match Gen.modeCases.lookup m with
  | some v => .ok v
  | none =>
    match Gen.modeElseRaises with
    | some r => .error (raiseThrough Gen.h_mode_raise (excOfName r))
    | none => .ok 0          -- no else branch: the field keeps its default

/-- body of `for midi_key in midi.key_signature_changes` -/
def convKey (k : PMKey) : Except PyExc KeySig := do
  -- key_signature.time = midi_key.time;  key_signature.key = key_number % 12  (open enum, |value| < 12)
  let mode ← decodeMode (Gen.modeOf k.keyNumber)
  pure { time := k.time, key := Gen.keyOf k.keyNumber, mode := mode }

/-- `tempo_times, tempo_qpms = midi.get_tempo_changes()` -/
def getTempoChanges (pm : PM) : Except PyExc (List (Rat × Rat)) :=
  match pm.tempoChanges with
  | .ok l => .ok l
  | .error e => .error (raiseThrough Gen.h_get_tempo_changes e)

/-- `if midi_instrument.name: info = sequence.instrument_infos.add(); info.name = …; info.instrument = i` -/
def convInfo (p : Nat × PMInst) : Except PyExc (List (Int × String)) :=
  if p.2.name ≠ "" then do
    let i ← setInt32 Gen.h_info_instrument p.1
    pure [(i, p.2.name)]
  else pure []

/-- one step of `if not sequence.total_time or midi_note.end > sequence.total_time: total_time = end` -/
def totalStep (tt e : Rat) : Rat := if tt = 0 ∨ e > tt then e else tt

/-- a gathered event: `(program, num_instrument, is_drum, event)` -/
abbrev Tagged (α : Type) := Int × Nat × Bool × α

def taggedNotes (l : List (Nat × PMInst)) : List (Tagged PMNote) :=
  l.flatMap (fun p => p.2.notes.map (fun n => (p.2.program, p.1, p.2.isDrum, n)))
def taggedBends (l : List (Nat × PMInst)) : List (Tagged PMBend) :=
  l.flatMap (fun p => p.2.bends.map (fun n => (p.2.program, p.1, p.2.isDrum, n)))
def taggedCCs (l : List (Nat × PMInst)) : List (Tagged PMCC) :=
  l.flatMap (fun p => p.2.ccs.map (fun n => (p.2.program, p.1, p.2.isDrum, n)))

/-- body of `for program, instrument, is_drum, midi_note in midi_notes` -/
def convNote (t : Tagged PMNote) : Except PyExc Note := do
  let inst ← setInt32 Gen.h_note_instrument t.2.1
  let prog ← setInt32 Gen.h_note_program t.1
  -- note.start_time / note.end_time: doubles
  let pitch ← setInt32 Gen.h_note_pitch t.2.2.2.pitch
  let vel ← setInt32 Gen.h_note_velocity t.2.2.2.velocity
  pure { pitch := pitch, velocity := vel, start := t.2.2.2.start, end_ := t.2.2.2.end_, qs := 0, qe := 0,
         instrument := inst, program := prog, isDrum := t.2.2.1, numerator := 0, denominator := 0,
         voice := 0, part := 0, pitchName := 0 }

def convBend (t : Tagged PMBend) : Except PyExc Bend := do
  let inst ← setInt32 Gen.h_bend_instrument t.2.1
  let prog ← setInt32 Gen.h_bend_program t.1
  let bend ← setInt32 Gen.h_bend_bend t.2.2.2.pitch
  pure { time := t.2.2.2.time, bend := bend, instrument := inst, program := prog, isDrum := t.2.2.1 }

def convCC (t : Tagged PMCC) : Except PyExc CC := do
  let inst ← setInt32 Gen.h_cc_instrument t.2.1
  let prog ← setInt32 Gen.h_cc_program t.1
  let number ← setInt32 Gen.h_cc_number t.2.2.2.number
  let value ← setInt32 Gen.h_cc_value t.2.2.2.value
  pure { time := t.2.2.2.time, qstep := 0, number := number, value := value, instrument := inst,
         program := prog, isDrum := t.2.2.1 }

/-- everything `midi_to_note_sequence` does once it holds a PrettyMIDI object.
The instrument loop of the source interleaves three things per instrument (instrument_info,
`total_time` update, gathering); only the instrument_info assignment can fail, the other two are
pure, so they are computed after it without changing which exception leaves first. -/
def post (pm : PM) : Except PyExc MidiSeq := do
  -- if midi.resolution <= 0: raise MIDIConversionError
  if Gen.resolutionRejected pm.resolution then
    throw (raiseThrough Gen.h_resolution_guard (excOfName Gen.resolutionGuardRaises))
  let tpq ← setInt32 Gen.h_ticks_per_quarter pm.resolution
  let tsigs ← mapE convTimeSig pm.timeSigs
  let ksigs ← mapE convKey pm.keys
  let tempos ← getTempoChanges pm
  let insts := enumFrom 0 pm.instruments
  let infos ← mapE convInfo insts
  let gathered := taggedNotes insts
  let total := (gathered.map (fun t => t.2.2.2.end_)).foldl totalStep 0
  let notes ← mapE convNote gathered
  let bends ← mapE convBend (taggedBends insts)
  let ccs ← mapE convCC (taggedCCs insts)
  pure { seq := { notes := notes, tempos := tempos.map (fun p => { time := p.1, qpm := p.2 }),
                  timeSigs := tsigs, keySigs := ksigs, ccs := ccs, bends := bends,
                  totalTime := total, tpq := tpq },
         parser := Gen.PARSER, encoding := Gen.ENCODING, infos := infos.flatten }

/-! ### the whole function on bytes -/

abbrev Bytes := List UInt8

/-- the exception leaving the `try` statements around the constructor when it raised `ce.exc`:
the innermost clause that catches it evaluates its message (`ce.fmtRaises`) and raises its class -/
def ctorRaise : Trys → CtorErr → PyExc
  | [], ce => ce.exc
  | t :: rest, ce =>
    match firstMatch t ce.exc with
    | some c =>
      match ce.fmtRaises with
      | some e' => raiseThrough rest e'
      | none => raiseThrough rest (if c.2 = "*reraise" then ce.exc else excOfName c.2)
    | none => ctorRaise rest ce

/-- `midi_to_note_sequence(midi_data)` for `midi_data : bytes` -/
def midiToNoteSequence (decodeCtor : Bytes → Except CtorErr PM) (b : Bytes) : Except PyExc MidiSeq :=
  match decodeCtor b with
  | .error ce => .error (ctorRaise Gen.ctorTrys ce)
  | .ok pm => post pm

/-! ### the assumption on the third-party constructor, and the property's well-formedness -/

/-- what `post` needs of a PrettyMIDI object with a positive resolution: every integer that goes
into an int32 field fits, pitches and velocities are MIDI data bytes, every time is a value of
the (non-decreasing, zero-based) tick→time table, `get_tempo_changes()` returns -/
structure InvPos (pm : PM) : Prop where
  tsNum : ∀ t ∈ pm.timeSigs, inInt32 t.num = true
  tsTime : ∀ t ∈ pm.timeSigs, 0 ≤ t.time
  keyTime : ∀ k ∈ pm.keys, 0 ≤ k.time
  tempoOk : ∃ l, pm.tempoChanges = .ok l ∧ ∀ p ∈ l, 0 ≤ p.1
  nInst : pm.instruments.length ≤ 2147483648
  program : ∀ i ∈ pm.instruments, inInt32 i.program = true
  notes : ∀ i ∈ pm.instruments, ∀ n ∈ i.notes,
    0 ≤ n.pitch ∧ n.pitch ≤ 127 ∧ 0 ≤ n.velocity ∧ n.velocity ≤ 127 ∧ 0 ≤ n.start ∧ n.start ≤ n.end_
  bends : ∀ i ∈ pm.instruments, ∀ b ∈ i.bends, inInt32 b.pitch = true ∧ 0 ≤ b.time
  ccs : ∀ i ∈ pm.instruments, ∀ c ∈ i.ccs, inInt32 c.number = true ∧ inInt32 c.value = true ∧ 0 ≤ c.time

/-- the assumption on the third-party constructor (decidable; evaluated by the harness on every
real object it returns, and by the driver on the same contents).  `resolution > 0` is NOT part of
it: a header with SMPTE division gives a negative resolution and negative times (F-C16-1), which
is why everything about times is claimed for positive resolutions only. -/
def Inv (pm : PM) : Prop := inInt32 pm.resolution = true ∧ (0 < pm.resolution → InvPos pm)

def invPosB (pm : PM) : Bool :=
  pm.timeSigs.all (fun t => inInt32 t.num && decide (0 ≤ t.time))
  && pm.keys.all (fun k => decide (0 ≤ k.time))
  && (match pm.tempoChanges with | .ok l => l.all (fun p => decide (0 ≤ p.1)) | .error _ => false)
  && decide (pm.instruments.length ≤ 2147483648)
  && pm.instruments.all (fun i =>
      inInt32 i.program
      && i.notes.all (fun n => decide (0 ≤ n.pitch ∧ n.pitch ≤ 127 ∧ 0 ≤ n.velocity ∧ n.velocity ≤ 127
                                        ∧ 0 ≤ n.start ∧ n.start ≤ n.end_))
      && i.bends.all (fun b => inInt32 b.pitch && decide (0 ≤ b.time))
      && i.ccs.all (fun c => inInt32 c.number && inInt32 c.value && decide (0 ≤ c.time)))

/-- executable form of `Inv` (proved equivalent in `Props/C16.lean`) -/
def invB (pm : PM) : Bool := inInt32 pm.resolution && (!decide (0 < pm.resolution) || invPosB pm)

/-- the well-formedness the property demands of a returned sequence -/
structure WFmidi (s : MidiSeq) : Prop where
  notes : ∀ n ∈ s.seq.notes, 0 ≤ n.start ∧ n.start ≤ n.end_ ∧ n.end_ ≤ s.seq.totalTime
    ∧ 0 ≤ n.pitch ∧ n.pitch ≤ 127 ∧ 0 ≤ n.velocity ∧ n.velocity ≤ 127
  tempos : ∀ t ∈ s.seq.tempos, 0 ≤ t.time
  timeSigs : ∀ t ∈ s.seq.timeSigs, 0 ≤ t.time
  keySigs : ∀ t ∈ s.seq.keySigs, 0 ≤ t.time
  bends : ∀ t ∈ s.seq.bends, 0 ≤ t.time
  ccs : ∀ t ∈ s.seq.ccs, 0 ≤ t.time

def wfB (s : MidiSeq) : Bool :=
  s.seq.notes.all (fun n => decide (0 ≤ n.start ∧ n.start ≤ n.end_ ∧ n.end_ ≤ s.seq.totalTime
    ∧ 0 ≤ n.pitch ∧ n.pitch ≤ 127 ∧ 0 ≤ n.velocity ∧ n.velocity ≤ 127))
  && s.seq.tempos.all (fun t => decide (0 ≤ t.time))
  && s.seq.timeSigs.all (fun t => decide (0 ≤ t.time))
  && s.seq.keySigs.all (fun t => decide (0 ≤ t.time))
  && s.seq.bends.all (fun t => decide (0 ≤ t.time))
  && s.seq.ccs.all (fun t => decide (0 ≤ t.time))

end NSV.C16
