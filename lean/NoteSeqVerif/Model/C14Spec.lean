import NoteSeqVerif.Model.C14
/-! C14 — the declarative specification (DESIGN 6.14), core Lean only so that the compiled driver
can evaluate it next to the model.  Nothing here mentions events, sorting or active lists. -/
namespace NSV.C14

/-- the pedal of instrument `i` is down at time `t`: some pedal-down event (controller `ctl`,
value ≥ 64) at a time ≤ `t` is not followed, up to and including `t`, by a pedal-up event
(value < 64) of the same instrument; a pedal-up at the *same* time as the pedal-down wins
("at equal times off-events apply after on-events"). -/
def pedalDown (ctl : Int) (ccs : List CC) (i : Int) (t : Rat) : Prop :=
  ∃ c ∈ ccs, c.number = ctl ∧ c.instrument = i ∧ 64 ≤ c.value ∧ c.time ≤ t ∧
    ∀ c' ∈ ccs, c'.number = ctl → c'.instrument = i → c'.value < 64 → c'.time ≤ t →
      c'.time < c.time

instance (ctl : Int) (ccs : List CC) (i : Int) (t : Rat) : Decidable (pedalDown ctl ccs i t) := by
  unfold pedalDown; infer_instance

/-- times of all note/pedal events of the piece: starts and ends of pitched (non-drum) notes and
every event of the pedal controller, on any instrument -/
def eventTimes (ctl : Int) (s : NoteSeq) : List Rat :=
  (s.notes.filter (fun m => !m.isDrum)).map (·.start) ++
  (s.notes.filter (fun m => !m.isDrum)).map (·.end_) ++
  (s.ccs.filter (fun c => c.number = ctl)).map (·.time)

/-- the time of the last note/pedal event of the piece (0 when there is none) -/
def lastEventTime (ctl : Int) (s : NoteSeq) : Rat :=
  match eventTimes ctl s with
  | [] => 0
  | t :: ts => ts.foldl max t

/-- times after `nt.end` at which `nt`'s pedal is released -/
def releaseTimes (ctl : Int) (s : NoteSeq) (nt : Note) : List Rat :=
  (s.ccs.filter (fun c => c.number = ctl ∧ c.instrument = nt.instrument ∧ c.value < 64 ∧
      nt.end_ < c.time)).map (·.time)

/-- starts, not before `nt.end`, of other pitched notes of `nt`'s pitch on `nt`'s instrument -/
def restrikeTimes (s : NoteSeq) (nt : Note) : List Rat :=
  (s.notes.filter (fun m => m ≠ nt ∧ m.isDrum = false ∧ m.instrument = nt.instrument ∧
      m.pitch = nt.pitch ∧ nt.end_ ≤ m.start)).map (·.start)

/-- where the note ends once the pedal is taken into account -/
def heldEnd (ctl : Int) (s : NoteSeq) (nt : Note) : Rat :=
  if nt.isDrum = true ∨ ¬ pedalDown ctl s.ccs nt.instrument nt.end_ then nt.end_
  else (releaseTimes ctl s nt ++ restrikeTimes s nt).foldl min (lastEventTime ctl s)

/-- pitched notes do not end before they start -/
def WellFormed (s : NoteSeq) : Prop :=
  ∀ nt ∈ s.notes, nt.isDrum = false → nt.start ≤ nt.end_

/-- "no two overlapping notes of one pitch on one instrument": two pitched notes of the same
pitch and instrument start at different times and the earlier one has ended when the later one
starts (it may end exactly then) -/
def NoSamePitchOverlap (s : NoteSeq) : Prop :=
  s.notes.Pairwise (fun a b =>
    a.isDrum = false → b.isDrum = false → a.instrument = b.instrument → a.pitch = b.pitch →
      a.start ≠ b.start ∧ (a.start < b.start → a.end_ ≤ b.start) ∧
        (b.start < a.start → b.end_ ≤ a.start))

instance (s : NoteSeq) : Decidable (WellFormed s) := by unfold WellFormed; infer_instance
instance (s : NoteSeq) : Decidable (NoSamePitchOverlap s) := by
  unfold NoSamePitchOverlap; infer_instance

/-- the notes the specification prescribes -/
def specNotes (ctl : Int) (s : NoteSeq) : List Note :=
  s.notes.map (fun nt => setEnd nt (heldEnd ctl s nt))

end NSV.C14
