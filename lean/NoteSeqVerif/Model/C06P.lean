import NoteSeqVerif.Model.C07
import NoteSeqVerif.Model.C06Time
import NoteSeqVerif.Generated.C06P
/-! C06 (performance half) — rendering a performance back to a NoteSequence (core Lean only).

Transcriptions of `performance_lib.BasePerformance._to_sequence`, `Performance.to_sequence`,
`MetricPerformance.to_sequence`, `NotePerformance.to_sequence`, composed with the C01 quantizers and the C07
extractors (`perfFromQuantized`, `metricPerfFromQuantized`, `notePerfFromQuantized`, imported, not copied).

The renderer is split the way the Python computes it: an integer part (which notes, from which step to which
step, with which velocity — `decodeEvents`, FIFO matching per pitch in a dict that remembers insertion order)
and a float part per note (`mkNote`: `step * seconds_per_step + sequence_start_time`, `R` after every float
operation, `Model/C06Time.lean`).

Second half of the file: the decidable predicates `CanonicalPerf` / `CanonicalNotePerf` ("what extraction itself
produces"), evaluated by the driver on every correspondence input and compared with the harness' own reading. -/
namespace NSV.C06P
open NSV.C07 NSV.C06

/-- exceptions `to_sequence` can raise -/
inductive RErr where
  | valueError          -- 'Unknown event type' (a DURATION event in a Performance)
  | assertionError      -- `assert self._num_velocity_bins` on a VELOCITY event with 0 bins
  | zeroDivisionError   -- `1.0 / steps_per_second`, `60.0 / (spq * qpm)`, `127 / num_velocity_bins` with 0
deriving Repr, DecidableEq

def RErr.name : RErr → String
  | .valueError => "ValueError"
  | .assertionError => "AssertionError"
  | .zeroDivisionError => "ZeroDivisionError"

/-! ### integer part of `_to_sequence` -/

/-- a rendered note before its times are computed: steps are relative to the performance's `start_step` -/
structure RNote where
  pitch : Int
  s : Int          -- `pitch_start_step`
  e : Int          -- `step` when the note is closed
  vel : Int        -- `pitch_velocity`
deriving Repr, DecidableEq

/-- `pitch_start_steps_and_velocities`: a `defaultdict(list)`; keys in insertion order -/
abbrev Tab := List (Int × List (Int × Int))

/-- `d[p]` (the value; a missing key reads as `[]` — and is created, see `tabSet`) -/
def tabGet (t : Tab) (p : Int) : List (Int × Int) :=
  match t.find? (fun e => e.1 == p) with
  | some e => e.2
  | none => []

/-- `d[p] = l`; a new key goes to the end -/
def tabSet (t : Tab) (p : Int) (l : List (Int × Int)) : Tab :=
  if t.any (fun e => e.1 == p) then t.map (fun e => if e.1 == p then (p, l) else e) else t ++ [(p, l)]

structure DState where
  step : Int
  vel : Int
  tab : Tab
  out : List RNote
deriving Repr, DecidableEq

/-- body of `for i, event in enumerate(self)` -/
def decStep (nb : Int) (st : DState) : PEvent → Except RErr DState
  | .noteOn p => .ok { st with tab := tabSet st.tab p (tabGet st.tab p ++ [(st.step, st.vel)]) }
  | .noteOff p =>
    match tabGet st.tab p with
    | [] => .ok { st with tab := tabSet st.tab p [] }        -- the lookup creates the key
    | (ps, pv) :: rest =>
      let st' := { st with tab := tabSet st.tab p rest }
      if st.step = ps then .ok st'                            -- zero duration: ignored
      else .ok { st' with out := st'.out ++ [⟨p, ps, st.step, pv⟩] }
  | .timeShift v => .ok { st with step := st.step + v }
  | .velocity b =>
    if nb = 0 then .error .assertionError
    else .ok { st with vel := Gen.velocityBinToVelocity b nb }
  | .duration _ => .error .valueError

def decLoop (nb : Int) : DState → List PEvent → Except RErr DState
  | st, [] => .ok st
  | st, e :: es =>
    match decStep nb st e with
    | .error x => .error x
    | .ok st' => decLoop nb st' es

/-- "There could be remaining pitches that were never ended. End them now": dict order, then list order -/
def closeOpen (step : Int) (t : Tab) : List RNote :=
  t.flatMap fun e => (e.2.filter (fun x => x.1 != step)).map fun x => ⟨e.1, x.1, step, x.2⟩

/-- the notes `_to_sequence` adds, in the order it adds them -/
def decodeEvents (nb velocity : Int) (evs : List PEvent) : Except RErr (List RNote) :=
  match decLoop nb ⟨0, velocity, [], []⟩ evs with
  | .error x => .error x
  | .ok st => .ok (st.out ++ closeOpen st.step st.tab)

/-! ### float part -/

structure RenderCfg where
  sigma : Rat              -- seconds_per_step
  sst : Rat                -- sequence_start_time
  maxDur : Option Rat      -- max_note_duration (`None` / falsy `0.0` = unlimited)
  instrument : Int
  program : Int
  isDrum : Bool

/-- `note.start_time = pitch_start_step * seconds_per_step + sequence_start_time`, `note.end_time = step * …`,
the `max_note_duration` cut (`end - start > max` → `end = start + max`) -/
def mkNote (R : Rat → Rat) (c : RenderCfg) (r : RNote) : Note :=
  let st := stepTimeR R c.sigma c.sst r.s
  let en0 := stepTimeR R c.sigma c.sst r.e
  let en := match c.maxDur with
    | some d => if d ≠ 0 ∧ R (en0 - st) > d then R (st + d) else en0
    | none => en0
  { pitch := r.pitch, velocity := r.vel, start := st, end_ := en, qs := 0, qe := 0,
    instrument := c.instrument, program := c.program, isDrum := c.isDrum,
    numerator := 0, denominator := 0, voice := 0, part := 0, pitchName := 0 }

/-- `if note.end_time > sequence.total_time: sequence.total_time = note.end_time` over the notes in order -/
def totalTimeOf (notes : List Note) : Rat := notes.foldl (fun t n => if n.end_ > t then n.end_ else t) 0

/-- the Python object: `BasePerformance` fields -/
structure PerfObj where
  events : List PEvent
  startStep : Int
  nb : Int                  -- num_velocity_bins
  maxShift : Int            -- max_shift_steps
  stepsPer : Int            -- steps_per_second / steps_per_quarter
  program : Option Int
  isDrum : Option Bool
deriving Repr, DecidableEq

/-- arguments of `to_sequence` -/
structure SeqArgs where
  velocity : Int
  instrument : Int
  program : Option Int
  maxDur : Option Rat
deriving Repr, DecidableEq

/-- `program` / `is_drum` resolution at the top of `_to_sequence` -/
def resolveProgram (arg self : Option Int) : Int :=
  match arg with
  | some x => x
  | none => match self with
    | some y => y
    | none => Gen.DEFAULT_PROGRAM

def resolveDrum (self : Option Bool) : Bool :=
  match self with
  | some b => b
  | none => false

/-- `BasePerformance._to_sequence(seconds_per_step, velocity, instrument, program, max_note_duration)` -/
def toSequenceCore (R : Rat → Rat) (σ : Rat) (p : PerfObj) (a : SeqArgs) : Except RErr NoteSeq :=
  let sst := seqStartR R σ p.startStep
  match decodeEvents p.nb a.velocity p.events with
  | .error x => .error x
  | .ok rs =>
    let cfg : RenderCfg := ⟨σ, sst, a.maxDur, a.instrument, resolveProgram a.program p.program, resolveDrum p.isDrum⟩
    let notes := rs.map (mkNote R cfg)
    .ok { notes := notes, totalTime := totalTimeOf notes, tpq := Gen.STANDARD_PPQ }

/-- `Performance.to_sequence`: `seconds_per_step = 1.0 / self.steps_per_second` -/
def perfToSequenceR (R : Rat → Rat) (p : PerfObj) (a : SeqArgs) : Except RErr NoteSeq :=
  if p.stepsPer = 0 then .error .zeroDivisionError
  else toSequenceCore R (secPerStepAbsR R p.stepsPer) p a

/-- `MetricPerformance.to_sequence`: `seconds_per_step = 60.0 / (self.steps_per_quarter * qpm)`, then
`sequence.tempos.add(qpm=qpm)` -/
def metricToSequenceR (R : Rat → Rat) (p : PerfObj) (a : SeqArgs) (qpm : Rat) : Except RErr NoteSeq :=
  if R ((p.stepsPer : Rat) * qpm) = 0 then .error .zeroDivisionError
  else match toSequenceCore R (secPerStepMetricR R qpm p.stepsPer) p a with
    | .error x => .error x
    | .ok s => .ok { s with tempos := [⟨0, qpm⟩] }

/-! ### NotePerformance -/

structure NotePerfObj where
  events : List NPTuple
  startStep : Int
  nb : Int
  stepsPerSecond : Int
  program : Option Int
  isDrum : Option Bool
deriving Repr, DecidableEq

/-- the loop of `NotePerformance.to_sequence`: one note per tuple, `step += TIME_SHIFT`, end at `step + DURATION`,
velocity `velocity_bin_to_velocity(bin, num_velocity_bins)` (division by the bin count) -/
def notePerfNotes (nb : Int) : Int → List NPTuple → Except RErr (List RNote)
  | _, [] => .ok []
  | step, t :: ts =>
    if nb = 0 then .error .zeroDivisionError
    else match notePerfNotes nb (step + t.shift) ts with
      | .error x => .error x
      | .ok r => .ok (⟨t.pitch, step + t.shift, step + t.shift + t.dur, Gen.velocityBinToVelocity t.bin nb⟩ :: r)

/-- `NotePerformance.to_sequence(instrument, program)` -/
def notePerfToSequenceR (R : Rat → Rat) (p : NotePerfObj) (instrument : Int) (program : Option Int) :
    Except RErr NoteSeq :=
  if p.stepsPerSecond = 0 then .error .zeroDivisionError
  else
    let σ := secPerStepAbsR R p.stepsPerSecond
    let sst := seqStartR R σ p.startStep
    match notePerfNotes p.nb 0 p.events with
    | .error x => .error x
    | .ok rs =>
      let cfg : RenderCfg := ⟨σ, sst, none, instrument, resolveProgram program p.program, resolveDrum p.isDrum⟩
      let notes := rs.map (mkNote R cfg)
      .ok { notes := notes, totalTime := totalTimeOf notes, tpq := Gen.STANDARD_PPQ }

/-! ### the round trips: render → quantize at the same resolution → extract -/

def liftR {α} : Except RErr α → Except String α
  | .ok a => .ok a
  | .error e => .error e.name
def liftQ {α} : Except Err α → Except String α
  | .ok a => .ok a
  | .error e => .error e.name
def liftX {α} : Except XErr α → Except String α
  | .ok a => .ok a
  | .error e => .error e.name

/-- `Performance(quantized_sequence=quantize_note_sequence_absolute(p.to_sequence(…), sps), start_step, bins,
max_shift_steps, instrument=filt)` -/
def rtPerfR (R : Rat → Rat) (p : PerfObj) (a : SeqArgs) (filt : Option Int) : Except String PerfResult :=
  (liftR (perfToSequenceR R p a)).bind fun ns =>
    (liftQ (C01.quantizeAbsR R C01.Gen.QUANTIZE_CUTOFF ns p.stepsPer)).bind fun q =>
      liftX (perfFromQuantized q p.startStep p.nb p.maxShift filt)

/-- `MetricPerformance(quantized_sequence=quantize_note_sequence(p.to_sequence(…, qpm), spq), start_step, bins,
max_shift_quarters, instrument=filt)` -/
def rtMetricR (R : Rat → Rat) (p : PerfObj) (a : SeqArgs) (qpm : Rat) (maxShiftQuarters : Int)
    (filt : Option Int) : Except String PerfResult :=
  (liftR (metricToSequenceR R p a qpm)).bind fun ns =>
    (liftQ (C01.quantizeRelR R C01.Gen.QUANTIZE_CUTOFF C01.Gen.DEFAULT_QPM ns p.stepsPer)).bind fun q =>
      liftX (metricPerfFromQuantized q p.startStep p.nb maxShiftQuarters filt)

/-- `NotePerformance(quantize_note_sequence_absolute(p.to_sequence(…), sps), bins, instrument=filt, start_step,
max_shift_steps, max_duration_steps)` -/
def rtNotePerfR (R : Rat → Rat) (p : NotePerfObj) (instrument : Int) (program : Option Int)
    (maxShift maxDur : Int) (filt : Option Int) : Except String NotePerfResult :=
  (liftR (notePerfToSequenceR R p instrument program)).bind fun ns =>
    (liftQ (C01.quantizeAbsR R C01.Gen.QUANTIZE_CUTOFF ns p.stepsPerSecond)).bind fun q =>
      liftX (notePerfFromQuantized q p.nb filt p.startStep maxShift maxDur)

/-! ### canonical event lists: what extraction itself produces -/

/-- what both directions look at: the NOTE_ON / NOTE_OFF events, each with the step at which it happens
(steps relative to `cur`) and, for a NOTE_ON, the velocity bin in force (`0` for a NOTE_OFF) -/
structure SEv where
  step : Int
  isOff : Bool
  pitch : Int
  bin : Int
deriving Repr, DecidableEq

def stream (cur bin : Int) : List PEvent → List SEv
  | [] => []
  | .timeShift v :: r => stream (cur + v) bin r
  | .velocity b :: r => stream cur b r
  | .noteOn p :: r => ⟨cur, false, p, bin⟩ :: stream cur bin r
  | .noteOff p :: r => ⟨cur, true, p, 0⟩ :: stream cur bin r
  | .duration _ :: r => stream cur bin r

/-- the extractor's serialisation of an on/off stream (the loop of `_from_quantized_sequence` without the note
bookkeeping): time shifts up to the event's step, maximal chunks first (`shiftLoop`, C07); a VELOCITY event iff
bins are used and a NOTE_ON's bin differs from the current one; then the event -/
def emit (nb ms : Int) : Int → Int → List SEv → List PEvent
  | _, _, [] => []
  | cur, bin, e :: es =>
    let sh := if e.step > cur then shiftLoop ms (e.step - cur).toNat (e.step - cur) else []
    let cur' := if e.step > cur then e.step else cur
    if e.isOff then sh ++ .noteOff e.pitch :: emit nb ms cur' bin es
    else if nb ≠ 0 ∧ e.bin ≠ bin then sh ++ .velocity e.bin :: .noteOn e.pitch :: emit nb ms cur' e.bin es
    else sh ++ .noteOn e.pitch :: emit nb ms cur' bin es

/-- an open note of the FIFO matching: pitch, number of its NOTE_ON among the NOTE_ONs, start step, bin -/
structure OpenE where
  pitch : Int
  idx : Nat
  s : Int
  bin : Int
deriving Repr, DecidableEq

/-- an on/off event annotated with the note it belongs to under FIFO matching: `idx` = number of that note's
NOTE_ON among all NOTE_ONs, `s` = its start step, `bin` = the bin in force at its NOTE_ON -/
structure AEv where
  step : Int
  idx : Nat
  isOff : Bool
  pitch : Int
  s : Int
  bin : Int
deriving Repr, DecidableEq

structure AnState where
  nOn : Nat
  open_ : List OpenE
  out : List AEv
  ok : Bool               -- every NOTE_OFF so far ended an open note of its pitch
deriving Repr, DecidableEq

def anStep (st : AnState) (e : SEv) : AnState :=
  if e.isOff then
    match st.open_.find? (fun o => o.pitch == e.pitch) with
    | none => { st with ok := false }
    | some o => { st with open_ := st.open_.eraseP (fun o => o.pitch == e.pitch),
                          out := st.out ++ [⟨e.step, o.idx, true, e.pitch, o.s, o.bin⟩] }
  else { st with nOn := st.nOn + 1,
                 open_ := st.open_ ++ [⟨e.pitch, st.nOn, e.step, e.bin⟩],
                 out := st.out ++ [⟨e.step, st.nOn, false, e.pitch, e.step, e.bin⟩] }

def annotate (es : List SEv) : AnState := es.foldl anStep ⟨0, [], [], true⟩

/-- the extractor's order of `note_events = sorted(onsets + offsets)`: `(step, idx, is_offset)` -/
def aevLt (a b : AEv) : Bool :=
  decide (a.step < b.step) ||
    (a.step == b.step && (decide (a.idx < b.idx) || (a.idx == b.idx && !a.isOff && b.isOff)))

/-- the extractor's order of `sorted_notes`: `(start, pitch)`; strict: no two notes share start step and pitch -/
def onLt (a b : AEv) : Bool := decide (a.step < b.step) || (a.step == b.step && decide (a.pitch < b.pitch))

/-- … the same, allowing several notes of one pitch to start on one step -/
def onLe (a b : AEv) : Bool := decide (a.step < b.step) || (a.step == b.step && decide (a.pitch ≤ b.pitch))

/-- the on/off stream is one the extractor can produce:
* every NOTE_OFF ends an open note of its pitch and no note is left open;
* the events are in `(step, note, on-before-off)` order where "note" is the FIFO-matched note, numbered by its
  NOTE_ON — at one step the NOTE_OFFs come first, in the order of their notes' NOTE_ONs;
* the NOTE_ONs are in `(step, pitch)` order (`strict`: strictly);
* every note ends after it starts;
* with velocity bins, every NOTE_ON has a bin (≥ 1) in force. -/
def streamOk (nb : Int) (strict : Bool) (es : List SEv) : Bool :=
  let st := annotate es
  st.ok && st.open_.isEmpty &&
  decide (st.out.Pairwise (fun a b => aevLt a b = true)) &&
  decide ((st.out.filter (fun a => !a.isOff)).Pairwise
    (fun a b => (if strict then onLt a b else onLe a b) = true)) &&
  st.out.all (fun a => !a.isOff || decide (a.s < a.step)) &&
  (nb == 0 || st.out.all (fun a => a.isOff || decide (1 ≤ a.bin)))

/-- `CanonicalPerf nb ms strict evs`: the event list is laid out as the extractor lays out its own stream
(`emit ∘ stream = id`: time shifts in `1..ms`, maximal chunks then the remainder, none trailing; VELOCITY only
directly before the NOTE_ON that changes the bin, never with `nb = 0`; no DURATION events), every event passes
the `PerformanceEvent` validator, and the stream is one the extractor can produce (`streamOk`). -/
def CanonicalPerfB (nb ms : Int) (strict : Bool) (evs : List PEvent) : Bool :=
  decide (1 ≤ ms) && evs.all PEvent.valid &&
  decide (emit nb ms 0 0 (stream 0 0 evs) = evs) && streamOk nb strict (stream 0 0 evs)

/-- canonical, strict: no two notes of one pitch start on one step.  These lists are normal forms: the round trip of
ANY event list rendering to the same notes returns them, whatever the storage order of the rendered notes
(`roundtrip_Performance_normal`); the extractor's output on overlap-free input satisfies it (`extract_canonical_Perf`) -/
def CanonicalPerf (nb ms : Int) (evs : List PEvent) : Prop := CanonicalPerfB nb ms true evs = true

/-- canonical at full strength (several NOTE_ONs of one pitch on one step allowed): what the property quantifies over
(`roundtrip_Performance`, `roundtrip_MetricPerformance`) -/
def CanonicalPerfFull (nb ms : Int) (evs : List PEvent) : Prop := CanonicalPerfB nb ms false evs = true

instance (nb ms : Int) (evs : List PEvent) : Decidable (CanonicalPerf nb ms evs) :=
  inferInstanceAs (Decidable (_ = true))
instance (nb ms : Int) (evs : List PEvent) : Decidable (CanonicalPerfFull nb ms evs) :=
  inferInstanceAs (Decidable (_ = true))

/-- NotePerformance: tuples "sorted as the extractor sorts" — a tuple with shift 0 does not have a lower pitch
than its predecessor (notes of one step are in pitch order) -/
def npOrdered : List NPTuple → Bool
  | a :: b :: r => (b.shift != 0 || decide (a.pitch ≤ b.pitch)) && npOrdered (b :: r)
  | _ => true

def npTupleOk (ms md : Int) (t : NPTuple) : Bool :=
  decide (0 ≤ t.shift) && decide (t.shift ≤ ms) && decide (0 ≤ t.pitch) && decide (t.pitch ≤ 127) &&
  decide (1 ≤ t.bin) && decide (t.bin ≤ 127) && decide (1 ≤ t.dur) && decide (t.dur ≤ md)

def CanonicalNotePerfB (ms md : Int) (ts : List NPTuple) : Bool := ts.all (npTupleOk ms md) && npOrdered ts

def CanonicalNotePerf (ms md : Int) (ts : List NPTuple) : Prop := CanonicalNotePerfB ms md ts = true

instance (ms md : Int) (ts : List NPTuple) : Decidable (CanonicalNotePerf ms md ts) :=
  inferInstanceAs (Decidable (_ = true))

end NSV.C06P
