import NoteSeqVerif.Model.C13
/-! C13 — declarative specifications the property theorems are stated against (core Lean only).
Nothing here is executed by the driver. -/
namespace NSV.C13

/-- "every note and event time moved by `g`, every tempo value by `q`, nothing else changed"
(all fields of a NoteSeq except the three `subsequence_info` ones, which each theorem states) -/
structure Moved (g q : Rat → Rat) (s r : NoteSeq) : Prop where
  notes : r.notes = s.notes.map (fun n => { n with start := g n.start, end_ := g n.end_ })
  tempos : r.tempos = s.tempos.map (fun e => { e with time := g e.time, qpm := q e.qpm })
  timeSigs : r.timeSigs = s.timeSigs.map (fun e => { e with time := g e.time })
  keySigs : r.keySigs = s.keySigs.map (fun e => { e with time := g e.time })
  texts : r.texts = s.texts.map (fun e => { e with time := g e.time })
  ccs : r.ccs = s.ccs.map (fun e => { e with time := g e.time })
  bends : r.bends = s.bends.map (fun e => { e with time := g e.time })
  sectionAnns : r.sectionAnns = s.sectionAnns.map (fun e => { e with time := g e.time })
  totalTime : r.totalTime = g s.totalTime
  sgroups : r.sgroups = s.sgroups
  totalQSteps : r.totalQSteps = s.totalQSteps
  spq : r.spq = s.spq
  sps : r.sps = s.sps
  tpq : r.tpq = s.tpq
  metaTag : r.metaTag = s.metaTag

/-- the shifted sequence, written out (what `shift_sequence_times` returns when it returns) -/
def shiftSeq (R : Rat → Rat) (d : Rat) (s : NoteSeq) : NoteSeq :=
  let g := fun t => R (t + d)
  { s with
    notes := s.notes.map (fun n => { n with start := g n.start, end_ := g n.end_ })
    tempos := s.tempos.map (fun e => { e with time := g e.time })
    timeSigs := s.timeSigs.map (fun e => { e with time := g e.time })
    keySigs := s.keySigs.map (fun e => { e with time := g e.time })
    texts := s.texts.map (fun e => { e with time := g e.time })
    ccs := s.ccs.map (fun e => { e with time := g e.time })
    bends := s.bends.map (fun e => { e with time := g e.time })
    sectionAnns := s.sectionAnns.map (fun e => { e with time := g e.time })
    totalTime := g s.totalTime
    hasSub := false, subStart := 0, subEnd := 0 }

/-- the error of a result, if any (for decidable statements about rejected inputs) -/
def errOf {α} : Except Err α → Option Err
  | .error e => some e
  | .ok _ => none

/-! ### the value in force -/

/-- the oracle's reading of "the value in force at `t`": walk the events in list order and
remember the value of every event at or before `t` -/
def inEffect {α β} (time : α → Rat) (val : α → β) (t : Rat) : List α → Option β → Option β
  | [], cur => cur
  | e :: l, cur => if time e ≤ t then inEffect time val t l (some (val e)) else inEffect time val t l cur

/-- value in force at `t` for events in any storage order: time order first (stable) -/
def inForce {α β} (time : α → Rat) (val : α → β) (l : List α) (t : Rat) : Option β :=
  inEffect time val t (sortByRat time l) none

/-- an element of a time-ordered list together with its predecessor -/
def withPred {α} (prev : α) (l : List α) : List (α × α) := (prev :: l).zip l

/-! ### concatenation offsets -/

/-- where piece `i` is placed: the running `current_total_time` before piece `i`, together with
the running `cat_seq.total_time` (the `MergeFrom` rule: a zero `total_time` does not overwrite) -/
def catOffsets (R : Rat → Rat) (useD : Bool) : Rat → Rat → List (MSeq × Rat) → List Rat
  | _, _, [] => []
  | cur, tot, (s, d) :: rest =>
    let st := if 0 < cur then R (s.ns.totalTime + cur) else s.ns.totalTime
    let tot' := if st ≠ 0 then st else tot
    cur :: catOffsets R useD (if useD then R (cur + d) else tot') tot' rest

/-- piece `s` as it is merged at offset `o` -/
def placed (R : Rat → Rat) (o : Rat) (s : MSeq) : MSeq :=
  if 0 < o then { s with ns := shiftSeq R o s.ns } else s

def placedList (R : Rat → Rat) (pairs : List (MSeq × Rat)) (offs : List Rat) : List MSeq :=
  (pairs.zip offs).map (fun po => placed R po.2 po.1.1)

/-- exact prefix sums `[0, d₀, d₀+d₁, …]` (as many as there are `ds`) -/
def prefixSums : Rat → List Rat → List Rat
  | _, [] => []
  | acc, d :: ds => acc :: prefixSums (acc + d) ds

/-- a piece raises at offset `o`: explicit duration too short, or a quantized piece that has to be shifted -/
def pieceProblem (useD : Bool) (p : MSeq × Rat) (o : Rat) : Prop :=
  (useD = true ∧ p.2 < p.1.ns.totalTime) ∨ (0 < o ∧ p.1.ns.isQuantized = true)

/-- protobuf scalar merge over a list of sources: the last non-default value wins -/
def lastNZ {α} [DecidableEq α] [OfNat α 0] (init : α) (l : List α) : α :=
  l.foldl (fun acc x => if x ≠ 0 then x else acc) init

/-! ### time maps -/

/-- what `adjust_notesequence_times` does with one note: `none` = skipped -/
def adjEnd (f R : Rat → Rat) (md : Rat) (n : Note) : Rat :=
  if f n.start = f n.end_ then R (f n.end_ + md) else f n.end_

def adjImage (f R : Rat → Rat) (md : Rat) (n : Note) : Note :=
  { n with start := f n.start, end_ := adjEnd f R md n }

def adjNote (f R : Rat → Rat) (md : Rat) (n : Note) : Option Note :=
  if f n.start = f n.end_ ∧ md = 0 then none else some (adjImage f R md n)

/-- running `total_time` of the note loop: the largest kept end, starting from `tot` -/
def maxEnd (tot : Rat) (l : List Note) : Rat := l.foldl (fun acc n => if acc < n.end_ then n.end_ else acc) tot

/-- a note that is kept but makes the call raise -/
def adjBad (f R : Rat → Rat) (md : Rat) (n : Note) : Prop :=
  ∃ m, adjNote f R md n = some m ∧ (m.end_ < m.start ∨ m.start < 0 ∨ m.end_ < 0)

def lastY : Rat × Rat → List (Rat × Rat) → Rat
  | p, [] => p.2
  | _, q :: rest => lastY q rest

/-- knots with strictly increasing abscissae -/
def XInc : Rat × Rat → List (Rat × Rat) → Prop
  | _, [] => True
  | p, q :: rest => p.1 < q.1 ∧ XInc q rest

/-- knots with strictly increasing abscissae and non-decreasing ordinates -/
def KnotsOK : Rat × Rat → List (Rat × Rat) → Prop
  | _, [] => True
  | p, q :: rest => p.1 < q.1 ∧ p.2 ≤ q.2 ∧ KnotsOK q rest

end NSV.C13

namespace NSV.C13

/-- the event times `adjust_notesequence_times` must map (every container except tempos, which it deletes) -/
def adjustedTimes (s : NoteSeq) : List Rat :=
  s.ccs.map (·.time) ++ s.bends.map (·.time) ++ s.timeSigs.map (·.time) ++ s.keySigs.map (·.time) ++
    s.texts.map (·.time) ++ s.sectionAnns.map (·.time)

/-- the result of `adjust_notesequence_times`, written out -/
def adjusted (f R : Rat → Rat) (md : Rat) (s : NoteSeq) : NoteSeq :=
  { s with
    notes := s.notes.filterMap (adjNote f R md)
    totalTime := maxEnd 0 (s.notes.filterMap (adjNote f R md))
    tempos := []
    timeSigs := s.timeSigs.map (fun e => { e with time := f e.time })
    keySigs := s.keySigs.map (fun e => { e with time := f e.time })
    texts := s.texts.map (fun e => { e with time := f e.time })
    ccs := s.ccs.map (fun e => { e with time := f e.time })
    bends := s.bends.map (fun e => { e with time := f e.time })
    sectionAnns := s.sectionAnns.map (fun e => { e with time := f e.time }) }

/-- the padded, de-duplicated beat list of `rectify_beats` and its regular image -/
def beatKnots (R : Rat → Rat) (bpm : Rat) (s : NoteSeq) : List (Rat × Rat) :=
  let uniq := uniqBeats ([0] ++ sortByRat id (beatTimes s) ++ [s.totalTime])
  uniq.zip (rectTimes R (R (60 / bpm)) uniq.length)

/-- the pieces of a concatenation as they are merged (offsets from the running total / durations) -/
def catPairs (seqs : List MSeq) (durs : List Rat) : List (MSeq × Rat) :=
  if !durs.isEmpty then seqs.zip durs else seqs.map (fun s => (s, (0 : Rat)))

def catOffs (R : Rat → Rat) (seqs : List MSeq) (durs : List Rat) : List Rat :=
  catOffsets R (!durs.isEmpty) 0 0 (catPairs seqs durs)

def catPieces (R : Rat → Rat) (seqs : List MSeq) (durs : List Rat) : List MSeq :=
  placedList R (catPairs seqs durs) (catOffs R seqs durs)

end NSV.C13
