import NoteSeqVerif.Common.Wire
import NoteSeqVerif.Common.Float
import NoteSeqVerif.Generated.C18
/-! C18 — frame pianorolls (`sequences_lib.py`: sequence_to_pianoroll, pianoroll_to_note_sequence,
pianoroll_onsets_to_note_sequence, _unscale_velocity).

Every Python float is its exact rational value.  `R` is the rounding applied after each float64
operation (driver: `rne53`, exact-arithmetic theorems: `id`), `R32` the rounding of a store into a
numpy float32 array (driver: `rne24`).  Rolls are `List (List _)` (frames × pitches).  numpy basic
slicing (negative bounds count from the end, bounds clamp to the array) and the broadcasting rule
of a list assigned to a slice are transcribed in `normIdx` / `sliceLen` (third-party semantics). -/
namespace NSV.C18

inductive Err where
  | valueError | indexError | zeroDivisionError
  | shape   -- input matrices not rectangular / not of one shape: outside the modelled domain
deriving Repr, DecidableEq

def Err.name : Err → String
  | .valueError => "ValueError"
  | .indexError => "IndexError"
  | .zeroDivisionError => "ZeroDivisionError"
  | .shape => "Shape"

structure PNote where
  pitch : Int
  velocity : Int
  start : Rat
  end_ : Rat
deriving Repr, DecidableEq

structure PCC where
  time : Rat
  number : Int
  value : Int
deriving Repr, DecidableEq

/-! ### float helpers (exact operations: no rounding) -/
def rabs (x : Rat) : Rat := if x < 0 then -x else x
/-- Python `max(a, b)` -/
def rmax (a b : Rat) : Rat := if a < b then b else a
/-- Python `min(a, b)` -/
def rmin (a b : Rat) : Rat := if b < a then b else a

/-- Python `round(x)` on a float: nearest integer, ties to even -/
def roundHalfEven (x : Rat) : Int :=
  let f := x.floor
  let d := x - (f : Rat)
  if d < 1 / 2 then f else if 1 / 2 < d then f + 1 else if f % 2 = 0 then f else f + 1

/-- `time_to_frames`: `time * fps`, snapped to the nearest integer when within `eps·max(1,|x|)` -/
def timeToFrames (R : Rat → Rat) (eps fps t : Rat) : Rat :=
  let frames := R (t * fps)
  let nearest := roundHalfEven frames
  if rabs (R (frames - (nearest : Rat))) ≤ R (eps * rmax 1 (rabs frames)) then (nearest : Rat)
  else frames

/-- `frames_from_times` -/
def framesFromTimes (R : Rat → Rat) (eps fps occ s e : Rat) : Int × Int :=
  let sfs := timeToFrames R eps fps s
  let efs := timeToFrames R eps fps e
  let sf0 := truncR sfs
  let socc := R (((sf0 + 1 : Int) : Rat) - sfs)
  let sf := if 0 < occ ∧ socc < occ then sf0 + 1 else sf0
  let ef0 := efs.ceil
  let eocc := R (R (efs - (sf : Rat)) - 1)
  let ef1 := if 0 < occ ∧ eocc < occ then ef0 - 1 else ef0
  (sf, max (sf + 1) ef1)

/-! ### numpy indexing -/
/-- a slice bound `i` on an axis of length `n` -/
def normIdx (n : Nat) (i : Int) : Nat :=
  if i < 0 then (i + (n : Int)).toNat else if (n : Int) < i then n else i.toNat

def inSlice (n : Nat) (a b : Int) (i : Nat) : Bool := normIdx n a ≤ i && i < normIdx n b
def sliceLen (n : Nat) (a b : Int) : Nat := normIdx n b - normIdx n a

/-- `m[a:b, col] = v` -/
def paint {α} (m : List (List α)) (a b : Int) (col : Nat) (v : α) : List (List α) :=
  let lo := normIdx m.length a
  let hi := normIdx m.length b
  m.mapIdx fun i row => if lo ≤ i ∧ i < hi then row.set col v else row

/-- `m[a:b, col] = [f 0, f 1, …]` (shapes already checked; a one-element list broadcasts) -/
def paintSeq {α} (m : List (List α)) (a b : Int) (col : Nat) (bcast : Bool) (f : Nat → α) :
    List (List α) :=
  let lo := normIdx m.length a
  let hi := normIdx m.length b
  m.mapIdx fun i row =>
    if lo ≤ i ∧ i < hi then row.set col (f (if bcast then 0 else i - lo)) else row

/-- `m[r, col] = v` for an in-range row `r` -/
def setCell {α} (m : List (List α)) (r col : Nat) (v : α) : List (List α) :=
  m.mapIdx fun i row => if i = r then row.set col v else row

/-- an integer (non-slice) index: `none` = IndexError -/
def intIdx (n : Nat) (i : Int) : Option Nat :=
  if 0 ≤ i then (if i < (n : Int) then some i.toNat else none)
  else if 0 ≤ i + (n : Int) then some (i + (n : Int)).toNat else none

/-! ### sequence_to_pianoroll -/
structure Cfg where
  fps : Rat
  minPitch : Int
  maxPitch : Int
  maxVelocity : Int
  blank : Bool          -- add_blank_frame_before_onset
  upweight : Rat        -- onset_upweight
  window : Int          -- onset_window
  onsetLenMs : Rat
  offsetLenMs : Rat
  mode : Nat            -- 0 = 'window', 1 = 'length_ms', anything else = unknown mode
  delayMs : Rat
  occ : Rat             -- min_frame_occupancy_for_label
  overlap : Bool        -- onset_overlap
deriving Repr

structure Rolls where
  active : List (List Rat)
  weights : List (List Rat)
  onsets : List (List Rat)
  offsets : List (List Rat)
  vels : List (List Rat)
deriving Repr

/-- all frame indices of one note -/
structure NF where
  sf : Int
  ef : Int
  os : Int
  oe : Int
  fs : Int
  fe : Int
deriving Repr, DecidableEq

def noteFrames (R : Rat → Rat) (eps : Rat) (c : Cfg) (total : Rat) (n : Nat) (nt : PNote) :
    Except Err NF :=
  let fft := framesFromTimes R eps c.fps c.occ
  let se := fft nt.start nt.end_
  let ost := R (nt.start + R (c.delayMs / 1000))
  let oet := R (nt.end_ + R (c.delayMs / 1000))
  let ons : Except Err (Int × Int) :=
    if c.mode = 0 then
      let f := (fft ost oet).1
      .ok (max 0 (f - c.window), min (n : Int) (f + c.window + 1))
    else if c.mode = 1 then
      .ok (fft ost (rmin oet (R (ost + R (c.onsetLenMs / 1000)))))
    else .error .valueError
  match ons with
  | .error e => .error e
  | .ok (os0, oe0) =>
    let os := max 0 os0
    let oe := max 0 oe0
    let offst := rmin nt.end_ (R (total - R (c.offsetLenMs / 1000)))
    let offet := R (offst + R (c.offsetLenMs / 1000))
    let off := fft offst offet
    let fe := max off.2 (off.1 + 1)
    let sf := if c.overlap then se.1 else oe
    let ef := if c.overlap then se.2 else max (oe + 1) se.2
    .ok { sf := sf, ef := ef, os := os, oe := oe, fs := off.1, fe := fe }

/-- the body of the note loop after the frame arithmetic -/
def paintNote (R R32 : Rat → Rat) (c : Cfg) (n : Nat) (st : Rolls) (nt : PNote) (col : Nat) (f : NF) :
    Except Err Rolls :=
  let offsets := paint st.offsets f.fs f.fe col 1
  let onsets := paint st.onsets f.os f.oe col 1
  let active := paint st.active f.sf f.ef col 1
  if nt.velocity > c.maxVelocity then .error .valueError
  else if c.maxVelocity = 0 then .error .zeroDivisionError
  else
    let vels := paint st.vels f.sf f.ef col (R32 (R ((nt.velocity : Rat) / (c.maxVelocity : Rat))))
    let w1 := paint st.weights f.os f.oe col (R32 c.upweight)
    let we := min f.ef (n : Int)            -- weights_end_frame = min(end_frame, roll_weights.shape[0])
    let len := (we - f.oe).toNat            -- len(range(1, weights_end_frame - onset_end_frame + 1))
    -- numpy: a list assigned to a slice must have the slice's length or length 1 (`paintNote_no_error`:
    -- this can only fail for `end_frame < 0`, i.e. for notes before time 0)
    if len ≠ sliceLen n f.oe we ∧ len ≠ 1 then .error .valueError
    else
      let w2 := paintSeq w1 f.oe we col (len == 1) fun j => R32 (R (c.upweight / ((j + 1 : Nat) : Rat)))
      -- `if 0 < start_frame <= roll.shape[0]:` — the integer index `start_frame - 1` is in range
      if c.blank ∧ 0 < f.sf ∧ f.sf ≤ (n : Int) then
        let r := (f.sf - 1).toNat
        .ok { active := setCell active r col 0, weights := setCell w2 r col 1, onsets := onsets,
              offsets := offsets, vels := vels }
      else .ok { active := active, weights := w2, onsets := onsets, offsets := offsets, vels := vels }

def encNote (R R32 : Rat → Rat) (eps : Rat) (c : Cfg) (total : Rat) (n : Nat) (st : Rolls) (nt : PNote) :
    Except Err Rolls :=
  if nt.pitch < c.minPitch ∨ nt.pitch > c.maxPitch then .ok st
  else
    match noteFrames R eps c total n nt with
    | .error e => .error e
    | .ok f => paintNote R R32 c n st nt (nt.pitch - c.minPitch).toNat f

def encNotes (R R32 : Rat → Rat) (eps : Rat) (c : Cfg) (total : Rat) (n : Nat) :
    Rolls → List PNote → Except Err Rolls
  | st, [] => .ok st
  | st, nt :: rest =>
    match encNote R R32 eps c total n st nt with
    | .error e => .error e
    | .ok st' => encNotes R R32 eps c total n st' rest

/-- the control-change loop body; `encode` feeds it `sorted(control_changes, key=time)` -/
def encCCs (R : Rat → Rat) (eps : Rat) (c : Cfg) (n : Nat) :
    List (List Int) → List PCC → Except Err (List (List Int))
  | m, [] => .ok m
  | m, cc :: rest =>
    let frame := (framesFromTimes R eps c.fps c.occ cc.time 0).1
    if frame < (n : Int) then
      match intIdx n frame, intIdx 128 cc.number with
      | some r, some k => encCCs R eps c n (setCell m r k (cc.value + 1)) rest
      | _, _ => .error .indexError
    else encCCs R eps c n m rest

/-- stable insertion sort by a rational key (Python `sorted(key=…)`): `a` goes before the first
element whose key is not smaller, so equal keys keep their storage order.  (Structural recursion,
so concrete instances reduce in the kernel; same result as core `List.mergeSort`.) -/
def insertBy {α} (key : α → Rat) (a : α) : List α → List α
  | [] => [a]
  | b :: l => if key a ≤ key b then a :: b :: l else b :: insertBy key a l

def sortBy {α} (key : α → Rat) : List α → List α
  | [] => []
  | a :: l => insertBy key a (sortBy key l)

/-- `sorted(sequence.notes, key=lambda n: n.start_time)` -/
def sortByStart (l : List PNote) : List PNote := sortBy (·.start) l
/-- `sorted(sequence.control_changes, key=lambda cc: cc.time)` -/
def sortCCs (l : List PCC) : List PCC := sortBy (·.time) l

structure Pianoroll where
  active : List (List Rat)
  weights : List (List Rat)
  onsets : List (List Rat)
  onsetVelocities : List (List Rat)
  activeVelocities : List (List Rat)
  offsets : List (List Rat)
  controlChanges : List (List Int)
deriving Repr

/-- `np.zeros` / `np.ones_like` -/
def initRolls (n w : Nat) : Rolls :=
  let zero : List (List Rat) := List.replicate n (List.replicate w 0)
  { active := zero, weights := List.replicate n (List.replicate w 1),
    onsets := zero, offsets := zero, vels := zero }

def numRows (R : Rat → Rat) (fps total : Rat) : Int := truncR (R (R (total * fps) + 1))

def encode (R R32 : Rat → Rat) (eps : Rat) (c : Cfg) (total : Rat) (notes : List PNote)
    (ccs : List PCC) : Except Err Pianoroll :=
  let rowsI := numRows R c.fps total
  let colsI := c.maxPitch - c.minPitch + 1
  if rowsI < 0 ∨ colsI < 0 then .error .valueError
  else
    let n := rowsI.toNat
    let w := colsI.toNat
    match encNotes R R32 eps c total n (initRolls n w) (sortByStart notes) with
    | .error e => .error e
    | .ok st =>
      match encCCs R eps c n (List.replicate n (List.replicate 128 0)) (sortCCs ccs) with
      | .error e => .error e
      | .ok cc =>
        .ok { active := st.active, weights := st.weights, onsets := st.onsets,
              onsetVelocities := List.zipWith (List.zipWith fun v o => R32 (v * o)) st.vels st.onsets,
              activeVelocities := st.vels, offsets := st.offsets, controlChanges := cc }

/-! ### pianoroll_to_note_sequence -/
/-- `_unscale_velocity` (NaN is outside the model); `Rv` = arithmetic of the velocity array's dtype -/
def unscale (Rv : Rat → Rat) (scale bias v : Rat) : Int :=
  truncR (Rv (Rv (rmax (rmin v 1) 0 * scale) + bias))

structure CellIn where
  active : Bool
  on : Bool
  prevOn : Bool
  vel : Option Rat
deriving Repr, DecidableEq

/-- a note handed to `sequence.notes.add()`: pitch index, start frame, end frame, velocity -/
structure Emit where
  pitch : Nat
  s : Nat
  e : Nat
  vel : Int
deriving Repr, DecidableEq

structure DParams where
  hasOn : Bool                 -- onset_predictions is not None
  hasVel : Bool                -- velocity_values is not None
  keep : Nat → Nat → Bool      -- the min_duration_ms test of end_pitch
  unscale : Rat → Int

abbrev Cell := Option Nat × Int     -- pitch_start_step.get(pitch), onset_velocities[pitch]

/-- start a note at frame `i`; the flag is "IndexError" (onset_velocities has 128 entries;
velocity_values has no row for the appended frame) -/
def startCell (P : DParams) (i p : Nat) (velOld : Int) (c : CellIn) : Cell × Bool :=
  if P.hasVel then
    match c.vel with
    | some v => ((some i, P.unscale v), decide (Gen.VEL_SLOTS ≤ p))
    | none => ((some i, velOld), true)
  else ((some i, velOld), false)

/-- `end_pitch` -/
def endEmit (P : DParams) (p s e : Nat) (vel : Int) : Option Emit × Bool :=
  if P.keep s e then (some ⟨p, s, e, vel⟩, decide (Gen.VEL_SLOTS ≤ p)) else (none, false)

/-- one iteration of the inner loop (`process_active_pitch` / `end_pitch`) -/
def cellStep (P : DParams) (i p : Nat) (st : Cell) (c : CellIn) : Cell × Option Emit × Bool :=
  if c.active then
    match st.1 with
    | none =>
      if P.hasOn then
        if c.on then
          let r := startCell P i p st.2 c
          (r.1, none, r.2)
        else (st, none, false)
      else ((some i, st.2), none, false)
    | some s =>
      if P.hasOn && c.on && !c.prevOn then
        let em := endEmit P p s i st.2
        let r := startCell P i p st.2 c
        (r.1, em.1, em.2 || r.2)
      else (st, none, false)
  else
    match st.1 with
    | some s =>
      let em := endEmit P p s i st.2
      ((none, st.2), em.1, em.2)
    | none => (st, none, false)

/-- one frame: all pitches in order, starting at pitch index `p` -/
def frameStep (P : DParams) (i : Nat) : Nat → List Cell → List CellIn → List Cell × List Emit × Bool
  | p, st :: sts, c :: cs =>
    let r := cellStep P i p st c
    let rest := frameStep P i (p + 1) sts cs
    (r.1 :: rest.1, (match r.2.1 with | some e => e :: rest.2.1 | none => rest.2.1), r.2.2 || rest.2.2)
  | _, _, _ => ([], [], false)

/-- the frame loop, starting at frame `i` -/
def scan (P : DParams) : Nat → List Cell → List (List CellIn) → List Emit × Bool
  | _, _, [] => ([], false)
  | i, st, row :: rows =>
    let r := frameStep P i 0 st row
    let rest := scan P (i + 1) r.1 rows
    (r.2.1 ++ rest.1, r.2.2 || rest.2)

def isRect {α} (m : List (List α)) (rows cols : Nat) : Bool :=
  m.length == rows && m.all (fun r => r.length == cols)

/-- matrix lookup; an index past the end reads `none` -/
def toMat {α} (m : List (List α)) : Array (Array α) := (m.map List.toArray).toArray
def getM {α} (m : Array (Array α)) (i p : Nat) : Option α := (m[i]?).bind (·[p]?)
/-- boolean lookup: `false` past the end, which is what the appended silent frame reads as -/
def getB (m : Option (Array (Array Bool))) (i p : Nat) : Bool :=
  match m with
  | some a => (getM a i p).getD false
  | none => false

/-- velocity lookup: `none` without `velocity_values` and past the end (numpy would raise) -/
def getV (m : Option (Array (Array Rat))) (i p : Nat) : Option Rat :=
  match m with
  | some a => getM a i p
  | none => none

/-- cell `(i, p)` of the arrays after the preprocessing block.  `F`, `O`, `X` read the frame / onset /
offset arrays with one silent frame appended (row `n` reads `false`); onsets are or-ed into the
frames, then frames with a predicted offset are cleared; `onset_predictions[i - 1]` at `i = 0` is
numpy's row `-1`, the appended silent row. -/
def mkCell (F O X : Nat → Nat → Bool) (V : Nat → Nat → Option Rat) (i p : Nat) : CellIn :=
  let a0 := F i p || O i p
  { active := a0 && !(a0 && X i p), on := O i p,
    prevOn := if i = 0 then false else O (i - 1) p, vel := V i p }

def prepareWith (F O X : Nat → Nat → Bool) (V : Nat → Nat → Option Rat) (n w : Nat) :
    List (List CellIn) :=
  (List.range (n + 1)).map fun i => (List.range w).map fun p => mkCell F O X V i p

def prepare (frames : List (List Bool)) (ons offs : Option (List (List Bool)))
    (vels : Option (List (List Rat))) (w : Nat) : List (List CellIn) :=
  let fa := some (toMat frames)
  let oa := ons.map toMat
  let xa := offs.map toMat
  let va := vels.map toMat
  prepareWith (getB fa) (getB oa) (getB xa) (getV va) frames.length w

structure DCfg where
  fps : Rat
  minDurMs : Rat
  velocity : Int
  minMidiPitch : Int
  scale : Rat
  bias : Rat
deriving Repr

structure ONote where
  pitch : Int
  velocity : Int
  start : Rat
  end_ : Rat
deriving Repr, DecidableEq

def keepR (R : Rat → Rat) (fls minDur : Rat) (s e : Nat) : Bool :=
  decide (minDur ≤ R (R (R ((e : Rat) * fls) - R ((s : Rat) * fls)) * 1000))

def dparams (R Rv : Rat → Rat) (d : DCfg) (hasOn hasVel : Bool) : DParams :=
  { hasOn := hasOn, hasVel := hasVel, keep := keepR R (R (1 / d.fps)) d.minDurMs,
    unscale := unscale Rv d.scale d.bias }

def emitNote (R : Rat → Rat) (fls : Rat) (minMidiPitch : Int) (e : Emit) : ONote :=
  { pitch := (e.pitch : Int) + minMidiPitch, velocity := e.vel,
    start := R ((e.s : Rat) * fls), end_ := R ((e.e : Rat) * fls) }

/-- all given matrices are `n × w` (the modelled domain; numpy broadcasting of other shapes is not) -/
def shapesOk (frames : List (List Bool)) (ons offs : Option (List (List Bool)))
    (vels : Option (List (List Rat))) (n w : Nat) : Bool :=
  isRect frames n w
    && (match ons with | some o => isRect o n w | none => true)
    && (match offs with | some o => isRect o n w | none => true)
    && (match vels with | some v => isRect v n w | none => true)

/-- the loop of `pianoroll_to_note_sequence` on `w` pitch columns -/
def decodeCore (R Rv : Rat → Rat) (d : DCfg) (frames : List (List Bool))
    (ons offs : Option (List (List Bool))) (vels : Option (List (List Rat))) (w : Nat) :
    Except Err (List ONote × Rat) :=
  let fls := R (1 / d.fps)
  let P := dparams R Rv d ons.isSome (ons.isSome && vels.isSome)
  let r := scan P 0 (List.replicate w (none, d.velocity)) (prepare frames ons offs vels w)
  if r.2 then .error .indexError
  else .ok (r.1.map (emitNote R fls d.minMidiPitch), R (((frames.length + 1 : Nat) : Rat) * fls))

/-- `pianoroll_to_note_sequence`: the notes in the order they are added, and `total_time` -/
def decode (R Rv : Rat → Rat) (d : DCfg) (frames : List (List Bool))
    (ons offs : Option (List (List Bool))) (vels : Option (List (List Rat))) :
    Except Err (List ONote × Rat) :=
  if d.fps = 0 then .error .zeroDivisionError
  else match frames with
  | [] => .error .indexError
  | row0 :: _ =>
    if shapesOk frames ons offs vels frames.length row0.length then
      decodeCore R Rv d frames ons offs vels row0.length
    else .error .shape

/-! ### pianoroll_onsets_to_note_sequence -/
def onsetRow (R : Rat → Rat) (un : Rat → Int) (fls dur : Rat) (minMidiPitch : Int) (f : Nat) :
    Nat → List Bool → List Rat → List ONote
  | p, b :: bs, v :: vs =>
    let rest := onsetRow R un fls dur minMidiPitch f (p + 1) bs vs
    if b then
      let st := R ((f : Rat) * fls)
      { pitch := (p : Int) + minMidiPitch, velocity := un v, start := st, end_ := R (st + dur) } :: rest
    else rest
  | _, _, _ => []

def onsetRows (R : Rat → Rat) (un : Rat → Int) (fls dur : Rat) (minMidiPitch : Int) :
    Nat → List (List Bool) → List (List Rat) → List ONote
  | f, r :: rs, v :: vs =>
    onsetRow R un fls dur minMidiPitch f 0 r v ++ onsetRows R un fls dur minMidiPitch (f + 1) rs vs
  | _, _, _ => []

/-- `np.nonzero` enumerates row-major; `velocity_values=None` means a constant int32 array -/
def decodeOnsets (R Rv : Rat → Rat) (d : DCfg) (dur : Rat) (onsets : List (List Bool))
    (vels : Option (List (List Rat))) : Except Err (List ONote × Rat) :=
  if d.fps = 0 then .error .zeroDivisionError
  else
    let n := onsets.length
    let w := match onsets with | r :: _ => r.length | [] => 0
    let okShape := isRect onsets n w && (match vels with | some v => isRect v n w | none => true)
    if !okShape then .error .shape
    else
      let fls := R (1 / d.fps)
      let vl := match vels with
        | some v => v
        | none => onsets.map fun r => r.map fun _ => (d.velocity : Rat)
      .ok (onsetRows R (unscale Rv d.scale d.bias) fls dur d.minMidiPitch 0 onsets vl,
           R (R ((n : Rat) * fls) + dur))

/-! ### executable instances -/
def encodeF := encode rne53 rne24 Gen.SNAP_EPS
def decodeF (prec : Nat) := decode rne53 (rne prec)
def decodeOnsetsF (prec : Nat) := decodeOnsets rne53 (rne prec)

end NSV.C18
