import NoteSeqVerif.Generated.C08
/-! C08 — event-sequence encoder/decoders (hand-written executable model; core Lean only).

Transcription of `note_seq/encoder_decoder.py` (one-hot, one-hot-index, lookback, conditional,
`encode`, the generation loop), `KeyMelodyEncoderDecoder`, `NotePerformance…`, `ModuloPerformance…`
and `PianorollEncoderDecoder` as the code is now.  Conventions:

* Python ints are `Int`; positions, labels, distances, counter widths are all `Int`, so negative
  positions / zero or negative distances / out-of-range labels follow the Python (wrap-around
  indexing, `IndexError`) instead of being excluded from the model.
* `events[i]`, `input_[i] = v` are `pyIdx` / `pySet` (negative index counts from the end,
  `IndexError` outside `[-len, len)`).
* every function returns `Except String _`, the string being the Python exception class.
* input vectors are `List Int`: the code only ever writes `0.0`, `1.0`, `-1.0` (the cos/sin slots
  of the modulo encoding are symbolic cells, see `MCell`).
* the generic encoders are parametric in an abstract `OneHot ε` (the `OneHotEncoding` interface). -/
namespace NSV.C08
open Gen

/-! ### Python list primitives -/

/-- a Python index normalised: negative indices count from the end -/
def normIdx (len : Nat) (i : Int) : Int := if i < 0 then i + len else i

/-- Python `l[i]` -/
def pyIdx {α : Type} (l : List α) (i : Int) : Except String α :=
  if 0 ≤ normIdx l.length i then
    match l[(normIdx l.length i).toNat]? with
    | some a => .ok a
    | none => .error "IndexError"
  else .error "IndexError"

/-- Python `l[i] = v` -/
def pySet {α : Type} (l : List α) (i : Int) (v : α) : Except String (List α) :=
  if 0 ≤ normIdx l.length i ∧ normIdx l.length i < l.length then .ok (l.set (normIdx l.length i).toNat v)
  else .error "IndexError"

/-- Python `l[:k]` -/
def pySliceTo {α : Type} (l : List α) (k : Int) : List α := l.take (normIdx l.length k).toNat

/-- `if cond: l[i] = v` -/
def setIf {α : Type} (cond : Bool) (l : List α) (i : Int) (v : α) : Except String (List α) :=
  if cond then pySet l i v else .ok l

/-- `[0.0] * n` (empty for `n ≤ 0`) -/
def zeros (n : Int) : List Int := List.replicate n.toNat 0

/-- a `for` loop collecting results, stopping at the first exception -/
def mapE {α β : Type} (f : α → Except String β) : List α → Except String (List β)
  | [] => .ok []
  | a :: as =>
    match f a with
    | .error e => .error e
    | .ok b =>
      match mapE f as with
      | .error e => .error e
      | .ok bs => .ok (b :: bs)

/-! ### the `OneHotEncoding` interface -/
structure OneHot (ε : Type) where
  numClasses : Int
  encode : ε → Except String Int
  decode : Int → Except String ε
  default : ε
  numSteps : ε → Int

/-- the generation loop (`extend_event_sequences`, `labels_to_num_steps`):
`events.append(class_index_to_event(label, events))` for every label in turn -/
def genLoop {ε κ : Type} (cite : κ → List ε → Except String ε) : List κ → List ε → Except String (List ε)
  | [], evs => .ok evs
  | l :: ls, evs =>
    match cite l evs with
    | .error e => .error e
    | .ok ev => genLoop cite ls (evs ++ [ev])

/-- `sum(event_to_num_steps(event) for event in events)` -/
def stepsOf {ε : Type} (oh : OneHot ε) (evs : List ε) : Int := (evs.map oh.numSteps).sum

/-- one iteration of `encode`: `inputs.append(events_to_input(events, i))` then
`labels.append(events_to_label(events, i + 1))` -/
def encodeStep {ε ι κ : Type} (toInput : List ε → Int → Except String ι)
    (toLabel : List ε → Int → Except String κ) (evs : List ε) (i : Nat) : Except String (ι × κ) :=
  match toInput evs i with
  | .error e => .error e
  | .ok a =>
    match toLabel evs ((i : Int) + 1) with
    | .error e => .error e
    | .ok b => .ok (a, b)

/-- `EventSequenceEncoderDecoder.encode`: for `i in range(len(events) - 1)` the input at `i`, then the
label at `i + 1`; returns `(inputs, labels)` -/
def encodeG {ε ι κ : Type} (toInput : List ε → Int → Except String ι)
    (toLabel : List ε → Int → Except String κ) (evs : List ε) : Except String (List ι × List κ) :=
  (mapE (encodeStep toInput toLabel evs) (List.range (evs.length - 1))).map List.unzip

/-! ### OneHotEventSequenceEncoderDecoder / OneHotIndexEventSequenceEncoderDecoder -/
section OneHotSeq
variable {ε : Type}

def ohInputSize (oh : OneHot ε) : Int := oh.numClasses
def ohNumClasses (oh : OneHot ε) : Int := oh.numClasses
def ohDefaultLabel (oh : OneHot ε) : Except String Int := oh.encode oh.default

def ohEventsToInput (oh : OneHot ε) (evs : List ε) (pos : Int) : Except String (List Int) := do
  let input := zeros (ohInputSize oh)
  let e ← pyIdx evs pos
  let index ← oh.encode e
  pySet input index 1

def ohEventsToLabel (oh : OneHot ε) (evs : List ε) (pos : Int) : Except String Int := do
  let e ← pyIdx evs pos
  oh.encode e

def ohClassIndexToEvent (oh : OneHot ε) (ci : Int) (_evs : List ε) : Except String ε := oh.decode ci

def ohLabelsToNumSteps (oh : OneHot ε) (labels : List Int) : Except String Int :=
  (genLoop (ohClassIndexToEvent oh) labels []).map (stepsOf oh)

/-- `OneHotIndex…`: `input_size = 1`, the input is `[encode_event(events[position])]` -/
def ohiInputSize (_oh : OneHot ε) : Int := 1
def ohiEventsToInput (oh : OneHot ε) (evs : List ε) (pos : Int) : Except String (List Int) := do
  let e ← pyIdx evs pos
  let index ← oh.encode e
  pure [index]

end OneHotSeq

/-! ### LookbackEventSequenceEncoderDecoder -/
structure LookbackCfg where
  dists : List Int
  bits : Int
deriving Repr

section Lookback
variable {ε : Type} [DecidableEq ε]

def lbInputSize (oh : OneHot ε) (c : LookbackCfg) : Int :=
  oh.numClasses + c.dists.length * oh.numClasses + c.bits + c.dists.length

def lbNumClasses (oh : OneHot ε) (c : LookbackCfg) : Int := oh.numClasses + c.dists.length

def lbDefaultLabel (oh : OneHot ε) : Except String Int := oh.encode oh.default

/-- `event = default_event if lookback_position < 0 else events[lookback_position]` with
`lookback_position = position - lookback_distance + 1` -/
def nextEvent (oh : OneHot ε) (evs : List ε) (pos d : Int) : Except String ε :=
  if pos - d + 1 < 0 then .ok oh.default else pyIdx evs (pos - d + 1)

/-- "Next event if repeating N positions ago": state = (`input_`, `offset`) -/
def lbNextLoop (oh : OneHot ε) (evs : List ε) (pos : Int) :
    List Int → List Int × Int → Except String (List Int × Int)
  | [], st => .ok st
  | d :: ds, (input, offset) => do
    let event ← nextEvent oh evs pos d
    let index ← oh.encode event
    let input ← pySet input (offset + index) 1
    lbNextLoop oh evs pos ds (input, offset + oh.numClasses)

/-- the value written by the binary counter: `1.0 if (n // 2 ** i) % 2 else -1.0` -/
def counterBit (n : Int) (i : Nat) : Int := if (n.fdiv (2 ^ i)).fmod 2 ≠ 0 then 1 else -1

def counterLoop (n : Int) : List Nat → List Int × Int → Except String (List Int × Int)
  | [], st => .ok st
  | i :: is, (input, offset) => do
    let input ← pySet input offset (counterBit n i)
    counterLoop n is (input, offset + 1)

/-- `lookback_position >= 0 and events[position] == events[lookback_position]` -/
def repeats (evs : List ε) (pos d : Int) : Except String Bool :=
  if pos - d ≥ 0 then do
    let a ← pyIdx evs pos
    let b ← pyIdx evs (pos - d)
    pure (decide (a = b))
  else pure false

/-- "Last event is repeating N bars ago" flags -/
def repeatLoop (evs : List ε) (pos : Int) : List Int → List Int × Int → Except String (List Int × Int)
  | [], st => .ok st
  | d :: ds, (input, offset) => do
    let hit ← repeats evs pos d
    let input ← setIf hit input offset 1
    repeatLoop evs pos ds (input, offset + 1)

def lbEventsToInput (oh : OneHot ε) (c : LookbackCfg) (evs : List ε) (pos : Int) :
    Except String (List Int) := do
  let input := zeros (lbInputSize oh c)
  let e ← pyIdx evs pos
  let index ← oh.encode e
  let input ← pySet input index 1
  let st ← lbNextLoop oh evs pos c.dists (input, oh.numClasses)
  let st ← counterLoop (pos + 1) (List.range c.bits.toNat) st
  let st ← repeatLoop evs pos c.dists st
  if st.2 = lbInputSize oh c then pure st.1 else .error "AssertionError"

/-- the leading test of `events_to_label`: `dists and position < dists[-1] and events[position] == default` -/
def virtualRepeat (dflt : ε) (dists : List Int) (evs : List ε) (pos : Int) : Except String Bool :=
  match dists.getLast? with
  | none => pure false
  | some dl =>
    if pos < dl then do
      let e ← pyIdx evs pos
      pure (decide (e = dflt))
    else pure false

/-- `for i, d in reversed(list(enumerate(dists)))`: the list argument is `dists.zipIdx.reverse`;
`base` is the label of lookback 0, `plain` what happens when no lookback matches -/
def labelLoop (base : Int) (plain : Except String Int) (evs : List ε) (pos : Int) :
    List (Int × Nat) → Except String Int
  | [] => plain
  | (d, i) :: rest => do
    let hit ← repeats evs pos d
    if hit then pure (base + i) else labelLoop base plain evs pos rest

def lbEventsToLabel (oh : OneHot ε) (c : LookbackCfg) (evs : List ε) (pos : Int) : Except String Int := do
  let virt ← virtualRepeat oh.default c.dists evs pos
  if virt then pure (oh.numClasses + c.dists.length - 1)
  else labelLoop oh.numClasses (ohEventsToLabel oh evs pos) evs pos c.dists.zipIdx.reverse

/-- the lookback part of `class_index_to_event` -/
def citeLoop (base : Int) (dflt : ε) (plain : Except String ε) (ci : Int) (evs : List ε) :
    List (Int × Nat) → Except String ε
  | [] => plain
  | (d, i) :: rest =>
    if ci = base + i then
      (if (evs.length : Int) < d then .ok dflt else pyIdx evs (-d))
    else citeLoop base dflt plain ci evs rest

def lbClassIndexToEvent (oh : OneHot ε) (c : LookbackCfg) (ci : Int) (evs : List ε) : Except String ε :=
  citeLoop oh.numClasses oh.default (oh.decode ci) ci evs c.dists.zipIdx.reverse

def lbLabelsToNumSteps (oh : OneHot ε) (c : LookbackCfg) (labels : List Int) : Except String Int :=
  (genLoop (lbClassIndexToEvent oh c) labels []).map (stepsOf oh)

end Lookback

/-! ### ConditionalEventSequenceEncoderDecoder (control type `γ`, target type `ε`) -/
section Conditional
variable {γ ε κ ι : Type}

/-- `events_to_input` of the wrapper: the control input at `position + 1` (evaluated first) `+` the target input
at `position` (`ι` = the cell type of the two Python lists) -/
def condEventsToInput (cIn : List γ → Int → Except String (List ι))
    (tIn : List ε → Int → Except String (List ι)) (ctrl : List γ) (tgt : List ε) (pos : Int) :
    Except String (List ι) := do
  let a ← cIn ctrl (pos + 1)
  let b ← tIn tgt pos
  pure (a ++ b)

def condEncode (cIn : List γ → Int → Except String (List ι))
    (tIn : List ε → Int → Except String (List ι)) (tLab : List ε → Int → Except String κ)
    (ctrl : List γ) (tgt : List ε) : Except String (List (List ι) × List κ) :=
  if ctrl.length ≠ tgt.length then .error "ValueError"
  else encodeG (fun t i => condEventsToInput cIn tIn ctrl t i) tLab tgt

end Conditional

/-! ### KeyMelodyEncoderDecoder (events are melody events: `Int`) -/
structure KeyCfg where
  minNote : Int
  maxNote : Int
  dists : List Int
  bits : Int
deriving Repr

def KeyCfg.noteRange (c : KeyCfg) : Int := c.maxNote - c.minNote

def keyInputSize (c : KeyCfg) : Int :=
  c.noteRange + 2 + 1 + 1 + c.dists.length + c.bits + 1 + NOTES_PER_OCTAVE + NOTES_PER_OCTAVE

def keyNumClasses (c : KeyCfg) : Int := c.noteRange + NUM_SPECIAL_MELODY_EVENTS + c.dists.length

def keyDefaultLabel (c : KeyCfg) : Int := c.noteRange

def keyPlainLabel (c : KeyCfg) (evs : List Int) (pos : Int) : Except String Int := do
  let e ← pyIdx evs pos
  if e = MELODY_NOTE_OFF then pure (c.noteRange + 1)
  else if e = MELODY_NO_EVENT then pure c.noteRange
  else pure (e - c.minNote)

def keyEventsToLabel (c : KeyCfg) (evs : List Int) (pos : Int) : Except String Int := do
  let virt ← virtualRepeat MELODY_NO_EVENT c.dists evs pos
  if virt then pure (c.noteRange + c.dists.length + 1)
  else labelLoop (c.noteRange + 2) (keyPlainLabel c evs pos) evs pos c.dists.zipIdx.reverse

def keyPlainEvent (c : KeyCfg) (ci : Int) : Int :=
  if ci = c.noteRange + 1 then MELODY_NOTE_OFF
  else if ci = c.noteRange then MELODY_NO_EVENT
  else c.minNote + ci

def keyClassIndexToEvent (c : KeyCfg) (ci : Int) (evs : List Int) : Except String Int :=
  citeLoop (c.noteRange + 2) MELODY_NO_EVENT (.ok (keyPlainEvent c ci)) ci evs c.dists.zipIdx.reverse

/-- base-class `labels_to_num_steps`: `len(labels)` -/
def keyLabelsToNumSteps (labels : List Int) : Int := labels.length

/-- `Melody(events)`: range check, then note-offs before the first note become no-events -/
def cleanLeading : List Int → List Int
  | [] => []
  | e :: es => if e = MELODY_NO_EVENT ∨ e = MELODY_NOTE_OFF then MELODY_NO_EVENT :: cleanLeading es else e :: es

def mkMelody (evs : List Int) : Except String (List Int) :=
  if evs.all (fun e => decide (MIN_MELODY_EVENT ≤ e ∧ e ≤ MAX_MELODY_EVENT)) then .ok (cleanLeading evs)
  else .error "ValueError"

structure ScanState where
  current : Option Int := none
  attack : Bool := false
  ascending : Option Bool := none
  last3 : List Int := []

/-- one iteration of `for note in sub_melody` -/
def scanStep (s : ScanState) (note : Int) : ScanState :=
  if note = MELODY_NO_EVENT then { s with attack := false }
  else if note = MELODY_NOTE_OFF then { s with current := none }
  else
    let asc := match s.last3.getLast? with
      | none => s.ascending
      | some l => if note > l then some true else if note < l then some false else s.ascending
    let l3 := s.last3.erase note ++ [note]
    { current := some note, attack := true, ascending := asc,
      last3 := if l3.length > 3 then l3.drop (l3.length - 3) else l3 }

/-- `get_major_key_histogram` (counts are small exact integers, so the order of the numpy additions
is immaterial; a key listed twice for a note is counted once, as numpy's `a[idx] += c` does) -/
def keyHistogram (mel : List Int) : List Int :=
  (List.range NOTES_PER_OCTAVE).map fun key =>
    ((List.range NOTES_PER_OCTAVE).map fun note =>
      if (NOTE_KEYS.getD note []).contains key then
        ((mel.filter fun e => decide (e ≥ MIN_MIDI_PITCH ∧ e.fmod NOTES_PER_OCTAVE = note)).length : Int)
      else 0).sum

def maxOf : List Int → Int
  | [] => 0
  | a :: as => as.foldl max a

/-- `for key_val in key_histogram: if key_val == max_val: input_[offset] = 1.0; offset += 1` -/
def histLoop (mx : Int) : List Int → List Int × Int → Except String (List Int × Int)
  | [], st => .ok st
  | v :: vs, (input, offset) => do
    let input ← setIf (decide (v = mx)) input offset 1
    histLoop mx vs (input, offset + 1)

/-- the current-note / silence cells; `if current_note:` is Python truthiness, so `None` and pitch 0 both
count as silence -/
def keyWriteNote (c : KeyCfg) (cur : Option Int) (input : List Int) (offset : Int) : Except String (List Int) :=
  match cur with
  | some n =>
    if n ≠ 0 then do
      let input ← pySet input (offset + n - c.minNote) 1
      pySet input (offset + c.noteRange) 1
    else pySet input (offset + c.noteRange + 1) 1
  | none => pySet input (offset + c.noteRange + 1) 1

/-- `if is_ascending is not None: input_[offset] = 1.0 if is_ascending else -1.0` -/
def keyWriteAsc (asc : Option Bool) (input : List Int) (offset : Int) : Except String (List Int) :=
  match asc with
  | some b => pySet input offset (if b then 1 else -1)
  | none => .ok input

def keyEventsToInput (c : KeyCfg) (evs : List Int) (pos : Int) : Except String (List Int) := do
  let sub ← mkMelody (pySliceTo evs (pos + 1))
  let s := sub.foldl scanStep {}
  let input ← keyWriteNote c s.current (zeros (keyInputSize c)) 0
  let offset : Int := 0 + (c.noteRange + 2)
  let input ← setIf s.attack input offset 1
  let offset := offset + 1
  let input ← keyWriteAsc s.ascending input offset
  let offset := offset + 1
  let st ← repeatLoop evs pos c.dists (input, offset)
  let st ← counterLoop sub.length (List.range c.bits.toNat) st
  let input ← setIf (decide ((sub.length : Int).fmod DEFAULT_STEPS_PER_BAR = 0)) st.1 st.2 1
  let offset := st.2 + 1
  let st ← histLoop (maxOf (keyHistogram sub)) (keyHistogram sub) (input, offset)
  let l3 ← mkMelody s.last3
  let st ← histLoop (maxOf (keyHistogram l3)) (keyHistogram l3) st
  if st.2 = keyInputSize c then pure st.1 else .error "AssertionError"

/-! ### PerformanceEvent validation (the attrs validator run by the constructor) -/
def perfEventOk (ty : Nat) (v : Int) : Bool :=
  if ty = NOTE_ON ∨ ty = NOTE_OFF then decide (MIN_MIDI_PITCH ≤ v ∧ v ≤ MAX_MIDI_PITCH)
  else if ty = TIME_SHIFT then decide (0 ≤ v)
  else if ty = DURATION then decide (1 ≤ v)
  else if ty = VELOCITY then decide (1 ≤ v ∧ v ≤ MAX_NUM_VELOCITY_BINS)
  else false

/-! ### NotePerformanceEventSequenceEncoderDecoder -/
structure NPCfg where
  bins : Int
  maxShift : Nat
  maxDur : Nat
  minPitch : Int
  maxPitch : Int
deriving Repr

/-- `min([(i, i + steps / i) for i in range(1, steps) if steps % i == 0], key = second)[0]`;
`steps / i` is an exact float because `i` divides `steps`; Python's `min` keeps the first minimum -/
def optimalNumSegments (steps : Nat) : Except String Nat :=
  match (List.range' 1 (steps - 1)).filter (fun i => steps % i = 0) with
  | [] => .error "ValueError"
  | c :: cs => .ok (cs.foldl (fun best i => if i + steps / i < best + steps / best then i else best) c)

/-- the constructed object -/
structure NPEnc where
  minPitch : Int
  shiftSeg : Int
  shiftPer : Int
  durSeg : Int
  durPer : Int
  numClasses : List Int
deriving Repr

def npInit (c : NPCfg) : Except String NPEnc :=
  match optimalNumSegments (c.maxShift + 1) with
  | .error e => .error e
  | .ok ss =>
    if ¬ ss > 1 then .error "AssertionError"
    else
      match optimalNumSegments c.maxDur with
      | .error e => .error e
      | .ok ds =>
        if ¬ ds > 1 then .error "AssertionError"
        else
          .ok { minPitch := c.minPitch, shiftSeg := ss, shiftPer := ((c.maxShift + 1) / ss : Nat),
                durSeg := ds, durPer := (c.maxDur / ds : Nat),
                numClasses := [(ss : Int), (((c.maxShift + 1) / ss : Nat) : Int), c.maxPitch - c.minPitch + 1, c.bins,
                               (ds : Int), ((c.maxDur / ds : Nat) : Int)] }

/-- an event is the 4-tuple (TIME_SHIFT, NOTE_ON, VELOCITY, DURATION); only the values vary -/
structure NPEvent where
  shift : Int
  pitch : Int
  vel : Int
  dur : Int
deriving Repr, DecidableEq

def npInputSize (e : NPEnc) : Int := e.numClasses.sum

/-- `_encode_event` (6 sub-labels) -/
def npEncodeEvent (e : NPEnc) (ev : NPEvent) : List Int :=
  [ev.shift.fdiv e.shiftPer, ev.shift.fmod e.shiftPer, ev.pitch - e.minPitch, ev.vel - 1,
   (ev.dur - 1).fdiv e.durPer, (ev.dur - 1).fmod e.durPer]

def npEventsToLabel (e : NPEnc) (evs : List NPEvent) (pos : Int) : Except String (List Int) := do
  let ev ← pyIdx evs pos
  pure (npEncodeEvent e ev)

def npOneHots : List Int → List Int → Except String (List Int)
  | n :: ns, k :: ks => do
    let oh ← pySet (zeros n) k 1
    let rest ← npOneHots ns ks
    pure (oh ++ rest)
  | _, _ => .ok []

def npEventsToInput (e : NPEnc) (evs : List NPEvent) (pos : Int) : Except String (List Int) := do
  let ev ← pyIdx evs pos
  npOneHots e.numClasses (npEncodeEvent e ev)

/-- `class_index_to_event` on a 6-tuple (other arities are outside the model: `.error "arity"`) -/
def npClassIndexToEvent (e : NPEnc) (ci : List Int) : Except String NPEvent :=
  match ci with
  | [a, b, p, v, dM, dm] =>
    let ev : NPEvent := ⟨a * e.shiftPer + b, p + e.minPitch, v + 1, (dM * e.durPer + dm) + 1⟩
    if perfEventOk TIME_SHIFT ev.shift ∧ perfEventOk NOTE_ON ev.pitch ∧ perfEventOk VELOCITY ev.vel
        ∧ perfEventOk DURATION ev.dur then .ok ev else .error "ValueError"
  | _ => .error "arity"

/-- `labels_to_num_steps`: every time shift plus the duration of the last event -/
def npStepsLoop (e : NPEnc) : List (List Int) → Int → Option NPEvent → Except String (Int × Option NPEvent)
  | [], steps, last => .ok (steps, last)
  | l :: ls, steps, _ =>
    match npClassIndexToEvent e l with
    | .error x => .error x
    | .ok ev => npStepsLoop e ls (steps + ev.shift) (some ev)

def npLabelsToNumSteps (e : NPEnc) (labels : List (List Int)) : Except String Int :=
  match npStepsLoop e labels 0 none with
  | .error x => .error x
  | .ok (steps, some ev) => .ok (steps + ev.dur)
  | .ok (steps, none) => .ok steps

/-! ### PianorollEncoderDecoder (an event is a tuple of pitches) -/
def prNumClasses (n : Nat) : Int := 2 ^ n

/-- `_event_to_label`: `label += 2 ** pitch` (negative pitches would give a float: outside the model) -/
def prEventToLabel (ev : List Nat) : Int := ev.foldl (fun acc p => acc + 2 ^ p) 0

/-- the decoding loop: `for i in range(input_size): if ci % 2: event.append(i); ci >>= 1` -/
def prDecodeLoop : Nat → Nat → Int → List Nat × Int
  | 0, _, ci => ([], ci)
  | k + 1, i, ci =>
    let (r, c) := prDecodeLoop k (i + 1) (ci.fdiv 2)
    (if ci.fmod 2 ≠ 0 then i :: r else r, c)

def prClassIndexToEvent (n : Nat) (ci : Int) : Except String (List Nat) :=
  if ¬ ci < prNumClasses n then .error "AssertionError"
  else
    let (ev, c) := prDecodeLoop n 0 ci
    if c = 0 then .ok ev else .error "AssertionError"

/-- `input_ = np.zeros(input_size); input_[list(event)] = 1` (numpy checks every index first) -/
def prEventToInput (n : Nat) (ev : List Int) : Except String (List Int) :=
  if ev.all (fun p => decide (-(n : Int) ≤ p ∧ p < n)) then
    .ok (ev.foldl (fun inp p => inp.set (if p < 0 then p + (n : Int) else p).toNat 1) (zeros n))
  else .error "IndexError"

def prEventsToLabel (evs : List (List Nat)) (pos : Int) : Except String Int := do
  let ev ← pyIdx evs pos
  pure (prEventToLabel ev)

def prEventsToInput (n : Nat) (evs : List (List Nat)) (pos : Int) : Except String (List Int) := do
  let ev ← pyIdx evs pos
  prEventToInput n (ev.map Int.ofNat)

/-! ### ModuloPerformanceEventSequenceEncoderDecoder
Labels go through the performance one-hot encoding (an `OneHot (Nat × Int)` supplied by the caller,
C09's `perfEncode`/`perfDecode`), i.e. `ohEventsToLabel` / `ohClassIndexToEvent` / `ohLabelsToNumSteps`.
Input: only the layout is modelled; a cos/sin slot is the symbolic cell `tab t k j` = entry `j` of
row `k` of lookup table `t` (0 note, 1 pitch class, 2 time shift, 3 velocity). -/
inductive MCell where
  | zero
  | one
  | tab (t k j : Nat)
deriving Repr, DecidableEq

structure ModCfg where
  bins : Int
  maxShift : Int
deriving Repr

/-- `(event_type, min_value, max_value, encoder_width)` -/
def modRanges (c : ModCfg) : List (Nat × Int × Int × Int) :=
  [(NOTE_ON, MIN_MIDI_PITCH, MAX_MIDI_PITCH, MODULO_PITCH_ENCODER_WIDTH),
   (NOTE_OFF, MIN_MIDI_PITCH, MAX_MIDI_PITCH, MODULO_PITCH_ENCODER_WIDTH),
   (TIME_SHIFT, 1, c.maxShift, MODULO_TIME_SHIFT_ENCODER_WIDTH)] ++
  (if c.bins > 0 then [(VELOCITY, 1, c.bins, MODULO_VELOCITY_ENCODER_WIDTH)] else [])

def modInputSize (c : ModCfg) : Int := ((modRanges c).map fun r => r.2.2.2).sum

/-- `encode_modulo_event`: `(offset, value)` -/
def modEncodeEvent : List (Nat × Int × Int × Int) → Int → Nat → Int → Except String (Int × Int)
  | [], _, _, _ => .error "ValueError"
  | (ty', lo, _, w) :: rs, off, ty, v =>
    if ty = ty' then .ok (off, v - lo) else modEncodeEvent rs (off + w) ty v

def modEmbed (t : Nat) (size : Int) (value : Int) : Except String (MCell × MCell) :=
  if value < 0 ∨ value ≥ size then .error "ValueError"
  else .ok (.tab t value.toNat 0, .tab t value.toNat 1)

def modEventsToInput (c : ModCfg) (evs : List (Nat × Int)) (pos : Int) : Except String (List MCell) := do
  let input := List.replicate (modInputSize c).toNat MCell.zero
  let ev ← pyIdx evs pos
  let (offset, value) ← modEncodeEvent (modRanges c) 0 ev.1 ev.2
  let input ← pySet input offset .one
  let offset := offset + 1
  if ev.1 = NOTE_ON ∨ ev.1 = NOTE_OFF then do
    let (a, b) ← modEmbed 0 144 value
    let input ← pySet input offset a
    let input ← pySet input (offset + 1) b
    let offset := offset + 2
    let (a, b) ← modEmbed 1 12 (value.fmod 12)
    let input ← pySet input offset a
    pySet input (offset + 1) b
  else do
    let (a, b) ← if ev.1 = TIME_SHIFT then modEmbed 2 c.maxShift value else modEmbed 3 c.bins value
    let input ← pySet input offset a
    pySet input (offset + 1) b

end NSV.C08
