import NoteSeqVerif.Common.Wire
import NoteSeqVerif.Common.Float
/-! The shared NoteSequence model: a plain structure of lists (core Lean only).
Every Python `float` is its exact rational value; all fields the sequence operations look at
are explicit, everything else (`id`, `filename`, `source_info`, `sequence_metadata`,
`part_infos`, `instrument_infos`, …) is the opaque `metaTag` token, which the harness derives
from the serialized bytes of those fields.  Texts travel hex-encoded (`x…`). -/
namespace NSV
open Wire

structure Note where
  pitch : Int
  velocity : Int
  start : Rat
  end_ : Rat
  qs : Int            -- quantized_start_step
  qe : Int            -- quantized_end_step
  instrument : Int
  program : Int
  isDrum : Bool
  numerator : Int
  denominator : Int
  voice : Int
  part : Int
  pitchName : Int
deriving Repr, DecidableEq, Inhabited

structure Tempo where
  time : Rat
  qpm : Rat
deriving Repr, DecidableEq, Inhabited

structure TimeSig where
  time : Rat
  num : Int
  den : Int
deriving Repr, DecidableEq, Inhabited

structure KeySig where
  time : Rat
  key : Int
  mode : Int
deriving Repr, DecidableEq, Inhabited

structure TextAnn where
  time : Rat
  qstep : Int
  kind : Int          -- annotation_type (1 = CHORD_SYMBOL, 2 = BEAT, …)
  text : String       -- hex-encoded on the wire, opaque to most operations
deriving Repr, DecidableEq, Inhabited

structure CC where
  time : Rat
  qstep : Int
  number : Int
  value : Int
  instrument : Int
  program : Int
  isDrum : Bool
deriving Repr, DecidableEq, Inhabited

structure Bend where
  time : Rat
  bend : Int
  instrument : Int
  program : Int
  isDrum : Bool
deriving Repr, DecidableEq, Inhabited

structure SectionAnn where
  time : Rat
  sectionId : Int
deriving Repr, DecidableEq, Inhabited

/-- section groups are carried as an opaque, already canonical token string unless an
operation needs their structure (then the property's own model parses `sgroups`). -/
structure NoteSeq where
  notes : List Note := []
  tempos : List Tempo := []
  timeSigs : List TimeSig := []
  keySigs : List KeySig := []
  texts : List TextAnn := []
  ccs : List CC := []
  bends : List Bend := []
  sectionAnns : List SectionAnn := []
  sgroups : List String := []      -- raw tokens of the section-group forest
  totalTime : Rat := 0
  totalQSteps : Int := 0
  spq : Int := 0                   -- quantization_info.steps_per_quarter
  sps : Int := 0                   -- quantization_info.steps_per_second
  hasSub : Bool := false           -- HasField('subsequence_info')
  subStart : Rat := 0
  subEnd : Rat := 0
  tpq : Int := 0                   -- ticks_per_quarter
  metaTag : String := "-"             -- digest of every field not modelled above
deriving Repr, DecidableEq, Inhabited

/-! ### wire format -/
def pNote : P Note := do
  let pitch ← P.int; let velocity ← P.int; let start ← P.rat; let end_ ← P.rat
  let qs ← P.int; let qe ← P.int; let instrument ← P.int; let program ← P.int
  let isDrum ← P.bool; let numerator ← P.int; let denominator ← P.int
  let voice ← P.int; let part ← P.int; let pitchName ← P.int
  pure { pitch, velocity, start, end_, qs, qe, instrument, program, isDrum,
         numerator, denominator, voice, part, pitchName }

def pTempo : P Tempo := do let time ← P.rat; let qpm ← P.rat; pure { time, qpm }
def pTimeSig : P TimeSig := do let time ← P.rat; let num ← P.int; let den ← P.int; pure { time, num, den }
def pKeySig : P KeySig := do let time ← P.rat; let key ← P.int; let mode ← P.int; pure { time, key, mode }
def pText : P TextAnn := do
  let time ← P.rat; let qstep ← P.int; let kind ← P.int; let text ← P.str
  pure { time, qstep, kind, text }
def pCC : P CC := do
  let time ← P.rat; let qstep ← P.int; let number ← P.int; let value ← P.int
  let instrument ← P.int; let program ← P.int; let isDrum ← P.bool
  pure { time, qstep, number, value, instrument, program, isDrum }
def pBend : P Bend := do
  let time ← P.rat; let bend ← P.int; let instrument ← P.int; let program ← P.int
  let isDrum ← P.bool
  pure { time, bend, instrument, program, isDrum }
def pSectionAnn : P SectionAnn := do let time ← P.rat; let sectionId ← P.int; pure { time, sectionId }

/-- `NS tt tqs spq sps hasSub subStart subEnd tpq meta notes… tempos… tsigs… ksigs… texts…
ccs… bends… sanns… sgroups <n> tok*` -/
def pNoteSeq : P NoteSeq := do
  P.lit "NS"
  let totalTime ← P.rat; let totalQSteps ← P.int; let spq ← P.int; let sps ← P.int
  let hasSub ← P.bool; let subStart ← P.rat; let subEnd ← P.rat; let tpq ← P.int
  let metaTag ← P.str
  let notes ← P.list pNote
  let tempos ← P.list pTempo
  let timeSigs ← P.list pTimeSig
  let keySigs ← P.list pKeySig
  let texts ← P.list pText
  let ccs ← P.list pCC
  let bends ← P.list pBend
  let sectionAnns ← P.list pSectionAnn
  let sgroups ← P.list P.str
  pure { notes, tempos, timeSigs, keySigs, texts, ccs, bends, sectionAnns, sgroups,
         totalTime, totalQSteps, spq, sps, hasSub, subStart, subEnd, tpq, metaTag }

def showNote (n : Note) : String :=
  s!"{n.pitch} {n.velocity} {showRat n.start} {showRat n.end_} {n.qs} {n.qe} {n.instrument} {n.program} {showBool n.isDrum} {n.numerator} {n.denominator} {n.voice} {n.part} {n.pitchName}"
def showTempo (t : Tempo) : String := s!"{showRat t.time} {showRat t.qpm}"
def showTimeSig (t : TimeSig) : String := s!"{showRat t.time} {t.num} {t.den}"
def showKeySig (t : KeySig) : String := s!"{showRat t.time} {t.key} {t.mode}"
def showText (t : TextAnn) : String := s!"{showRat t.time} {t.qstep} {t.kind} {t.text}"
def showCC (c : CC) : String :=
  s!"{showRat c.time} {c.qstep} {c.number} {c.value} {c.instrument} {c.program} {showBool c.isDrum}"
def showBend (b : Bend) : String :=
  s!"{showRat b.time} {b.bend} {b.instrument} {b.program} {showBool b.isDrum}"
def showSectionAnn (s : SectionAnn) : String := s!"{showRat s.time} {s.sectionId}"

def showNoteSeq (s : NoteSeq) : String :=
  " ".intercalate
    ["NS", showRat s.totalTime, toString s.totalQSteps, toString s.spq, toString s.sps,
     showBool s.hasSub, showRat s.subStart, showRat s.subEnd, toString s.tpq, s.metaTag,
     showList showNote s.notes, showList showTempo s.tempos, showList showTimeSig s.timeSigs,
     showList showKeySig s.keySigs, showList showText s.texts, showList showCC s.ccs,
     showList showBend s.bends, showList showSectionAnn s.sectionAnns,
     showList id s.sgroups]

/-- errors shared by the sequence-operation models (names = Python exception classes) -/
inductive Err where
  | valueError | quantizationStatusError | multipleTempoError | multipleTimeSignatureError
  | badTimeSignatureError | negativeTimeError | invalidTimeAdjustmentError | rectifyBeatsError
  | other (name : String)
deriving Repr, DecidableEq

def Err.name : Err → String
  | .valueError => "ValueError"
  | .quantizationStatusError => "QuantizationStatusError"
  | .multipleTempoError => "MultipleTempoError"
  | .multipleTimeSignatureError => "MultipleTimeSignatureError"
  | .badTimeSignatureError => "BadTimeSignatureError"
  | .negativeTimeError => "NegativeTimeError"
  | .invalidTimeAdjustmentError => "InvalidTimeAdjustmentError"
  | .rectifyBeatsError => "RectifyBeatsError"
  | .other n => n

def showResult (r : Except Err NoteSeq) : String :=
  match r with
  | .ok s => "ok " ++ showNoteSeq s
  | .error e => "err " ++ e.name

def showResults (r : Except Err (List NoteSeq)) : String :=
  match r with
  | .ok l => s!"okl {l.length} " ++ " | ".intercalate (l.map showNoteSeq)
  | .error e => "err " ++ e.name

/-- Python's `is_quantized_sequence` -/
def NoteSeq.isQuantized (s : NoteSeq) : Bool := 0 < s.spq || 0 < s.sps

/-- stable sort by a rational key (Python `sorted(key=…)`; core `List.mergeSort` is stable) -/
def sortByRat {α} (key : α → Rat) (l : List α) : List α := l.mergeSort (fun a b => key a ≤ key b)
def sortByInt {α} (key : α → Int) (l : List α) : List α := l.mergeSort (fun a b => key a ≤ key b)

end NSV
