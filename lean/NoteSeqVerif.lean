-- Root of the `NoteSeqVerif` library. Property files are built by explicit module
-- targets (`lake build NoteSeqVerif.Props.C01 …`); this root imports the shared core.
import NoteSeqVerif.Common.Wire
import NoteSeqVerif.Common.Float
