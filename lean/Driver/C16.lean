import NoteSeqVerif.Model.C16
/-! line-protocol driver for C16.

requests
  `post <PM>`                      the code after the constructor on a PrettyMIDI object
  `bytes ok <PM>`                  `midi_to_note_sequence(bytes)` when the constructor returned <PM>
  `bytes err <exc> <fmt>`          … when the constructor raised <exc>; <fmt> = `-` or the exception
                                   raised while formatting the handler's message
  `gen`                            the regenerated handler tables (echoed into the evidence)
<PM>  = `PM res <n> (num den time)* <n> (keynum time)* (T ok <n> (time qpm)* | T err <exc>)
         <n> (program isdrum xname <n> (vel pitch start end)* <n> (pitch time)* <n> (number value time)*)*`
<exc> = `name <k> mro*`
response  `inv=<b> (err <name> | wf=<b> ok <NS…> | parser encoding <n> (instrument xname)*)` -/
open NSV NSV.Wire NSV.C16

def hexVal (c : Char) : Option Nat :=
  if '0' ≤ c ∧ c ≤ '9' then some (c.toNat - '0'.toNat)
  else if 'a' ≤ c ∧ c ≤ 'f' then some (c.toNat - 'a'.toNat + 10) else none

def unhexBytes : List Char → Option (List UInt8)
  | [] => some []
  | [_] => none
  | a :: b :: r => do
    let x ← hexVal a; let y ← hexVal b; let t ← unhexBytes r
    pure (UInt8.ofNat (x * 16 + y) :: t)

/-- `x<hex of utf-8>` -> String -/
def unhx (t : String) : Option String :=
  match t.toList with
  | 'x' :: r => do
    let bs ← unhexBytes r
    String.fromUTF8? (ByteArray.mk bs.toArray)
  | _ => none

def hexDigit (n : Nat) : Char := if n < 10 then Char.ofNat (n + 48) else Char.ofNat (n - 10 + 97)
def hx (s : String) : String :=
  "x" ++ String.ofList (s.toUTF8.toList.flatMap (fun b => [hexDigit (b.toNat / 16), hexDigit (b.toNat % 16)]))

def pHexStr : P String := do let t ← P.next; match unhx t with | some s => pure s | none => failure

def pExc : P PyExc := do let name ← P.str; let mro ← P.list P.str; pure { name, mro }

def pPM : P PM := do
  P.lit "PM"
  let resolution ← P.int
  let timeSigs ← P.list (do let num ← P.int; let den ← P.int; let time ← P.rat; pure ({ num, den, time } : PMTimeSig))
  let keys ← P.list (do let keyNumber ← P.int; let time ← P.rat; pure ({ keyNumber, time } : PMKey))
  P.lit "T"
  let tag ← P.next
  let tempoChanges : Except PyExc (List (Rat × Rat)) ←
    if tag = "ok" then do
      let l ← P.list (do let t ← P.rat; let q ← P.rat; pure (t, q))
      pure (.ok l)
    else if tag = "err" then do let e ← pExc; pure (.error e)
    else failure
  let instruments ← P.list (do
    let program ← P.int; let isDrum ← P.bool; let name ← pHexStr
    let notes ← P.list (do
      let velocity ← P.int; let pitch ← P.int; let start ← P.rat; let end_ ← P.rat
      pure ({ velocity, pitch, start, end_ } : PMNote))
    let bends ← P.list (do let pitch ← P.int; let time ← P.rat; pure ({ pitch, time } : PMBend))
    let ccs ← P.list (do let number ← P.int; let value ← P.int; let time ← P.rat; pure ({ number, value, time } : PMCC))
    pure ({ program, isDrum, name, notes, bends, ccs } : PMInst))
  pure { resolution, timeSigs, keys, tempoChanges, instruments }

def showOut (pm : Option PM) (r : Except PyExc MidiSeq) : String :=
  let pre := match pm with
    | some pm => s!"inv={showBool (invB pm)} "
    | none => "inv=- "
  match r with
  | .error e => pre ++ "err " ++ e.name
  | .ok s => pre ++ s!"wf={showBool (wfB s)} ok " ++ showNoteSeq s.seq ++
      s!" | {s.parser} {s.encoding} " ++ showList (fun p => s!"{p.1} {hx p.2}") s.infos

def showTrys (t : Trys) : String :=
  "[" ++ ";".intercalate (t.map (fun cl => ",".intercalate (cl.map (fun c =>
    (match c.1 with | none => "*" | some l => "|".intercalate l) ++ "->" ++ c.2)))) ++ "]"

def step (line : String) : String :=
  match toks line with
  | "post" :: rest => match (do let s ← pPM; P.eof; pure s : P PM) rest with
      | some (pm, _) => showOut (some pm) (post pm)
      | none => "bad-op"
  | "bytes" :: "ok" :: rest => match (do let s ← pPM; P.eof; pure s : P PM) rest with
      | some (pm, _) => showOut (some pm) (midiToNoteSequence (fun _ => .ok pm) [])
      | none => "bad-op"
  | "bytes" :: "err" :: rest =>
      match (do let e ← pExc
                let t ← P.next
                let f ← if t = "-" then pure none else if t = "raises" then (do let e' ← pExc; pure (some e')) else failure
                P.eof; pure (e, f) : P (PyExc × Option PyExc)) rest with
      | some ((e, f), _) => showOut none (midiToNoteSequence (fun _ => .error { exc := e, fmtRaises := f }) [])
      | none => "bad-op"
  | ["gen"] => s!"ctor={showTrys Gen.ctorTrys} guard={showBool Gen.resolutionGuardPresent}:{Gen.resolutionGuardRaises} " ++
      s!"den={showTrys Gen.h_ts_denominator} num={showTrys Gen.h_ts_numerator} mode={Gen.modeCases}:{Gen.modeElseRaises} " ++
      s!"key={Gen.keyOf 25}:{Gen.modeOf 25}:{Gen.keyOf (-1)}:{Gen.modeOf (-1)}"
  | _ => "bad-op"

def main : IO Unit := loop step
