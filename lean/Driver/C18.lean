import NoteSeqVerif.Model.C18
/-! line-protocol driver for C18.
`enc fps minp maxp maxvel blank upweight window onsetLen offsetLen mode delay occ overlap total
     <n> (pitch vel start end)* <m> (time number value)*`
`dec fps minDur velocity minMidiPitch scale bias prec F <rows> ON 0|1 <rows> OFF 0|1 <rows> V 0|1 <rows>`
`ons fps dur velocity minMidiPitch scale bias prec O <rows> V 0|1 <rows>`
boolean rows travel as `b0110…`, rolls come back sparse (`<k> (row col value)*`, cells ≠ default). -/
open NSV NSV.Wire NSV.C18

def pBits : P (List Bool) := do
  let t ← P.next
  match t.toList with
  | 'b' :: cs => if cs.all (fun c => c = '0' ∨ c = '1') then pure (cs.map (· = '1')) else failure
  | _ => failure

def pOpt {α} (p : P α) : P (Option α) := do
  let b ← P.bool
  if b then (do let a ← p; pure (some a)) else pure none

def pNote : P PNote := do
  let pitch ← P.int; let velocity ← P.int; let start ← P.rat; let end_ ← P.rat
  pure { pitch, velocity, start, end_ }

def pCC : P PCC := do
  let time ← P.rat; let number ← P.int; let value ← P.int
  pure { time, number, value }

def sparse {α} (sh : α → String) (isDefault : α → Bool) (m : List (List α)) : String :=
  let cells := (m.zipIdx.map fun (row, r) =>
    (row.zipIdx.filter fun (v, _) => !isDefault v).map fun (v, c) => s!"{r} {c} {sh v}").flatten
  " ".intercalate (toString cells.length :: cells)

def showRoll (cols : Nat) (p : Pianoroll) : String :=
  " ".intercalate
    ["ok", toString p.active.length, toString cols,
     "A", sparse showRat (· == 0) p.active,
     "W", sparse showRat (· == 1) p.weights,
     "O", sparse showRat (· == 0) p.onsets,
     "OV", sparse showRat (· == 0) p.onsetVelocities,
     "AV", sparse showRat (· == 0) p.activeVelocities,
     "OF", sparse showRat (· == 0) p.offsets,
     "CC", sparse toString (· == 0) p.controlChanges]

def pEnc : P String := do
  let fps ← P.rat; let minPitch ← P.int; let maxPitch ← P.int; let maxVelocity ← P.int
  let blank ← P.bool; let upweight ← P.rat; let window ← P.int; let onsetLenMs ← P.rat
  let offsetLenMs ← P.rat; let mode ← P.nat; let delayMs ← P.rat; let occ ← P.rat
  let overlap ← P.bool; let total ← P.rat
  let notes ← P.list pNote
  let ccs ← P.list pCC
  let c : Cfg := { fps, minPitch, maxPitch, maxVelocity, blank, upweight, window, onsetLenMs,
                   offsetLenMs, mode, delayMs, occ, overlap }
  pure (match encodeF c total notes ccs with
    | .ok p => showRoll (maxPitch - minPitch + 1).toNat p
    | .error e => "err " ++ e.name)

def showNotes (r : Except Err (List ONote × Rat)) : String :=
  match r with
  | .error e => "err " ++ e.name
  | .ok (ns, tot) =>
    "ok " ++ showRat tot ++ " " ++
      showList (fun n => s!"{n.pitch} {n.velocity} {showRat n.start} {showRat n.end_}") ns

def pDCfg : P (DCfg × Nat) := do
  let fps ← P.rat; let minDurMs ← P.rat; let velocity ← P.int; let minMidiPitch ← P.int
  let scale ← P.rat; let bias ← P.rat; let prec ← P.nat
  pure ({ fps, minDurMs, velocity, minMidiPitch, scale, bias }, prec)

def pDec : P String := do
  let (d, prec) ← pDCfg
  P.lit "F"; let frames ← P.list pBits
  P.lit "ON"; let ons ← pOpt (P.list pBits)
  P.lit "OFF"; let offs ← pOpt (P.list pBits)
  P.lit "V"; let vels ← pOpt (P.list (P.list P.rat))
  pure (showNotes (decodeF prec d frames ons offs vels))

def pOns : P String := do
  let (d, prec) ← pDCfg
  P.lit "O"; let onsets ← P.list pBits
  P.lit "V"; let vels ← pOpt (P.list (P.list P.rat))
  pure (showNotes (decodeOnsetsF prec d d.minDurMs onsets vels))

def step (line : String) : String :=
  match toks line with
  | "enc" :: rest => match (do let s ← pEnc; P.eof; pure s : P String) rest with
      | some (s, _) => s | none => "bad-op"
  | "dec" :: rest => match (do let s ← pDec; P.eof; pure s : P String) rest with
      | some (s, _) => s | none => "bad-op"
  | "ons" :: rest => match (do let s ← pOns; P.eof; pure s : P String) rest with
      | some (s, _) => s | none => "bad-op"
  | _ => "bad-op"

def main : IO Unit := loop step
