import NoteSeqVerif.Model.C01
/-! line-protocol driver for C01: `rel <spq> NS…`, `abs <sps> NS…`, `step <t> <sps>` -/
open NSV NSV.Wire NSV.C01

def step (line : String) : String :=
  match toks line with
  | "rel" :: spq :: rest => match spq.toInt?, (do let s ← pNoteSeq; P.eof; pure s : P NoteSeq) rest with
      | some spq, some (s, _) => showResult (quantizeRel s spq)
      | _, _ => "bad-op"
  | "abs" :: sps :: rest => match sps.toInt?, (do let s ← pNoteSeq; P.eof; pure s : P NoteSeq) rest with
      | some sps, some (s, _) => showResult (quantizeAbs s sps)
      | _, _ => "bad-op"
  | ["step", t, sps] => match parseRat? t, parseRat? sps with
      | some t, some sps => s!"ok {qstep t sps}"
      | _, _ => "bad-op"
  | ["sps", spq, qpm] => match spq.toInt?, parseRat? qpm with
      | some spq, some qpm => "ok " ++ showRat (spsR rne53 spq qpm)
      | _, _ => "bad-op"
  | _ => "bad-op"

def main : IO Unit := loop step
