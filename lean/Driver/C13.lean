import NoteSeqVerif.Model.C13Full
/-! line-protocol driver for C13 (R := rne53).  MSEQ = `<composers: n tok*> <genres: n tok*> NS…`.
  shift <d> NS…                         -> ok NS… | err E
  stretch <f> NS…                       -> ok NS… | err E
  rr MSEQ                               -> ok MSEQ
  concat <mm> <durs: n rat*> <k> MSEQ*k -> ok MSEQ | err E
  merge <mm> <k> MSEQ*k                 -> ok MSEQ
  adjust <md> <n (t ft)*> NS…           -> ok <skipped> NS… | err E      (time map as a table)
  rectify <bpm> NS…                     -> ok <n (x y)*> NS… | err E
  interp <left> <right> <x> <n (xp fp)*>-> ok y
  repcat <mm> <D> <sd> MSEQ             -> ok <start> <end> MSEQ | err E
  expand <mm> <n (start end (ok NS…|err E))*> MSEQ -> ok MSEQ | err E    (extract_subsequence as a table)
  repeat <mm> <D> <sd> MSEQ             -> ok MSEQ | err E          (whole function, extract = Model/C02)
  expandfull <mm> MSEQ                  -> ok MSEQ | err E          (whole function, extract = Model/C02)
`mm` is the digest of the merged unmodelled metadata, computed by the harness with protobuf itself. -/
open NSV NSV.Wire NSV.C13

def pMSeq : P MSeq := do
  let composers ← P.list P.str
  let genres ← P.list P.str
  let ns ← pNoteSeq
  pure { ns, composers, genres }

def showMSeq (m : MSeq) : String :=
  showList id m.composers ++ " " ++ showList id m.genres ++ " " ++ showNoteSeq m.ns

def showM (r : Except Err MSeq) : String :=
  match r with
  | .ok m => "ok " ++ showMSeq m
  | .error e => "err " ++ e.name

def pPair : P (Rat × Rat) := do let a ← P.rat; let b ← P.rat; pure (a, b)

def pExtractEntry : P ((Rat × Rat) × Except Err NoteSeq) := do
  let a ← P.rat; let b ← P.rat
  let tag ← P.next
  if tag = "ok" then do let s ← pNoteSeq; pure ((a, b), .ok s)
  else if tag = "err" then do let n ← P.str; pure ((a, b), .error (.other n))
  else failure

def tableFun (tab : List (Rat × Rat)) (t : Rat) : Rat :=
  match tab.find? (fun p => p.1 == t) with
  | some p => p.2
  | none => 0

def allTimes (s : NoteSeq) : List Rat :=
  s.notes.flatMap (fun n => [n.start, n.end_]) ++ chainTimes allEventKinds s

def extractFun (tab : List ((Rat × Rat) × Except Err NoteSeq)) (_ : NoteSeq) (a b : Rat) : Except Err NoteSeq :=
  match tab.find? (fun e => e.1.1 == a && e.1.2 == b) with
  | some e => e.2
  | none => .error (.other "extract-call-not-in-table")

def run {α} (p : P α) (rest : List String) (k : α → String) : String :=
  match (do let a ← p; P.eof; pure a : P α) rest with
  | some (a, _) => k a
  | none => "bad-op"

def step (line : String) : String :=
  match toks line with
  | "shift" :: rest => run (do let d ← P.rat; let s ← pNoteSeq; pure (d, s)) rest
      fun (d, s) => showResult (shiftR rne53 d s)
  | "stretch" :: rest => run (do let d ← P.rat; let s ← pNoteSeq; pure (d, s)) rest
      fun (f, s) => showResult (stretchR rne53 f s)
  | "rr" :: rest => run pMSeq rest fun m => "ok " ++ showMSeq (removeRedundant m)
  | "concat" :: rest => run (do let mm ← P.str; let durs ← P.list P.rat; let seqs ← P.list pMSeq; pure (mm, durs, seqs)) rest
      fun (mm, durs, seqs) => showM (concatR rne53 (fun _ => mm) seqs durs)
  | "merge" :: rest => run (do let mm ← P.str; let seqs ← P.list pMSeq; pure (mm, seqs)) rest
      fun (mm, seqs) => "ok " ++ showMSeq (mergeR (fun _ => mm) seqs)
  | "adjust" :: rest => run (do let md ← P.rat; let tab ← P.list pPair; let s ← pNoteSeq; pure (md, tab, s)) rest
      fun (md, tab, s) =>
        if (allTimes s).all (fun t => tab.any (fun p => p.1 == t)) then
          match adjustR (tableFun tab) rne53 md s with
          | .ok (r, sk) => s!"ok {sk} " ++ showNoteSeq r
          | .error e => "err " ++ e.name
        else "bad-op time-not-in-table"
  | "rectify" :: rest => run (do let bpm ← P.rat; let s ← pNoteSeq; pure (bpm, s)) rest
      fun (bpm, s) =>
        match rectifyR rne53 bpm s with
        | .ok (r, al) => "ok " ++ showList (fun p => showRat p.1 ++ " " ++ showRat p.2) al ++ " " ++ showNoteSeq r
        | .error e => "err " ++ e.name
  | "interp" :: rest => run (do let l ← P.rat; let r ← P.rat; let x ← P.rat; let k ← P.list pPair; pure (l, r, x, k)) rest
      fun (l, r, x, k) =>
        match k with
        | [] => "err ValueError"
        | p :: ps => "ok " ++ showRat (interpR rne53 p ps l r x)
  | "repcat" :: rest => run (do let mm ← P.str; let d ← P.rat; let sd ← P.rat; let m ← pMSeq; pure (mm, d, sd, m)) rest
      fun (mm, d, sd, m) =>
        match repeatConcatR rne53 (fun _ => mm) m d sd with
        | .ok (r, a, b) => "ok " ++ showRat a ++ " " ++ showRat b ++ " " ++ showMSeq r
        | .error e => "err " ++ e.name
  | "expand" :: rest => run (do let mm ← P.str; let tab ← P.list pExtractEntry; let m ← pMSeq; pure (mm, tab, m)) rest
      fun (mm, tab, m) => showM (expandR rne53 (extractFun tab) (fun _ => mm) m)
  | "repeat" :: rest => run (do let mm ← P.str; let d ← P.rat; let sd ← P.rat; let m ← pMSeq; pure (mm, d, sd, m)) rest
      fun (mm, d, sd, m) => showM (repeatFullR rne53 (fun _ => mm) m d sd)
  | "expandfull" :: rest => run (do let mm ← P.str; let m ← pMSeq; pure (mm, m)) rest
      fun (mm, m) => showM (expandFullR rne53 (fun _ => mm) m)
  | _ => "bad-op"

def main : IO Unit := loop step
