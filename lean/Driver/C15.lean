import NoteSeqVerif.Common.Wire
import NoteSeqVerif.Model.C15
/-! line-protocol driver for C15 (compiled; no Mathlib)

* `name <n> pitch*n <m> bassRel*m <k> (root <j> rel*j)*k` — `pitches_to_chord_symbol` with the
  set iteration orders the real run used; answer `ok <figure> <root> <bass> <quality> <pitches>`
  (the four readers applied to the model's structured symbol), `err <Exception>`, or `bad-order`
  when the order parameters do not enumerate the right sets.
* `parse <step> <alter> <kind> <m> (pk sign degree)*m <0 | 1 step alter>` — the four readers on a
  symbol as the regular expressions split it; `pk`: 0 = add, 1 = no, 2 = accidental. -/
open NSV NSV.Wire NSV.C15

def showErr : Err → String
  | .chordSymbolError => "ChordSymbolError"
  | .keyError => "KeyError"
  | .indexError => "IndexError"
  | .assertionError => "AssertionError"
  | .nonTermination => "NonTermination"

def showEx {α} (f : α → String) : Except Err α → String
  | .ok a => f a
  | .error e => "E:" ++ showErr e

def showPitches (l : List Nat) : String :=
  if l.isEmpty then "-" else ",".intercalate (l.map toString)

def readers (s : Symbol) : String :=
  showEx toString (chordSymbolRoot s) ++ " " ++ showEx toString (chordSymbolBass s) ++ " " ++
  showEx toString (chordSymbolQuality s) ++ " " ++ showEx showPitches (chordSymbolPitches s)

def pName : P (List Int × Orders) := do
  let ps ← P.list P.int
  let br ← P.list P.nat
  let others ← P.list (do let r ← P.nat; let rel ← P.list P.nat; pure (r, rel))
  pure (ps, ⟨br, others⟩)

def pMod : P Mod := do
  let pk ← P.nat
  let sign ← P.int
  let degree ← P.nat
  match pk with
  | 0 => pure ⟨.add, sign, degree⟩
  | 1 => pure ⟨.no, sign, degree⟩
  | 2 => pure ⟨.alt, sign, degree⟩
  | _ => failure

def pSymbol : P Symbol := do
  let step ← P.nat
  let alter ← P.int
  let kind ← P.nat
  let mods ← P.list pMod
  let hb ← P.nat
  match hb with
  | 0 => pure ⟨step, alter, kind, mods, none⟩
  | 1 => do
      let bs ← P.nat
      let ba ← P.int
      pure ⟨step, alter, kind, mods, some (bs, ba)⟩
  | _ => failure

def step (line : String) : String :=
  match toks line with
  | "name" :: rest => match (do let a ← pName; P.eof; pure a : P _) rest with
      | some ((ps, o), _) =>
          let bassOk : Bool := match ps with
            | [] => true
            | p :: r => decide (OrdersOk ps (bassOf p r) o)
          if !bassOk then "bad-order" else
          match pitchesToChordSymbol ps o with
          | .error e => "err " ++ showErr e
          | .ok .noChord => "ok " ++ render .noChord ++ " E:ChordSymbolError E:ChordSymbolError E:ChordSymbolError E:ChordSymbolError"
          | .ok (.sym s) => "ok " ++ render (.sym s) ++ " " ++ readers s
      | none => "bad-op"
  | "parse" :: rest => match (do let a ← pSymbol; P.eof; pure a : P _) rest with
      | some (s, _) => readers s
      | none => "bad-op"
  | _ => "bad-op"

def main : IO Unit := loop step
