import NoteSeqVerif.Model.C14Spec
/-! line-protocol driver for C14:
`sustain <ctl> NS…`  → the model's result (`ok NS…` / `err <Name>`)
`spec <ctl> NS…`     → `spec <wellformed> <nooverlap> <last> <n> <heldEnd>*` (the declarative
                        specification evaluated on the input, for the cross-check with the
                        harness's independent oracle) -/
open NSV NSV.Wire NSV.C14

def step (line : String) : String :=
  match toks line with
  | "sustain" :: ctl :: rest =>
      match ctl.toInt?, (do let s ← pNoteSeq; P.eof; pure s : P NoteSeq) rest with
      | some ctl, some (s, _) => showResult (applySustain ctl s)
      | _, _ => "bad-op"
  | "spec" :: ctl :: rest =>
      match ctl.toInt?, (do let s ← pNoteSeq; P.eof; pure s : P NoteSeq) rest with
      | some ctl, some (s, _) =>
          " ".intercalate ["spec", showBool (decide (WellFormed s)), showBool (decide (NoSamePitchOverlap s)),
            showRat (lastEventTime ctl s), showList showRat (s.notes.map (heldEnd ctl s))]
      | _, _ => "bad-op"
  | _ => "bad-op"

def main : IO Unit := loop step
