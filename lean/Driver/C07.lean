import NoteSeqVerif.Model.C07
/-! line-protocol driver for C07 (`-` = Python `None`):
`perf <start> <bins> <max_shift_steps> <inst|-> NS…`, `mperf <start> <bins> <max_shift_quarters> <inst|-> NS…`,
`nperf <bins> <inst|-> <start> <max_shift> <max_dur> NS…`, `roll <start> <minp> <maxp> <split> NS…`,
`drums <search_start> <gap_bars> <pad_end> <ignore_is_drum> NS…`, `chords <start> <end> NS…`,
`melody <search_start> <inst> <gap_bars> <ignore_poly> <pad_end> <filter_drums> NS…`, `spb NS…` -/
open NSV NSV.Wire NSV.C07

def pOptInt : P (Option Int) := do
  let t ← P.next
  if t = "-" then pure none else match t.toInt? with | some i => pure (some i) | none => failure

def showOptInt : Option Int → String
  | none => "-"
  | some i => toString i

def showOptBool : Option Bool → String
  | none => "-"
  | some b => showBool b

def showPEvent : PEvent → String
  | .noteOn p => s!"{Gen.NOTE_ON} {p}"
  | .noteOff p => s!"{Gen.NOTE_OFF} {p}"
  | .timeShift v => s!"{Gen.TIME_SHIFT} {v}"
  | .velocity v => s!"{Gen.VELOCITY} {v}"
  | .duration v => s!"{Gen.DURATION} {v}"

def showErr {α} (f : α → String) : Except XErr α → String
  | .ok a => "ok " ++ f a
  | .error e => "err " ++ e.name

def showPerf (r : PerfResult) : String :=
  s!"{showOptInt r.program} {showOptBool r.isDrum} {r.stepsPer} {r.startStep} {r.numVelocityBins} {r.maxShiftSteps} " ++
    showList showPEvent r.events

def showNotePerf (r : NotePerfResult) : String :=
  s!"{showOptInt r.program} {showOptBool r.isDrum} {r.stepsPerSecond} {r.startStep} " ++
    showList (fun t => s!"{t.shift} {t.pitch} {t.bin} {t.dur}") r.events

def showSimple {α} (f : α → String) (r : SimpleResult α) : String :=
  s!"{r.startStep} {r.endStep} {r.stepsPerBar} {r.stepsPerQuarter} " ++ showList f r.events

def run {α} (p : P α) (ts : List String) : Option α :=
  match (do let a ← p; P.eof; pure a : P α) ts with
  | some (a, _) => some a
  | none => none

def step (line : String) : String :=
  match toks line with
  | "perf" :: rest =>
    match run (do let st ← P.int; let nb ← P.int; let ms ← P.int; let i ← pOptInt; let s ← pNoteSeq
                  pure (perfFromQuantized s st nb ms i)) rest with
    | some r => showErr showPerf r
    | none => "bad-op"
  | "mperf" :: rest =>
    match run (do let st ← P.int; let nb ← P.int; let ms ← P.int; let i ← pOptInt; let s ← pNoteSeq
                  pure (metricPerfFromQuantized s st nb ms i)) rest with
    | some r => showErr showPerf r
    | none => "bad-op"
  | "nperf" :: rest =>
    match run (do let nb ← P.int; let i ← pOptInt; let st ← P.int; let ms ← P.int; let md ← P.int
                  let s ← pNoteSeq
                  pure (notePerfFromQuantized s nb i st ms md)) rest with
    | some r => showErr showNotePerf r
    | none => "bad-op"
  | "roll" :: rest =>
    match run (do let st ← P.int; let lo ← P.int; let hi ← P.int; let sp ← P.bool; let s ← pNoteSeq
                  pure (pianorollFromQuantized s st lo hi sp)) rest with
    | some r => showErr (showList showInts) r
    | none => "bad-op"
  | "drums" :: rest =>
    match run (do let ss ← P.int; let gap ← P.int; let pad ← P.bool; let ign ← P.bool; let s ← pNoteSeq
                  pure (drumsFromQuantized s ss gap pad ign)) rest with
    | some r => showErr (showSimple showInts) r
    | none => "bad-op"
  | "chords" :: rest =>
    match run (do let st ← P.int; let en ← P.int; let s ← pNoteSeq
                  pure (chordsFromQuantized s st en)) rest with
    | some r => showErr (showSimple id) r
    | none => "bad-op"
  | "melody" :: rest =>
    match run (do let ss ← P.int; let i ← P.int; let gap ← P.int; let ign ← P.bool; let pad ← P.bool
                  let fd ← P.bool; let s ← pNoteSeq
                  pure (melodyFromQuantized s ss i gap ign pad fd)) rest with
    | some r => showErr (showSimple toString) r
    | none => "bad-op"
  | "spb" :: rest =>
    match run pNoteSeq rest with
    | some s => showErr showRat (stepsPerBarFloatR rne53 s)
    | none => "bad-op"
  | _ => "bad-op"

def main : IO Unit := loop step
