import NoteSeqVerif.Common.Wire
import NoteSeqVerif.Generated.C11
/-! line-protocol driver for C11 (a): the *compiled* purity checker on the IR regenerated from the
source.  `pure <op>` → `ok <pureProg> <freshResult> <contracts verified> <failing lines…>`;
`ops` → the names of the listed operations. -/
open NSV NSV.Wire NSV.C11
set_option linter.unusedVariables false

def step (line : String) : String :=
  match toks line with
  | ["pure", name] =>
      match Gen.allProgs.find? (fun np => np.1 == name) with
      | some (_, p) =>
          s!"ok {showBool (pureProg p)} {showBool (freshResult p)} {showBool (checkList p.contracts p.ops p.contracts)} {showNats (diagnose p)}"
      | none => "unknown-op"
  | ["ops"] => "ok " ++ " ".intercalate (Gen.allProgs.map (·.1))
  | _ => "bad-op"

def main : IO Unit := loop step
