import NoteSeqVerif.Common.Wire
import NoteSeqVerif.Model.C17Heap
/-! line-protocol driver for C17 (compiled; no Mathlib).

request :  `<mode> <class-init…> ; <op…> ; <op…> …`     (mode `T` = observation after every
           operation, `F` = only after the last one)
response:  `init <ok|Err>` then per operation ` ; <ok|Err> [observation of the current object]`,
           then ` ; heap <number of objects> <index of the current one>` and ` # <observation>`
           for every object of the heap, in creation order.
A history works on a heap of objects (`Model/C17Heap.lean`): `sw k` switches to object `k`, a
slice / deepcopy creates a new object and continues on it, and for lead sheets `sh a b` builds
`LeadSheet(obj[a].melody, obj[b].chords)`, `mo <op>` / `co <op>` call an in-place method of the
current lead sheet's melody / chords object directly.  A failed operation leaves every object as it
was (`…Skip` functions of the model), exactly like the harness, which catches the exception and
carries on with the same Python objects. -/
open NSV NSV.Wire NSV.C17

class Ev (α : Type) where
  parse : String → Option α
  render : α → String

def parseInts (s : String) : Option (List Int) :=
  if s = "" then some [] else (s.splitOn ",").mapM String.toInt?

def renderInts (l : List Int) : String := ",".intercalate (l.map toString)

instance : Ev Int := ⟨String.toInt?, toString⟩
instance : Ev String := ⟨some, id⟩
instance : Ev DrumEv where
  parse s := match s.splitOn ":" with
    | ["f", ps] => (parseInts ps).map (fun l => ⟨true, l⟩)
    | ["x", ps] => (parseInts ps).map (fun l => ⟨false, l⟩)
    | _ => none
  render e := (if e.isFrozenset then "f:" else "x:") ++ renderInts e.pitches
/-- pianoroll event (a tuple of pitch offsets) -/
instance : Ev (List Int) where
  parse s := match s.splitOn ":" with
    | ["t", ps] => parseInts ps
    | _ => none
  render e := "t:" ++ renderInts e
instance : Ev PEvent where
  parse s := match s.splitOn ":" with
    | [t, v] => do let t ← t.toNat?; let v ← v.toInt?; pure ⟨t, v⟩
    | _ => none
  render e := s!"{e.ty}:{e.val}"
instance : Ev (Int × String) := ⟨fun _ => none, fun (m, c) => s!"{m}/{c}"⟩

def pEv {α} [Ev α] : P α := do let t ← P.next; match Ev.parse t with | some a => pure a | none => failure
def pOptInt : P (Option Int) := do
  let t ← P.next
  if t = "N" then pure none else match t.toInt? with | some i => pure (some i) | none => failure
def pOptEv {α} [Ev α] : P (Option α) := do
  let t ← P.next
  if t = "N" then pure none else match Ev.parse t with | some a => pure (some a) | none => failure

def runToks {α} (p : P α) (ts : List String) : Option α :=
  match (do let a ← p; P.eof; pure a : P α) ts with
  | some (a, _) => some a
  | none => none

/-- split a token list at `;` tokens -/
def splitSemi (ts : List String) : List (List String) :=
  let (cur, acc) := ts.foldl (fun (st : List String × List (List String)) t =>
    if t = ";" then ([], st.1.reverse :: st.2) else (t :: st.1, st.2)) ([], [])
  (cur.reverse :: acc).reverse

def idxRange (len : Nat) : List Int :=
  (List.range (2 * len + 2)).map (fun (k : Nat) => (k : Int) - (len : Int) - 1)

def showIdx {α} [Ev α] (f : Int → Except Err α) (len : Nat) : String :=
  " ".intercalate ((idxRange len).map (fun i => match f i with | .ok a => Ev.render a | .error _ => "E"))

def obsCommon {α} [Ev α] (hdr : String) (len : Nat) (iter : List α) (idx : Int → Except Err α) (steps : List Int) : String :=
  s!"{hdr} | {showList Ev.render iter} | {showIdx idx len} | {showInts steps}"

/-! ### simple family -/
def obsSeq {α} [Ev α] (s : Seq α) : String :=
  obsCommon s!"{s.len} {s.start} {s.stop} {s.spb} {s.spq}" s.len s.iter s.index s.steps

def pSeqInit {α} [Ev α] (c : Cls α) : P (Except Err (Seq α)) := do
  let kind ← P.next
  let start ← P.int; let spb ← P.int; let spq ← P.int
  if kind = "N" then pure (.ok (Seq.empty start spb spq))
  else if kind = "L" then do
    let evs ← P.list pEv
    pure (fromEventList c evs start spb spq)
  else failure

def pOp {α} [Ev α] : P (Op α) := do
  let t ← P.next
  match t with
  | "a" => do let e ← pEv; pure (.append e)
  | "sl" => do let n ← P.int; let fl ← P.bool; pure (.setLength n fl)
  | "sc" => do let i ← pOptInt; let j ← pOptInt; pure (.slice i j)
  | "sk" => do let i ← pOptInt; let j ← pOptInt; let k ← P.int; pure (.sliceStep i j k)
  | "ir" => do let k ← P.int; let f ← pOptEv; pure (.incRes k f)
  | "dc" => pure .deepcopy
  | "ri" => do
      let st ← P.int; let b ← P.int; let q ← P.int
      let evs ← P.list pEv
      pure (.reinit evs st b q)
  | "rs" => pure .reset
  | _ => failure

/-- generic history runner: `stat` = exception status of one operation, `skip` = state after it,
`obs` = observation of the current object, `dump` = the whole heap -/
def runHist {σ ο} (trace : Bool) (pop : P ο) (stat : σ → ο → Except Err Unit) (skip : σ → ο → σ)
    (obs : σ → String) (dump : σ → String) (s0 : σ) (ops : List (List String)) : String :=
  let n := ops.length
  let rec go (s : σ) (k : Nat) (acc : String) : List (List String) → String
    | [] => acc ++ " ; " ++ dump s
    | o :: rest =>
        match runToks pop o with
        | none => acc ++ " ; bad-op"
        | some op =>
            let s' := skip s op
            let st := match stat s op with
              | .ok _ => "ok"
              | .error e => e.name
            let shown := if trace || k + 1 = n then " " ++ obs s' else ""
            go s' (k + 1) (acc ++ " ; " ++ st ++ shown) rest
  go s0 0 ("init ok" ++ (if trace || n = 0 then " " ++ obs s0 else "")) ops

def pHOp {ο} (pop : P ο) : P (HOp ο) := fun ts =>
  match ts with
  | "sw" :: rest => (do let k ← P.nat; pure (HOp.switch k) : P (HOp ο)) rest
  | _ => (do let o ← pop; pure (HOp.op o) : P (HOp ο)) ts

def obsCur {σ} (obs : σ → String) (h : Heap σ) : String :=
  match h.objs[h.cur]? with
  | some s => obs s
  | none => "no-object"

def dumpHeap {σ} (obs : σ → String) (h : Heap σ) : String :=
  s!"heap {h.objs.length} {h.cur}" ++ String.join (h.objs.map (fun s => " # " ++ obs s))

def runHeap {σ ο} (trace : Bool) (pop : P ο) (m : Sem σ ο) (obs : σ → String) (s0 : σ)
    (ops : List (List String)) : String :=
  runHist trace (pHOp pop) (hstatus m) (hskip m) (obsCur obs) (dumpHeap obs) ⟨[s0], 0⟩ ops

def simpleFamily {α} [Ev α] (trace : Bool) (c : Cls α) (init : List String) (ops : List (List String)) : String :=
  match runToks (pSeqInit c) init with
  | none => "bad-op"
  | some (.error e) => s!"init {e.name}"
  | some (.ok s) => runHeap trace pOp (seqSem c) obsSeq s ops

/-! ### lead sheet -/
def obsLead (l : LeadSheet) : String :=
  obsCommon s!"{l.len} {l.melody.start} {l.melody.stop} {l.melody.spb} {l.melody.spq}" l.len l.iter l.index l.steps
    ++ s!" | chords {l.chords.events.length} {l.chords.start} {l.chords.stop} {l.chords.spb} {l.chords.spq}"

def pLeadInit : P (Except Err LeadSheet) := do
  let kind ← P.next
  if kind = "N" then
    pure (lstep ⟨Seq.empty 0 0 0, Seq.empty 0 0 0⟩ .reset)
  else if kind = "L" then do
    let ms ← P.int; let mb ← P.int; let mq ← P.int; let mev ← P.list (pEv (α := Int))
    let cs ← P.int; let cb ← P.int; let cq ← P.int; let cev ← P.list (pEv (α := String))
    pure (lstep ⟨Seq.empty 0 0 0, Seq.empty 0 0 0⟩ (.init mev ms mb mq cev cs cb cq))
  else failure

def pLOp : P LOp := do
  let t ← P.next
  match t with
  | "a" => do let m ← P.int; let c ← P.next; pure (.append m c)
  | "sl" => do let n ← P.int; pure (.setLength n)
  | "sc" => do let i ← pOptInt; let j ← pOptInt; pure (.slice i j)
  | "sk" => do let i ← pOptInt; let j ← pOptInt; let k ← P.int; pure (.sliceStep i j k)
  | "ir" => do let k ← P.int; pure (.incRes k)
  | "dc" => pure .deepcopy
  | "in" => do
      let ms ← P.int; let mb ← P.int; let mq ← P.int; let mev ← P.list (pEv (α := Int))
      let cs ← P.int; let cb ← P.int; let cq ← P.int; let cev ← P.list (pEv (α := String))
      pure (.init mev ms mb mq cev cs cb cq)
  | "rs" => pure .reset
  | _ => failure

def pSOp : P SOp := fun ts =>
  match ts with
  | "sw" :: rest => (do let k ← P.nat; pure (SOp.switch k) : P SOp) rest
  | "sh" :: rest => (do let a ← P.nat; let b ← P.nat; pure (SOp.share a b) : P SOp) rest
  | "mo" :: rest => (do let o ← pOp (α := Int); pure (SOp.melody o) : P SOp) rest
  | "co" :: rest => (do let o ← pOp (α := String); pure (SOp.chords o) : P SOp) rest
  | _ => (do let o ← pLOp; pure (SOp.lead o) : P SOp) ts

def obsLeadAt (st : LStore) (k : Nat) : String :=
  match st.view k with
  | some l => obsLead l
  | none => "no-object"

def obsCurLead (st : LStore) : String := obsLeadAt st st.cur

def dumpStore (st : LStore) : String :=
  s!"heap {st.leads.length} {st.cur}" ++
    String.join ((List.range st.leads.length).map (fun k => " # " ++ obsLeadAt st k))

/-! ### pianoroll -/
def obsRoll (r : Roll) : String :=
  obsCommon s!"{r.len} {r.start} {r.stop} {r.numSteps} {r.spq}" r.len r.events r.index r.steps

def pRollInit : P (Except Err Roll) := do
  let start ← P.int; let spq ← P.int; let lo ← P.int; let hi ← P.int; let sh ← P.bool
  let evs ← P.list (pEv (α := List Int))
  -- the constructor appends `events_list` one by one, then sets `_start_step`
  pure (.ok (evs.foldl (fun r e => rstepSkip r (.append e sh)) ⟨[], start, spq, lo, hi⟩))

def pROp : P ROp := do
  let t ← P.next
  match t with
  | "a" => do let sh ← P.bool; let e ← pEv; pure (.append e sh)
  | "sl" => do let n ← P.int; let fl ← P.bool; pure (.setLength n fl)
  | "dc" => pure .deepcopy
  | _ => failure

/-! ### performance -/
def obsPerf (p : Perf) : String :=
  obsCommon s!"{p.len} {p.start} {p.stop} {p.numSteps} {p.maxShift}" p.len p.events p.index p.steps

def pPerfInit : P (Except Err Perf) := do
  let start ← P.int; let mx ← P.int
  pure (.ok ⟨[], start, mx⟩)

def pPOp : P POp := do
  let t ← P.next
  match t with
  | "a" => do let ty ← P.nat; let v ← P.int; pure (.append ty v)
  | "ab" => pure .appendBad
  | "sl" => do let n ← P.int; let fl ← P.bool; pure (.setLength n fl)
  | "tr" => do let n ← P.int; pure (.truncate n)
  | "as" => do let n ← P.int; pure (.appendSteps n)
  | "ts" => do let n ← P.int; pure (.trimSteps n)
  | "dc" => pure .deepcopy
  | _ => failure

/-! ### note performance -/
instance : Ev NEvent where
  parse s := match (s.splitOn ",").mapM String.toInt? with
    | some [a, b, c, d] => some ⟨a, b, c, d⟩
    | _ => none
  render e := s!"{e.shift},{e.pitch},{e.vel},{e.dur}"

def obsNPerf (p : NPerf) : String :=
  obsCommon s!"{p.len} {p.start} {p.stop} {p.numSteps} {p.maxShift}" p.len p.events p.index p.steps

def pNPerfInit : P (Except Err NPerf) := do
  let start ← P.int; let mx ← P.int
  pure (.ok ⟨[], start, mx⟩)

def pNOp : P NOp := do
  let t ← P.next
  match t with
  | "a" => do let e ← pEv; pure (.append e)
  | "ab" => pure .appendBad
  | "sl" => do let n ← P.int; let fl ← P.bool; pure (.setLength n fl)
  | "tr" => do let n ← P.int; pure (.truncate n)
  | "dc" => pure .deepcopy
  | _ => failure

def dispatch (trace : Bool) (cls : String) (init : List String) (ops : List (List String)) : String :=
  match cls with
  | "simple" => match init with
      | pad :: rest => match pad.toInt? with
          | some pad => simpleFamily trace (simpleCls pad) rest ops
          | none => "bad-op"
      | [] => "bad-op"
  | "melody" => simpleFamily trace melodyCls init ops
  | "drum" => simpleFamily trace drumCls init ops
  | "chord" => simpleFamily trace chordCls init ops
  | "lead" => match runToks pLeadInit init with
      | none => "bad-op"
      | some (.error e) => s!"init {e.name}"
      | some (.ok l) => runHist trace pSOp sstatus sskip obsCurLead dumpStore (LStore.single l) ops
  | "roll" => match runToks pRollInit init with
      | none => "bad-op"
      | some (.error e) => s!"init {e.name}"
      | some (.ok r) => runHeap trace pROp rollSem obsRoll r ops
  | "perf" => match runToks pPerfInit init with
      | none => "bad-op"
      | some (.error e) => s!"init {e.name}"
      | some (.ok p) => runHeap trace pPOp perfSem obsPerf p ops
  | "nperf" => match runToks pNPerfInit init with
      | none => "bad-op"
      | some (.error e) => s!"init {e.name}"
      | some (.ok p) => runHeap trace pNOp nperfSem obsNPerf p ops
  | _ => "bad-op"

def step' (line : String) : String :=
  match toks line with
  | mode :: cls :: rest =>
      if mode ≠ "T" ∧ mode ≠ "F" then "bad-op" else
      match splitSemi rest with
      | init :: ops => dispatch (mode = "T") cls init ops
      | [] => "bad-op"
  | _ => "bad-op"

def main : IO Unit := loop step'
