import NoteSeqVerif.Common.Wire
import NoteSeqVerif.Model.C09
/-! line-protocol driver for C09 (compiled; no Mathlib) -/
open NSV NSV.Wire NSV.C09

def showExI : Except String Int → String
  | .ok i => s!"ok {i}"
  | .error e => s!"err {e}"

def step (line : String) : String :=
  match toks line with
  | ["mel_enc", a, b, e] => match a.toInt?, b.toInt?, e.toInt? with
      | some a, some b, some e => showExI (Gen.melEncode a b e)
      | _, _, _ => "bad-op"
  | ["mel_dec", a, i] => match a.toInt?, i.toInt? with
      | some a, some i => s!"ok {Gen.melDecode a i}"
      | _, _ => "bad-op"
  | ["vel", v, n] => match v.toInt?, n.toInt? with
      | some v, some n => s!"ok {Gen.velocityToBin v n} {Gen.velocityBinToVelocity v n}"
      | _, _ => "bad-op"
  | ["perf_n", b, s, lo, hi] => match b.toInt?, s.toInt?, lo.toInt?, hi.toInt? with
      | some b, some s, some lo, some hi => s!"ok {perfNumClasses b s lo hi}"
      | _, _, _, _ => "bad-op"
  | ["perf_enc", b, s, lo, hi, ty, v] => match b.toInt?, s.toInt?, lo.toInt?, hi.toInt?, ty.toNat?, v.toInt? with
      | some b, some s, some lo, some hi, some ty, some v => showExI (perfEncode b s lo hi ty v)
      | _, _, _, _, _, _ => "bad-op"
  | ["perf_dec", b, s, lo, hi, i] => match b.toInt?, s.toInt?, lo.toInt?, hi.toInt?, i.toInt? with
      | some b, some s, some lo, some hi, some i => match perfDecode b s lo hi i with
          | .ok (ty, v) => s!"ok {ty} {v}"
          | .error e => s!"err {e}"
      | _, _, _, _, _ => "bad-op"
  | "drum_enc" :: ps => match ps.mapM String.toNat? with
      | some ps => s!"ok {drumEncode Gen.drumTable ps}"
      | none => "bad-op"
  | ["drum_dec", i] => match i.toNat? with
      | some i => match drumDecode Gen.drumTable i with
          | .ok ps => "ok " ++ showNats ps
          | .error e => s!"err {e}"
      | none => "bad-op"
  | _ => "bad-op"

def main : IO Unit := loop step
