import NoteSeqVerif.Common.Wire
import NoteSeqVerif.Model.C09
/-! line-protocol driver for C09 (compiled; no Mathlib) -/
open NSV NSV.Wire NSV.C09

def showExI : Except String Int → String
  | .ok i => s!"ok {i}"
  | .error e => s!"err {e}"

def showExNats : Except String (List Nat) → String
  | .ok ps => "ok " ++ showNats ps
  | .error e => s!"err {e}"

def tokOf (cs : List Char) : String := if cs.isEmpty then "_" else String.ofList cs

/-- root pitch class and quality of a structured symbol, as `chord_symbol_root` / `chord_symbol_quality` see it -/
def showRQ (ev : ChordEvent) : String :=
  match rootQuality ev with
  | .error e => s!"err {e}"
  | .ok none => "nc"
  | .ok (some (r, q)) => s!"ok {r} {q}"

/-- `ok N.C.` or `ok <root name> <suffix or _> | <root pc and quality of the structured reading>` -/
def showDecoded : Except String ChordDecoded → String
  | .error e => s!"err {e}"
  | .ok .noChord => "ok " ++ Gen.NO_CHORD
  | .ok (.name r s) => match structured (.name r s) with
      | some ev => s!"ok {tokOf r} {tokOf s} | {showRQ ev}"
      | none => s!"ok {tokOf r} {tokOf s} | unparsed"

/-- `<step letter> <alter> <index into Gen.chordKindsByAbbrev> <n> (<index into Gen.degreeMods> <degree>)*` -/
def pSym : P (Option ChordEvent) := do
  let st ← P.str
  let alter ← P.int
  let k ← P.nat
  let ms ← P.list (do let mi ← P.nat; let d ← P.nat; pure (mi, d))
  let mods := ms.mapM (fun (mi, d) => (Gen.degreeMods[mi]?).map (fun (_, op, a) => (⟨op, a, d⟩ : Mod)))
  match st.toList, Gen.chordKindsByAbbrev[k]?, mods with
  | [c], some (ab, _), some mods => pure (some (.sym c alter ab mods))
  | _, _, _ => pure none

def step (line : String) : String :=
  match toks line with
  | ["mel_enc", a, b, e] => match a.toInt?, b.toInt?, e.toInt? with
      | some a, some b, some e => showExI (Gen.melEncode a b e)
      | _, _, _ => "bad-op"
  | ["mel_dec", a, i] => match a.toInt?, i.toInt? with
      | some a, some i => s!"ok {Gen.melDecode a i}"
      | _, _ => "bad-op"
  | ["vel", v, n] => match v.toInt?, n.toInt? with
      | some v, some n => s!"ok {Gen.velocityToBin v n} {Gen.velocityBinToVelocity v n}"
      | _, _ => "bad-op"
  | ["perf_n", b, s, lo, hi] => match b.toInt?, s.toInt?, lo.toInt?, hi.toInt? with
      | some b, some s, some lo, some hi => s!"ok {perfNumClasses b s lo hi}"
      | _, _, _, _ => "bad-op"
  | ["perf_enc", b, s, lo, hi, ty, v] => match b.toInt?, s.toInt?, lo.toInt?, hi.toInt?, ty.toNat?, v.toInt? with
      | some b, some s, some lo, some hi, some ty, some v => showExI (perfEncode b s lo hi ty v)
      | _, _, _, _, _, _ => "bad-op"
  | ["perf_dec", b, s, lo, hi, i] => match b.toInt?, s.toInt?, lo.toInt?, hi.toInt?, i.toInt? with
      | some b, some s, some lo, some hi, some i => match perfDecode b s lo hi i with
          | .ok (ty, v) => s!"ok {ty} {v}"
          | .error e => s!"err {e}"
      | _, _, _, _, _ => "bad-op"
  | "drum_enc" :: ps => match ps.mapM String.toNat? with
      | some ps => s!"ok {drumEncode Gen.drumTable ps}"
      | none => "bad-op"
  | ["drum_dec", i] => match i.toNat? with
      | some i => showExNats (drumDecode Gen.drumTable i)
      | none => "bad-op"
  | "drumg_enc" :: _ => match P.run (do P.lit "drumg_enc"; let ign ← P.bool; let t ← P.list (P.list P.nat)
                                        let ev ← P.list P.nat; pure (ign, t, ev)) line with
      | some (ign, t, ev) => match drumEncodeE t ign ev with
          | .ok i => s!"ok {i}"
          | .error e => s!"err {e}"
      | none => "bad-op"
  | "drumg_dec" :: _ => match P.run (do P.lit "drumg_dec"; let t ← P.list (P.list P.nat)
                                        let i ← P.nat; pure (t, i)) line with
      | some (t, i) => showExNats (drumDecode t i)
      | none => "bad-op"
  | ["mm_dec", i] => match i.toInt? with
      | some i => showDecoded (mmDecode i)
      | none => "bad-op"
  | ["tri_dec", i] => match i.toInt? with
      | some i => showDecoded (triadDecode i)
      | none => "bad-op"
  | ["mm_enc_nc"] => showExI (mmEncode .noChord)
  | ["tri_enc_nc"] => showExI (triadEncode .noChord)
  | "mm_enc" :: _ => match P.run (do P.lit "mm_enc"; pSym) line with
      | some (some ev) => showExI (mmEncode ev)
      | _ => "bad-op"
  | "tri_enc" :: _ => match P.run (do P.lit "tri_enc"; pSym) line with
      | some (some ev) => showExI (triadEncode ev)
      | _ => "bad-op"
  | "sym_rq" :: _ => match P.run (do P.lit "sym_rq"; pSym) line with
      | some (some ev) => showRQ ev
      | _ => "bad-op"
  | "dens_enc" :: _ => match P.run (do P.lit "dens_enc"; let b ← P.list P.rat; let x ← P.rat; pure (b, x)) line with
      | some (b, x) => s!"ok {densEncode b x} {densNumClasses b}"
      | none => "bad-op"
  | "dens_dec" :: _ => match P.run (do P.lit "dens_dec"; let b ← P.list P.rat; let i ← P.int; pure (b, i)) line with
      | some (b, i) => match densDecode b i with
          | .ok v => s!"ok {showRat v}"
          | .error e => s!"err {e}"
      | none => "bad-op"
  | _ => "bad-op"

def main : IO Unit := loop step
