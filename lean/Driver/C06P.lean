import NoteSeqVerif.Model.C06P
/-! line-protocol driver for the performance half of C06 (`-` = Python `None`):

`perf  <start> <bins> <max_shift_steps> <sps> <self.program|-> <self.is_drum|-> <velocity> <instrument> <program|-> <max_note_duration|-> <filter|-> <n> (<type> <value>)*`
`mperf <start> <bins> <max_shift_quarters> <spq> <qpm> <self.program|-> <self.is_drum|-> <velocity> <instrument> <program|-> <max_note_duration|-> <filter|-> <n> (<type> <value>)*`
`nperf <start> <bins> <max_shift_steps> <max_duration_steps> <sps> <self.program|-> <self.is_drum|-> <instrument> <program|-> <filter|-> <n> (<shift> <pitch> <bin> <dur>)*`

answer: `<canonical 0/1> <canonical-full 0/1> | <to_sequence: ok NS… / err X> | <round trip: ok … / err X>` -/
open NSV NSV.Wire NSV.C07 NSV.C06P

def pOptInt : P (Option Int) := do
  let t ← P.next
  if t = "-" then pure none else match t.toInt? with | some i => pure (some i) | none => failure

def pOptBool : P (Option Bool) := do
  let t ← P.next
  if t = "-" then pure none else if t = "1" then pure (some true) else if t = "0" then pure (some false) else failure

def pOptRat : P (Option Rat) := do
  let t ← P.next
  if t = "-" then pure none else match parseRat? t with | some r => pure (some r) | none => failure

def pEvent : P PEvent := do
  let ty ← P.nat
  let v ← P.int
  if ty = Gen.NOTE_ON then pure (.noteOn v)
  else if ty = Gen.NOTE_OFF then pure (.noteOff v)
  else if ty = Gen.TIME_SHIFT then pure (.timeShift v)
  else if ty = Gen.VELOCITY then pure (.velocity v)
  else if ty = Gen.DURATION then pure (.duration v)
  else failure

def pTuple : P NPTuple := do
  let a ← P.int; let b ← P.int; let c ← P.int; let d ← P.int
  pure ⟨a, b, c, d⟩

def showPEvent : PEvent → String
  | .noteOn p => s!"{Gen.NOTE_ON} {p}"
  | .noteOff p => s!"{Gen.NOTE_OFF} {p}"
  | .timeShift v => s!"{Gen.TIME_SHIFT} {v}"
  | .velocity v => s!"{Gen.VELOCITY} {v}"
  | .duration v => s!"{Gen.DURATION} {v}"

def showE {α} (f : α → String) : Except String α → String
  | .ok a => "ok " ++ f a
  | .error e => "err " ++ e

def showPerf (r : PerfResult) : String :=
  s!"{r.stepsPer} {r.startStep} {r.numVelocityBins} {r.maxShiftSteps} " ++ showList showPEvent r.events

def showNotePerf (r : NotePerfResult) : String :=
  s!"{r.stepsPerSecond} {r.startStep} {r.numVelocityBins} " ++
    showList (fun t => s!"{t.shift} {t.pitch} {t.bin} {t.dur}") r.events

def run {α} (p : P α) (ts : List String) : Option α :=
  match (do let a ← p; P.eof; pure a : P α) ts with
  | some (a, _) => some a
  | none => none

def b01 (b : Bool) : String := if b then "1" else "0"

def step (line : String) : String :=
  match toks line with
  | "perf" :: rest =>
    match run (do
        let st ← P.int; let nb ← P.int; let ms ← P.int; let sps ← P.int
        let sp ← pOptInt; let sd ← pOptBool; let vel ← P.int; let inst ← P.int; let prog ← pOptInt
        let md ← pOptRat; let filt ← pOptInt; let evs ← P.list pEvent
        let p : PerfObj := ⟨evs, st, nb, ms, sps, sp, sd⟩
        let a : SeqArgs := ⟨vel, inst, prog, md⟩
        pure (s!"{b01 (CanonicalPerfB nb ms true evs)} {b01 (CanonicalPerfB nb ms false evs)} | " ++
              showE showNoteSeq (liftR (perfToSequenceR rne53 p a)) ++ " | " ++
              showE showPerf (rtPerfR rne53 p a filt))) rest with
    | some r => r
    | none => "bad-op"
  | "mperf" :: rest =>
    match run (do
        let st ← P.int; let nb ← P.int; let msq ← P.int; let spq ← P.int; let qpm ← P.rat
        let sp ← pOptInt; let sd ← pOptBool; let vel ← P.int; let inst ← P.int; let prog ← pOptInt
        let md ← pOptRat; let filt ← pOptInt; let evs ← P.list pEvent
        let p : PerfObj := ⟨evs, st, nb, spq * msq, spq, sp, sd⟩
        let a : SeqArgs := ⟨vel, inst, prog, md⟩
        pure (s!"{b01 (CanonicalPerfB nb (spq * msq) true evs)} {b01 (CanonicalPerfB nb (spq * msq) false evs)} | " ++
              showE showNoteSeq (liftR (metricToSequenceR rne53 p a qpm)) ++ " | " ++
              showE showPerf (rtMetricR rne53 p a qpm msq filt))) rest with
    | some r => r
    | none => "bad-op"
  | "nperf" :: rest =>
    match run (do
        let st ← P.int; let nb ← P.int; let ms ← P.int; let mdur ← P.int; let sps ← P.int
        let sp ← pOptInt; let sd ← pOptBool; let inst ← P.int; let prog ← pOptInt
        let filt ← pOptInt; let ts ← P.list pTuple
        let p : NotePerfObj := ⟨ts, st, nb, sps, sp, sd⟩
        pure (s!"{b01 (CanonicalNotePerfB ms mdur ts)} {b01 (CanonicalNotePerfB ms mdur ts)} | " ++
              showE showNoteSeq (liftR (notePerfToSequenceR rne53 p inst prog)) ++ " | " ++
              showE showNotePerf (rtNotePerfR rne53 p inst prog ms mdur filt))) rest with
    | some r => r
    | none => "bad-op"
  | _ => "bad-op"

def main : IO Unit := loop step
