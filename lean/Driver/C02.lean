import NoteSeqVerif.Model.C02
/-! line-protocol driver for C02.
`ext <n> t* <p> c* NS…` (`p = -1`: default preserve list) · `sub a b NS…` · `trim a b NS…` ·
`hoplist skip <n> t* NS…` · `hop skip h NS…` · `tc skip NS…` · `sil gap NS…` · `arange h total` -/
open NSV NSV.Wire NSV.C02

def pPreserve : P (List Int) := do
  let n ← P.int
  if n < 0 then pure Gen.PRESERVE else P.rep P.int n.toNat

def pReq : P String := do
  let op ← P.next
  match op with
  | "ext" => do
      let st ← P.list P.rat; let pres ← pPreserve; let s ← pNoteSeq
      pure (showResults (extractSubsequencesR rne53 pres s st))
  | "sub" => do
      let a ← P.rat; let b ← P.rat; let s ← pNoteSeq
      pure (showResult (extractSubsequence s a b))
  | "trim" => do
      let a ← P.rat; let b ← P.rat; let s ← pNoteSeq
      pure (showResult (trim s a b))
  | "hoplist" => do
      let skip ← P.bool; let hs ← P.list P.rat; let s ← pNoteSeq
      pure (showResults (splitHopList s hs skip))
  | "hop" => do
      let skip ← P.bool; let h ← P.rat; let s ← pNoteSeq
      pure (showResults (splitHop s h skip))
  | "tc" => do
      let skip ← P.bool; let s ← pNoteSeq
      pure (showResults (splitTimeChanges s skip))
  | "sil" => do
      let gap ← P.rat; let s ← pNoteSeq
      pure (showResults (splitSilence s gap))
  | "arange" => do
      let h ← P.rat; let total ← P.rat
      pure ("ok " ++ showList showRat (hopTimesR rne53 h total))
  | _ => failure

def step (line : String) : String :=
  match P.run pReq line with
  | some r => r
  | none => "bad-op"

def main : IO Unit := loop step
