import NoteSeqVerif.Model.C10
import NoteSeqVerif.Model.C10Heap
import NoteSeqVerif.Model.C10World
/-! line-protocol driver for C10 (strings travel as `x` + hex of their UTF-8 bytes).

`pc <step> <alter> <k>`
`sym <sym> <n> k*`
`tns <k> <min> <max> <transpose_chords> <table> NS…`
`aug <minT> <maxT> <min> <max> <delete> <pick> <table> NS…`
`mel <k> <min> <max> <n> e*`, `key <n> e*`, `squash <min> <max> <key|N> <n> e*`
`cp <k> <table> <n> fig*`, `ls <k> <min> <max> <table> <n> e* <m> fig*`, `lsq <min> <max> <key> <table> <n> e* <m> fig*`
`clamp <amount> <ns_min> <ns_max> <min> <max>`
`hist <table> <nobj> (<n> e* <m> fig*)* <nops> (d <i> | t <i> <k> <min> <max> | s <i> <min> <max> <key>)*` — objects and a history
of deepcopy / transpose / squash over them; answer: after every operation its result and every object
`world <table> <nE> (<n> e*)* <nF> (<m> fig*)* <nops> (b <e|-> <f|-> | d <i> | t … | s …)*` — the caller's events / figures
lists, then a history in which `b` builds an object from lists `e` / `f`; answer: after every operation its result, every
object, and every caller's list
`<sym>` = `<rootStep> <rootAlter> <kind> <mods> <n> (<type> <degree>)* <hasBass> <bassStep> <bassAlter>`
`<table>` = `<n> (<text> (U | S <sym>))*` — what the real `_split_chord_symbol` said about each text. -/
open NSV NSV.Wire NSV.C10

def hexDigit (n : Nat) : Char := if n < 10 then Char.ofNat (48 + n) else Char.ofNat (87 + n)

def hex (s : String) : String :=
  String.ofList ('x' :: s.toUTF8.toList.flatMap (fun b => [hexDigit (b.toNat / 16), hexDigit (b.toNat % 16)]))

def unhexDigit (c : Char) : Option Nat :=
  if '0' ≤ c ∧ c ≤ '9' then some (c.toNat - 48)
  else if 'a' ≤ c ∧ c ≤ 'f' then some (c.toNat - 87)
  else none

def unhexBytes : List Char → Option (List UInt8)
  | [] => some []
  | [_] => none
  | a :: b :: r => do
    let x ← unhexDigit a
    let y ← unhexDigit b
    let rest ← unhexBytes r
    pure (UInt8.ofNat (x * 16 + y) :: rest)

def unhex (t : String) : Option String :=
  match t.toList with
  | 'x' :: r => do
    let bs ← unhexBytes r
    String.fromUTF8? (ByteArray.mk bs.toArray)
  | _ => none

def pHex : P String := do
  let t ← P.str
  match unhex t with
  | some s => pure s
  | none => failure

def pStep : P Step := do
  let i ← P.nat
  match Step.ofIdx? i with
  | some s => pure s
  | none => failure

def pPC : P PC := do let step ← pStep; let alter ← P.int; pure { step, alter }

def pMod : P Mod := do let type ← pHex; let degree ← P.int; pure { type, degree }

def pSym : P Sym := do
  let root ← pPC
  let kind ← pHex
  let mods ← pHex
  let modList ← P.list pMod
  let hasBass ← P.bool
  let b ← pPC
  pure { root, kind, mods, modList, bass := if hasBass then some b else none }

def pEntry : P (String × Except Err Sym) := do
  let text ← pHex
  let tag ← P.str
  if tag = "U" then pure (text, .error chordSymbolError)
  else if tag = "S" then do let c ← pSym; pure (text, .ok c)
  else failure

abbrev Table := List (String × Except Err Sym)

/-- the splitter parameter of the model, instantiated with the real splitter's answers -/
def splitOf (tbl : Table) (text : String) : Except Err Sym :=
  match tbl.lookup text with
  | some r => r
  | none => .error (.other "MISSING-SPLIT-ENTRY")

def showPC (p : PC) : String := s!"{p.step.idx} {p.alter}"

def showSymStruct (c : Sym) : String :=
  match c.bass with
  | some b => s!"{showPC c.root} 1 {showPC b}"
  | none => s!"{showPC c.root} 0 0 0"

def showExceptInt (r : Except Err Int) : String :=
  match r with
  | .ok q => toString q
  | .error e => "E:" ++ e.name

def showExceptInts (r : Except Err (List Int)) : String :=
  match r with
  | .ok l => showInts l
  | .error e => "E:" ++ e.name

/-- root, bass, quality, pitches -/
def showSymValues (c : Sym) : String :=
  s!"{symRoot c} {symBass c} {showExceptInt (symQuality c)} {showExceptInts (symPitches c)}"

def showSymAt (c : Sym) (k : Int) : String :=
  let t := transposeSym c k
  s!"{hex (render t)} {showSymStruct t} {showSymValues t} {hex (render (transposeSym t (-k)))} {hex (render (transposeSym t 12))}"

def decodeTexts (s : NoteSeq) : Option NoteSeq := do
  let texts ← s.texts.mapM (fun t => do let x ← unhex t.text; pure { t with text := x })
  pure { s with texts := texts }

def encodeTexts (s : NoteSeq) : NoteSeq := { s with texts := s.texts.map (fun t => { t with text := hex t.text }) }

def pSeq : P NoteSeq := do
  let s ← pNoteSeq
  match decodeTexts s with
  | some s => pure s
  | none => failure

def showStatus (e : Option Err) : String :=
  match e with
  | none => "ok"
  | some e => "err:" ++ e.name

def pKey : P (Option Int) := do
  let t ← P.str
  if t = "N" then pure none else match t.toInt? with | some i => pure (some i) | none => failure

def pickOf (mode : Nat) (a b : Int) : Int :=
  if mode = 0 then a else if mode = 1 then b else Int.fdiv (a + b) 2

def pObj : P Obj := do let es ← P.list P.int; let figs ← P.list pHex; pure { es, figs }

def pHOp : P HOp := do
  let t ← P.str
  if t = "d" then do let i ← P.nat; pure (.deepcopy i)
  else if t = "t" then do let i ← P.nat; let k ← P.int; let mn ← P.int; let mx ← P.int; pure (.transpose i k mn mx)
  else if t = "s" then do let i ← P.nat; let mn ← P.int; let mx ← P.int; let key ← P.int; pure (.squash i mn mx key)
  else failure

def showHRes : HRes → String
  | .ok => "ok"
  | .amount a => s!"ok:{a}"
  | .err e => "err:" ++ e.name
  | .noObject => "no-object"

def pOptNat : P (Option Nat) := do
  let t ← P.str
  if t = "-" then pure none else match t.toNat? with
    | some n => pure (some n)
    | none => failure

def pWOp : P WOp := do
  let t ← P.str
  if t = "b" then do let e ← pOptNat; let f ← pOptNat; pure (.build e f)
  else if t = "d" then do let i ← P.nat; pure (.obj (.deepcopy i))
  else if t = "t" then do let i ← P.nat; let k ← P.int; let mn ← P.int; let mx ← P.int; pure (.obj (.transpose i k mn mx))
  else if t = "s" then do let i ← P.nat; let mn ← P.int; let mx ← P.int; let key ← P.int; pure (.obj (.squash i mn mx key))
  else failure

def showObj (o : Obj) : String := s!"{showInts o.es} {showList hex o.figs}"

def run (p : P String) (rest : List String) : String :=
  match (do let a ← p; P.eof; pure a : P String) rest with
  | some (a, _) => a
  | none => "bad-op"

def step (line : String) : String :=
  match toks line with
  | "pc" :: rest => run (do
      let p ← pPC; let k ← P.int
      let t := transposePC p k
      let back := match parsePCChars (pcChars t) with
        | some q => showPC q
        | none => "none"
      pure s!"ok {showPC t} {p.midi} {t.midi} {hex (pcToString t)} {back}") rest
  | "sym" :: rest => run (do
      let c ← pSym; let ks ← P.list P.int
      pure ("ok " ++ hex (render c) ++ " " ++ showSymValues c ++ " | " ++ " | ".intercalate (ks.map (showSymAt c)))) rest
  | "tns" :: rest => run (do
      let k ← P.int; let mn ← P.int; let mx ← P.int; let tc ← P.bool
      let tbl ← P.list pEntry
      let s ← pSeq
      pure (match transposeNS (splitOf tbl) s k mn mx tc with
        | .ok (r, del) => s!"ok {del} " ++ showNoteSeq (encodeTexts r)
        | .error e => "err " ++ e.name)) rest
  | "aug" :: rest => run (do
      let minT ← P.int; let maxT ← P.int; let mn ← P.int; let mx ← P.int; let del ← P.bool
      let mode ← P.nat
      let tbl ← P.list pEntry
      let s ← pSeq
      pure (match augmentRange s minT maxT mn mx del, augment (splitOf tbl) (pickOf mode) s minT maxT mn mx del with
        | .ok rg, .ok r =>
          let rs := match rg with
            | some (a, b) => s!"{a} {b}"
            | none => "- -"
          s!"ok {rs} " ++ showNoteSeq (encodeTexts r)
        | _, .error e => "err " ++ e.name
        | .error e, _ => "err " ++ e.name)) rest
  | "mel" :: rest => run (do
      let k ← P.int; let mn ← P.int; let mx ← P.int; let es ← P.list P.int
      pure ("ok " ++ showInts (melTranspose k mn mx es))) rest
  | "key" :: rest => run (do
      let es ← P.list P.int
      pure s!"ok {majorKey es}") rest
  | "squash" :: rest => run (do
      let mn ← P.int; let mx ← P.int; let key ← pKey; let es ← P.list P.int
      let r := squash es mn mx key
      pure s!"ok {r.2} {showInts r.1}") rest
  | "cp" :: rest => run (do
      let k ← P.int; let tbl ← P.list pEntry; let figs ← P.list pHex
      let r := cpTranspose (splitOf tbl) k figs
      pure s!"{showStatus r.2} {showList hex r.1}") rest
  | "ls" :: rest => run (do
      let k ← P.int; let mn ← P.int; let mx ← P.int; let tbl ← P.list pEntry
      let es ← P.list P.int; let figs ← P.list pHex
      let r := lsTranspose (splitOf tbl) k mn mx es figs
      pure s!"{showStatus r.2.2} {showInts r.1} {showList hex r.2.1}") rest
  | "lsq" :: rest => run (do
      let mn ← P.int; let mx ← P.int; let key ← P.int; let tbl ← P.list pEntry
      let es ← P.list P.int; let figs ← P.list pHex
      let r := lsSquashR rne53 (splitOf tbl) mn mx key es figs
      let amount := match r.2.2.2 with
        | none => toString r.2.1
        | some _ => "-"
      pure s!"{showStatus r.2.2.2} {amount} {showInts r.1} {showList hex r.2.2.1}") rest
  | "hist" :: rest => run (do
      let tbl ← P.list pEntry; let objs ← P.list pObj; let ops ← P.list pHOp
      let tr := hTrace (splitOf tbl) objs ops
      pure (" || ".intercalate (tr.map (fun r => showHRes r.2 ++ " ; " ++ " | ".intercalate (r.1.map showObj))))) rest
  | "world" :: rest => run (do
      let tbl ← P.list pEntry; let evs ← P.list (P.list P.int); let figs ← P.list (P.list pHex); let ops ← P.list pWOp
      let tr := wTrace (splitOf tbl) ⟨evs, figs, []⟩ ops
      pure (" || ".intercalate (tr.map (fun r => showHRes r.2 ++ " ; " ++ " | ".intercalate (r.1.heap.map showObj)
        ++ " ## " ++ " | ".intercalate (r.1.evLists.map showInts) ++ " # " ++ " | ".intercalate (r.1.figLists.map (showList hex)))))) rest
  | "clamp" :: rest => run (do
      let a ← P.int; let lo ← P.int; let hi ← P.int; let mn ← P.int; let mx ← P.int
      pure s!"ok {Gen.clampTranspose a lo hi mn mx}") rest
  | _ => "bad-op"

def main : IO Unit := loop step
