import NoteSeqVerif.Common.Wire
import NoteSeqVerif.Common.Float
import NoteSeqVerif.Model.C19
/-! line-protocol driver for C19 (compiled; no Mathlib).

Scores travel either as integers / `-inf` (run over `Ext`: exact addition, −∞ absorbing) or as the
16-hex-digit bit pattern of a binary64 (run over Lean's native `Float`: the same IEEE additions
as numpy).  The big key-chord transition table (1164²) is sent once (`setF`) and kept in the
driver's state, or regenerated on both sides from a seed (`lcg`, integer-valued).

  setF <n> <n*n hex>                         -> ok
  kcF <C> <frames> <nl> <kc 12*C> <fl frames*C> (cur | inline <(12C)^2 hex> | lcg <seed> <lo> <hi> <pinf>)
  melI <P> <frames> <tr (2P+1)^2> <fl frames*(2P+1)>      (also melF)
  melQ / kcQ (inline only): the same over `ExtQ` with `rne53 (a + b)` as the addition (hex in, exact rational out)
        -> ok <frames> <state>* <optimum>   |  err <name>
  cw <C> <addKeys> (pc <spc> <stepsPerChord> | bt <n> <time>* <hasSteps> [<n> <step>*]) <n> <state>*
        -> ok <k> (<frame> <time> <step|-> <hextext>)* <m> (<frame> <time> <key>)*
  mw <total> <np> <pitch>* <n> <state>* <n> <time>*   -> ok <k> (<start> <stop> <pitch>)*
  mi <n> <instrument>*                         -> ok <instrument>
  nf <total> <n> (<pitch> <start> <stop> <drum> <program>)*     -> ok <pitches> <eventTimes> <onsets> <present>
  rot <k> <c>  /  cnt <key> <c>  /  vec <c>    -> the rotation tables -/
open NSV NSV.Wire NSV.C19

structure DState where
  trF : FloatArray := FloatArray.empty

def parseExt? (s : String) : Option Ext :=
  if s = "-inf" then some .ninf else s.toInt?.map .fin

def showExt : Ext → String
  | .ninf => "-inf"
  | .fin v => toString v

def hexVal (c : Char) : Option UInt64 :=
  if '0' ≤ c ∧ c ≤ '9' then some (c.toNat - '0'.toNat).toUInt64
  else if 'a' ≤ c ∧ c ≤ 'f' then some (c.toNat - 'a'.toNat + 10).toUInt64
  else none

def parseHex? (s : String) : Option Float :=
  (s.foldl (fun acc c => match acc, hexVal c with
    | some a, some v => some (a * 16 + v)
    | _, _ => none) (some 0)).map Float.ofBits

def hexDigit (n : UInt64) : Char := "0123456789abcdef".toList.getD n.toNat '0'

def showHex (f : Float) : String :=
  let b := f.toBits
  String.ofList ((List.range 16).map fun i => hexDigit ((b >>> (60 - 4 * i).toUInt64) &&& 15))

def splitmix (seed k : UInt64) : UInt64 :=
  let z := seed + k * 0x9E3779B97F4A7C15
  let z := (z ^^^ (z >>> 30)) * 0xBF58476D1CE4E5B9
  let z := (z ^^^ (z >>> 27)) * 0x94D049BB133111EB
  z ^^^ (z >>> 31)

/-- the pseudo-random integer table shared with the harness -/
def lcgEntry (seed : UInt64) (lo hi : Int) (pinf : Nat) (k : Nat) : Ext :=
  let h := splitmix seed k.toUInt64
  if ((h >>> 40) % 100).toNat < pinf then .ninf
  else .fin (lo + ((h % (hi - lo + 1).toNat.toUInt64).toNat : Int))

def extToFloat : Ext → Float
  | .ninf => -(1.0 / 0.0)
  | .fin v => Float.ofInt v

/-- the exact value of a double given by its bit pattern (finite or −∞; anything else is refused) -/
def parseHexQ? (s : String) : Option ExtQ := do
  let f ← parseHex? s
  let b := f.toBits.toNat
  let sign : Nat := b / 2 ^ 63
  let e : Nat := (b / 2 ^ 52) % 2048
  let m : Nat := b % 2 ^ 52
  if e = 2047 then (if m = 0 ∧ sign = 1 then some .ninf else none)
  else
    let mant : Int := if e = 0 then (m : Int) else ((m + 2 ^ 52 : Nat) : Int)
    let ex : Int := (if e = 0 then (1 : Int) else (e : Int)) - 1075
    let v : Rat := if 0 ≤ ex then ((mant * 2 ^ ex.toNat : Int) : Rat) else mkRat mant (2 ^ (-ex).toNat)
    some (.fin (if sign = 1 then -v else v))

def showExtQ : ExtQ → String
  | .ninf => "-inf"
  | .fin v => showRat v

instance : Inhabited ExtQ := ⟨.ninf⟩

def takeN (n : Nat) (l : List String) : Option (List String × List String) :=
  if l.length < n then none else some (l.take n, l.drop n)

def arr2 {α} [Inhabited α] (a : Array α) (w : Nat) : Nat → Nat → α := fun i j => a.getD (i * w + j) default

instance : Inhabited Ext := ⟨.ninf⟩

def showRun {S} (sh : S → String) (r : Except String (List Nat)) (opt : S) : String :=
  match r with
  | .ok p => "ok " ++ showNats p ++ " " ++ sh opt
  | .error e => "err " ++ e

@[inline] def runTables {S} [LT S] [DecidableLT S] (add : S → S → S) (sh : S → String) (T : Tables S) (frames : Nat) : String :=
  match viterbiFull add T frames with
  | .ok r => "ok " ++ showNats r.1 ++ " " ++ sh r.2
  | .error e => "err " ++ e

def addF (a b : Float) : Float := a + b

def kcFReq (st : DState) (rest : List String) : Option String := do
  let (c :: fr :: nl :: rest) := rest | none
  let C ← c.toNat?
  let frames ← fr.toNat?
  let nl ← parseHex? nl
  let (kcT, rest) ← takeN (12 * C) rest
  let (flT, rest) ← takeN (frames * C) rest
  let kc ← (kcT.mapM parseHex?).map List.toArray
  let fl ← (flT.mapM parseHex?).map List.toArray
  let n := 12 * C
  let tr : FloatArray ← match rest with
    | ["cur"] => if st.trF.size = n * n then some st.trF else none
    | "inline" :: ts => if ts.length = n * n then (ts.mapM parseHex?).map (fun l => FloatArray.mk l.toArray) else none
    | ["lcg", seed, lo, hi, pinf] => do
        let seed ← seed.toNat?
        let lo ← lo.toInt?
        let hi ← hi.toInt?
        let pinf ← pinf.toNat?
        some (FloatArray.mk (Array.ofFn (n := n * n) fun k => extToFloat (lcgEntry seed.toUInt64 lo hi pinf k.val)))
    | _ => none
  pure (runTables addF showHex
    (kcTables addF C nl (fun i j => kc.getD (i * C + j) 0) (fun i j => fl.getD (i * C + j) 0)
      (fun i j => tr.get! (i * n + j))) frames)

/-- key-chord layout over `ExtQ` with `rne53` additions (inline table only) -/
def kcQReq (rest : List String) : Option String := do
  let (c :: fr :: nl :: rest) := rest | none
  let C ← c.toNat?
  let frames ← fr.toNat?
  let nl ← parseHexQ? nl
  let (kcT, rest) ← takeN (12 * C) rest
  let (flT, rest) ← takeN (frames * C) rest
  let kc ← (kcT.mapM parseHexQ?).map List.toArray
  let fl ← (flT.mapM parseHexQ?).map List.toArray
  let n := 12 * C
  let tr : Array ExtQ ← match rest with
    | "inline" :: ts => if ts.length = n * n then (ts.mapM parseHexQ?).map List.toArray else none
    | _ => none
  pure (runTables (ExtQ.addR rne53) showExtQ (kcTables (ExtQ.addR rne53) C nl (arr2 kc C) (arr2 fl C) (arr2 tr n)) frames)

@[specialize] def melReq {S} [LT S] [DecidableLT S] [Inhabited S] (add : S → S → S) (parse : String → Option S)
    (sh : S → String) (rest : List String) : Option String := do
  let (p :: fr :: rest) := rest | none
  let P ← p.toNat?
  let frames ← fr.toNat?
  let n := 2 * P + 1
  let (trT, rest) ← takeN (n * n) rest
  let (flT, rest) ← takeN (frames * n) rest
  if rest ≠ [] then none
  let tr ← (trT.mapM parse).map List.toArray
  let fl ← (flT.mapM parse).map List.toArray
  pure (runTables add sh (melTables add P (arr2 fl n) (arr2 tr n)) frames)

def pTiming : P Timing := do
  let k ← P.next
  if k = "pc" then do
    let spc ← P.rat
    let s ← P.int
    pure (.perChord spc s)
  else if k = "bt" then do
    let ts ← P.list P.rat
    let hs ← P.bool
    if hs then do
      let ss ← P.list P.int
      pure (.beats ts (some ss))
    else pure (.beats ts none)
  else failure

def hexStr (s : String) : String :=
  "x" ++ String.join (s.toUTF8.toList.map fun b =>
    String.ofList [hexDigit ((b.toUInt64 >>> (4 : UInt64))), hexDigit (b.toUInt64 &&& (15 : UInt64))])

def cwReq (rest : List String) : Option String :=
  let p : P String := do
    let C ← P.nat
    let ak ← P.bool
    let tm ← pTiming
    let path ← P.list P.nat
    P.eof
    pure (match kcStates C path with
      | .error e => "err " ++ e
      | .ok states => match chordWriter rne53 tm ak states with
        | .error e => "err " ++ e
        | .ok (anns, keys) =>
            "ok " ++ showList (fun (a : ChordAnn) => s!"{a.frame} {showRat a.time} " ++
              (match a.step with | some q => toString q | none => "-") ++ " " ++ hexStr a.text) anns
            ++ " " ++ showList (fun (k : KeySig) => s!"{k.frame} {showRat k.time} {k.key}") keys)
  (p rest).map (·.1)

def mwReq (rest : List String) : Option String :=
  let p : P String := do
    let total ← P.rat
    let pitches ← P.list P.nat
    let path ← P.list P.nat
    let times ← P.list P.rat
    P.eof
    pure (match melEvents pitches path with
      | .error e => "err " ++ e
      | .ok evs => match melWriter total none (evs.zip times) with
        | .error e => "err " ++ e
        | .ok notes => "ok " ++ showList (fun (n : MelNote Rat) => s!"{showRat n.start} {showRat n.stop} {n.pitch}") notes)
  (p rest).map (·.1)

def nfReq (rest : List String) : Option String :=
  let p : P String := do
    let total ← P.rat
    let notes ← P.list (do
      let pitch ← P.nat
      let s ← P.rat
      let e ← P.rat
      let d ← P.bool
      let pr ← P.nat
      pure (FNote.mk pitch s e d pr))
    P.eof
    let f := noteFrames notes total
    let sp := showList fun (x : Nat × Nat) => s!"{x.1} {x.2}"
    pure ("ok " ++ showNats f.pitches ++ " " ++ showList showRat f.eventTimes ++ " " ++ sp f.onsets ++ " " ++ sp f.present)
  (p rest).map (·.1)

def step (st : DState) (line : String) : DState × String :=
  match toks line with
  | "setF" :: n :: ts => match n.toNat?, ts.mapM parseHex? with
      | some n, some l => if l.length = n * n then ({ st with trF := FloatArray.mk l.toArray }, "ok") else (st, "bad-op")
      | _, _ => (st, "bad-op")
  | "kcF" :: rest => (st, (kcFReq st rest).getD "bad-op")
  | "melI" :: rest => (st, (melReq Ext.add parseExt? showExt rest).getD "bad-op")
  | "melF" :: rest => (st, (melReq addF parseHex? showHex rest).getD "bad-op")
  | "melQ" :: rest => (st, (melReq (ExtQ.addR rne53) parseHexQ? showExtQ rest).getD "bad-op")
  | "kcQ" :: rest => (st, (kcQReq rest).getD "bad-op")
  | "cw" :: rest => (st, (cwReq rest).getD "bad-op")
  | "mw" :: rest => (st, (mwReq rest).getD "bad-op")
  | "nf" :: rest => (st, (nfReq rest).getD "bad-op")
  | "mi" :: rest => match rest.mapM String.toInt? with
      | some (n :: l) => if n = l.length then (st, s!"ok {melodyInstrument l}") else (st, "bad-op")
      | _ => (st, "bad-op")
  | ["rot", k, c] => match k.toNat?, c.toNat? with
      | some k, some c => (st, s!"ok {rotChord k c}")
      | _, _ => (st, "bad-op")
  | ["cnt", key, c] => match key.toNat?, c.toNat? with
      | some key, some c => (st, s!"ok {numIn key c} {numOut key c}")
      | _, _ => (st, "bad-op")
  | ["vec", c] => match c.toNat? with
      | some c => (st, "ok " ++ " ".intercalate ((List.range 12).map fun pc => showBool (chordVec c pc)))
      | none => (st, "bad-op")
  | _ => (st, "bad-op")

partial def main : IO Unit := do
  let stdin ← IO.getStdin
  let stdout ← IO.getStdout
  let rec go (st : DState) : IO Unit := do
    let line ← stdin.getLine
    if line.isEmpty then return ()
    let (st', out) := step st line
    stdout.putStrLn out
    go st'
  go {}
  stdout.flush
