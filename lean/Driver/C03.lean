import NoteSeqVerif.Model.C03
/-! line-protocol driver for C03 (R = rne53):
`t2k <M> <tickmap> <n t*>`, `k2t <tickmap> <n k*>`, `tempos <res> <tickmap>`, `micros <res> <n c*>`,
`uscale <res> <n us*>`, `write <drop|-> NS…`, `read PM…`, `ekey <key> <mode>`, `dkey <kn>`,
`rt <drop|-> NS…` (writer → assumed transport → reader). -/
open NSV NSV.Wire NSV.C03

def parse {α} (p : P α) (ts : List String) : Option α :=
  match (do let a ← p; P.eof; pure a : P α) ts with
  | some (a, _) => some a
  | none => none

def pDrop : P (Option Rat) := do
  let t ← P.next
  if t = "-" then pure none else match parseRat? t with
    | some r => pure (some r)
    | none => failure

def showW (r : Except WErr PM) : String :=
  match r with
  | .ok pm => "ok " ++ showPM pm
  | .error e => "err " ++ e.name

def showR (r : Except RErr NoteSeq) : String :=
  match r with
  | .ok s => "ok " ++ showNoteSeq s
  | .error _ => "err MIDIConversionError"

def step (line : String) : String :=
  match toks line with
  | "t2k" :: rest =>
      match parse (do let M ← P.int; let m ← pTickMap; let ts ← P.list P.rat; pure (M, m, ts)) rest with
      | some (M, m, ts) => "ok " ++ showInts (ts.map (timeToTick rne53 m M))
      | none => "bad-op"
  | "k2t" :: rest =>
      match parse (do let m ← pTickMap; let ks ← P.list P.int; pure (m, ks)) rest with
      | some (m, ks) => "ok " ++ showList showRat (ks.map (tickToTime rne53 m))
      | none => "bad-op"
  | "tempos" :: rest =>
      match parse (do let res ← P.int; let m ← pTickMap; pure (res, m)) rest with
      | some (res, m) => "ok " ++ showList showTempo (getTempoChanges rne53 m res)
      | none => "bad-op"
  | "micros" :: rest =>
      match parse (do let res ← P.int; let cs ← P.list P.rat; pure (res, cs)) rest with
      | some (res, cs) => "ok " ++ showInts (cs.map (tempoMicros rne53 res))
      | none => "bad-op"
  | "uscale" :: rest =>
      match parse (do let res ← P.int; let us ← P.list P.int; pure (res, us)) rest with
      | some (res, us) => "ok " ++ showList showRat (us.map (scaleOfMicros rne53 res))
      | none => "bad-op"
  | "write" :: rest =>
      match parse (do let d ← pDrop; let s ← pNoteSeq; pure (d, s)) rest with
      | some (d, s) => showW (writePM rne53 s d)
      | none => "bad-op"
  | "rt" :: rest =>
      match parse (do let d ← pDrop; let s ← pNoteSeq; pure (d, s)) rest with
      | some (d, s) => match roundTripExec rne53 s d with
          | .ok r => "ok " ++ showNoteSeq r
          | .error e => "err " ++ e
      | none => "bad-op"
  | "read" :: rest =>
      match parse pPM rest with
      | some pm => showR (readPM rne53 pm)
      | none => "bad-op"
  | ["ekey", k, m] => match k.toInt?, m.toInt? with
      | some k, some m => s!"ok {encodeKey k m}"
      | _, _ => "bad-op"
  | ["dkey", kn] => match kn.toInt? with
      | some kn => match decodeKey kn with
          | .ok (k, m) => s!"ok {k} {m}"
          | .error _ => "err MIDIConversionError"
      | none => "bad-op"
  | _ => "bad-op"

def main : IO Unit := loop step
