import NoteSeqVerif.Model.C06
/-! line-protocol driver for C06 (float ops = `rne53`; chord figures hex-encoded):
`melody <spq> <S> <qpm> <t0> <vel> <inst> <prog> <ss> <gap_bars> <ignore_poly> <pad_end> <filter_drums> <n> ev*`
`drums  <spq> <S> <qpm> <t0> <vel> <inst> <prog> <ss> <gap_bars> <pad_end> <ignore_is_drum> <n> (<m> p*)*`
`chords <spq> <S> <qpm> <t0> <n> fig*`
`lead   <spq> <S> <qpm> <t0> <vel> <inst> <ss> <gap_bars> <ignore_poly> <pad_end> <filter_drums> <n> ev* <n> fig*`
`roll   <spq> <S> <qpm> <vel> <inst> <prog> <minp> <maxp> <split> <n> (<m> p*)*`
response: `canon=<0|1> | <rendered: ok NS… | err X> | <quantized: ok NS… | err X> | <extracted: ok … | err X>` -/
open NSV NSV.Wire NSV.C06 NSV.C07

def showSimple {α} (f : α → String) (r : SimpleResult α) : String :=
  s!"{r.startStep} {r.endStep} {r.stepsPerBar} {r.stepsPerQuarter} " ++ showList f r.events

def showRender : Except XErr NoteSeq → String
  | .ok s => "ok " ++ showNoteSeq s
  | .error e => "err " ++ e.name

def showRT {α} (f : α → String) : Except RTErr α → String
  | .ok a => "ok " ++ f a
  | .error e => "err " ++ e.name

def respond {α} (canon : Bool) (r : Except XErr NoteSeq) (spq : Int) (x : Except RTErr α) (f : α → String) :
    String :=
  s!"canon={showBool canon} | {showRender r} | {showRT showNoteSeq (quantizeStage rne53 spq r)} | {showRT f x}"

def run {α} (p : P α) (ts : List String) : Option α :=
  match (do let a ← p; P.eof; pure a : P α) ts with
  | some (a, _) => some a
  | none => none

def step (line : String) : String :=
  match toks line with
  | "melody" :: rest =>
    match run (do
        let spq ← P.int; let S ← P.int; let qpm ← P.rat; let t0 ← P.rat; let vel ← P.int; let inst ← P.int
        let prog ← P.int; let ss ← P.int; let gap ← P.int; let ip ← P.bool; let pad ← P.bool; let fd ← P.bool
        let ev ← P.list P.int
        pure (respond (decide (CanonicalMelody (4 * spq) (gap * (4 * spq)) pad ss S ev))
          (renderMelody rne53 ev S spq vel inst prog t0 qpm) spq
          (tripMelody rne53 ev S spq vel inst prog t0 qpm ss gap ip pad fd) (showSimple toString))) rest with
    | some r => r
    | none => "bad-op"
  | "drums" :: rest =>
    match run (do
        let spq ← P.int; let S ← P.int; let qpm ← P.rat; let t0 ← P.rat; let vel ← P.int; let inst ← P.int
        let prog ← P.int; let ss ← P.int; let gap ← P.int; let pad ← P.bool; let ign ← P.bool
        let ev ← P.list (P.list P.int)
        pure (respond (decide (CanonicalDrums (4 * spq) (gap * (4 * spq)) pad ss S ev))
          (renderDrums rne53 ev S spq vel inst prog t0 qpm) spq
          (tripDrums rne53 ev S spq vel inst prog t0 qpm ss gap pad ign) (showSimple showInts))) rest with
    | some r => r
    | none => "bad-op"
  | "chords" :: rest =>
    match run (do
        let spq ← P.int; let S ← P.int; let qpm ← P.rat; let t0 ← P.rat
        let ev ← P.list P.str
        pure (respond (decide (CanonicalChords S ev))
          (renderChords rne53 ev S spq t0 qpm) spq
          (tripChords rne53 ev S spq t0 qpm) (showSimple id))) rest with
    | some r => r
    | none => "bad-op"
  | "lead" :: rest =>
    match run (do
        let spq ← P.int; let S ← P.int; let qpm ← P.rat; let t0 ← P.rat; let vel ← P.int; let inst ← P.int
        let ss ← P.int; let gap ← P.int; let ip ← P.bool; let pad ← P.bool; let fd ← P.bool
        let mel ← P.list P.int
        let ch ← P.list P.str
        pure (respond (decide (CanonicalLeadSheet (4 * spq) (gap * (4 * spq)) pad ss S mel ch))
          (renderLeadSheet rne53 mel ch S spq vel inst t0 qpm) spq
          (tripLeadSheet rne53 mel ch S spq vel inst t0 qpm ss gap ip pad fd)
          (fun (m, c) => showSimple toString m ++ " ; " ++ showSimple id c))) rest with
    | some r => r
    | none => "bad-op"
  | "roll" :: rest =>
    match run (do
        let spq ← P.int; let S ← P.int; let qpm ← P.rat; let vel ← P.int; let inst ← P.int
        let prog ← P.int; let lo ← P.int; let hi ← P.int; let split ← P.bool
        let ev ← P.list (P.list P.int)
        pure (respond (decide (CanonicalPianoroll lo hi S ev))
          (renderPianoroll rne53 ev S spq lo vel inst prog qpm) spq
          (tripPianoroll rne53 ev S spq lo hi vel inst prog qpm split)
          (fun r => s!"{r.startStep} {r.stepsPerQuarter} " ++ showList showInts r.events))) rest with
    | some r => r
    | none => "bad-op"
  | _ => "bad-op"

def main : IO Unit := loop step
