import NoteSeqVerif.Common.Wire
import NoteSeqVerif.Model.C20
/-! line-protocol driver for C20 (compiled; no Mathlib).  Requests (one per line):
  i2f <dtype> <n> int*            int16_samples_to_float32
  f2i <dtype> <n> rat*            float_samples_to_int16        (`undef` = cast outside int16)
  wavrt <dtype> <n> rat*          samples_to_wav_data ; wav_data_to_samples (codec = identity)
  wavdec i|f <dtype> <n> num*     wav_data_to_samples on a decoded mono array
  crop <rate> <begin> <len> <n> rat*
  repeat <rate> <dur> <n> rat*    answer carries the side condition `repeatEnough` as 0/1
  stereo <dl> <dr> <nl> rat* <nr> rat*
  crop2 / repeat2                 the same on stereo FRAMES: `<n> (l r)*n`, the model instantiated at `α := Rat × Rat`
Lists are parsed with tail-recursive core functions (arrays reach 10^5 elements). -/
open NSV NSV.Wire NSV.C20

def dtype? : String → Option Dtype
  | "int16" => some .int16 | "int32" => some .int32 | "uint8" => some .uint8
  | "float16" => some .float16 | "float32" => some .float32 | "float64" => some .float64
  | _ => none

/-- `<n> item*n` at the head of a token list; returns the items and the remaining tokens -/
def takeList {α} (f : String → Option α) (ts : List String) : Option (List α × List String) :=
  match ts with
  | [] => none
  | n :: rest => do
      let n ← n.toNat?
      if rest.length < n then none
      let xs ← (rest.take n).mapM f
      pure (xs, rest.drop n)

/-- `<n> (l r)*n`: n stereo frames -/
def takeFrames (ts : List String) : Option (List (Rat × Rat) × List String) :=
  match ts with
  | [] => none
  | n :: rest => do
      let n ← n.toNat?
      if rest.length < 2 * n then none
      let xs ← (rest.take (2 * n)).mapM parseRat?
      pure (pairUp xs [], rest.drop (2 * n))
where
  pairUp : List Rat → List (Rat × Rat) → List (Rat × Rat)
    | a :: b :: t, acc => pairUp t ((a, b) :: acc)
    | _, acc => acc.reverse

def showFrame (p : Rat × Rat) : String := showRat p.1 ++ " " ++ showRat p.2

def showEx {α} (f : α → String) : Except String (List α) → String
  | .ok l => "ok " ++ showList f l
  | .error e => "err " ++ e

def showOpt {α} (f : α → String) : Option α → String
  | some a => f a
  | none => "undef"

def step (line : String) : String :=
  match toks line with
  | "i2f" :: dt :: rest => (do
      let dt ← dtype? dt
      let (ks, r) ← takeList String.toInt? rest
      if r ≠ [] then none
      pure (showEx showRat (int16SamplesToFloat32 dt ks))).getD "bad-op"
  | "f2i" :: dt :: rest => (do
      let dt ← dtype? dt
      let (ys, r) ← takeList parseRat? rest
      if r ≠ [] then none
      pure (showEx (showOpt toString) (floatSamplesToInt16 dt ys))).getD "bad-op"
  | "wavrt" :: dt :: rest => (do
      let dt ← dtype? dt
      let (ys, r) ← takeList parseRat? rest
      if r ≠ [] then none
      pure (showEx (showOpt showRat) (wavRoundTrip dt ys))).getD "bad-op"
  | "wavdec" :: "i" :: dt :: rest => (do
      let dt ← dtype? dt
      let (ks, r) ← takeList String.toInt? rest
      if r ≠ [] then none
      pure (showEx showRat (wavDataToSamples (.ints dt ks)))).getD "bad-op"
  | "wavdec" :: "f" :: dt :: rest => (do
      let dt ← dtype? dt
      let (ys, r) ← takeList parseRat? rest
      if r ≠ [] then none
      pure (showEx showRat (wavDataToSamples (.floats dt ys)))).getD "bad-op"
  | "crop" :: rate :: b :: len :: rest => (do
      let rate ← rate.toInt?
      let b ← parseRat? b
      let len ← parseRat? len
      let (xs, r) ← takeList parseRat? rest
      if r ≠ [] then none
      pure ("ok " ++ showList showRat (crop xs rate b len))).getD "bad-op"
  | "repeat" :: rate :: d :: rest => (do
      let rate ← rate.toInt?
      let d ← parseRat? d
      let (xs, r) ← takeList parseRat? rest
      if r ≠ [] then none
      pure (match repeatSamples xs rate d with
        | .ok ys => "ok " ++ showBool (decide (repeatEnough rne53 xs.length rate d)) ++ " " ++ showList showRat ys
        | .error e => "err " ++ e)).getD "bad-op"
  | "crop2" :: rate :: b :: len :: rest => (do
      let rate ← rate.toInt?
      let b ← parseRat? b
      let len ← parseRat? len
      let (xs, r) ← takeFrames rest
      if r ≠ [] then none
      pure ("ok " ++ showList showFrame (crop xs rate b len))).getD "bad-op"
  | "repeat2" :: rate :: d :: rest => (do
      let rate ← rate.toInt?
      let d ← parseRat? d
      let (xs, r) ← takeFrames rest
      if r ≠ [] then none
      pure (match repeatSamples xs rate d with
        | .ok ys => "ok " ++ showBool (decide (repeatEnough rne53 xs.length rate d)) ++ " " ++ showList showFrame ys
        | .error e => "err " ++ e)).getD "bad-op"
  | "stereo" :: dl :: dr :: rest => (do
      let dl ← dtype? dl
      let dr ← dtype? dr
      let (l, r1) ← takeList parseRat? rest
      let (r, r2) ← takeList parseRat? r1
      if r2 ≠ [] then none
      pure (showEx (fun (p : Rat × Rat) => showRat p.1 ++ " " ++ showRat p.2) (makeStereo 0 dl dr l r))).getD "bad-op"
  | _ => "bad-op"

def main : IO Unit := loop step
