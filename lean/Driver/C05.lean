import NoteSeqVerif.Common.Wire
import NoteSeqVerif.Model.C05
/-! line-protocol driver for C05 (compiled; no Mathlib)

* `conv <score>` — `musicxml_file_to_sequence_proto` on an abstract score; answer
  `ok NS …` (texts hex-encoded) or `err <Exception>`.
* `ratio <type> <dots> <actual> <normal>` — `duration_ratio` as `num den`.
* `pitch <step> <alter> <octave>` — `Note.pitch_to_midi_pitch`.
* `root <mime> <n> (<media-type|-> <path>)*n` — root-file choice of a `.mxl` container.

score grammar (strings travel hex-encoded as `x…`, absent values as `-`):
  score := list(scorepart) list(part);  scorepart := str optint optint;  part := str list(list(el))
  el := A list(attr) | N note | B int | F int | D list(sound) | H list(hchild) | O
  attr := d int | k optint optstr | t list(inttxt) list(inttxt) | x int
  note := (p str rat int | r | u) bool optint optint optstr nat (- | int int)
  sound := optrat optint
  hchild := r optstr optinttxt | k optstr | g optint optinttxt optstr | b optstr optinttxt | o inttxt -/
open NSV NSV.Wire NSV.C05

def hexVal (c : Char) : Option Nat :=
  if '0' ≤ c ∧ c ≤ '9' then some (c.toNat - '0'.toNat)
  else if 'a' ≤ c ∧ c ≤ 'f' then some (c.toNat - 'a'.toNat + 10)
  else none

def unhexChars : List Char → Option (List Char)
  | [] => some []
  | a :: b :: r => do
      let x ← hexVal a; let y ← hexVal b
      let v := 16 * x + y
      if v ≥ 128 then none else
      let rest ← unhexChars r
      pure (Char.ofNat v :: rest)
  | _ => none

/-- `x<hex>` → ASCII string -/
def unhex (t : String) : Option String :=
  match t.toList with
  | 'x' :: r => (unhexChars r).map String.ofList
  | _ => none

def hexDigit (n : Nat) : Char := if n < 10 then Char.ofNat (n + 48) else Char.ofNat (n - 10 + 97)

def hexOf (s : String) : String :=
  "x" ++ String.ofList (s.toUTF8.toList.flatMap (fun b => [hexDigit (b.toNat / 16), hexDigit (b.toNat % 16)]))

def pStr : P String := do let t ← P.next; match unhex t with | some s => pure s | none => failure

def pOpt {α} (f : String → Option α) : P (Option α) := do
  let t ← P.next
  if t = "-" then pure none else match f t with | some a => pure (some a) | none => failure

def pOptInt : P (Option Int) := pOpt String.toInt?
def pOptStr : P (Option String) := pOpt unhex
def pOptRat : P (Option Rat) := pOpt parseRat?

def intTxt? (t : String) : Option IntTxt :=
  if t = "bad" then some .bad else t.toInt?.map .int

def pIntTxt : P IntTxt := do let t ← P.next; match intTxt? t with | some a => pure a | none => failure
def pOptIntTxt : P (Option IntTxt) := pOpt intTxt?

def pAttr : P AttrChild := do
  let t ← P.next
  match t with
  | "d" => do let d ← P.int; pure (.divisions d)
  | "k" => do let f ← pOptInt; let m ← pOptStr; pure (.key f m)
  | "t" => do let b ← P.list pIntTxt; let bt ← P.list pIntTxt; pure (.time b bt)
  | "x" => do let c ← P.int; pure (.transpose c)
  | _ => failure

def pNoteEl : P NoteEl := do
  let k ← P.next
  let kind ← (match k with
    | "p" => do let s ← pStr; let a ← P.rat; let o ← P.int; pure (NoteKind.pitched s a o)
    | "r" => pure NoteKind.rest
    | "u" => pure NoteKind.unpitched
    | _ => failure : P NoteKind)
  let chord ← P.bool
  let duration ← pOptInt
  let voice ← pOptInt
  let type ← pOptStr
  let dots ← P.nat
  let t ← P.next
  let tuplet ← (if t = "-" then pure none else match t.toInt? with
    | some a => do let b ← P.int; pure (some (a, b))
    | none => failure : P (Option (Int × Int)))
  pure { kind, chord, duration, voice, type, dots, tuplet }

def pSound : P Sound := do let tempo ← pOptRat; let dynamics ← pOptInt; pure { tempo, dynamics }

def pHChild : P HChild := do
  let t ← P.next
  match t with
  | "r" => do let s ← pOptStr; let a ← pOptIntTxt; pure (.root s a)
  | "k" => do let s ← pOptStr; pure (.kind s)
  | "g" => do let v ← pOptInt; let a ← pOptIntTxt; let ty ← pOptStr; pure (.degree v a ty)
  | "b" => do let s ← pOptStr; let a ← pOptIntTxt; pure (.bass s a)
  | "o" => do let v ← pIntTxt; pure (.offset v)
  | _ => failure

def pEl : P El := do
  let t ← P.next
  match t with
  | "A" => do let cs ← P.list pAttr; pure (.attributes cs)
  | "N" => do let n ← pNoteEl; pure (.note n)
  | "B" => do let d ← P.int; pure (.backup d)
  | "F" => do let d ← P.int; pure (.forward d)
  | "D" => do let ss ← P.list pSound; pure (.direction ss)
  | "H" => do let cs ← P.list pHChild; pure (.harmony cs)
  | "O" => pure .other
  | _ => failure

def pScorePart : P ScorePartEl := do
  let id ← pStr; let channel ← pOptInt; let program ← pOptInt; pure { id, channel, program }

def pPart : P PartEl := do
  let id ← pStr; let measures ← P.list (P.list pEl); pure { id, measures }

def pScore : P Score := do
  let scoreParts ← P.list pScorePart; let parts ← P.list pPart; pure { scoreParts, parts }

def showConv : Except C05.Err NoteSeq → String
  | .ok s => "ok " ++ showNoteSeq { s with texts := s.texts.map (fun t => { t with text := hexOf t.text }) }
  | .error e => "err " ++ e.name

def pRootfile : P (Option String × String) := do let mt ← pOptStr; let p ← pStr; pure (mt, p)

def step (line : String) : String :=
  match toks line with
  | "conv" :: rest => match (do let s ← pScore; P.eof; pure s : P Score) rest with
      | some (sc, _) => showConv (convert sc)
      | none => "bad-op"
  | ["ratio", ty, dots, a, b] => match unhex ty, dots.toNat?, a.toInt?, b.toInt? with
      | some ty, some dots, some a, some b =>
          if b = 0 then "err ZeroDivisionError" else
          match durationRatio { voice := 1, isRest := false, pitch := 0, channel := 0, program := 0,
                                velocity := 0, duration := 0, time := 0, seconds := 0, type := ty,
                                dots := dots, tuplet := pyFraction a b, grace := false } with
          | .ok r => s!"ok {r.num} {r.den}"
          | .error e => "err " ++ e.name
      | _, _, _, _ => "bad-op"
  | ["pitch", st, a, o] => match unhex st, parseRat? a, o.toInt? with
      | some st, some a, some o => match pitchToMidi st a o with
          | .ok p => s!"ok {p}"
          | .error e => "err " ++ e.name
      | _, _, _ => "bad-op"
  | "root" :: rest => match (do let m ← pStr; let l ← P.list pRootfile; P.eof; pure (m, l) : P _) rest with
      | some ((m, l), _) => match chooseRootfile m "" l with
          | some p => "ok " ++ hexOf p
          | none => "err MusicXMLParseError"
      | none => "bad-op"
  | _ => "bad-op"

def main : IO Unit := loop step
