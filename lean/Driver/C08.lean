import NoteSeqVerif.Common.Wire
import NoteSeqVerif.Model.C08Wrap
/-! line-protocol driver for C08 (compiled; no Mathlib).

request  = `<family> <config…> <op> <args…>`   (lists travel as `<n> item*n`)
response = one line; an exception is `!<ExceptionClass>`. -/
open NSV NSV.Wire NSV.C08

def ex {α} (f : α → String) : Except String α → String
  | .ok a => f a
  | .error e => "!" ++ e

def showVec (v : List Int) : String := if v.isEmpty then "[]" else ",".intercalate (v.map toString)

def showCell : MCell → String
  | .zero => "0"
  | .one => "1"
  | .tab t k j => s!"t{t}:{k}:{j}"

/-! one-hot encodings the harness can name -/
def tabOneHot (k : Nat) (dflt : Int) (steps perm : List Int) : OneHot Int where
  numClasses := k
  encode e := if 0 ≤ e ∧ e < k then (match perm[e.toNat]? with | some i => .ok i | none => .error "ValueError")
              else .error "ValueError"
  decode i := match perm.idxOf? i with
    | some e => .ok e
    | none => .error "ValueError"
  default := dflt
  numSteps e := steps.getD e.toNat 1

/-- the three sequence encoders over a one-hot encoding -/
inductive Kind where
  | oh
  | ohi
  | lb (c : LookbackCfg)

/-- the three generic sequence encoders are the model's `SeqEnc` instances -/
abbrev Enc (ε : Type) := SeqEnc ε Int Int Int

def mkEnc {ε} [DecidableEq ε] (oh : OneHot ε) : Kind → Enc ε
  | .oh => ohEnc oh
  | .ohi => ohiEnc oh
  | .lb c => lbEnc oh c

def pKind : P Kind := do
  let t ← P.next
  if t = "oh" then pure .oh
  else if t = "ohi" then pure .ohi
  else if t = "lb" then do
    let ds ← P.list P.int
    let b ← P.int
    pure (.lb ⟨ds, b⟩)
  else failure

/-- label | decoded-against-prefix | input  for one position -/
def triple {ε} (E : Enc ε) (showEv : ε → String) (evs : List ε) (p : Int) : String :=
  let lab := E.toLabel evs p
  let dec := match lab with
    | .ok l => ex showEv (E.cite l (pySliceTo evs p))
    | .error _ => "-"
  ex toString lab ++ "|" ++ dec ++ "|" ++ ex showVec (E.toInput evs p)

def showEncode {κ} (f : κ → String) : Except String (List (List Int) × List κ) → String
  | .error e => "!" ++ e
  | .ok (ins, labs) =>
    " ".intercalate (toString ins.length :: toString labs.length ::
      (ins.zip labs).map (fun (a, b) => showVec a ++ "|" ++ f b))

def ops {ε} (E : Enc ε) (pEv : P ε) (showEv : ε → String) : P String := do
  let op ← P.next
  if op = "sizes" then
    pure s!"{E.inputSize} {E.numClasses} {ex toString E.defaultLabel}"
  else if op = "all" then do
    let evs ← P.list pEv
    pure (" ".intercalate ((List.range evs.length).map fun (q : Nat) => let p : Int := q; triple E showEv evs p))
  else if op = "pos" then do
    let evs ← P.list pEv
    let p ← P.int
    pure (triple E showEv evs p)
  else if op = "cite" then do
    let evs ← P.list pEv
    let ci ← P.int
    pure (ex showEv (E.cite ci evs))
  else if op = "encode" then do
    let evs ← P.list pEv
    pure (showEncode toString (E.encode evs))
  else if op = "gen" then do
    let primer ← P.list pEv
    let labels ← P.list P.int
    let g := genLoop E.cite labels primer
    pure (ex (fun l => showList showEv l) g ++ " | " ++ ex toString (E.labelsToNumSteps labels))
  else failure

def pPerfEv : P (Nat × Int) := do
  let ty ← P.nat
  let v ← P.int
  pure (ty, v)
def showPerfEv (e : Nat × Int) : String := s!"{e.1}:{e.2}"

/-- `<onehot spec> <kind>` then continue with `k` -/
def withEnc (k : ∀ {ε : Type}, Enc ε → P ε → (ε → String) → P String) : P String := do
  let t ← P.next
  if t = "tab" then do
    let n ← P.nat
    let d ← P.int
    let steps ← P.rep P.int n
    let perm ← P.rep P.int n
    let kd ← pKind
    k (mkEnc (tabOneHot n d steps perm) kd) P.int toString
  else if t = "mel" then do
    let mn ← P.int
    let mx ← P.int
    let kd ← pKind
    k (mkEnc (melOneHot mn mx) kd) P.int toString
  else if t = "perf" then do
    let b ← P.int
    let s ← P.int
    let lo ← P.int
    let hi ← P.int
    let kd ← pKind
    k (mkEnc (perfOneHot b s lo hi) kd) pPerfEv showPerfEv
  else failure

def pGeneric : P String := withEnc (fun E pEv showEv => ops E pEv showEv)

def keyTriple (c : KeyCfg) (evs : List Int) (p : Int) : String :=
  let lab := keyEventsToLabel c evs p
  let dec := match lab with
    | .ok l => ex toString (keyClassIndexToEvent c l (pySliceTo evs p))
    | .error _ => "-"
  ex toString lab ++ "|" ++ dec ++ "|" ++ ex showVec (keyEventsToInput c evs p)

def pKey : P String := do
  let mn ← P.int
  let mx ← P.int
  let ds ← P.list P.int
  let b ← P.int
  let c : KeyCfg := ⟨mn, mx, ds, b⟩
  let op ← P.next
  if op = "sizes" then pure s!"{keyInputSize c} {keyNumClasses c} {keyDefaultLabel c}"
  else if op = "all" then do
    let evs ← P.list P.int
    pure (" ".intercalate ((List.range evs.length).map fun (q : Nat) => let p : Int := q; keyTriple c evs p))
  else if op = "pos" then do
    let evs ← P.list P.int
    let p ← P.int
    pure (keyTriple c evs p)
  else if op = "cite" then do
    let evs ← P.list P.int
    let ci ← P.int
    pure (ex toString (keyClassIndexToEvent c ci evs))
  else if op = "encode" then do
    let evs ← P.list P.int
    pure (showEncode toString (encodeG (keyEventsToInput c) (keyEventsToLabel c) evs))
  else if op = "gen" then do
    let primer ← P.list P.int
    let labels ← P.list P.int
    pure (ex showInts (genLoop (keyClassIndexToEvent c) labels primer) ++ " | " ++
          toString (keyLabelsToNumSteps labels))
  else failure

def pNPEvent : P NPEvent := do
  let a ← P.int
  let b ← P.int
  let c ← P.int
  let d ← P.int
  pure ⟨a, b, c, d⟩
def showNPEvent (e : NPEvent) : String := s!"{e.shift}:{e.pitch}:{e.vel}:{e.dur}"
def showLabel6 (l : List Int) : String := ":".intercalate (l.map toString)

def pNP : P String := do
  let bins ← P.int
  let ms ← P.nat
  let md ← P.nat
  let lo ← P.int
  let hi ← P.int
  let op ← P.next
  match npInit ⟨bins, ms, md, lo, hi⟩ with
  | .error e => pure ("!" ++ e)
  | .ok E =>
    if op = "init" then
      pure s!"{E.shiftSeg} {E.shiftPer} {E.durSeg} {E.durPer} {showInts E.numClasses} {npInputSize E}"
    else if op = "all" then do
      let evs ← P.list pNPEvent
      pure (" ".intercalate ((List.range evs.length).map fun (q : Nat) => let p : Int := q;
        let lab := npEventsToLabel E evs p
        let dec := match lab with
          | .ok l => ex showNPEvent (npClassIndexToEvent E l)
          | .error _ => "-"
        ex showLabel6 lab ++ "|" ++ dec ++ "|" ++ ex showVec (npEventsToInput E evs p)))
    else if op = "cite" then do
      let l ← P.rep P.int 6
      pure (ex showNPEvent (npClassIndexToEvent E l))
    else if op = "encode" then do
      let evs ← P.list pNPEvent
      pure (showEncode showLabel6 (encodeG (npEventsToInput E) (npEventsToLabel E) evs))
    else if op = "steps" then do
      let ls ← P.list (P.rep P.int 6)
      pure (ex toString (npLabelsToNumSteps E ls) ++ " | " ++
            ex (fun l => showList showNPEvent l) (genLoop (fun l _ => npClassIndexToEvent E l) ls []))
    else failure

def pPR : P String := do
  let n ← P.nat
  let op ← P.next
  if op = "ev" then do
    let ev ← P.list P.int
    let lab := if ev.all (· ≥ 0) then toString (prEventToLabel (ev.map Int.toNat)) else "-"
    pure (lab ++ "|" ++ ex showVec (prEventToInput n ev))
  else if op = "cite" then do
    let ci ← P.int
    pure (ex showNats (prClassIndexToEvent n ci))
  else if op = "all" then do
    let evs ← P.list (P.list P.nat)
    pure (" ".intercalate ((List.range evs.length).map fun (q : Nat) => let p : Int := q;
      let lab := prEventsToLabel evs p
      let dec := match lab with
        | .ok l => ex showNats (prClassIndexToEvent n l)
        | .error _ => "-"
      ex toString lab ++ "|" ++ dec ++ "|" ++ ex showVec (prEventsToInput n evs p)))
  else if op = "encode" then do
    let evs ← P.list (P.list P.nat)
    pure (showEncode toString (encodeG (prEventsToInput n) prEventsToLabel evs))
  else failure

def pMod : P String := do
  let bins ← P.int
  let ms ← P.int
  let c : ModCfg := ⟨bins, ms⟩
  let oh := perfOneHot bins ms Gen.MIN_MIDI_PITCH Gen.MAX_MIDI_PITCH
  let op ← P.next
  if op = "sizes" then pure s!"{modInputSize c} {ohNumClasses oh} {ex toString (ohDefaultLabel oh)}"
  else if op = "all" then do
    let evs ← P.list pPerfEv
    pure (" ".intercalate ((List.range evs.length).map fun (q : Nat) => let p : Int := q;
      let lab := ohEventsToLabel oh evs p
      let dec := match lab with
        | .ok l => ex showPerfEv (ohClassIndexToEvent oh l (pySliceTo evs p))
        | .error _ => "-"
      ex toString lab ++ "|" ++ dec ++ "|" ++
        ex (fun v => ",".intercalate (v.map showCell)) (modEventsToInput c evs p)))
  else if op = "gen" then do
    let labels ← P.list P.int
    pure (ex (fun l => showList showPerfEv l) (genLoop (ohClassIndexToEvent oh) labels []) ++ " | " ++
          ex toString (ohLabelsToNumSteps oh labels))
  else failure

/-! ### components of the wrapper / the base-class helpers, uniformly over every encoder class

a component is `g <onehot> <kind>` | `key mn mx <dists> bits` | `np bins ms md lo hi` | `pr n` | `mod bins ms`;
its input cells and `num_classes` are printed as strings, so control and target may be of any two classes -/
structure Codec (ε κ : Type) where
  pEv : P ε
  showEv : ε → String
  pLab : P κ
  showLab : κ → String

abbrev Comp (ε κ : Type) := SeqEnc ε String κ String

def intComp {ε} (E : SeqEnc ε Int Int Int) : Comp ε Int := (E.mapCells toString).mapNC toString

def intCodec {ε} (pEv : P ε) (showEv : ε → String) : Codec ε Int := ⟨pEv, showEv, P.int, toString⟩

def withComp (k : ∀ {ε κ : Type}, Comp ε κ → Codec ε κ → P String) : P String := do
  let fam ← P.next
  if fam = "g" then withEnc (fun E pEv showEv => k (intComp E) (intCodec pEv showEv))
  else if fam = "key" then do
    let mn ← P.int
    let mx ← P.int
    let ds ← P.list P.int
    let b ← P.int
    k (intComp (keyEnc ⟨mn, mx, ds, b⟩)) (intCodec P.int toString)
  else if fam = "np" then do
    let bins ← P.int
    let ms ← P.nat
    let md ← P.nat
    let lo ← P.int
    let hi ← P.int
    match npInit ⟨bins, ms, md, lo, hi⟩ with
    | .error _ => failure
    | .ok E => k (((npEnc E).mapCells toString).mapNC showInts) ⟨pNPEvent, showNPEvent, P.rep P.int 6, showLabel6⟩
  else if fam = "pr" then do
    let n ← P.nat
    k (intComp (prEnc n)) (intCodec (P.list P.nat) showNats)
  else if fam = "mod" then do
    let bins ← P.int
    let ms ← P.int
    k (((modEnc ⟨bins, ms⟩).mapCells showCell).mapNC toString) (intCodec pPerfEv showPerfEv)
  else failure

def showVecS (v : List String) : String := if v.isEmpty then "[]" else ",".intercalate v

def showEncodeS {κ} (f : κ → String) : Except String (List (List String) × List κ) → String
  | .error e => "!" ++ e
  | .ok (ins, labs) =>
    " ".intercalate (toString ins.length :: toString labs.length ::
      (ins.zip labs).map (fun (a, b) => showVecS a ++ "|" ++ f b))

def showBatch (b : List (List (List String))) : String := showList (fun s => showList showVecS s) b

/-- base-class helpers of one encoder: `u <component> <op> …` -/
def uOps {ε κ} (E : Comp ε κ) (cd : Codec ε κ) : P String := do
  let op ← P.next
  if op = "sizes" then pure s!"{E.inputSize} {E.numClasses} {ex cd.showLab E.defaultLabel}"
  else if op = "batch" then do
    let full ← P.bool
    let seqs ← P.list (P.list cd.pEv)
    pure (ex showBatch (E.inputsBatch seqs full))
  else if op = "xgen" then do
    let primer ← P.list cd.pEv
    let labels ← P.list cd.pLab
    pure (ex (showList cd.showEv) (E.extendLoop labels primer) ++ " | " ++ ex toString (E.labelsToNumSteps labels))
  else if op = "steps" then do
    let labels ← P.list cd.pLab
    pure (ex toString (E.labelsToNumSteps labels))
  else if op = "encode" then do
    let evs ← P.list cd.pEv
    pure (showEncodeS cd.showLab (E.encode evs))
  else failure

/-- every public method of the conditional wrapper: `cond <control component> <target component> <op> …` -/
def pCond : P String :=
  withComp (fun C cc =>
    withComp (fun T ct => do
      let W : Cond _ _ _ _ _ _ _ := ⟨C, T⟩
      let labDec := fun (tgt : List _) (p : Int) =>
        let lab := W.toLabel tgt p
        let dec := match lab with
          | .ok l => ex ct.showEv (W.cite l (pySliceTo tgt p))
          | .error _ => "-"
        ex ct.showLab lab ++ "|" ++ dec
      let op ← P.next
      if op = "sizes" then
        pure s!"{W.inputSize} {W.numClasses} {ex ct.showLab W.defaultLabel}"
      else if op = "encode" then do
        let ctrl ← P.list cc.pEv
        let tgt ← P.list ct.pEv
        pure (showEncodeS ct.showLab (W.encode ctrl tgt))
      else if op = "input" then do
        let ctrl ← P.list cc.pEv
        let tgt ← P.list ct.pEv
        let p ← P.int
        pure (ex showVecS (W.toInput ctrl tgt p))
      else if op = "all" then do
        let tgt ← P.list ct.pEv
        pure (" ".intercalate ((List.range tgt.length).map fun (q : Nat) => labDec tgt (q : Int)))
      else if op = "label" then do
        let tgt ← P.list ct.pEv
        let p ← P.int
        pure (labDec tgt p)
      else if op = "cite" then do
        let tgt ← P.list ct.pEv
        let ci ← ct.pLab
        pure (ex ct.showEv (W.cite ci tgt))
      else if op = "steps" then do
        let labels ← P.list ct.pLab
        pure (ex toString (W.labelsToNumSteps labels))
      else if op = "gen" then do
        let primer ← P.list ct.pEv
        let labels ← P.list ct.pLab
        pure (ex (showList ct.showEv) (W.extendLoop labels primer) ++ " | " ++ ex toString (W.labelsToNumSteps labels))
      else if op = "batch" then do
        let full ← P.bool
        let ctrls ← P.list (P.list cc.pEv)
        let tgts ← P.list (P.list ct.pEv)
        pure (ex showBatch (W.inputsBatch ctrls tgts full))
      else failure))

def top : P String := do
  let fam ← P.next
  if fam = "g" then pGeneric
  else if fam = "cond" then pCond
  else if fam = "key" then pKey
  else if fam = "np" then pNP
  else if fam = "pr" then pPR
  else if fam = "mod" then pMod
  else if fam = "u" then withComp (fun E cd => uOps E cd)
  else failure

def step (line : String) : String :=
  match P.run top line with
  | some s => s
  | none => "bad-op"

def main : IO Unit := loop step
