import NoteSeqVerif.Common.Wire
import NoteSeqVerif.Model.C04
import NoteSeqVerif.Model.C04Full
/-! line-protocol driver for C04 (compiled; no Mathlib).

request : `book <nsections> section*`, section = `<nlines> line*`, line = `F field` | `M <ntoks> tok*`
response: `raise <Class>` | `ok <ntunes> tune* <nexc> class*` (see `showTune`) -/
open NSV NSV.Wire NSV.C04

def hexVal (c : Char) : Option Nat :=
  if '0' ≤ c ∧ c ≤ '9' then some (c.toNat - 48)
  else if 'a' ≤ c ∧ c ≤ 'f' then some (c.toNat - 87)
  else none

def unhexAux : List Char → Option (List Char)
  | [] => some []
  | a :: b :: r => do
      let x ← hexVal a
      let y ← hexVal b
      let rest ← unhexAux r
      pure (Char.ofNat (16 * x + y) :: rest)
  | _ => none

/-- strings travel as `h<hex of the ASCII bytes>` -/
def pStr : P (List Char) := do
  let t ← P.next
  match t.toList with
  | 'h' :: r => match unhexAux r with
    | some s => pure s
    | none => failure
  | _ => failure

def hexDigit (n : Nat) : Char := if n < 10 then Char.ofNat (48 + n) else Char.ofNat (87 + n)
def showStr (s : List Char) : String :=
  String.ofList ('h' :: s.flatMap (fun c => [hexDigit (c.toNat / 16), hexDigit (c.toNat % 16)]))

def pChar : P Char := do
  let t ← P.next
  match t.toList with
  | [c] => pure c
  | _ => failure

def pAcc : P Acc := do
  let t ← P.next
  match t with
  | "0" => pure .none
  | "^" => pure .sharp
  | "_" => pure .flat
  | "=" => pure .natural
  | "^^" => pure .dsharp
  | "__" => pure .dflat
  | _ => failure

def pOptNat : P (Option Nat) := do
  let t ← P.next
  if t = "-" then pure none else match t.toNat? with
    | some n => pure (some n)
    | none => failure

def pKey : P KeyTok := do
  let tonic ← pChar
  let a ← P.next
  let acc ← (if a = "0" then pure [] else pure a.toList : P (List Char))
  let mode ← pStr
  let exp ← P.bool
  let accs ← P.list (do let a ← pAcc; let c ← pChar; pure (a, c))
  pure { tonic := tonic, acc := acc, mode := mode, exp := exp, accs := accs }

def pField : P Field := do
  let t ← P.next
  match t with
  | "X" => do let n ← P.int; pure (.refnum n)
  | "XBAD" => pure .refBad
  | "T" => do let s ← pStr; pure (.title s)
  | "C" => do let s ← pStr; pure (.composer s)
  | "MC" => pure .meterC
  | "MCUT" => pure .meterCut
  | "MNONE" => pure .meterNone
  | "M" => do let n ← P.int; let d ← P.int; pure (.meter n d)
  | "MBAD" => pure .meterBad
  | "L" => do let n ← P.int; let d ← P.int; pure (.unitLen n d)
  | "LBAD" => pure .unitBad
  | "Q" => do
      let beats ← P.list (do let n ← P.nat; let d ← P.nat; pure (n, d))
      let r ← P.nat
      pure (.tempo beats r)
  | "QOLD" => do let r ← P.nat; pure (.tempoOld r)
  | "QSTR" => pure .tempoStr
  | "QBAD" => pure .tempoBad
  | "K" => do let k ← pKey; pure (.key k)
  | "KBAD" => pure .keyBad
  | "P" => pure .part
  | "V" => pure .voice
  | "O" => pure .other
  | _ => failure

def pTok : P Tok := do
  let t ← P.next
  match t with
  | "N" => do
      let a ← pAcc
      let c ← pChar
      let octs ← P.list P.bool
      let num ← pOptNat
      let sl ← P.nat
      let den ← pOptNat
      if sl = 0 ∧ den.isSome then failure
      else pure (.note a c octs { num := num, slashes := sl, den := den })
  | "CH" => pure .chord
  | "BR" => do let gt ← P.bool; let n ← P.nat; pure (.broken gt n)
  | "I" => do let f ← pField; pure (.inline f)
  | "VE" => pure .variantEnding
  | "B" => do let a ← P.nat; let b ← P.nat; let c ← P.nat; pure (.bar a b c)
  | "CO" => do let n ← P.nat; pure (.colons n)
  | "AN" => do let s ← pStr; pure (.annot s)
  | "DE" => pure .deco
  | "SL" => pure .slur
  | "TI" => pure .tie
  | "CT" => pure .cont
  | "TU" => pure .tuplet
  | "IV" => pure .invalid
  | _ => failure

def pLine : P Line := do
  let t ← P.next
  match t with
  | "F" => do let f ← pField; pure (.field f)
  | "M" => do let ts ← P.list pTok; pure (.music ts)
  | _ => failure

def pBook : P (List (List Line)) := do
  P.lit "book"
  P.list (P.list pLine)

def showNote4 (n : C04.Note) : String := s!"{n.pitch} {n.vel} {showRat n.start} {showRat n.end_}"

def errClass : C04.Err → String
  | .abc c => c
  | .esc c => c

/-- every container of `expand_section_groups(tune)` but the notes (those are `exp`) -/
def showExpAll (t : Tune) : String :=
  match expandAll rne53 t with
  | .error e => "err " ++ e.name
  | .ok s => " ".intercalate [
      "ok", showRat s.totalTime, toString s.notes.length,
      "tempos", showList (fun (e : NSV.Tempo) => s!"{showRat e.time} {showRat e.qpm}") s.tempos,
      "ts", showList (fun (e : NSV.TimeSig) => s!"{showRat e.time} {e.num} {e.den}") s.timeSigs,
      "ks", showList (fun (e : NSV.KeySig) => s!"{showRat e.time} {e.key} {e.mode}") s.keySigs,
      "ta", showList (fun (e : NSV.TextAnn) => s!"{showRat e.time} {e.kind} {showStr e.text.toList}") s.texts,
      "sa", showList (fun (e : NSV.SectionAnn) => s!"{showRat e.time} {e.sectionId}") s.sectionAnns]

def showTune (t : Tune) : String :=
  let exp := match expand rne53 t with
    | .ok ns => "ok " ++ showList showNote4 ns
    | .error e => "err " ++ errClass e
  " ".intercalate [
    toString t.refnum,
    "notes", showList showNote4 t.notes,
    "tempos", showList (fun (p : Rat × Rat) => s!"{showRat p.1} {showRat p.2}") t.tempos,
    "ts", showList (fun (p : Rat × Int × Int) => s!"{showRat p.1} {p.2.1} {p.2.2}") t.timeSigs,
    "ks", showList (fun (p : Rat × Nat × Nat) => s!"{showRat p.1} {p.2.1} {p.2.2}") t.keySigs,
    "sa", showList (fun (p : Rat × Int) => s!"{showRat p.1} {p.2}") t.sections,
    "sg", showList (fun (p : Int × Nat) => s!"{p.1} {p.2}") t.groups,
    "ta", showList (fun (p : Rat × Nat × List Char) => s!"{showRat p.1} {p.2.1} {showStr p.2.2}") t.texts,
    "total", showRat t.totalTime,
    "title", showStr t.title,
    "comp", showList showStr t.composers,
    "artist", showStr t.artist,
    "exp", exp,
    "expall", showExpAll t]

def step (line : String) : String :=
  match P.run pBook line with
  | none => "bad-op"
  | some secs =>
    match parseBook rne53 secs with
    | .error e => "raise " ++ errClass e
    | .ok (tunes, excs) => "ok " ++ showList showTune tunes ++ " " ++ showList id excs

def main : IO Unit := loop step
