#!/bin/bash
# Run once after a fresh restore (offline): regenerate tables from /repo, build every proof module
# and every compiled driver with lake.  Everything comes from files on disk.
cd "$(dirname "$0")"
export PYTHONPATH="$PWD${PYTHONPATH:+:$PYTHONPATH}"
export PYTHONHASHSEED=0 TF_CPP_MIN_LOG_LEVEL=3
exec /venv/bin/python -W ignore -m harness.setup
